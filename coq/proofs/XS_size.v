(* XS_size.v -- Size of XMachineS (Map, map.go) at quiescence is exact (C08), every
   schedule: in every reachable state in which no thread is inside a modifying call
   (every program counter is idle, on the lock-free read path, in Size, or in a Range
   that is not inside a visitor's call), a thread that is idle with Size as its next
   call, run alone, returns with its (1 + number of counter stripes)-th step the number
   of pairs of the current table,  length (tpairs tb)  where
       tpairs tb = the (key, value) pairs of the slots whose key and value pointers are
                   both set, chain by chain -- what Range's plain copy takes
   and that list is a duplicate-free enumeration of EXACTLY what a lock-free reader can
   find in the table (svis of XS_vis.v = sabs of XS_abs.v for the current table).
   Built on: the counter invariant of XS_count.v (number of keys = stripes + owed), the
   cell invariant of XS_cells.v (without a writer in the middle of a slot every slot is
   free or complete, complete slots lie in their key's home chain, keys are unique in a
   chain), XF of XS_read.v (an idle thread has no Range frame, so its return is a
   return to the caller).
   The hypothesis is "idle and next call = Size": the invocation and the LoadPointer of
   m.table are ONE scheduling step, no reachable state has the program counter QS_Table. *)
From CacheV Require Import Base SpecMap XMachineS.
From CacheV.proofs Require Import X_maps XS_inv XS_lock XS_own XS_count XS_cells XS_vis XS_abs XS_read.
From Coq Require Import NArith Lia.
Local Open Scope nat_scope.

Section SSize.
  Context {K V : Type}.
  Variable eqd : forall a b : K, {a = b} + {a <> b}.
  Variable hash : K -> N -> N.
  Variable idx : N -> nat -> nat.
  Variable tophash : N -> N.
  Variable nslots : nat.
  Variable seeds : nat -> N.
  Variable grow_needed : nat -> Z -> bool.
  Variable shrink_policy : nat -> Z -> bool.
  Variable nstripes : nat -> nat.
  Variable minlen : nat.
  Variable grow_only : bool.

  Notation mslot := (@mslot K V).
  Notation mtable := (@mtable K V).
  Notation mstate := (@mstate K V).
  Notation spc := (@spc K V).
  Notation empty_mslot := (@empty_mslot K V).
  Notation sstep_pc := (@sstep_pc K V eqd hash idx tophash nslots seeds grow_needed shrink_policy nstripes minlen grow_only).
  Notation sstep := (@sstep K V eqd hash idx tophash nslots seeds grow_needed shrink_policy nstripes minlen grow_only).
  Notation srun := (@srun K V eqd hash idx tophash nslots seeds grow_needed shrink_policy nstripes minlen grow_only).
  Notation stab_at := (@stab_at K V nslots nstripes).
  Notation shome := (@shome K V hash idx).
  Notation tabT := (@tabT K V nslots nstripes).
  Notation sinvoke := (@sinvoke K V).
  Notation XB := (@XB K V hash idx tophash nslots nstripes).
  Notation svis := (@svis K V hash idx tophash nslots).
  Notation topent := (topent nslots).
  Notation ktop := (@ktop K V hash tophash).

  (* ---------------- Size run alone returns the sum of the stripes ---------------- *)

  Lemma ssum_skipn (l : list Z) i : i < length l -> ssum_z (skipn i l) = (nth i l 0 + ssum_z (skipn (S i) l))%Z.
  Proof.
    revert i. induction l as [|x r IH]; intros i Hi; [cbn in Hi; lia|].
    destruct i as [|i]; [reflexivity|]. cbn [skipn nth]. apply IH. cbn in Hi. lia.
  Qed.

  Lemma sstep_sum s t tab i acc : h_pc s t = QS_Sum tab i acc ->
    sstep s t = Some (sgoto s t (if Nat.ltb (S i) (snstr (stab_at s tab)) then QS_Sum tab (S i) (acc + sstripe (stab_at s tab) i)
                                 else QRet (SRNat (acc + sstripe (stab_at s tab) i)))
                            [SStep t (SKLoadI64 (sstripe (stab_at s tab) i))]).
  Proof. intros Hp. unfold XMachineS.sstep. rewrite Hp. reflexivity. Qed.

  Lemma shared_set_pc (s : mstate) t p : sshared_eq s (sset_pc s t p).
  Proof. unfold sshared_eq. cbn. auto 10. Qed.

  Lemma shared_trans (a b c : mstate) : sshared_eq a b -> sshared_eq b c -> sshared_eq a c.
  Proof.
    intros (A1 & A2 & A3 & A4 & A5 & A6 & A7) (B1 & B2 & B3 & B4 & B5 & B6 & B7). unfold sshared_eq. repeat split; congruence.
  Qed.

  Theorem solo_sum t : forall n s tab i acc, h_pc s t = QS_Sum tab i acc -> h_frame s t = None ->
    snstr (stab_at s tab) = i + S n ->
    let r := srun s (repeat t (S n)) in
    h_pc (fst r) t = QIdle
    /\ In (SRes t (SRNat (acc + ssum_z (skipn i (m_size (stab_at s tab)))))) (snd r)
    /\ sshared_eq s (fst r)
    /\ (forall t', t' <> t -> h_pc (fst r) t' = h_pc s t').
  Proof.
    induction n as [|n IH]; intros s tab i acc Hp Hf Hn; cbv zeta.
    - cbn [repeat XMachineS.srun]. rewrite (sstep_sum s t tab i acc Hp).
      assert (El : Nat.ltb (S i) (snstr (stab_at s tab)) = false) by (apply Nat.ltb_ge; lia). rewrite El.
      rewrite (sgoto_noframe s t _ _ Hf).
      cbn [fst snd sset_pc h_pc]. destruct (Nat.eq_dec t t) as [_|Hc]; [|exfalso; apply Hc; reflexivity].
      split; [reflexivity|]. split.
      + rewrite app_nil_r. apply in_or_app. right. left. f_equal. f_equal.
        rewrite ssum_skipn by (unfold snstr in Hn; lia). rewrite skipn_all2 by (unfold snstr in Hn; lia).
        unfold sstripe, ssum_z. cbn [fold_right]. lia.
      + split; [apply shared_set_pc|]. intros t' Hne. destruct (Nat.eq_dec t' t); [contradiction | reflexivity].
    - change (repeat t (S (S n))) with (t :: repeat t (S n)). cbn [XMachineS.srun]. rewrite (sstep_sum s t tab i acc Hp).
      assert (El : Nat.ltb (S i) (snstr (stab_at s tab)) = true) by (apply Nat.ltb_lt; lia). rewrite El.
      rewrite (sgoto_noframe s t _ _ Hf).
      set (s1 := sset_pc s t (QS_Sum tab (S i) (acc + sstripe (stab_at s tab) i))).
      assert (Hp1 : h_pc s1 t = QS_Sum tab (S i) (acc + sstripe (stab_at s tab) i))
        by (unfold s1; cbn [sset_pc h_pc]; destruct (Nat.eq_dec t t); congruence).
      assert (Et : stab_at s1 tab = stab_at s tab) by reflexivity.
      assert (Hf1 : h_frame s1 t = None) by exact Hf.
      specialize (IH s1 tab (S i) _ Hp1 Hf1). rewrite Et in IH. specialize (IH ltac:(lia)). cbv zeta in IH.
      destruct (XMachineS.srun _ _ _ _ _ _ _ _ _ _ _ s1 (repeat t (S n))) as [s2 ls2]. cbn [fst snd] in *.
      destruct IH as [F1 [F2 [F3 F4]]].
      split; [exact F1|]. split.
      + apply in_or_app. right. rewrite ssum_skipn by (unfold snstr in Hn; lia).
        unfold sstripe in F2. replace (acc + (nth i (m_size (stab_at s tab)) 0 + ssum_z (skipn (S i) (m_size (stab_at s tab)))))%Z
          with (acc + nth i (m_size (stab_at s tab)) 0 + ssum_z (skipn (S i) (m_size (stab_at s tab))))%Z by lia. exact F2.
      + split; [apply (shared_trans s s1 s2); [apply shared_set_pc | exact F3]|].
        intros t' Hne. rewrite (F4 t' Hne). unfold s1. cbn [sset_pc h_pc].
        destruct (Nat.eq_dec t' t); [contradiction | reflexivity].
  Qed.

  (* Size standing before its first primitive (the state right after the invocation), run alone:
     it returns the sum of the stripes of the current table *)
  Theorem solo_size s t : h_pc s t = QS_Table -> h_frame s t = None -> 0 < snstr (stab_at s (h_cur s)) ->
    let r := srun s (repeat t (S (snstr (stab_at s (h_cur s))))) in
    h_pc (fst r) t = QIdle
    /\ In (SRes t (SRNat (ssum_z (m_size (stab_at s (h_cur s)))))) (snd r)
    /\ sshared_eq s (fst r)
    /\ (forall t', t' <> t -> h_pc (fst r) t' = h_pc s t').
  Proof.
    intros Hp Hf Hpos. cbv zeta.
    destruct (snstr (stab_at s (h_cur s))) as [|n] eqn:En; [lia|].
    change (repeat t (S (S n))) with (t :: repeat t (S n)). cbn [XMachineS.srun].
    assert (Ex : sstep s t = Some (sset_pc s t (QS_Sum (h_cur s) 0 0%Z), [SStep t (SKLoadPtr false)])).
    { unfold XMachineS.sstep. rewrite Hp. cbn [XMachineS.sstep_pc]. rewrite (sgoto_noframe s t _ _ Hf). reflexivity. }
    rewrite Ex. set (s1 := sset_pc s t (QS_Sum (h_cur s) 0 0%Z)).
    assert (Hp1 : h_pc s1 t = QS_Sum (h_cur s) 0 0%Z) by (unfold s1; cbn [sset_pc h_pc]; destruct (Nat.eq_dec t t); congruence).
    assert (Hf1 : h_frame s1 t = None) by exact Hf.
    pose proof (solo_sum t n s1 (h_cur s) 0 0%Z Hp1 Hf1) as H. change (stab_at s1 (h_cur s)) with (stab_at s (h_cur s)) in H.
    specialize (H En). cbv zeta in H.
    destruct (XMachineS.srun _ _ _ _ _ _ _ _ _ _ _ s1 (repeat t (S n))) as [s2 ls2]. cbn [fst snd] in *.
    destruct H as [F1 [F2 [F3 F4]]].
    split; [exact F1|]. split; [apply in_or_app; right; cbn [skipn] in F2; rewrite Z.add_0_l in F2; exact F2|].
    split; [apply (shared_trans s s1 s2); [apply shared_set_pc | exact F3]|].
    intros t' Hne. rewrite (F4 t' Hne). unfold s1. cbn [sset_pc h_pc]. destruct (Nat.eq_dec t' t); [contradiction | reflexivity].
  Qed.

  (* ---------------- what is counted: the pairs a Range of the table copies ---------------- *)

  Definition tpairs (tb : mtable) : list (K * V) := flat_map (@slive_pairs K V) (m_chains tb).

  (* every slot of the chain is free or complete *)
  Definition settled (tb : mtable) (b : nat) : Prop :=
    forall pos, pos < length (schain_of tb b) ->
      sfree (nth pos (schain_of tb b) empty_mslot) (topent (ctops tb b) pos)
      \/ sfull hash idx tophash tb b (nth pos (schain_of tb b) empty_mslot) (topent (ctops tb b) pos).

  Lemma live_in (c : list mslot) k v :
    In (k, v) (slive_pairs c) <-> exists pos, pos < length c /\ ms_key (nth pos c empty_mslot) = Some k
                                              /\ exists id, ms_val (nth pos c empty_mslot) = Some (v, id).
  Proof.
    unfold slive_pairs. rewrite in_flat_map. split.
    - intros [sl [Hin Hs]]. destruct (In_nth c sl empty_mslot Hin) as [pos [Hp E]]. exists pos. split; [exact Hp|]. rewrite E.
      destruct (ms_key sl) as [k'|]; [|destruct Hs]. destruct (ms_val sl) as [[v' id]|]; [|destruct Hs].
      destruct Hs as [Hs|[]]. inversion Hs; subst. split; [reflexivity | exists id; reflexivity].
    - intros [pos [Hp [Hk [id Hv]]]]. exists (nth pos c empty_mslot). split; [apply nth_In; exact Hp|].
      rewrite Hk, Hv. left. reflexivity.
  Qed.

  Lemma tpairs_in (tb : mtable) k v : In (k, v) (tpairs tb) <-> exists b, b < m_len tb /\ In (k, v) (slive_pairs (schain_of tb b)).
  Proof.
    unfold tpairs, schain_of, m_len. rewrite in_flat_map. split.
    - intros [c [Hin Hc]]. destruct (In_nth _ c [] Hin) as [b [Hb E]]. exists b. split; [exact Hb|]. rewrite E. exact Hc.
    - intros [b [Hb Hc]]. exists (nth b (m_chains tb) []). split; [apply nth_In; exact Hb | exact Hc].
  Qed.

  (* in a settled chain: a counted slot is a complete one *)
  Lemma live_length_gen (c : list mslot) :
    (forall sl, In sl c -> ms_key sl <> None -> ms_val sl <> None) -> length (slive_pairs c) = nvis c.
  Proof.
    induction c as [|sl r IH]; intros H; [reflexivity|].
    unfold slive_pairs, nvis in *. cbn [flat_map filter]. rewrite app_length, IH by (intros x Hx; apply H; right; exact Hx).
    unfold counted. pose proof (H sl (or_introl eq_refl)) as Hs.
    destruct (ms_key sl) as [k|]; [|reflexivity]. destruct (ms_val sl) as [[v id]|]; [reflexivity|].
    exfalso. apply Hs; [discriminate | reflexivity].
  Qed.

  Lemma settled_length (tb : mtable) b : settled tb b -> length (slive_pairs (schain_of tb b)) = nvis (schain_of tb b).
  Proof.
    intros Hs. apply live_length_gen. intros sl Hin Hk. destruct (In_nth _ sl empty_mslot Hin) as [pos [Hp E]].
    destruct (Hs pos Hp) as [[A _]|[k [v [id [_ [B _]]]]]]; rewrite E in *; [contradiction | rewrite B; discriminate].
  Qed.

  Lemma tpairs_length (tb : mtable) : (forall b, b < m_len tb -> settled tb b) -> Z.of_nat (length (tpairs tb)) = tcount tb.
  Proof.
    intros Hs. unfold tpairs, tcount. f_equal.
    assert (H : forall b, b < length (m_chains tb) -> length (slive_pairs (nth b (m_chains tb) [])) = nvis (nth b (m_chains tb) []))
      by (intros b Hb; apply (settled_length tb b); apply Hs; exact Hb).
    clear Hs. induction (m_chains tb) as [|c r IH]; [reflexivity|].
    cbn [flat_map map sum_nat]. rewrite app_length. pose proof (H 0 ltac:(cbn; lia)) as H0. cbn [nth] in H0. rewrite H0. f_equal.
    apply IH. intros b Hb. apply (H (S b)). cbn. lia.
  Qed.

  Lemma live_nodup (c : list mslot) : uniq c -> NoDup (map fst (slive_pairs c)).
  Proof.
    induction c as [|sl r IH]; intros Hu; [constructor|].
    assert (Hr : uniq r).
    { intros p1 p2 k H1 H2 E1 E2. assert (S p1 = S p2); [|lia]. apply (Hu (S p1) (S p2) k); cbn [length nth]; try lia; assumption. }
    unfold slive_pairs in *. cbn [flat_map]. rewrite map_app.
    destruct (ms_key sl) as [k|] eqn:Ek; [|apply IH; exact Hr]. destruct (ms_val sl) as [[v id]|]; [|apply IH; exact Hr].
    cbn [map fst app]. constructor; [|apply IH; exact Hr].
    intros Hin. apply in_map_iff in Hin. destruct Hin as [[k' v'] [E Hin]]. cbn in E. subst k'.
    apply (live_in r k v') in Hin. destruct Hin as [pos [Hp [Hk _]]].
    assert (0 = S pos); [|lia]. apply (Hu 0 (S pos) k); cbn [length nth]; try lia; assumption.
  Qed.

  Lemma NoDup_app' {A} (a b : list A) : NoDup a -> NoDup b -> (forall x, In x a -> In x b -> False) -> NoDup (a ++ b).
  Proof.
    induction a as [|x r IH]; intros Ha Hb Hd; [exact Hb|]. inversion Ha as [|? ? Hx Hr]; subst.
    cbn [app]. constructor.
    - intros Hin. apply in_app_or in Hin. destruct Hin as [Hin|Hin]; [exact (Hx Hin) | apply (Hd x (or_introl eq_refl) Hin)].
    - apply IH; [exact Hr | exact Hb | intros y H1 H2; apply (Hd y (or_intror H1) H2)].
  Qed.

  Lemma flat_nodup (f : K -> nat) (cs : list (list mslot)) : forall off,
    (forall j, j < length cs -> NoDup (map fst (slive_pairs (nth j cs [])))) ->
    (forall j k v, j < length cs -> In (k, v) (slive_pairs (nth j cs [])) -> f k = off + j) ->
    NoDup (map fst (flat_map (@slive_pairs K V) cs)).
  Proof.
    induction cs as [|c r IH]; intros off Hn Hh; [constructor|].
    cbn [flat_map]. rewrite map_app. apply NoDup_app'.
    - apply (Hn 0). cbn. lia.
    - apply (IH (S off)).
      + intros j Hj. apply (Hn (S j)). cbn. lia.
      + intros j k v Hj Hin. rewrite (Hh (S j) k v); [lia | cbn; lia | exact Hin].
    - intros k H1 H2. apply in_map_iff in H1. destruct H1 as [[k1 v1] [E1 H1]]. cbn in E1. subst k1.
      apply in_map_iff in H2. destruct H2 as [[k2 v2] [E2 H2]]. cbn in E2. subst k2.
      apply in_flat_map in H2. destruct H2 as [c2 [Hc2 H2]]. destruct (In_nth r c2 [] Hc2) as [j [Hj Ej]].
      pose proof (Hh 0 k v1 ltac:(cbn; lia) H1) as A. rewrite <- Ej in H2.
      pose proof (Hh (S j) k v2 ltac:(cbn; lia) H2) as B. lia.
  Qed.

  (* a pair of a settled chain lies in its key's home chain and is what a reader finds there *)
  Lemma settled_home (tb : mtable) b k v : settled tb b -> In (k, v) (slive_pairs (schain_of tb b)) -> shome tb k = b /\ svis tb k v.
  Proof.
    intros Hs Hin. apply live_in in Hin. destruct Hin as [pos [Hp [Hk [id Hv]]]].
    destruct (Hs pos Hp) as [[A _]|[k' [v' [id' [B1 [B2 [B3 B4]]]]]]]; [rewrite A in Hk; discriminate|].
    rewrite Hk in B1. inversion B1; subst k'. rewrite Hv in B2. inversion B2; subst v' id'.
    split; [exact B4|]. unfold XS_vis.svis. rewrite B4. exists pos. split; [exact Hp|]. unfold pvis. rewrite Hk, Hv, B3. eauto.
  Qed.

  Hypothesis Hslots : nslots <= 3.
  Hypothesis Hidx : forall h len, 0 < len -> idx h len < len.

  (* the pairs of a table whose chains are all settled and hold each key once: exactly what a lock-free
     reader can find, one pair per key, and as many as there are keys *)
  Theorem tpairs_settled (tb : mtable) : tb_ok tb ->
    (forall b, b < m_len tb -> settled tb b /\ uniq (schain_of tb b)) ->
    (forall k v, In (k, v) (tpairs tb) <-> svis tb k v)
    /\ NoDup (map fst (tpairs tb))
    /\ Z.of_nat (length (tpairs tb)) = tcount tb.
  Proof.
    intros Hok Hs. split; [|split].
    - intros k v. rewrite tpairs_in. split.
      + intros [b [Hb Hin]]. apply (settled_home tb b k v (proj1 (Hs b Hb)) Hin).
      + intros [pos [Hp [Hk [Hv _]]]]. exists (shome tb k). split; [apply (shome_lt hash idx Hidx); exact Hok|].
        apply live_in. exists pos. auto.
    - unfold tpairs. apply (flat_nodup (shome tb) _ 0).
      + intros j Hj. apply live_nodup. apply (Hs j Hj).
      + intros j k v Hj Hin. apply (settled_home tb j k v (proj1 (Hs j Hj)) Hin).
    - apply tpairs_length. intros b Hb. apply (Hs b Hb).
  Qed.

  (* ---------------- quiescence ---------------- *)

  Definition lkrange (lk : @lockk K V) : bool := match lk with LKRange _ => true | _ => false end.

  (* inside a call that may modify the map: doCompute (also as a Range visitor's call), Clear, a resize *)
  Fixpoint modifying (p : spc) : bool :=
    match p with
    | QStart | QIdle | QRet _ | QL_Table _ _ | QL_Top _ _ _ _ _ | QL_Val _ _ _ _ _ _ | QL_Key _ _ _ _ _ _ _
    | QL_Val2 _ _ _ _ _ _ _ _ | QL_Next _ _ _ _ _ | QS_Table | QS_Sum _ _ _ | QG_Table _ => false
    | QK_Load _ _ lk | QK_Spin _ _ lk | QK_CAS _ _ _ lk | QK_Yield _ _ lk => negb (lkrange lk)
    | QU_Load _ _ (Some _) a | QU_Store _ _ _ (Some _) a => modifying a
    | _ => true
    end.

  Lemma owed_not_modifying x (p : spc) : modifying p = false -> owed x p = 0%Z.
  Proof.
    induction p; cbn [modifying owed]; intros H; try discriminate H; try reflexivity;
      (destruct rg; [apply IHp; exact H | discriminate H]).
  Qed.

  Lemma witpos_not_modifying x (p : spc) : modifying p = false -> witpos x p = None.
  Proof. destruct p; cbn [modifying witpos]; intros H; try discriminate H; reflexivity. Qed.

  (* without a writer every chain of a published table is settled *)
  Lemma quiescent_settled s tab b : XB s -> (forall u, modifying (h_pc s u) = false) ->
    tab <= h_cur s -> b < m_len (tabT (h_tabs s) tab) ->
    settled (tabT (h_tabs s) tab) b /\ uniq (schain_of (tabT (h_tabs s) tab) b).
  Proof.
    intros [_ [_ [_ [_ HC]]]] Hq Hle Hb. destruct (xcs_ch _ _ _ _ _ s HC tab b Hle Hb) as [_ [Hu Hsl]].
    split; [|exact Hu]. intros pos Hp. destruct (Hsl pos Hp) as [F|[F|[p [F1 F2]]]]; [left; exact F | right; exact F|].
    exfalso. unfold holder_pc in F1. destruct (lock_of nslots nstripes s tab b) as [u|]; [|discriminate F1].
    cbn [option_map] in F1. inversion F1; subst p. rewrite (witpos_not_modifying tab _ (Hq u)) in F2. discriminate F2.
  Qed.

  Notation XS := (@XS_count.XS K V nslots nstripes).
  Notation XF := (@XF K V).
  Notation XC := (@XS_count.XC K V hash idx nslots nstripes).

  (* C08 from a state with the invariants: nobody is inside a modifying call, thread t is idle and its
     next call is Size; run alone, that call returns the number of pairs of the current table *)
  Theorem quiescent_size_exact_inv ths s t rest : XB s -> XF s -> XC s -> XS ths s ->
    (forall u, modifying (h_pc s u) = false) -> h_pc s t = QIdle -> h_todo s t = SSize :: rest ->
    let tb := stab_at s (h_cur s) in
    let l := tpairs tb in
    let r := srun s (repeat t (S (snstr tb))) in
    In (SRes t (SRNat (Z.of_nat (length l)))) (snd r)
    /\ (forall k v, In (k, v) l <-> svis tb k v) /\ NoDup (map fst l)
    /\ h_pc (fst r) t = QIdle /\ sshared_eq s (fst r)
    /\ (forall t', t' <> t -> h_pc (fst r) t' = h_pc s t').
  Proof.
    intros HB HX HXC HS Hq Hp Ht tb l r. pose proof HB as [HI [HL [HT [HP HC]]]].
    assert (Hcur : h_cur s < length (h_tabs s)) by apply (xl_cur _ _ _ _ s HL).
    assert (Hok : tb_ok tb) by (apply (tb_ok_tabT nslots nstripes Hslots); apply (xl_tabs _ _ _ _ s HL)).
    destruct (tpairs_settled tb Hok) as [P1 [P2 P3]].
    { intros b Hb. apply (quiescent_settled s (h_cur s) b HB Hq (le_n _) Hb). }
    assert (Hsz : ssum_z (m_size tb) = tcount tb).
    { pose proof (HS (h_cur s) Hcur) as H. rewrite owed_all_zero in H by (intros u; apply owed_not_modifying; apply Hq).
      change (tabT (h_tabs s) (h_cur s)) with tb in H. lia. }
    assert (Hpos : 0 < snstr tb).
    { pose proof (xc_size _ _ _ _ s HXC) as Hz. rewrite Forall_forall in Hz. apply (Hz tb). apply nth_In. exact Hcur. }
    set (s1 := sinvoke s t SSize rest).
    assert (Ep : h_pc s1 t = QS_Table) by (unfold s1; cbn [XS_count.sinvoke h_pc sstart_pc]; destruct (Nat.eq_dec t t); congruence).
    assert (Hfr : h_frame s1 t = None) by (unfold s1; cbn [XS_count.sinvoke h_frame]; apply (xf_idle s HX); rewrite Hp; exact (fun H => H)).
    destruct (solo_size s1 t Ep Hfr Hpos) as [F1 [F2 [F3 F4]]].
    change (stab_at s1 (h_cur s1)) with tb in F1, F2, F3, F4.
    unfold r. rewrite (invoke_run eqd hash idx tophash nslots seeds grow_needed shrink_policy nstripes minlen grow_only
                         s t SSize rest _ Hp Ht); [|cbn; discriminate].
    fold s1. cbn [fst snd].
    split; [right; unfold l; rewrite P3, <- Hsz; exact F2|]. split; [exact P1|]. split; [exact P2|].
    split; [exact F1|]. split; [exact F3|].
    intros t' Hne. rewrite (F4 t' Hne). unfold s1. cbn [XS_count.sinvoke h_pc]. destruct (Nat.eq_dec t' t); [contradiction | reflexivity].
  Qed.

End SSize.

(* ---------------- the statement, every reachable state ---------------- *)
Section Final.
  Context {K V : Type}.
  Variable eqd : forall a b : K, {a = b} + {a <> b}.
  Variable hash : K -> N -> N.
  Variable idx : N -> nat -> nat.
  Variable tophash : N -> N.
  Variable nslots : nat.
  Variable seeds : nat -> N.
  Variable grow_needed shrink_policy : nat -> Z -> bool.
  Variable nstripes : nat -> nat.
  Variable minlen : nat.
  Variable grow_only : bool.

  Notation srun := (@srun K V eqd hash idx tophash nslots seeds grow_needed shrink_policy nstripes minlen grow_only).

  (* the hypotheses on the parameters: those of XS_cells.v (= rdhyps of XS_read.v = rhyps of XS_resize.v) and a
     counter with at least one stripe (XS_count.v) *)
  Definition szhyps : Prop := rdhyps hash idx tophash nslots minlen /\ forall len, 0 < nstripes len.

  (* C08 for every reachable state of Map *)
  Theorem quiescent_size_exact :
    szhyps -> forall len0 todo sched t rest, 0 < len0 ->
    let s := fst (srun (sinit nslots seeds nstripes len0 todo) sched) in
    (forall u, modifying (h_pc s u) = false) -> h_pc s t = QIdle -> h_todo s t = SSize :: rest ->
    let tb := stab_at nslots nstripes s (h_cur s) in
    let l := tpairs tb in
    let r := srun s (repeat t (S (snstr tb))) in
    In (SRes t (SRNat (Z.of_nat (length l)))) (snd r)
    /\ (forall k v, In (k, v) l <-> sabs hash idx tophash nslots nstripes s k v) /\ NoDup (map fst l)
    /\ h_pc (fst r) t = QIdle /\ sshared_eq s (fst r)
    /\ (forall t', t' <> t -> h_pc (fst r) t' = h_pc s t').
  Proof.
    intros [[[H1 H2] [H3 [H4 H5]]] H6] len0 todo sched t rest Hl s Hq Hp Ht.
    apply (quiescent_size_exact_inv eqd hash idx tophash nslots seeds grow_needed shrink_policy nstripes minlen grow_only H1 H4
             (nodup Nat.eq_dec sched) s t rest); try assumption.
    - apply (reachable_XB eqd hash idx tophash nslots seeds grow_needed shrink_policy nstripes minlen grow_only H1 H2 H3 H4 H5 len0 todo sched Hl).
    - apply (reachable_XF eqd hash idx tophash nslots seeds grow_needed shrink_policy nstripes minlen grow_only len0 todo sched).
    - apply (reachable_XC eqd hash idx tophash nslots seeds grow_needed shrink_policy nstripes minlen grow_only H1 H4 H5 H6 len0 todo sched Hl).
    - apply (reachable_count eqd hash idx tophash nslots seeds grow_needed shrink_policy nstripes minlen grow_only H1 H4 H5 H6 len0 todo sched Hl).
  Qed.

  (* the counter of the current table at quiescence, without running anything *)
  Theorem quiescent_counter_pairs :
    szhyps -> forall len0 todo sched, 0 < len0 ->
    let s := fst (srun (sinit nslots seeds nstripes len0 todo) sched) in
    (forall u, modifying (h_pc s u) = false) ->
    ssum_z (m_size (stab_at nslots nstripes s (h_cur s))) = Z.of_nat (length (tpairs (stab_at nslots nstripes s (h_cur s)))).
  Proof.
    intros [[[H1 H2] [H3 [H4 H5]]] H6] len0 todo sched Hl s Hq.
    pose proof (reachable_XB eqd hash idx tophash nslots seeds grow_needed shrink_policy nstripes minlen grow_only H1 H2 H3 H4 H5 len0 todo sched Hl) as HB.
    fold s in HB. pose proof HB as [_ [HL _]].
    assert (Hcur : h_cur s < length (h_tabs s)) by apply (xl_cur _ _ _ _ s HL).
    assert (Hok : tb_ok (stab_at nslots nstripes s (h_cur s))) by (apply (tb_ok_tabT nslots nstripes H1); apply (xl_tabs _ _ _ _ s HL)).
    destruct (tpairs_settled hash idx tophash nslots H4 (stab_at nslots nstripes s (h_cur s)) Hok) as [_ [_ P3]].
    { intros b Hb. apply (quiescent_settled hash idx tophash nslots nstripes s (h_cur s) b HB Hq (le_n _) Hb). }
    rewrite P3.
    apply (XS_count.quiescent_size eqd hash idx tophash nslots seeds grow_needed shrink_policy nstripes minlen grow_only H1 H4 H5 H6 len0 todo sched (h_cur s) Hl Hcur).
    intros u. apply owed_not_modifying. apply Hq.
  Qed.
End Final.

(* ---------------- the executable instance (XExecS) ---------------- *)
From CacheV Require Import TabExec Exec XExec XExecS.
From CacheV.gen Require Import Params.
From CacheV.proofs Require Import X_inst XS_inst XS_cinst XS_rdinst.

Lemma s_instance_szhyps o hint : oracle64 o ->
  szhyps (hash_of o) idx_map tag_map (nslots_of false) nstripes_x (minlen_of_hint false hint).
Proof. intros Ho. split; [apply s_instance_rdhyps; exact Ho | exact nstripes_x_pos]. Qed.

Notation s_srun_sz o seeds hint :=
  (srun zeqd (hash_of o) idx_map tag_map (nslots_of false) (seeds_of seeds) grow_needed_s shrink_policy_s
        nstripes_x (minlen_of_hint false hint) false).

(* the extracted Map machine: Size at quiescence, from any reachable state, every schedule before *)
Theorem s_machine_quiescent_size (o : oracle) (seeds : list N) (hint : Z) (todo : nat -> list sop_z) (sched : list nat) t rest : oracle64 o ->
  let s := fst (s_srun_sz o seeds hint (s_machine_init seeds hint todo) sched) in
  (forall u, modifying (h_pc s u) = false) -> h_pc s t = QIdle -> h_todo s t = SSize :: rest ->
  let tb := stab_at (nslots_of false) nstripes_x s (h_cur s) in
  let l := tpairs tb in
  let r := s_srun_sz o seeds hint s (repeat t (S (snstr tb))) in
  In (SRes t (SRNat (Z.of_nat (length l)))) (snd r)
  /\ (forall k v, In (k, v) l <-> sabs (hash_of o) idx_map tag_map (nslots_of false) nstripes_x s k v) /\ NoDup (map fst l)
  /\ h_pc (fst r) t = QIdle /\ sshared_eq s (fst r)
  /\ (forall t', t' <> t -> h_pc (fst r) t' = h_pc s t').
Proof.
  intros Ho. unfold s_machine_init.
  apply (quiescent_size_exact zeqd (hash_of o) idx_map tag_map (nslots_of false) (seeds_of seeds) grow_needed_s shrink_policy_s nstripes_x
           (minlen_of_hint false hint) false (s_instance_szhyps o hint Ho)).
  apply minlen_of_hint_pos.
Qed.

(* ---------------- non-vacuity ---------------- *)
(* three slots per bucket, two buckets, two counter stripes.  Thread 0 stores 7, 8, deletes 7, stores 9 and 10 and has
   returned; thread 1 has started and is idle with Size as its next call; every other thread has not started.
   Nobody is inside a modifying call; the table holds 8, 9, 10; Size run alone for 1 + 2 steps returns 3. *)
Definition zex_st k v : @sop nat nat := SCompute k (fun _ => Some v) false false false.
Definition zex_del k : @sop nat nat := SCompute k (fun _ => None) false false false.
Definition zex_hash := (fun (k : nat) (_ : N) => N.of_nat k).
Definition zex_idx := (fun (h : N) len => Nat.modulo (N.to_nat h) len).
Definition zex_run (s : @mstate nat nat) (sched : list nat) : @mstate nat nat * list (@slabel nat nat) :=
  @srun nat nat Nat.eq_dec zex_hash zex_idx (fun h => h) 3%nat (fun _ => 0%N)
        (fun _ _ => false) (fun _ _ => false) (fun _ => 2%nat) 1%nat false s sched.
Definition zex_init : @mstate nat nat :=
  sinit 3%nat (fun _ => 0%N) (fun _ => 2%nat) 2%nat
        (fun t => match t with
                  | 0 => [zex_st 7 70; zex_st 8 80; zex_del 7; zex_st 9 90; zex_st 10 100]
                  | 1 => [SSize]
                  | _ => [] end)%nat.
Definition zex_s : @mstate nat nat := fst (zex_run zex_init (repeat 0 120 ++ [1])%nat).

Example size_nonvacuous :
  (forall u, modifying (h_pc zex_s u) = false)
  /\ h_pc zex_s 1%nat = QIdle /\ h_todo zex_s 1%nat = [SSize]
  /\ h_todo zex_s 0%nat = []
  /\ tpairs (stab_at 3%nat (fun _ => 2%nat) zex_s (h_cur zex_s)) = [(8, 80); (10, 100); (9, 90)]%nat
  /\ snstr (stab_at 3%nat (fun _ => 2%nat) zex_s (h_cur zex_s)) = 2%nat
  /\ last (snd (zex_run zex_s (repeat 1 3)%nat)) (SStep 0%nat SKStart) = SRes 1%nat (SRNat 3%Z).
Proof.
  split; [intros [|[|u]]; vm_compute; reflexivity|].
  repeat split; vm_compute; reflexivity.
Qed.
