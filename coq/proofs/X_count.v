(* X_count.v -- the size counter of XMachine (MapOf) is exact (C08): for every
   published table, in every reachable state,
       number of visible entries  =  sum of the counter stripes  +  the additions still owed
   where a thread owes +1 between the store that made its insert visible and its
   addSize(+1), and -1 between the meta store of its delete and its addSize(-1).
   Hence whenever no modifying call is in flight, Size is the number of entries
   a Range would visit -- whatever grows, shrinks and clears came before.
   The threads that ever run are those of a finite list. *)
From CacheV Require Import Base SpecMap XMachine.
From CacheV.proofs Require Import X_basic X_inv X_c13 X_c16 X_own X_chain X_c04 X_lin X_resize X_read.
From Coq Require Import NArith.
Local Open Scope nat_scope.

Section Count.
  Context {K V : Type}.

  Notation slot := (@slot K V).
  Notation xtable := (@xtable K V).
  Notation pc := (@pc K V).
  Notation empty_slot := (@empty_slot K V).

  Definition counted (sl : slot) : bool :=
    match s_tag sl, s_ent sl with Some _, Some _ => true | _, _ => false end.

  Definition nvis (c : list slot) : nat := length (filter counted c).

  Fixpoint sum_nat (l : list nat) : nat := match l with [] => 0 | x :: r => x + sum_nat r end.

  Definition tcount (tb : xtable) : Z := Z.of_nat (sum_nat (map nvis (x_chains tb))).

  (* ---- one slot changes ---- *)

  Lemma nvis_upd (c : list slot) pos f : pos < length c ->
    Z.of_nat (nvis (XMachine.upd_nth c pos f)) =
    (Z.of_nat (nvis c) - b1 (counted (nth pos c empty_slot)) + b1 (counted (f (nth pos c empty_slot))))%Z.
  Proof.
    revert pos. induction c as [|sl r IH]; intros pos Hp; [cbn in Hp; lia|].
    destruct pos as [|pos]; cbn [XMachine.upd_nth nth].
    - unfold nvis. cbn [filter]. destruct (counted sl), (counted (f sl)); cbn [length b1]; lia.
    - assert (Hp' : pos < length r) by (cbn in Hp; lia). specialize (IH pos Hp').
      unfold nvis in *. cbn [filter]. destruct (counted sl); cbn [length]; lia.
  Qed.

  Lemma nvis_app (a b : list slot) : nvis (a ++ b) = nvis a + nvis b.
  Proof. unfold nvis. rewrite filter_app, app_length. reflexivity. Qed.

  Lemma nvis_repeat_empty n : nvis (repeat empty_slot n) = 0.
  Proof. induction n as [|n IH]; [reflexivity|]. unfold nvis in *. cbn. exact IH. Qed.

  (* ---- one chain of a table changes ---- *)

  Lemma sum_upd (l : list (list slot)) b g : b < length l ->
    Z.of_nat (sum_nat (map nvis (XMachine.upd_nth l b g))) =
    (Z.of_nat (sum_nat (map nvis l)) - Z.of_nat (nvis (nth b l [])) + Z.of_nat (nvis (g (nth b l []))))%Z.
  Proof.
    revert b. induction l as [|c r IH]; intros b Hb; [cbn in Hb; lia|].
    destruct b as [|b]; cbn [XMachine.upd_nth nth map sum_nat]; [lia|].
    assert (Hb' : b < length r) by (cbn in Hb; lia). specialize (IH b Hb'). lia.
  Qed.

  Lemma tcount_set_chain (tb : xtable) b g : b < x_len tb ->
    tcount (set_chain tb b g) = (tcount tb - Z.of_nat (nvis (chain_of tb b)) + Z.of_nat (nvis (g (chain_of tb b))))%Z.
  Proof. intros Hb. unfold tcount, set_chain, chain_of. cbn [x_chains]. apply sum_upd. exact Hb. Qed.

  Lemma tcount_set_lock (tb : xtable) b o : tcount (set_lock tb b o) = tcount tb.
  Proof. reflexivity. Qed.
  Lemma tcount_add_size (tb : xtable) b d : tcount (add_size tb b d) = tcount tb.
  Proof. reflexivity. Qed.

  Lemma sum_z_upd (l : list Z) i d : i < length l -> sum_z (XMachine.upd_nth l i (fun z => (z + d)%Z)) = (sum_z l + d)%Z.
  Proof.
    revert i. induction l as [|x r IH]; intros i Hi; [cbn in Hi; lia|].
    destruct i as [|i]; cbn [XMachine.upd_nth sum_z fold_right]; [lia|].
    assert (Hi' : i < length r) by (cbn in Hi; lia). specialize (IH i Hi'). unfold sum_z in IH. lia.
  Qed.

  Lemma size_add_size (tb : xtable) b d : 0 < length (x_size tb) ->
    sum_z (x_size (add_size tb b d)) = (sum_z (x_size tb) + d)%Z.
  Proof.
    intros H. unfold add_size. cbn [x_size]. apply sum_z_upd. apply Nat.mod_upper_bound. lia.
  Qed.

End Count.

Section CountM.
  Context {K V : Type}.
  Variable eqd : forall a b : K, {a = b} + {a <> b}.
  Variable hash : K -> N -> N.
  Variable idx : N -> nat -> nat.
  Variable tag : N -> N.
  Variable nslots : nat.
  Variable seeds : nat -> N.
  Variable grow_needed : nat -> Z -> bool.
  Variable shrink_policy : nat -> Z -> bool.
  Variable probe : list (option N) -> N -> list nat.
  Variable nstripes : nat -> nat.
  Variable minlen : nat.
  Variable grow_only : bool.

  Hypothesis Hidx : forall h len, 0 < len -> idx h len < len.
  Hypothesis Hstripes : forall len, 0 < nstripes len.
  Hypothesis Hminlen : 0 < minlen.
  Hypothesis Hnslots : 0 < nslots.
  Hypothesis Hprobe_sound : forall tags tg i, In i (probe tags tg) -> i < length tags /\ nth i tags None <> None.
  Hypothesis Hprobe_complete : forall tags tg i, i < length tags -> nth i tags None = Some tg -> In i (probe tags tg).

  Notation xtable := (@xtable K V).
  Notation xstate := (@xstate K V).
  Notation pc := (@pc K V).
  Notation slot := (@slot K V).
  Notation empty_slot := (@empty_slot K V).
  Notation tab_at := (@tab_at K V nslots nstripes).
  Notation step_pc := (@step_pc K V eqd hash idx tag nslots seeds grow_needed shrink_policy probe nstripes minlen grow_only).
  Notation xstep := (@xstep K V eqd hash idx tag nslots seeds grow_needed shrink_policy probe nstripes minlen grow_only).
  Notation xrun := (@xrun K V eqd hash idx tag nslots seeds grow_needed shrink_policy probe nstripes minlen grow_only).
  Notation XInv := (@X_inv.XInv K V hash idx nslots nstripes).
  Notation XT := (@X_own.XT K V).
  Notation XC := (@X_c04.XC K V hash idx tag nslots nstripes).
  Notation chain := (@X_c04.chain K V nslots nstripes).
  Notation hkey := (@X_c04.hkey K V hash idx nslots nstripes).

  (* the addition to the counter of table tab that the thread at p still owes *)
  Fixpoint owed (tab : nat) (p : pc) : Z :=
    match p with
    | PW_Add tab' _ d a => ((if Nat.eq_dec tab' tab then d else 0) + owed tab a)%Z
    | PW_Unlock _ _ a => owed tab a
    | PW_D2 _ tab' _ _ => if Nat.eq_dec tab' tab then (-1)%Z else 0%Z
    | _ => 0%Z
    end.

  Definition owed_all (s : xstate) (tab : nat) (ths : list nat) : Z :=
    fold_right (fun t acc => (owed tab (g_pc s t) + acc)%Z) 0%Z ths.

  Lemma owed_wake tab (p : pc) : owed tab (wake p) = owed tab p.
  Proof. destruct p; reflexivity. Qed.

  Lemma owed_norm tab (p : pc) : owed tab (norm p) = owed tab p.
  Proof. destruct p; reflexivity. Qed.

  Lemma owed_le tab n (p : pc) : tabs_le n p -> n < tab -> owed tab p = 0%Z.
  Proof.
    intros H Hn. induction p; cbn [owed tabs_le] in *; try reflexivity.
    - destruct (Nat.eq_dec tab0 tab); [lia | reflexivity].
    - destruct H as [_ H]. apply IHp. exact H.
    - destruct H as [H1 H2]. rewrite (IHp H2). destruct (Nat.eq_dec tab0 tab); [lia | reflexivity].
  Qed.

  Lemma owed_all_same (s s' : xstate) tab ths :
    (forall t, In t ths -> owed tab (g_pc s' t) = owed tab (g_pc s t)) -> owed_all s' tab ths = owed_all s tab ths.
  Proof.
    induction ths as [|t r IH]; intros H; [reflexivity|]. cbn [owed_all fold_right].
    rewrite (H t (or_introl eq_refl)). fold (owed_all s' tab r) (owed_all s tab r). rewrite IH; [reflexivity|].
    intros u Hu. apply H. right. exact Hu.
  Qed.

  Lemma owed_all_upd (s s' : xstate) tab ths t : NoDup ths -> In t ths ->
    (forall u, u <> t -> In u ths -> owed tab (g_pc s' u) = owed tab (g_pc s u)) ->
    owed_all s' tab ths = (owed_all s tab ths - owed tab (g_pc s t) + owed tab (g_pc s' t))%Z.
  Proof.
    induction ths as [|u r IH]; intros Hnd Hin Hoth; [destruct Hin|].
    inversion Hnd as [|? ? Hnin Hnd']; subst. cbn [owed_all fold_right]. fold (owed_all s' tab r) (owed_all s tab r).
    destruct Hin as [->|Hin].
    - rewrite (owed_all_same s s' tab r); [lia|]. intros w Hw. apply Hoth; [intros ->; contradiction | right; exact Hw].
    - assert (u <> t) by (intros ->; contradiction).
      rewrite (Hoth u H (or_introl eq_refl)). rewrite IH; [lia | exact Hnd' | exact Hin |].
      intros w Hw Hw'. apply Hoth; [exact Hw | right; exact Hw'].
  Qed.


  Notation tcount := (@tcount K V).

  (* ---- the resize copy: every copied entry adds one visible entry to the new table and one to the tally ---- *)

  Lemma nvis_place (c : list slot) tg kv : nvis (place_slot nslots c tg kv) = S (nvis c).
  Proof.
    induction c as [|sl r IH]; cbn [place_slot].
    - unfold nvis. cbn [filter counted s_tag s_ent length]. fold (nvis (repeat empty_slot (nslots - 1))).
      rewrite nvis_repeat_empty. reflexivity.
    - destruct (s_ent sl) eqn:E.
      + unfold nvis in *. cbn [filter]. destruct (counted sl); cbn [length]; rewrite IH; reflexivity.
      + unfold nvis. cbn [filter]. assert (Hc : counted sl = false) by (unfold counted; rewrite E; destruct (s_tag sl); reflexivity).
        rewrite Hc. reflexivity.
  Qed.

  Definition nent (c : list slot) : nat := length (filter (fun sl => match s_ent sl with Some _ => true | None => false end) c).

  Lemma copy_count (src : list slot) : forall (acc : xtable * Z), 0 < x_len (fst acc) ->
    let r := fold_left (cstep hash idx tag nslots) src acc in
    tcount (fst r) = (tcount (fst acc) + Z.of_nat (nent src))%Z /\ snd r = (snd acc + Z.of_nat (nent src))%Z
    /\ x_len (fst r) = x_len (fst acc) /\ x_size (fst r) = x_size (fst acc).
  Proof.
    induction src as [|sl r IH]; intros acc Hl; cbn [fold_left].
    - unfold nent. cbn. split; [lia|]. split; [lia|]. split; reflexivity.
    - unfold nent. cbn [filter]. fold (nent r). unfold cstep at 2 4 6 8. destruct (s_ent sl) as [[k v]|] eqn:E.
      + set (tb' := set_chain (fst acc) _ _).
        assert (Hl' : x_len tb' = x_len (fst acc)) by apply x_len_set_chain.
        specialize (IH (tb', (snd acc + 1)%Z)). cbn [fst snd] in IH. rewrite Hl' in IH.
        destruct (IH Hl) as [A1 [A2 [A3 A4]]]. cbn [length]. change (length (filter _ r)) with (nent r).
        assert (Ht : tcount tb' = (tcount (fst acc) + 1)%Z).
        { unfold tb'. rewrite tcount_set_chain by (apply Hidx; exact Hl). rewrite nvis_place. lia. }
        split; [rewrite A1, Ht; lia|]. split; [rewrite A2; lia|]. split; [exact A3|]. rewrite A4. reflexivity.
      + change (length (filter _ r)) with (nent r). apply (IH acc Hl).
  Qed.

  Definition bal (s : xstate) (tab : nat) (p : pc) : Z :=
    (tcount (tab_at s tab) - sum_z (x_size (tab_at s tab)) - owed tab p)%Z.

  Lemma some_fst7 {A B} (g : A * B) a b : Some g = Some (a, b) -> a = fst g.
  Proof. intros H. inversion H. reflexivity. Qed.

  Ltac step_cases Hs :=
    cbn [XMachine.step_pc] in Hs; cbv zeta in Hs;
    repeat match type of Hs with
           | context [match ?x with _ => _ end] => destruct x eqn:?
           end;
    try discriminate; apply some_fst7 in Hs; subst; rewrite ?goto_state'; cbn [fst].

  (* count - counter - owed of the stepping thread is unchanged by its step, for every published table *)
  Lemma step_balance s t p s' ls tab : XInv s -> XT s -> XC s -> g_pc s t = p -> step_pc s t p = Some (s', ls) ->
    tab < length (g_tabs s) ->
    bal s' tab (g_pc s' t) = bal s tab p.
  Proof.
    intros HI HT HC Hp Hs Htab.
    pose proof (xi_valid _ _ _ _ s HI t) as Hv. pose proof (xc_pc _ _ _ _ _ s HC t) as Hf.
    rewrite Hp in Hv, Hf.
    destruct p; step_cases Hs; cbn [valid] in Hv; unfold bal;
      try change (set_pc s t PIdle) with (set_pc s t (norm (@PIdle K V)));
      cbn [set_pc g_pc]; (destruct (Nat.eq_dec t t) as [_|Hc]; [|exfalso; apply Hc; reflexivity]);
      rewrite ?tab_at_set_pc, ?owed_norm, ?tab_at_set_flags; try reflexivity.
    all: try (match goal with |- context [run_cont ?kt] => destruct kt end; cbn [owed run_cont]; reflexivity).
    all: try (unfold XMachine.tab_at; cbn [g_tabs push_tab]; rewrite app_nth1 by exact Htab; reflexivity).
    all: try (rewrite (tab_at_set_tab nslots nstripes s _ _ tab) by tauto;
              match goal with |- context [Nat.eq_dec ?a ?b] => destruct (Nat.eq_dec a b) as [->|] end;
              cbn [owed x_size set_lock]; rewrite ?tcount_set_lock; reflexivity).
    (* the stores into a locked chain, the counter addition, the resize copy *)
    all: try (assert (Hb : home hash idx (tab_at s tab0) (cx_k cx) < x_len (tab_at s tab0))
                by (unfold XMachine.home; apply Hidx; apply (xi_wf _ _ _ _ s HI tab0 Hv));
              rewrite (tab_at_set_tab nslots nstripes s tab0 _ tab Hv);
              destruct (Nat.eq_dec tab tab0) as [->|Hne];
              [ rewrite (tcount_set_chain _ _ _ Hb); cbn [x_size set_chain owed];
                (destruct (Nat.eq_dec tab0 tab0) as [_|Hc]; [|exfalso; apply Hc; reflexivity]);
                cbn [X_c04.pcfact] in Hf; unfold X_c04.chain, X_c04.hkey, ent_at, tag_at in Hf
              | cbn [owed]; destruct (Nat.eq_dec tab0 tab) as [Hc|_]; [exfalso; apply Hne; symmetry; exact Hc|]; reflexivity ]).
    all: try (unfold set_slot; rewrite nvis_upd by tauto; unfold counted; cbn [s_tag s_ent];
              repeat match goal with H : _ /\ _ |- _ => destruct H end;
              repeat match goal with
                     | H : s_ent _ = _ |- _ => rewrite H
                     | H : s_tag _ = Some _ |- _ => rewrite H
                     | H : s_tag _ = None |- _ => rewrite H
                     end;
              try match goal with H : s_tag ?x <> None |- _ => destruct (s_tag x); [|exfalso; apply H; reflexivity] end;
              cbn [b1]; lia).
    - (* N1: a new bucket with one entry is appended *)
      rewrite nvis_app. unfold nvis at 3. cbn [filter counted s_tag s_ent b1 length].
      fold (nvis (repeat empty_slot (nslots - 1))). rewrite nvis_repeat_empty. lia.
    - (* the counter addition *)
      destruct Hv as [Hv0 _].
      rewrite (tab_at_set_tab nslots nstripes s tab0 _ tab Hv0). cbn [owed].
      destruct (Nat.eq_dec tab tab0) as [->|Hne].
      + destruct (Nat.eq_dec tab0 tab0) as [_|Hc]; [|exfalso; apply Hc; reflexivity].
        rewrite tcount_add_size, size_add_size by (apply (xi_wf _ _ _ _ s HI tab0 Hv0)). lia.
      + destruct (Nat.eq_dec tab0 tab) as [Hc|_]; [exfalso; apply Hne; symmetry; exact Hc|]. lia.
    - (* the resize copy *)
      destruct Hv as (Hv0 & Hv1 & Hv2 & Hv3).
      rewrite (tab_at_set_tab nslots nstripes _ new _ tab) by (unfold set_tab; cbn [g_tabs]; rewrite upd_nth_length; exact Hv1).
      destruct (Nat.eq_dec tab new) as [->|_].
      { rewrite (tab_at_set_tab nslots nstripes s tab0 _ new Hv0) in Heqp.
        destruct (Nat.eq_dec new tab0) as [Hc|_]; [exfalso; exact (Hv3 Hc)|].
        rewrite (copy_chain_fold hash idx tag nslots) in Heqp.
        destruct (xi_wf _ _ _ _ s HI new Hv1) as [W1 [W2 W3]].
        pose proof (copy_count (chain_of (tab_at s tab0) i) (tab_at s new, 0%Z) W1) as Hcc.
        cbv zeta in Hcc. rewrite Heqp in Hcc. cbn [fst snd] in Hcc. destruct Hcc as [C1 [C2 [C3 C4]]].
        rewrite tcount_add_size, size_add_size by (rewrite C4; exact W3). rewrite C1, C2, C4. cbn [owed]. lia. }
      rewrite (tab_at_set_tab nslots nstripes s tab0 _ tab Hv0).
      destruct (Nat.eq_dec tab tab0) as [->|_]; cbn [owed x_size set_lock]; rewrite ?tcount_set_lock; reflexivity.
  Qed.
  (* ---------------- a table that a step creates starts empty, with a zero counter ---------------- *)

  Lemma tcount_new len seed : tcount (new_xtable nslots nstripes len seed : xtable) = 0%Z.
  Proof.
    unfold tcount, new_xtable. cbn [x_chains]. induction len as [|n IH]; [reflexivity|].
    cbn [repeat map sum_nat]. rewrite nvis_repeat_empty. exact IH.
  Qed.

  Lemma size_new len seed : sum_z (x_size (new_xtable nslots nstripes len seed : xtable)) = 0%Z.
  Proof.
    unfold new_xtable. cbn [x_size]. induction (nstripes len) as [|n IH]; [reflexivity|].
    cbn [repeat]. unfold sum_z in *. cbn [fold_right]. rewrite IH. reflexivity.
  Qed.

  Lemma step_newtabs s t p s' ls : step_pc s t p = Some (s', ls) ->
    length (g_tabs s) <= length (g_tabs s') /\
    forall tab, length (g_tabs s) <= tab < length (g_tabs s') ->
      tcount (tab_at s' tab) = 0%Z /\ sum_z (x_size (tab_at s' tab)) = 0%Z.
  Proof.
    intros Hs.
    destruct p; step_cases Hs;
      try change (set_pc s t PIdle) with (set_pc s t (norm (@PIdle K V)));
      unfold XMachine.tab_at; cbn [set_pc g_tabs set_flags set_tab push_tab];
      rewrite ?upd_nth_length, ?app_length; cbn [length];
      (split; [lia|]); intros tb9 Ht; try (exfalso; lia).
    all: assert (Et : tb9 = length (g_tabs s)) by lia; subst tb9;
         rewrite ?upd_nth_length; rewrite app_nth2 by lia; rewrite Nat.sub_diag; cbn [nth];
         split; [apply tcount_new | apply size_new].
  Qed.

  (* ---------------- the invariant ---------------- *)

  (* every table ever created: its visible entries are the counter plus the additions still owed *)
  Definition XS (ths : list nat) (s : xstate) : Prop :=
    forall tab, tab < length (g_tabs s) ->
      tcount (tab_at s tab) = (sum_z (x_size (tab_at s tab)) + owed_all s tab ths)%Z.

  Lemma owed_big s tab u : XT s -> g_cur s < tab -> owed tab (g_pc s u) = 0%Z.
  Proof. intros HT Hc. eapply owed_le; [apply (xt_le s HT u) | exact Hc]. Qed.

  Lemma owed_all_zero s tab ths : (forall u, owed tab (g_pc s u) = 0%Z) -> owed_all s tab ths = 0%Z.
  Proof. intros H. induction ths as [|u r IH]; [reflexivity|]. cbn [owed_all fold_right]. rewrite H. exact IH. Qed.

  Lemma XS_step_pc ths s t p s' ls : XInv s -> XT s -> XC s -> XT s' -> XInv s' -> NoDup ths -> In t ths ->
    g_pc s t = p -> step_pc s t p = Some (s', ls) -> XS ths s -> XS ths s'.
  Proof.
    intros HI HT HC HT' HI' Hnd Hin Hp Hs HS tab Htab.
    destruct (step_newtabs s t p s' ls Hs) as [Hlen Hnew].
    pose proof (xi_valid _ _ _ _ s HI t) as Hv. rewrite Hp in Hv.
    destruct (step_misc eqd hash idx tag nslots seeds grow_needed shrink_policy probe nstripes minlen grow_only
                s t p s' ls Hs Hv) as [Hcur [_ [_ Hoth]]].
    destruct (Nat.lt_ge_cases tab (length (g_tabs s))) as [Hold|Hge].
    - pose proof (step_balance s t p s' ls tab HI HT HC Hp Hs Hold) as Hb. unfold bal in Hb.
      rewrite (owed_all_upd s s' tab ths t Hnd Hin).
      + rewrite Hp. specialize (HS tab Hold). lia.
      + intros u Hu _. destruct (Hoth u Hu) as [E|E]; rewrite E; [reflexivity | apply owed_wake].
    - destruct (Hnew tab (conj Hge Htab)) as [E1 E2]. rewrite E1, E2.
      rewrite owed_all_zero; [reflexivity|]. intros u. apply owed_big; [exact HT'|].
      assert (Hc : g_cur s' < length (g_tabs s)).
      { destruct Hcur as [E|[kt [new [Ep E]]]]; [rewrite E; apply (xi_cur _ _ _ _ s HI)|].
        rewrite E. rewrite Ep in Hv. cbn [valid] in Hv. exact Hv. }
      lia.
  Qed.
  Lemma owed_start tab o : owed tab (@start_pc K V o) = 0%Z.
  Proof. destruct o; cbn; try reflexivity; destruct lie; reflexivity. Qed.

  Notation XI5 := (@X_resize.XI5 K V hash idx tag nslots nstripes).

  Lemma XS_xstep ths s t s' ls : XI5 s -> NoDup ths -> In t ths -> XS ths s -> xstep s t = Some (s', ls) -> XS ths s'.
  Proof.
    intros H5 Hnd Hin HS E.
    pose proof (XI5_xstep eqd hash idx tag nslots seeds grow_needed shrink_policy probe nstripes minlen grow_only
                  Hidx Hstripes Hminlen Hnslots Hprobe_sound Hprobe_complete s t s' ls H5 E) as H5'.
    destruct H5 as [[HI [HW [HT HC]]] _]. destruct H5' as [[HI' [_ [HT' _]]] _].
    unfold XMachine.xstep in E. destruct (g_pc s t) eqn:Hp;
      try (eapply XS_step_pc; [exact HI | exact HT | exact HC | exact HT' | exact HI' | exact Hnd | exact Hin | exact Hp | exact E | exact HS]).
    destruct (g_todo s t) as [|o rest]; [discriminate|].
    destruct (invoke_inv hash idx tag nslots seeds grow_needed nstripes minlen Hminlen Hnslots s t o rest HI HT HC Hp) as [HI1 [HT1 HC1]].
    cbv zeta in HI1, HT1, HC1.
    set (s1 := set_pc _ t (start_pc o)) in *.
    assert (HS1 : XS ths s1).
    { intros tab Htab. change (tab_at s1 tab) with (tab_at s tab). rewrite (HS tab Htab). f_equal.
      symmetry. apply owed_all_same. intros u _. unfold s1. cbn [set_pc g_pc].
      destruct (Nat.eq_dec u t) as [->|_]; [rewrite Hp; apply owed_start | reflexivity]. }
    assert (Epc : g_pc s1 t = start_pc o) by (unfold s1; cbn [set_pc g_pc]; destruct (Nat.eq_dec t t); congruence).
    change (match step_pc s1 t (start_pc o) with
            | Some (s2, ls0) => Some (s2, XMachine.XInv t o :: ls0)
            | None => Some (s1, [XMachine.XInv t o])
            end = Some (s', ls)) in E.
    destruct (step_pc s1 t (start_pc o)) as [[s2 ls0]|] eqn:E2.
    - inversion E; subst s2 ls.
      eapply XS_step_pc; [exact HI1 | exact HT1 | exact HC1 | exact HT' | exact HI' | exact Hnd | exact Hin | exact Epc | exact E2 | exact HS1].
    - inversion E; subst s'. exact HS1.
  Qed.

  Lemma XS_xrun ths sched : Forall (fun t => In t ths) sched -> NoDup ths ->
    forall s, XI5 s -> XS ths s -> XS ths (fst (xrun s sched)).
  Proof.
    intros Hall Hnd. induction sched as [|t rest IH]; intros s H5 HS; cbn [XMachine.xrun]; [exact HS|].
    inversion Hall as [|? ? Hin Hrest]; subst.
    destruct (xstep s t) as [[s' ls]|] eqn:E.
    - pose proof (XI5_xstep eqd hash idx tag nslots seeds grow_needed shrink_policy probe nstripes minlen grow_only
                    Hidx Hstripes Hminlen Hnslots Hprobe_sound Hprobe_complete s t s' ls H5 E) as H5'.
      specialize (IH Hrest s' H5' (XS_xstep ths s t s' ls H5 Hnd Hin HS E)).
      destruct (XMachine.xrun _ _ _ _ _ _ _ _ _ _ _ _ s' rest) as [s'' ls']. exact IH.
    - apply IH; assumption.
  Qed.

  Lemma XS_init ths len0 todo : XS ths (xinit nslots seeds nstripes len0 todo).
  Proof.
    intros tab Htab. cbn in Htab. assert (tab = 0) by lia. subst tab.
    unfold XMachine.tab_at. cbn [xinit g_tabs nth]. rewrite tcount_new, size_new.
    rewrite owed_all_zero; [reflexivity|]. intros u. reflexivity.
  Qed.

  (* every reachable state, for the threads of any schedule *)
  Theorem reachable_count len0 todo sched : 0 < len0 ->
    XS (nodup Nat.eq_dec sched) (fst (xrun (xinit nslots seeds nstripes len0 todo) sched)).
  Proof.
    intros Hl. apply XS_xrun.
    - apply Forall_forall. intros t Ht. apply nodup_In. exact Ht.
    - apply NoDup_nodup.
    - apply (reachable_inv5 eqd hash idx tag nslots seeds grow_needed shrink_policy probe nstripes minlen grow_only
               Hidx Hstripes Hminlen Hnslots Hprobe_sound Hprobe_complete len0 todo [] Hl).
    - apply XS_init.
  Qed.

  (* a thread that is not inside a modifying call owes nothing *)
  Definition modifying (p : pc) : bool :=
    match p with
    | PStart | PIdle | PRet _ | PL_Table _ _ | PL_Meta _ _ _ _ _ | PL_Ent _ _ _ _ _ _ | PL_Next _ _ _ _ _
    | PS_Table | PS_Sum _ _ _ | PG_Table | PG_Lock _ _ | PG_Unlock _ _ _ => false
    | _ => true
    end.

  Lemma owed_not_modifying tab (p : pc) : modifying p = false -> owed tab p = 0%Z.
  Proof. destruct p; cbn; intros; try discriminate; reflexivity. Qed.

  (* C08: at every reachable state in which no thread is inside a modifying call, the
     counter of the current table is the number of its visible entries *)
  Theorem quiescent_size len0 todo sched : 0 < len0 ->
    let s := fst (xrun (xinit nslots seeds nstripes len0 todo) sched) in
    (forall t, modifying (g_pc s t) = false) ->
    sum_z (x_size (tab_at s (g_cur s))) = tcount (tab_at s (g_cur s)).
  Proof.
    intros Hl s Hq. pose proof (reachable_count len0 todo sched Hl) as HS. fold s in HS.
    assert (H5 : XI5 s) by apply (reachable_inv5 eqd hash idx tag nslots seeds grow_needed shrink_policy probe nstripes minlen grow_only
               Hidx Hstripes Hminlen Hnslots Hprobe_sound Hprobe_complete len0 todo sched Hl).
    destruct H5 as [[HI _] _].
    rewrite (HS (g_cur s) (xi_cur _ _ _ _ s HI)). rewrite owed_all_zero; [lia|].
    intros u. apply owed_not_modifying. apply Hq.
  Qed.
  (* ---------------- Size run alone returns the sum of the stripes ---------------- *)

  Lemma sum_skipn (l : list Z) i : i < length l -> sum_z (skipn i l) = (nth i l 0 + sum_z (skipn (S i) l))%Z.
  Proof.
    revert i. induction l as [|x r IH]; intros i Hi; [cbn in Hi; lia|].
    destruct i as [|i]; [reflexivity|]. cbn [skipn nth]. apply IH. cbn in Hi. lia.
  Qed.

  Lemma xstep_sum s t tab i acc : g_pc s t = PS_Sum tab i acc ->
    xstep s t = Some (goto s t (if Nat.ltb (S i) (nstr (tab_at s tab)) then PS_Sum tab (S i) (acc + stripe (tab_at s tab) i)
                                else PRet (XRNat (acc + stripe (tab_at s tab) i))) [XStep t (KLoadI64 (stripe (tab_at s tab) i))]).
  Proof. intros Hp. unfold XMachine.xstep. rewrite Hp. reflexivity. Qed.

  Theorem solo_sum t : forall n s tab i acc, g_pc s t = PS_Sum tab i acc -> nstr (tab_at s tab) = i + S n ->
    let r := xrun s (repeat t (S n)) in
    g_pc (fst r) t = PIdle
    /\ In (XRes t (XRNat (acc + sum_z (skipn i (x_size (tab_at s tab)))))) (snd r)
    /\ g_tabs (fst r) = g_tabs s /\ g_cur (fst r) = g_cur s
    /\ (forall t', t' <> t -> g_pc (fst r) t' = g_pc s t').
  Proof.
    induction n as [|n IH]; intros s tab i acc Hp Hn; cbv zeta.
    - cbn [repeat XMachine.xrun]. rewrite (xstep_sum s t tab i acc Hp).
      assert (El : Nat.ltb (S i) (nstr (tab_at s tab)) = false) by (apply Nat.ltb_ge; lia). rewrite El.
      cbn [goto fst snd set_pc g_pc g_tabs g_cur]. destruct (Nat.eq_dec t t) as [_|Hc]; [|exfalso; apply Hc; reflexivity].
      split; [reflexivity|]. split.
      + rewrite app_nil_r. apply in_or_app. right. left. f_equal. f_equal.
        rewrite sum_skipn by (unfold nstr in Hn; lia). rewrite skipn_all2 by (unfold nstr in Hn; lia).
        unfold stripe, sum_z. cbn [fold_right]. lia.
      + split; [reflexivity|]. split; [reflexivity|]. intros t' Hne. destruct (Nat.eq_dec t' t); [contradiction | reflexivity].
    - change (repeat t (S (S n))) with (t :: repeat t (S n)). cbn [XMachine.xrun]. rewrite (xstep_sum s t tab i acc Hp).
      assert (El : Nat.ltb (S i) (nstr (tab_at s tab)) = true) by (apply Nat.ltb_lt; lia). rewrite El.
      cbn [goto]. set (s1 := set_pc s t (PS_Sum tab (S i) (acc + stripe (tab_at s tab) i))).
      assert (Hp1 : g_pc s1 t = PS_Sum tab (S i) (acc + stripe (tab_at s tab) i))
        by (unfold s1; cbn [set_pc g_pc]; destruct (Nat.eq_dec t t); congruence).
      assert (Et : tab_at s1 tab = tab_at s tab) by reflexivity.
      specialize (IH s1 tab (S i) _ Hp1). rewrite Et in IH. specialize (IH ltac:(lia)). cbv zeta in IH.
      destruct (XMachine.xrun _ _ _ _ _ _ _ _ _ _ _ _ s1 (repeat t (S n))) as [s2 ls2]. cbn [fst snd] in *.
      destruct IH as [F1 [F2 [F3 [F4 F5]]]].
      split; [exact F1|]. split.
      + apply in_or_app. right. rewrite sum_skipn by (unfold nstr in Hn; lia).
        unfold stripe in F2. replace (acc + (nth i (x_size (tab_at s tab)) 0 + sum_z (skipn (S i) (x_size (tab_at s tab)))))%Z
          with (acc + nth i (x_size (tab_at s tab)) 0 + sum_z (skipn (S i) (x_size (tab_at s tab))))%Z by lia. exact F2.
      + split; [exact F3|]. split; [exact F4|]. intros t' Hne. rewrite (F5 t' Hne). unfold s1. cbn [set_pc g_pc].
        destruct (Nat.eq_dec t' t); [contradiction | reflexivity].
  Qed.

  (* Size called in a state s, run alone: it returns the sum of the stripes of the current table *)
  Theorem solo_size s t : XInv s -> g_pc s t = PS_Table ->
    let r := xrun s (repeat t (S (nstr (tab_at s (g_cur s))))) in
    g_pc (fst r) t = PIdle
    /\ In (XRes t (XRNat (sum_z (x_size (tab_at s (g_cur s)))))) (snd r)
    /\ g_tabs (fst r) = g_tabs s /\ g_cur (fst r) = g_cur s
    /\ (forall t', t' <> t -> g_pc (fst r) t' = g_pc s t').
  Proof.
    intros HI Hp. cbv zeta.
    destruct (xi_wf _ _ _ _ s HI (g_cur s) (xi_cur _ _ _ _ s HI)) as [_ [_ W3]].
    destruct (nstr (tab_at s (g_cur s))) as [|n] eqn:En; [unfold nstr in En; lia|].
    change (repeat t (S (S n))) with (t :: repeat t (S n)). cbn [XMachine.xrun].
    assert (Ex : xstep s t = Some (goto s t (PS_Sum (g_cur s) 0 0%Z) [XStep t (KLoadPtr false)]))
      by (unfold XMachine.xstep; rewrite Hp; reflexivity).
    rewrite Ex. cbn [goto]. set (s1 := set_pc s t (PS_Sum (g_cur s) 0 0%Z)).
    assert (Hp1 : g_pc s1 t = PS_Sum (g_cur s) 0 0%Z) by (unfold s1; cbn [set_pc g_pc]; destruct (Nat.eq_dec t t); congruence).
    pose proof (solo_sum t n s1 (g_cur s) 0 0%Z Hp1) as H. change (tab_at s1 (g_cur s)) with (tab_at s (g_cur s)) in H.
    specialize (H En). cbv zeta in H.
    destruct (XMachine.xrun _ _ _ _ _ _ _ _ _ _ _ _ s1 (repeat t (S n))) as [s2 ls2]. cbn [fst snd] in *.
    destruct H as [F1 [F2 [F3 [F4 F5]]]].
    split; [exact F1|]. split; [apply in_or_app; right; cbn [skipn] in F2; rewrite Z.add_0_l in F2; exact F2|].
    split; [exact F3|]. split; [exact F4|]. intros t' Hne. rewrite (F5 t' Hne). unfold s1. cbn [set_pc g_pc].
    destruct (Nat.eq_dec t' t); [contradiction | reflexivity].
  Qed.
  (* ---------------- what is counted: the pairs a Range of the table visits ---------------- *)

  Definition slot_pairs (sl : slot) : list (K * V) :=
    if counted sl then match s_ent sl with Some kv => [kv] | None => [] end else [].
  Definition cpairs (c : list slot) : list (K * V) := flat_map slot_pairs c.
  Definition tpairs (tb : xtable) : list (K * V) := flat_map cpairs (x_chains tb).

  Lemma cpairs_length c : length (cpairs c) = nvis c.
  Proof.
    induction c as [|sl r IH]; [reflexivity|]. unfold cpairs, nvis in *. cbn [flat_map filter]. rewrite app_length, IH.
    unfold slot_pairs, counted. destruct (s_tag sl), (s_ent sl); reflexivity.
  Qed.

  Lemma tpairs_length tb : Z.of_nat (length (tpairs tb)) = tcount tb.
  Proof.
    unfold tpairs, tcount. f_equal. induction (x_chains tb) as [|c r IH]; [reflexivity|].
    cbn [flat_map map sum_nat]. rewrite app_length, cpairs_length, IH. reflexivity.
  Qed.

  Lemma cpairs_in c k v : In (k, v) (cpairs c) <-> cvis c k v.
  Proof.
    unfold cpairs, cvis, tag_at, ent_at. rewrite in_flat_map. split.
    - intros [sl [Hin Hs]]. destruct (In_nth c sl empty_slot Hin) as [pos [Hp E]]. exists pos. split; [exact Hp|]. rewrite E.
      unfold slot_pairs, counted in Hs. destruct (s_tag sl), (s_ent sl) as [kv|]; cbn in Hs; try contradiction.
      destruct Hs as [->|[]]. split; [discriminate | reflexivity].
    - intros [pos [Hp [Ht He]]]. exists (nth pos c empty_slot). split; [apply nth_In; exact Hp|].
      unfold slot_pairs, counted. rewrite He. destruct (s_tag (nth pos c empty_slot)); [left; reflexivity | contradiction].
  Qed.

  Lemma tpairs_in tb k v : In (k, v) (tpairs tb) <-> exists b, b < x_len tb /\ cvis (chain_of tb b) k v.
  Proof.
    unfold tpairs, chain_of, x_len. rewrite in_flat_map. split.
    - intros [c [Hin Hc]]. destruct (In_nth _ c [] Hin) as [b [Hb E]]. exists b. split; [exact Hb|]. rewrite E. apply cpairs_in. exact Hc.
    - intros [b [Hb Hc]]. exists (nth b (x_chains tb) []). split; [apply nth_In; exact Hb | apply cpairs_in; exact Hc].
  Qed.

  Lemma uniq_tail (sl : slot) r : uniq (sl :: r) ->
    uniq r /\ forall k v, s_ent sl = Some (k, v) -> ~ has_key r k.
  Proof.
    intros Hu. split.
    - intros p1 p2 k v1 v2 H1 H2 E1 E2. assert (S p1 = S p2); [|lia].
      apply (Hu (S p1) (S p2) k v1 v2); cbn [length]; try lia; unfold ent_at in *; cbn [nth]; assumption.
    - intros k v E [pos [w [Hp Hw]]]. assert (0 = S pos); [|lia].
      apply (Hu 0 (S pos) k v w); cbn [length]; try lia; unfold ent_at in *; cbn [nth]; assumption.
  Qed.

  Lemma cpairs_nodup c : uniq c -> NoDup (map fst (cpairs c)).
  Proof.
    induction c as [|sl r IH]; intros Hu; [constructor|].
    destruct (uniq_tail sl r Hu) as [Hr Hno]. unfold cpairs in *. cbn [flat_map]. rewrite map_app.
    unfold slot_pairs at 1. destruct (counted sl); [|apply IH; exact Hr].
    destruct (s_ent sl) as [[k v]|] eqn:E; [|apply IH; exact Hr].
    cbn [map fst app]. constructor; [|apply IH; exact Hr].
    intros Hin. apply in_map_iff in Hin. destruct Hin as [[k' v'] [Ek Hin]]. cbn in Ek. subst k'.
    apply (cpairs_in r k v') in Hin. destruct Hin as [pos [Hp [_ He]]]. apply (Hno k v eq_refl). exists pos, v'. auto.
  Qed.

  Lemma NoDup_app_iff' {A} (a b : list A) : NoDup a -> NoDup b -> (forall x, In x a -> In x b -> False) -> NoDup (a ++ b).
  Proof.
    induction a as [|x r IH]; intros Ha Hb Hd; [exact Hb|]. inversion Ha as [|? ? Hx Hr]; subst.
    cbn [app]. constructor.
    - intros Hin. apply in_app_or in Hin. destruct Hin as [Hin|Hin]; [exact (Hx Hin) | apply (Hd x (or_introl eq_refl) Hin)].
    - apply IH; [exact Hr | exact Hb | intros y H1 H2; apply (Hd y (or_intror H1) H2)].
  Qed.

  Lemma flat_nodup (f : K -> nat) (cs : list (list slot)) : forall off,
    (forall j, j < length cs -> NoDup (map fst (cpairs (nth j cs [])))) ->
    (forall j k v, j < length cs -> In (k, v) (cpairs (nth j cs [])) -> f k = off + j) ->
    NoDup (map fst (flat_map cpairs cs)).
  Proof.
    induction cs as [|c r IH]; intros off Hn Hh; [constructor|].
    cbn [flat_map]. rewrite map_app. apply NoDup_app_iff'.
    - apply (Hn 0). cbn. lia.
    - apply (IH (S off)).
      + intros j Hj. apply (Hn (S j)). cbn. lia.
      + intros j k v Hj Hin. rewrite (Hh (S j) k v); [lia | cbn; lia | exact Hin].
    - intros k H1 H2. apply in_map_iff in H1. destruct H1 as [[k1 v1] [E1 H1]]. cbn in E1. subst k1.
      apply in_map_iff in H2. destruct H2 as [[k2 v2] [E2 H2]]. cbn in E2. subst k2.
      apply in_flat_map in H2. destruct H2 as [c2 [Hc2 H2]]. destruct (In_nth r c2 [] Hc2) as [j [Hj Ej]].
      pose proof (Hh 0 k v1 ltac:(cbn; lia) H1) as A. rewrite <- Ej in H2.
      pose proof (Hh (S j) k v2 ltac:(cbn; lia) H2) as B. lia.
  Qed.
  Notation vis := (@X_lin.vis K V hash idx).

  Lemma cvis_home s tab b k v : XC s -> tab < length (g_tabs s) -> (forall u, newtab (g_pc s u) <> Some tab) ->
    b < x_len (tab_at s tab) -> cvis (chain_of (tab_at s tab) b) k v -> home hash idx (tab_at s tab) k = b.
  Proof.
    intros HC Htab Hpub Hb [pos [Hp [Ht He]]].
    destruct (xc_ch _ _ _ _ _ s HC tab b Htab Hpub Hb) as [_ [_ Hs]]. specialize (Hs pos Hp).
    unfold X_c04.slot_ok, X_c04.chain, tag_at, ent_at in *. rewrite He in Hs.
    destruct (s_tag (nth pos (chain_of (tab_at s tab) b) empty_slot)); [|contradiction]. apply Hs.
  Qed.

  (* the counted pairs of a published table are exactly what a lock-free reader can find
     in it, one pair per key *)
  Theorem tpairs_spec s tab : XInv s -> XC s -> tab < length (g_tabs s) -> (forall u, newtab (g_pc s u) <> Some tab) ->
    (forall k v, In (k, v) (tpairs (tab_at s tab)) <-> vis (tab_at s tab) k v)
    /\ NoDup (map fst (tpairs (tab_at s tab))).
  Proof.
    intros HI HC Htab Hpub. split.
    - intros k v. rewrite tpairs_in. unfold X_lin.vis. split.
      + intros [b [Hb Hc]]. rewrite (cvis_home s tab b k v HC Htab Hpub Hb Hc). exact Hc.
      + intros Hc. exists (home hash idx (tab_at s tab) k). split; [|exact Hc].
        unfold XMachine.home. apply Hidx. apply (xi_wf _ _ _ _ s HI tab Htab).
    - unfold tpairs. apply (flat_nodup (home hash idx (tab_at s tab)) _ 0).
      + intros j Hj. apply cpairs_nodup. destruct (xc_ch _ _ _ _ _ s HC tab j Htab Hpub Hj) as [_ [Hu _]]. exact Hu.
      + intros j k v Hj Hin. apply cpairs_in in Hin. apply (cvis_home s tab j k v HC Htab Hpub Hj Hin).
  Qed.

  Lemma cur_public s : XT s -> forall u, newtab (g_pc s u) <> Some (g_cur s).
  Proof. intros HT u Eu. destruct (xt_new s HT u _ Eu) as [_ B]. lia. Qed.

  Notation invoked := (@X_read.invoked K V).

  (* C08 for every reachable state: nobody is inside a modifying call, thread t is idle and its
     next call is Size.  Run alone, that call returns the number of pairs of the current table --
     a duplicate-free enumeration of exactly what readers can find there *)
  Theorem quiescent_size_exact len0 todo sched t rest : 0 < len0 ->
    let s := fst (xrun (xinit nslots seeds nstripes len0 todo) sched) in
    (forall u, modifying (g_pc s u) = false) -> g_pc s t = PIdle -> g_todo s t = XSize :: rest ->
    let l := tpairs (tab_at s (g_cur s)) in
    let r := xrun s (repeat t (S (nstr (tab_at s (g_cur s))))) in
    In (XRes t (XRNat (Z.of_nat (length l)))) (snd r)
    /\ (forall k v, In (k, v) l <-> vis (tab_at s (g_cur s)) k v) /\ NoDup (map fst l)
    /\ g_pc (fst r) t = PIdle /\ g_tabs (fst r) = g_tabs s /\ g_cur (fst r) = g_cur s.
  Proof.
    intros Hl s Hq Hp Ht l r.
    assert (H5 : XI5 s) by apply (reachable_inv5 eqd hash idx tag nslots seeds grow_needed shrink_policy probe nstripes minlen grow_only
               Hidx Hstripes Hminlen Hnslots Hprobe_sound Hprobe_complete len0 todo sched Hl).
    destruct H5 as [[HI [_ [HT HC]]] _].
    assert (Hsz : sum_z (x_size (tab_at s (g_cur s))) = tcount (tab_at s (g_cur s))) by (apply (quiescent_size len0 todo sched Hl); exact Hq).
    destruct (X_read.invoked_inv hash idx tag nslots seeds grow_needed nstripes minlen Hminlen Hnslots s t XSize rest HI HT HC Hp) as [HI1 _].
    set (s1 := invoked s t XSize rest) in *.
    assert (Ep : g_pc s1 t = PS_Table) by (unfold s1, X_read.invoked; cbn [g_pc start_pc]; destruct (Nat.eq_dec t t); congruence).
    destruct (solo_size s1 t HI1 Ep) as [F1 [F2 [F3 [F4 _]]]].
    change (tab_at s1 (g_cur s1)) with (tab_at s (g_cur s)) in F1, F2, F3, F4.
    unfold r. rewrite (X_read.invoke_run eqd hash idx tag nslots seeds grow_needed shrink_policy probe nstripes minlen grow_only
                         s t XSize rest _ Hp Ht); [|cbn; discriminate].
    fold s1. cbn [fst snd].
    destruct (tpairs_spec s (g_cur s) HI HC (xi_cur _ _ _ _ s HI) (cur_public s HT)) as [P1 P2].
    split; [right; unfold l; rewrite tpairs_length, <- Hsz; exact F2|]. split; [exact P1|]. split; [exact P2|].
    split; [exact F1|]. split; [exact F3 | exact F4].
  Qed.
End CountM.

(* ---------------- the statements of props/C08.v ---------------- *)
Section Final.
  Context {K V : Type}.
  Variable eqd : forall a b : K, {a = b} + {a <> b}.
  Variable hash : K -> N -> N.
  Variable idx : N -> nat -> nat.
  Variable tag : N -> N.
  Variable nslots : nat.
  Variable seeds : nat -> N.
  Variable grow_needed shrink_policy : nat -> Z -> bool.
  Variable probe : list (option N) -> N -> list nat.
  Variable nstripes : nat -> nat.
  Variable minlen : nat.
  Variable grow_only : bool.

  Notation xrun := (@xrun K V eqd hash idx tag nslots seeds grow_needed shrink_policy probe nstripes minlen grow_only).

  Lemma reachable_count_proof :
    xhyps4 idx nstripes minlen nslots probe -> forall len0 todo sched, 0 < len0 ->
    let s := fst (xrun (xinit nslots seeds nstripes len0 todo) sched) in
    forall tab, tab < length (g_tabs s) ->
      tcount (tab_at nslots nstripes s tab)
      = (sum_z (x_size (tab_at nslots nstripes s tab)) + owed_all s tab (nodup Nat.eq_dec sched))%Z.
  Proof.
    intros [[H1 [H2 H3]] [H4 [H5 H6]]] len0 todo sched Hl.
    apply (reachable_count eqd hash idx tag nslots seeds grow_needed shrink_policy probe nstripes minlen grow_only H1 H2 H3 H4 H5 H6 len0 todo sched Hl).
  Qed.

  Lemma quiescent_size_exact_proof :
    xhyps4 idx nstripes minlen nslots probe -> forall len0 todo sched t rest, 0 < len0 ->
    let s := fst (xrun (xinit nslots seeds nstripes len0 todo) sched) in
    (forall u, modifying (g_pc s u) = false) -> g_pc s t = PIdle -> g_todo s t = XSize :: rest ->
    let l := tpairs (tab_at nslots nstripes s (g_cur s)) in
    let r := xrun s (repeat t (S (nstr (tab_at nslots nstripes s (g_cur s))))) in
    In (XRes t (XRNat (Z.of_nat (length l)))) (snd r)
    /\ (forall k v, In (k, v) l <-> X_lin.vis hash idx (tab_at nslots nstripes s (g_cur s)) k v) /\ NoDup (map fst l)
    /\ g_pc (fst r) t = PIdle /\ g_tabs (fst r) = g_tabs s /\ g_cur (fst r) = g_cur s.
  Proof.
    intros [[H1 [H2 H3]] [H4 [H5 H6]]] len0 todo sched t rest Hl.
    apply (quiescent_size_exact eqd hash idx tag nslots seeds grow_needed shrink_policy probe nstripes minlen grow_only H1 H2 H3 H4 H5 H6 len0 todo sched t rest Hl).
  Qed.
End Final.
