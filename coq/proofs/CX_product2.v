(* CX_product2.v -- the product machine of CX_product.v, with the snapshot call (Range) RUN ON
   THE MAP MACHINE.

   In CX_product.v [MapCall CSnapshot k] was, as in Conc.v, one step with an arbitrary answer.
   Here the product thread pushes the machine's Range ([trs]) onto the todo list of its map
   thread, the machine runs it -- its primitive steps (bucket locks ...) interleaved with
   everybody else's -- and the program continues with [k (RSnap l)] where l is EXACTLY the
   list of pairs the machine's Range visited, in the order of the visits.

   The interface of the map machine is refined accordingly: a step yields
     - what the product thread sees of it ([sout]: the invocation, the pairs visited, the
       response -- in this order within a step), and
     - the events it contributes to the history the machine's linearizability theorem speaks
       about ([kept]: nothing for a call of the [drop] class);
   the threads of the machine are classified: [idle] (between calls), [inkept] (inside a call
   that is linearized), [indrop] (inside a dropped call).  Hypotheses: [H_frame] (as before),
   [H_proto] (the call protocol, by class), [H_lin] (fixed todo lists: the kept history of
   every run is linearizable), [H_transfer] (CX_trans.v).

   The composition needs nothing about what Range answers: Conc.v's atomic-map machine may
   answer a snapshot with ANY list, in particular with the one the real Range produced
   (CX_compose: the move [ASnap t l]).  [product2_linearizable]: if every run of Conc.v's
   machine is linearizable w.r.t. a specification, so is the cache-level history of every
   run of this product machine. *)
From CacheV Require Import Base SpecMap Client Ops Lin Conc.
From CacheV.proofs Require Import CX_trans CX_compose CX_product.
Local Open Scope nat_scope.

Section Product2.
  Context {K V : Type}.
  Variable eqd : forall a b : K, {a = b} + {a <> b}.
  Variable progs : cop K V -> prog K V (cres K V).
  Variables NOW DFLT : Z.
  Variable CB : cbid.

  Notation item := (item V).
  Notation cop := (cop K V).
  Notation cres := (cres K V).
  Notation cmop := (cmop K V).
  Notation imres := (imres K V).
  Notation prog := (prog K V cres).
  Notation env0 := (Conc.env0 NOW DFLT).
  Notation cmspec := (@cmspec K V eqd env0).
  Notation crun := (crun eqd progs NOW DFLT CB).
  Notation history := (@history K V).
  Notation out := (@out K V).
  Notation vconf := (@vconf K V).
  Notation vst := (@vst K V).
  Notation vstep := (vstep progs NOW DFLT CB).
  Notation vtrace := (vtrace progs NOW DFLT CB).

  (* ---------------- the map machine ---------------- *)

  Variables XS XO XR XSt : Type.

  (* what the calling thread sees of one step of its map thread *)
  Record sout := { so_inv : option XO; so_vis : list (K * item); so_res : option XR }.

  Variable step : XS -> nat -> option (XS * sout * list (hev XO XR)).
  Variable todo : XS -> nat -> list XO.
  Variable wtodo : XS -> (nat -> list XO) -> XS.
  Variables idle inkept indrop : XS -> nat -> Prop.
  Variable xinit : (nat -> list XO) -> XS.
  Variable xspec : XSt -> XO -> XR -> XSt -> Prop.
  Variable x0 : XSt.
  Variable xok : XO -> Prop.
  Variable drop : XO -> bool.

  (* the translation *)
  Variable tr : cmop -> XO.
  Variable bk : cmop -> XR -> imres.
  Variable sup : cmop -> bool.
  Variable trs : XO.                       (* the machine's Range *)
  Notation mok := (mok sup).

  (* the kept history of a run *)
  Fixpoint mrun2 (s : XS) (sched : list nat) : XS * list (hev XO XR) :=
    match sched with
    | [] => (s, [])
    | t :: rest =>
        match step s t with
        | Some (s', _, h) => let '(s'', h') := mrun2 s' rest in (s'', h ++ h')
        | None => mrun2 s rest
        end
    end.

  Hypothesis H_todo_w : forall s td t, todo (wtodo s td) t = td t.
  Hypothesis H_idle_w : forall s td t, idle (wtodo s td) t <-> idle s t.
  Hypothesis H_inkept_w : forall s td t, inkept (wtodo s td) t <-> inkept s t.
  Hypothesis H_indrop_w : forall s td t, indrop (wtodo s td) t <-> indrop s t.
  Hypothesis H_ww : forall s a b, wtodo (wtodo s a) b = wtodo s b.
  Hypothesis H_init_todo : forall td t, todo (xinit td) t = td t.
  Hypothesis H_init_idle : forall td t, idle (xinit td) t.
  Hypothesis H_init_w : forall a b, wtodo (xinit a) b = xinit b.

  Hypothesis H_frame : forall s t s' so h td fut,
    step s t = Some (s', so, h) -> (forall u, td u = todo s u ++ fut u) ->
    exists td', step (wtodo s td) t = Some (wtodo s' td', so, h) /\ forall u, td' u = todo s' u ++ fut u.

  (* the events of a call that is linearized *)
  Definition kev (t : nat) (o : option XO) (r : option XR) : list (hev XO XR) :=
    match o with Some o => [HInv t o] | None => [] end ++ match r with Some r => [HRes t r] | None => [] end.

  Hypothesis H_proto : forall s t s' so h, step s t = Some (s', so, h) ->
    (forall u, u <> t -> todo s' u = todo s u /\ (idle s u -> idle s' u) /\ (inkept s u -> inkept s' u) /\ (indrop s u -> indrop s' u))
    /\ (idle s t ->
          (* the thread starts *)
          (so_inv so = None /\ so_res so = None /\ h = [] /\ idle s' t /\ todo s' t = todo s t)
          (* or it invokes the call at the head of its todo list *)
          \/ (exists o rest, todo s t = o :: rest /\ todo s' t = rest /\ so_inv so = Some o
               /\ (xok o ->
                   h = (if drop o then [] else kev t (Some o) (so_res so))
                   /\ match so_res so with Some _ => idle s' t | None => if drop o then indrop s' t else inkept s' t end)))
    (* inside a linearized call *)
    /\ (inkept s t -> todo s' t = todo s t /\ so_inv so = None /\ h = kev t None (so_res so)
                      /\ match so_res so with Some _ => idle s' t | None => inkept s' t end)
    (* inside a dropped call *)
    /\ (indrop s t -> todo s' t = todo s t /\ so_inv so = None /\ h = []
                      /\ match so_res so with Some _ => idle s' t | None => indrop s' t end).

  Hypothesis H_ok : forall o, mok o -> xok (tr o) /\ drop (tr o) = false.
  Hypothesis H_oks : xok trs /\ drop trs = true.

  Hypothesis H_lin : forall td sched, (forall t, Forall xok (td t)) ->
    linearizable XO XR XSt xspec x0 (snd (mrun2 (xinit td) sched)).

  Hypothesis H_transfer : forall hx hm, hrel tr bk mok (fun _ => None) hx hm ->
    linearizable XO XR XSt xspec x0 hx -> linearizable cmop imres _ cmspec [] hm.

  (* ---------------- the product machine ---------------- *)

  Inductive qst :=
  | QIdle
  | QRun (o : cop) (p : prog)
  | QPushed (o : cop) (mo : cmop) (k : imres -> prog)     (* the call is in the todo list of the map machine *)
  | QWait (o : cop) (mo : cmop) (k : imres -> prog)       (* the map machine has invoked it *)
  | QSPushed (o : cop) (k : imres -> prog)                (* the same for the snapshot: Range is in the todo list *)
  | QSWait (o : cop) (k : imres -> prog) (acc : list (K * item)).   (* Range runs; acc = the pairs visited so far *)

  Record pconf := { p_x : XS; p_thr : nat -> qst; p_todo : nat -> list cop }.

  Definition push (s : XS) (t : nat) (xo : XO) : XS := wtodo s (upd (todo s) t (todo s t ++ [xo])).

  (* one step of the map thread, seen by the product thread that waits for it *)
  Definition feed (t : nat) (q : qst) (so : sout) : qst * list out :=
    match q with
    | QPushed o mo k =>
        match so_inv so, so_res so with
        | Some _, None => (QWait o mo k, [OM (HInv t mo)])
        | Some _, Some r => (QRun o (k (bk mo r)), [OM (HInv t mo); OM (HRes t (bk mo r))])
        | None, _ => (q, [])
        end
    | QWait o mo k =>
        match so_res so with
        | Some r => (QRun o (k (bk mo r)), [OM (HRes t (bk mo r))])
        | None => (q, [])
        end
    | QSPushed o k =>
        match so_inv so, so_res so with
        | Some _, None => (QSWait o k (so_vis so), [])
        | Some _, Some _ => (QRun o (k (RSnap (so_vis so))), [])
        | None, _ => (q, [])
        end
    | QSWait o k acc =>
        match so_res so with
        | Some _ => (QRun o (k (RSnap (acc ++ so_vis so))), [])
        | None => (QSWait o k (acc ++ so_vis so), [])
        end
    | _ => (q, [])
    end.

  Definition pset (p : pconf) (t : nat) (q : qst) : pconf :=
    {| p_x := p_x p; p_thr := upd (p_thr p) t q; p_todo := p_todo p |}.

  Definition xmove (p : pconf) (t : nat) : option (pconf * list out * list (hev XO XR)) :=
    match step (p_x p) t with
    | None => None
    | Some (x', so, h) =>
        let '(q', os) := feed t (p_thr p t) so in
        Some ({| p_x := x'; p_thr := upd (p_thr p) t q'; p_todo := p_todo p |}, os, h)
    end.

  (* one move of thread t.  Result: the new configuration, the events of the combined trace, the
     kept events of the map machine *)
  Definition pstep (p : pconf) (t : nat) : option (pconf * list out * list (hev XO XR)) :=
    match p_thr p t with
    | QIdle =>
        match p_todo p t with
        | [] => None
        | o :: rest =>
            Some ({| p_x := p_x p; p_thr := upd (p_thr p) t (QRun o (progs o)); p_todo := upd (p_todo p) t rest |},
                  [OC (HInv t o)], [])
        end
    | QRun o pr =>
        match pr with
        | Ret r => Some (pset p t QIdle, [OC (HRes t r)], [])
        | MapCall mo k =>
            match mo with
            | CSnapshot => Some ({| p_x := push (p_x p) t trs; p_thr := upd (p_thr p) t (QSPushed o k);
                                    p_todo := p_todo p |}, [], [])
            | _ => if sup mo
                   then Some ({| p_x := push (p_x p) t (tr mo); p_thr := upd (p_thr p) t (QPushed o mo k);
                                 p_todo := p_todo p |}, [], [])
                   else None
            end
        | ReadNow k => Some (pset p t (QRun o (k NOW)), [], [])
        | ReadDflt k => Some (pset p t (QRun o (k DFLT)), [], [])
        | ReadCb k => Some (pset p t (QRun o (k CB)), [], [])
        | Emit _ k => Some (pset p t (QRun o k), [], [])
        | WriteDflt _ _ | WriteCb _ _ => None
        end
    | _ => xmove p t
    end.

  (* a schedule is a list of threads: nothing is chosen but who moves *)
  Fixpoint prun (p : pconf) (sched : list nat) : pconf * list out * list (hev XO XR) :=
    match sched with
    | [] => (p, [], [])
    | t :: rest =>
        match pstep p t with
        | Some (p', os, h) => let '(p'', os', h') := prun p' rest in (p'', os ++ os', h ++ h')
        | None => prun p rest
        end
    end.

  Definition pinit (todo0 : nat -> list cop) : pconf :=
    {| p_x := xinit (fun _ => []); p_thr := fun _ => QIdle; p_todo := todo0 |}.

  (* the cache-level history of a run *)
  Definition phist (todo0 : nat -> list cop) sched : list (hev cop cres) :=
    cproj (snd (fst (prun (pinit todo0) sched))).

  (* ---------------- the invariant ---------------- *)

  Definition PIq (x : XS) (t : nat) (q : qst) : Prop :=
    match q with
    | QIdle | QRun _ _ => todo x t = [] /\ idle x t
    | QPushed o mo k => todo x t = [tr mo] /\ idle x t /\ mok mo /\ mo <> CSnapshot
    | QWait o mo k => todo x t = [] /\ inkept x t /\ mok mo
    | QSPushed o k => todo x t = [trs] /\ idle x t
    | QSWait o k acc => todo x t = [] /\ indrop x t
    end.

  Definition PI (p : pconf) : Prop := forall t, PIq (p_x p) t (p_thr p t).

  Definition vq (q : qst) : vst :=
    match q with
    | QIdle => VIdle
    | QRun o p => VRun o p
    | QPushed o mo k => VRun o (MapCall mo k)
    | QWait o mo k => VWait o mo k
    | QSPushed o k | QSWait o k _ => VRun o (MapCall CSnapshot k)
    end.

  Definition vof (p : pconf) : vconf := {| v_thr := fun t => vq (p_thr p t); v_todo := p_todo p |}.

  Definition pq (q : qst) : option cmop := match q with QWait _ mo _ => Some mo | _ => None end.
  Definition pend_of (p : pconf) : nat -> option cmop := fun t => pq (p_thr p t).

  Notation hrel' := (hrel tr bk mok).

  Definition move_ok (p p1 : pconf) (os : list out) (h : list (hev XO XR)) : Prop :=
    PI p1
    /\ (forall hx' hm', hrel' (pend_of p1) hx' hm' -> hrel' (pend_of p) (h ++ hx') (mproj os ++ hm'))
    /\ (forall outs', vtrace (vof p1) outs' -> vtrace (vof p) (os ++ outs')).

  Lemma pend_upd p x1 td1 t q u :
    pend_of {| p_x := x1; p_thr := upd (p_thr p) t q; p_todo := td1 |} u = upd (pend_of p) t (pq q) u.
  Proof. unfold pend_of; cbn. unfold upd. destruct (Nat.eq_dec u t); reflexivity. Qed.

  Lemma vof_upd p x1 t q :
    veq (vset (vof p) t (vq q)) (vof {| p_x := x1; p_thr := upd (p_thr p) t q; p_todo := p_todo p |}).
  Proof. split; cbn; [|reflexivity]. intros u. unfold upd. destruct (Nat.eq_dec u t); reflexivity. Qed.

  Lemma upd_same_ext {X} (f : nat -> X) t x u : x = f t -> upd f t x u = f u.
  Proof. intros ->. unfold upd. destruct (Nat.eq_dec u t) as [->|]; reflexivity. Qed.

  Lemma vstep_minv (c : vconf) t o mo k : v_thr c t = VRun o (MapCall mo k) -> mo <> CSnapshot ->
    vstep c (AMInv t) = Some (vset c t (VWait o mo k), [OM (HInv t mo)]).
  Proof. intros E Hn. cbn [CX_compose.vstep]. rewrite E. destruct mo; try reflexivity. exfalso; apply Hn; reflexivity. Qed.

  Lemma vstep_mres (c : vconf) t o mo k r : v_thr c t = VWait o mo k ->
    vstep c (AMRes t r) = Some (vset c t (VRun o (k r)), [OM (HRes t r)]).
  Proof. intros E. cbn [CX_compose.vstep]. rewrite E. reflexivity. Qed.

  Lemma vstep_snap (c : vconf) t o k l : v_thr c t = VRun o (MapCall CSnapshot k) ->
    vstep c (ASnap t l) = Some (vset c t (VRun o (k (RSnap l))), []).
  Proof. intros E. cbn [CX_compose.vstep]. rewrite E. reflexivity. Qed.

  Lemma PI_xmove p t x1 q1 :
    PI p ->
    (forall u, u <> t -> todo x1 u = todo (p_x p) u /\ (idle (p_x p) u -> idle x1 u)
                         /\ (inkept (p_x p) u -> inkept x1 u) /\ (indrop (p_x p) u -> indrop x1 u)) ->
    PIq x1 t q1 ->
    PI {| p_x := x1; p_thr := upd (p_thr p) t q1; p_todo := p_todo p |}.
  Proof.
    intros HP Ho Ht u. cbn. unfold upd. destruct (Nat.eq_dec u t) as [->|Hn]; [exact Ht|].
    pose proof (HP u) as Hu. destruct (Ho u Hn) as [A [B [C D]]]. unfold PIq in *. rewrite A.
    destruct (p_thr p u); intuition.
  Qed.

  (* a move that neither the client nor the history sees *)
  Lemma silent_ok p t x1 q1 : PI p ->
    PI {| p_x := x1; p_thr := upd (p_thr p) t q1; p_todo := p_todo p |} ->
    vq q1 = vq (p_thr p t) -> pq q1 = pq (p_thr p t) ->
    move_ok p {| p_x := x1; p_thr := upd (p_thr p) t q1; p_todo := p_todo p |} [] [].
  Proof.
    intros HP HP1 Ev Ep. split; [exact HP1|]. split.
    - intros hx' hm' Hh. cbn [app mproj]. eapply hrel_ext; [exact Hh|].
      intros u. rewrite pend_upd. apply upd_same_ext. exact Ep.
    - intros outs' Hv. cbn [app]. eapply vtrace_veq; [|exact Hv].
      eapply veq_trans; [apply veq_sym; apply (vof_upd p x1 t q1)|].
      split; cbn; [|reflexivity]. intros u. exact (upd_same_ext (fun t0 => vq (p_thr p t0)) t (vq q1) u Ev).
  Qed.

  (* the snapshot is answered: the client's move ASnap with the list the machine visited *)
  Lemma snap_ok p t x1 o k l : PI p ->
    PI {| p_x := x1; p_thr := upd (p_thr p) t (QRun o (k (RSnap l))); p_todo := p_todo p |} ->
    vq (p_thr p t) = VRun o (MapCall CSnapshot k) -> pq (p_thr p t) = None ->
    move_ok p {| p_x := x1; p_thr := upd (p_thr p) t (QRun o (k (RSnap l))); p_todo := p_todo p |} [] [].
  Proof.
    intros HP HP1 Ev Ep. split; [exact HP1|]. split.
    - intros hx' hm' Hh. cbn [app mproj]. eapply hrel_ext; [exact Hh|].
      intros u. rewrite pend_upd. apply upd_same_ext. cbn [pq]. symmetry. exact Ep.
    - intros outs' Hv. cbn [app].
      eapply (vt_step progs NOW DFLT CB (vof p) (ASnap t l) _ []);
        [apply (vstep_snap (vof p) t o k l); exact Ev | | exact Hv].
      apply (vof_upd p x1 t (QRun o (k (RSnap l)))).
  Qed.

  Lemma xmove_ok p t p1 os h : PI p ->
    match p_thr p t with QIdle | QRun _ _ => False | _ => True end ->
    xmove p t = Some (p1, os, h) -> move_ok p p1 os h.
  Proof.
    intros HP Hq E. unfold xmove in E.
    destruct (step (p_x p) t) as [[[x1 so] h1]|] eqn:Es; [|discriminate E].
    destruct (H_proto _ _ _ _ _ Es) as [Ho [Hci [Hck Hcd]]].
    pose proof (HP t) as Hpt. unfold PIq in Hpt.
    destruct (p_thr p t) as [| |o mo k|o mo k|o k|o k acc] eqn:Et; try contradiction.
    - (* the call is in the todo list *)
      destruct Hpt as [Htd [Hid [Hmok Hns]]].
      destruct (Hci Hid) as [[Ei [Er [Eh [Hid1 Htd1]]]]|[xo [rest [Etd [Etd1 [Ei Hxo]]]]]].
      + unfold feed in E. rewrite Ei in E. inversion E; subst p1 os h; clear E. subst h1.
        apply silent_ok; [exact HP | | rewrite Et; reflexivity | rewrite Et; reflexivity].
        apply PI_xmove; [exact HP | exact Ho | cbn; rewrite Htd1; auto].
      + rewrite Htd in Etd. inversion Etd; subst xo rest. clear Etd.
        destruct (H_ok mo Hmok) as [Hxk Hdr]. destruct (Hxo Hxk) as [Eh Hcl]. rewrite Hdr in Eh, Hcl.
        unfold feed in E. rewrite Ei in E. destruct (so_res so) as [r|] eqn:Er; inversion E; subst p1 os h; clear E; subst h1.
        * (* invoked and answered in one step *)
          split; [apply PI_xmove; [exact HP | exact Ho | cbn; auto]|]. split.
          -- intros hx' hm' Hh. cbn [kev app mproj]. apply hrel_inv; [exact Hmok|].
             apply (hrel_res tr bk mok _ t mo r); [unfold upd; destruct (Nat.eq_dec t t); [reflexivity | congruence]|].
             eapply hrel_ext; [exact Hh|]. intros u. rewrite pend_upd. cbn [pq].
             unfold upd. destruct (Nat.eq_dec u t); reflexivity.
          -- intros outs' Hv. cbn [app].
             eapply (vt_step progs NOW DFLT CB (vof p) (AMInv t) _ [OM (HInv t mo)]);
               [apply (vstep_minv (vof p) t o mo k); [cbn; rewrite Et; reflexivity | exact Hns] | apply veq_refl |].
             eapply (vt_step progs NOW DFLT CB _ (AMRes t (bk mo r)) _ [OM (HRes t (bk mo r))]);
               [apply (vstep_mres _ t o mo k); cbn; unfold upd; destruct (Nat.eq_dec t t); [reflexivity | congruence] | | exact Hv].
             split; cbn; [|reflexivity]. intros u. unfold upd. destruct (Nat.eq_dec u t); reflexivity.
        * (* the invocation *)
          split; [apply PI_xmove; [exact HP | exact Ho | cbn; auto]|]. split.
          -- intros hx' hm' Hh. cbn [kev app mproj]. apply hrel_inv; [exact Hmok|].
             eapply hrel_ext; [exact Hh|]. intros u. apply pend_upd.
          -- intros outs' Hv. cbn [app].
             eapply (vt_step progs NOW DFLT CB (vof p) (AMInv t) _ [OM (HInv t mo)]);
               [apply (vstep_minv (vof p) t o mo k); [cbn; rewrite Et; reflexivity | exact Hns] | | exact Hv].
             apply (vof_upd p x1 t (QWait o mo k)).
    - (* the call has been invoked *)
      destruct Hpt as [Htd [Hik Hmok]].
      destruct (Hck Hik) as [Htd1 [Ei [Eh Hcl]]].
      unfold feed in E. destruct (so_res so) as [r|] eqn:Er; inversion E; subst p1 os h; clear E; subst h1.
      + (* the answer *)
        split; [apply PI_xmove; [exact HP | exact Ho | cbn; rewrite Htd1; auto]|]. split.
        * intros hx' hm' Hh. cbn [kev app mproj].
          apply (hrel_res tr bk mok _ t mo r); [unfold pend_of; rewrite Et; reflexivity|].
          eapply hrel_ext; [exact Hh|]. intros u. apply pend_upd.
        * intros outs' Hv. cbn [app].
          eapply (vt_step progs NOW DFLT CB (vof p) (AMRes t (bk mo r)) _ [OM (HRes t (bk mo r))]);
            [apply (vstep_mres (vof p) t o mo k); cbn; rewrite Et; reflexivity | | exact Hv].
          apply (vof_upd p x1 t (QRun o (k (bk mo r)))).
      + cbn [kev app].
        apply silent_ok; [exact HP | | rewrite Et; reflexivity | rewrite Et; reflexivity].
        apply PI_xmove; [exact HP | exact Ho | cbn; rewrite Htd1; auto].
    - (* Range is in the todo list *)
      destruct Hpt as [Htd Hid].
      destruct (Hci Hid) as [[Ei [Er [Eh [Hid1 Htd1]]]]|[xo [rest [Etd [Etd1 [Ei Hxo]]]]]].
      + unfold feed in E. rewrite Ei in E. inversion E; subst p1 os h; clear E. subst h1.
        apply silent_ok; [exact HP | | rewrite Et; reflexivity | rewrite Et; reflexivity].
        apply PI_xmove; [exact HP | exact Ho | cbn; rewrite Htd1; auto].
      + rewrite Htd in Etd. inversion Etd; subst xo rest. clear Etd.
        destruct H_oks as [Hxk Hdr]. destruct (Hxo Hxk) as [Eh Hcl]. rewrite Hdr in Eh, Hcl.
        unfold feed in E. rewrite Ei in E. destruct (so_res so) as [r|] eqn:Er; inversion E; subst p1 os h; clear E; subst h1.
        * apply snap_ok; [exact HP | | rewrite Et; reflexivity | rewrite Et; reflexivity].
          apply PI_xmove; [exact HP | exact Ho | cbn; auto].
        * apply silent_ok; [exact HP | | rewrite Et; reflexivity | rewrite Et; reflexivity].
          apply PI_xmove; [exact HP | exact Ho | cbn; auto].
    - (* Range runs *)
      destruct Hpt as [Htd Hidr].
      destruct (Hcd Hidr) as [Htd1 [Ei [Eh Hcl]]].
      unfold feed in E. destruct (so_res so) as [r|] eqn:Er; inversion E; subst p1 os h; clear E; subst h1.
      + apply snap_ok; [exact HP | | rewrite Et; reflexivity | rewrite Et; reflexivity].
        apply PI_xmove; [exact HP | exact Ho | cbn; rewrite Htd1; auto].
      + apply silent_ok; [exact HP | | rewrite Et; reflexivity | rewrite Et; reflexivity].
        apply PI_xmove; [exact HP | exact Ho | cbn; rewrite Htd1; auto].
  Qed.

  (* a move of the client alone: the map machine is not touched *)
  Lemma client_move p t q a os :
    PI p ->
    match q with QIdle | QRun _ _ => True | _ => False end ->
    match p_thr p t with QIdle | QRun _ _ => True | _ => False end ->
    mproj os = [] ->
    vstep (vof p) a = Some (vset (vof p) t (vq q), os) ->
    move_ok p (pset p t q) os [].
  Proof.
    intros HP Hq Ht Hm Hv. pose proof (HP t) as Hpt. split; [|split].
    - apply PI_xmove; [exact HP | intros u _; auto |]. unfold PIq in *.
      destruct (p_thr p t); try contradiction; destruct q; try contradiction; exact Hpt.
    - intros hx' hm' Hh. rewrite Hm. cbn [app]. eapply hrel_ext; [exact Hh|].
      intros u. unfold pset. rewrite pend_upd. apply upd_same_ext. unfold pend_of.
      destruct (p_thr p t); try contradiction; destruct q; try contradiction; reflexivity.
    - intros outs' Ho. eapply vt_step; [exact Hv | | exact Ho]. apply (vof_upd p (p_x p) t q).
  Qed.

  (* a call goes into the todo list of the map machine *)
  Lemma push_ok p t o pr xo q : PI p -> p_thr p t = QRun o pr ->
    vq q = VRun o pr -> pq q = None ->
    (forall x, todo x t = [xo] -> idle x t -> PIq x t q) ->
    move_ok p {| p_x := push (p_x p) t xo; p_thr := upd (p_thr p) t q; p_todo := p_todo p |} [] [].
  Proof.
    intros HP Et Ev Ep Hq. pose proof (HP t) as Hpt. unfold PIq in Hpt. rewrite Et in Hpt. destruct Hpt as [Htd Hid].
    split; [|split].
    - intros u. cbn. unfold upd at 1. destruct (Nat.eq_dec u t) as [->|Hn].
      + apply Hq.
        * unfold push. rewrite H_todo_w. unfold upd. destruct (Nat.eq_dec t t) as [_|Hc]; [|congruence]. rewrite Htd. reflexivity.
        * apply H_idle_w. exact Hid.
      + pose proof (HP u) as Hu. unfold PIq in *. unfold push. rewrite H_todo_w. unfold upd. destruct (Nat.eq_dec u t) as [Hc|_]; [contradiction|].
        destruct (p_thr p u); rewrite ?H_idle_w, ?H_inkept_w, ?H_indrop_w; exact Hu.
    - intros hx' hm' Hh. cbn [app mproj]. eapply hrel_ext; [exact Hh|].
      intros u. rewrite pend_upd. apply upd_same_ext. unfold pend_of. rewrite Et, Ep. reflexivity.
    - intros outs' Hv. cbn [app]. eapply vtrace_veq; [|exact Hv].
      split; cbn; [|reflexivity]. intros u. unfold upd. destruct (Nat.eq_dec u t) as [->|]; [rewrite Et, Ev|]; reflexivity.
  Qed.

  Lemma pstep_ok p t p1 os h : PI p -> pstep p t = Some (p1, os, h) -> move_ok p p1 os h.
  Proof.
    intros HP E. unfold pstep in E. pose proof (HP t) as Hpt.
    destruct (p_thr p t) as [|o pr|o mo k|o mo k|o k|o k acc] eqn:Et;
      try (apply (xmove_ok p t p1 os h HP); [rewrite Et; exact I | exact E]).
    - (* invoke a cache method *)
      destruct (p_todo p t) as [|o rest] eqn:Etd; [discriminate E|]. inversion E; subst p1 os h; clear E.
      split; [|split].
      + intros u. cbn. unfold upd. destruct (Nat.eq_dec u t) as [->|]; [exact Hpt | apply HP].
      + intros hx' hm' Hh. cbn [app mproj]. eapply hrel_ext; [exact Hh|].
        intros u. rewrite pend_upd. apply upd_same_ext. unfold pend_of. rewrite Et. reflexivity.
      + intros outs' Hv.
        eapply (vt_step progs NOW DFLT CB (vof p) (AInv t)); [cbn; rewrite Et, Etd; reflexivity | | exact Hv].
        split; cbn; intros u; unfold upd; destruct (Nat.eq_dec u t); reflexivity.
    - destruct pr as [r|mo k|k|k|d k|k|cb k|e k]; try discriminate E.
      + inversion E; subst p1 os h; clear E.
        apply (client_move p t QIdle (ARet t)); [exact HP | exact I | rewrite Et; exact I | reflexivity |].
        cbn. rewrite Et. reflexivity.
      + destruct mo.
        1-7: destruct (sup _) eqn:Hsup; [|discriminate E]; inversion E; subst p1 os h; clear E.
        1-7: apply (push_ok p t o _ _ (QPushed o _ k) HP Et); [reflexivity | reflexivity |];
             intros x Hx Hi; cbn; (split; [exact Hx|]); (split; [exact Hi|]); (split; [exact Hsup | discriminate]).
        inversion E; subst p1 os h; clear E.
        apply (push_ok p t o _ _ (QSPushed o k) HP Et); [reflexivity | reflexivity |].
        intros x Hx Hi. cbn. split; assumption.
      + inversion E; subst p1 os h; clear E.
        apply (client_move p t (QRun o (k NOW)) (ATau t)); [exact HP | exact I | rewrite Et; exact I | reflexivity |].
        cbn. rewrite Et. reflexivity.
      + inversion E; subst p1 os h; clear E.
        apply (client_move p t (QRun o (k DFLT)) (ATau t)); [exact HP | exact I | rewrite Et; exact I | reflexivity |].
        cbn. rewrite Et. reflexivity.
      + inversion E; subst p1 os h; clear E.
        apply (client_move p t (QRun o (k CB)) (ATau t)); [exact HP | exact I | rewrite Et; exact I | reflexivity |].
        cbn. rewrite Et. reflexivity.
      + inversion E; subst p1 os h; clear E.
        apply (client_move p t (QRun o k) (ATau t)); [exact HP | exact I | rewrite Et; exact I | reflexivity |].
        cbn. rewrite Et. reflexivity.
  Qed.

  Lemma prun_cons p t rest :
    prun p (t :: rest) =
    match pstep p t with
    | Some (p', os, h) => (fst (fst (prun p' rest)), os ++ snd (fst (prun p' rest)), h ++ snd (prun p' rest))
    | None => prun p rest
    end.
  Proof. cbn [prun]. destruct (pstep p t) as [[[p' os] h]|]; [|reflexivity]. destruct (prun p' rest) as [[p'' os'] h']. reflexivity. Qed.

  Lemma prun_ok sched : forall p, PI p ->
    hrel' (pend_of p) (snd (prun p sched)) (mproj (snd (fst (prun p sched))))
    /\ vtrace (vof p) (snd (fst (prun p sched))).
  Proof.
    induction sched as [|t rest IH]; intros p HP.
    - cbn. split; constructor.
    - rewrite prun_cons. destruct (pstep p t) as [[[p1 os] h]|] eqn:E; [|apply IH; exact HP].
      cbn [fst snd]. destruct (pstep_ok p t p1 os h HP E) as [HP1 [Hh Hv]].
      destruct (IH p1 HP1) as [A B]. rewrite mproj_app. split; [apply Hh; exact A | apply Hv; exact B].
  Qed.

  (* ---------------- the prophecy ---------------- *)

  Lemma pstep_kind p t p1 os h : pstep p t = Some (p1, os, h) ->
    (p_x p1 = p_x p /\ h = [])
    \/ (exists xo, xok xo /\ p_x p1 = push (p_x p) t xo /\ h = [])
    \/ (exists so, step (p_x p) t = Some (p_x p1, so, h)).
  Proof.
    intros E. unfold pstep in E.
    assert (Hx : xmove p t = Some (p1, os, h) -> exists so, step (p_x p) t = Some (p_x p1, so, h)).
    { unfold xmove. destruct (step (p_x p) t) as [[[x1 so] h1]|]; [|discriminate].
      destruct (feed t (p_thr p t) so). intros E'. inversion E'; subst. exists so. reflexivity. }
    destruct (p_thr p t) as [|o pr|o mo k|o mo k|o k|o k acc]; try (right; right; apply Hx; exact E).
    - destruct (p_todo p t); [discriminate E|]. inversion E; subst. left. split; reflexivity.
    - destruct pr as [r|mo k|k|k|d k|k|cb k|e k]; try discriminate E;
        try (inversion E; subst; left; split; reflexivity).
      destruct mo;
        try (destruct (sup _) eqn:Hsup; [|discriminate E]; inversion E; subst; right; left;
             eexists; split; [apply H_ok; exact Hsup|]; split; reflexivity).
      inversion E; subst. right; left. exists trs. split; [apply H_oks|]. split; reflexivity.
  Qed.

  Definition ahead (fut : nat -> list XO) (s s' : XS) : Prop :=
    exists td, s' = wtodo s td /\ forall u, td u = todo s u ++ fut u.

  Lemma mrun2_cons s t rest :
    mrun2 s (t :: rest) = match step s t with
                          | Some (s', _, h) => (fst (mrun2 s' rest), h ++ snd (mrun2 s' rest))
                          | None => mrun2 s rest
                          end.
  Proof. cbn [mrun2]. destruct (step s t) as [[[s' so] h]|]; [|reflexivity]. destruct (mrun2 s' rest). reflexivity. Qed.

  Theorem prophecy sched : forall p,
    exists fut, (forall t, Forall xok (fut t))
      /\ forall s', ahead fut (p_x p) s' -> exists sched', snd (mrun2 s' sched') = snd (prun p sched).
  Proof.
    induction sched as [|t rest IH]; intros p.
    - exists (fun _ => []). split; [intros t; constructor|]. intros s' _. exists []. reflexivity.
    - rewrite prun_cons. destruct (pstep p t) as [[[p1 os] h]|] eqn:E; [|apply IH].
      cbn [snd]. destruct (IH p1) as [fut1 [Hok1 Hf1]].
      destruct (pstep_kind p t p1 os h E) as [[Ex Eh]|[[xo [Hxok [Ex Eh]]]|[so Es]]].
      + subst h. exists fut1. split; [exact Hok1|]. intros s' Ha. rewrite <- Ex in Ha. apply (Hf1 s' Ha).
      + subst h. exists (upd fut1 t (xo :: fut1 t)). split.
        * intros u. unfold upd. destruct (Nat.eq_dec u t) as [->|]; [constructor; [exact Hxok | apply Hok1] | apply Hok1].
        * intros s' [td [Es' Htd]]. apply Hf1. rewrite Ex. exists td. split.
          -- unfold push. rewrite H_ww. exact Es'.
          -- intros u. unfold push. rewrite H_todo_w. rewrite Htd. unfold upd.
             destruct (Nat.eq_dec u t) as [->|]; [rewrite <- app_assoc; reflexivity | reflexivity].
      + exists fut1. split; [exact Hok1|]. intros s' [td [Es' Htd]]. subst s'.
        destruct (H_frame _ _ _ _ _ td fut1 Es Htd) as [td' [Es1 Htd']].
        destruct (Hf1 (wtodo (p_x p1) td')) as [sched' Hs']; [exists td'; split; [reflexivity | exact Htd']|].
        exists (t :: sched'). rewrite mrun2_cons, Es1. cbn [snd]. rewrite Hs'. reflexivity.
  Qed.

  (* ---------------- the theorems ---------------- *)

  Lemma PI_init todo0 : PI (pinit todo0).
  Proof. intros t. cbn. split; [apply H_init_todo | apply H_init_idle]. Qed.

  Theorem product2_map_linearizable todo0 sched :
    linearizable cmop imres _ cmspec [] (mproj (snd (fst (prun (pinit todo0) sched)))).
  Proof.
    destruct (prun_ok sched (pinit todo0) (PI_init todo0)) as [Hh _].
    destruct (prophecy sched (pinit todo0)) as [fut [Hok Hf]].
    destruct (Hf (xinit fut)) as [sched' Hs'].
    { exists fut. split; [cbn; rewrite H_init_w; reflexivity|]. intros u. cbn. rewrite H_init_todo. reflexivity. }
    eapply H_transfer; [exact Hh|]. rewrite <- Hs'. apply H_lin. exact Hok.
  Qed.

  Theorem product2_trace todo0 sched : vtrace (vinit todo0) (snd (fst (prun (pinit todo0) sched))).
  Proof. destruct (prun_ok sched (pinit todo0) (PI_init todo0)) as [_ Hv]. exact Hv. Qed.

  Theorem product2_linearizable (St : Type) (spec : St -> cop -> cres -> St -> Prop) (S0 : St) todo0 sched :
    (forall sched', linearizable cop cres St spec S0 (history (snd (crun (cinit [] todo0) sched')))) ->
    linearizable cop cres St spec S0 (phist todo0 sched).
  Proof.
    intros Hall. unfold phist.
    apply (compose_trace_linearizable eqd progs NOW DFLT CB St spec S0 [] todo0); [exact Hall | apply product2_trace | apply product2_map_linearizable].
  Qed.

End Product2.

Print Assumptions product2_linearizable.
