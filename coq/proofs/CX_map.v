(* CX_map.v -- Stage D: the cache methods over XMachineS (the string-keyed Map of
   xsync_map.go's cache), as CX_mapof.v over XMachine.

   1. The translation of the cache's map calls to operations of XMachineS and the
      agreement of [sspec] with [map_step] ([strans_spec], [map_lin_transfer]); the same
      modelling decision as in CX_trans.v (co = false: the answer carries the old value,
      from which the closure's side effects are replayed).
   2. XMachineS satisfies the interface of CX_product.v: [sstep_pc_wtodo] (a step does not
      look at the todo lists), [sstep_pc_shape] (todo lists, other threads' program
      counters, history events of a step) -- for ALL states, in particular whatever the
      Range frames are; no invariant is needed.
   3. [cache_over_smachine_linearizable]: every run of the cache methods (CacheModel) over
      XMachineS is linearizable w.r.t. the TTL semantics. *)
From CacheV Require Import Base SpecMap Client CacheModel Ops SpecTTL Lin Conc.
From CacheV.gen Require Import Params.
From CacheV.proofs Require X_linpoints.
From CacheV.proofs Require Import C01_sim C01_hist C02_good C02_lin XS_resize XS_linpoints XS_linearizable
  CX_trans CX_compose CX_product.
From CacheV Require Import XMachineS.   (* after CX_product: QIdle is XMachineS's program counter here *)
From Coq Require Import NArith.
Local Open Scope nat_scope.

(* ---------------- 1. the translation ---------------- *)

Section TransS.
  Context {K V : Type}.
  Variable eqd : forall a b : K, {a = b} + {a <> b}.
  Variable e : env.

  Notation item := (item V).
  Notation cmop := (cmop K V).
  Notation imres := (imres K V).
  Notation sop := (@sop K item).
  Notation sres := (@sres item).

  Definition stranslate (o : cmop) : sop :=
    match o with
    | CLoad k => SLoad k
    | CStore k i => SCompute k (fun _ => Some i) false false false
    | CCompute k c => SCompute k (cfun e c) true false false
    | CLoadAndDelete k => SCompute k (fun _ => None) false false false
    | CDelete k => SCompute k (fun _ => None) false false false
    | CClear => SClear
    | CSize => SSize
    | CSnapshot => SRange (fun _ _ => None)
    end.

  Definition sback (o : cmop) (r : sres) : imres :=
    match o, r with
    | CLoad _, SRVal v ok => RVal v ok None
    | CCompute _ c, SRVal v ok => compute_res e c (old_of v ok)
    | CLoadAndDelete _, SRVal v ok => RVal v ok None
    | (CStore _ _ | CDelete _ | CClear), _ => RUnit
    | _, _ => RUnit
    end.

  Lemma stranslate_okop o : mapcall_ok o -> sokop (stranslate o).
  Proof. destruct o; cbn; auto. Qed.

  Theorem strans_spec mx m o : Rst eqd mx m -> mapcall_ok o ->
    Rst eqd (sspec_next eqd mx (stranslate o)) (fst (map_step eqd m (to_mop e o)))
    /\ sback o (sspec_res mx (stranslate o)) = snd (map_step eqd m (to_mop e o)).
  Proof.
    intros HR Hok. destruct o as [k|k i|k c|k|k| | |]; cbn in Hok; try contradiction;
      cbn [stranslate to_mop map_step sspec_next sspec_res sback].
    - rewrite (HR k). destruct (lookup eqd k m); cbn; split; auto.
    - rewrite (HR k). destruct (lookup eqd k m); cbn; split; try reflexivity; apply Rst_insert; exact HR.
    - rewrite (HR k). unfold cfun, compute_res, old_of.
      destruct (lookup eqd k m) as [old|] eqn:El.
      + destruct (c e (Some old)) as [[nv del] a] eqn:Ec. destruct del; cbn.
        * rewrite Ec. split; [apply Rst_remove; exact HR | reflexivity].
        * rewrite Ec. split; [apply Rst_insert; exact HR | reflexivity].
      + destruct (c e None) as [[nv del] a] eqn:Ec. destruct del; cbn.
        * rewrite Ec. split; [exact HR | reflexivity].
        * rewrite Ec. split; [apply Rst_insert; exact HR | reflexivity].
    - rewrite (HR k). destruct (lookup eqd k m) eqn:El; cbn; split; try reflexivity; [apply Rst_remove; exact HR | exact HR].
    - rewrite (HR k). destruct (lookup eqd k m) eqn:El; cbn; split; try reflexivity; [apply Rst_remove; exact HR |].
      rewrite (remove_absent eqd k m El). exact HR.
    - split; [apply Rst_empty | reflexivity].
  Qed.

  Theorem strans_sim mx m o r mx' : Rst eqd mx m -> mapcall_ok o -> sspec eqd mx (stranslate o) r mx' ->
    exists m', cmspec eqd e m o (sback o r) m' /\ Rst eqd mx' m'.
  Proof.
    intros HR Hok [_ [Er Em]]. subst r mx'.
    destruct (strans_spec mx m o HR Hok) as [A B].
    exists (fst (map_step eqd m (to_mop e o))). split; [|exact A]. split.
    - destruct o; cbn in Hok; try contradiction; discriminate.
    - rewrite B. destruct (map_step eqd m (to_mop e o)); reflexivity.
  Qed.

  Theorem map_lin_transfer hx hm :
    hrel stranslate sback mapcall_ok (fun _ => None) hx hm ->
    linearizable sop sres (X_linpoints.amap K item) (sspec eqd) X_linpoints.aempty hx ->
    linearizable cmop imres (Base.amap K item) (cmspec eqd e) [] hm.
  Proof.
    intros Hh Hl.
    eapply (lin_transfer sop sres (X_linpoints.amap K item) (sspec eqd) cmop imres (Base.amap K item) (cmspec eqd e)
              stranslate sback mapcall_ok (Rst eqd)); [|apply Rst_empty|exact Hh|exact Hl].
    intros s1 s2 o r s1' HR Hok Hs. apply (strans_sim s1 s2 o r s1' HR Hok Hs).
  Qed.

End TransS.

(* ---------------- 2. XMachineS and its todo lists ---------------- *)

Section SFrame.
  Context {K V : Type}.
  Variable eqd : forall a b : K, {a = b} + {a <> b}.
  Variable hash : K -> N -> N.
  Variable idx : N -> nat -> nat.
  Variable tophash : N -> N.
  Variable nslots : nat.
  Variable seeds : nat -> N.
  Variable grow_needed shrink_policy : nat -> Z -> bool.
  Variable nstripes : nat -> nat.
  Variable minlen : nat.
  Variable grow_only : bool.

  Notation mstate := (@mstate K V).
  Notation spc := (@spc K V).
  Notation sop := (@sop K V).
  Notation sres := (@sres V).
  Notation slabel := (@slabel K V).
  Notation scx := (@scx K V).
  Notation sstep_pc := (@sstep_pc K V eqd hash idx tophash nslots seeds grow_needed shrink_policy nstripes minlen grow_only).
  Notation sstep := (@sstep K V eqd hash idx tophash nslots seeds grow_needed shrink_policy nstripes minlen grow_only).
  Notation srun := (@srun K V eqd hash idx tophash nslots seeds grow_needed shrink_policy nstripes minlen grow_only).
  Notation shist := (@XS_linpoints.shist K V).

  Definition swith_todo (s : mstate) (td : nat -> list sop) : mstate :=
    {| h_tabs := h_tabs s; h_cur := h_cur s; h_resizing := h_resizing s; h_rmu := h_rmu s;
       h_growths := h_growths s; h_shrinks := h_shrinks s; h_alloc := h_alloc s; h_pc := h_pc s; h_todo := td;
       h_frame := h_frame s |}.

  Definition spair (td : nat -> list sop) (p : mstate * list slabel) : mstate * list slabel :=
    (swith_todo (fst p) td, snd p).

  Definition slift (td : nat -> list sop) (r : option (mstate * list slabel)) : option (mstate * list slabel) :=
    match r with Some p => Some (spair td p) | None => None end.

  Lemma svisits_wtodo td t vf after : forall rest s ls,
    svisits (swith_todo s td) t rest vf after ls = spair td (svisits s t rest vf after ls).
  Proof.
    induction rest as [|[k v] rest IH]; intros s ls; cbn [svisits].
    - destruct after; reflexivity.
    - destruct (vf k v); [reflexivity | apply IH].
  Qed.

  Lemma sgoto_wtodo s td t q ls : sgoto (swith_todo s td) t q ls = spair td (sgoto s t q ls).
  Proof.
    destruct q; try reflexivity. cbn [sgoto swith_todo h_frame]. destruct (h_frame s t); [apply svisits_wtodo | reflexivity].
  Qed.

  Lemma sstep_pc_wtodo s td t p : sstep_pc (swith_todo s td) t p = slift td (sstep_pc s t p).
  Proof.
    destruct s as [tabs cur rz mu gr sh al pcs td0 fr]. unfold swith_todo.
    cbn [h_tabs h_cur h_resizing h_rmu h_growths h_shrinks h_alloc h_pc h_todo h_frame].
    destruct p; cbn [XMachineS.sstep_pc]; cbv zeta;
      unfold after_lock, XMachineS.stab_at, XMachineS.sset_tab, XMachineS.sset_flags, XMachineS.spush_tab, XMachineS.sbump;
      cbn [h_tabs h_cur h_resizing h_rmu h_growths h_shrinks h_alloc h_pc h_todo h_frame];
      try match goal with lk : lockk |- _ => destruct lk end;
      try match goal with |- context [scopy_chain ?a ?b ?c ?d ?e ?f] => destruct (scopy_chain a b c d e f) eqn:? end;
      repeat match goal with |- context [match ?x with _ => _ end] => destruct x eqn:? end; try reflexivity.
    all: cbn [slift].
    all: try (match goal with |- Some (sgoto _ ?t ?q ?l) = Some (spair ?td (sgoto ?S _ _ _)) =>
                exact (f_equal Some (sgoto_wtodo S td t q l)) end).
    all: try (match goal with |- Some (svisits _ ?t ?r ?vf ?af ?l) = Some (spair ?td (svisits ?S _ _ _ _ _)) =>
                exact (f_equal Some (svisits_wtodo td t vf af r S l)) end).
  Qed.

  Lemma some_pair {A B} (g : A * B) a b : Some g = Some (a, b) -> a = fst g /\ b = snd g.
  Proof. intros H. inversion H. auto. Qed.

  Lemma shist_app' (a b : list slabel) : shist (a ++ b) = shist a ++ shist b.
  Proof. induction a as [|[] a IH]; cbn; auto; f_equal; auto. Qed.

  Lemma sfnev_hist' t (cx : scx) o : shist (sfnev t cx o) = [].
  Proof. unfold sfnev. destruct (sc_ev cx); reflexivity. Qed.

  Definition out_ok (s : mstate) (t : nat) (l : list slabel) (out : mstate * list slabel) : Prop :=
    h_todo (fst out) = h_todo s
    /\ (forall u, u <> t -> h_pc (fst out) u = h_pc s u)
    /\ (shist l = [] -> shist (snd out) = [] \/ exists r, shist (snd out) = [HRes t r] /\ h_pc (fst out) t = QIdle).

  Lemma svisits_ok t vf after : forall rest s ls, out_ok s t ls (svisits s t rest vf after ls).
  Proof.
    induction rest as [|[k v] rest IH]; intros s ls; cbn [svisits].
    - destruct after; (split; [reflexivity|]; split;
        [intros u Hn; cbn [fst sset_pc sset_frame h_pc]; destruct (Nat.eq_dec u t); [contradiction | reflexivity]|]);
        intros Hl; cbn [snd fst]; try (left; exact Hl).
      right. exists r. rewrite shist_app', Hl. split; [reflexivity|].
      cbn [sset_pc h_pc]. destruct (Nat.eq_dec t t); congruence.
    - destruct (vf k v) as [cx|].
      + split; [reflexivity|]. split.
        * intros u Hn. cbn [fst sset_pc sset_frame h_pc]. destruct (Nat.eq_dec u t); [contradiction | reflexivity].
        * intros Hl. left. cbn [snd]. rewrite shist_app', Hl. reflexivity.
      + destruct (IH s (ls ++ [SVisit t k v])) as [A [B C]]. split; [exact A|]. split; [exact B|].
        intros Hl. apply C. rewrite shist_app', Hl. reflexivity.
  Qed.

  Lemma sgoto_ok s t q ls : out_ok s t ls (sgoto s t q ls).
  Proof.
    destruct q; try (split; [reflexivity|]; split;
        [intros u Hn; cbn [sgoto fst sset_pc h_pc]; destruct (Nat.eq_dec u t); [contradiction | reflexivity]
        | intros Hl; left; exact Hl]).
    cbn [sgoto]. destruct (h_frame s t) as [fr|].
    - destruct (svisits_ok t (rf_vf fr) (rf_after fr) (rf_rest fr) s (ls ++ [SSubRes t r])) as [A [B C]].
      split; [exact A|]. split; [exact B|]. intros Hl. apply C. rewrite shist_app', Hl. reflexivity.
    - split; [reflexivity|]. split.
      + intros u Hn. cbn [fst sset_pc h_pc]. destruct (Nat.eq_dec u t); [contradiction | reflexivity].
      + intros Hl. right. exists r. cbn [snd fst]. rewrite shist_app', Hl. split; [reflexivity|].
        cbn [sset_pc h_pc]. destruct (Nat.eq_dec t t); congruence.
  Qed.

  Ltac scases Hs :=
    cbn [XMachineS.sstep_pc] in Hs; cbv zeta in Hs; unfold after_lock in Hs;
    try match goal with lk : lockk |- _ => destruct lk end;
    try (match type of Hs with context [scopy_chain ?a ?b ?c ?d ?e ?f] => destruct (scopy_chain a b c d e f) end; cbv beta iota zeta in Hs);
    repeat match type of Hs with context [match ?x with _ => _ end] => destruct x eqn:? end;
    try discriminate; apply some_pair in Hs; destruct Hs as [? ?]; subst.

  (* a step inside a call: the todo lists stay, another thread's program counter changes at
     most by a wake-up, the step is silent or answers and leaves the thread idle *)
  Lemma sstep_pc_shape s t p s' ls : sstep_pc s t p = Some (s', ls) ->
    h_todo s' = h_todo s
    /\ (forall u, u <> t -> h_pc s' u = h_pc s u \/ h_pc s' u = swake (h_pc s u))
    /\ (shist ls = [] \/ exists r, shist ls = [HRes t r] /\ h_pc s' t = QIdle).
  Proof.
    intros Hs. destruct p; scases Hs.
    all: try (match goal with |- context [sgoto ?S ?t ?q ?l] => destruct (sgoto_ok S t q l) as [A [B C]] end).
    all: try (match goal with |- context [svisits ?S ?t ?r ?vf ?af ?l] => destruct (svisits_ok t vf af r S l) as [A [B C]] end).
    all: try (split; [rewrite A; reflexivity|]; split;
              [ intros u Hn; rewrite (B u Hn); cbn [h_pc sset_tab sset_flags spush_tab sbump]; auto
              | apply C; cbn [XS_linpoints.shist app]; rewrite ?sfnev_hist'; reflexivity ]).
    split; [reflexivity|]. split; [|left; reflexivity].
    intros u Hn. left. cbn [fst sset_pc h_pc]. destruct (Nat.eq_dec u t); [contradiction | reflexivity].
  Qed.

  (* ---------------- the interface of CX_product.v ---------------- *)

  Definition sp_step (s : mstate) (t : nat) : option (mstate * list (hev sop sres)) :=
    match sstep s t with Some (s', ls) => Some (s', shist ls) | None => None end.

  Definition sidle (s : mstate) (t : nat) : Prop := h_pc s t = QStart \/ h_pc s t = QIdle.

  Definition sinvoke (s : mstate) (t : nat) (o : sop) (rest : list sop) : mstate :=
    {| h_tabs := h_tabs s; h_cur := h_cur s; h_resizing := h_resizing s; h_rmu := h_rmu s;
       h_growths := h_growths s; h_shrinks := h_shrinks s; h_alloc := h_alloc s;
       h_pc := fun t' => if Nat.eq_dec t' t then sstart_pc o else h_pc s t';
       h_todo := fun t' => if Nat.eq_dec t' t then rest else h_todo s t'; h_frame := h_frame s |}.

  Lemma spc_idle_dec (p : spc) : {p = QIdle} + {p <> QIdle}.
  Proof. destruct p; first [left; reflexivity | right; discriminate]. Qed.

  Lemma sstep_nonidle s t : h_pc s t <> QIdle -> sstep s t = sstep_pc s t (h_pc s t).
  Proof. intros Hn. unfold XMachineS.sstep. destruct (h_pc s t); try reflexivity. exfalso; apply Hn; reflexivity. Qed.

  Lemma sstep_idle s t : h_pc s t = QIdle ->
    sstep s t = match h_todo s t with
                | [] => None
                | o :: rest =>
                    match sstep_pc (sinvoke s t o rest) t (sstart_pc o) with
                    | Some (s2, ls) => Some (s2, SInv t o :: ls)
                    | None => Some (sinvoke s t o rest, [SInv t o])
                    end
                end.
  Proof. intros Hp. unfold XMachineS.sstep. rewrite Hp. reflexivity. Qed.

  Lemma sstart_pc_blocks_not (s1 : mstate) t o : sstep_pc s1 t (sstart_pc o) <> None.
  Proof. destruct o; cbn; try discriminate. unfold sstart_cx. cbn. destruct lie; cbn; discriminate. Qed.

  Lemma sp_frame s t s' h td fut :
    sp_step s t = Some (s', h) -> (forall u, td u = h_todo s u ++ fut u) ->
    exists td', sp_step (swith_todo s td) t = Some (swith_todo s' td', h) /\ forall u, td' u = h_todo s' u ++ fut u.
  Proof.
    unfold sp_step. intros E Htd.
    destruct (sstep s t) as [[s1 ls]|] eqn:Ex; [|discriminate E]. inversion E; subst s1 h; clear E.
    destruct (spc_idle_dec (h_pc s t)) as [Hp|Hp].
    - rewrite (sstep_idle s t Hp) in Ex. rewrite (sstep_idle (swith_todo s td) t Hp).
      cbn [swith_todo h_todo]. rewrite (Htd t).
      destruct (h_todo s t) as [|o rest] eqn:Et; [discriminate Ex|]. cbn [app].
      set (td1 := fun t' => if Nat.eq_dec t' t then rest ++ fut t else td t').
      change (sinvoke (swith_todo s td) t o (rest ++ fut t)) with (swith_todo (sinvoke s t o rest) td1).
      rewrite sstep_pc_wtodo.
      assert (Htd1 : forall u, td1 u = h_todo (sinvoke s t o rest) u ++ fut u).
      { intros u. unfold td1. cbn [sinvoke h_todo]. destruct (Nat.eq_dec u t) as [->|]; [reflexivity | apply Htd]. }
      destruct (sstep_pc (sinvoke s t o rest) t (sstart_pc o)) as [[s2 ls2]|] eqn:E2; cbn [slift spair fst snd].
      + inversion Ex; subst s' ls; clear Ex. exists td1. split; [reflexivity|].
        intros u. destruct (sstep_pc_shape _ _ _ _ _ E2) as [A _]. rewrite A. apply Htd1.
      + inversion Ex; subst s' ls; clear Ex. exists td1. split; [reflexivity | exact Htd1].
    - rewrite (sstep_nonidle s t Hp) in Ex. rewrite (sstep_nonidle (swith_todo s td) t Hp).
      cbn [swith_todo h_pc]. rewrite sstep_pc_wtodo, Ex. cbn [slift spair fst snd]. exists td. split; [reflexivity|].
      intros u. destruct (sstep_pc_shape _ _ _ _ _ Ex) as [A _]. rewrite A. apply Htd.
  Qed.

  Lemma swake_idle (p : spc) : (p = QStart \/ p = QIdle) -> swake p = p.
  Proof. intros [-> | ->]; reflexivity. Qed.

  Lemma sp_proto s t s' h : sp_step s t = Some (s', h) ->
    (forall u, u <> t -> h_todo s' u = h_todo s u /\ (sidle s u -> sidle s' u))
    /\ ( (sidle s t /\ h = [] /\ sidle s' t /\ h_todo s' t = h_todo s t)
         \/ (sidle s t /\ exists o rest, h_todo s t = o :: rest /\ h_todo s' t = rest
                        /\ (h = [HInv t o] \/ exists r, h = [HInv t o; HRes t r] /\ sidle s' t))
         \/ (~ sidle s t /\ h_todo s' t = h_todo s t /\ (h = [] \/ exists r, h = [HRes t r] /\ sidle s' t)) ).
  Proof.
    unfold sp_step. intros E.
    destruct (sstep s t) as [[s1 ls]|] eqn:Ex; [|discriminate E]. inversion E; subst s1 h; clear E.
    destruct (spc_idle_dec (h_pc s t)) as [Hp|Hp].
    - rewrite (sstep_idle s t Hp) in Ex. destruct (h_todo s t) as [|o rest] eqn:Et; [discriminate Ex|].
      destruct (sstep_pc (sinvoke s t o rest) t (sstart_pc o)) as [[s2 ls2]|] eqn:E2;
        [|exfalso; exact (sstart_pc_blocks_not _ _ _ E2)].
      inversion Ex; subst s' ls; clear Ex.
      destruct (sstep_pc_shape _ _ _ _ _ E2) as [Htd [Hoth Hh]]. split.
      + intros u Hn. rewrite Htd. cbn [sinvoke h_todo]. destruct (Nat.eq_dec u t) as [Hc|_]; [contradiction|].
        split; [reflexivity|]. intros Hi. unfold sidle.
        destruct (Hoth u Hn) as [Eu|Eu]; rewrite Eu; cbn [sinvoke h_pc];
          (destruct (Nat.eq_dec u t) as [Hc|_]; [contradiction|]); [exact Hi | rewrite (swake_idle _ Hi); exact Hi].
      + right; left. split; [right; exact Hp|]. exists o, rest. split; [reflexivity|]. split.
        * rewrite Htd. cbn [sinvoke h_todo]. destruct (Nat.eq_dec t t) as [_|Hc]; [reflexivity | congruence].
        * cbn [XS_linpoints.shist]. destruct Hh as [Eh|[r [Eh Hi]]]; rewrite Eh.
          -- left. reflexivity.
          -- right. exists r. split; [reflexivity | right; exact Hi].
    - rewrite (sstep_nonidle s t Hp) in Ex.
      destruct (sstep_pc_shape _ _ _ _ _ Ex) as [Htd [Hoth Hh]]. split.
      + intros u Hn. rewrite Htd. split; [reflexivity|]. intros Hi. unfold sidle.
        destruct (Hoth u Hn) as [Eu|Eu]; rewrite Eu; [exact Hi | rewrite (swake_idle _ Hi); exact Hi].
      + destruct (h_pc s t) eqn:Hpc; try (exfalso; apply Hp; reflexivity).
        1: { left. cbn [XMachineS.sstep_pc] in Ex. inversion Ex; subst s' ls; clear Ex.
             split; [left; exact Hpc|]. split; [reflexivity|]. split; [|reflexivity].
             right. cbn [sset_pc h_pc]. destruct (Nat.eq_dec t t); congruence. }
        all: right; right; (split; [intros [Hc|Hc]; rewrite Hpc in Hc; discriminate Hc|]); (split; [rewrite Htd; reflexivity|]);
          (destruct Hh as [Eh|[rr [Eh Hi]]]; rewrite Eh;
          [left; reflexivity | right; exists rr; split; [reflexivity | right; exact Hi]]).
  Qed.

  Lemma sp_mrun sched : forall s, snd (mrun mstate sop sres sp_step s sched) = shist (snd (srun s sched)).
  Proof.
    induction sched as [|t rest IH]; intros s; [reflexivity|].
    cbn [mrun XMachineS.srun]. unfold sp_step at 1.
    destruct (sstep s t) as [[s1 ls]|]; [|apply IH].
    specialize (IH s1). destruct (mrun mstate sop sres sp_step s1 rest) as [s2 h2].
    destruct (srun s1 rest) as [s3 ls3]. cbn [snd] in *. rewrite shist_app', IH. reflexivity.
  Qed.

End SFrame.

(* ---------------- 3. the cache over XMachineS ---------------- *)

Section CacheOverXMachineS.
  Context {K V : Type}.
  Variable eqd : forall a b : K, {a = b} + {a <> b}.
  Variable hash : K -> N -> N.
  Variable idx : N -> nat -> nat.
  Variable tophash : N -> N.
  Variable nslots : nat.
  Variable seeds : nat -> N.
  Variable grow_needed shrink_policy : nat -> Z -> bool.
  Variable nstripes : nat -> nat.
  Variable minlen : nat.
  Variable grow_only : bool.
  Variable len0 : nat.
  Variable progs : cop K V -> prog K V (cres K V).
  Variables NOW DFLT : Z.
  Variable CB : cbid.

  Notation item := (item V).
  Notation mstate := (@mstate K item).
  Notation sop := (@sop K item).
  Notation sres := (@sres item).
  Notation env0 := (Conc.env0 NOW DFLT).
  Notation sp_step := (@sp_step K item eqd hash idx tophash nslots seeds grow_needed shrink_policy nstripes minlen grow_only).
  Notation rhyps := (@XS_resize.rhyps K hash idx tophash nslots minlen).

  Definition ssup (o : cmop K V) : bool := match o with CSize | CSnapshot => false | _ => true end.

  Definition sp_init (td : nat -> list sop) : mstate := sinit nslots seeds nstripes len0 td.

  Definition csstep := pstep progs NOW DFLT CB mstate sop sres sp_step (@h_todo K item) swith_todo
                             (stranslate env0) (sback env0) ssup.
  Definition csrun := prun progs NOW DFLT CB mstate sop sres sp_step (@h_todo K item) swith_todo
                           (stranslate env0) (sback env0) ssup.
  Definition csinit (todo : nat -> list (cop K V)) : pconf mstate := pinit mstate sop sp_init todo.

  Definition cshist (todo : nat -> list (cop K V)) sched : list (hev (cop K V) (cres K V)) :=
    cproj (snd (fst (csrun (csinit todo) sched))).

  Hypothesis Hr : rhyps.
  Hypothesis Hlen : 0 < len0.

  Theorem sproduct_linearizable (St : Type) (spec : St -> cop K V -> cres K V -> St -> Prop) (S0 : St) todo sched :
    (forall sched', linearizable _ _ St spec S0 (history (snd (crun eqd progs NOW DFLT CB (cinit [] todo) sched')))) ->
    linearizable _ _ St spec S0 (cshist todo sched).
  Proof.
    intros Hall. unfold cshist, csrun, csinit.
    apply (product_linearizable eqd progs NOW DFLT CB mstate sop sres (X_linpoints.amap K item)
             sp_step (@h_todo K item) swith_todo (@sidle K item) sp_init (sspec eqd) (X_linpoints.aempty (K:=K) (V:=item))
             (sokop (K:=K) (V:=item)) (stranslate env0) (sback env0) ssup); try exact Hall.
    - intros s td t. reflexivity.
    - intros s td t. split; intros H; exact H.
    - intros s a b. reflexivity.
    - intros td t. reflexivity.
    - intros td t. left. reflexivity.
    - intros a b. reflexivity.
    - intros s t s' h td fut. apply sp_frame.
    - intros s t s' h. apply sp_proto.
    - intros o Ho. apply stranslate_okop. destruct o; cbn in Ho |- *; try exact I; discriminate Ho.
    - intros td sched0 Htd. rewrite sp_mrun.
      apply (smachine_linearizable_proof eqd hash idx tophash nslots seeds grow_needed shrink_policy nstripes minlen grow_only
               Hr len0 td sched0 Hlen Htd).
    - intros hx hm Hh Hl. apply (map_lin_transfer eqd env0 hx hm); [|exact Hl].
      eapply hrel_ok_mono; [|exact Hh]. intros o Ho. destruct o; cbn in Ho |- *; try exact I; discriminate Ho.
  Qed.

End CacheOverXMachineS.

Section FinalS.
  Context {K V : Type}.
  Variable eqd : forall a b : K, {a = b} + {a <> b}.
  Variable hash : K -> N -> N.
  Variable idx : N -> nat -> nat.
  Variable tophash : N -> N.
  Variable nslots : nat.
  Variable seeds : nat -> N.
  Variable grow_needed shrink_policy : nat -> Z -> bool.
  Variable nstripes : nat -> nat.
  Variable minlen : nat.
  Variable grow_only : bool.
  Variable zero : V.
  Variables NOW DFLT : Z.
  Variable CB : cbid.

  (* C02 over the concurrent Map: every run of the cache methods (CacheModel, xsync_map.go) over
     XMachineS, from the empty cache, is linearizable w.r.t. the TTL-map semantics *)
  Theorem cache_over_smachine_linearizable :
    @XS_resize.rhyps K hash idx tophash nslots minlen -> forall len0 (todo : nat -> list (cop K V)) sched, 0 < len0 ->
    (forall t, Forall conc_ok (todo t)) ->
    linearizable _ _ _ (tspec eqd zero) (mk NOW DFLT CB [])
      (cshist eqd hash idx tophash nslots seeds grow_needed shrink_policy nstripes minlen grow_only len0
              (prog_cache eqd zero) NOW DFLT CB todo sched).
  Proof.
    intros Hr len0 todo sched Hlen Htodo.
    apply (sproduct_linearizable eqd hash idx tophash nslots seeds grow_needed shrink_policy nstripes minlen grow_only
             len0 (prog_cache eqd zero) NOW DFLT CB Hr Hlen).
    intros sched'. apply (cache_linearizable eqd zero NOW DFLT CB [] [] todo sched'); [|exact Htodo].
    apply C01_hist.R_init. reflexivity.
  Qed.

End FinalS.

Print Assumptions cache_over_smachine_linearizable.

(* ---------------- the executable instance (XExecS.v), and a run ---------------- *)
From CacheV Require Import TabExec Exec XExec XExecS.
From CacheV.proofs Require Import XS_cinst XS_rinst.

(* the cache methods over the Map machine that CORR-sched replays against the Go code *)
Theorem cache_over_smachine_instance :
  forall (o : oracle) (sds : list N) (hint : Z) (zero : Z) (NOW DFLT : Z) (CB : cbid)
         (todo : nat -> list (cop Z Z)) sched, oracle64 o ->
    (forall t, Forall conc_ok (todo t)) ->
    linearizable _ _ _ (tspec zeqd zero) (mk NOW DFLT CB [])
      (cshist zeqd (hash_of o) idx_map tag_map (nslots_of false) (seeds_of sds)
              grow_needed_s shrink_policy_s nstripes_x (minlen_of_hint false hint) false (minlen_of_hint false hint)
              (prog_cache zeqd zero) NOW DFLT CB todo sched).
Proof.
  intros o sds hint zero NOW DFLT CB todo sched Ho Htodo.
  apply (cache_over_smachine_linearizable zeqd (hash_of o) idx_map tag_map (nslots_of false) (seeds_of sds)
           grow_needed_s shrink_policy_s nstripes_x (minlen_of_hint false hint) false zero NOW DFLT CB
           (s_instance_rhyps o hint Ho) (minlen_of_hint false hint) todo sched); [|exact Htodo].
  destruct (s_instance_rhyps o hint Ho) as [_ [_ [_ H]]]. exact H.
Qed.
Print Assumptions cache_over_smachine_instance.

Definition cs_ex_hist (todo : nat -> list (cop Z Z)) sched :=
  cshist zeqd (hash_of []) idx_map tag_map (nslots_of false) (seeds_of [])
         grow_needed_s shrink_policy_s nstripes_x (minlen_of_hint false 0%Z) false (minlen_of_hint false 0%Z)
         (prog_cache zeqd 0%Z) 100%Z 0%Z None todo sched.
Definition cs_ex_todo (t : nat) : list (cop Z Z) :=
  match t with O => [OSet 7%Z 1%Z 50%Z; OGetAndDelete 7%Z] | S O => [OGet 7%Z; OGet 7%Z] | _ => [] end.
Definition cs_sched (l : list nat) : list (nat * list (Z * item Z)) := map (fun t => (t, [])) l.

(* thread 0: Set(7, 1, 50ns), GetAndDelete(7); thread 1: Get(7) twice; the clock stands at 100.
   (a) thread 1's first Get overlaps the GetAndDelete, has loaded the value before the delete, and answers 1
       AFTER the GetAndDelete has returned 1: the Get is linearized before the delete;
   (b) three steps less for thread 1 before the delete runs: the same Get misses. *)
Example cache_over_smachine_run_a :
  cs_ex_hist cs_ex_todo (cs_sched (repeat 0 22 ++ repeat 1 8 ++ repeat 0 30 ++ repeat 1 30))
  = [HInv 0 (OSet 7%Z 1%Z 50%Z); HRes 0 CUnit; HInv 0 (OGetAndDelete 7%Z);
     HInv 1 (OGet 7%Z); HRes 0 (CVal 1%Z true); HRes 1 (CVal 1%Z true);
     HInv 1 (OGet 7%Z); HRes 1 (CVal 0%Z false)].
Proof. vm_compute. reflexivity. Qed.

Example cache_over_smachine_run_b :
  cs_ex_hist cs_ex_todo (cs_sched (repeat 0 22 ++ repeat 1 5 ++ repeat 0 30 ++ repeat 1 30))
  = [HInv 0 (OSet 7%Z 1%Z 50%Z); HRes 0 CUnit; HInv 0 (OGetAndDelete 7%Z);
     HInv 1 (OGet 7%Z); HRes 0 (CVal 1%Z true); HRes 1 (CVal 0%Z false);
     HInv 1 (OGet 7%Z); HRes 1 (CVal 0%Z false)].
Proof. vm_compute. reflexivity. Qed.
