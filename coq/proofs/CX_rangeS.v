(* CX_rangeS.v -- C07 (Range) at the CACHE level under concurrency over XMachineS (Map, map.go):
   the product machine of CX_product2.v / CX_map2.v, generic in [sup] with sup CSize = false
   (cs2step of CX_map2.v is the instance sup := ssup).  Port of CX_range.v / CX_range2.v for
     (a)  at most once per key, and the shape of the call's history,
   by the same route: [Reach] (sstep_frame of CX_map2.v), XS_range.range_once_proof, the protocol
   invariant [TI] (s2_proto), and the window invariant [WS] (no ghost: only acc = cv t [] L).
   The label-level link needs no case analysis on program counters: the labels of a step of thread t
   are all by t (XS_fn.step_fn) and contain no invocation unless the thread was idle (sstep_pc_shape),
   hence cv t acc ls = acc ++ svis_of ls ([cv_own]) -- what [feed] appends to acc.
   Since s2_ok SSize = False (CX_map2), Size is not run on the machine here: Items never gets past its
   first map call and its statement is vacuous; the theorems have content for ORange (Some f). *)
From CacheV Require Import Base SpecMap Client CacheModel CacheOfModel Ops SpecTTL Lin Conc XMachineS.
From CacheV.gen Require Import Params.
From CacheV.proofs Require X_linpoints.
From CacheV.proofs Require Import XS_fn XS_read XS_range XS_linpoints XS_linpoints2 CX_trans CX_compose CX_product CX_map CX_product2 CX_map2
  C07_range CX_range CX_range2 CX_range3.
From Coq Require Import NArith Lia Permutation.
Local Open Scope nat_scope.

Section CXRangeS.
  Context {K V : Type}.
  Variable eqd : forall a b : K, {a = b} + {a <> b}.
  Variable hash : K -> N -> N.
  Variable idx : N -> nat -> nat.
  Variable tophash : N -> N.
  Variable nslots : nat.
  Variable seeds : nat -> N.
  Variable grow_needed shrink_policy : nat -> Z -> bool.
  Variable nstripes : nat -> nat.
  Variable minlen : nat.
  Variable grow_only : bool.
  Variable len0 : nat.
  Variable progs : cop K V -> prog K V (cres K V).
  Variables NOW DFLT : Z.
  Variable CB : cbid.
  Variable sup : cmop K V -> bool.

  Notation item := (item V).
  Notation mstate := (@mstate K item).
  Notation sop := (@sop K item).
  Notation sres := (@sres item).
  Notation slabel := (@slabel K item).
  Notation spc := (@spc K item).
  Notation cop := (cop K V).
  Notation cres := (cres K V).
  Notation prog := (prog K V cres).
  Notation imres := (imres K V).
  Notation env0 := (Conc.env0 NOW DFLT).
  Notation sstep_pc := (@sstep_pc K item eqd hash idx tophash nslots seeds grow_needed shrink_policy nstripes minlen grow_only).
  Notation sstep := (@sstep K item eqd hash idx tophash nslots seeds grow_needed shrink_policy nstripes minlen grow_only).
  Notation srun := (@srun K item eqd hash idx tophash nslots seeds grow_needed shrink_policy nstripes minlen grow_only).
  Notation s2_step := (@s2_step K V eqd hash idx tophash nslots seeds grow_needed shrink_policy nstripes minlen grow_only).
  Notation swith_todo := (@CX_map.swith_todo K item).
  Notation pconf := (@CX_product2.pconf K V mstate).
  Notation qst := (@CX_product2.qst K V).
  Notation out := (@out K V).
  Notation px := (@p_x K V mstate).
  Notation pthr := (@p_thr K V mstate).
  Notation ptodo := (@p_todo K V mstate).
  Notation sinit0 := (sinit nslots seeds nstripes len0).
  Notation xpush := (CX_product2.push mstate sop (@h_todo K item) swith_todo).
  Notation feed := (@CX_product2.feed K V sop sres (sback env0)).
  Notation mach := (@mach K V).
  Notation cv := (@XS_range.cv K item).
  Notation lby := (@XS_fn.lby K item).

  (* ---------------- the product machine, its runs, its labels ---------------- *)

  Definition gstep : pconf -> nat -> option (pconf * list out * list (hev sop sres)) :=
    CX_product2.pstep progs NOW DFLT CB mstate sop sres s2_step (@h_todo K item) swith_todo
                      (stranslate env0) (sback env0) sup (@s2_range K V).
  Definition grun : pconf -> list nat -> pconf * list out * list (hev sop sres) :=
    CX_product2.prun progs NOW DFLT CB mstate sop sres s2_step (@h_todo K item) swith_todo
                     (stranslate env0) (sback env0) sup (@s2_range K V).
  Definition ginit (todo : nat -> list cop) : pconf := cs2init nslots seeds nstripes len0 todo.

  Definition pafter (p : pconf) (sched : list nat) : pconf := fst (fst (grun p sched)).
  Definition pouts (p : pconf) (sched : list nat) : list out := snd (fst (grun p sched)).


  (* the XMachine labels of the move of thread t *)
  Definition plab (p : pconf) (t : nat) : list slabel :=
    if mach (pthr p t) then match sstep (px p) t with Some (_, ls) => ls | None => [] end else [].

  Fixpoint plabs (p : pconf) (sched : list nat) : list slabel :=
    match sched with
    | [] => []
    | t :: r => match gstep p t with Some (p', _, _) => plab p t ++ plabs p' r | None => plabs p r end
    end.

  Lemma grun_cons p t r :
    grun p (t :: r) = match gstep p t with
                      | Some (p', os, h) => (fst (fst (grun p' r)), os ++ snd (fst (grun p' r)), h ++ snd (grun p' r))
                      | None => grun p r
                      end.
  Proof.
    unfold grun, gstep. cbn [CX_product2.prun]. destruct (CX_product2.pstep _ _ _ _ _ _ _ _ _ _ _ _ _ _ p t) as [[[p' os] h]|]; [|reflexivity].
    destruct (CX_product2.prun _ _ _ _ _ _ _ _ _ _ _ _ _ _ p' r) as [[p'' os'] h']. reflexivity.
  Qed.

  Lemma pafter_nil p : pafter p [] = p. Proof. reflexivity. Qed.

  Lemma pafter_cons p t r : pafter p (t :: r) = match gstep p t with Some (p', _, _) => pafter p' r | None => pafter p r end.
  Proof. unfold pafter. rewrite grun_cons. destruct (gstep p t) as [[[p' os] h]|]; reflexivity. Qed.

  Lemma pouts_cons p t r : pouts p (t :: r) = match gstep p t with Some (p', os, _) => os ++ pouts p' r | None => pouts p r end.
  Proof. unfold pouts. rewrite grun_cons. destruct (gstep p t) as [[[p' os] h]|]; reflexivity. Qed.

  Lemma pafter_app a : forall p b, pafter p (a ++ b) = pafter (pafter p a) b.
  Proof.
    induction a as [|t r IH]; intros p b; [reflexivity|].
    cbn [app]. rewrite !pafter_cons. destruct (gstep p t) as [[[p' os] h]|]; apply IH.
  Qed.

  Lemma pouts_app a : forall p b, pouts p (a ++ b) = pouts p a ++ pouts (pafter p a) b.
  Proof.
    induction a as [|t r IH]; intros p b; [reflexivity|].
    cbn [app]. rewrite !pouts_cons, pafter_cons. destruct (gstep p t) as [[[p' os] h]|]; [rewrite IH, app_assoc; reflexivity | apply IH].
  Qed.

  Lemma plabs_app a : forall p b, plabs p (a ++ b) = plabs p a ++ plabs (pafter p a) b.
  Proof.
    induction a as [|t r IH]; intros p b; [reflexivity|].
    cbn [app plabs]. rewrite pafter_cons. destruct (gstep p t) as [[[p' os] h]|]; [rewrite IH, app_assoc; reflexivity | apply IH].
  Qed.

  (* one move at the end of a run *)
  Lemma pafter_snoc p a u : pafter p (a ++ [u]) = match gstep (pafter p a) u with Some (p', _, _) => p' | None => pafter p a end.
  Proof. rewrite pafter_app, pafter_cons. destruct (gstep (pafter p a) u) as [[[p' os] h]|]; reflexivity. Qed.

  Lemma pouts_snoc p a u : pouts p (a ++ [u]) = pouts p a ++ match gstep (pafter p a) u with Some (_, os, _) => os | None => [] end.
  Proof. rewrite pouts_app, pouts_cons. destruct (gstep (pafter p a) u) as [[[p' os] h]|]; [cbn; rewrite app_nil_r|]; reflexivity. Qed.

  Lemma plabs_snoc p a u : plabs p (a ++ [u]) = plabs p a ++ match gstep (pafter p a) u with Some _ => plab (pafter p a) u | None => [] end.
  Proof. rewrite plabs_app. cbn [plabs]. destruct (gstep (pafter p a) u) as [[[p' os] h]|]; [rewrite app_nil_r|]; reflexivity. Qed.

  Lemma feed_cproj t q so : cproj (snd (feed t q so)) = [].
  Proof.
    destruct q; cbn [CX_product2.feed snd]; try reflexivity;
      repeat match goal with |- context [match ?x with _ => _ end] => destruct x end; reflexivity.
  Qed.

  (* ---------------- what a move does ---------------- *)

  Lemma gstep_mach_eq p t : mach (pthr p t) = true ->
    gstep p t = match s2_step (px p) t with
                | None => None
                | Some (x', so, h) =>
                    Some ({| p_x := x'; p_thr := upd (pthr p) t (fst (feed t (pthr p t) so)); p_todo := ptodo p |},
                          snd (feed t (pthr p t) so), h)
                end.
  Proof.
    intros Hm. unfold gstep, CX_product2.pstep.
    destruct (pthr p t) eqn:Eq; try discriminate Hm; unfold CX_product2.xmove; rewrite Eq;
      (destruct (s2_step (px p) t) as [[[x' so] h]|]; [|reflexivity]);
      match goal with |- context [CX_product2.feed ?a ?b ?c ?d ?e ?f] => destruct (CX_product2.feed a b c d e f) end; reflexivity.
  Qed.

  (* a move of a map thread is a step of XMachine *)
  Lemma gstep_mach p t p1 os h : mach (pthr p t) = true -> gstep p t = Some (p1, os, h) ->
    exists ls, sstep (px p) t = Some (px p1, ls) /\ plab p t = ls
               /\ pthr p1 = upd (pthr p) t (fst (feed t (pthr p t) (sso_of ls))) /\ ptodo p1 = ptodo p
               /\ os = snd (feed t (pthr p t) (sso_of ls)).
  Proof.
    intros Hm E. rewrite (gstep_mach_eq p t Hm) in E. unfold CX_map2.s2_step in E.
    destruct (sstep (px p) t) as [[x' ls]|] eqn:Ex; [|discriminate E].
    inversion E; subst p1 os h; clear E. exists ls. cbn [p_x p_thr p_todo].
    split; [reflexivity|]. split; [unfold plab; rewrite Hm, Ex; reflexivity|]. auto.
  Qed.

  (* a move of the client alone leaves the machine as it is, or pushes a call *)
  Lemma gstep_client p t p1 os h : mach (pthr p t) = false -> gstep p t = Some (p1, os, h) ->
    plab p t = [] /\ (px p1 = px p \/ exists xo, px p1 = xpush (px p) t xo).
  Proof.
    intros Hm E. split; [unfold plab; rewrite Hm; reflexivity|].
    unfold gstep, CX_product2.pstep in E. destruct (pthr p t) as [|o pr| | | |] eqn:Eq; try discriminate Hm.
    - destruct (ptodo p t); [discriminate E|]. inversion E; subst. left. reflexivity.
    - destruct pr as [r|mo k|k|k|d k|k|cb k|e k]; try discriminate E;
        try (inversion E; subst; left; reflexivity).
      destruct mo.
      1-7: match type of E with context [sup ?m] => destruct (sup m) eqn:Hsup' end; [|discriminate E]; inversion E; subst; right; eexists; reflexivity.
      inversion E; subst; right; eexists; reflexivity.
  Qed.

  (* a move of thread u does not touch what belongs to another thread *)
  Lemma gstep_other p u p1 os h t : gstep p u = Some (p1, os, h) -> t <> u ->
    pthr p1 t = pthr p t /\ ptodo p1 t = ptodo p t /\ thist t (cproj os) = [].
  Proof.
    intros E Hn.
    assert (Hne : Nat.eqb u t = false) by (apply Nat.eqb_neq; congruence).
    destruct (mach (pthr p u)) eqn:Hm.
    - destruct (gstep_mach p u p1 os h Hm E) as [ls [_ [_ [Et [Etd Eo]]]]].
      rewrite Et, Etd, Eo, feed_cproj. rewrite upd_neq by exact Hn. auto.
    - assert (Hfin : forall (x1 : mstate) q td os1, (td = ptodo p \/ exists r, td = upd (ptodo p) u r) ->
                (os1 = [] \/ (exists o, os1 = [OC (HInv u o)]) \/ (exists r, os1 = [OC (HRes u r)])) ->
                Some ({| p_x := x1; p_thr := upd (pthr p) u q; p_todo := td |}, os1, @nil (hev sop sres)) = Some (p1, os, h) ->
                pthr p1 t = pthr p t /\ ptodo p1 t = ptodo p t /\ thist t (cproj os) = []).
      { intros x1 q td os1 Htd Hos E1. inversion E1; subst p1 os h; clear E1. cbn [p_thr p_todo].
        split; [apply upd_neq; exact Hn|]. split.
        - destruct Htd as [->|[r ->]]; [reflexivity | apply upd_neq; exact Hn].
        - destruct Hos as [->|[[o ->]|[r ->]]]; cbn [cproj thist filter ev_thread]; rewrite ?Hne; reflexivity. }
      unfold gstep, CX_product2.pstep in E. destruct (pthr p u) as [|o pr| | | |] eqn:Eq; try discriminate Hm.
      + destruct (ptodo p u); [discriminate E|]. eapply Hfin; [| |exact E]; eauto.
      + destruct pr as [r|mo k|k|k|d k|k|cb k|e k]; try discriminate E;
          try (unfold CX_product2.pset in E; eapply Hfin; [| |exact E]; eauto; fail).
        destruct mo.
        1-7: match type of E with context [sup ?m] => destruct (sup m) eqn:Hsup' end; [|discriminate E]; eapply Hfin; [| |exact E]; eauto.
        eapply Hfin; [| |exact E]; eauto.
  Qed.

  (* ---------------- reachability ---------------- *)

  Definition Reach (x : mstate) (L : list slabel) : Prop :=
    forall fr : nat -> list sop, exists fut m td,
      (forall u, td u = h_todo x u ++ fr u) /\ srun (sinit0 fut) m = (swith_todo x td, L).

  Lemma srun_app' a : forall s b, srun s (a ++ b) = (fst (srun (fst (srun s a)) b), snd (srun s a) ++ snd (srun (fst (srun s a)) b)).
  Proof.
    induction a as [|t r IH]; intros s b; cbn [app XMachineS.srun].
    - cbn [fst snd app]. destruct (XMachineS.srun _ _ _ _ _ _ _ _ _ _ _ s b). reflexivity.
    - destruct (sstep s t) as [[s1 ls1]|]; [|apply IH].
      rewrite (IH s1 b). destruct (XMachineS.srun _ _ _ _ _ _ _ _ _ _ _ s1 r) as [s2 ls2]. cbn [fst snd].
      rewrite app_assoc. reflexivity.
  Qed.

  Lemma Reach_init : Reach (s2_init nslots seeds nstripes len0 (fun _ => [])) [].
  Proof. intros fr. exists fr, [], fr. split; [intros u; reflexivity | reflexivity]. Qed.

  Lemma Reach_push x L t xo : Reach x L -> Reach (xpush x t xo) L.
  Proof.
    intros HR fr. destruct (HR (upd fr t (xo :: fr t))) as [fut [m [td [Htd Hrun]]]].
    exists fut, m, td. split; [|exact Hrun].
    intros u. rewrite Htd. unfold CX_product2.push. cbn [CX_map.swith_todo h_todo]. unfold upd.
    destruct (Nat.eq_dec u t) as [->|]; [rewrite <- app_assoc; reflexivity | reflexivity].
  Qed.

  Lemma Reach_step x L t x' ls : Reach x L -> sstep x t = Some (x', ls) -> Reach x' (L ++ ls).
  Proof.
    intros HR Ex fr. destruct (HR fr) as [fut [m [td [Htd Hrun]]]].
    destruct (sstep_frame eqd hash idx tophash nslots seeds grow_needed shrink_policy nstripes minlen grow_only x t x' ls td fr Ex Htd)
      as [td' [Ex' Htd']].
    exists fut, (m ++ [t]), td'. split; [exact Htd'|].
    rewrite srun_app', Hrun. cbn [fst snd XMachineS.srun]. rewrite Ex'. cbn [fst snd]. rewrite app_nil_r. reflexivity.
  Qed.

  Lemma Reach_gstep p L t p1 os h : Reach (px p) L -> gstep p t = Some (p1, os, h) -> Reach (px p1) (L ++ plab p t).
  Proof.
    intros HR E. destruct (mach (pthr p t)) eqn:Hm.
    - destruct (gstep_mach p t p1 os h Hm E) as [ls [Ex [El _]]]. rewrite El. eapply Reach_step; eassumption.
    - destruct (gstep_client p t p1 os h Hm E) as [El [Ex|[xo Ex]]]; rewrite El, app_nil_r, Ex; [exact HR | apply Reach_push; exact HR].
  Qed.

  Lemma Reach_run sched : forall p L, Reach (px p) L -> Reach (px (pafter p sched)) (L ++ plabs p sched).
  Proof.
    induction sched as [|t r IH]; intros p L HR; [cbn [plabs]; rewrite app_nil_r; exact HR|].
    rewrite pafter_cons. cbn [plabs]. destruct (gstep p t) as [[[p' os] h]|] eqn:E; [|apply IH; exact HR].
    rewrite app_assoc. apply IH. eapply Reach_gstep; eassumption.
  Qed.

  Theorem Reach_from_init todo sched : Reach (px (pafter (ginit todo) sched)) (plabs (ginit todo) sched).
  Proof. apply (Reach_run sched (ginit todo) []). exact Reach_init. Qed.


  (* ---------------- XS_range.range_once on a product configuration ---------------- *)

  Hypothesis Hr : rdhyps hash idx tophash nslots minlen.
  Hypothesis Hlen : 0 < len0.
  Hypothesis Hsup : sup CSize = false.

  Lemma reach_once x L t : Reach x L -> NoDup (map fst (cv t [] L)).
  Proof.
    intros HR. destruct (HR (fun _ => [])) as [fut [m [td [_ Hrun]]]].
    pose proof (XS_range.range_once_proof eqd hash idx tophash nslots seeds grow_needed shrink_policy nstripes minlen grow_only Hr len0 fut m t Hlen) as H.
    rewrite Hrun in H. exact H.
  Qed.

  (* ---------------- the labels of a step ---------------- *)

  Notation svis_of := (@CX_map2.svis_of K V).
  Notation noinv := (@XS_range.noinv K item).

  Lemma cv_own t (ls : list slabel) : Forall (lby t) ls -> Forall (noinv t) ls -> forall a, cv t a ls = a ++ svis_of ls.
  Proof.
    induction ls as [|l r IH]; intros Hb Hn a; [cbn; rewrite app_nil_r; reflexivity|].
    inversion Hb as [|? ? Hb1 Hb2]; subst. inversion Hn as [|? ? Hn1 Hn2]; subst.
    unfold CX_map2.svis_of in *. destruct l; cbn [XS_range.cv flat_map app XS_fn.lby XS_range.noinv] in *; try (apply IH; assumption).
    - exfalso. apply Hn1. exact Hb1.
    - destruct (Nat.eq_dec t0 t) as [_|Hc]; [|contradiction]. rewrite IH by assumption. rewrite <- app_assoc. reflexivity.
  Qed.

  Lemma noinv_shape t (ls : list slabel) u : (shist ls = [] \/ exists r, shist ls = [HRes u r]) -> Forall (noinv t) ls.
  Proof.
    induction ls as [|l r IH]; intros H; [constructor|].
    destruct l; cbn [XS_linpoints.shist] in H.
    - exfalso. destruct H as [H|[x H]]; discriminate H.
    - constructor; [exact I|]. apply IH. left. destruct H as [H|[x H]]; [discriminate H | inversion H; reflexivity].
    - constructor; [exact I | apply IH; exact H].
    - constructor; [exact I | apply IH; exact H].
    - constructor; [exact I | apply IH; exact H].
    - constructor; [exact I | apply IH; exact H].
    - constructor; [exact I | apply IH; exact H].
  Qed.

  Lemma step_pc_labels s t p s' ls : sstep_pc s t p = Some (s', ls) -> Forall (lby t) ls /\ Forall (noinv t) ls.
  Proof.
    intros E. split.
    - destruct (step_fn eqd hash idx tophash nslots seeds grow_needed shrink_policy nstripes minlen grow_only s t p s' ls E) as [H _]. exact H.
    - destruct (sstep_pc_shape eqd hash idx tophash nslots seeds grow_needed shrink_policy nstripes minlen grow_only s t p s' ls E) as [_ [_ H]].
      apply (noinv_shape t ls t). destruct H as [H|[r [H _]]]; [left; exact H | right; exists r; exact H].
  Qed.

  (* what a step of thread u adds to the visits of thread t's current call: exactly what [feed] appends *)
  Lemma cv_sstep x u x' ls t acc : sstep x u = Some (x', ls) ->
    cv t acc ls = if Nat.eq_dec u t then (if spc_idle_dec (h_pc x u) then svis_of ls else acc ++ svis_of ls) else acc.
  Proof.
    intros Ex.
    destruct (spc_idle_dec (h_pc x u)) as [Hp|Hp].
    - rewrite (CX_map.sstep_idle eqd hash idx tophash nslots seeds grow_needed shrink_policy nstripes minlen grow_only x u Hp) in Ex.
      destruct (h_todo x u) as [|o rest]; [discriminate Ex|].
      destruct (sstep_pc (sinvoke x u o rest) u (sstart_pc o)) as [[s2 ls2]|] eqn:E2; inversion Ex; subst x' ls; clear Ex.
      + destruct (step_pc_labels _ _ _ _ _ E2) as [Hb Hn]. cbn [XS_range.cv]. unfold CX_map2.svis_of. cbn [flat_map app].
        destruct (Nat.eq_dec u t) as [->|Hne]; [apply (cv_own t ls2 Hb Hn [])|].
        apply (XS_range.cv_other u t ls2); [congruence | exact Hb].
      + cbn [XS_range.cv]. destruct (Nat.eq_dec u t); reflexivity.
    - rewrite (CX_map.sstep_nonidle eqd hash idx tophash nslots seeds grow_needed shrink_policy nstripes minlen grow_only x u Hp) in Ex.
      destruct (step_pc_labels _ _ _ _ _ Ex) as [Hb Hn].
      destruct (Nat.eq_dec u t) as [->|Hne]; [apply cv_own; [exact Hb | exact Hn]|].
      apply (XS_range.cv_other u t ls); [congruence | exact Hb].
  Qed.

  (* ---------------- the protocol invariant ---------------- *)

  Notation s2_idle := (@s2_idle K V).
  Notation s2_inkept := (@s2_inkept K V).
  Notation s2_indrop := (@s2_indrop K V).
  Notation s2_ok := (@CX_map2.s2_ok K V).

  Definition TIq (x : mstate) (t : nat) (q : qst) : Prop :=
    match q with
    | QIdle | QRun _ _ => h_todo x t = [] /\ s2_idle x t
    | QPushed o mo k => h_todo x t = [stranslate env0 mo] /\ s2_idle x t /\ s2_ok (stranslate env0 mo) /\ s2_drop (stranslate env0 mo) = false
    | QWait o mo k => h_todo x t = [] /\ s2_inkept x t
    | QSPushed o k => h_todo x t = [@s2_range K V] /\ s2_idle x t
    | QSWait o k acc => h_todo x t = [] /\ s2_indrop x t
    end.

  Definition TI (p : pconf) : Prop := forall t, TIq (px p) t (pthr p t).

  Lemma TI_init todo : TI (ginit todo).
  Proof. intros t. cbn. split; [reflexivity|]. split; [left; reflexivity | reflexivity]. Qed.

  Lemma gstep_client' p t p1 os h : mach (pthr p t) = false -> gstep p t = Some (p1, os, h) ->
    (px p1 = px p /\ mach (pthr p1 t) = false)
    \/ (exists o mo k, px p1 = xpush (px p) t (stranslate env0 mo) /\ pthr p1 t = QPushed o mo k /\ sup mo = true /\ mo <> CSnapshot)
    \/ (exists o k, px p1 = xpush (px p) t (@s2_range K V) /\ pthr p1 t = QSPushed o k).
  Proof.
    intros Hm E.
    unfold gstep, CX_product2.pstep in E. destruct (pthr p t) as [|o pr| | | |] eqn:Eq; try discriminate Hm.
    - destruct (ptodo p t); [discriminate E|]. inversion E; subst. left. cbn [p_x p_thr]. rewrite upd_eq. auto.
    - destruct pr as [r|mo k|k|k|d k|k|cb k|e k]; try discriminate E;
        try (inversion E; subst; left; cbn [CX_product2.pset p_x p_thr]; rewrite upd_eq; auto; fail).
      destruct mo.
      1-7: match type of E with context [sup ?m] => destruct (sup m) eqn:Hs end; [|discriminate E]; inversion E; subst; right; left; cbn [p_x p_thr]; rewrite upd_eq;
           do 3 eexists; split; [|split; [reflexivity|split; [exact Hs | discriminate]]]; reflexivity.
      inversion E; subst; right; right; cbn [p_x p_thr]; rewrite upd_eq; eauto.
  Qed.

  Lemma ok_of_sup mo : sup mo = true -> mo <> CSnapshot -> s2_ok (stranslate env0 mo) /\ s2_drop (stranslate env0 mo) = false.
  Proof.
    intros Hs Hn. destruct mo; cbn; auto.
    - rewrite Hsup in Hs. discriminate Hs.
    - exfalso. apply Hn. reflexivity.
  Qed.

  Lemma TI_gstep p u p1 os h : TI p -> gstep p u = Some (p1, os, h) -> TI p1.
  Proof.
    intros HT E t. pose proof (HT t) as Ht.
    destruct (mach (pthr p u)) eqn:Hm.
    - destruct (gstep_mach p u p1 os h Hm E) as [ls [Ex [_ [Eth [_ _]]]]].
      assert (E2 : s2_step (px p) u = Some (px p1, sso_of ls, hstep (px p) u ls)) by (unfold CX_map2.s2_step; rewrite Ex; reflexivity).
      destruct (s2_proto eqd hash idx tophash nslots seeds grow_needed shrink_policy nstripes minlen grow_only _ _ _ _ _ E2) as [Ho [Hci [Hck Hcd]]].
      rewrite Eth. destruct (Nat.eq_dec t u) as [->|Hn].
      + rewrite upd_eq. pose proof (HT u) as Hu. unfold TIq in Hu.
        destruct (pthr p u) as [|o pr|o mo k|o mo k|o k|o k acc] eqn:Eq; try discriminate Hm; cbn [CX_product2.feed].
        * destruct Hu as [Htd [Hid [Hok Hdr]]].
          destruct (Hci Hid) as [[Ei [Er [_ [Hid1 Htd1]]]]|[xo [rest [Etd [Etd1 [Ei Hxo]]]]]].
          -- rewrite Ei. cbn [fst TIq]. rewrite Htd1. auto.
          -- rewrite Ei. rewrite Htd in Etd. injection Etd as Exo Erest. rewrite <- Erest in Etd1. rewrite <- Exo in Hxo. destruct (Hxo Hok) as [_ Hcl].
             rewrite Hdr in Hcl.
             destruct (so_res sop sres (sso_of ls)); cbn [fst TIq]; (split; [exact Etd1|]); exact Hcl.
        * destruct Hu as [Htd Hk].
          destruct (Hck Hk) as [Htd1 [_ [_ Hcl]]]. destruct (so_res sop sres (sso_of ls)); cbn [fst TIq]; rewrite Htd1; auto.
        * destruct Hu as [Htd Hid].
          destruct (Hci Hid) as [[Ei [Er [_ [Hid1 Htd1]]]]|[xo [rest [Etd [Etd1 [Ei Hxo]]]]]].
          -- rewrite Ei. cbn [fst TIq]. rewrite Htd1. auto.
          -- rewrite Ei. rewrite Htd in Etd. injection Etd as Exo Erest. rewrite <- Erest in Etd1. rewrite <- Exo in Hxo.
             destruct (Hxo (fun _ _ => eq_refl)) as [_ Hcl].
             destruct (so_res sop sres (sso_of ls)); cbn [fst TIq]; (split; [exact Etd1|]); exact Hcl.
        * destruct Hu as [Htd Hd]. destruct (Hcd Hd) as [Htd1 [_ [_ Hcl]]].
          destruct (so_res sop sres (sso_of ls)); cbn [fst TIq]; rewrite Htd1; auto.
      + rewrite upd_neq by exact Hn. destruct (Ho t Hn) as [A [B [C D]]]. unfold TIq in *. rewrite A.
        destruct (pthr p t); intuition.
    - destruct (Nat.eq_dec t u) as [->|Hn].
      + pose proof (HT u) as Hu. unfold TIq in Hu.
        assert (Hidle : h_todo (px p) u = [] /\ s2_idle (px p) u) by (destruct (pthr p u); try discriminate Hm; exact Hu).
        destruct Hidle as [Htd Hid].
        destruct (gstep_client' p u p1 os h Hm E) as [[Ex Hm1]|[[o [mo [k [Ex [Eq [Hs Hns]]]]]]|[o [k [Ex Eq]]]]].
        * rewrite Ex. unfold TIq. destruct (pthr p1 u); try discriminate Hm1; auto.
        * rewrite Ex, Eq. cbn [TIq]. destruct (ok_of_sup mo Hs Hns) as [Hok Hdr].
          split; [|split; [exact Hid | split; [exact Hok | exact Hdr]]]. unfold CX_product2.push. cbn [CX_map.swith_todo h_todo]. rewrite upd_eq, Htd. reflexivity.
        * rewrite Ex, Eq. cbn [TIq]. split; [|exact Hid]. unfold CX_product2.push. cbn [CX_map.swith_todo h_todo]. rewrite upd_eq, Htd. reflexivity.
      + destruct (gstep_other p u p1 os h t E Hn) as [Eth _]. rewrite Eth.
        destruct (gstep_client p u p1 os h Hm E) as [_ [Ex|[xo Ex]]]; rewrite Ex; [exact Ht|].
        unfold TIq in *. unfold CX_product2.push. cbn [CX_map.swith_todo h_todo]. rewrite upd_neq by exact Hn. exact Ht.
  Qed.

  Lemma TI_run sched : forall p, TI p -> TI (pafter p sched).
  Proof.
    induction sched as [|t r IH]; intros p HT; [exact HT|].
    rewrite pafter_cons. destruct (gstep p t) as [[[p' os] h]|] eqn:E; [|apply IH; exact HT].
    apply IH. eapply TI_gstep; eassumption.
  Qed.

  (* ---------------- the window ---------------- *)

  Variable rloop : Z -> (K -> V -> bool) -> list (K * item) -> list (K * V) -> prog.
  Variable reord : list K -> list (K * item) -> list (K * item).
  Hypothesis Hrl : forall now f l vs, rl (vs ++ visits now f l) (rloop now f l vs).
  Hypothesis Hperm : forall hint l, Permutation l (reord hint l).
  Hypothesis Hrange : forall f hint, progs (ORange (Some f) hint) = RangeP rloop reord f hint.

  Variable todo0 : nat -> list cop.
  Variable sched0 : list nat.
  Variable t : nat.
  Variable f : K -> V -> bool.
  Variable hint : list K.
  Variable rest : list cop.
  Notation o := (ORange (Some f) hint).
  Notation KN := (K0 rloop reord NOW f hint).

  Let p0 : pconf := pafter (ginit todo0) sched0.
  Let L0 : list slabel := plabs (ginit todo0) sched0.

  Hypothesis H0thr : pthr p0 t = QIdle.
  Hypothesis H0todo : ptodo p0 t = o :: rest.

  Definition prephase (q : qst) : Prop :=
    q = QRun o (RangeP rloop reord f hint) \/ q = QRun o (MapCall CSnapshot KN) \/ q = QSPushed o KN.

  Inductive WS (p : pconf) (L : list slabel) (ot : list (hev cop cres)) : Prop :=
  | WS_A : pthr p t = QIdle -> ptodo p t = o :: rest -> ot = [] -> WS p L ot
  | WS_pre : prephase (pthr p t) -> ptodo p t = rest -> ot = [HInv t o] -> WS p L ot
  | WS_E acc : pthr p t = QSWait o KN acc -> ptodo p t = rest -> ot = [HInv t o] -> acc = cv t [] L -> WS p L ot
  | WS_F accF pr : pthr p t = QRun o pr -> rl (visits NOW f (reord hint accF)) pr -> ptodo p t = rest -> ot = [HInv t o] ->
                   NoDup (map fst accF) -> WS p L ot
  | WS_G accF : pthr p t = QIdle -> ptodo p t = rest -> ot = [HInv t o; HRes t (CList (visits NOW f (reord hint accF)))] ->
                NoDup (map fst accF) -> WS p L ot
  | WS_Past : length (ptodo p t) < length rest -> WS p L ot.

  Lemma gstep_todo_len p u p1 os h : gstep p u = Some (p1, os, h) -> length (ptodo p1 t) <= length (ptodo p t).
  Proof.
    intros E. destruct (Nat.eq_dec t u) as [->|Hn]; [|destruct (gstep_other p u p1 os h t E Hn) as [_ [-> _]]; lia].
    destruct (mach (pthr p u)) eqn:Hm.
    - destruct (gstep_mach p u p1 os h Hm E) as [ls [_ [_ [_ [-> _]]]]]. lia.
    - unfold gstep, CX_product2.pstep in E. destruct (pthr p u) as [|o1 pr| | | |] eqn:Eq; try discriminate Hm.
      + destruct (ptodo p u) as [|o1 r1] eqn:Et; [discriminate E|]. inversion E; subst. cbn [p_todo]. rewrite upd_eq. cbn [length]. lia.
      + destruct pr as [r|mo k|k|k|d k|k|cb k|e k]; try discriminate E; try (inversion E; subst; cbn [CX_product2.pset p_todo]; lia).
        destruct mo.
        1-7: match type of E with context [sup ?m] => destruct (sup m) eqn:Hs end; [|discriminate E]; inversion E; subst; cbn [p_todo]; lia.
        inversion E; subst; cbn [p_todo]; lia.
  Qed.

  Lemma WS_other p L ot u p1 os h : WS p L ot -> gstep p u = Some (p1, os, h) -> t <> u ->
    WS p1 (L ++ plab p u) (ot ++ thist t (cproj os)).
  Proof.
    intros HW E Hn.
    destruct (gstep_other p u p1 os h t E Hn) as [Eth [Etd Eos]]. rewrite Eos, app_nil_r.
    destruct HW as [A B C|A B C|acc A B C D|accF pr A B C D EE|accF A B C D|A].
    - apply WS_A; congruence.
    - apply WS_pre; congruence.
    - apply (WS_E _ _ _ acc); [congruence | congruence | exact C|].
      rewrite XS_range.cv_app, <- D. destruct (mach (pthr p u)) eqn:Hm.
      + destruct (gstep_mach p u p1 os h Hm E) as [ls [Ex [El _]]]. rewrite El, (cv_sstep _ _ _ _ t acc Ex).
        destruct (Nat.eq_dec u t); [exfalso; apply Hn; congruence | reflexivity].
      + destruct (gstep_client p u p1 os h Hm E) as [El _]. rewrite El. reflexivity.
    - eapply WS_F; try eassumption; congruence.
    - eapply WS_G; try eassumption; congruence.
    - apply WS_Past. congruence.
  Qed.

  Lemma gstep_eqs p o1 :
    (forall r1, pthr p t = QIdle -> ptodo p t = o1 :: r1 ->
       gstep p t = Some ({| p_x := px p; p_thr := upd (pthr p) t (QRun o1 (progs o1)); p_todo := upd (ptodo p) t r1 |}, [OC (HInv t o1)], []))
    /\ (pthr p t = QIdle -> ptodo p t = [] -> gstep p t = None)
    /\ (forall r, pthr p t = QRun o1 (Ret r) ->
          gstep p t = Some ({| p_x := px p; p_thr := upd (pthr p) t QIdle; p_todo := ptodo p |}, [OC (HRes t r)], []))
    /\ (forall k, pthr p t = QRun o1 (ReadNow k) ->
          gstep p t = Some ({| p_x := px p; p_thr := upd (pthr p) t (QRun o1 (k NOW)); p_todo := ptodo p |}, [], []))
    /\ (forall e k, pthr p t = QRun o1 (Emit e k) ->
          gstep p t = Some ({| p_x := px p; p_thr := upd (pthr p) t (QRun o1 k); p_todo := ptodo p |}, [], []))
    /\ (forall k, pthr p t = QRun o1 (MapCall CSnapshot k) ->
          gstep p t = Some ({| p_x := xpush (px p) t (@s2_range K V); p_thr := upd (pthr p) t (QSPushed o1 k); p_todo := ptodo p |}, [], [])).
  Proof.
    repeat split; intros; unfold gstep, CX_product2.pstep;
      repeat match goal with H : pthr p t = _ |- _ => rewrite H; clear H | H : ptodo p t = _ |- _ => rewrite H; clear H end; reflexivity.
  Qed.

  Lemma thist_inv1 (x : cop) : thist t [@HInv cop cres t x] = [HInv t x].
  Proof. unfold thist. cbn [filter ev_thread]. rewrite Nat.eqb_refl. reflexivity. Qed.

  Lemma thist_res1 (r : cres) : thist t [@HRes cop cres t r] = [HRes t r].
  Proof. unfold thist. cbn [filter ev_thread]. rewrite Nat.eqb_refl. reflexivity. Qed.

  Lemma feed_cproj' q so : cproj (snd (feed t q so)) = [].
  Proof. apply feed_cproj. Qed.

  Lemma WS_own p L ot p1 os h : WS p L ot -> Reach (px p) L -> TI p ->
    gstep p t = Some (p1, os, h) -> WS p1 (L ++ plab p t) (ot ++ thist t (cproj os)).
  Proof.
    intros HW HR HT E.
    destruct HW as [A B C|B A C|acc A B C D|accF pr A B C D EE|accF A B C D|A].
    - destruct (gstep_eqs p o) as [G1 _]. rewrite (G1 rest A B) in E. inversion E; subst p1 os h; clear E.
      apply WS_pre; cbn [p_thr p_todo]; rewrite ?upd_eq.
      + unfold prephase. rewrite Hrange. auto.
      + reflexivity.
      + rewrite C. cbn [cproj app]. apply thist_inv1.
    - destruct B as [Eq|[Eq|Eq]].
      + unfold RangeP in Eq. destruct (gstep_eqs p o) as [_ [_ [_ [G4 _]]]]. rewrite (G4 _ Eq) in E. inversion E; subst p1 os h; clear E.
        apply WS_pre; cbn [p_thr p_todo cproj thist filter]; rewrite ?upd_eq, ?app_nil_r; [unfold prephase; auto | exact A | exact C].
      + destruct (gstep_eqs p o) as [_ [_ [_ [_ [_ G6]]]]]. rewrite (G6 _ Eq) in E. inversion E; subst p1 os h; clear E.
        apply WS_pre; cbn [p_thr p_todo cproj thist filter]; rewrite ?upd_eq, ?app_nil_r; [unfold prephase; auto | exact A | exact C].
      + (* the traversal is in the todo list of t's map thread *)
        assert (Hm : mach (pthr p t) = true) by (rewrite Eq; reflexivity).
        destruct (gstep_mach p t p1 os h Hm E) as [ls [Ex [El [Eth [Etd Eo]]]]].
        assert (Hot : ot ++ thist t (cproj os) = [HInv t o]) by (rewrite Eo, feed_cproj'; cbn [thist filter]; rewrite app_nil_r; exact C).
        rewrite Hot, El.
        pose proof (HT t) as Ht. unfold TIq in Ht. rewrite Eq in Ht. destruct Ht as [Htd [[Hs|Hi] Hfr]].
        * (* the goroutine starts *)
          assert (Hne : h_pc (px p) t <> XMachineS.QIdle) by (rewrite Hs; discriminate).
          rewrite (CX_map.sstep_nonidle eqd hash idx tophash nslots seeds grow_needed shrink_policy nstripes minlen grow_only _ _ Hne) in Ex.
          destruct (sstep_pc_shape eqd hash idx tophash nslots seeds grow_needed shrink_policy nstripes minlen grow_only _ _ _ _ _ Ex) as [_ [_ Hsh]].
          assert (Hinv : so_inv sop sres (sso_of ls) = None).
          { unfold CX_map2.sso_of. cbn [so_inv]. apply (shape_inv t). destruct Hsh as [H|[r [H _]]]; [left; exact H | right; exists r; exact H]. }
          apply WS_pre; [| rewrite Etd; exact A | reflexivity].
          rewrite Eth, upd_eq, Eq. cbn [CX_product2.feed]. rewrite Hinv. cbn [fst]. unfold prephase. auto.
        * (* the invocation *)
          pose proof Ex as Ex0.
          rewrite (CX_map.sstep_idle eqd hash idx tophash nslots seeds grow_needed shrink_policy nstripes minlen grow_only _ _ Hi), Htd in Ex.
          assert (Hinv : so_inv sop sres (sso_of ls) = Some (@s2_range K V)).
          { destruct (sstep_pc (sinvoke (px p) t s2_range []) t (sstart_pc s2_range)) as [[s2 ls2]|]; inversion Ex; subst; reflexivity. }
          assert (Hcv : so_vis sop sres (sso_of ls) = cv t [] (L ++ ls)).
          { rewrite XS_range.cv_app, (cv_sstep _ _ _ _ t _ Ex0). destruct (Nat.eq_dec t t) as [_|Hc]; [|congruence].
            destruct (spc_idle_dec (h_pc (px p) t)) as [_|Hc]; [reflexivity | contradiction]. }
          destruct (so_res sop sres (sso_of ls)) as [r|] eqn:Er.
          -- eapply (WS_F _ _ _ (so_vis sop sres (sso_of ls)) (rloop NOW f (reord hint (so_vis sop sres (sso_of ls))) []));
               [| apply (Hrl NOW f _ []) | rewrite Etd; exact A | reflexivity |].
             ++ rewrite Eth, upd_eq, Eq. cbn [CX_product2.feed]. rewrite Hinv, Er. reflexivity.
             ++ rewrite Hcv. apply (reach_once (px p1) (L ++ ls) t). eapply Reach_step; eassumption.
          -- apply (WS_E _ _ _ (so_vis sop sres (sso_of ls))); [| rewrite Etd; exact A | reflexivity | exact Hcv].
             rewrite Eth, upd_eq, Eq. cbn [CX_product2.feed]. rewrite Hinv, Er. reflexivity.
    - (* the traversal runs *)
      assert (Hm : mach (pthr p t) = true) by (rewrite A; reflexivity).
      destruct (gstep_mach p t p1 os h Hm E) as [ls [Ex [El [Eth [Etd Eo]]]]].
      assert (Hot : ot ++ thist t (cproj os) = [HInv t o]) by (rewrite Eo, feed_cproj'; cbn [thist filter]; rewrite app_nil_r; exact C).
      rewrite Hot, El.
      pose proof (HT t) as Ht. unfold TIq in Ht. rewrite A in Ht. destruct Ht as [Htd [Hfr [vf [Hrg _]]]].
      assert (Hne : h_pc (px p) t <> XMachineS.QIdle) by (intros Hc; rewrite Hc in Hrg; discriminate Hrg).
      assert (Hcv : acc ++ so_vis sop sres (sso_of ls) = cv t [] (L ++ ls)).
      { rewrite XS_range.cv_app, <- D, (cv_sstep _ _ _ _ t _ Ex). destruct (Nat.eq_dec t t) as [_|Hc]; [|congruence].
        destruct (spc_idle_dec (h_pc (px p) t)) as [Hc|_]; [contradiction | reflexivity]. }
      destruct (so_res sop sres (sso_of ls)) as [r|] eqn:Er.
      + eapply (WS_F _ _ _ (acc ++ so_vis sop sres (sso_of ls)) (rloop NOW f (reord hint (acc ++ so_vis sop sres (sso_of ls))) []));
          [| apply (Hrl NOW f _ []) | rewrite Etd; exact B | reflexivity |].
        * rewrite Eth, upd_eq, A. cbn [CX_product2.feed]. rewrite Er. reflexivity.
        * rewrite Hcv. apply (reach_once (px p1) (L ++ ls) t). eapply Reach_step; eassumption.
      + apply (WS_E _ _ _ (acc ++ so_vis sop sres (sso_of ls))); [| rewrite Etd; exact B | reflexivity | exact Hcv].
        rewrite Eth, upd_eq, A. cbn [CX_product2.feed]. rewrite Er. reflexivity.
    - inversion B as [Er|e k Hk Er]; subst pr.
      + destruct (gstep_eqs p o) as [_ [_ [G3 _]]]. rewrite (G3 _ A) in E. inversion E; subst p1 os h; clear E.
        eapply (WS_G _ _ _ accF); cbn [p_thr p_todo]; rewrite ?upd_eq; [reflexivity | exact C | | exact EE].
        rewrite D. cbn [cproj]. rewrite thist_res1. reflexivity.
      + destruct (gstep_eqs p o) as [_ [_ [_ [_ [G5 _]]]]]. rewrite (G5 _ _ A) in E. inversion E; subst p1 os h; clear E.
        eapply (WS_F _ _ _ accF k); cbn [p_thr p_todo cproj thist filter]; rewrite ?upd_eq, ?app_nil_r;
          [reflexivity | exact Hk | exact C | exact D | exact EE].
    - destruct (ptodo p t) as [|o' rest'] eqn:Et.
      + destruct (gstep_eqs p o) as [_ [G2 _]]. rewrite (G2 A Et) in E. discriminate E.
      + destruct (gstep_eqs p o') as [G1 _]. rewrite (G1 rest' A Et) in E. inversion E; subst p1 os h; clear E.
        apply WS_Past. cbn [p_todo]. rewrite upd_eq. rewrite <- B. cbn [length]. lia.
    - apply WS_Past. pose proof (gstep_todo_len p t p1 os h E). lia.
  Qed.

  Theorem WS_all s1 : WS (pafter p0 s1) (L0 ++ plabs p0 s1) (thist t (cproj (pouts p0 s1))).
  Proof.
    induction s1 as [|u s1 IH] using rev_ind.
    - apply WS_A; [exact H0thr | exact H0todo | reflexivity].
    - rewrite pafter_snoc, pouts_snoc, plabs_snoc.
      destruct (gstep (pafter p0 s1) u) as [[[p1 os] h]|] eqn:E.
      + rewrite cproj_app, thist_app, app_assoc.
        destruct (Nat.eq_dec t u) as [<-|Hn].
        * eapply WS_own; [exact IH | apply Reach_run; apply Reach_from_init | apply TI_run; apply TI_run; apply TI_init | exact E].
        * eapply WS_other; [exact IH | exact E | exact Hn].
      + rewrite !app_nil_r. exact IH.
  Qed.

  (* the window: t is idle again, the call consumed *)
  Theorem cacheS_range_window sched :
    pthr (pafter p0 sched) t = QIdle -> ptodo (pafter p0 sched) t = rest ->
    exists l, thist t (cproj (pouts p0 sched)) = [HInv t o; HRes t (CList l)] /\ NoDup (map fst l).
  Proof.
    intros Hq Htd.
    destruct (WS_all sched) as [A B C|B A C|acc A B C D|accF pr A B C D EE|accF A B C D|A].
    - rewrite Htd in B. exfalso. assert (Hl : length rest = length (o :: rest)) by (rewrite <- B; reflexivity). cbn [length] in Hl. lia.
    - rewrite Hq in B. unfold prephase in B. exfalso. destruct B as [B|[B|B]]; discriminate B.
    - rewrite Hq in A. discriminate A.
    - rewrite Hq in A. discriminate A.
    - eexists. split; [exact C|]. apply visits_nodup.
      eapply Permutation_NoDup; [apply Permutation_map; apply Hperm | exact D].
    - rewrite Htd in A. lia.
  Qed.

End CXRangeS.

(* ---------------- the two cache texts over XMachineS ---------------- *)
Section StatementsS.
  Context {K V : Type}.
  Variable eqd : forall a b : K, {a = b} + {a <> b}.
  Variable hash : K -> N -> N.
  Variable idx : N -> nat -> nat.
  Variable tophash : N -> N.
  Variable nslots : nat.
  Variable seeds : nat -> N.
  Variable grow_needed shrink_policy : nat -> Z -> bool.
  Variable nstripes : nat -> nat.
  Variable minlen : nat.
  Variable grow_only : bool.
  Variable len0 : nat.
  Variable zero : V.
  Notation item := (item V).
  Notation cop := (cop K V).
  Notation cres := (cres K V).
  Notation mstate := (@mstate K item).
  Notation pthr := (@p_thr K V mstate).
  Notation ptodo := (@p_todo K V mstate).

  (* the window of thread t's call o, and t's history over it (cf. call_window / window_hist of CX_range3.v) *)
  Definition call_windowS progs sup NOW DFLT CB (todo0 : nat -> list cop) (sched0 sched : list nat) (t : nat) (o : cop) (rest : list cop) : Prop :=
    let after := pafter eqd hash idx tophash nslots seeds grow_needed shrink_policy nstripes minlen grow_only progs NOW DFLT CB sup in
    let p0 := after (ginit nslots seeds nstripes len0 todo0) sched0 in
    pthr p0 t = QIdle /\ ptodo p0 t = o :: rest /\ pthr (after p0 sched) t = QIdle /\ ptodo (after p0 sched) t = rest.

  Definition window_histS progs sup NOW DFLT CB (todo0 : nat -> list cop) (sched0 sched : list nat) (t : nat) : list (hev cop cres) :=
    let after := pafter eqd hash idx tophash nslots seeds grow_needed shrink_policy nstripes minlen grow_only progs NOW DFLT CB sup in
    thist t (cproj (pouts eqd hash idx tophash nslots seeds grow_needed shrink_policy nstripes minlen grow_only progs NOW DFLT CB sup
                          (after (ginit nslots seeds nstripes len0 todo0) sched0) sched)).

  Hypothesis Hr : rdhyps hash idx tophash nslots minlen.
  Hypothesis Hlen : 0 < len0.
  Variable sup : cmop K V -> bool.
  Hypothesis Hsup : sup CSize = false.
  Variables NOW DFLT : Z.
  Variable CB : cbid.
  Variable todo0 : nat -> list cop.
  Variables sched0 sched : list nat.
  Variable t : nat.
  Variable f : K -> V -> bool.
  Variable hint : list K.
  Variable rest : list cop.

  (* (a) over the Map machine, xsync_map.go: the call returns a list with pairwise distinct keys *)
  Theorem cacheS_range_once :
    call_windowS (prog_cache eqd zero) sup NOW DFLT CB todo0 sched0 sched t (ORange (Some f) hint) rest ->
    exists l, window_histS (prog_cache eqd zero) sup NOW DFLT CB todo0 sched0 sched t = [HInv t (ORange (Some f) hint); HRes t (CList l)]
              /\ NoDup (map fst l).
  Proof.
    intros [H1 [H2 [H3 H4]]].
    exact (cacheS_range_window eqd hash idx tophash nslots seeds grow_needed shrink_policy nstripes minlen grow_only len0
             (prog_cache eqd zero) NOW DFLT CB sup Hr Hlen Hsup (@CacheModel.range_loop K V) (CacheModel.reorder eqd)
             (fun now f0 l vs => CX_range3.rl_range_loop now f0 l vs) (fun h l => reorder_perm eqd h l)
             (fun _ _ => eq_refl) todo0 sched0 t f hint rest H1 H2 sched H3 H4).
  Qed.

  (* ... and xsync_mapof.go *)
  Theorem cacheofS_range_once :
    call_windowS (prog_cacheof eqd zero) sup NOW DFLT CB todo0 sched0 sched t (ORange (Some f) hint) rest ->
    exists l, window_histS (prog_cacheof eqd zero) sup NOW DFLT CB todo0 sched0 sched t = [HInv t (ORange (Some f) hint); HRes t (CList l)]
              /\ NoDup (map fst l).
  Proof.
    intros [H1 [H2 [H3 H4]]].
    exact (cacheS_range_window eqd hash idx tophash nslots seeds grow_needed shrink_policy nstripes minlen grow_only len0
             (prog_cacheof eqd zero) NOW DFLT CB sup Hr Hlen Hsup (@CacheOfModel.range_loop K V) (CacheOfModel.reorder eqd)
             (fun now f0 l vs => CX_range3.rl_range_loop_of now f0 l vs) (fun h l => CX_range3.reorder_perm_of eqd h l)
             (fun _ _ => eq_refl) todo0 sched0 t f hint rest H1 H2 sched H3 H4).
  Qed.

  (* with sup := ssup this is the machine of CX_map2.v *)
  Lemma cs2_is_gstep progs :
    gstep eqd hash idx tophash nslots seeds grow_needed shrink_policy nstripes minlen grow_only progs NOW DFLT CB (@ssup K V)
    = cs2step eqd hash idx tophash nslots seeds grow_needed shrink_policy nstripes minlen grow_only progs NOW DFLT CB
    /\ grun eqd hash idx tophash nslots seeds grow_needed shrink_policy nstripes minlen grow_only progs NOW DFLT CB (@ssup K V)
       = cs2run eqd hash idx tophash nslots seeds grow_needed shrink_policy nstripes minlen grow_only progs NOW DFLT CB
    /\ ginit nslots seeds nstripes len0 todo0 = cs2init nslots seeds nstripes len0 todo0.
  Proof. split; [reflexivity|]. split; reflexivity. Qed.
End StatementsS.

Print Assumptions cacheS_range_once.
Print Assumptions cacheofS_range_once.
