(* CX_term2.v -- C13 at the CACHE level, part 2: the two cache texts.

   [runnable o]: every call except SetDefaultExpiration / SetEvictedCallback (the product machine of
   CX_product2.v keeps the settings constant and does not execute WriteDflt / WriteCb: such a call
   would never return there -- a limitation of that machine, not of the code).
   [okp_cache] / [okp_cacheof]: every path of the program of a runnable call can run in the product
   machine, provided sup lets every map call but the traversal through to the machine (the traversal
   is always run on the machine).  The loops of DeleteExpired and Range are over the list the
   traversal returned: induction on that list.
   [cache_can_always_finish_mapof] / [cacheof_...]: from EVERY configuration of a run of the product
   machine over XMachine there is a finite continuation after which every thread has returned from
   every call, every map thread is idle (or never started) with an empty todo list, and nobody holds a
   bucket lock, resizeMu or the resizer role (X_term.quiet_all).
   [cache_solo_call_completes_mapof]: in a configuration that is calm for t, thread t, idle with a
   runnable call next, moved alone, returns from it. *)
From CacheV Require Import Base SpecMap Client CacheModel CacheOfModel Ops SpecTTL Lin Conc XMachine.
From CacheV.gen Require Import Params.
From CacheV.proofs Require Import X_c13 X_lin X_term CX_compose CX_mapof CX_product2 CX_mapof2 CX_range CX_term.
From Coq Require Import NArith Lia.
Local Open Scope nat_scope.

Section Texts.
  Context {K V : Type}.
  Variable eqd : forall a b : K, {a = b} + {a <> b}.
  Variable zero : V.
  Variable sup : cmop K V -> bool.
  Hypothesis Hall : forall mo, mo <> CSnapshot -> sup mo = true.

  Notation item := (item V).
  Notation okp := (@okp K V sup).

  Definition runnable (o : cop K V) : Prop := match o with OSetDflt _ | OSetCb _ => False | _ => True end.

  Ltac mc := split; [first [left; reflexivity | right; apply Hall; discriminate]|].
  Ltac okt := repeat first [ progress cbn [CX_term.okp] | exact I | mc | intro
                           | match goal with |- context [match ?x with _ => _ end] => destruct x end ].

  (* ---------------- xsync_map.go ---------------- *)

  Lemma okp_bind {A B} (p : prog K V A) (f : A -> prog K V B) : okp p -> (forall r, okp (f r)) -> okp (CacheModel.bind p f).
  Proof.
    intros Hp Hf. induction p as [r|mo k IH|k IH|k IH|d k IH|k IH|cb k IH|e k IH]; cbn [CacheModel.bind CX_term.okp] in *.
    - apply Hf.
    - destruct Hp as [A1 A2]. split; [exact A1|]. intros r. apply IH. apply A2.
    - intros z. apply IH. apply Hp.
    - intros z. apply IH. apply Hp.
    - destruct Hp.
    - intros z. apply IH. apply Hp.
    - destruct Hp.
    - apply IH. exact Hp.
  Qed.

  Lemma okp_get k : okp (CacheModel.get zero k).
  Proof. unfold CacheModel.get. okt. Qed.

  Lemma okp_fire {R} ec k v (p : prog K V R) : okp p -> okp (CacheModel.fire ec k v p).
  Proof. intros H. unfold CacheModel.fire. destruct ec; cbn [CX_term.okp]; exact H. Qed.

  Lemma okp_fire_all {R} c l (p : prog K V R) : okp p -> okp (CacheModel.fire_all c l p).
  Proof. intros H. induction l as [|[k v] r IH]; cbn [CacheModel.fire_all CX_term.okp]; auto. Qed.

  Lemma okp_delexp ec now snap : forall ev, okp (CacheModel.delexp_loop zero ec now snap ev).
  Proof.
    induction snap as [|[k i] r IH]; intros ev; cbn [CacheModel.delexp_loop].
    - destruct ec; [apply okp_fire_all|]; exact I.
    - destruct (expiredWithNow now i); [|apply IH]. cbn [CX_term.okp]. mc. intros res.
      repeat match goal with |- context [match ?x with _ => _ end] => destruct x end; apply IH.
  Qed.

  Lemma okp_range_loop now f l : forall vs, okp (CacheModel.range_loop now f l vs).
  Proof.
    induction l as [|[k i] r IH]; intros vs; cbn [CacheModel.range_loop]; [exact I|].
    destruct (expiredWithNow now i); [apply IH|]. cbn [CX_term.okp]. destruct (f k (iv i)); [apply IH | exact I].
  Qed.

  Lemma okp_Range f hint : okp (CacheModel.Range eqd f hint).
  Proof. unfold CacheModel.Range. destruct f as [f|]; [|exact I]. cbn [CX_term.okp]. intros now. mc. intros r. destruct r; try exact I. apply okp_range_loop. Qed.

  Lemma okp_GetAndDelete k : okp (CacheModel.GetAndDelete zero k).
  Proof.
    unfold CacheModel.GetAndDelete. cbn [CX_term.okp]. mc. intros r.
    repeat match goal with |- context [match ?x with _ => _ end] => destruct x end; try exact I.
    cbn [CX_term.okp]. intros now ec. apply okp_fire. destruct (expiredWithNow now i); exact I.
  Qed.

  Theorem okp_cache o : runnable o -> okp (prog_cache eqd zero o).
  Proof.
    intros Hr. destruct o; cbn [runnable] in Hr; try contradiction; cbn [prog_cache].
    - unfold CacheModel.Set_, CacheModel.expiration_prog. okt.
    - unfold CacheModel.SetDefault, CacheModel.Set_, CacheModel.expiration_prog. okt.
    - unfold CacheModel.SetForever, CacheModel.Set_, CacheModel.expiration_prog. okt.
    - unfold CacheModel.Get. apply okp_bind; [apply okp_get | intros r; destruct r; exact I].
    - unfold CacheModel.GetWithExpiration. apply okp_bind; [apply okp_get | intros r; okt].
    - unfold CacheModel.GetWithTTL. apply okp_bind; [apply okp_get | intros r; okt].
    - unfold CacheModel.GetOrSet. okt.
    - unfold CacheModel.GetAndSet. okt.
    - unfold CacheModel.GetAndRefresh. okt.
    - unfold CacheModel.GetOrCompute. okt.
    - unfold CacheModel.Compute. okt.
    - apply okp_GetAndDelete.
    - unfold CacheModel.Delete. apply okp_bind; [apply okp_GetAndDelete | intros r; exact I].
    - unfold CacheModel.DeleteExpired. cbn [CX_term.okp]. intros ec now. mc. intros r. destruct r; try exact I. apply okp_delexp.
    - apply okp_Range.
    - unfold CacheModel.Items. cbn [CX_term.okp]. mc. intros r. apply okp_Range.
    - unfold CacheModel.Clear. okt.
    - unfold CacheModel.Count. okt.
    - unfold CacheModel.GetDefaultExpiration. okt.
    - unfold CacheModel.GetEvictedCallback. okt.
    - exact I.
  Qed.
  (* ---------------- xsync_mapof.go ---------------- *)

  Lemma okp_bind_of {A B} (p : prog K V A) (f : A -> prog K V B) : okp p -> (forall r, okp (f r)) -> okp (CacheOfModel.bind p f).
  Proof.
    intros Hp Hf. induction p as [r|mo k IH|k IH|k IH|d k IH|k IH|cb k IH|e k IH]; cbn [CacheOfModel.bind CX_term.okp] in *.
    - apply Hf.
    - destruct Hp as [A1 A2]. split; [exact A1|]. intros r. apply IH. apply A2.
    - intros z. apply IH. apply Hp.
    - intros z. apply IH. apply Hp.
    - destruct Hp.
    - intros z. apply IH. apply Hp.
    - destruct Hp.
    - apply IH. exact Hp.
  Qed.

  Lemma okp_get_of k : okp (CacheOfModel.get zero k).
  Proof. unfold CacheOfModel.get. okt. Qed.

  Lemma okp_fire_of {R} ec k v (p : prog K V R) : okp p -> okp (CacheOfModel.fire ec k v p).
  Proof. intros H. unfold CacheOfModel.fire. destruct ec; cbn [CX_term.okp]; exact H. Qed.

  Lemma okp_fire_all_of {R} c l (p : prog K V R) : okp p -> okp (CacheOfModel.fire_all c l p).
  Proof. intros H. induction l as [|[k v] r IH]; cbn [CacheOfModel.fire_all CX_term.okp]; auto. Qed.

  Lemma okp_delexp_of ec now snap : forall ev, okp (CacheOfModel.delexp_loop zero ec now snap ev).
  Proof.
    induction snap as [|[k i] r IH]; intros ev; cbn [CacheOfModel.delexp_loop].
    - destruct ec; [apply okp_fire_all_of|]; exact I.
    - destruct (expiredWithNow now i); [|apply IH]. cbn [CX_term.okp]. mc. intros res.
      repeat match goal with |- context [match ?x with _ => _ end] => destruct x end; apply IH.
  Qed.

  Lemma okp_range_loop_of now f l : forall vs, okp (CacheOfModel.range_loop now f l vs).
  Proof.
    induction l as [|[k i] r IH]; intros vs; cbn [CacheOfModel.range_loop]; [exact I|].
    destruct (expiredWithNow now i); [apply IH|]. cbn [CX_term.okp]. destruct (f k (iv i)); [apply IH | exact I].
  Qed.

  Lemma okp_Range_of f hint : okp (CacheOfModel.Range eqd f hint).
  Proof. unfold CacheOfModel.Range. destruct f as [f|]; [|exact I]. cbn [CX_term.okp]. intros now. mc. intros r. destruct r; try exact I. apply okp_range_loop_of. Qed.

  Lemma okp_GetAndDelete_of k : okp (CacheOfModel.GetAndDelete zero k).
  Proof.
    unfold CacheOfModel.GetAndDelete. cbn [CX_term.okp]. mc. intros r.
    repeat match goal with |- context [match ?x with _ => _ end] => destruct x end; try exact I.
    cbn [CX_term.okp]. intros now ec. apply okp_fire_of. destruct (expiredWithNow now i); exact I.
  Qed.

  Theorem okp_cacheof o : runnable o -> okp (prog_cacheof eqd zero o).
  Proof.
    intros Hr. destruct o; cbn [runnable] in Hr; try contradiction; cbn [prog_cacheof].
    - unfold CacheOfModel.Set_, CacheOfModel.expiration_prog. okt.
    - unfold CacheOfModel.SetDefault, CacheOfModel.Set_, CacheOfModel.expiration_prog. okt.
    - unfold CacheOfModel.SetForever, CacheOfModel.Set_, CacheOfModel.expiration_prog. okt.
    - unfold CacheOfModel.Get. apply okp_bind_of; [apply okp_get_of | intros r; okt].
    - unfold CacheOfModel.GetWithExpiration. apply okp_bind_of; [apply okp_get_of | intros r; okt].
    - unfold CacheOfModel.GetWithTTL. apply okp_bind_of; [apply okp_get_of | intros r; okt].
    - unfold CacheOfModel.GetOrSet. okt.
    - unfold CacheOfModel.GetAndSet. okt.
    - unfold CacheOfModel.GetAndRefresh. okt.
    - unfold CacheOfModel.GetOrCompute. okt.
    - unfold CacheOfModel.Compute. okt.
    - apply okp_GetAndDelete_of.
    - unfold CacheOfModel.Delete. apply okp_bind_of; [apply okp_GetAndDelete_of | intros r; exact I].
    - unfold CacheOfModel.DeleteExpired. cbn [CX_term.okp]. intros ec now. mc. intros r. destruct r; try exact I. apply okp_delexp_of.
    - apply okp_Range_of.
    - unfold CacheOfModel.Items. cbn [CX_term.okp]. mc. intros r. apply okp_Range_of.
    - unfold CacheOfModel.Clear. okt.
    - unfold CacheOfModel.Count. okt.
    - unfold CacheOfModel.GetDefaultExpiration. okt.
    - unfold CacheOfModel.GetEvictedCallback. okt.
    - exact I.
  Qed.
End Texts.

(* ---------------- the statements ---------------- *)
Section StatementsT.
  Context {K V : Type}.
  Variable eqd : forall a b : K, {a = b} + {a <> b}.
  Variable hash : K -> N -> N.
  Variable idx : N -> nat -> nat.
  Variable tag : N -> N.
  Variable nslots : nat.
  Variable seeds : nat -> N.
  Variable grow_needed shrink_policy : nat -> Z -> bool.
  Variable probe : list (option N) -> N -> list nat.
  Variable nstripes : nat -> nat.
  Variable minlen : nat.
  Variable grow_only : bool.
  Variable len0 : nat.
  Variable zero : V.
  Variable sup : cmop K V -> bool.
  Variables NOW DFLT : Z.
  Variable CB : cbid.

  Notation item := (item V).
  Notation cop := (cop K V).
  Notation cres := (cres K V).
  Notation xstate := (@xstate K item).
  Notation pconf := (@CX_product2.pconf K V xstate).
  Notation px := (@p_x K V xstate).
  Notation pthr := (@p_thr K V xstate).
  Notation ptodo := (@p_todo K V xstate).
  Notation tab_at := (@tab_at K item nslots nstripes).
  Notation ginit := (@ginit K V nslots seeds nstripes len0).
  Notation XTI := (@X_term.TI K item hash idx nslots nstripes).
  Notation quiet := (@X_term.quiet_all K item hash idx nslots nstripes).
  Notation calm := (@X_term.calm K item hash idx nslots nstripes).
  Notation with_todo := (@CX_mapof.with_todo K item).

  (* every thread has returned from every call *)
  Definition all_returned (p : pconf) : Prop := forall u, pthr p u = QIdle /\ ptodo p u = [].

  (* the map machine inside is at rest: every map thread is idle (or never started) with nothing to do; nobody stands
     at a program counter that holds a bucket lock, resizeMu or the resizer role; the resizing flag is clear, resizeMu and
     every bucket lock are free *)
  Definition machine_at_rest (x : xstate) : Prop :=
    (forall u, g_todo x u = [] /\ (g_pc x u = PStart \/ g_pc x u = PIdle))
    /\ quiet x
    /\ g_resizing x = false /\ g_rmu x = None
    /\ forall tab b, tab < length (g_tabs x) -> lock_of (tab_at x tab) b = None.

  Hypothesis Hx : xhyps4 idx nstripes minlen nslots probe.
  Hypothesis Hlen : 0 < len0.
  Hypothesis Hg : X_term.ghyp grow_needed.
  Hypothesis Hall : forall mo, mo <> CSnapshot -> sup mo = true.

  Lemma quiet_free (xs : xstate) : XTI xs -> quiet xs ->
    g_resizing xs = false /\ g_rmu xs = None /\ forall tab b, tab < length (g_tabs xs) -> lock_of (tab_at xs tab) b = None.
  Proof.
    intros HT [NL [NM NR]].
    assert (Hq : forall t, X_term.qcalm hash idx nslots nstripes xs t) by (intros t u _; auto).
    destruct Hx as [[H1 [H2 H3]] _].
    split; [apply (X_term.calm_flag hash idx nslots nstripes xs 0 HT (Hq 0) (NR 0))|]. split.
    - destruct (g_rmu xs) as [u|] eqn:E; [|reflexivity]. exfalso.
      pose proof (X_term.calm_mu hash idx nslots nstripes xs (S u) u HT (Hq (S u)) E). lia.
    - intros tab b Htab. destruct (lock_of (tab_at xs tab) b) as [u|] eqn:E; [|reflexivity]. exfalso.
      pose proof (X_term.calm_lock hash idx nslots nstripes xs (S u) tab b u HT (Hq (S u)) Htab E). lia.
  Qed.

  Section OneText.
    Variable progs : cop -> prog K V cres.
    Hypothesis Hprogs : forall o, runnable o -> okp sup (progs o).
    Notation pafter := (@pafter K V eqd hash idx tag nslots seeds grow_needed shrink_policy probe nstripes minlen grow_only progs NOW DFLT CB sup).
    Notation pouts := (@pouts K V eqd hash idx tag nslots seeds grow_needed shrink_policy probe nstripes minlen grow_only progs NOW DFLT CB sup).
    Notation Reach := (@Reach K V eqd hash idx tag nslots seeds grow_needed shrink_policy probe nstripes minlen grow_only len0).

    Theorem can_always_finish_text cands (todo0 : nat -> list cop) sched0 :
      (forall u, Forall runnable (todo0 u)) -> (forall u, ~ In u cands -> todo0 u = []) ->
      exists cont, let p' := pafter (pafter (ginit todo0) sched0) cont in all_returned p' /\ machine_at_rest (px p').
    Proof.
      intros Hrun Hsupp.
      destruct (cache_can_always_finish eqd hash idx tag nslots seeds grow_needed shrink_policy probe nstripes minlen grow_only len0 progs NOW DFLT CB sup
                  Hx Hlen Hg cands todo0 sched0) as [cont [A [B C]]]; [|exact Hsupp|].
      { intros u. eapply Forall_impl; [|apply Hrun]. intros o Ho. apply Hprogs. exact Ho. }
      exists cont. cbv zeta in *. split; [exact A|]. split; [exact B|]. split; [exact C|].
      set (p' := pafter (pafter (ginit todo0) sched0) cont) in *.
      assert (HR : Reach (px p') (plabs eqd hash idx tag nslots seeds grow_needed shrink_policy probe nstripes minlen grow_only progs NOW DFLT CB sup (ginit todo0) (sched0 ++ cont))).
      { unfold p'. rewrite <- pafter_app. apply Reach_from_init. }
      destruct (reach_sim eqd hash idx tag nslots seeds grow_needed shrink_policy probe nstripes minlen grow_only len0 Hx Hlen p' _ HR) as [xs [[td [Exs Htd]] HXT]].
      assert (Hq : quiet xs) by (rewrite Exs; apply (proj2 (quiet_wtodo hash idx nslots nstripes (px p') td)); exact C).
      destruct (quiet_free xs HXT Hq) as [F1 [F2 F3]]. rewrite Exs in F1, F2, F3. auto.
    Qed.

    Theorem solo_call_completes_text (todo0 : nat -> list cop) sched0 t o rest :
      let p := pafter (ginit todo0) sched0 in
      calm (px p) t -> pthr p t = QIdle -> ptodo p t = o :: rest -> runnable o ->
      exists n r, let p' := pafter p (repeat t n) in
        pthr p' t = QIdle /\ ptodo p' t = rest
        /\ (forall u, u <> t -> pthr p' u = pthr p u /\ ptodo p' u = ptodo p u)
        /\ cproj (pouts p (repeat t n)) = [HInv t o; HRes t r]
        /\ calm (px p') t.
    Proof.
      intros p Hc Eq Etd Ho.
      assert (Hgd : good eqd hash idx tag nslots seeds grow_needed shrink_policy probe nstripes minlen grow_only len0 NOW DFLT t p).
      { split; [eexists; apply Reach_from_init|]. split; [apply TI_run; apply TI_init | exact Hc]. }
      destruct (solo_call_completes eqd hash idx tag nslots seeds grow_needed shrink_policy probe nstripes minlen grow_only len0 progs NOW DFLT CB sup
                  Hx Hlen Hg t p o rest Hgd Eq Etd (Hprogs o Ho)) as [n [r [A [B [C [D [_ [_ F]]]]]]]].
      exists n, r. cbv zeta. auto.
    Qed.
  End OneText.

  (* ---------------- xsync_map.go ---------------- *)
  Definition cache_can_always_finish_mapof := can_always_finish_text (prog_cache eqd zero) (okp_cache eqd zero sup Hall).
  Definition cache_solo_call_completes_mapof := solo_call_completes_text (prog_cache eqd zero) (okp_cache eqd zero sup Hall).
  (* ---------------- xsync_mapof.go ---------------- *)
  Definition cacheof_can_always_finish_mapof := can_always_finish_text (prog_cacheof eqd zero) (okp_cacheof eqd zero sup Hall).
  Definition cacheof_solo_call_completes_mapof := solo_call_completes_text (prog_cacheof eqd zero) (okp_cacheof eqd zero sup Hall).

End StatementsT.

Print Assumptions cache_can_always_finish_mapof.
Print Assumptions cache_solo_call_completes_mapof.
Print Assumptions cacheof_can_always_finish_mapof.
Print Assumptions cacheof_solo_call_completes_mapof.
