(* X_fn.v -- the user function of Compute / LoadOrCompute on XMachine (MapOf), every
   schedule (C05): between the invocation of a call and its return the function is
   evaluated AT MOST ONCE -- whatever retries the call goes through (bucket found
   locked by a resize, table replaced meanwhile, chain full -> grow -> retry, waiting
   for another thread's resize) and whatever the other threads do.
   The function is evaluated in the step that decides the call (under the bucket
   lock, after the checks of the resizing flag and of the table pointer); from that
   step on the call only stores, unlocks, adds to the counter, possibly runs a
   shrink, and returns: it never comes back to a program counter from which a
   decision step is reachable. *)
From CacheV Require Import Base SpecMap XMachine.
From CacheV.proofs Require Import X_basic X_inv X_c13 X_own X_chain X_c04 X_lin X_resize.
From Coq Require Import NArith.
Local Open Scope nat_scope.

Section Fn.
  Context {K V : Type}.
  Variable eqd : forall a b : K, {a = b} + {a <> b}.
  Variable hash : K -> N -> N.
  Variable idx : N -> nat -> nat.
  Variable tag : N -> N.
  Variable nslots : nat.
  Variable seeds : nat -> N.
  Variable grow_needed : nat -> Z -> bool.
  Variable shrink_policy : nat -> Z -> bool.
  Variable probe : list (option N) -> N -> list nat.
  Variable nstripes : nat -> nat.
  Variable minlen : nat.
  Variable grow_only : bool.

  Notation xstate := (@xstate K V).
  Notation pc := (@pc K V).
  Notation xlabel := (@xlabel K V).
  Notation step_pc := (@step_pc K V eqd hash idx tag nslots seeds grow_needed shrink_policy probe nstripes minlen grow_only).
  Notation xstep := (@xstep K V eqd hash idx tag nslots seeds grow_needed shrink_policy probe nstripes minlen grow_only).
  Notation xrun := (@xrun K V eqd hash idx tag nslots seeds grow_needed shrink_policy probe nstripes minlen grow_only).

  (* evaluations of the user function by thread t since its last invocation *)
  Fixpoint fnc (t : nat) (acc : nat) (ls : list xlabel) : nat :=
    match ls with
    | [] => acc
    | XMachine.XInv u _ :: r => if Nat.eq_dec u t then fnc t 0 r else fnc t acc r
    | XFn u _ :: r => if Nat.eq_dec u t then fnc t (S acc) r else fnc t acc r
    | _ :: r => fnc t acc r
    end.

  Lemma fnc_app t ls1 : forall acc ls2, fnc t acc (ls1 ++ ls2) = fnc t (fnc t acc ls1) ls2.
  Proof.
    induction ls1 as [|l r IH]; intros acc ls2; [reflexivity|].
    destruct l; cbn [app fnc]; try apply IH; destruct (Nat.eq_dec _ t); apply IH.
  Qed.

  Definition kdone (kt : @cont K V) : bool := match kt with KReturn _ => true | KRetry _ => false end.
  Definition ldone (lc : @lcont K V) : bool := match lc with LPlain => true | LFast _ => false end.

  (* no decision step of the current call is reachable from p any more *)
  Fixpoint cdone (p : pc) : bool :=
    match p with
    | PW_Table _ | PW_Lock _ _ | PW_ChkRes _ _ | PW_ChkTab _ _ | PW_Sum _ _ _ _ => false
    | PW_Unlock _ _ a | PW_Add _ _ _ a => cdone a
    | PL_Table _ lc | PL_Meta _ lc _ _ _ | PL_Ent _ lc _ _ _ _ | PL_Next _ lc _ _ _ => ldone lc
    | PR_FastSum _ kt _ _ | PR_CAS _ kt | PR_Table _ kt | PR_ShSum kt _ _ _ | PR_Stat _ kt _
    | PR_CpLock _ kt _ _ _ | PR_CpUnlock _ kt _ _ _ | PR_Publish kt _
    | PR_FinLock kt | PR_FinStore kt | PR_FinBcast kt | PR_FinUnlock kt => kdone kt
    | PT_Lock _ kt | PT_Load _ kt | PT_Wait _ kt | PT_Waiting _ kt | PT_Relock _ kt | PT_Unlock _ kt => kdone kt
    | _ => true
    end.

  Lemma cdone_wake (p : pc) : cdone (wake p) = cdone p.
  Proof. destruct p; reflexivity. Qed.
  Lemma cdone_norm (p : pc) : cdone (norm p) = cdone p.
  Proof. destruct p; reflexivity. Qed.
  Lemma cdone_cont kt : cdone (@run_cont K V kt) = kdone kt.
  Proof. destruct kt; reflexivity. Qed.

  Lemma some_pair4 {A B} (g : A * B) a b : Some g = Some (a, b) -> a = fst g /\ b = snd g.
  Proof. intros H. inversion H. auto. Qed.
  Lemma goto_labels4 (s : xstate) t p ls :
    snd (goto s t p ls) = match p with PRet r => ls ++ [XRes t r] | _ => ls end.
  Proof. destruct p; reflexivity. Qed.
  Lemma goto_state4 (s : xstate) t p ls : fst (goto s t p ls) = set_pc s t (norm p).
  Proof. destruct p; reflexivity. Qed.

  Ltac step_cases4 Hs :=
    cbn [XMachine.step_pc] in Hs; cbv zeta in Hs;
    repeat match type of Hs with
           | context [match ?x with _ => _ end] => destruct x eqn:?
           end;
    try discriminate; apply some_pair4 in Hs; destruct Hs as [? ?]; subst;
    rewrite ?goto_state4, ?goto_labels4; cbn [fst].

  (* what a step adds to the count, and what it does to [cdone] *)
  Definition fn_effect (t : nat) (p p' : pc) (ls : list xlabel) (d : nat) : Prop :=
    (forall u acc, fnc u acc ls = if Nat.eq_dec u t then acc + d else acc)
    /\ ((d = 0 /\ (cdone p = true -> cdone p' = true)) \/ (d = 1 /\ cdone p = false /\ cdone p' = true)).

  Lemma fnc_ret u acc t (q : pc) (ls : list xlabel) :
    fnc u acc (match q with PRet r => ls ++ [XRes t r] | _ => ls end) = fnc u acc ls.
  Proof. destruct q; try reflexivity. rewrite fnc_app. reflexivity. Qed.

  Lemma eff0 t (p p' : pc) ls : (forall u acc, fnc u acc ls = acc) -> (cdone p = true -> cdone p' = true) -> exists d, fn_effect t p p' ls d.
  Proof.
    intros H1 H2. exists 0. split; [|left; auto]. intros u acc. rewrite H1. destruct (Nat.eq_dec u t); lia.
  Qed.

  Lemma eff1 t (p p' : pc) k : cdone p = false -> cdone p' = true -> forall l0, (forall u acc, fnc u acc [l0] = acc) ->
    exists d, fn_effect t p p' (l0 :: [XFn t k]) d.
  Proof.
    intros H1 H2 l0 Hl. exists 1. split; [|right; auto]. intros u acc.
    change (l0 :: [XFn t k]) with ([l0] ++ [XFn t k]). rewrite fnc_app, Hl. cbn [fnc].
    destruct (Nat.eq_dec t u) as [->|Hne].
    - destruct (Nat.eq_dec u u); [lia | congruence].
    - destruct (Nat.eq_dec u t); [congruence | reflexivity].
  Qed.

  Lemma fnc_visits u t (snap : list (K * V)) : forall a, fnc u a (map (fun kv => XVisit t (fst kv) (snd kv)) snap) = a.
  Proof. induction snap as [|kv r IH]; intros a; [reflexivity|]. cbn [map fnc]. apply IH. Qed.

  Lemma step_fn s t p s' ls : step_pc s t p = Some (s', ls) -> exists d, fn_effect t p (g_pc s' t) ls d.
  Proof.
    intros Hs.
    destruct p; step_cases4 Hs; cbn [set_pc g_pc]; (destruct (Nat.eq_dec t t) as [_|Hc]; [|exfalso; apply Hc; reflexivity]);
      rewrite ?cdone_norm; cbn [norm];
      try (apply eff0; [intros u9 a9; rewrite ?fnc_ret; cbn [fnc app]; rewrite ?fnc_app, ?fnc_visits; reflexivity
                       | rewrite ?cdone_norm; cbn [cdone kdone ldone]; rewrite ?cdone_cont; auto; fail]).
    all: try (unfold fnev_of; destruct (cx_ev cx);
              [ apply eff1; [reflexivity | reflexivity | intros u9 a9; reflexivity]
              | apply eff0; [intros u9 a9; reflexivity | cbn [cdone]; auto] ]).
  Qed.

  (* ---------------- the invariant over state and trace ---------------- *)

  Definition FN (s : xstate) (ls : list xlabel) : Prop :=
    forall t, fnc t 0 ls <= 1 /\ (cdone (g_pc s t) = false -> fnc t 0 ls = 0).

  Lemma step_others4 s t p s' ls : step_pc s t p = Some (s', ls) -> valid hash idx nslots nstripes s p ->
    forall u, u <> t -> g_pc s' u = g_pc s u \/ g_pc s' u = wake (g_pc s u).
  Proof.
    intros Hs Hv.
    destruct (step_misc eqd hash idx tag nslots seeds grow_needed shrink_policy probe nstripes minlen grow_only s t p s' ls Hs Hv) as [_ [_ [_ H]]].
    exact H.
  Qed.

  Lemma FN_step_pc s ls0 t p s' ls : valid hash idx nslots nstripes s p -> FN s ls0 ->
    g_pc s t = p -> step_pc s t p = Some (s', ls) -> FN s' (ls0 ++ ls).
  Proof.
    intros Hv HF Hp Hs u. rewrite fnc_app.
    destruct (step_fn s t p s' ls Hs) as [d [Hc Hd]]. rewrite Hc.
    destruct (HF u) as [F1 F2].
    destruct (Nat.eq_dec u t) as [->|Hne].
    - rewrite Hp in F2. destruct Hd as [[-> Hdn]|[-> [Hf Hdn]]].
      + rewrite Nat.add_0_r. split; [exact F1|]. intros Hnd. apply F2.
        destruct (cdone p) eqn:E; [|reflexivity]. rewrite (Hdn eq_refl) in Hnd. discriminate.
      + rewrite (F2 Hf). split; [cbn; lia|]. intros Hnd. rewrite Hdn in Hnd. discriminate.
    - split; [exact F1|]. intros Hnd. apply F2.
      destruct (step_others4 s t p s' ls Hs Hv u Hne) as [E|E]; rewrite E in Hnd; [exact Hnd | rewrite cdone_wake in Hnd; exact Hnd].
  Qed.

End Fn.

Section FnReach.
  Context {K V : Type}.
  Variable eqd : forall a b : K, {a = b} + {a <> b}.
  Variable hash : K -> N -> N.
  Variable idx : N -> nat -> nat.
  Variable tag : N -> N.
  Variable nslots : nat.
  Variable seeds : nat -> N.
  Variable grow_needed : nat -> Z -> bool.
  Variable shrink_policy : nat -> Z -> bool.
  Variable probe : list (option N) -> N -> list nat.
  Variable nstripes : nat -> nat.
  Variable minlen : nat.
  Variable grow_only : bool.

  Hypothesis Hidx : forall h len, 0 < len -> idx h len < len.
  Hypothesis Hstripes : forall len, 0 < nstripes len.
  Hypothesis Hminlen : 0 < minlen.

  Notation xstate := (@xstate K V).
  Notation pc := (@pc K V).
  Notation xlabel := (@xlabel K V).
  Notation step_pc := (@step_pc K V eqd hash idx tag nslots seeds grow_needed shrink_policy probe nstripes minlen grow_only).
  Notation xstep := (@xstep K V eqd hash idx tag nslots seeds grow_needed shrink_policy probe nstripes minlen grow_only).
  Notation xrun := (@xrun K V eqd hash idx tag nslots seeds grow_needed shrink_policy probe nstripes minlen grow_only).
  Notation XInv := (@X_inv.XInv K V hash idx nslots nstripes).
  Notation FN := (@FN K V).

  Lemma FN_xstep s ls0 t s' ls : XInv s -> FN s ls0 -> xstep s t = Some (s', ls) -> FN s' (ls0 ++ ls).
  Proof.
    intros HI HF E. unfold XMachine.xstep in E.
    destruct (g_pc s t) eqn:Hp;
      try (eapply (FN_step_pc eqd hash idx tag nslots seeds grow_needed shrink_policy probe nstripes minlen grow_only);
           [ | exact HF | exact Hp | exact E]; rewrite <- Hp; apply (xi_valid _ _ _ _ s HI t)).
    destruct (g_todo s t) as [|o rest]; [discriminate|].
    set (s1 := {| g_tabs := g_tabs s; g_cur := g_cur s; g_resizing := g_resizing s; g_rmu := g_rmu s;
                  g_growths := g_growths s; g_shrinks := g_shrinks s;
                  g_pc := fun t' => if Nat.eq_dec t' t then start_pc o else g_pc s t';
                  g_todo := fun t' => if Nat.eq_dec t' t then rest else g_todo s t' |}) in *.
    assert (HF1 : FN s1 (ls0 ++ [XMachine.XInv t o])).
    { intros u. rewrite fnc_app. cbn [fnc]. unfold s1. cbn [g_pc].
      destruct (Nat.eq_dec t u) as [->|Hne].
      - destruct (Nat.eq_dec u u) as [_|Hc]; [|exfalso; apply Hc; reflexivity]. split; [lia | reflexivity].
      - destruct (Nat.eq_dec u t) as [Hc|_]; [exfalso; apply Hne; congruence|]. apply HF. }
    assert (Epc : g_pc s1 t = start_pc o) by (unfold s1; cbn [g_pc]; destruct (Nat.eq_dec t t); congruence).
    assert (Hv1 : valid hash idx nslots nstripes s1 (start_pc o)).
    { destruct o; cbn; auto; try (destruct lie; cbn; auto). }
    destruct (step_pc s1 t (start_pc o)) as [[s2 ls1]|] eqn:E2.
    - inversion E; subst s2 ls. change (ls0 ++ XMachine.XInv t o :: ls1) with (ls0 ++ [XMachine.XInv t o] ++ ls1). rewrite app_assoc.
      eapply (FN_step_pc eqd hash idx tag nslots seeds grow_needed shrink_policy probe nstripes minlen grow_only); [exact Hv1 | exact HF1 | exact Epc | exact E2].
    - inversion E; subst s' ls. exact HF1.
  Qed.

  Lemma FN_xrun sched : forall s ls0, XInv s -> FN s ls0 -> FN (fst (xrun s sched)) (ls0 ++ snd (xrun s sched)).
  Proof.
    induction sched as [|t rest IH]; intros s ls0 HI HF; cbn [XMachine.xrun]; [cbn [fst snd]; rewrite app_nil_r; exact HF|].
    destruct (xstep s t) as [[s' ls]|] eqn:E.
    - pose proof (xstep_inv eqd hash idx tag nslots seeds grow_needed shrink_policy probe nstripes minlen grow_only Hidx Hstripes Hminlen s t s' ls HI E) as HI'.
      specialize (IH s' (ls0 ++ ls) HI' (FN_xstep s ls0 t s' ls HI HF E)).
      destruct (XMachine.xrun _ _ _ _ _ _ _ _ _ _ _ _ s' rest) as [s'' ls']. cbn [fst snd] in *. rewrite app_assoc. exact IH.
    - apply IH; assumption.
  Qed.

  (* C05 on every schedule: between invocation and return (and after it, until the next
     invocation) a thread has evaluated the user function at most once; as long as a decision
     step of its current call is still reachable it has not evaluated it at all *)
  Theorem fn_at_most_once len0 todo sched t : 0 < len0 ->
    let r := xrun (xinit nslots seeds nstripes len0 todo) sched in
    fnc t 0 (snd r) <= 1 /\ (cdone (g_pc (fst r) t) = false -> fnc t 0 (snd r) = 0).
  Proof.
    intros Hl r.
    pose proof (FN_xrun sched (xinit nslots seeds nstripes len0 todo) []) as H. cbn [app] in H. apply H.
    - eapply xinit_inv; eassumption.
    - intros u. cbn. split; [lia | discriminate].
  Qed.
End FnReach.
