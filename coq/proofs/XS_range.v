(* XS_range.v -- Range of XMachineS (Map, map.go) under every schedule (C07).
   The traversal loads m.table once, and for every root bucket of THAT table: takes the
   bucket's spin lock, copies the pairs of the chain (plain reads), unlocks, and calls
   the visitor on the copied pairs.  The visitor may call the map (Store / Delete ...:
   [SRange vf] with [vf k v = Some cx]): the call runs on the same thread between two
   visits, the pairs still to visit wait in the Range frame [h_frame], and the visits go
   on when the call returns (labels SVisit .. SSubInv .. SSubRes .. SVisit ..).
     range_once      the visits a thread has made since its last invocation (the visits
                     of the OUTER Range: SSubInv / SSubRes do not reset them) have pairwise
                     distinct keys -- for EVERY visitor, mutating or not, and whatever the
                     other threads do (stores, deletes, grows, shrinks, Clear): a key's home
                     bucket in the traversed table is fixed, every bucket is copied once,
                     under its lock, and a locked chain holds each key once;
     range_snapshot  the pairs copied under the lock of bucket b are exactly the pairs a
                     lock-free reader can find in bucket b of the traversed table while the
                     lock is held (no phantom, nothing of the bucket missed);
     range_start / range_lock / range_visits / range_resume   the steps of the traversal;
     range_complete  a pair that is visible in the traversed table in every state the run
                     goes through is visited by the time the traversing thread is idle. *)
From CacheV Require Import Base SpecMap XMachineS.
From CacheV.proofs Require Import X_maps XS_inv XS_lock XS_own XS_count XS_cells XS_vis XS_abs XS_read XS_fn XS_size.
From Coq Require Import NArith Lia.
Local Open Scope nat_scope.

Section SRange.
  Context {K V : Type}.
  Variable eqd : forall a b : K, {a = b} + {a <> b}.
  Variable hash : K -> N -> N.
  Variable idx : N -> nat -> nat.
  Variable tophash : N -> N.
  Variable nslots : nat.
  Variable seeds : nat -> N.
  Variable grow_needed : nat -> Z -> bool.
  Variable shrink_policy : nat -> Z -> bool.
  Variable nstripes : nat -> nat.
  Variable minlen : nat.
  Variable grow_only : bool.

  Notation mslot := (@mslot K V).
  Notation mtable := (@mtable K V).
  Notation mstate := (@mstate K V).
  Notation spc := (@spc K V).
  Notation slabel := (@slabel K V).
  Notation rframe := (@rframe K V).
  Notation empty_mslot := (@empty_mslot K V).
  Notation sstep_pc := (@sstep_pc K V eqd hash idx tophash nslots seeds grow_needed shrink_policy nstripes minlen grow_only).
  Notation sstep := (@sstep K V eqd hash idx tophash nslots seeds grow_needed shrink_policy nstripes minlen grow_only).
  Notation srun := (@srun K V eqd hash idx tophash nslots seeds grow_needed shrink_policy nstripes minlen grow_only).
  Notation stab_at := (@stab_at K V nslots nstripes).
  Notation shome := (@shome K V hash idx).
  Notation tabT := (@tabT K V nslots nstripes).
  Notation sinvoke := (@sinvoke K V).
  Notation XB := (@XB K V hash idx tophash nslots nstripes).
  Notation XL := (@XL K V hash idx nslots nstripes).
  Notation XF := (@XF K V).
  Notation svis := (@svis K V hash idx tophash nslots).
  Notation lby := (@lby K V).
  Notation sextT := (@sextT K V nslots nstripes).

  (* ---------------- the visits of a thread since its last invocation ---------------- *)

  Fixpoint cv (t : nat) (acc : list (K * V)) (ls : list slabel) : list (K * V) :=
    match ls with
    | [] => acc
    | SInv u _ :: r => if Nat.eq_dec u t then cv t [] r else cv t acc r
    | SVisit u k v :: r => if Nat.eq_dec u t then cv t (acc ++ [(k, v)]) r else cv t acc r
    | _ :: r => cv t acc r
    end.

  Lemma cv_app t ls1 : forall acc ls2, cv t acc (ls1 ++ ls2) = cv t (cv t acc ls1) ls2.
  Proof.
    induction ls1 as [|l r IH]; intros acc ls2; [reflexivity|].
    destruct l; cbn [app cv]; try apply IH; destruct (Nat.eq_dec _ t); apply IH.
  Qed.

  (* a label that is neither an invocation nor a visit *)
  Definition plainl (l : slabel) : Prop := match l with SInv _ _ | SVisit _ _ _ => False | _ => True end.

  Lemma cv_plain t ls : Forall plainl ls -> forall acc, cv t acc ls = acc.
  Proof.
    induction 1 as [|l r Hl _ IH]; intros acc; [reflexivity|].
    destruct l; cbn [cv plainl] in *; try contradiction; apply IH.
  Qed.

  Lemma cv_other t u ls : u <> t -> Forall (lby t) ls -> forall acc, cv u acc ls = acc.
  Proof.
    intros Hne H. induction H as [|l r Hl _ IH]; intros acc; [reflexivity|].
    destruct l; cbn [cv XS_fn.lby] in *; try apply IH; (destruct (Nat.eq_dec _ u) as [E|_]; [exfalso; apply Hne; congruence | apply IH]).
  Qed.

  (* [cv] continues from an accumulator: what is added does not depend on it, unless the thread is invoked anew *)
  Definition noinv (t : nat) (l : slabel) : Prop := match l with SInv u _ => u <> t | _ => True end.

  Lemma cv_acc t ls : Forall (noinv t) ls -> forall acc, cv t acc ls = acc ++ cv t [] ls.
  Proof.
    induction 1 as [|l r Hl _ IH]; intros acc; [cbn; rewrite app_nil_r; reflexivity|].
    destruct l; cbn [cv noinv] in *; try apply IH.
    - destruct (Nat.eq_dec t0 t); [contradiction | apply IH].
    - destruct (Nat.eq_dec t0 t); [|apply IH]. rewrite IH, (IH ([] ++ [(k, v)])). cbn [app]. rewrite <- app_assoc. reflexivity.
  Qed.

  (* ---------------- where a Range stands ---------------- *)

  Definition lkr (lk : @lockk K V) : bool := match lk with LKRange _ => true | _ => false end.

  Inductive rkind :=
  | RK_No
  | RK_Table                                                      (* before LoadPointer m.table *)
  | RK_Lock (tab b : nat)                                          (* in lockBucket of bucket b *)
  | RK_Snap (tab b : nat) (snap : list (K * V)) (a : spc).         (* bucket b locked and copied; unlockBucket *)

  Definition rk (p : spc) : rkind :=
    match p with
    | QG_Table _ => RK_Table
    | QK_Load tab b lk | QK_Spin tab b lk | QK_CAS tab b _ lk | QK_Yield tab b lk => if lkr lk then RK_Lock tab b else RK_No
    | QU_Load tab b (Some (snap, _)) a | QU_Store tab b _ (Some (snap, _)) a => RK_Snap tab b snap a
    | _ => RK_No
    end.

  (* not a program counter of Range itself, continuations included *)
  Fixpoint not_rg (p : spc) : Prop :=
    match p with
    | QG_Table _ => False
    | QK_Load _ _ lk | QK_Spin _ _ lk | QK_CAS _ _ _ lk | QK_Yield _ _ lk => lkr lk = false
    | QU_Load _ _ rg a | QU_Store _ _ _ rg a => rg = None /\ not_rg a
    | QA_Add _ _ _ a => not_rg a
    | _ => True
    end.

  Lemma not_rg_rk (p : spc) : not_rg p -> rk p = RK_No.
  Proof. destruct p; cbn [not_rg rk]; intros H; try reflexivity; try contradiction; try (rewrite H; reflexivity); destruct H as [-> _]; reflexivity. Qed.

  (* where Range goes on after the visits: Some (Some (tab, b)) = lockBucket of bucket b; Some None = it returns *)
  Definition gb (a : spc) : option (option (nat * nat)) :=
    match a with
    | QK_Load tab b lk => if lkr lk then Some (Some (tab, b)) else None
    | QRet _ => Some None
    | _ => None
    end.

  Definition hm (T : list mtable) (tab : nat) (k : K) : nat := shome (tabT T tab) k.

  (* visited pairs vs and pairs still to visit pend: pairwise distinct keys, all of buckets before the next one *)
  Definition G (T : list mtable) (vs pend : list (K * V)) (o : option (option (nat * nat))) : Prop :=
    NoDup (map fst (vs ++ pend))
    /\ match o with
       | Some (Some (tab, b)) => tab < length T /\ forall k v, In (k, v) (vs ++ pend) -> hm T tab k < b
       | Some None => True
       | None => False
       end.

  Definition rvfact (T : list mtable) (fr : option rframe) (p : spc) (vs : list (K * V)) : Prop :=
    match fr with
    | Some f => G T vs (rf_rest f) (gb (rf_after f)) /\ not_rg p
    | None =>
        match rk p with
        | RK_Table => vs = []
        | RK_Lock tab b => G T vs [] (Some (Some (tab, b)))
        | RK_Snap tab b snap a => G T vs snap (gb a) /\ snap = slive_pairs (schain_of (tabT T tab) b)
        | RK_No => NoDup (map fst vs) /\ not_rg p
        end
    end.

  Definition RV (s : mstate) (ls : list slabel) : Prop :=
    forall t, rvfact (h_tabs s) (h_frame s t) (h_pc s t) (cv t [] ls).

  Lemma NoDup_app_l {A} (a b : list A) : NoDup (a ++ b) -> NoDup a.
  Proof. induction a as [|x r IH]; cbn; intros H; [constructor|]. inversion H; subst. constructor; [intros Hi; apply H2; apply in_or_app; left; exact Hi | apply IH; exact H3]. Qed.

  Lemma G_nodup T vs pend o : G T vs pend o -> NoDup (map fst vs).
  Proof. intros [H _]. rewrite map_app in H. apply (NoDup_app_l _ _ H). Qed.

  Lemma rv_nodup T fr p vs : rvfact T fr p vs -> NoDup (map fst vs).
  Proof.
    unfold rvfact. destruct fr as [f|].
    - intros [H _]. apply (G_nodup _ _ _ _ H).
    - destruct (rk p); intros H; [apply H | subst vs; constructor | apply (G_nodup _ _ _ _ H) | apply (G_nodup _ _ _ _ (proj1 H))].
  Qed.

  (* with a program counter that is not Range's the fact is about the frame alone *)
  Definition rbase (T : list mtable) (fr : option rframe) (vs : list (K * V)) : Prop :=
    match fr with Some f => G T vs (rf_rest f) (gb (rf_after f)) | None => NoDup (map fst vs) end.

  Lemma rv_notrg T fr p vs : not_rg p -> (rvfact T fr p vs <-> rbase T fr vs).
  Proof.
    intros Hn. unfold rvfact, rbase. destruct fr as [f|]; [tauto|]. rewrite (not_rg_rk p Hn). tauto.
  Qed.

  Lemma rv_split T fr p vs : rvfact T fr p vs -> (not_rg p /\ rbase T fr vs) \/ (fr = None /\ rk p <> RK_No).
  Proof.
    unfold rvfact, rbase. destruct fr as [f|]; [intros [A B]; left; auto|].
    destruct (rk p) eqn:E; intros H; try (right; split; [reflexivity | discriminate]). left. destruct H; auto.
  Qed.

  (* tables only grow in number, length and seed of a table never change: homes are stable *)
  Lemma hm_ext T T' tab k : sextT T T' -> tab < length T -> hm T' tab k = hm T tab k.
  Proof. intros [_ H] Ht. destruct (H tab Ht) as [A B]. unfold hm. apply (shome_ext hash idx); assumption. Qed.

  Lemma G_ext T T' vs pend o : sextT T T' -> G T vs pend o -> G T' vs pend o.
  Proof.
    intros HE [A B]. split; [exact A|]. destruct o as [[[tab b]|]|]; auto. destruct B as [B1 B2].
    split; [destruct HE; lia|]. intros k v Hin. rewrite (hm_ext T T' tab k HE B1). apply (B2 k v Hin).
  Qed.

  Lemma rbase_ext T T' fr vs : sextT T T' -> rbase T fr vs -> rbase T' fr vs.
  Proof. intros HE. unfold rbase. destruct fr; [apply G_ext; exact HE | auto]. Qed.

  Lemma rv_ext T T' fr p vs : sextT T T' ->
    (forall tab b snap a, fr = None -> rk p = RK_Snap tab b snap a -> schain_of (tabT T' tab) b = schain_of (tabT T tab) b) ->
    rvfact T fr p vs -> rvfact T' fr p vs.
  Proof.
    intros HE Hc. unfold rvfact. destruct fr as [f|]; [intros [A B]; split; [eapply G_ext; eassumption | exact B]|].
    destruct (rk p) eqn:E; auto.
    - apply G_ext; exact HE.
    - intros [A B]. split; [eapply G_ext; eassumption|]. rewrite (Hc tab b snap a eq_refl eq_refl). exact B.
  Qed.

  Lemma rk_wake (p : spc) : rk (swake p) = rk p.
  Proof. destruct p; reflexivity. Qed.
  Lemma not_rg_wake (p : spc) : not_rg (swake p) <-> not_rg p.
  Proof. destruct p; cbn; tauto. Qed.

  Lemma rv_wake T fr p vs : rvfact T fr p vs -> rvfact T fr (swake p) vs.
  Proof. unfold rvfact. rewrite rk_wake. destruct fr; [intros [A B]; split; [exact A | apply not_rg_wake; exact B]|]. destruct (rk p); auto. intros [A B]. split; [exact A | apply not_rg_wake; exact B]. Qed.

  Lemma start_cx_notrg (cx : @scx K V) : not_rg (sstart_cx cx).
  Proof. unfold sstart_cx. destruct (sc_lie cx); exact I. Qed.

  (* all visits of thread t in a trace *)
  Fixpoint allvis (t : nat) (ls : list slabel) : list (K * V) :=
    match ls with
    | [] => []
    | SVisit u k v :: r => if Nat.eq_dec u t then (k, v) :: allvis t r else allvis t r
    | _ :: r => allvis t r
    end.

  Lemma allvis_app t l1 l2 : allvis t (l1 ++ l2) = allvis t l1 ++ allvis t l2.
  Proof.
    induction l1 as [|l r IH]; [reflexivity|]. destruct l; cbn [app allvis]; try exact IH.
    destruct (Nat.eq_dec t0 t); [cbn [app]; rewrite IH; reflexivity | exact IH].
  Qed.

  (* ---------------- the visits: [svisits] and the return into a Range ---------------- *)

  (* what the visits of one call of [svisits] are, and where they stop *)
  Lemma svisits_cv (S0 : mstate) t pend vf after : forall ls0,
    exists pre post, pend = pre ++ post
      /\ snd (svisits S0 t pend vf after ls0) = ls0 ++ snd (svisits S0 t pend vf after [])
      /\ (forall acc, cv t acc (snd (svisits S0 t pend vf after [])) = acc ++ pre)
      /\ allvis t (snd (svisits S0 t pend vf after [])) = pre
      /\ ((post = [] /\ h_frame (fst (svisits S0 t pend vf after ls0)) t = None
           /\ h_pc (fst (svisits S0 t pend vf after ls0)) t = match after with QRet _ => QIdle | _ => after end)
          \/ (exists cx, h_frame (fst (svisits S0 t pend vf after ls0)) t = Some {| rf_rest := post; rf_vf := vf; rf_after := after |}
                         /\ h_pc (fst (svisits S0 t pend vf after ls0)) t = sstart_cx cx)).
  Proof.
    induction pend as [|[k v] r IH]; intros ls0; cbn [svisits].
    - exists [], []. split; [reflexivity|].
      destruct after; cbn [fst snd sset_pc sset_frame h_pc h_frame]; (destruct (Nat.eq_dec t t) as [_|Hc]; [|exfalso; apply Hc; reflexivity]);
        (split; [rewrite ?app_nil_r; reflexivity|]); (split; [intros a9; cbn [cv app]; rewrite app_nil_r; reflexivity|]);
        (split; [reflexivity|]); left; auto.
    - destruct (vf k v) as [cx|] eqn:Ev.
      + exists [(k, v)], r. split; [reflexivity|]. cbn [fst snd sset_pc sset_frame h_pc h_frame app].
        destruct (Nat.eq_dec t t) as [_|Hc]; [|exfalso; apply Hc; reflexivity].
        split; [reflexivity|]. split; [intros a9; cbn [cv]; destruct (Nat.eq_dec t t) as [_|Hc]; [reflexivity | exfalso; apply Hc; reflexivity]|].
        split; [cbn [allvis]; destruct (Nat.eq_dec t t) as [_|Hc]; [reflexivity | exfalso; apply Hc; reflexivity]|].
        right. exists cx. split; reflexivity.
      + destruct (IH (ls0 ++ [SVisit t k v])) as [pre [post [E [L [C [A D]]]]]].
        destruct (IH ([] ++ [SVisit t k v])) as [pre' [post' [E' [L' _]]]].
        exists ((k, v) :: pre), post. split; [rewrite E; reflexivity|].
        split; [rewrite L, L'; cbn [app]; rewrite <- app_assoc; reflexivity|].
        split; [intros a9; rewrite L'; cbn [app cv]; destruct (Nat.eq_dec t t) as [_|Hc]; [|exfalso; apply Hc; reflexivity];
                rewrite C, <- app_assoc; reflexivity|].
        split; [rewrite L'; cbn [app allvis]; destruct (Nat.eq_dec t t) as [_|Hc]; [rewrite A; reflexivity | exfalso; apply Hc; reflexivity]|].
        exact D.
  Qed.

  Lemma svisits_rv (S0 : mstate) t pend vf after ls0 T' acc :
    G T' (cv t acc ls0) pend (gb after) ->
    rvfact T' (h_frame (fst (svisits S0 t pend vf after ls0)) t) (h_pc (fst (svisits S0 t pend vf after ls0)) t)
           (cv t acc (snd (svisits S0 t pend vf after ls0))).
  Proof.
    intros HG. destruct (svisits_cv S0 t pend vf after ls0) as [pre [post [E [L [C [_ D]]]]]].
    rewrite L, cv_app, C. set (vs := cv t acc ls0) in *. subst pend.
    destruct D as [[-> [D1 D2]]|[cx [D1 D2]]]; rewrite D1, D2.
    - rewrite app_nil_r in HG. destruct HG as [A B]. unfold rvfact.
      destruct after; cbn [gb] in B; try contradiction; cbn [rk].
      + split; [exact A | exact I].
      + destruct (lkr lk); [|contradiction]. split; [rewrite app_nil_r; exact A | rewrite app_nil_r; exact B].
    - unfold rvfact. cbn [rf_rest rf_after]. split; [|apply start_cx_notrg]. unfold G in *. rewrite <- app_assoc. exact HG.
  Qed.

  (* [sgoto]: the fact for the target program counter, under the frame of the state, is the fact of the result *)
  Lemma sgoto_rv (S0 : mstate) t q ls0 T' acc :
    rvfact T' (h_frame S0 t) q (cv t acc ls0) ->
    rvfact T' (h_frame (fst (sgoto S0 t q ls0)) t) (h_pc (fst (sgoto S0 t q ls0)) t) (cv t acc (snd (sgoto S0 t q ls0))).
  Proof.
    intros HR.
    destruct q; cbn [sgoto fst snd sset_pc h_pc h_frame];
      try (destruct (Nat.eq_dec t t) as [_|Hc]; [exact HR | exfalso; apply Hc; reflexivity]).
    destruct (h_frame S0 t) as [f|] eqn:Ef.
    - apply svisits_rv. rewrite cv_app. cbn [cv]. destruct HR as [A _]. exact A.
    - cbn [fst snd sset_pc h_pc h_frame]. rewrite Ef, cv_app. cbn [cv].
      destruct (Nat.eq_dec t t) as [_|Hc]; [|exfalso; apply Hc; reflexivity]. unfold rvfact in *. cbn [rk] in *. exact HR.
  Qed.

  (* ---------------- a step that is not Range's ---------------- *)

  Lemma some_pair_rg {A B} (g : A * B) a b : Some g = Some (a, b) -> a = fst g /\ b = snd g.
  Proof. intros H. inversion H. auto. Qed.

  Lemma after_lock_notrg (S1 : mstate) t tab b lk : lkr lk = false ->
    not_rg (snd (after_lock hash idx tophash nslots nstripes S1 t tab b lk)).
  Proof.
    intros Hl. unfold after_lock. destruct lk; cbv zeta; try discriminate Hl.
    - exact I.
    - match goal with |- context [scopy_chain ?a ?b ?c ?d ?e ?f] => destruct (scopy_chain a b c d e f) as [nt cp] end.
      cbn [snd not_rg]. destruct (Nat.ltb _ _); cbn; auto.
  Qed.

  Lemma not_rg_cont kt : not_rg (@srun_cont K V kt).
  Proof. destruct kt; exact I. Qed.

  Lemma step_notrg s t p s' ls : sstep_pc s t p = Some (s', ls) -> not_rg p ->
    exists S0 q ls0, s' = fst (sgoto S0 t q ls0) /\ ls = snd (sgoto S0 t q ls0) /\ not_rg q
                     /\ h_frame S0 = h_frame s /\ Forall plainl ls0.
  Proof.
    intros Hs Hn.
    destruct p; cbn [XMachineS.sstep_pc] in Hs; cbv zeta in Hs; unfold sfnev in Hs;
      repeat match type of Hs with
             | context [match ?x with _ => _ end] => destruct x eqn:?
             end; try discriminate Hs; apply some_pair_rg in Hs; destruct Hs as [-> ->]; cbn [not_rg] in Hn.
    all: try match goal with
             | Ha : after_lock _ _ _ _ _ ?S1 ?T ?TAB ?B ?LK = (_, _) |- _ =>
                 pose proof (after_lock_notrg S1 T TAB B LK Hn) as A0; destruct (after_lock_ok hash idx tophash nslots nstripes S1 T TAB B LK) as [_ [A2 _]];
                 rewrite Ha in A0, A2; cbn [fst snd] in A0, A2
             end.
    all: try match type of Hn with _ /\ _ => destruct Hn as [Hn1 Hn2]; try discriminate Hn1 end.
    all: try (eexists _, _, _; split; [reflexivity|]; split; [reflexivity|]; split;
              [cbn [not_rg lkr]; first [exact I | assumption | apply not_rg_cont | (split; [reflexivity | first [exact I | assumption | apply not_rg_cont]]) | idtac]
              | split; [first [reflexivity | exact A2] | repeat constructor]]).
    all: try contradiction.
    all: try reflexivity.
    all: try (split; assumption).
    all: try (destruct lc; exact I).
    all: try (split; [reflexivity|]; destruct (_ || _); [exact I|]; destruct (_ && _); exact I).
    - exists s, QIdle, [SStep t SKStart]. cbn [sgoto fst snd]. repeat split; repeat constructor.
  Qed.

  (* ---------------- a step does not touch the frames of the other threads ---------------- *)

  Lemma svisits_frame_oth (S0 : mstate) t pend vf after ls0 u : u <> t ->
    h_frame (fst (svisits S0 t pend vf after ls0)) u = h_frame S0 u.
  Proof.
    intros Hne. revert ls0. induction pend as [|[k v] r IH]; intros ls0; cbn [svisits].
    - destruct after; cbn [fst sset_pc sset_frame h_frame]; (destruct (Nat.eq_dec u t); [contradiction | reflexivity]).
    - destruct (vf k v); [|apply IH]. cbn [fst sset_pc sset_frame h_frame]. destruct (Nat.eq_dec u t); [contradiction | reflexivity].
  Qed.

  Lemma sgoto_frame_oth (S0 : mstate) t q ls0 u : u <> t -> h_frame (fst (sgoto S0 t q ls0)) u = h_frame S0 u.
  Proof.
    intros Hne. destruct q; cbn [sgoto fst sset_pc h_frame]; try reflexivity.
    destruct (h_frame S0 t); [apply svisits_frame_oth; exact Hne | reflexivity].
  Qed.

  Lemma step_frame_oth s t p s' ls : sstep_pc s t p = Some (s', ls) -> forall u, u <> t -> h_frame s' u = h_frame s u.
  Proof.
    intros Hs u Hne.
    destruct p; cbn [XMachineS.sstep_pc] in Hs; cbv zeta in Hs;
      repeat match type of Hs with
             | context [match ?x with _ => _ end] => destruct x eqn:?
             end; try discriminate Hs; apply some_pair_rg in Hs; destruct Hs as [-> _].
    all: try match goal with
             | Ha : after_lock _ _ _ _ _ ?S1 ?T ?TAB ?B ?LK = (_, _) |- _ =>
                 destruct (after_lock_ok hash idx tophash nslots nstripes S1 T TAB B LK) as [_ [A2 _]]; rewrite Ha in A2; cbn [fst snd] in A2
             end.
    all: rewrite ?sgoto_frame_oth, ?svisits_frame_oth by exact Hne; try reflexivity.
    exact (f_equal (fun g => g u) A2).
  Qed.

  (* ---------------- a bucket locked and copied by a Range ---------------- *)

  Hypothesis Hslots : nslots <= 3.
  Hypothesis Hidx : forall h len, 0 < len -> idx h len < len.
  Hypothesis Hminlen : 0 < minlen.

  Lemma snap_facts s t tab b snap a : XB s -> rk (h_pc s t) = RK_Snap tab b snap a ->
    let tb := tabT (h_tabs s) tab in
    NoDup (map fst (slive_pairs (schain_of tb b)))
    /\ (forall k v, In (k, v) (slive_pairs (schain_of tb b)) <-> (svis tb k v /\ shome tb k = b))
    /\ lock_of nslots nstripes s tab b = Some t /\ tab <= h_cur s /\ tab < length (h_tabs s) /\ b < m_len tb.
  Proof.
    intros [HI [HL [HT [HP HC]]]] Hk tb.
    assert (Hf : sholds hash idx nslots nstripes s (h_pc s t) = Some (tab, b) /\ witpos tab (h_pc s t) = None
                 /\ tabs_le (h_cur s) (h_pc s t) -> PCI hash idx nslots nstripes (h_tabs s) t (h_pc s t) -> tab <= h_cur s /\ tab < length (h_tabs s) /\ b < m_len tb).
    { destruct (h_pc s t); cbn [rk] in Hk; try discriminate Hk; try (destruct (lkr lk); discriminate Hk);
        (destruct rg as [[sn vf0]|]; [|discriminate Hk]); inversion Hk; subst;
        cbn [tabs_le PCI]; unfold inr; intros [_ [_ A]] B; fold tb in B; tauto. }
    assert (Hh : sholds hash idx nslots nstripes s (h_pc s t) = Some (tab, b) /\ witpos tab (h_pc s t) = None).
    { destruct (h_pc s t); cbn [rk] in Hk; try discriminate Hk; try (destruct (lkr lk); discriminate Hk);
        (destruct rg as [[sn vf0]|]; [|discriminate Hk]); inversion Hk; subst; split; reflexivity. }
    destruct Hh as [Hh Hw]. destruct (Hf (conj Hh (conj Hw (proj1 (xt_pc s HT t)))) (xl_pc _ _ _ _ s HL t)) as [Hle [Hlt Hb]].
    pose proof (xl_lockA _ _ _ _ s HL t tab b Hh) as Hlk.
    destruct (xcs_ch _ _ _ _ _ s HC tab b Hle Hb) as [_ [Hu Hsl]]. fold tb in Hu, Hsl.
    assert (Hst : settled hash idx tophash nslots tb b).
    { intros pos Hp. destruct (Hsl pos Hp) as [F|[F|[p [F1 F2]]]]; [left; exact F | right; exact F|].
      exfalso. unfold holder_pc in F1. rewrite Hlk in F1. cbn [option_map] in F1. inversion F1; subst p. rewrite Hw in F2. discriminate F2. }
    split; [apply live_nodup; exact Hu|]. split; [|auto].
    intros k v. split.
    - intros Hin. destruct (settled_home hash idx tophash nslots tb b k v Hst Hin). auto.
    - intros [[pos [Hp [Hk1 [[id Hv] _]]]] Hh2]. rewrite Hh2 in *. apply live_in. exists pos. eauto.
  Qed.

  (* ---------------- the invariant is kept: the stepping thread ---------------- *)

  Lemma G_snap T vs tab b (c : list (K * V)) (o : option (option (nat * nat))) :
    G T vs [] (Some (Some (tab, b))) -> NoDup (map fst c) -> (forall k v, In (k, v) c -> hm T tab k = b) ->
    (o = Some (Some (tab, S b)) \/ o = Some None) -> G T vs c o.
  Proof.
    intros [A [B1 B2]] Hc Hh Ho. rewrite app_nil_r in A, B2. split.
    - rewrite map_app. apply NoDup_app'; [exact A | exact Hc|].
      intros k H1 H2. apply in_map_iff in H1. destruct H1 as [[k1 v1] [E1 H1]]. cbn in E1. subst k1.
      apply in_map_iff in H2. destruct H2 as [[k2 v2] [E2 H2]]. cbn in E2. subst k2.
      pose proof (B2 k v1 H1). pose proof (Hh k v2 H2). lia.
    - destruct Ho as [->| ->]; [|exact I]. split; [exact B1|]. intros k v Hin. apply in_app_or in Hin. destruct Hin as [Hin|Hin].
      + pose proof (B2 k v Hin). lia.
      + rewrite (Hh k v Hin). lia.
  Qed.

  Lemma tabs_goto (S0 : mstate) t q ls : h_tabs (fst (sgoto S0 t q ls)) = h_tabs S0.
  Proof. destruct (sgoto_shared S0 t q ls) as [[A _] _]. exact A. Qed.
  Lemma tabs_visits (S0 : mstate) t pend vf after ls : h_tabs (fst (svisits S0 t pend vf after ls)) = h_tabs S0.
  Proof. destruct (svisits_shared S0 t pend vf after ls) as [[A _] _]. exact A. Qed.

  (* the successful CAS of a Range's lockBucket: the chain is copied under the lock *)
  Lemma cas_range_rv (S1 : mstate) t tab b vf after vs T :
    XB (sset_pc S1 t (QU_Load tab b (Some (slive_pairs (schain_of (stab_at S1 tab) b), vf)) after)) ->
    sextT T (h_tabs S1) -> G T vs [] (Some (Some (tab, b))) ->
    (gb after = Some (Some (tab, S b)) \/ gb after = Some None) ->
    G (h_tabs S1) vs (slive_pairs (schain_of (stab_at S1 tab) b)) (gb after)
    /\ slive_pairs (schain_of (stab_at S1 tab) b) = slive_pairs (schain_of (tabT (h_tabs S1) tab) b).
  Proof.
    intros HB' HE HG Ha. split; [|reflexivity].
    set (snap := slive_pairs (schain_of (stab_at S1 tab) b)) in *.
    set (s' := sset_pc S1 t (QU_Load tab b (Some (snap, vf)) after)) in *.
    assert (Ek : rk (h_pc s' t) = RK_Snap tab b snap after).
    { unfold s'. cbn [sset_pc h_pc]. destruct (Nat.eq_dec t t) as [_|Hc]; [reflexivity | exfalso; apply Hc; reflexivity]. }
    destruct (snap_facts s' t tab b snap after HB' Ek) as [F1 [F2 _]]. change (h_tabs s') with (h_tabs S1) in F1, F2.
    apply (G_snap (h_tabs S1) vs tab b snap (gb after)); [eapply G_ext; eassumption | exact F1 | | exact Ha].
    intros k v Hin. apply (F2 k v) in Hin. apply Hin.
  Qed.

  Ltac fin_rg Hs :=
    repeat match type of Hs with context [match ?x with _ => _ end] => destruct x eqn:? end;
    try discriminate Hs; apply some_pair_rg in Hs; destruct Hs as [-> ->].

  Lemma RV_step_t s t p s' ls vs : XB s -> XB s' -> rvfact (h_tabs s) (h_frame s t) p vs ->
    h_pc s t = p -> sstep_pc s t p = Some (s', ls) ->
    rvfact (h_tabs s') (h_frame s' t) (h_pc s' t) (cv t vs ls).
  Proof.
    intros HB HB' HR Hp Hs. pose proof HB as [HI [HL [HT [HP HC]]]].
    pose proof (se_ext _ _ _ _ _ _ _ (sstep_pc_eff eqd hash idx tophash nslots seeds grow_needed shrink_policy nstripes minlen grow_only
                                       Hslots Hidx Hminlen s t p s' ls HL Hp Hs)) as HE.
    destruct (rv_split _ _ _ _ HR) as [[Hn Hb]|[Ef Hk]].
    - (* not a step of Range itself: the frame alone matters; a return may resume the visits *)
      destruct (step_notrg s t p s' ls Hs Hn) as [S0 [q [ls0 [-> [-> [Hq [Hfr Hpl]]]]]]].
      apply sgoto_rv. rewrite (cv_plain t ls0 Hpl), Hfr. apply rv_notrg; [exact Hq|].
      apply (rbase_ext (h_tabs s)); [exact HE | exact Hb].
    - (* Range itself *)
      rewrite Ef in HR. unfold rvfact in HR.
      destruct p; cbn [rk] in Hk, HR; try (exfalso; apply Hk; reflexivity).
      all: cbn [XMachineS.sstep_pc] in Hs; cbv zeta in Hs.
      + (* QK_Load *) destruct lk; cbn [lkr] in *; try (exfalso; apply Hk; reflexivity). fin_rg Hs.
        all: apply sgoto_rv; rewrite tabs_goto, Ef; cbn [cv]; unfold rvfact; cbn [rk lkr]; exact HR.
      + (* QK_Spin *) destruct lk; cbn [lkr] in *; try (exfalso; apply Hk; reflexivity). fin_rg Hs.
        all: apply sgoto_rv; rewrite tabs_goto, Ef; cbn [cv]; unfold rvfact; cbn [rk lkr]; exact HR.
      + (* QK_CAS *) destruct lk; cbn [lkr] in *; try (exfalso; apply Hk; reflexivity). cbn [after_lock] in Hs. fin_rg Hs.
        * (* the lock is taken, the chain copied; another bucket follows *)
          cbn [sgoto fst snd] in HB', HE |- *. cbn [sset_pc h_tabs h_frame h_pc cv] in HE |- *.
          destruct (Nat.eq_dec t t) as [_|Hc]; [|exfalso; apply Hc; reflexivity].
          cbn [sset_tab h_frame]. rewrite Ef. unfold rvfact. cbn [rk].
          apply (cas_range_rv _ t tab b vf _ vs (h_tabs s) HB' HE HR). left. reflexivity.
        * cbn [sgoto fst snd] in HB', HE |- *. cbn [sset_pc h_tabs h_frame h_pc cv] in HE |- *.
          destruct (Nat.eq_dec t t) as [_|Hc]; [|exfalso; apply Hc; reflexivity].
          cbn [sset_tab h_frame]. rewrite Ef. unfold rvfact. cbn [rk].
          apply (cas_range_rv _ t tab b vf _ vs (h_tabs s) HB' HE HR). right. reflexivity.
        * apply sgoto_rv; rewrite tabs_goto, Ef; cbn [cv]; unfold rvfact; cbn [rk lkr]; exact HR.
      + (* QK_Yield *) destruct lk; cbn [lkr] in *; try (exfalso; apply Hk; reflexivity). fin_rg Hs.
        all: apply sgoto_rv; rewrite tabs_goto, Ef; cbn [cv]; unfold rvfact; cbn [rk lkr]; exact HR.
      + (* QU_Load *) destruct rg as [[snap vf]|]; [|exfalso; apply Hk; reflexivity]. fin_rg Hs.
        apply sgoto_rv; rewrite tabs_goto, Ef; cbn [cv]; unfold rvfact; cbn [rk lkr]; exact HR.
      + (* QU_Store: unlock, then the visits *)
        destruct rg as [[snap vf]|]; [|exfalso; apply Hk; reflexivity]. fin_rg Hs.
        apply svisits_rv. cbn [cv]. eapply G_ext; [exact HE | apply HR].
      + (* QG_Table *) fin_rg Hs.
        all: apply sgoto_rv; rewrite tabs_goto, Ef; cbn [cv]; unfold rvfact; cbn [rk lkr gb]; subst vs.
        * split; [constructor|]. split; [apply (xl_cur _ _ _ _ s HL) | intros k v []].
        * split; [constructor | exact I].
  Qed.

  (* ---------------- the invariant is kept: the other threads ---------------- *)

  Hypothesis Hnslots : 0 < nslots.
  Hypothesis Htop : forall k sd, (tophash (hash k sd) < 1048576)%N.

  Lemma RV_step_oth s t p s' ls u vs : XB s -> rvfact (h_tabs s) (h_frame s u) (h_pc s u) vs -> u <> t ->
    h_pc s t = p -> sstep_pc s t p = Some (s', ls) ->
    rvfact (h_tabs s') (h_frame s' u) (h_pc s' u) (cv u vs ls).
  Proof.
    intros HB HR Hne Hp Hs. pose proof HB as [HI [HL [HT [HP HC]]]].
    pose proof (sstep_pc_eff eqd hash idx tophash nslots seeds grow_needed shrink_policy nstripes minlen grow_only
                  Hslots Hidx Hminlen s t p s' ls HL Hp Hs) as HEf.
    pose proof (se_ext _ _ _ _ _ _ _ HEf) as HE.
    destruct (step_fn eqd hash idx tophash nslots seeds grow_needed shrink_policy nstripes minlen grow_only s t p s' ls Hs) as [Hby _].
    rewrite (cv_other t u ls Hne Hby), (step_frame_oth s t p s' ls Hs u Hne).
    assert (HR' : rvfact (h_tabs s') (h_frame s u) (h_pc s u) vs).
    { apply (rv_ext (h_tabs s)); [exact HE | | exact HR].
      intros tab b snap a Ef Ek. destruct (snap_facts s u tab b snap a HB Ek) as [_ [_ [Hlk [Hle [Hlt _]]]]].
      destruct (step_cellsw_frame eqd hash idx tophash nslots seeds grow_needed shrink_policy nstripes minlen grow_only
                  Hslots Hnslots s t p s' ls HL HC Hp Hs tab b Hlt) as [E|[E|E]].
      - unfold cellsw in E. injection E as E1 _. exact E1.
      - exfalso. rewrite <- Hp in E. pose proof (xl_lockA _ _ _ _ s HL t tab b E) as L. rewrite Hlk in L. inversion L. apply Hne. assumption.
      - exfalso. destruct (xt_pc s HT t) as [_ Hn]. rewrite Hp in Hn. destruct (Hn tab E). lia. }
    destruct (se_oth _ _ _ _ _ _ _ HEf u Hne) as [E|E]; rewrite E; [exact HR' | apply rv_wake; exact HR'].
  Qed.

  (* ---------------- every reachable state ---------------- *)

  Lemma RV_step_pc s ls0 t p s' ls : XB s -> XB s' -> RV s ls0 -> h_pc s t = p -> sstep_pc s t p = Some (s', ls) -> RV s' (ls0 ++ ls).
  Proof.
    intros HB HB' HR Hp Hs u. rewrite cv_app. destruct (Nat.eq_dec u t) as [->|Hne].
    - apply (RV_step_t s t p s' ls _ HB HB'); [rewrite <- Hp; apply HR | exact Hp | exact Hs].
    - apply (RV_step_oth s t p s' ls u _ HB (HR u) Hne Hp Hs).
  Qed.

  Lemma sstart_rv (o : @sop K V) T : rvfact T None (sstart_pc o) [].
  Proof.
    unfold rvfact. destruct o; cbn [sstart_pc rk]; try (split; [constructor | exact I]); [|reflexivity].
    rewrite (not_rg_rk _ (start_cx_notrg _)). split; [constructor | apply start_cx_notrg].
  Qed.

  Lemma RV_sstep s ls0 t s' ls : XB s -> XF s -> RV s ls0 -> sstep s t = Some (s', ls) -> RV s' (ls0 ++ ls).
  Proof.
    intros HB HX HR E.
    pose proof (XB_sstep eqd hash idx tophash nslots seeds grow_needed shrink_policy nstripes minlen grow_only
                  Hslots Hnslots Htop Hidx Hminlen s t s' ls HB E) as HB'.
    unfold XMachineS.sstep in E.
    destruct (h_pc s t) eqn:Hp; try (eapply RV_step_pc; [exact HB | exact HB' | exact HR | exact Hp | exact E]).
    destruct (h_todo s t) as [|o rest]; [discriminate|].
    assert (HB1 : XB (sinvoke s t o rest)) by (apply invoke_XB; assumption).
    assert (Hfr : h_frame s t = None) by (apply (xf_idle s HX); rewrite Hp; exact (fun H => H)).
    assert (HR1 : RV (sinvoke s t o rest) (ls0 ++ [SInv t o])).
    { intros u. rewrite cv_app. cbn [cv XS_count.sinvoke h_pc h_frame h_tabs].
      destruct (Nat.eq_dec t u) as [->|Hne].
      - destruct (Nat.eq_dec u u) as [_|Hc]; [|exfalso; apply Hc; reflexivity]. rewrite Hfr. apply sstart_rv.
      - destruct (Nat.eq_dec u t) as [Hc|_]; [exfalso; apply Hne; congruence|]. apply HR. }
    change (match sstep_pc (sinvoke s t o rest) t (sstart_pc o) with
            | Some (s2, ls1) => Some (s2, SInv t o :: ls1)
            | None => Some (sinvoke s t o rest, [SInv t o])
            end = Some (s', ls)) in E.
    destruct (sstep_pc (sinvoke s t o rest) t (sstart_pc o)) as [[s2 ls1]|] eqn:E2.
    - inversion E; subst s2 ls. change (ls0 ++ SInv t o :: ls1) with (ls0 ++ [SInv t o] ++ ls1). rewrite app_assoc.
      eapply RV_step_pc; [exact HB1 | exact HB' | exact HR1 | | exact E2].
      cbn [XS_count.sinvoke h_pc]. destruct (Nat.eq_dec t t); congruence.
    - inversion E; subst s' ls. exact HR1.
  Qed.

  Lemma RV_srun sched : forall s ls0, XB s -> XF s -> RV s ls0 ->
    XB (fst (srun s sched)) /\ XF (fst (srun s sched)) /\ RV (fst (srun s sched)) (ls0 ++ snd (srun s sched)).
  Proof.
    induction sched as [|t rest IH]; intros s ls0 HB HX HR; cbn [XMachineS.srun]; [cbn [fst snd]; rewrite app_nil_r; auto|].
    destruct (sstep s t) as [[s' ls]|] eqn:E.
    - pose proof (XB_sstep eqd hash idx tophash nslots seeds grow_needed shrink_policy nstripes minlen grow_only
                    Hslots Hnslots Htop Hidx Hminlen s t s' ls HB E) as HB'.
      pose proof (XF_sstep eqd hash idx tophash nslots seeds grow_needed shrink_policy nstripes minlen grow_only s t s' ls HX E) as HX'.
      specialize (IH s' (ls0 ++ ls) HB' HX' (RV_sstep s ls0 t s' ls HB HX HR E)).
      destruct (XMachineS.srun _ _ _ _ _ _ _ _ _ _ _ s' rest) as [s'' ls']. cbn [fst snd] in *. rewrite app_assoc. exact IH.
    - apply IH; assumption.
  Qed.

  Lemma RV_init len0 todo : RV (sinit nslots seeds nstripes len0 todo) [].
  Proof. intros t. cbn. split; [constructor | exact I]. Qed.

  Lemma reachable_RV len0 todo sched : 0 < len0 ->
    let r := srun (sinit nslots seeds nstripes len0 todo) sched in
    XB (fst r) /\ XF (fst r) /\ RV (fst r) (snd r).
  Proof.
    intros Hl r.
    apply (RV_srun sched (sinit nslots seeds nstripes len0 todo) []).
    - apply (XB_init hash idx tophash nslots seeds nstripes minlen); assumption.
    - pose proof (reachable_XF eqd hash idx tophash nslots seeds grow_needed shrink_policy nstripes minlen grow_only len0 todo []) as H. exact H.
    - apply RV_init.
  Qed.

  (* ---------------- C07 on every reachable state ---------------- *)

  (* at most once per key: the visits a thread has made since its last invocation -- all the visits of its
     Range, before, between and after the calls its visitor makes on the map -- have pairwise distinct keys *)
  Theorem range_once len0 todo sched t : 0 < len0 ->
    NoDup (map fst (cv t [] (snd (srun (sinit nslots seeds nstripes len0 todo) sched)))).
  Proof. intros Hl. destruct (reachable_RV len0 todo sched Hl) as [_ [_ H]]. eapply rv_nodup. apply (H t). Qed.

  (* no phantom, nothing of the bucket missed: the pairs a Range has copied from bucket b (it stands in
     unlockBucket, before the LoadUint64 or before the StoreUint64 that releases the lock) are exactly what a
     lock-free reader can find in bucket b of the traversed table while the lock is held *)
  Theorem range_snapshot len0 todo sched t tab b snap a : 0 < len0 ->
    let s := fst (srun (sinit nslots seeds nstripes len0 todo) sched) in
    rk (h_pc s t) = RK_Snap tab b snap a ->
    NoDup (map fst snap)
    /\ (forall k v, In (k, v) snap <-> (svis (stab_at s tab) k v /\ shome (stab_at s tab) k = b))
    /\ lock_of nslots nstripes s tab b = Some t.
  Proof.
    intros Hl s Ek. destruct (reachable_RV len0 todo sched Hl) as [HB [_ HR]]. fold s in HB, HR.
    specialize (HR t). unfold rvfact in HR. destruct (h_frame s t) as [f|].
    - destruct HR as [_ Hn]. rewrite (not_rg_rk _ Hn) in Ek. discriminate Ek.
    - rewrite Ek in HR. destruct HR as [_ E]. destruct (snap_facts s t tab b snap a HB Ek) as [F1 [F2 [F3 _]]].
      rewrite <- E in F1, F2. auto.
  Qed.

  Corollary range_snapshot_pc len0 todo sched t tab b w snap vf a : 0 < len0 ->
    let s := fst (srun (sinit nslots seeds nstripes len0 todo) sched) in
    h_pc s t = QU_Load tab b (Some (snap, vf)) a \/ h_pc s t = QU_Store tab b w (Some (snap, vf)) a ->
    NoDup (map fst snap)
    /\ (forall k v, In (k, v) snap <-> (svis (stab_at s tab) k v /\ shome (stab_at s tab) k = b))
    /\ lock_of nslots nstripes s tab b = Some t.
  Proof. intros Hl s [Hp|Hp]; apply (range_snapshot len0 todo sched t tab b snap a Hl); fold s; rewrite Hp; reflexivity. Qed.

  (* ---------------- the steps of a traversal ---------------- *)

  (* it starts at bucket 0 of the table that is current when it loads the pointer *)
  Theorem range_start s t vf s' ls : h_frame s t = None -> sstep_pc s t (QG_Table vf) = Some (s', ls) ->
    (0 < m_len (stab_at s (h_cur s)) /\ h_pc s' t = QK_Load (h_cur s) 0 (LKRange vf))
    \/ (m_len (stab_at s (h_cur s)) = 0 /\ h_pc s' t = QIdle).
  Proof.
    intros Hf Hs. cbn [XMachineS.sstep_pc] in Hs. cbv zeta in Hs. rewrite (sgoto_noframe s t _ _ Hf) in Hs.
    destruct (Nat.ltb 0 (m_len (stab_at s (h_cur s)))) eqn:E; inversion Hs; subst; cbn [sset_pc h_pc];
      (destruct (Nat.eq_dec t t) as [_|Hc]; [|exfalso; apply Hc; reflexivity]).
    - left. apply Nat.ltb_lt in E. auto.
    - right. apply Nat.ltb_ge in E. split; [lia | reflexivity].
  Qed.

  Lemma chain_set_lock (s : mstate) tab b g b' :
    schain_of (stab_at (sset_tab s tab (fun tb => sset_word tb b 0 g)) tab) b' = schain_of (stab_at s tab) b'.
  Proof.
    unfold XMachineS.stab_at, sset_tab. cbn [h_tabs]. rewrite nth_supd_nth.
    destruct (Nat.eq_dec tab tab) as [_|Hc]; [|exfalso; apply Hc; reflexivity].
    destruct (Nat.ltb tab (length (h_tabs s))) eqn:E; [reflexivity|].
    apply Nat.ltb_ge in E. rewrite (nth_overflow _ _ E). reflexivity.
  Qed.

  (* lockBucket's CAS: when it succeeds the chain of the bucket is copied at once (plain reads under the lock),
     and Range goes on with unlockBucket; the continuation is the next bucket, or the return after the last one *)
  Theorem range_lock s t tab b v vf s' ls : sstep_pc s t (QK_CAS tab b v (LKRange vf)) = Some (s', ls) ->
    (word_val (sword_at nslots (stab_at s tab) b 0) = word_val v
     /\ h_pc s' t = QU_Load tab b (Some (slive_pairs (schain_of (stab_at s tab) b), vf))
                            (if Nat.ltb (S b) (m_len (stab_at s tab)) then QK_Load tab (S b) (LKRange vf) else QRet SRUnit))
    \/ (word_val (sword_at nslots (stab_at s tab) b 0) <> word_val v /\ h_pc s' t = QK_Yield tab b (LKRange vf)).
  Proof.
    intros Hs. cbn [XMachineS.sstep_pc after_lock] in Hs. cbv zeta in Hs.
    destruct (N.eqb (word_val (sword_at nslots (stab_at s tab) b 0)) (word_val v)) eqn:E.
    - left. apply N.eqb_eq in E. split; [exact E|]. inversion Hs; subst. cbn [sgoto fst sset_pc h_pc].
      destruct (Nat.eq_dec t t) as [_|Hc]; [|exfalso; apply Hc; reflexivity]. rewrite chain_set_lock.
      assert (El : m_len (stab_at (sset_tab s tab (fun tb => sset_word tb b 0 (fun _ => with_lock v (Some t)))) tab) = m_len (stab_at s tab)).
      { unfold m_len. pose proof (chain_set_lock s tab b (fun _ => with_lock v (Some t))) as Hc.
        unfold XMachineS.stab_at, sset_tab. cbn [h_tabs]. rewrite nth_supd_nth.
        destruct (Nat.eq_dec tab tab) as [_|Hx]; [|exfalso; apply Hx; reflexivity].
        destruct (Nat.ltb tab (length (h_tabs s))) eqn:E2; [reflexivity|]. apply Nat.ltb_ge in E2. rewrite (nth_overflow _ _ E2). reflexivity. }
      rewrite El. reflexivity.
    - right. apply N.eqb_neq in E. split; [exact E|]. inversion Hs; subst. cbn [sgoto fst sset_pc h_pc].
      destruct (Nat.eq_dec t t) as [_|Hc]; [reflexivity | exfalso; apply Hc; reflexivity].
  Qed.

  (* unlockBucket's StoreUint64, then the visits: the visitor is called on the copied pairs in order; when it calls the
     map for a pair the thread enters that call and the pairs still to visit wait in the frame *)
  Theorem range_visits s t tab b w snap vf a s' ls : sstep_pc s t (QU_Store tab b w (Some (snap, vf)) a) = Some (s', ls) ->
    exists pre post, snap = pre ++ post /\ cv t [] ls = pre
      /\ ((post = [] /\ h_frame s' t = None /\ h_pc s' t = match a with QRet _ => QIdle | _ => a end)
          \/ (exists cx, h_frame s' t = Some {| rf_rest := post; rf_vf := vf; rf_after := a |} /\ h_pc s' t = sstart_cx cx)).
  Proof.
    intros Hs. cbn [XMachineS.sstep_pc] in Hs. cbv zeta in Hs. apply some_pair_rg in Hs. destruct Hs as [-> ->].
    match goal with |- context [svisits ?S0 t snap vf a ?L] => destruct (svisits_cv S0 t snap vf a L) as [pre [post [E [L1 [C [_ D]]]]]] end.
    exists pre, post. split; [exact E|]. split; [|exact D]. rewrite L1, cv_app. cbn [cv]. apply C.
  Qed.

  (* inside a visitor's call: a step either keeps the frame and visits nothing, or it is the return of the call and
     the visits go on with the pairs of the frame *)
  Theorem range_resume s t f p s' ls : h_frame s t = Some f -> not_rg p -> sstep_pc s t p = Some (s', ls) ->
    (h_frame s' t = Some f /\ cv t [] ls = [])
    \/ exists pre post, rf_rest f = pre ++ post /\ cv t [] ls = pre
         /\ ((post = [] /\ h_frame s' t = None /\ h_pc s' t = match rf_after f with QRet _ => QIdle | _ => rf_after f end)
             \/ (exists cx, h_frame s' t = Some {| rf_rest := post; rf_vf := rf_vf f; rf_after := rf_after f |} /\ h_pc s' t = sstart_cx cx)).
  Proof.
    intros Hf Hn Hs. destruct (step_notrg s t p s' ls Hs Hn) as [S0 [q [ls0 [-> [-> [Hq [Hfr Hpl]]]]]]].
    assert (Hf0 : h_frame S0 t = Some f) by (rewrite Hfr; exact Hf).
    destruct q; try (left; cbn [sgoto fst snd sset_pc h_frame]; split; [exact Hf0 | apply (cv_plain t ls0 Hpl)]).
    right. cbn [sgoto]. rewrite Hf0.
    destruct (svisits_cv S0 t (rf_rest f) (rf_vf f) (rf_after f) (ls0 ++ [SSubRes t r])) as [pre [post [E [L1 [C [_ D]]]]]].
    exists pre, post. split; [exact E|]. split; [|exact D]. rewrite L1, !cv_app, (cv_plain t ls0 Hpl). cbn [cv]. apply C.
  Qed.

  (* ---------------- completeness: a pair that stays visible in the traversed table is visited ---------------- *)

  (* P holds in every state the run goes through *)
  Fixpoint along (P : mstate -> Prop) (s : mstate) (sched : list nat) : Prop :=
    P s /\ match sched with
           | [] => True
           | u :: r => match sstep s u with Some (s', _) => along P s' r | None => along P s r end
           end.

  Lemma along_head P s sched : along P s sched -> P s.
  Proof. destruct sched; cbn [along]; tauto. Qed.

  (* what a step of u does to another thread t *)
  Lemma sstep_oth s u s' ls t : XB s -> sstep s u = Some (s', ls) -> t <> u ->
    h_frame s' t = h_frame s t /\ (h_pc s' t = h_pc s t \/ h_pc s' t = swake (h_pc s t)) /\ sextT (h_tabs s) (h_tabs s').
  Proof.
    intros HB E Hne.
    assert (Hgen : forall s0 p, XB s0 -> h_pc s0 u = p -> sstep_pc s0 u p = Some (s', ls) ->
              h_frame s' t = h_frame s0 t /\ (h_pc s' t = h_pc s0 t \/ h_pc s' t = swake (h_pc s0 t)) /\ sextT (h_tabs s0) (h_tabs s')).
    { intros s0 p [_ [HL _]] Hp Hs.
      pose proof (sstep_pc_eff eqd hash idx tophash nslots seeds grow_needed shrink_policy nstripes minlen grow_only
                    Hslots Hidx Hminlen s0 u p s' ls HL Hp Hs) as HEf.
      split; [apply (step_frame_oth s0 u p s' ls Hs t Hne)|]. split; [apply (se_oth _ _ _ _ _ _ _ HEf t Hne) | apply (se_ext _ _ _ _ _ _ _ HEf)]. }
    unfold XMachineS.sstep in E.
    destruct (h_pc s u) eqn:Hp; try (apply (Hgen s _ HB Hp E)).
    destruct (h_todo s u) as [|o rest]; [discriminate|].
    assert (HB1 : XB (sinvoke s u o rest)) by (apply invoke_XB; assumption).
    change (match sstep_pc (sinvoke s u o rest) u (sstart_pc o) with
            | Some (s2, ls1) => Some (s2, SInv u o :: ls1)
            | None => Some (sinvoke s u o rest, [SInv u o])
            end = Some (s', ls)) in E.
    assert (Ept : h_pc (sinvoke s u o rest) t = h_pc s t) by (cbn [XS_count.sinvoke h_pc]; destruct (Nat.eq_dec t u); [contradiction | reflexivity]).
    destruct (sstep_pc (sinvoke s u o rest) u (sstart_pc o)) as [[s2 ls1]|] eqn:E2.
    - inversion E; subst s2 ls.
      assert (Epu : h_pc (sinvoke s u o rest) u = sstart_pc o) by (cbn [XS_count.sinvoke h_pc]; destruct (Nat.eq_dec u u); congruence).
      assert (Hg : forall ls2, sstep_pc (sinvoke s u o rest) u (sstart_pc o) = Some (s', ls2) ->
                 h_frame s' t = h_frame (sinvoke s u o rest) t
                 /\ (h_pc s' t = h_pc (sinvoke s u o rest) t \/ h_pc s' t = swake (h_pc (sinvoke s u o rest) t))
                 /\ sextT (h_tabs (sinvoke s u o rest)) (h_tabs s')).
      { intros ls2 Hs2. destruct HB1 as [_ [HL1 _]].
        pose proof (sstep_pc_eff eqd hash idx tophash nslots seeds grow_needed shrink_policy nstripes minlen grow_only
                      Hslots Hidx Hminlen _ u _ s' ls2 HL1 Epu Hs2) as HEf.
        split; [apply (step_frame_oth _ u _ s' ls2 Hs2 t Hne)|]. split; [apply (se_oth _ _ _ _ _ _ _ HEf t Hne) | apply (se_ext _ _ _ _ _ _ _ HEf)]. }
      destruct (Hg ls1 E2) as [A [B C]]. rewrite Ept in B. auto.
    - inversion E; subst s' ls. split; [reflexivity|]. split; [left; exact Ept | apply sextT_refl; assumption].
  Qed.

  Section Complete.
    Variables (t tab : nat) (k : K) (v : V).

    (* (k, v) is among the pairs still to visit, or its bucket is still to come *)
    Definition cov (T : list mtable) (pend : list (K * V)) (o : option (option (nat * nat))) : Prop :=
      In (k, v) pend \/ exists i, o = Some (Some (tab, i)) /\ i <= hm T tab k.

    Definition jfact (T : list mtable) (fr : option rframe) (p : spc) : Prop :=
      match fr with
      | Some f => cov T (rf_rest f) (gb (rf_after f)) /\ not_rg p
      | None =>
          match rk p with
          | RK_Lock tab' i => cov T [] (Some (Some (tab', i)))
          | RK_Snap _ _ snap a => cov T snap (gb a)
          | _ => False
          end
      end.

    Definition JP (s : mstate) (acc : list slabel) : Prop :=
      In (k, v) (allvis t acc) \/ (tab < length (h_tabs s) /\ jfact (h_tabs s) (h_frame s t) (h_pc s t)).

    Lemma cov_ext T T' pend o : sextT T T' -> tab < length T -> cov T pend o -> cov T' pend o.
    Proof. intros HE Ht [H|[i [H1 H2]]]; [left; exact H | right; exists i; rewrite (hm_ext T T' tab k HE Ht); auto]. Qed.

    Lemma jfact_ext T T' fr p : sextT T T' -> tab < length T -> jfact T fr p -> jfact T' fr p.
    Proof.
      intros HE Ht. unfold jfact. destruct fr as [f|]; [intros [A B]; split; [eapply cov_ext; eassumption | exact B]|].
      destruct (rk p); auto; apply cov_ext; assumption.
    Qed.

    Lemma jfact_wake T fr p : jfact T fr p -> jfact T fr (swake p).
    Proof. unfold jfact. rewrite rk_wake. destruct fr; [intros [A B]; split; [exact A | apply not_rg_wake; exact B] | auto]. Qed.

    Lemma svisits_jp (S0 : mstate) pend vf after ls0 T' : cov T' pend (gb after) ->
      In (k, v) (allvis t (snd (svisits S0 t pend vf after ls0)))
      \/ jfact T' (h_frame (fst (svisits S0 t pend vf after ls0)) t) (h_pc (fst (svisits S0 t pend vf after ls0)) t).
    Proof.
      intros Hc. destruct (svisits_cv S0 t pend vf after ls0) as [pre [post [E [L [_ [A D]]]]]].
      rewrite L, allvis_app, A. subst pend.
      destruct Hc as [Hin|[i [Hi1 Hi2]]].
      - apply in_app_or in Hin. destruct Hin as [Hin|Hin]; [left; apply in_or_app; right; exact Hin|].
        destruct D as [[-> _]|[cx [D1 D2]]]; [destruct Hin|]. right. rewrite D1, D2. unfold jfact. cbn [rf_rest rf_after].
        split; [left; exact Hin | apply start_cx_notrg].
      - right. destruct D as [[-> [D1 D2]]|[cx [D1 D2]]]; rewrite D1, D2; unfold jfact.
        + destruct after; cbn [gb] in Hi1; try discriminate Hi1. cbn [rk]. destruct (lkr lk); [|discriminate Hi1].
          inversion Hi1; subst. right. exists i. auto.
        + cbn [rf_rest rf_after]. split; [right; exists i; auto | apply start_cx_notrg].
    Qed.

    Lemma sgoto_jp (S0 : mstate) q ls0 T' : jfact T' (h_frame S0 t) q ->
      In (k, v) (allvis t (snd (sgoto S0 t q ls0)))
      \/ jfact T' (h_frame (fst (sgoto S0 t q ls0)) t) (h_pc (fst (sgoto S0 t q ls0)) t).
    Proof.
      intros HJ.
      destruct q; cbn [sgoto fst snd sset_pc h_pc h_frame];
        try (right; destruct (Nat.eq_dec t t) as [_|Hc]; [exact HJ | exfalso; apply Hc; reflexivity]).
      destruct (h_frame S0 t) as [f|] eqn:Ef.
      - apply svisits_jp. apply HJ.
      - exfalso. exact HJ.
    Qed.

    (* the successful CAS of lockBucket on bucket i: if the pair's bucket is i it is copied now *)
    Lemma cas_range_jp (S1 : mstate) i vf :
      let snap := slive_pairs (schain_of (stab_at S1 tab) i) in
      let after := if Nat.ltb (S i) (m_len (stab_at S1 tab)) then QK_Load tab (S i) (LKRange vf) else QRet SRUnit in
      XB (sset_pc S1 t (QU_Load tab i (Some (snap, vf)) after)) ->
      svis (tabT (h_tabs S1) tab) k v -> i <= hm (h_tabs S1) tab k -> cov (h_tabs S1) snap (gb after).
    Proof.
      intros snap after HB' Hvis Hle.
      set (s' := sset_pc S1 t (QU_Load tab i (Some (snap, vf)) after)) in *.
      assert (Ek : rk (h_pc s' t) = RK_Snap tab i snap after).
      { unfold s'. cbn [sset_pc h_pc]. destruct (Nat.eq_dec t t) as [_|Hc]; [reflexivity | exfalso; apply Hc; reflexivity]. }
      destruct (snap_facts s' t tab i snap after HB' Ek) as [_ [F2 [_ [_ [_ _]]]]]. change (h_tabs s') with (h_tabs S1) in F2.
      destruct (Nat.eq_dec (hm (h_tabs S1) tab k) i) as [E|E].
      - left. apply (F2 k v). split; [exact Hvis | exact E].
      - right. unfold after. destruct (Nat.ltb (S i) (m_len (stab_at S1 tab))) eqn:El.
        + exists (S i). split; [reflexivity | lia].
        + exfalso. apply Nat.ltb_ge in El. destruct HB' as [_ [HL' _]].
          assert (Hok : tb_ok (tabT (h_tabs S1) tab)) by (apply (tb_ok_tabT nslots nstripes Hslots); apply (xl_tabs _ _ _ _ s' HL')).
          pose proof (shome_lt hash idx Hidx (tabT (h_tabs S1) tab) k Hok) as Hlt.
          unfold hm in *. change (stab_at S1 tab) with (tabT (h_tabs S1) tab) in El. lia.
    Qed.

    Lemma JP_step_t s s' ls : XB s -> XB s' -> svis (tabT (h_tabs s') tab) k v -> tab < length (h_tabs s) ->
      jfact (h_tabs s) (h_frame s t) (h_pc s t) -> sstep_pc s t (h_pc s t) = Some (s', ls) ->
      In (k, v) (allvis t ls) \/ jfact (h_tabs s') (h_frame s' t) (h_pc s' t).
    Proof.
      intros HB HB' Hvis Htab HJ Hs. pose proof HB as [HI [HL [HT [HP HC]]]].
      pose proof (se_ext _ _ _ _ _ _ _ (sstep_pc_eff eqd hash idx tophash nslots seeds grow_needed shrink_policy nstripes minlen grow_only
                                         Hslots Hidx Hminlen s t _ s' ls HL eq_refl Hs)) as HE.
      pose proof (jfact_ext _ _ _ _ HE Htab HJ) as HJ'.
      destruct (h_frame s t) as [f|] eqn:Ef.
      - destruct HJ' as [Hc Hn].
        destruct (step_notrg s t _ s' ls Hs Hn) as [S0 [q [ls0 [-> [-> [Hq [Hfr _]]]]]]].
        apply sgoto_jp. rewrite Hfr, Ef. split; assumption.
      - unfold jfact in HJ, HJ'. remember (h_pc s t) as p eqn:Hp. symmetry in Hp.
        destruct p; cbn [rk] in HJ, HJ'; try contradiction.
        all: cbn [XMachineS.sstep_pc] in Hs; cbv zeta in Hs.
        + (* QK_Load *) destruct lk; cbn [lkr] in *; try contradiction. fin_rg Hs.
          all: apply sgoto_jp; rewrite Ef; unfold jfact; cbn [rk lkr]; exact HJ'.
        + (* QK_Spin *) destruct lk; cbn [lkr] in *; try contradiction. fin_rg Hs.
          all: apply sgoto_jp; rewrite Ef; unfold jfact; cbn [rk lkr]; exact HJ'.
        + (* QK_CAS *) destruct lk; cbn [lkr] in *; try contradiction. cbn [after_lock] in Hs.
          destruct (N.eqb _ _) eqn:Ecas.
          * (* the lock is taken, the chain copied *)
            apply some_pair_rg in Hs. destruct Hs as [-> ->].
            destruct HJ' as [[]|[i [Hi1 Hi2]]]. inversion Hi1; subst tab0 i.
            right. cbn [sgoto fst snd] in HB', Hvis, Hi2 |- *. cbn [sset_pc h_tabs h_frame h_pc] in Hvis, Hi2 |- *.
            destruct (Nat.eq_dec t t) as [_|Hc]; [|exfalso; apply Hc; reflexivity].
            cbn [sset_tab h_frame]. rewrite Ef. unfold jfact. cbn [rk].
            apply (cas_range_jp _ b vf HB' Hvis Hi2).
          * apply some_pair_rg in Hs. destruct Hs as [-> ->].
            apply sgoto_jp; rewrite Ef; unfold jfact; cbn [rk lkr]; exact HJ'.
        + (* QK_Yield *) destruct lk; cbn [lkr] in *; try contradiction. fin_rg Hs.
          all: apply sgoto_jp; rewrite Ef; unfold jfact; cbn [rk lkr]; exact HJ'.
        + (* QU_Load *) destruct rg as [[snap vf]|]; [|contradiction]. fin_rg Hs.
          apply sgoto_jp; rewrite Ef; unfold jfact; cbn [rk lkr]; exact HJ'.
        + (* QU_Store *) destruct rg as [[snap vf]|]; [|contradiction]. fin_rg Hs.
          destruct (svisits_jp (sset_tab s tab0 (fun tb => sset_word tb b 0 (fun _ => with_lock v0 None))) snap vf p
                               [SStep t (SKStoreU64 (word_val (with_lock v0 None)))] _ HJ') as [H|H]; [left; exact H | right; exact H].
    Qed.

    Lemma JP_step s acc u s' ls : XB s -> XF s -> svis (tabT (h_tabs s') tab) k v -> JP s acc ->
      sstep s u = Some (s', ls) -> JP s' (acc ++ ls).
    Proof.
      intros HB HX Hvis [Hd|[Htab HJ]] E.
      { left. rewrite allvis_app. apply in_or_app. left. exact Hd. }
      pose proof (XB_sstep eqd hash idx tophash nslots seeds grow_needed shrink_policy nstripes minlen grow_only
                    Hslots Hnslots Htop Hidx Hminlen s u s' ls HB E) as HB'.
      destruct (Nat.eq_dec u t) as [->|Hne].
      - assert (Hni : h_pc s t <> QIdle).
        { intros Ei. rewrite (xf_idle s HX t) in HJ by (rewrite Ei; exact (fun H => H)). rewrite Ei in HJ. exact HJ. }
        assert (Ex : sstep s t = sstep_pc s t (h_pc s t)).
        { unfold XMachineS.sstep. destruct (h_pc s t); try reflexivity. exfalso. apply Hni. reflexivity. }
        rewrite Ex in E.
        destruct (JP_step_t s s' ls HB HB' Hvis Htab HJ E) as [H|H].
        + left. rewrite allvis_app. apply in_or_app. right. exact H.
        + right. split; [|exact H]. destruct HB as [_ [HL _]].
          pose proof (se_ext _ _ _ _ _ _ _ (sstep_pc_eff eqd hash idx tophash nslots seeds grow_needed shrink_policy nstripes minlen grow_only
                                             Hslots Hidx Hminlen s t _ s' ls HL eq_refl E)) as [HE _]. lia.
      - destruct (sstep_oth s u s' ls t HB E) as [A [B C]]; [intros Eq; apply Hne; congruence|].
        right. split; [destruct C; lia|]. rewrite A. pose proof (jfact_ext _ _ _ _ C Htab HJ) as HJ'.
        destruct B as [B|B]; rewrite B; [exact HJ' | apply jfact_wake; exact HJ'].
    Qed.

    Lemma JP_run sched : forall s acc, XB s -> XF s -> along (fun s => svis (tabT (h_tabs s) tab) k v) s sched -> JP s acc ->
      JP (fst (srun s sched)) (acc ++ snd (srun s sched)).
    Proof.
      induction sched as [|u rest IH]; intros s acc HB HX Hal HJ; cbn [XMachineS.srun]; [cbn [fst snd]; rewrite app_nil_r; exact HJ|].
      cbn [along] in Hal. destruct Hal as [Hv Hal].
      destruct (sstep s u) as [[s' ls]|] eqn:E.
      - pose proof (XB_sstep eqd hash idx tophash nslots seeds grow_needed shrink_policy nstripes minlen grow_only
                      Hslots Hnslots Htop Hidx Hminlen s u s' ls HB E) as HB'.
        pose proof (XF_sstep eqd hash idx tophash nslots seeds grow_needed shrink_policy nstripes minlen grow_only s u s' ls HX E) as HX'.
        specialize (IH s' (acc ++ ls) HB' HX' Hal (JP_step s acc u s' ls HB HX (along_head _ _ _ Hal) HJ E)).
        destruct (XMachineS.srun _ _ _ _ _ _ _ _ _ _ _ s' rest) as [s'' ls']. cbn [fst snd] in *. rewrite app_assoc. exact IH.
      - apply IH; assumption.
    Qed.
  End Complete.

  Lemma XF_srun sched : forall s, XF s -> XF (fst (srun s sched)).
  Proof.
    induction sched as [|u rest IH]; intros s HX; cbn [XMachineS.srun]; [exact HX|].
    destruct (sstep s u) as [[s' ls]|] eqn:E; [|apply IH; exact HX].
    pose proof (XF_sstep eqd hash idx tophash nslots seeds grow_needed shrink_policy nstripes minlen grow_only s u s' ls HX E) as HX'.
    specialize (IH s' HX'). destruct (XMachineS.srun _ _ _ _ _ _ _ _ _ _ _ s' rest). exact IH.
  Qed.

  (* C07, completeness: a traversal stands before bucket 0 of table tab (the visitor vf may call the map); if (k, v)
     is visible in that table in every state the run goes through, then by the time the traversing thread is idle
     again the visitor has been called with (k, v) -- whatever the other threads and the visitor's own calls did *)
  Theorem range_complete len0 todo sched0 sched t tab vf k v : 0 < len0 ->
    let s0 := fst (srun (sinit nslots seeds nstripes len0 todo) sched0) in
    h_pc s0 t = QK_Load tab 0 (LKRange vf) ->
    along (fun s => svis (stab_at s tab) k v) s0 sched ->
    h_pc (fst (srun s0 sched)) t = QIdle ->
    In (k, v) (allvis t (snd (srun s0 sched))).
  Proof.
    intros Hl s0 Hp Hal Hend.
    destruct (reachable_RV len0 todo sched0 Hl) as [HB [HX HR]]. fold s0 in HB, HX, HR.
    assert (Hfr : h_frame s0 t = None).
    { specialize (HR t). unfold rvfact in HR. destruct (h_frame s0 t) as [f|]; [|reflexivity].
      destruct HR as [_ Hn]. rewrite Hp in Hn. discriminate Hn. }
    assert (Htab : tab < length (h_tabs s0)).
    { destruct HB as [_ [HL _]]. pose proof (xl_pc _ _ _ _ s0 HL t) as Hpc. rewrite Hp in Hpc. apply Hpc. }
    pose proof (JP_run t tab k v sched s0 [] HB HX Hal) as H. cbn [app] in H.
    destruct H as [H|[_ H]].
    - right. split; [exact Htab|]. rewrite Hfr, Hp. unfold jfact. cbn [rk lkr]. right. exists 0. split; [reflexivity | lia].
    - exact H.
    - exfalso. pose proof (XF_srun sched s0 HX) as HX'.
      rewrite (xf_idle _ HX' t) in H by (rewrite Hend; exact (fun H0 => H0)). rewrite Hend in H. exact H.
  Qed.

End SRange.

(* ---------------- the statements under the bundled hypotheses ---------------- *)
Section Final.
  Context {K V : Type}.
  Variable eqd : forall a b : K, {a = b} + {a <> b}.
  Variable hash : K -> N -> N.
  Variable idx : N -> nat -> nat.
  Variable tophash : N -> N.
  Variable nslots : nat.
  Variable seeds : nat -> N.
  Variable grow_needed shrink_policy : nat -> Z -> bool.
  Variable nstripes : nat -> nat.
  Variable minlen : nat.
  Variable grow_only : bool.

  Notation srun := (@srun K V eqd hash idx tophash nslots seeds grow_needed shrink_policy nstripes minlen grow_only).

  (* hypotheses: rdhyps of XS_read.v (= rhyps of XS_resize.v = those of XS_cells.v) *)
  Theorem range_once_proof :
    rdhyps hash idx tophash nslots minlen -> forall len0 todo sched t, 0 < len0 ->
    NoDup (map fst (cv t [] (snd (srun (sinit nslots seeds nstripes len0 todo) sched)))).
  Proof.
    intros [[H1 H2] [H3 [H4 H5]]] len0 todo sched t Hl.
    apply (range_once eqd hash idx tophash nslots seeds grow_needed shrink_policy nstripes minlen grow_only H1 H4 H5 H2 H3 len0 todo sched t Hl).
  Qed.

  Theorem range_snapshot_proof :
    rdhyps hash idx tophash nslots minlen -> forall len0 todo sched t tab b w snap vf a, 0 < len0 ->
    let s := fst (srun (sinit nslots seeds nstripes len0 todo) sched) in
    h_pc s t = QU_Load tab b (Some (snap, vf)) a \/ h_pc s t = QU_Store tab b w (Some (snap, vf)) a ->
    NoDup (map fst snap)
    /\ (forall k v, In (k, v) snap <-> (svis hash idx tophash nslots (stab_at nslots nstripes s tab) k v
                                        /\ shome hash idx (stab_at nslots nstripes s tab) k = b))
    /\ lock_of nslots nstripes s tab b = Some t.
  Proof.
    intros [[H1 H2] [H3 [H4 H5]]] len0 todo sched t tab b w snap vf a Hl.
    apply (range_snapshot_pc eqd hash idx tophash nslots seeds grow_needed shrink_policy nstripes minlen grow_only H1 H4 H5 H2 H3 len0 todo sched t tab b w snap vf a Hl).
  Qed.

  Theorem range_complete_proof :
    rdhyps hash idx tophash nslots minlen -> forall len0 todo sched0 sched t tab vf k v, 0 < len0 ->
    let s0 := fst (srun (sinit nslots seeds nstripes len0 todo) sched0) in
    h_pc s0 t = QK_Load tab 0 (LKRange vf) ->
    along eqd hash idx tophash nslots seeds grow_needed shrink_policy nstripes minlen grow_only
          (fun s => svis hash idx tophash nslots (stab_at nslots nstripes s tab) k v) s0 sched ->
    h_pc (fst (srun s0 sched)) t = QIdle ->
    In (k, v) (allvis t (snd (srun s0 sched))).
  Proof.
    intros [[H1 H2] [H3 [H4 H5]]] len0 todo sched0 sched t tab vf k v Hl.
    apply (range_complete eqd hash idx tophash nslots seeds grow_needed shrink_policy nstripes minlen grow_only H1 H4 H5 H2 H3 len0 todo sched0 sched t tab vf k v Hl).
  Qed.
End Final.

(* ---------------- the executable instance (XExecS) ---------------- *)
From CacheV Require Import TabExec Exec XExec XExecS.
From CacheV.gen Require Import Params.
From CacheV.proofs Require Import X_inst XS_inst XS_cinst XS_rdinst.

Notation s_srun_rg o seeds hint :=
  (srun zeqd (hash_of o) idx_map tag_map (nslots_of false) (seeds_of seeds) grow_needed_s shrink_policy_s
        nstripes_x (minlen_of_hint false hint) false).

(* the extracted Map machine, every schedule, every visitor (all / del / store:<v> / ins:<base> of the harness included) *)
Theorem s_machine_range_once (o : oracle) (seeds : list N) (hint : Z) (todo : nat -> list sop_z) (sched : list nat) t : oracle64 o ->
  NoDup (map fst (cv t [] (snd (s_srun_rg o seeds hint (s_machine_init seeds hint todo) sched)))).
Proof.
  intros Ho. unfold s_machine_init.
  apply (range_once_proof zeqd (hash_of o) idx_map tag_map (nslots_of false) (seeds_of seeds) grow_needed_s shrink_policy_s nstripes_x
           (minlen_of_hint false hint) false (s_instance_rdhyps o hint Ho)).
  apply minlen_of_hint_pos.
Qed.

Theorem s_machine_range_snapshot (o : oracle) (seeds : list N) (hint : Z) (todo : nat -> list sop_z) (sched : list nat)
        t tab b w snap vf a : oracle64 o ->
  let s := fst (s_srun_rg o seeds hint (s_machine_init seeds hint todo) sched) in
  h_pc s t = QU_Load tab b (Some (snap, vf)) a \/ h_pc s t = QU_Store tab b w (Some (snap, vf)) a ->
  NoDup (map fst snap)
  /\ (forall k v, In (k, v) snap <-> (svis (hash_of o) idx_map tag_map (nslots_of false) (stab_at (nslots_of false) nstripes_x s tab) k v
                                      /\ shome (hash_of o) idx_map (stab_at (nslots_of false) nstripes_x s tab) k = b))
  /\ lock_of (nslots_of false) nstripes_x s tab b = Some t.
Proof.
  intros Ho. unfold s_machine_init.
  apply (range_snapshot_proof zeqd (hash_of o) idx_map tag_map (nslots_of false) (seeds_of seeds) grow_needed_s shrink_policy_s nstripes_x
           (minlen_of_hint false hint) false (s_instance_rdhyps o hint Ho)).
  apply minlen_of_hint_pos.
Qed.

Theorem s_machine_range_complete (o : oracle) (seeds : list N) (hint : Z) (todo : nat -> list sop_z) (sched0 sched : list nat)
        t tab vf k v : oracle64 o ->
  let s0 := fst (s_srun_rg o seeds hint (s_machine_init seeds hint todo) sched0) in
  h_pc s0 t = QK_Load tab 0 (LKRange vf) ->
  along zeqd (hash_of o) idx_map tag_map (nslots_of false) (seeds_of seeds) grow_needed_s shrink_policy_s nstripes_x (minlen_of_hint false hint) false
        (fun s => svis (hash_of o) idx_map tag_map (nslots_of false) (stab_at (nslots_of false) nstripes_x s tab) k v) s0 sched ->
  h_pc (fst (s_srun_rg o seeds hint s0 sched)) t = QIdle ->
  In (k, v) (allvis t (snd (s_srun_rg o seeds hint s0 sched))).
Proof.
  intros Ho. unfold s_machine_init.
  apply (range_complete_proof zeqd (hash_of o) idx_map tag_map (nslots_of false) (seeds_of seeds) grow_needed_s shrink_policy_s nstripes_x
           (minlen_of_hint false hint) false (s_instance_rdhyps o hint Ho)).
  apply minlen_of_hint_pos.
Qed.

(* ---------------- non-vacuity ---------------- *)
(* Three slots per bucket, two buckets, no resize.  Thread 0 stores 0, 2 (bucket 0) and 1 (bucket 1) and returns.
   Thread 1 runs a Range whose visitor MUTATES the map: on key 0 it deletes key 2, on key 2 it stores key 5 (bucket 1).
   Thread 2 stores key 4 (bucket 0) while thread 1 is inside its first nested call.
     - bucket 0 is copied under its lock: [(0,10); (2,12)]  (range_snapshot: the program counter holds exactly these);
     - visit (0,10), nested Delete 2: the frame keeps [(2,12)] while the thread is inside doCompute;
     - the call returns, visit (2,12) -- the copy is visited although the key is gone -- nested Store 5 into bucket 1;
     - bucket 1 is copied: (1,11) and the pair (5,12) the visitor itself inserted; both visited;
     - key 4, inserted into bucket 0 after that bucket was copied, is not visited (it was not visible throughout);
   the visits [(0,10); (2,12); (1,11); (5,12)] have pairwise distinct keys. *)
Definition rex_st k v : @sop nat nat := SCompute k (fun _ => Some v) false false false.
Definition rex_cx_st k v : @scx nat nat := {| sc_k := k; sc_f := fun _ => Some v; sc_ev := false; sc_lie := false; sc_co := false |}.
Definition rex_cx_del k : @scx nat nat := {| sc_k := k; sc_f := fun _ => None; sc_ev := false; sc_lie := false; sc_co := false |}.
Definition rex_vf : nat -> nat -> option (@scx nat nat) :=
  fun k v => match k with 0 => Some (rex_cx_del 2) | 2 => Some (rex_cx_st 5 v) | _ => None end%nat.
Definition rex_hash := (fun (k : nat) (_ : N) => N.of_nat k).
Definition rex_idx := (fun (h : N) len => Nat.modulo (N.to_nat h) len).
Definition rex_run (s : @mstate nat nat) (sched : list nat) : @mstate nat nat * list (@slabel nat nat) :=
  @srun nat nat Nat.eq_dec rex_hash rex_idx (fun h => h) 3%nat (fun _ => 0%N)
        (fun _ _ => false) (fun _ _ => false) (fun _ => 1%nat) 1%nat false s sched.
Definition rex_init : @mstate nat nat :=
  sinit 3%nat (fun _ => 0%N) (fun _ => 1%nat) 2%nat
        (fun t => match t with
                  | 0 => [rex_st 0 10; rex_st 2 12; rex_st 1 11]
                  | 1 => [SRange rex_vf]
                  | 2 => [rex_st 4 14]
                  | _ => [] end)%nat.
(* the labels of a trace that concern the visits, as numbers: visit (t,k,v); nested call on k (t,k,1000); its return (t,0,2000) *)
Definition rex_view (ls : list (@slabel nat nat)) : list (nat * nat * nat) :=
  flat_map (fun l => match l with SVisit t k v => [(t, k, v)] | SSubInv t k => [(t, k, 1000)] | SSubRes t _ => [(t, 0, 2000)] | _ => [] end)%nat ls.
Definition rex_snap (s : @mstate nat nat) (t : nat) : option (nat * nat * list (nat * nat)) :=
  match h_pc s t with
  | QU_Load tab b (Some (snap, _)) _ | QU_Store tab b _ (Some (snap, _)) _ => Some (tab, b, snap)
  | _ => None
  end.

Example range_nonvacuous :
  let s0 := fst (rex_run rex_init (repeat 0 100 ++ repeat 1 2)%nat) in          (* Range stands before bucket 0 *)
  let s5 := fst (rex_run rex_init (repeat 0 100 ++ repeat 1 5)%nat) in          (* bucket 0 locked and copied *)
  let s8 := fst (rex_run rex_init (repeat 0 100 ++ repeat 1 8)%nat) in          (* inside the visitor's Delete 2 *)
  let r := rex_run rex_init (repeat 0 100 ++ repeat 1 8 ++ repeat 2 50 ++ repeat 1 200)%nat in
  (match h_pc s0 1%nat with QK_Load 0 0 (LKRange _) => true | _ => false end) = true
  /\ rex_snap s5 1%nat = Some (0, 0, [(0, 10); (2, 12)])%nat
  /\ lock_of 3%nat (fun _ => 1%nat) s5 0%nat 0%nat = Some 1%nat
  /\ option_map (@rf_rest nat nat) (h_frame s8 1%nat) = Some [(2, 12)]%nat
  /\ (match h_pc s8 1%nat with QK_Load 0 0 (LKCompute _) | QK_CAS 0 0 _ (LKCompute _) => true | _ => false end) = true
  /\ h_pc (fst r) 1%nat = QIdle
  /\ cv 1%nat [] (snd r) = [(0, 10); (2, 12); (1, 11); (5, 12)]%nat
  /\ allvis 1%nat (snd r) = [(0, 10); (2, 12); (1, 11); (5, 12)]%nat
  /\ filter (fun x => Nat.eqb (fst (fst x)) 1) (rex_view (snd r))
     = [(1, 0, 10); (1, 2, 1000); (1, 0, 2000); (1, 2, 12); (1, 5, 1000); (1, 0, 2000); (1, 1, 11); (1, 5, 12)]%nat
  /\ XS_size.tpairs (stab_at 3%nat (fun _ => 1%nat) (fst r) 0%nat) = [(0, 10); (4, 14); (1, 11); (5, 12)]%nat.
Proof. repeat split; vm_compute; reflexivity. Qed.
