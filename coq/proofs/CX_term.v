(* CX_term.v -- C13 (every call returns) at the CACHE level, part 1: one thread run alone.

   The product machine of CX_product2.v over XMachine ([gstep] of CX_range.v, generic in [sup]).
   [sim p xs]: xs is the machine state of the product configuration p up to a pointwise-equal todo
   function -- the form in which [Reach] (CX_range.v) hands out xrun-reachable states, for which
   X_term.v has its theorems (TI, solo_call, can_finish).  A move of a map thread of the product
   is a step of XMachine from xs and conversely ([sim_mach_step]).
   [replay_until]: if XMachine, run alone from xs for thread t, answers t's pending call, the
   product thread t, moved alone, reaches the continuation of that call; the machine thread is
   then idle.  [solo_mapcall]: in a configuration that is calm for t (X_term.calm: no other thread
   holds a bucket lock, resizeMu or the resizer role, nobody waits) a map call that t has just
   pushed -- the traversal included -- completes when t is moved alone (X_term.solo_call), and
   the configuration is calm for t again.
   [okp]: the programs whose every path can run in the product machine (no WriteDflt / WriteCb,
   which the product machine does not execute: the settings are constant; map calls let through
   by sup).  [solo_prog]: by induction on the program -- a cache method is a finite tree; the
   loops of DeleteExpired / Range run over the list the traversal returned -- thread t, moved
   alone from a calm configuration, returns from its method.  [solo_call_completes],
   [solo_thread_completes]. *)
From CacheV Require Import Base SpecMap Client CacheModel CacheOfModel Ops SpecTTL Lin Conc XMachine.
From CacheV.gen Require Import Params.
From CacheV.proofs Require Import X_basic X_inv X_c13 X_own X_c04 X_lin X_linpoints X_resize X_range X_term
  CX_trans CX_compose CX_product CX_mapof CX_product2 X_linearizable2 CX_mapof2 CX_range.
From Coq Require Import NArith Lia.
Local Open Scope nat_scope.

Section CXTerm.
  Context {K V : Type}.
  Variable eqd : forall a b : K, {a = b} + {a <> b}.
  Variable hash : K -> N -> N.
  Variable idx : N -> nat -> nat.
  Variable tag : N -> N.
  Variable nslots : nat.
  Variable seeds : nat -> N.
  Variable grow_needed shrink_policy : nat -> Z -> bool.
  Variable probe : list (option N) -> N -> list nat.
  Variable nstripes : nat -> nat.
  Variable minlen : nat.
  Variable grow_only : bool.
  Variable len0 : nat.
  Variable progs : cop K V -> prog K V (cres K V).
  Variables NOW DFLT : Z.
  Variable CB : cbid.
  Variable sup : cmop K V -> bool.

  Notation item := (item V).
  Notation xstate := (@xstate K item).
  Notation xop := (@xop K item).
  Notation xres := (@xres K item).
  Notation xlabel := (@xlabel K item).
  Notation pc := (@pc K item).
  Notation cop := (cop K V).
  Notation cres := (cres K V).
  Notation prog := (prog K V cres).
  Notation imres := (imres K V).
  Notation env0 := (Conc.env0 NOW DFLT).
  Notation step_pc := (@step_pc K item eqd hash idx tag nslots seeds grow_needed shrink_policy probe nstripes minlen grow_only).
  Notation xstep := (@xstep K item eqd hash idx tag nslots seeds grow_needed shrink_policy probe nstripes minlen grow_only).
  Notation xrun := (@xrun K item eqd hash idx tag nslots seeds grow_needed shrink_policy probe nstripes minlen grow_only).
  Notation x2_step := (@x2_step K V eqd hash idx tag nslots seeds grow_needed shrink_policy probe nstripes minlen grow_only).
  Notation with_todo := (@CX_mapof.with_todo K item).
  Notation pconf := (@CX_product2.pconf K V xstate).
  Notation qst := (@CX_product2.qst K V).
  Notation out := (@out K V).
  Notation px := (@p_x K V xstate).
  Notation pthr := (@p_thr K V xstate).
  Notation ptodo := (@p_todo K V xstate).
  Notation xpush := (CX_product2.push xstate xop (@g_todo K item) with_todo).
  Notation feed := (@CX_product2.feed K V xop xres (back env0)).
  Notation gstep := (@gstep K V eqd hash idx tag nslots seeds grow_needed shrink_policy probe nstripes minlen grow_only progs NOW DFLT CB sup).
  Notation ginit := (@ginit K V nslots seeds nstripes len0).
  Notation pafter := (@pafter K V eqd hash idx tag nslots seeds grow_needed shrink_policy probe nstripes minlen grow_only progs NOW DFLT CB sup).
  Notation pouts := (@pouts K V eqd hash idx tag nslots seeds grow_needed shrink_policy probe nstripes minlen grow_only progs NOW DFLT CB sup).
  Notation plab := (@plab K V eqd hash idx tag nslots seeds grow_needed shrink_policy probe nstripes minlen grow_only).
  Notation Reach := (@Reach K V eqd hash idx tag nslots seeds grow_needed shrink_policy probe nstripes minlen grow_only len0).
  Notation TI := (@CX_range.TI K V NOW DFLT).
  Notation XTI := (@X_term.TI K item hash idx nslots nstripes).
  Notation calm := (@X_term.calm K item hash idx nslots nstripes).
  Notation quiet := (@X_term.quiet_all K item hash idx nslots nstripes).
  Notation Gmach_eq := (gstep_mach_eq eqd hash idx tag nslots seeds grow_needed shrink_policy probe nstripes minlen grow_only progs NOW DFLT CB sup).
  Notation Gother := (gstep_other eqd hash idx tag nslots seeds grow_needed shrink_policy probe nstripes minlen grow_only progs NOW DFLT CB sup).
  Notation TIstep := (TI_gstep eqd hash idx tag nslots seeds grow_needed shrink_policy probe nstripes minlen grow_only progs NOW DFLT CB sup).
  Notation Rstep := (Reach_gstep eqd hash idx tag nslots seeds grow_needed shrink_policy probe nstripes minlen grow_only len0 progs NOW DFLT CB sup).
  Notation x2_idle := (@x2_idle K V).

  Hypothesis Hx : xhyps4 idx nstripes minlen nslots probe.
  Hypothesis Hlen : 0 < len0.
  Hypothesis Hg : X_term.ghyp grow_needed.

  (* ---------------- the machine state of a configuration, up to the todo function ---------------- *)

  Lemma wtodo_eta (x : xstate) : with_todo x (g_todo x) = x.
  Proof. destruct x; reflexivity. Qed.

  Definition sim (p : pconf) (xs : xstate) : Prop := exists td, xs = with_todo (px p) td /\ forall u, td u = g_todo (px p) u.

  Lemma sim_todo p xs u : sim p xs -> g_todo xs u = g_todo (px p) u.
  Proof. intros [td [-> H]]. apply H. Qed.

  Lemma sim_pc p xs u : sim p xs -> g_pc xs u = g_pc (px p) u.
  Proof. intros [td [-> H]]. reflexivity. Qed.

  Lemma holds_wtodo (x : xstate) td (q : pc) : holds hash idx nslots nstripes (with_todo x td) q = holds hash idx nslots nstripes x q.
  Proof. destruct q; reflexivity. Qed.

  Lemma calm_wtodo (x : xstate) td t : calm (with_todo x td) t <-> calm x t.
  Proof.
    unfold X_term.calm. cbn [CX_mapof.with_todo g_pc].
    split; intros H u Hu; specialize (H u Hu); [rewrite holds_wtodo in H | rewrite holds_wtodo]; exact H.
  Qed.

  Lemma quiet_wtodo (x : xstate) td : quiet (with_todo x td) <-> quiet x.
  Proof.
    unfold X_term.quiet_all, X_term.nolock, X_term.nomu, X_term.norz. cbn [CX_mapof.with_todo g_pc].
    split; intros [A [B C]]; (split; [|split; assumption]); intros u; specialize (A u); [rewrite holds_wtodo in A | rewrite holds_wtodo]; exact A.
  Qed.

  Lemma sim_calm p xs t : sim p xs -> calm (px p) t -> calm xs t.
  Proof. intros [td [-> H]] Hc. apply (proj2 (calm_wtodo (px p) td t)). exact Hc. Qed.

  Lemma sim_calm' p xs t : sim p xs -> calm xs t -> calm (px p) t.
  Proof. intros [td [-> H]] Hc. apply (proj1 (calm_wtodo (px p) td t)). exact Hc. Qed.

  Lemma sim_quiet' p xs : sim p xs -> quiet xs -> quiet (px p).
  Proof. intros [td [-> H]] Hc. apply (proj1 (quiet_wtodo (px p) td)). exact Hc. Qed.

  Lemma reach_sim p L : Reach (px p) L -> exists xs, sim p xs /\ XTI xs.
  Proof.
    intros HR. destruct (HR (fun _ => [])) as [fut [m [td [Htd Hrun]]]].
    exists (with_todo (px p) td). split; [exists td; split; [reflexivity | intros u; rewrite Htd, app_nil_r; reflexivity]|].
    destruct Hx as [Hx3 _].
    pose proof (X_term.reachable_TI eqd hash idx tag nslots seeds grow_needed shrink_policy probe nstripes minlen grow_only Hx3 len0 fut m Hlen) as H.
    rewrite Hrun in H. exact H.
  Qed.

  (* a move of a map thread of the product = a step of XMachine from xs *)
  Lemma sim_mach_step p xs t xs' ls : sim p xs -> mach (pthr p t) = true -> xstep xs t = Some (xs', ls) ->
    exists p1 os, gstep p t = Some (p1, os, hstep2 (px p) t ls) /\ sim p1 xs'
      /\ pthr p1 = upd (pthr p) t (fst (feed t (pthr p t) (so_of ls))) /\ ptodo p1 = ptodo p
      /\ os = snd (feed t (pthr p t) (so_of ls)) /\ xstep (px p) t = Some (px p1, ls).
  Proof.
    intros [td [Exs Htd]] Hm Ex.
    destruct (xstep_frame eqd hash idx tag nslots seeds grow_needed shrink_policy probe nstripes minlen grow_only xs t xs' ls (g_todo (px p)) (fun _ => []) Ex)
      as [td' [Ex' Htd']]; [intros u; rewrite app_nil_r; symmetry; rewrite Exs; apply Htd|].
    assert (Eback : with_todo xs (g_todo (px p)) = px p) by (rewrite Exs; change (with_todo (px p) (g_todo (px p)) = px p); apply wtodo_eta).
    rewrite Eback in Ex'.
    rewrite (Gmach_eq p t Hm). unfold CX_mapof2.x2_step. rewrite Ex'.
    eexists. eexists. split; [reflexivity|]. cbn [p_x p_thr p_todo]. split; [|auto].
    exists (g_todo xs'). split; [change (xs' = with_todo xs' (g_todo xs')); symmetry; apply wtodo_eta|]. intros u. cbn [CX_mapof.with_todo g_todo]. rewrite Htd', app_nil_r. reflexivity.
  Qed.

  Lemma sim_mach_none p xs t : sim p xs -> mach (pthr p t) = true -> xstep xs t = None -> gstep p t = None.
  Proof.
    intros [td [Exs Htd]] Hm Ex. rewrite (Gmach_eq p t Hm). unfold CX_mapof2.x2_step.
    destruct (xstep (px p) t) as [[x1 ls]|] eqn:E; [|reflexivity]. exfalso.
    destruct (xstep_frame eqd hash idx tag nslots seeds grow_needed shrink_policy probe nstripes minlen grow_only (px p) t x1 ls td (fun _ => []) E)
      as [td' [Ex' _]]; [intros u; rewrite app_nil_r; apply Htd|].
    rewrite <- Exs, Ex in Ex'. discriminate Ex'.
  Qed.

  (* ---------------- the answer of a call ---------------- *)

  Lemma in_res_of t r (ls : list xlabel) : In (XRes t r) ls -> res_of (X_linpoints.xhist ls) <> None.
  Proof.
    induction ls as [|l rest IH]; [intros []|]. intros [->|Hin].
    - cbn [X_linpoints.xhist res_of]. discriminate.
    - destruct l; cbn [X_linpoints.xhist res_of]; try (apply IH; exact Hin). discriminate.
  Qed.

  Lemma resp_idle x t x' ls r : xstep x t = Some (x', ls) -> res_of (X_linpoints.xhist ls) = Some r -> g_pc x' t = PIdle.
  Proof.
    intros Ex Hr.
    destruct (pc_idle_dec (g_pc x t)) as [Hp|Hp].
    - rewrite (X_linearizable2.xstep_idle eqd hash idx tag nslots seeds grow_needed shrink_policy probe nstripes minlen grow_only x t Hp) in Ex.
      destruct (g_todo x t) as [|o rest]; [discriminate Ex|].
      destruct (step_pc (xinvoke x t o rest) t (start_pc o)) as [[s2 ls2]|] eqn:E2; inversion Ex; subst x' ls; clear Ex.
      + cbn [X_linpoints.xhist res_of] in Hr.
        destruct (CX_mapof.step_pc_hist eqd hash idx tag nslots seeds grow_needed shrink_policy probe nstripes minlen grow_only _ _ _ _ _ E2) as [H|[r0 [H Hi]]];
          [rewrite H in Hr; discriminate Hr | exact Hi].
      + discriminate Hr.
    - rewrite (X_linearizable2.xstep_nonidle eqd hash idx tag nslots seeds grow_needed shrink_policy probe nstripes minlen grow_only x t Hp) in Ex.
      destruct (CX_mapof.step_pc_hist eqd hash idx tag nslots seeds grow_needed shrink_policy probe nstripes minlen grow_only _ _ _ _ _ Ex) as [H|[r0 [H Hi]]];
        [rewrite H in Hr; discriminate Hr | exact Hi].
  Qed.

  (* the call a waiting thread is in, and where it goes on *)
  Definition qk (q : qst) : option (cop * (imres -> prog)) :=
    match q with
    | QPushed o _ k | QWait o _ k | QSPushed o k | QSWait o k _ => Some (o, k)
    | _ => None
    end.

  Lemma qk_mach q ok : qk q = Some ok -> mach q = true.
  Proof. destruct q; cbn; intros H; try discriminate H; reflexivity. Qed.

  (* what the answer (or its absence) does to the product thread *)
  Lemma feed_next p t x' so h o k : TI p -> qk (pthr p t) = Some (o, k) -> x2_step (px p) t = Some (x', so, h) ->
    match so_res xop xres so with
    | Some _ => exists r, fst (feed t (pthr p t) so) = QRun o (k r)
    | None => qk (fst (feed t (pthr p t) so)) = Some (o, k)
    end.
  Proof.
    intros HT Hq E2.
    destruct (x2_proto eqd hash idx tag nslots seeds grow_needed shrink_policy probe nstripes minlen grow_only _ _ _ _ _ E2) as [_ [Hci [Hck Hcd]]].
    pose proof (HT t) as Ht. unfold CX_range.TIq in Ht.
    destruct (pthr p t) as [|o1 pr|o1 mo k1|o1 mo k1|o1 k1|o1 k1 acc]; cbn [qk] in Hq; try discriminate Hq; inversion Hq; subst o1 k1; clear Hq;
      cbn [CX_product2.feed].
    - destruct Ht as [_ Hid]. destruct (Hci Hid) as [[Ei [Er _]]|[xo [rest [_ [_ [Ei _]]]]]].
      + rewrite Er, Ei. reflexivity.
      + rewrite Ei. destruct (so_res xop xres so); [eexists; reflexivity | reflexivity].
    - destruct (so_res xop xres so); [eexists; reflexivity | reflexivity].
    - destruct Ht as [_ Hid]. destruct (Hci Hid) as [[Ei [Er _]]|[xo [rest [_ [_ [Ei _]]]]]].
      + rewrite Er, Ei. reflexivity.
      + rewrite Ei. destruct (so_res xop xres so); [eexists; reflexivity | reflexivity].
    - destruct (so_res xop xres so); [eexists; reflexivity | reflexivity].
  Qed.

  Lemma pafter_cons_some p t r p1 os h : gstep p t = Some (p1, os, h) -> pafter p (t :: r) = pafter p1 r /\ pouts p (t :: r) = os ++ pouts p1 r.
  Proof. intros E. rewrite pafter_cons, pouts_cons, E. auto. Qed.

  Lemma pafter_cons_none p t r : gstep p t = None -> pafter p (t :: r) = pafter p r /\ pouts p (t :: r) = pouts p r.
  Proof. intros E. rewrite pafter_cons, pouts_cons, E. auto. Qed.

  (* XMachine, run alone for t from xs, answers t's pending call within m steps: so does the product thread *)
  Lemma replay_until t o k : forall m p xs, sim p xs -> TI p -> qk (pthr p t) = Some (o, k) ->
    (exists res, In (XRes t res) (snd (xrun xs (repeat t m)))) ->
    exists n r, n <= m /\ pthr (pafter p (repeat t n)) t = QRun o (k r)
      /\ sim (pafter p (repeat t n)) (fst (xrun xs (repeat t n)))
      /\ g_pc (fst (xrun xs (repeat t n))) t = PIdle
      /\ cproj (pouts p (repeat t n)) = []
      /\ ptodo (pafter p (repeat t n)) = ptodo p
      /\ (forall u, u <> t -> pthr (pafter p (repeat t n)) u = pthr p u)
      /\ TI (pafter p (repeat t n)).
  Proof.
    induction m as [|m IH]; intros p xs Hs HT Hq [res Hin]; [destruct Hin|].
    cbn [repeat XMachine.xrun] in Hin.
    pose proof (qk_mach _ _ Hq) as Hm.
    destruct (xstep xs t) as [[xs' ls]|] eqn:Ex.
    - destruct (sim_mach_step p xs t xs' ls Hs Hm Ex) as [p1 [os [E [Hs1 [Eth [Etd [Eo Exp]]]]]]].
      pose proof (TIstep p t p1 os _ HT E) as HT1.
      assert (E2 : x2_step (px p) t = Some (px p1, so_of ls, hstep2 (px p) t ls)) by (unfold CX_mapof2.x2_step; rewrite Exp; reflexivity).
      pose proof (feed_next p t _ _ _ o k HT Hq E2) as Hf.
      destruct (so_res xop xres (so_of ls)) as [r0|] eqn:Er.
      + (* the answer *)
        destruct Hf as [r Hf]. exists 1, r. cbn [repeat XMachine.xrun]. rewrite Ex.
        destruct (pafter_cons_some p t [] p1 os _ E) as [A B]. rewrite A, B. cbn [CX_range.pafter CX_range.pouts]. rewrite !pafter_nil.
        split; [lia|]. split; [rewrite Eth, upd_eq; exact Hf|]. cbn [fst XMachine.xrun]. split; [exact Hs1|].
        split; [eapply resp_idle; [exact Ex | exact Er]|].
        split; [unfold CX_range.pouts; cbn; rewrite app_nil_r, Eo; apply feed_cproj|].
        split; [exact Etd|]. split; [intros u Hn; rewrite Eth; apply upd_neq; exact Hn | exact HT1].
      + (* not yet *)
        destruct (XMachine.xrun _ _ _ _ _ _ _ _ _ _ _ _ xs' (repeat t m)) as [xs2 ls2] eqn:Er2. cbn [snd] in Hin.
        apply in_app_or in Hin. destruct Hin as [Hin|Hin]; [exfalso; apply (in_res_of t res ls Hin); exact Er|].
        assert (Hq1 : qk (pthr p1 t) = Some (o, k)) by (rewrite Eth, upd_eq; exact Hf).
        destruct (IH p1 xs' Hs1 HT1 Hq1) as [n [r [Hn [A [B [C [D [F [G H]]]]]]]]]; [exists res; rewrite Er2; exact Hin|].
        exists (S n), r. cbn [repeat XMachine.xrun]. rewrite Ex.
        destruct (pafter_cons_some p t (repeat t n) p1 os _ E) as [A1 B1]. rewrite A1, B1.
        split; [lia|]. split; [exact A|].
        split; [destruct (XMachine.xrun _ _ _ _ _ _ _ _ _ _ _ _ xs' (repeat t n)); exact B|].
        split; [destruct (XMachine.xrun _ _ _ _ _ _ _ _ _ _ _ _ xs' (repeat t n)); exact C|].
        split; [rewrite cproj_app, D, Eo, feed_cproj; reflexivity|].
        split; [rewrite F; exact Etd|]. split; [intros u Hu; rewrite (G u Hu), Eth; apply upd_neq; exact Hu | exact H].
    - (* the machine thread cannot move: nor can the product thread *)
      destruct (IH p xs Hs HT Hq) as [n [r [Hn H]]]; [exists res; exact Hin|].
      exists n, r. split; [lia | exact H].
  Qed.

  (* ---------------- a map call of thread t, t moved alone ---------------- *)

  Lemma xrun_idle_noop xs t j : g_pc xs t = PIdle -> g_todo xs t = [] -> xrun xs (repeat t j) = (xs, []).
  Proof.
    intros Hp Ht. induction j as [|j IH]; [reflexivity|]. cbn [repeat XMachine.xrun].
    assert (E : xstep xs t = None) by (unfold XMachine.xstep; rewrite Hp, Ht; reflexivity). rewrite E. exact IH.
  Qed.

  Lemma repeat_plus {X} (x : X) a b : repeat x (a + b) = repeat x a ++ repeat x b.
  Proof. induction a as [|a IH]; [reflexivity|]. cbn [Nat.add repeat app]. rewrite IH. reflexivity. Qed.

  Definition after_solo (t : nat) (p : pconf) (n : nat) (q' : qst) (hist : list (hev cop cres)) : Prop :=
    let p' := pafter p (repeat t n) in
    pthr p' t = q' /\ ptodo p' = ptodo p /\ (forall u, u <> t -> pthr p' u = pthr p u)
    /\ cproj (pouts p (repeat t n)) = hist
    /\ (exists L', Reach (px p') L') /\ TI p' /\ calm (px p') t.

  (* two stretches of moves of t, one after the other *)
  Lemma after_solo_chain t p a q1 h1 b q2 h2 :
    after_solo t p a q1 h1 -> after_solo t (pafter p (repeat t a)) b q2 h2 -> after_solo t p (a + b) q2 (h1 ++ h2).
  Proof.
    intros [A1 [A2 [A3 [A4 _]]]] [B1 [B2 [B3 [B4 [B5 [B6 B7]]]]]]. unfold after_solo.
    rewrite repeat_plus, pafter_app, pouts_app, cproj_app, A4, B4.
    split; [exact B1|]. split; [rewrite B2; exact A2|]. split; [intros u Hu; rewrite (B3 u Hu); apply A3; exact Hu|]. auto.
  Qed.

  Lemma solo_mapcall_idle t p L o k xo : Reach (px p) L -> TI p -> calm (px p) t -> qk (pthr p t) = Some (o, k) ->
    g_pc (px p) t = PIdle -> g_todo (px p) t = [xo] ->
    exists n r, after_solo t p n (QRun o (k r)) [].
  Proof.
    intros HR HT Hc Hq Hp Htd.
    destruct (reach_sim p L HR) as [xs [Hs HXT]].
    pose proof (sim_calm p xs t Hs Hc) as Hcx.
    assert (Hpx : g_pc xs t = PIdle) by (rewrite (sim_pc p xs t Hs); exact Hp).
    assert (Htx : g_todo xs t = [xo]) by (rewrite (sim_todo p xs t Hs); exact Htd).
    destruct Hx as [[H1 [H2 H3]] _].
    destruct (X_term.solo_call eqd hash idx tag nslots seeds grow_needed shrink_policy probe nstripes minlen grow_only H1 H2 H3 Hg
                xs t xo [] HXT Hcx Hpx Htx) as [m [_ F]]. cbv zeta in F. destruct F as [_ [_ [_ [F4 [_ [F6 _]]]]]].
    destruct (replay_until t o k m p xs Hs HT Hq F4) as [n [r [Hn [A [B [C [D [E [G H]]]]]]]]].
    exists n, r. unfold after_solo. split; [exact A|]. split; [exact E|]. split; [exact G|]. split; [exact D|].
    split; [eexists; apply (Reach_run eqd hash idx tag nslots seeds grow_needed shrink_policy probe nstripes minlen grow_only len0 progs NOW DFLT CB sup); exact HR|].
    split; [exact H|].
    (* the machine does not move any more: the state after n steps is the state after m steps *)
    set (xsn := fst (xrun xs (repeat t n))) in *.
    assert (Htn : g_todo xsn t = []).
    { rewrite (sim_todo _ xsn t B). pose proof (H t) as Ht. unfold CX_range.TIq in Ht. rewrite A in Ht. apply Ht. }
    replace m with (n + (m - n)) in F6 by lia. rewrite repeat_plus, xrun_app' in F6. cbn [fst] in F6. fold xsn in F6.
    rewrite (xrun_idle_noop xsn t (m - n) C Htn) in F6. cbn [fst] in F6.
    apply (sim_calm' _ xsn t B F6).
  Qed.

  Lemma solo_mapcall t p L o k xo : Reach (px p) L -> TI p -> calm (px p) t ->
    (exists mo, pthr p t = QPushed o mo k) \/ pthr p t = QSPushed o k -> g_todo (px p) t = [xo] ->
    exists n r, after_solo t p n (QRun o (k r)) [].
  Proof.
    intros HR HT Hc Hq Htd.
    assert (Hqk : qk (pthr p t) = Some (o, k)) by (destruct Hq as [[mo ->]| ->]; reflexivity).
    assert (Hid : x2_idle (px p) t).
    { pose proof (HT t) as Ht. unfold CX_range.TIq in Ht. destruct Hq as [[mo E]|E]; rewrite E in Ht; apply Ht. }
    destruct Hid as [Hst|Hi]; [|apply (solo_mapcall_idle t p L o k xo HR HT Hc Hqk Hi Htd)].
    (* the goroutine of the map thread starts first *)
    destruct (reach_sim p L HR) as [xs [Hs HXT]].
    assert (Hpx : g_pc xs t = PStart) by (rewrite (sim_pc p xs t Hs); exact Hst).
    assert (Ex : xstep xs t = Some (set_pc xs t PIdle, [XStep t KStart])) by (unfold XMachine.xstep; rewrite Hpx; reflexivity).
    destruct (sim_mach_step p xs t _ _ Hs (qk_mach _ _ Hqk) Ex) as [p1 [os [E [Hs1 [Eth [Etd1 [Eo Exp]]]]]]].
    pose proof (TIstep p t p1 os _ HT E) as HT1.
    pose proof (Rstep p L t p1 os _ HR E) as HR1.
    assert (Hc1 : calm (px p1) t).
    { apply (sim_calm' p1 _ t Hs1).
      assert (Esp : step_pc xs t PStart = Some (set_pc xs t PIdle, [XStep t KStart])) by reflexivity.
      destruct (X_term.calm_step eqd hash idx tag nslots seeds grow_needed shrink_policy probe nstripes minlen grow_only xs t PStart _ _ HXT
                  (sim_calm p xs t Hs Hc) Hpx Esp) as [_ [Hc' _]]. exact Hc'. }
    destruct (start_step eqd hash idx tag nslots seeds grow_needed shrink_policy probe nstripes minlen grow_only _ _ _ _ Hst Exp) as [_ [Hp1 Htd1]].
    assert (Eq1 : pthr p1 t = pthr p t).
    { rewrite Eth, upd_eq. destruct Hq as [[mo ->]| ->]; reflexivity. }
    assert (Hqk1 : qk (pthr p1 t) = Some (o, k)) by (rewrite Eq1; exact Hqk).
    destruct (solo_mapcall_idle t p1 _ o k xo HR1 HT1 Hc1 Hqk1 Hp1) as [n [r [A [B [C [D [F [G H]]]]]]]]; [rewrite Htd1; exact Htd|].
    exists (S n), r. unfold after_solo. cbn [repeat].
    destruct (pafter_cons_some p t (repeat t n) p1 os _ E) as [A1 B1]. rewrite A1, B1.
    split; [exact A|]. split; [rewrite B; exact Etd1|]. split; [intros u Hu; rewrite (C u Hu), Eth; apply upd_neq; exact Hu|].
    split; [rewrite cproj_app, D, Eo, feed_cproj; reflexivity|]. auto.
  Qed.

  (* ---------------- a cache method of thread t, t moved alone ---------------- *)

  (* every path of the program can run in the product machine *)
  Fixpoint okp {R} (pr : Client.prog K V R) : Prop :=
    match pr with
    | Ret _ => True
    | MapCall mo k => (mo = CSnapshot \/ sup mo = true) /\ forall r, okp (k r)
    | ReadNow k => forall z, okp (k z)
    | ReadDflt k => forall z, okp (k z)
    | ReadCb k => forall c, okp (k c)
    | Emit _ k => okp k
    | WriteDflt _ _ | WriteCb _ _ => False
    end.

  (* a move of the client alone that leaves the machine as it is *)
  Lemma client_move t p L q os : Reach (px p) L -> TI p -> calm (px p) t ->
    gstep p t = Some ({| p_x := px p; p_thr := upd (pthr p) t q; p_todo := ptodo p |}, os, []) ->
    after_solo t p 1 q (cproj os).
  Proof.
    intros HR HT Hc E. unfold after_solo. cbn [repeat].
    destruct (pafter_cons_some p t [] _ os _ E) as [A B]. rewrite A, B. unfold CX_range.pouts. cbn [CX_product2.prun CX_range.grun fst snd]. rewrite pafter_nil.
    cbn [p_x p_thr p_todo]. split; [apply upd_eq|]. split; [reflexivity|]. split; [intros u Hu; apply upd_neq; exact Hu|].
    split; [rewrite app_nil_r; reflexivity|]. split; [exists L; exact HR|]. split; [apply (TIstep p t _ os _ HT E) | exact Hc].
  Qed.

  Theorem solo_prog t o : forall pr, okp pr -> forall p L, Reach (px p) L -> TI p -> calm (px p) t -> pthr p t = QRun o pr ->
    exists n r, after_solo t p n QIdle [HRes t r].
  Proof.
    induction pr as [r|mo k IH|k IH|k IH|d k IH|k IH|cb k IH|e k IH]; intros Hok p L HR HT Hc Eq; cbn [okp] in Hok.
    - (* return *)
      exists 1, r. apply (client_move t p L QIdle [OC (HRes t r)] HR HT Hc).
      unfold CX_range.gstep, CX_product2.pstep. rewrite Eq. reflexivity.
    - (* a map call: pushed, run on the machine, answered *)
      destruct Hok as [Hsup Hk].
      assert (Hpush : exists xo q, gstep p t = Some ({| p_x := xpush (px p) t xo; p_thr := upd (pthr p) t q; p_todo := ptodo p |}, [], [])
                                   /\ ((exists mo', q = QPushed o mo' k) \/ q = QSPushed o k)).
      { unfold CX_range.gstep, CX_product2.pstep. rewrite Eq.
        destruct mo; try (destruct Hsup as [Hc0|Hs]; [discriminate Hc0|]; rewrite Hs; eexists; eexists; split; [reflexivity|]; left; eexists; reflexivity).
        eexists. eexists. split; [reflexivity|]. right. reflexivity. }
      destruct Hpush as [xo [q [E Hq]]].
      set (p1 := {| p_x := xpush (px p) t xo; p_thr := upd (pthr p) t q; p_todo := ptodo p |}) in *.
      pose proof (TIstep p t p1 _ _ HT E) as HT1.
      pose proof (Rstep p L t p1 _ _ HR E) as HR1.
      assert (Hc1 : calm (px p1) t) by (unfold p1; cbn [p_x]; unfold CX_product2.push; apply (proj2 (calm_wtodo _ _ t)); exact Hc).
      assert (Htd1 : g_todo (px p1) t = [xo]).
      { unfold p1. cbn [p_x]. unfold CX_product2.push. cbn [CX_mapof.with_todo g_todo]. rewrite upd_eq.
        pose proof (HT t) as Ht. unfold CX_range.TIq in Ht. rewrite Eq in Ht. destruct Ht as [Ht _]. rewrite Ht. reflexivity. }
      assert (Eq1 : pthr p1 t = q) by (unfold p1; cbn [p_thr]; apply upd_eq).
      destruct (solo_mapcall t p1 _ o k xo HR1 HT1 Hc1) as [n1 [r1 H1]]; [rewrite Eq1; exact Hq | exact Htd1|].
      assert (H0 : after_solo t p 1 q []).
      { unfold after_solo. cbn [repeat]. destruct (pafter_cons_some p t [] p1 _ _ E) as [A B]. rewrite A, B.
        unfold CX_range.pouts. cbn [CX_product2.prun CX_range.grun fst snd]. rewrite pafter_nil.
        split; [exact Eq1|]. split; [reflexivity|]. split; [intros u Hu; unfold p1; cbn [p_thr]; apply upd_neq; exact Hu|].
        split; [reflexivity|]. split; [eexists; exact HR1|]. split; [exact HT1 | exact Hc1]. }
      assert (Ep1 : pafter p (repeat t 1) = p1) by (cbn [repeat]; destruct (pafter_cons_some p t [] p1 _ _ E) as [A _]; rewrite A; apply pafter_nil).
      pose proof (after_solo_chain t p 1 q [] n1 (QRun o (k r1)) [] H0) as H01. rewrite Ep1 in H01. specialize (H01 H1).
      pose proof H01 as H01c. destruct H01c as [A [B [C [D [[L2 F] [G H]]]]]].
      destruct (IH r1 (Hk r1) _ L2 F G H A) as [n2 [r2 H2]].
      exists ((1 + n1) + n2), r2.
      apply (after_solo_chain t p (1 + n1) (QRun o (k r1)) ([] ++ []) n2 QIdle [HRes t r2]); [exact H01 | exact H2].
    - (* the clock *)
      assert (H0 : after_solo t p 1 (QRun o (k NOW)) (cproj [])).
      { apply (client_move t p L _ [] HR HT Hc). unfold CX_range.gstep, CX_product2.pstep. rewrite Eq. reflexivity. }
      pose proof H0 as H0c. destruct H0c as [A [B [C [D [[L2 F] [G H]]]]]].
      destruct (IH NOW (Hok NOW) _ L2 F G H A) as [n2 [r2 H2]].
      exists (1 + n2), r2. apply (after_solo_chain t p 1 (QRun o (k NOW)) [] n2 QIdle [HRes t r2]); [exact H0 | exact H2].
    - assert (H0 : after_solo t p 1 (QRun o (k DFLT)) (cproj [])).
      { apply (client_move t p L _ [] HR HT Hc). unfold CX_range.gstep, CX_product2.pstep. rewrite Eq. reflexivity. }
      pose proof H0 as H0c. destruct H0c as [A [B [C [D [[L2 F] [G H]]]]]].
      destruct (IH DFLT (Hok DFLT) _ L2 F G H A) as [n2 [r2 H2]].
      exists (1 + n2), r2. apply (after_solo_chain t p 1 (QRun o (k DFLT)) [] n2 QIdle [HRes t r2]); [exact H0 | exact H2].
    - destruct Hok.
    - assert (H0 : after_solo t p 1 (QRun o (k CB)) (cproj [])).
      { apply (client_move t p L _ [] HR HT Hc). unfold CX_range.gstep, CX_product2.pstep. rewrite Eq. reflexivity. }
      pose proof H0 as H0c. destruct H0c as [A [B [C [D [[L2 F] [G H]]]]]].
      destruct (IH CB (Hok CB) _ L2 F G H A) as [n2 [r2 H2]].
      exists (1 + n2), r2. apply (after_solo_chain t p 1 (QRun o (k CB)) [] n2 QIdle [HRes t r2]); [exact H0 | exact H2].
    - destruct Hok.
    - assert (H0 : after_solo t p 1 (QRun o k) (cproj [])).
      { apply (client_move t p L _ [] HR HT Hc). unfold CX_range.gstep, CX_product2.pstep. rewrite Eq. reflexivity. }
      pose proof H0 as H0c. destruct H0c as [A [B [C [D [[L2 F] [G H]]]]]].
      destruct (IH Hok _ L2 F G H A) as [n2 [r2 H2]].
      exists (1 + n2), r2. apply (after_solo_chain t p 1 (QRun o k) [] n2 QIdle [HRes t r2]); [exact H0 | exact H2].
  Qed.

  (* ---------------- a whole call, all the calls of a thread, all threads ---------------- *)

  (* thread u has returned from everything *)
  Definition fin (p : pconf) (u : nat) : Prop := pthr p u = QIdle /\ ptodo p u = [].

  (* everything thread u still has to run can run in the product machine; it is not inside a map call *)
  Definition okt (p : pconf) (u : nat) : Prop :=
    match pthr p u with QIdle => True | QRun _ pr => okp pr | _ => False end
    /\ Forall (fun o => okp (progs o)) (ptodo p u).

  Definition same_others (t : nat) (p p' : pconf) : Prop := forall u, u <> t -> pthr p' u = pthr p u /\ ptodo p' u = ptodo p u.

  Definition good (t : nat) (p : pconf) : Prop := (exists L, Reach (px p) L) /\ TI p /\ calm (px p) t.

  Theorem solo_call_completes t p o rest : good t p -> pthr p t = QIdle -> ptodo p t = o :: rest -> okp (progs o) ->
    exists n r, let p' := pafter p (repeat t n) in
      pthr p' t = QIdle /\ ptodo p' t = rest /\ same_others t p p'
      /\ cproj (pouts p (repeat t n)) = [HInv t o; HRes t r] /\ good t p'.
  Proof.
    intros [[L HR] [HT Hc]] Eq Etd Hok.
    set (p1 := {| p_x := px p; p_thr := upd (pthr p) t (QRun o (progs o)); p_todo := upd (ptodo p) t rest |}).
    assert (E : gstep p t = Some (p1, [OC (HInv t o)], [])) by (unfold CX_range.gstep, CX_product2.pstep; rewrite Eq, Etd; reflexivity).
    pose proof (TIstep p t p1 _ _ HT E) as HT1.
    destruct (solo_prog t o (progs o) Hok p1 L HR HT1 Hc) as [n [r [A [B [C [D [F [G H]]]]]]]]; [unfold p1; cbn [p_thr]; apply upd_eq|].
    exists (S n), r. cbn [repeat]. destruct (pafter_cons_some p t (repeat t n) p1 _ _ E) as [A1 B1]. cbv zeta. rewrite A1, B1.
    split; [exact A|]. split; [rewrite B; unfold p1; cbn [p_todo]; apply upd_eq|].
    split; [intros u Hu; rewrite (C u Hu), B; unfold p1; cbn [p_thr p_todo]; rewrite !upd_neq by exact Hu; auto|].
    split; [rewrite cproj_app, D; reflexivity|]. split; [exact F | auto].
  Qed.

  Lemma same_others_trans t p p1 p2 : same_others t p p1 -> same_others t p1 p2 -> same_others t p p2.
  Proof. intros A B u Hu. destruct (A u Hu) as [A1 A2]. destruct (B u Hu) as [B1 B2]. split; congruence. Qed.

  (* all the calls thread t still has to make *)
  Lemma solo_todo_completes t : forall l p, good t p -> pthr p t = QIdle -> ptodo p t = l -> Forall (fun o => okp (progs o)) l ->
    exists n, let p' := pafter p (repeat t n) in fin p' t /\ same_others t p p' /\ good t p'.
  Proof.
    induction l as [|o rest IH]; intros p Hgd Eq Etd Hok.
    - exists 0. cbn [repeat]. cbv zeta. rewrite pafter_nil. split; [split; assumption|]. split; [intros u _; auto | exact Hgd].
    - inversion Hok as [|? ? Ho Hrest]; subst.
      destruct (solo_call_completes t p o rest Hgd Eq Etd Ho) as [n1 [r [A [B [C [_ F]]]]]].
      destruct (IH _ F A B Hrest) as [n2 [G [H I]]].
      exists (n1 + n2). cbv zeta. rewrite repeat_plus, pafter_app. split; [exact G|]. split; [eapply same_others_trans; eassumption | exact I].
  Qed.

  Theorem solo_thread_completes t p : good t p -> okt p t ->
    exists n, let p' := pafter p (repeat t n) in fin p' t /\ same_others t p p' /\ good t p'.
  Proof.
    intros Hgd [Hq Htd]. destruct (pthr p t) as [|o pr| | | |] eqn:Eq; try contradiction.
    - apply (solo_todo_completes t (ptodo p t) p Hgd Eq eq_refl Htd).
    - destruct Hgd as [[L HR] [HT Hc]].
      destruct (solo_prog t o pr Hq p L HR HT Hc Eq) as [n1 [r [A [B [C [_ [F [G H]]]]]]]].
      destruct (solo_todo_completes t (ptodo p t) (pafter p (repeat t n1))) as [n2 [I [J K2]]];
        [split; [exact F | auto] | exact A | rewrite B; reflexivity | exact Htd|].
      exists (n1 + n2). cbv zeta. rewrite repeat_plus, pafter_app. split; [exact I|]. split; [|exact K2].
      eapply same_others_trans; [|exact J]. intros u Hu. rewrite (C u Hu), B. auto.
  Qed.

  (* nobody holds anything *)
  Lemma calm_idle_quiet' (x : xstate) t : calm x t -> x2_idle x t -> quiet x.
  Proof.
    intros Hc Hi.
    assert (Ht : holds hash idx nslots nstripes x (g_pc x t) = None /\ holds_mu (g_pc x t) = false /\ resizer (g_pc x t) = false)
      by (destruct Hi as [-> | ->]; cbn; auto).
    split; [|split]; intros u; (destruct (Nat.eq_dec u t) as [->|Hn]; [apply Ht | apply (Hc u Hn)]).
  Qed.

  Lemma quiet_good p t : (exists L, Reach (px p) L) -> TI p -> quiet (px p) -> good t p.
  Proof.
    intros [L HR] HT Hq. split; [exists L; exact HR|]. split; [exact HT|].
    destruct (reach_sim p L HR) as [xs [Hs HXT]]. apply (sim_calm' p xs t Hs).
    apply (X_term.quiet_calm hash idx nslots nstripes xs t HXT). destruct Hs as [td [-> _]]. apply (proj2 (quiet_wtodo _ _)). exact Hq.
  Qed.

  (* from a configuration in which nobody holds anything and nobody is inside a map call: the threads of ths, one after the other *)
  Theorem quiet_all_complete : forall ths p, (exists L, Reach (px p) L) -> TI p -> quiet (px p) -> (forall u, okt p u) ->
    exists sched, let p' := pafter p sched in
      (forall u, In u ths \/ fin p u -> fin p' u) /\ (forall u, okt p' u)
      /\ (exists L, Reach (px p') L) /\ TI p' /\ quiet (px p').
  Proof.
    induction ths as [|t ths IH]; intros p HR HT Hq Hok.
    - exists []. cbv zeta. rewrite pafter_nil. split; [intros u [[]|H]; exact H | auto].
    - destruct (solo_thread_completes t p (quiet_good p t HR HT Hq) (Hok t)) as [n [A [B [C [D E]]]]].
      set (p1 := pafter p (repeat t n)) in *.
      assert (Hq1 : quiet (px p1)).
      { apply (calm_idle_quiet' _ t E). pose proof (D t) as Dt. unfold CX_range.TIq in Dt. destruct A as [A _]. rewrite A in Dt. apply Dt. }
      assert (Hok1 : forall u, okt p1 u).
      { intros u. destruct (Nat.eq_dec u t) as [->|Hn].
        - destruct A as [A1 A2]. unfold okt. rewrite A1, A2. split; [exact I | constructor].
        - destruct (B u Hn) as [B1 B2]. unfold okt. rewrite B1, B2. apply Hok. }
      destruct (IH p1 C D Hq1 Hok1) as [sched [F G]].
      exists (repeat t n ++ sched). cbv zeta. rewrite pafter_app. fold p1. split; [|exact G].
      intros u [[<-|Hin]|Hf]; apply F; [right; exact A | left; exact Hin|].
      destruct (Nat.eq_dec u t) as [->|Hn]; [right; exact A|]. right. destruct (B u Hn) as [B1 B2]. destruct Hf as [F1 F2]. split; congruence.
  Qed.

  (* ---------------- from every reachable configuration ---------------- *)

  (* a thread that has started never stands at PStart again *)
  Lemma wake_start (q : pc) : wake q = PStart -> q = PStart.
  Proof. destruct q; cbn; intros H; try discriminate H; reflexivity. Qed.

  Lemma xstep_start_back xs u xs' ls w : XTI xs -> xstep xs u = Some (xs', ls) -> g_pc xs' w = PStart -> w <> u /\ g_pc xs w = PStart.
  Proof.
    intros [_ [_ HK]] Ex Hw.
    destruct (Nat.eq_dec w u) as [->|Hn].
    - exfalso. destruct (pc_idle_dec (g_pc xs u)) as [Hp|Hp].
      + rewrite (X_linearizable2.xstep_idle eqd hash idx tag nslots seeds grow_needed shrink_policy probe nstripes minlen grow_only xs u Hp) in Ex.
        destruct (g_todo xs u) as [|o rest]; [discriminate Ex|].
        destruct (step_pc (xinvoke xs u o rest) u (start_pc o)) as [[s2 ls2]|] eqn:E2; inversion Ex; subst xs' ls; clear Ex.
        * destruct (X_term.step_ret eqd hash idx tag nslots seeds grow_needed shrink_policy probe nstripes minlen grow_only _ _ _ _ _ (X_term.start_rk o) E2) as [H _].
          apply H. exact Hw.
        * cbn [X_linearizable2.xinvoke g_pc] in Hw. destruct (Nat.eq_dec u u) as [_|Hc]; [|congruence]. destruct o; cbn in Hw; try discriminate Hw. destruct lie; discriminate Hw.
      + rewrite (X_linearizable2.xstep_nonidle eqd hash idx tag nslots seeds grow_needed shrink_policy probe nstripes minlen grow_only xs u Hp) in Ex.
        destruct (X_term.step_ret eqd hash idx tag nslots seeds grow_needed shrink_policy probe nstripes minlen grow_only _ _ _ _ _ (HK u) Ex) as [H _].
        apply H. exact Hw.
    - split; [exact Hn|].
      destruct (xstep_other_pc eqd hash idx tag nslots seeds grow_needed shrink_policy probe nstripes minlen grow_only xs u xs' ls w Ex Hn) as [[E|E] _];
        [rewrite <- E; exact Hw | apply wake_start; rewrite <- E; exact Hw].
  Qed.

  Lemma XTI_step xs u xs' ls : XTI xs -> xstep xs u = Some (xs', ls) -> XTI xs'.
  Proof.
    destruct Hx as [[H1 [H2 H3]] _].
    apply (X_term.TI_xstep eqd hash idx tag nslots seeds grow_needed shrink_policy probe nstripes minlen grow_only H1 H2 H3).
  Qed.

  Lemma xrun_keeps_started u : forall cont xs, XTI xs -> g_pc xs u <> PStart -> g_pc (fst (xrun xs cont)) u <> PStart.
  Proof.
    induction cont as [|a rest IH]; intros xs HT Hu; [exact Hu|]. cbn [XMachine.xrun].
    destruct (xstep xs a) as [[xs' ls]|] eqn:Ex; [|apply IH; assumption].
    specialize (IH xs' (XTI_step _ _ _ _ HT Ex)). destruct (XMachine.xrun _ _ _ _ _ _ _ _ _ _ _ _ xs' rest). cbn [fst] in *. apply IH.
    intros Hc. apply Hu. apply (xstep_start_back xs a xs' ls u HT Ex Hc).
  Qed.

  Lemma scheduled_started u : forall cont xs, XTI xs -> In u cont -> g_pc (fst (xrun xs cont)) u <> PStart.
  Proof.
    induction cont as [|a rest IH]; intros xs HT Hin; [destruct Hin|]. cbn [XMachine.xrun].
    destruct (xstep xs a) as [[xs' ls]|] eqn:Ex.
    - pose proof (XTI_step _ _ _ _ HT Ex) as HT'.
      destruct Hin as [->|Hin].
      + pose proof (xrun_keeps_started u rest xs' HT') as H. destruct (XMachine.xrun _ _ _ _ _ _ _ _ _ _ _ _ xs' rest). cbn [fst] in *. apply H.
        intros Hc. destruct (xstep_start_back xs u xs' ls u HT Ex Hc) as [Hne _]. apply Hne. reflexivity.
      + specialize (IH xs' HT' Hin). destruct (XMachine.xrun _ _ _ _ _ _ _ _ _ _ _ _ xs' rest). exact IH.
    - destruct Hin as [->|Hin]; [|apply IH; assumption].
      apply xrun_keeps_started; [exact HT|]. intros Hc. unfold XMachine.xstep in Ex. rewrite Hc in Ex. discriminate Ex.
  Qed.

  (* a run of XMachine from xs in which no thread that is outside a map call AND has not started is scheduled:
     the product can follow it *)
  Lemma replay_all : forall cont p xs, sim p xs -> TI p -> XTI xs ->
    (forall u, In u cont -> mach (pthr p u) = false -> g_pc xs u <> PStart) ->
    exists sched, sim (pafter p sched) (fst (xrun xs cont)) /\ TI (pafter p sched).
  Proof.
    induction cont as [|a rest IH]; intros p xs Hs HT HXT Hc.
    - exists []. rewrite pafter_nil. auto.
    - cbn [XMachine.xrun]. destruct (xstep xs a) as [[xs' ls]|] eqn:Ex.
      + destruct (mach (pthr p a)) eqn:Hm.
        * destruct (sim_mach_step p xs a xs' ls Hs Hm Ex) as [p1 [os [E [Hs1 [Eth _]]]]].
          pose proof (TIstep p a p1 os _ HT E) as HT1.
          destruct (IH p1 xs' Hs1 HT1 (XTI_step _ _ _ _ HXT Ex)) as [sched [A B]].
          { intros u Hin Hmu Hst. destruct (xstep_start_back xs a xs' ls u HXT Ex Hst) as [Hne Hst0].
            apply (Hc u (or_intror Hin)); [|exact Hst0]. rewrite Eth, upd_neq in Hmu by exact Hne. exact Hmu. }
          exists (a :: sched). destruct (pafter_cons_some p a sched p1 os _ E) as [A1 _]. rewrite A1.
          destruct (XMachine.xrun _ _ _ _ _ _ _ _ _ _ _ _ xs' rest). auto.
        * (* impossible: a thread outside a map call is idle with nothing to do, or has not started *)
          exfalso. pose proof (HT a) as Ha. unfold CX_range.TIq in Ha.
          assert (Hi : g_todo (px p) a = [] /\ x2_idle (px p) a) by (destruct (pthr p a); try discriminate Hm; exact Ha).
          destruct Hi as [Htd [Hst|Hid]].
          -- apply (Hc a (or_introl eq_refl) Hm). rewrite (sim_pc p xs a Hs). exact Hst.
          -- unfold XMachine.xstep in Ex. rewrite (sim_pc p xs a Hs), Hid, (sim_todo p xs a Hs), Htd in Ex. discriminate Ex.
      + apply (IH p xs Hs HT HXT). intros u Hin. apply Hc. right. exact Hin.
  Qed.

  (* everything a thread still has to run can run in the product machine (also inside a map call) *)
  Definition okfull (p : pconf) (u : nat) : Prop :=
    match pthr p u with
    | QIdle => True
    | QRun _ pr => okp pr
    | QPushed _ _ k | QWait _ _ k | QSPushed _ k | QSWait _ k _ => forall r, okp (k r)
    end /\ Forall (fun o => okp (progs o)) (ptodo p u).

  Lemma okfull_gstep p v p1 os h : (forall u, okfull p u) -> gstep p v = Some (p1, os, h) -> forall u, okfull p1 u.
  Proof.
    intros Hok E u. destruct (Nat.eq_dec u v) as [->|Hn].
    2:{ destruct (Gother p v p1 os h u E Hn) as [A [B _]]. unfold okfull. rewrite A, B. apply Hok. }
    pose proof (Hok v) as [Hq Htd]. unfold okfull.
    destruct (mach (pthr p v)) eqn:Hm.
    - destruct (gstep_mach eqd hash idx tag nslots seeds grow_needed shrink_policy probe nstripes minlen grow_only progs NOW DFLT CB sup p v p1 os h Hm E)
        as [ls [_ [_ [Eth [Etd _]]]]].
      rewrite Eth, Etd, upd_eq. split; [|exact Htd].
      destruct (pthr p v); try discriminate Hm; cbn [CX_product2.feed];
        destruct (so_inv xop xres (so_of ls)); destruct (so_res xop xres (so_of ls)); cbn [fst]; auto.
    - unfold CX_range.gstep, CX_product2.pstep in E. destruct (pthr p v) as [|o pr| | | |] eqn:Eq; try discriminate Hm.
      + destruct (ptodo p v) as [|o rest] eqn:Et; [discriminate E|]. inversion E; subst; clear E. cbn [p_thr p_todo]. rewrite !upd_eq.
        inversion Htd; subst. auto.
      + destruct pr as [r|mo k|k|k|d k|k|cb k|e k]; try discriminate E; cbn [okp] in Hq;
          try (inversion E; subst; clear E; cbn [CX_product2.pset p_thr p_todo]; rewrite upd_eq; auto; fail).
        destruct Hq as [_ Hk]. destruct mo.
        1-7: match type of E with context [sup ?m] => destruct (sup m) end; [|discriminate E]; inversion E; subst; clear E; cbn [p_thr p_todo]; rewrite upd_eq; auto.
        inversion E; subst; clear E; cbn [p_thr p_todo]; rewrite upd_eq; auto.
  Qed.

  Lemma okfull_run sched : forall p, (forall u, okfull p u) -> forall u, okfull (pafter p sched) u.
  Proof.
    induction sched as [|v r IH]; intros p H; [exact H|]. rewrite pafter_cons.
    destruct (gstep p v) as [[[p1 os] h]|] eqn:E; [|apply IH; exact H]. apply IH. eapply okfull_gstep; eassumption.
  Qed.

  (* the threads outside cands have nothing to do and never move *)
  Definition supp (cands : list nat) (p : pconf) : Prop :=
    forall u, ~ In u cands -> pthr p u = QIdle /\ ptodo p u = [] /\ g_pc (px p) u = PStart.

  Lemma supp_gstep cands p v p1 os h : supp cands p -> gstep p v = Some (p1, os, h) -> supp cands p1.
  Proof.
    intros Hs E u Hu. destruct (Hs u Hu) as [A [B C]].
    destruct (Nat.eq_dec u v) as [->|Hn].
    - exfalso. unfold CX_range.gstep, CX_product2.pstep in E. rewrite A, B in E. discriminate E.
    - destruct (Gother p v p1 os h u E Hn) as [A1 [B1 _]]. rewrite A1, B1. split; [exact A|]. split; [exact B|].
      destruct (mach (pthr p v)) eqn:Hm.
      + destruct (gstep_mach eqd hash idx tag nslots seeds grow_needed shrink_policy probe nstripes minlen grow_only progs NOW DFLT CB sup p v p1 os h Hm E)
          as [ls [Ex _]].
        destruct (xstep_other_pc eqd hash idx tag nslots seeds grow_needed shrink_policy probe nstripes minlen grow_only _ _ _ _ u Ex Hn) as [[H|H] _];
          rewrite H, C; reflexivity.
      + destruct (gstep_client eqd hash idx tag nslots seeds grow_needed shrink_policy probe nstripes minlen grow_only progs NOW DFLT CB sup p v p1 os h Hm E)
          as [_ [Ex|[xo Ex]]]; rewrite Ex; exact C.
  Qed.

  Lemma supp_run cands sched : forall p, supp cands p -> supp cands (pafter p sched).
  Proof.
    induction sched as [|v r IH]; intros p H; [exact H|]. rewrite pafter_cons.
    destruct (gstep p v) as [[[p1 os] h]|] eqn:E; [|apply IH; exact H]. apply IH. eapply supp_gstep; eassumption.
  Qed.

  Definition is_start (q : pc) : bool := match q with PStart => true | _ => false end.

  (* first the machine: every pending map call is finished, nobody holds anything (X_term.can_finish) *)
  Theorem reach_quiet_conf cands p : (exists L, Reach (px p) L) -> TI p -> supp cands p ->
    exists sched, let p' := pafter p sched in
      (forall u, mach (pthr p' u) = false) /\ quiet (px p') /\ TI p'.
  Proof.
    intros [L HR] HT Hsup.
    destruct (reach_sim p L HR) as [xs [Hs HXT]].
    set (ths := filter (fun u => mach (pthr p u) || negb (is_start (g_pc (px p) u))) cands).
    assert (Hths : forall u, ~ In u ths -> mach (pthr p u) = false /\ g_pc xs u = PStart).
    { intros u Hu. rewrite (sim_pc p xs u Hs). destruct (in_dec Nat.eq_dec u cands) as [Hin|Hni].
      - assert (Hf : (mach (pthr p u) || negb (is_start (g_pc (px p) u))) = false).
        { destruct (mach (pthr p u) || negb (is_start (g_pc (px p) u))) eqn:Hb; [|reflexivity]. exfalso. apply Hu. apply filter_In. auto. }
        apply Bool.orb_false_iff in Hf. destruct Hf as [F1 F2]. split; [exact F1|].
        destruct (g_pc (px p) u); cbn in F2; try discriminate F2. reflexivity.
      - destruct (Hsup u Hni) as [A [_ C]]. rewrite A. auto. }
    destruct Hx as [[H1 [H2 H3]] _].
    destruct (X_term.can_finish eqd hash idx tag nslots seeds grow_needed shrink_policy probe nstripes minlen grow_only H1 H2 H3 Hg ths xs HXT
                (fun u Hu => proj2 (Hths u Hu))) as [cont Hf]. cbv zeta in Hf. destruct Hf as [F1 [F2 [F3 F4]]].
    destruct (replay_all cont p xs Hs HT HXT) as [sched [A B]].
    { intros u Hin Hmu Hst. destruct (in_dec Nat.eq_dec u ths) as [Hi|Hni].
      - apply filter_In in Hi. destruct Hi as [_ Hb]. rewrite Hmu in Hb. cbn [orb] in Hb. rewrite <- (sim_pc p xs u Hs), Hst in Hb. discriminate Hb.
      - destruct (F2 u Hni) as [Hend _]. apply (scheduled_started u cont xs HXT Hin). exact Hend. }
    exists sched. cbv zeta. set (p' := pafter p sched) in *. set (xe := fst (xrun xs cont)) in *.
    split; [|split; [apply (sim_quiet' p' xe A F4) | exact B]].
    intros u. destruct (mach (pthr p' u)) eqn:Hm; [exfalso|reflexivity].
    (* the machine thread of u is idle with an empty todo list, or has not started and has an empty todo list *)
    assert (Hu : g_todo xe u = [] /\ (g_pc xe u = PIdle \/ g_pc xe u = PStart)).
    { destruct (in_dec Nat.eq_dec u ths) as [Hi|Hni].
      - destruct (F1 u Hi) as [X Y]. auto.
      - destruct (F2 u Hni) as [X Y]. split; [|auto]. rewrite Y, (sim_todo p xs u Hs).
        destruct (Hths u Hni) as [Hmu _]. pose proof (HT u) as Hu. unfold CX_range.TIq in Hu. destruct (pthr p u); try discriminate Hmu; apply Hu. }
    destruct Hu as [Htd Hpc]. rewrite (sim_todo p' xe u A) in Htd. rewrite (sim_pc p' xe u A) in Hpc.
    pose proof (B u) as Bu. unfold CX_range.TIq in Bu.
    destruct (pthr p' u); try discriminate Hm.
    - destruct Bu as [Bu _]. rewrite Htd in Bu. discriminate Bu.
    - destruct Bu as [_ [Bu|Bu]]; [unfold CX_mapof2.x2_inkept in Bu | unfold CX_mapof2.x2_indrop in Bu]; destruct Hpc as [Hpc|Hpc]; rewrite Hpc in Bu; discriminate Bu.
    - destruct Bu as [Bu _]. rewrite Htd in Bu. discriminate Bu.
    - destruct Bu as [_ Bu]. unfold CX_mapof2.x2_indrop in Bu. destruct Hpc as [Hpc|Hpc]; rewrite Hpc in Bu; discriminate Bu.
  Qed.

  (* C13 at the cache level: no reachable configuration is doomed *)
  Theorem cache_can_always_finish cands (todo0 : nat -> list cop) sched0 :
    (forall u, Forall (fun o => okp (progs o)) (todo0 u)) -> (forall u, ~ In u cands -> todo0 u = []) ->
    let p := pafter (ginit todo0) sched0 in
    exists cont, let p' := pafter p cont in
      (forall u, pthr p' u = QIdle /\ ptodo p' u = [])
      /\ (forall u, g_todo (px p') u = [] /\ (g_pc (px p') u = PStart \/ g_pc (px p') u = PIdle))
      /\ quiet (px p').
  Proof.
    intros Hok Hsupp p.
    assert (HR : exists L, Reach (px p) L) by (eexists; apply (Reach_from_init eqd hash idx tag nslots seeds grow_needed shrink_policy probe nstripes minlen grow_only len0 progs NOW DFLT CB sup)).
    assert (HT : TI p) by (apply TI_run; apply TI_init).
    assert (HS : supp cands p).
    { apply supp_run. intros u Hu. cbn. rewrite (Hsupp u Hu). auto. }
    assert (HO : forall u, okfull p u).
    { apply okfull_run. intros u. split; [exact I | apply Hok]. }
    destruct (reach_quiet_conf cands p HR HT HS) as [s1 [A [B C]]]. cbv zeta in A, B, C.
    set (p1 := pafter p s1) in *.
    assert (HR1 : exists L, Reach (px p1) L).
    { destruct HR as [L HR]. eexists. apply (Reach_run eqd hash idx tag nslots seeds grow_needed shrink_policy probe nstripes minlen grow_only len0 progs NOW DFLT CB sup). exact HR. }
    assert (HO1 : forall u, okt p1 u).
    { intros u. destruct (okfull_run s1 p HO u) as [X Y]. fold p1 in X, Y. split; [|exact Y]. specialize (A u). destruct (pthr p1 u); try discriminate A; exact X. }
    pose proof (supp_run cands s1 p HS) as HS1. fold p1 in HS1.
    destruct (quiet_all_complete cands p1 HR1 C B HO1) as [s2 [F [_ [_ [G H]]]]].
    exists (s1 ++ s2). cbv zeta. rewrite pafter_app. fold p1. set (p2 := pafter p1 s2) in *.
    assert (Hfin : forall u, fin p2 u).
    { intros u. apply F. destruct (in_dec Nat.eq_dec u cands) as [Hi|Hni]; [left; exact Hi | right]. destruct (HS1 u Hni) as [X [Y _]]. split; assumption. }
    split; [exact Hfin|]. split; [|exact H].
    intros u. pose proof (G u) as Gu. unfold CX_range.TIq in Gu. destruct (Hfin u) as [X _]. rewrite X in Gu. destruct Gu as [Y [Z|Z]]; auto.
  Qed.

End CXTerm.
