(* C02T_ex.v -- the theorem is not vacuous: a concrete run of ConcT.v's machine with two
   threads and four ticks, every one of them INSIDE a call, to which cache_linearizable_ticking
   applies.  Clock 100, empty cache, no default expiration, no callback.
     t0: Set(7,1,10)      reads the clock (100); 3 pass; stores 7 -> (1, expires 110) at 103
     t1: GetWithTTL(7)    invoked before the Store, loads the entry at 103; 2 pass; finds it live at 105;
                          4 pass; computes the lifetime at 109: answers (1, 1, true)
     t0: GetAndDelete(7)  removes the live entry at 109; 5 pass; judges it at 114: answers (0, false)
     t1: Get(7)           misses at 114. *)
From CacheV Require Import Base SpecMap Client CacheModel Ops SpecTTL Lin LinT Conc ConcT.
From CacheV.gen Require Import Params.
From CacheV.proofs Require Import C02_good LinT_tests C02T_main.
Local Open Scope Z_scope.

Definition todoX (t : nat) : list (cop Z Z) :=
  match t with 0%nat => [OSet 7 1 10; OGetAndDelete 7] | 1%nat => [OGetWithTTL 7; OGet 7] | _ => [] end.
Definition schedX :=
  [th 0; th 0; th 1; tk 3; th 0; th 1; th 0; tk 2; th 1; tk 4; th 1; th 0; th 0; th 1; tk 5; th 1; th 1; th 0; th 0; th 1; th 0].
Definition histX : list (hevT (cop Z Z) (cres Z Z)) :=
  [HTInv 0 (OSet 7 1 10); HTInv 1 (OGetWithTTL 7); HTTick 3; HTRes 0 CUnit; HTTick 2; HTTick 4;
   HTInv 0 (OGetAndDelete 7); HTRes 1 (CValTTL 1 1 true); HTTick 5; HTInv 1 (OGet 7); HTRes 1 (CVal 0 false);
   HTRes 0 (CVal 0 false)].

Example ticking_run : runT 100 [] todoX schedX = histX.
Proof. vm_compute. reflexivity. Qed.

Example ticking_run_linearizable : cache_linearizableT Z.eq_dec 0 (st0 100) histX.
Proof.
  rewrite <- ticking_run. unfold runT.
  apply (cache_linearizable_ticking Z.eq_dec 0 0 None 100 [] [] todoX schedX).
  - apply start_empty_ticking.
  - intros [|[|t]]; cbn; repeat constructor.
Qed.

(* and one linearization, written out: the Set armed at tau = 100 (marked at 103), the GetWithTTL marked at
   its Load (103) with the lifetime relative to tau = 109, the GetAndDelete marked at 109 judging at tau = 114 *)
Example ticking_run_marks : cache_linearizableT Z.eq_dec 0 (st0 100) histX.
Proof.
  accept ([ITInv 0 (OSet 7 1 10); ITInv 1 (OGetWithTTL 7); ITTick 3; ITLin 0 (OSet 7 1 10) 100 CUnit;
           ITLin 1 (OGetWithTTL 7) 109 (CValTTL 1 1 true); ITRes 0 CUnit; ITTick 2; ITTick 4;
           ITInv 0 (OGetAndDelete 7); ITLin 0 (OGetAndDelete 7) 114 (CVal 0 false); ITRes 1 (CValTTL 1 1 true);
           ITTick 5; ITInv 1 (OGet 7); ITLin 1 (OGet 7) 114 (CVal 0 false); ITRes 1 (CVal 0 false);
           ITRes 0 (CVal 0 false)] : inst).
Qed.

(* the schedule of the refutation (LinT_tests.getanddelete_refuted) is covered as well *)
Example getanddelete_run_linearizable : cache_linearizableT Z.eq_dec 0 (st0 100) hist4.
Proof.
  rewrite <- getanddelete_run. unfold runT.
  apply (cache_linearizable_ticking Z.eq_dec 0 0 None 100 [] [] todo4 sched4).
  - apply start_empty_ticking.
  - intros [|[|t]]; cbn; repeat constructor.
Qed.

Print Assumptions ticking_run_linearizable.

(* the generic twin (xsync_mapof.go) produces the same histories under these schedules *)
Example ticking_run_twin :
  historyT (snd (trun Z.eq_dec (prog_cacheof Z.eq_dec 0) 0 None (tinit 100 [] todoX) schedX)) = histX
  /\ historyT (snd (trun Z.eq_dec (prog_cacheof Z.eq_dec 0) 0 None (tinit 100 [] todo4) sched4)) = hist4.
Proof. split; vm_compute; reflexivity. Qed.
