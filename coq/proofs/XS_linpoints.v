(* XS_linpoints.v -- where the calls of XMachineS (Map, map.go) take effect: the specification
   (the same ordinary map as for MapOf: state [X_linpoints.amap K V = K -> option V]), the
   program counters read as stages of a call, and what the specification says at the
   linearization points.  The sibling of X_linpoints.v; the machine-independent part (lists,
   generations, insertion / publish) is proofs/LinGen.v, instantiated here with [ML].

   Scope: Load / Compute / Clear.  Size and Range are not operations of the specification
   ([sokop]).  A Range is the only thing that creates a frame ([h_frame]) or emits SSubInv /
   SSubRes: [NR] (no frame, no program counter of Range or Size) is an invariant of the runs
   whose todo lists satisfy [sokop] ([NR_sstep]).

   Linearization points (XS_vis.lin_effect): update at the VALUE store QW_U1, insert at the KEY
   store QW_I3 (third of three stores) or the link of a new bucket QW_N1, delete at the WORD
   store QW_D1 (first of three stores); decisions that answer without writing: the last
   bucket scan QW_Scan (load-or-compute hit; delete / compute-to-nil of an absent key) and the
   last stripe load QW_Sum of a full chain.  Unlike MapOf the scan of the locked chain takes
   one step per bucket AFTER the table check, so such a decision may be taken on a table that a
   Clear has replaced meanwhile: it is linearized, like an overtaken store, just before that
   Clear. *)
From CacheV Require Import Base SpecMap XMachineS Lin.
From CacheV.proofs Require X_linpoints.
From CacheV.proofs Require Import X_maps XS_inv XS_lock XS_own XS_count XS_cells XS_vis XS_abs XS_resize XS_read XS_loadhit XS_loadmiss XS_stale LinGen.
From Coq Require Import NArith.
Local Open Scope nat_scope.

(* ---------------- the specification ---------------- *)
Section SSpec.
  Context {K V : Type}.
  Variable eqd : forall a b : K, {a = b} + {a <> b}.

  Notation sop := (@sop K V).
  Notation sres := (@sres V).
  Notation amap := (X_linpoints.amap K V).
  Notation aempty := (@X_linpoints.aempty K V).
  Notation aset := (@X_linpoints.aset K V eqd).
  Notation agree := (@X_linpoints.agree K V).

  Definition sokop (o : sop) : Prop :=
    match o with SLoad _ | SCompute _ _ _ _ _ | SClear => True | _ => False end.

  Definition sspec_res (m : amap) (o : sop) : sres :=
    match o with
    | SLoad k => match m k with Some v => SRVal (Some v) true | None => SRVal None false end
    | SCompute k f ev lie co =>
        match m k with
        | Some old =>
            if lie then SRVal (Some old) (negb co)
            else match f (Some old) with
                 | None => SRVal (Some old) (negb co)
                 | Some nv => if co then SRVal (Some nv) true else SRVal (Some old) true
                 end
        | None => match f None with None => SRVal None false | Some nv => SRVal (Some nv) co end
        end
    | _ => SRUnit
    end.

  Definition sspec_next (m : amap) (o : sop) : amap :=
    match o with
    | SLoad k => m
    | SCompute k f ev lie co =>
        match m k with
        | Some old => if lie then m else aset m k (f (Some old))
        | None => match f None with None => m | Some nv => aset m k (Some nv) end
        end
    | SClear => aempty
    | _ => m
    end.

  Definition ML : LSpec :=
    {| Op := sop; Res := sres; St := amap; next := sspec_next; res := sspec_res; ok := sokop; clr := SClear; s0 := aempty;
       clr_next := fun _ _ => eq_refl; clr_res := fun _ _ => eq_refl |}.

  (* the specification as a relation, for Lin.linearizable *)
  Definition sspec (m : amap) (o : sop) (r : sres) (m' : amap) : Prop :=
    sokop o /\ r = sspec_res m o /\ m' = sspec_next m o.

  Lemma sspec_ML : sspec = LinGen.xspec ML.
  Proof. reflexivity. Qed.

  (* [agree] against XS_vis.upd_rel *)
  Lemma sagree_upd (m : amap) (R : K -> V -> Prop) k nw : agree m R -> agree (aset m k nw) (XS_vis.upd_rel R (Some (k, nw))).
  Proof.
    intros H k' v. unfold XS_vis.upd_rel, X_linpoints.aset. destruct (eqd k' k) as [->|Hne].
    - destruct nw as [nv|]; split.
      + intros [[_ ->]|[Hc _]]; [reflexivity | congruence].
      + intros E. inversion E. left. auto.
      + intros [Hc _]. congruence.
      + discriminate.
    - destruct nw as [nv|]; rewrite <- (H k' v); tauto.
  Qed.
End SSpec.

(* ---------------- the program counters of XMachineS, read as stages of a call ---------------- *)
Section SStages.
  Context {K V : Type}.
  Variable eqd : forall a b : K, {a = b} + {a <> b}.
  Variable hash : K -> N -> N.
  Variable idx : N -> nat -> nat.
  Variable tophash : N -> N.
  Variable nslots : nat.
  Variable seeds : nat -> N.
  Variable grow_needed : nat -> Z -> bool.
  Variable shrink_policy : nat -> Z -> bool.
  Variable nstripes : nat -> nat.
  Variable minlen : nat.
  Variable grow_only : bool.

  Notation mstate := (@mstate K V).
  Notation spc := (@spc K V).
  Notation sop := (@sop K V).
  Notation sres := (@sres V).
  Notation slabel := (@slabel K V).
  Notation scx := (@scx K V).
  Notation scont := (@scont K V).
  Notation slcont := (@slcont K V).
  Notation lockk := (@lockk K V).
  Notation hev := (Lin.hev sop sres).
  Notation tstat := (Lin.tstat sop sres).
  Notation stab_at := (@stab_at K V nslots nstripes).
  Notation sstep_pc := (@sstep_pc K V eqd hash idx tophash nslots seeds grow_needed shrink_policy nstripes minlen grow_only).
  Notation sstep := (@sstep K V eqd hash idx tophash nslots seeds grow_needed shrink_policy nstripes minlen grow_only).
  Notation sgoto := (@sgoto K V).
  Notation swtab := (@XS_stale.swtab K V).
  Notation hit := (@XS_loadhit.hit K V).
  Notation sinvoke := (@sinvoke K V).

  (* the history of a trace: invocations and responses of top-level calls *)
  Fixpoint shist (ls : list slabel) : list hev :=
    match ls with
    | [] => []
    | SInv t o :: r => HInv t o :: shist r
    | SRes t x :: r => HRes t x :: shist r
    | _ :: r => shist r
    end.

  Lemma shist_app a b : shist (a ++ b) = shist a ++ shist b.
  Proof. induction a as [|[] a IH]; cbn; auto; f_equal; auto. Qed.

  Definition skres (kt : scont) : option sres := match kt with SKReturn r => Some r | SKRetry _ => None end.
  Definition skres_nc (kt : scont) : option sres :=
    match kt with SKReturn SRUnit => None | SKReturn r => Some r | SKRetry _ => None end.
  Definition skcx (kt : scont) : option scx := match kt with SKRetry cx => Some cx | SKReturn _ => None end.

  (* the call has taken effect and will answer r *)
  Fixpoint spend (p : spc) : option sres :=
    match p with
    | QRet r => Some r
    | QW_D2 cx _ _ old _ | QW_D3 cx _ _ old _ => Some (SRVal (Some old) (negb (sc_co cx)))
    | QU_Load _ _ _ a | QU_Store _ _ _ _ a | QA_Add _ _ _ a => spend a
    | QK_Load _ _ lk | QK_Spin _ _ lk | QK_CAS _ _ _ lk | QK_Yield _ _ lk =>
        match lk with LKCopy _ kt _ => skres_nc kt | _ => None end
    | QR_FastSum _ kt _ _ | QR_CAS _ kt | QR_Table _ kt | QR_ShSum kt _ _ _ | QR_Stat _ kt _ | QR_Publish kt _ => skres_nc kt
    | QT_Lock _ kt | QT_Load _ kt | QT_Wait _ kt | QT_Waiting _ kt | QT_Relock _ kt | QT_Unlock _ kt => skres_nc kt
    | QR_FinLock kt | QR_FinStore kt | QR_FinBcast kt | QR_FinUnlock kt => skres kt
    | _ => None
    end.

  (* a doCompute that has not taken effect yet: its context *)
  Fixpoint swcx (p : spc) : option scx :=
    match p with
    | QW_Table cx | QW_ChkRes cx _ | QW_ChkTab cx _ | QW_Scan cx _ _ _ _ | QW_D1 cx _ _ _ _ _ | QW_U1 cx _ _ _ _
    | QW_I0 cx _ _ _ | QW_I1 cx _ _ _ _ | QW_I2 cx _ _ _ | QW_I3 cx _ _ _ | QW_Sum cx _ _ _ | QW_N1 cx _ _ => Some cx
    | QU_Load _ _ _ a | QU_Store _ _ _ _ a | QA_Add _ _ _ a => swcx a
    | QK_Load _ _ lk | QK_Spin _ _ lk | QK_CAS _ _ _ lk | QK_Yield _ _ lk =>
        match lk with LKCompute cx => Some cx | LKCopy _ kt _ => skcx kt | LKRange _ => None end
    | QR_FastSum _ kt _ _ | QR_CAS _ kt | QR_Table _ kt | QR_ShSum kt _ _ _ | QR_Stat _ kt _ | QR_Publish kt _ => skcx kt
    | QT_Lock _ kt | QT_Load _ kt | QT_Wait _ kt | QT_Waiting _ kt | QT_Relock _ kt | QT_Unlock _ kt => skcx kt
    | QR_FinLock kt | QR_FinStore kt | QR_FinBcast kt | QR_FinUnlock kt => skcx kt
    | _ => None
    end.

  (* inside a lock-free lookup: key, continuation, table, hash *)
  Definition srdk (p : spc) : option (K * slcont * nat * N) :=
    match p with
    | QL_Top k lc tab h _ | QL_Val k lc tab h _ _ | QL_Key k lc tab h _ _ _ | QL_Val2 k lc tab h _ _ _ _ | QL_Next k lc tab h _ =>
        Some (k, lc, tab, h)
    | _ => None
    end.

  (* a Clear that has not published its table yet *)
  Definition sclr (p : spc) : bool :=
    match p with
    | QC_Table => true
    | QR_CAS SHClear (SKReturn SRUnit) | QR_Table SHClear (SKReturn SRUnit) | QR_Publish (SKReturn SRUnit) _ => true
    | QT_Lock (Some SHClear) (SKReturn SRUnit) | QT_Load (Some SHClear) (SKReturn SRUnit) | QT_Wait (Some SHClear) (SKReturn SRUnit)
    | QT_Waiting (Some SHClear) (SKReturn SRUnit) | QT_Relock (Some SHClear) (SKReturn SRUnit) | QT_Unlock (Some SHClear) (SKReturn SRUnit) => true
    | _ => false
    end.

  (* the table on which the thread's call is going to take effect *)
  Definition sontab (p : spc) : option nat :=
    match srdk p with Some (_, _, tab, _) => Some tab | None => swtab p end.

  (* the answer of the linearization store the thread is about to make *)
  Definition slres (p : spc) : option sres :=
    match p with
    | QW_D1 cx _ _ old _ _ => Some (SRVal (Some old) (negb (sc_co cx)))
    | QW_U1 cx _ _ old nv => Some (if sc_co cx then SRVal (Some nv) true else SRVal (Some old) true)
    | QW_I3 cx _ _ nv | QW_N1 cx _ nv => Some (SRVal (Some nv) (sc_co cx))
    | _ => None
    end.

  Definition shitres (lc : slcont) (v : V) : sres :=
    match lc with SLPlain => SRVal (Some v) true | SLFast cx => SRVal (Some v) (negb (sc_co cx)) end.

  Definition sopcx (o : sop) : option scx :=
    match o with
    | SCompute k f ev lie co => Some {| sc_k := k; sc_f := f; sc_ev := ev; sc_lie := lie; sc_co := co |}
    | _ => None
    end.

  (* the decision a writer's program counter records is the user function applied to the value found *)
  Fixpoint sdec (p : spc) : Prop :=
    match p with
    | QW_U1 cx _ _ old nv => sc_f cx (Some old) = Some nv /\ sc_lie cx = false
    | QW_D1 cx _ _ old _ _ => sc_f cx (Some old) = None /\ sc_lie cx = false
    | QW_I0 cx _ _ nv | QW_I1 cx _ _ nv _ | QW_I2 cx _ _ nv | QW_I3 cx _ _ nv | QW_N1 cx _ nv => sc_f cx None = Some nv
    | QU_Load _ _ _ a | QU_Store _ _ _ _ a | QA_Add _ _ _ a => sdec a
    | _ => True
    end.

  (* the status of a thread in the instrumented history against its program counter *)
  Definition sTOK (st : tstat) (p : spc) : Prop :=
    match st with
    | TIdle => p = QIdle \/ p = QStart
    | TInvoked o =>
        spend p = None /\
        match o with
        | SLoad k => exists tab h, srdk p = Some (k, SLPlain, tab, h)
        | SCompute k f ev lie co =>
            let cx := {| sc_k := k; sc_f := f; sc_ev := ev; sc_lie := lie; sc_co := co |} in
            (lie = true /\ exists tab h, srdk p = Some (k, SLFast cx, tab, h))
            \/ (srdk p = None /\ swcx p = Some cx)
        | SClear => sclr p = true
        | _ => False
        end
    | TLinearized o r => sokop o /\ spend p = Some r
    end.

  (* no Range, no Size: the program counters of the scope *)
  Fixpoint norange (p : spc) : Prop :=
    match p with
    | QG_Table _ | QS_Table | QS_Sum _ _ _ => False
    | QK_Load _ _ lk | QK_Spin _ _ lk | QK_CAS _ _ _ lk | QK_Yield _ _ lk => match lk with LKRange _ => False | _ => True end
    | QU_Load _ _ rg a | QU_Store _ _ _ rg a => rg = None /\ norange a
    | QA_Add _ _ _ a => norange a
    | _ => True
    end.

  Definition NR (s : mstate) : Prop := (forall t, h_frame s t = None) /\ (forall t, norange (h_pc s t)).

  (* ---------------- swake does not matter ---------------- *)

  Lemma spend_swake (p : spc) : spend (swake p) = spend p. Proof. destruct p; reflexivity. Qed.
  Lemma swcx_swake (p : spc) : swcx (swake p) = swcx p. Proof. destruct p; reflexivity. Qed.
  Lemma srdk_swake (p : spc) : srdk (swake p) = srdk p. Proof. destruct p; reflexivity. Qed.
  Lemma sontab_swake (p : spc) : sontab (swake p) = sontab p. Proof. destruct p; reflexivity. Qed.
  Lemma sclr_swake (p : spc) : sclr (swake p) = sclr p. Proof. destruct p; reflexivity. Qed.
  Lemma sdec_swake (p : spc) : sdec p -> sdec (swake p). Proof. destruct p; cbn; auto. Qed.
  Lemma norange_swake (p : spc) : norange p -> norange (swake p). Proof. destruct p; cbn; auto. Qed.

  Lemma sTOK_swake st (p : spc) : sTOK st p -> sTOK st (swake p).
  Proof.
    destruct st as [|o|o r]; cbn [sTOK].
    - intros [->| ->]; auto.
    - rewrite spend_swake. intros [A B]. split; [exact A|]. destruct o; auto; rewrite ?srdk_swake, ?swcx_swake, ?sclr_swake; exact B.
    - rewrite spend_swake. auto.
  Qed.

  Lemma slres_lin (p : spc) j : slres p = None -> lin_effect p j = None.
  Proof. destruct p; cbn; intros E; try reflexivity; discriminate E. Qed.
  Lemma spend_slres (p : spc) r : spend p = Some r -> slres p = None.
  Proof. destruct p; cbn; intros E; try reflexivity; discriminate E. Qed.
  Lemma srdk_slres (p : spc) x : srdk p = Some x -> slres p = None.
  Proof. destruct p; cbn; intros E; try reflexivity; discriminate E. Qed.
  Lemma sclr_slres (p : spc) : sclr p = true -> slres p = None.
  Proof. destruct p; cbn; intros E; try reflexivity; discriminate E. Qed.

  (* ---------------- sgoto when the thread has no Range frame ---------------- *)

  Definition snorm (q : spc) : spc := match q with QRet _ => QIdle | _ => q end.

  Lemma sgoto_pc_nf (S0 : mstate) t q l : h_frame S0 t = None -> h_pc (fst (sgoto S0 t q l)) t = snorm q.
  Proof.
    intros Hf. destruct q; cbn [XMachineS.sgoto snorm]; rewrite ?Hf; cbn [fst sset_pc h_pc]; destruct (Nat.eq_dec t t); congruence.
  Qed.

  Lemma sgoto_hist_nf (S0 : mstate) t q l : h_frame S0 t = None ->
    shist (snd (sgoto S0 t q l)) = shist l ++ match q with QRet r => [HRes t r] | _ => [] end.
  Proof.
    intros Hf. destruct q; cbn [XMachineS.sgoto]; rewrite ?Hf; cbn [snd]; rewrite ?app_nil_r; try reflexivity.
    rewrite shist_app. reflexivity.
  Qed.

  Lemma sgoto_in_nf (S0 : mstate) t r l : h_frame S0 t = None -> In (SRes t r) (snd (sgoto S0 t (QRet r) l)).
  Proof. intros Hf. cbn [XMachineS.sgoto]. rewrite Hf. cbn [snd]. apply in_or_app. right. left. reflexivity. Qed.

  Lemma sgoto_frame_nf (S0 : mstate) t q l : h_frame S0 t = None -> h_frame (fst (sgoto S0 t q l)) = h_frame S0.
  Proof. intros Hf. destruct q; cbn [XMachineS.sgoto]; rewrite ?Hf; reflexivity. Qed.

  Lemma sgoto_todo_nf (S0 : mstate) t q l : h_frame S0 t = None -> h_todo (fst (sgoto S0 t q l)) = h_todo S0.
  Proof. intros Hf. destruct q; cbn [XMachineS.sgoto]; rewrite ?Hf; reflexivity. Qed.

  Lemma some_pair_l {A B} (g : A * B) a b : Some g = Some (a, b) -> a = fst g /\ b = snd g.
  Proof. intros H. inversion H. auto. Qed.

  Lemma sfnev_hist t (cx : scx) o : shist (sfnev t cx o) = [].
  Proof. unfold sfnev. destruct (sc_ev cx); reflexivity. Qed.

  Lemma sset_pc_same (S0 : mstate) u (q : spc) : h_pc (sset_pc S0 u q) u = q.
  Proof. cbn [sset_pc h_pc]. destruct (Nat.eq_dec u u) as [_|Hc]; [reflexivity | exfalso; apply Hc; reflexivity]. Qed.

  (* case analysis over one step of a thread that has no frame and is not inside a Range / Size *)
  Ltac prep p Hnr :=
    destruct p; cbn [norange] in Hnr; try contradiction;
    try (match goal with lk : lockk |- _ => destruct lk; try contradiction end);
    try (match type of Hnr with _ /\ _ => let E := fresh "Erg" in destruct Hnr as [E Hnr]; subst end).

  Ltac scase Hs Hf :=
    cbn [XMachineS.sstep_pc XMachineS.after_lock] in Hs; cbv zeta in Hs;
    try (match type of Hs with context [scopy_chain ?a ?b ?c ?d ?e ?f] => destruct (scopy_chain a b c d e f) end; cbv beta iota zeta in Hs);
    repeat match type of Hs with context [match ?x with _ => _ end] => destruct x eqn:? end;
    try discriminate; apply some_pair_l in Hs; destruct Hs as [? ?]; subst;
    rewrite ?sgoto_pc_nf, ?sgoto_hist_nf by (cbn; exact Hf); rewrite ?sset_pc_same; rewrite ?sfnev_hist;
    cbn [fst snd shist app snorm]; rewrite ?sfnev_hist; cbn [app].

  (* a call that has taken effect keeps its answer until it returns it *)
  Lemma L_pend_s s t p s' ls r : sstep_pc s t p = Some (s', ls) -> h_frame s t = None -> norange p -> spend p = Some r ->
    (shist ls = [] /\ spend (h_pc s' t) = Some r) \/ (shist ls = [HRes t r] /\ h_pc s' t = QIdle).
  Proof.
    intros Hs Hf Hnr Hr.
    prep p Hnr; cbn [spend] in Hr; try discriminate Hr; scase Hs Hf; cbn [app spend skres skres_nc] in *.
    all: try (left; split; [reflexivity | exact Hr]).
    all: try (match goal with |- context [snorm ?a] => destruct a; cbn [snorm spend app] in *; rewrite ?app_nil_r;
                first [ left; split; [reflexivity | exact Hr] | inversion Hr; subst; right; split; reflexivity ] end).
    all: try (match goal with kt : scont |- _ => destruct kt as [cx0|r0]; cbn [skres skres_nc srun_cont snorm spend] in *; try discriminate Hr;
              first [ left; split; [reflexivity | exact Hr]
                    | destruct r0; try discriminate Hr; inversion Hr; subst; first [ right; split; reflexivity | left; split; reflexivity ] ] end).
  Qed.

  (* a lookup: it goes on, returns a value it found, reaches the end of the chain, or falls through to the locked path *)
  Lemma L_rd_s s t p s' ls k lc tab h : sstep_pc s t p = Some (s', ls) -> h_frame s t = None -> srdk p = Some (k, lc, tab, h) ->
    h_tabs s' = h_tabs s /\ h_cur s' = h_cur s /\
    ( (srdk (h_pc s' t) = Some (k, lc, tab, h) /\ shist ls = [])
      \/ (exists v, shist ls = [HRes t (shitres lc v)] /\ h_pc s' t = QIdle /\ exists l, In l ls /\ hit t v l)
      \/ (lc = SLPlain /\ shist ls = [HRes t (SRVal None false)] /\ h_pc s' t = QIdle /\ In (SRes t (SRVal None false)) ls)
      \/ (exists cx, lc = SLFast cx /\ h_pc s' t = QW_Table cx /\ shist ls = []) ).
  Proof.
    intros Hs Hf Hr.
    destruct p; cbn [srdk] in Hr; try discriminate Hr; inversion Hr; subst; clear Hr;
      cbn [XMachineS.sstep_pc] in Hs; cbv zeta in Hs;
      repeat match type of Hs with context [match ?x with _ => _ end] => destruct x eqn:? end;
      try discriminate; apply some_pair_l in Hs; destruct Hs as [? ?]; subst;
      (split; [apply XS_cells.htabs_goto|]); (split; [apply hcur_goto|]);
      rewrite ?sgoto_pc_nf, ?sgoto_hist_nf by exact Hf; cbn [fst snd shist app snorm srdk shitres].
    all: try (left; split; reflexivity).
    all: try (right; left; eexists; split; [reflexivity|]; split; [reflexivity|]; eexists; split; [apply sgoto_in_nf; exact Hf | eexists; left; reflexivity]).
    all: try (right; right; left; split; [reflexivity|]; split; [reflexivity|]; split; [reflexivity|]; apply sgoto_in_nf; exact Hf).
    all: try (right; right; right; eexists; split; [reflexivity|]; split; reflexivity).
  Qed.

  (* a Clear before its publish store *)
  Lemma L_clr_s s t p s' ls : sstep_pc s t p = Some (s', ls) -> h_frame s t = None -> sclr p = true ->
    shist ls = [] /\
    ((sclr (h_pc s' t) = true /\ forall kt new, p <> QR_Publish kt new)
     \/ (exists new, p = QR_Publish (SKReturn SRUnit) new /\ spend (h_pc s' t) = Some SRUnit)).
  Proof.
    intros Hs Hf Hc.
    destruct p; cbn [sclr] in Hc; try discriminate Hc;
      repeat match type of Hc with context [match ?x with _ => _ end] => destruct x end; try discriminate Hc;
      scase Hs Hf; (split; [reflexivity|]); cbn [sclr spend skres].
    all: try (left; split; [reflexivity | intros ? ? E; discriminate E]).
    all: try (right; eexists; split; reflexivity).
  Qed.

  (* the decisions of doCompute that answer without writing *)
  Definition snooplin (s : mstate) (p : spc) (r : sres) : Prop :=
    match p with
    | QW_Scan cx tab bi emp ne =>
        let tb := stab_at s tab in
        let k := sc_k cx in
        let b := shome hash idx tb k in
        let c := schain_of tb b in
        match scan_slots eqd k (tophash (hash k (m_seed tb))) (sword_at nslots tb b bi) (sbucket_slots nslots c bi) (bi * nslots) 0 emp ne with
        | ScFound pos (Some (old, _)) => sc_lie cx = true /\ r = SRVal (Some old) (negb (sc_co cx))
        | ScFound _ None => False
        | ScMiss emp' ne' => Nat.ltb (S bi) (snbuckets nslots c) = false /\ sc_f cx None = None /\ r = SRVal None false
        end
    | QW_Sum cx tab _ _ => sc_f cx None = None /\ r = SRVal None false
    | _ => False
    end.

  (* a doCompute that has not taken effect yet *)
  Lemma L_wr_s s t p s' ls cx : sstep_pc s t p = Some (s', ls) -> h_frame s t = None -> norange p ->
    spend p = None -> srdk p = None -> swcx p = Some cx ->
    shist ls = [] /\
    ( (slres p = None /\ spend (h_pc s' t) = None /\ srdk (h_pc s' t) = None /\ swcx (h_pc s' t) = Some cx)
      \/ (exists r, slres p = Some r /\ spend (h_pc s' t) = Some r)
      \/ (exists r, slres p = None /\ snooplin s p r /\ spend (h_pc s' t) = Some r) ).
  Proof.
    intros Hs Hf Hnr Hp Hr Hw.
    prep p Hnr; cbn [swcx] in Hw; try discriminate Hw; cbn [spend] in Hp; try discriminate Hp;
      scase Hs Hf;
      try (match goal with |- context [snorm ?a] => is_var a; destruct a; cbn [spend swcx] in Hp, Hw; try discriminate end);
      try (match goal with H : skcx ?k = Some _ |- _ => is_var k; destruct k; cbn [skcx] in H; try discriminate H end);
      cbn [snorm app srun_cont]; (split; [reflexivity|]);
      cbn [slres spend srdk swcx skres skres_nc skcx snooplin] in *.
    all: try (inversion Hw; subst; clear Hw).
    all: try (left; repeat split; try reflexivity; try assumption; fail).
    all: try (right; left; eexists; split; reflexivity).
    all: try (right; left; eexists; split; [reflexivity|]; match goal with H : sc_co _ = _ |- _ => rewrite H end; reflexivity).
    all: try (right; right; eexists; split; [reflexivity|]; split; [|reflexivity]; cbn [snooplin];
              first [ match goal with H : scan_slots _ _ _ _ _ _ _ _ _ = _ |- _ => rewrite H end;
                      first [ split; [assumption | reflexivity] | split; [assumption|]; split; [assumption | reflexivity] ]
                    | split; [assumption | reflexivity] ]).
  Qed.

  (* frames, todo lists, the scope and the recorded decisions over one step *)
  Lemma step_scope s t p s' ls : sstep_pc s t p = Some (s', ls) -> h_frame s t = None -> norange p ->
    h_frame s' = h_frame s /\ h_todo s' = h_todo s /\ norange (h_pc s' t) /\ (sdec p -> sdec (h_pc s' t)).
  Proof.
    intros Hs Hf Hnr.
    prep p Hnr;
      cbn [XMachineS.sstep_pc XMachineS.after_lock] in Hs; cbv zeta in Hs;
      try (match type of Hs with context [scopy_chain ?a ?b ?c ?d ?e ?f] => destruct (scopy_chain a b c d e f) end; cbv beta iota zeta in Hs);
      repeat match type of Hs with context [match ?x with _ => _ end] => destruct x eqn:? end;
      try discriminate; apply some_pair_l in Hs; destruct Hs as [? ?]; subst;
      rewrite ?sgoto_frame_nf, ?sgoto_todo_nf, ?sgoto_pc_nf by (cbn; exact Hf); rewrite ?sset_pc_same;
      (split; [reflexivity|]); (split; [reflexivity|]); cbn [snorm norange sdec] in *.
    all: cbn [fst] in *; rewrite ?sset_pc_same.
    all: try (match goal with |- context [snorm ?a] => is_var a; destruct a end).
    all: try (match goal with kt : scont |- _ => destruct kt end).
    all: cbn [srun_cont snorm norange sdec] in *; try tauto.
    all: try (split; [tauto | intros _; first [exact I | tauto | (split; assumption) | assumption]]).
  Qed.

End SStages.

(* ---------------- what the specification says at the linearization points ---------------- *)
Section SPoints.
  Context {K V : Type}.
  Variable eqd : forall a b : K, {a = b} + {a <> b}.
  Variable hash : K -> N -> N.
  Variable idx : N -> nat -> nat.
  Variable tophash : N -> N.
  Variable nslots : nat.
  Variable seeds : nat -> N.
  Variable grow_needed : nat -> Z -> bool.
  Variable shrink_policy : nat -> Z -> bool.
  Variable nstripes : nat -> nat.
  Variable minlen : nat.
  Variable grow_only : bool.

  Hypothesis Hslots : nslots <= 3.
  Hypothesis Hnslots : 0 < nslots.
  Hypothesis Htop : forall k sd, (tophash (hash k sd) < 1048576)%N.
  Hypothesis Hidx : forall h len, 0 < len -> idx h len < len.
  Hypothesis Hminlen : 0 < minlen.

  Notation mstate := (@mstate K V).
  Notation mtable := (@mtable K V).
  Notation spc := (@spc K V).
  Notation sop := (@sop K V).
  Notation sres := (@sres V).
  Notation scx := (@scx K V).
  Notation slcont := (@slcont K V).
  Notation tabT := (@tabT K V nslots nstripes).
  Notation XB := (@XB K V hash idx tophash nslots nstripes).
  Notation svis := (@svis K V hash idx tophash nslots).
  Notation swtab := (@XS_stale.swtab K V).
  Notation amap := (X_linpoints.amap K V).
  Notation aset := (@X_linpoints.aset K V eqd).
  Notation agree := (@X_linpoints.agree K V).
  Notation sspec_res := (@sspec_res K V).
  Notation sspec_next := (@sspec_next K V eqd).
  Notation snooplin := (@snooplin K V eqd hash idx tophash nslots nstripes).
  Notation shome := (@shome K V hash idx).

  (* what a writer remembers of its locked scan is what readers see at its linearization store *)
  Lemma swriter_sees s t : XB s ->
    match h_pc s t with
    | QW_U1 cx tab _ old _ | QW_D1 cx tab _ old _ _ => svis (tabT (h_tabs s) tab) (sc_k cx) old
    | QW_I3 cx tab _ _ | QW_N1 cx tab _ | QW_Sum cx tab _ _ => forall v, ~ svis (tabT (h_tabs s) tab) (sc_k cx) v
    | _ => True
    end.
  Proof.
    intros [_ [_ [_ [_ HC]]]]. pose proof (xcs_pc _ _ _ _ _ s HC t) as Hf.
    destruct (h_pc s t); try exact I; cbn [XS_cells.pcfact] in Hf.
    - (* D1 *) destruct Hf as [[A [B [[id C] D]]] _]. exists pos. split; [exact A|]. split; [exact B|]. split; [exists id; exact C | symmetry; exact D].
    - (* U1 *) destruct Hf as [A [B [[id C] D]]]. exists pos. split; [exact A|]. split; [exact B|]. split; [exists id; exact C | symmetry; exact D].
    - (* I3 *) destruct Hf as [_ Hab]. intros v [p [A [B _]]]. exact (Hab p A B).
    - (* Sum *) intros v [p [A [B _]]]. exact (Hf p A B).
    - (* N1 *) intros v [p [A [B _]]]. exact (Hf p A B).
  Qed.

  (* the locked scan of the last bucket: a hit is visible, a miss means the key is not visible *)
  Lemma sscan_vis s t cx tab bi emp ne : XB s -> h_pc s t = QW_Scan cx tab bi emp ne ->
    let tb := tabT (h_tabs s) tab in
    let k := sc_k cx in
    let c := schain_of tb (shome tb k) in
    match scan_slots eqd k (tophash (hash k (m_seed tb))) (sword_at nslots tb (shome tb k) bi) (sbucket_slots nslots c bi) (bi * nslots) 0 emp ne with
    | ScFound pos (Some (old, _)) => svis tb k old
    | ScFound _ None => True
    | ScMiss _ _ => Nat.ltb (S bi) (snbuckets nslots c) = false -> forall v, ~ svis tb k v
    end.
  Proof.
    intros HB Hp tb k c. pose proof HB as [_ [HS [HT [_ HC]]]].
    assert (Hle : tab <= h_cur s) by (destruct (xt_pc s HT t) as [Hl _]; rewrite Hp in Hl; exact Hl).
    pose proof (tb_ok_tabT nslots nstripes Hslots (h_tabs s) tab (xl_tabs _ _ _ _ s HS)) as Htb. fold tb in Htb.
    assert (Hb : shome tb k < m_len tb) by (apply (shome_lt hash idx Hidx); exact Htb).
    pose proof (xcs_ch _ _ _ _ _ s HC tab _ Hle Hb) as Hch.
    assert (Hlock : lock_of nslots nstripes s tab (shome tb k) = Some t).
    { apply (xl_lockA _ _ _ _ s HS t). rewrite Hp. reflexivity. }
    unfold XS_cells.holder_pc in Hch. rewrite Hlock in Hch. cbn [option_map] in Hch. rewrite Hp in Hch.
    pose proof Hch as [Hsh _].
    pose proof (xcs_pc _ _ _ _ _ s HC t) as Hf. rewrite Hp in Hf. cbn [XS_cells.pcfact] in Hf. destruct Hf as [Hbefore _].
    change (tophash (hash k (m_seed tb))) with (ktop hash tophash tb k).
    destruct (scan_slots eqd k (ktop hash tophash tb k) (sword_at nslots tb (shome tb k) bi) (sbucket_slots nslots c bi) (bi * nslots) 0 emp ne)
      as [pos [[old id]|]|emp' ne'] eqn:E; [| exact I |].
    - destruct (scan_found_chain eqd hash tophash nslots Hslots Hnslots tb _ bi k emp ne pos _ Hsh E) as [A [B [C [D _]]]].
      exists pos. split; [exact A|]. split; [exact B|]. split; [exists id; exact C | exact D].
    - intros Hlast v [pos [A [B _]]].
      apply Nat.ltb_ge in Hlast. unfold snbuckets in Hlast. destruct Hsh as [_ Hlen]. fold c in Hlen, A, B.
      destruct (Nat.lt_ge_cases pos (bi * nslots)) as [H1|H1]; [exact (Hbefore pos H1 A B)|].
      destruct (Nat.lt_ge_cases pos (S bi * nslots)) as [H2|H2].
      + exact (scan_miss_chain eqd hash idx tophash nslots Hslots Hnslots tb tab _ bi k emp ne emp' ne' _ Hch eq_refl eq_refl E pos (conj H1 H2) A B).
      + set (n := length (ctops _ _)) in Hlen. assert (Hx : length c = n * nslots) by exact Hlen.
        rewrite Hx in Hlast, A. rewrite Nat.div_mul in Hlast by lia. nia.
  Qed.

  (* ---- writers: the store ---- *)

  Lemma slin_store_spec s t o cx tab r (m : amap) : XB s -> sdec (h_pc s t) ->
    sopcx o = Some cx -> swcx (h_pc s t) = Some cx -> slres (h_pc s t) = Some r -> swtab (h_pc s t) = Some tab ->
    agree m (svis (tabT (h_tabs s) tab)) ->
    r = sspec_res m o /\ exists nw, lin_effect (h_pc s t) tab = Some (sc_k cx, nw) /\ sspec_next m o = aset m (sc_k cx) nw.
  Proof.
    intros HB Hdec Ho Hw Hl Ht Ha.
    pose proof (swriter_sees s t HB) as Hsee.
    destruct o; cbn [sopcx] in Ho; try discriminate Ho. inversion Ho; subst cx; clear Ho.
    destruct (h_pc s t) eqn:Hp; cbn [slres] in Hl; try discriminate Hl; cbn [swcx XS_stale.swtab sdec] in *;
      inversion Hw; subst; clear Hw; inversion Ht; subst; clear Ht; inversion Hl; subst; clear Hl;
      cbn [sc_k sc_f sc_lie sc_co lin_effect XS_linpoints.sspec_res XS_linpoints.sspec_next] in *;
      (destruct (Nat.eq_dec tab tab) as [_|Hc]; [|exfalso; apply Hc; reflexivity]).
    - (* D1 *) apply Ha in Hsee. rewrite Hsee. destruct Hdec as [Hd ->]. rewrite Hd. split; [reflexivity|]. eexists; split; reflexivity.
    - (* U1 *) apply Ha in Hsee. rewrite Hsee. destruct Hdec as [Hd ->]. rewrite Hd. split; [reflexivity|]. eexists; split; reflexivity.
    - (* I3 *) rewrite (X_linpoints.agree_none _ _ _ Ha Hsee). rewrite Hdec. split; [reflexivity|]. eexists; split; reflexivity.
    - (* N1 *) rewrite (X_linpoints.agree_none _ _ _ Ha Hsee). rewrite Hdec. split; [reflexivity|]. eexists; split; reflexivity.
  Qed.

  (* ---- writers: the decisions that answer without writing ---- *)

  Lemma snooplin_spec s t o cx tab r (m : amap) : XB s ->
    sopcx o = Some cx -> swcx (h_pc s t) = Some cx -> snooplin s (h_pc s t) r -> swtab (h_pc s t) = Some tab ->
    agree m (svis (tabT (h_tabs s) tab)) ->
    r = sspec_res m o /\ sspec_next m o = m.
  Proof.
    intros HB Ho Hw Hn Ht Ha.
    pose proof (swriter_sees s t HB) as Hsee.
    destruct o; cbn [sopcx] in Ho; try discriminate Ho. inversion Ho; subst cx; clear Ho.
    destruct (h_pc s t) eqn:Hp; cbn [XS_linpoints.snooplin] in Hn; try contradiction; cbn [swcx] in Hw; inversion Hw; subst; clear Hw;
      cbn [XS_stale.swtab] in Ht; inversion Ht; subst; clear Ht;
      cbn [sc_k sc_f sc_lie sc_co XS_linpoints.sspec_res XS_linpoints.sspec_next] in *.
    - (* Scan *)
      pose proof (sscan_vis s t _ tab bi emp ne HB Hp) as Hsc. cbv zeta in Hsc, Hn. cbn [sc_k] in Hsc.
      change (@stab_at K V nslots nstripes s tab) with (tabT (h_tabs s) tab) in Hn.
      destruct (scan_slots eqd k _ _ _ _ 0 emp ne) as [pos [[old id]|]|emp' ne']; [| contradiction |].
      + destruct Hn as [-> ->]. apply Ha in Hsc. rewrite Hsc. auto.
      + destruct Hn as [Hlast [Hf ->]]. rewrite (X_linpoints.agree_none _ _ _ Ha (Hsc Hlast)), Hf. auto.
    - (* Sum *)
      destruct Hn as [Hf ->]. rewrite (X_linpoints.agree_none _ _ _ Ha Hsee), Hf. auto.
  Qed.

  (* ---- readers ---- *)

  Definition srd_op (o : sop) (k : K) (lc : slcont) : Prop :=
    match lc with
    | SLPlain => o = SLoad k
    | SLFast cx => sopcx o = Some cx /\ sc_k cx = k /\ sc_lie cx = true
    end.

  Lemma srd_hit_spec o k lc (m : amap) v : srd_op o k lc -> m k = Some v ->
    sokop o /\ shitres lc v = sspec_res m o /\ sspec_next m o = m.
  Proof.
    intros Ho Hm. destruct lc as [|cx]; cbn [srd_op] in Ho.
    - subst o. cbn. rewrite Hm. auto.
    - destruct Ho as [Ho [Hk Hl]]. destruct o; cbn [sopcx] in Ho; try discriminate Ho. inversion Ho; subst cx; clear Ho.
      cbn in Hk, Hl. subst. cbn. rewrite Hm. auto.
  Qed.

  Lemma srd_miss_spec k (m : amap) : m k = None ->
    sokop (@SLoad K V k) /\ SRVal None false = sspec_res m (SLoad k) /\ sspec_next m (SLoad k) = m.
  Proof. intros Hm. cbn. rewrite Hm. auto. Qed.

End SPoints.
