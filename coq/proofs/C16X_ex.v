(* C16X_ex.v -- a run on the executable instance of XMachine (XExec.v): a writer PARKED HOLDING THE
   BUCKET LOCK of key 7 (thread 0, in the middle of its second SetForever(7, .): 17 moves, past the
   lock acquisition, before the store), while thread 1's Get(7), run alone, completes: it answers
   the value the first SetForever stored, and the writer still holds the lock afterwards. *)
From CacheV Require Import Base SpecMap Client CacheModel Ops SpecTTL Lin Conc XMachine.
From CacheV.gen Require Import Params.
From CacheV Require Import TabExec Exec XExec.
From CacheV.proofs Require Import X_swar X_count X_c16 CX_compose CX_product CX_mapof C16X_mapof.
From Coq Require Import NArith.
Local Open Scope Z_scope.

Notation c16_run := (cxrun zeqd (hash_of []) idx_mapof tag_mapof (Z.to_nat entriesPerMapOfBucket) (seeds_of [])
        grow_needed_m shrink_policy_m probe_x nstripes_x (minlen_of_hint true 0) false (prog_cache zeqd 0) 100 0 None).
Definition todoP (t : nat) : list (cop Z Z) :=
  match t with O => [OSetForever 7 1; OSetForever 7 2] | S O => [OGet 7] | _ => [] end.
Notation c16_init := (cxinit (Z.to_nat entriesPerMapOfBucket) (seeds_of []) nstripes_x (minlen_of_hint true 0) todoP).
Definition thp (n : nat) : nat * list (Z * item Z) := (n, []).

(* some bucket of the current table is locked by thread t *)
Definition lockedby (x : @xstate Z (item Z)) (t : nat) : bool :=
  let tb := tab_at (Z.to_nat entriesPerMapOfBucket) nstripes_x x (g_cur x) in
  existsb (fun b => match lock_of tb b with Some u => Nat.eqb u t | None => false end) (seq 0 (x_len tb)).

Notation pP := (fst (fst (c16_run c16_init (repeat (thp 0) 17)))).
Notation rd7 := (X_c16.rd_bound (hash_of []) idx_mapof tag_mapof (Z.to_nat entriesPerMapOfBucket) probe_x nstripes_x (p_x _ pP) (PL_Table 7 LPlain)).

Example get_while_writer_holds_the_lock :
  (* the writer is inside a modifying call and holds a bucket lock; the reader stands before Get(7) *)
  (lockedby (p_x _ pP) 0, X_count.modifying (g_pc (p_x _ pP) 0%nat)) = (true, true)
  /\ p_thr _ pP 1%nat = QIdle /\ p_todo _ pP 1%nat = [OGet 7]
  (* run alone, the reader completes within rd_bound + 5 moves: Load only, the value of the completed write *)
  /\ (let r := c16_run pP (repeat (thp 1) (rd7 + 5)) in
      cproj (snd (fst r)) = [HInv 1 (OGet 7); HRes 1 (CVal 1 true)]
      /\ mproj (snd (fst r)) = [HInv 1 (CLoad 7); HRes 1 (RVal (Some {| iv := 1; ie := 0 |}) true None)]
      /\ lockedby (p_x _ (fst (fst r))) 0 = true)
  /\ rd7 = 4%nat.
Proof. vm_compute. repeat split; reflexivity. Qed.
