(* CX_range2.v -- C07 (Range / Items) at the CACHE level under concurrency, part 2: one call.

   A WINDOW: a configuration p0 of a run of the product machine (cache methods over XMachine,
   every map call -- the traversal included -- a whole call of the machine) in which thread t
   is idle and has a Range (Some f) / an Items next on its list; the moves [sched] of ANY threads
   from there, up to a configuration in which t is idle again with that call consumed.
   The invariant [W] follows thread t through the call:
     A    not yet invoked
     pre  invoked; (Items: the Size call on the machine;) the clock is read; the traversal is
          pushed onto the todo list of t's map thread
     E    the traversal runs on the machine (QSWait acc): acc = the visits of the machine's call
          so far ([cv] of the label trace), every pair of acc was visible in the traversed table
          at an earlier configuration of the window in which the traversal was under way
          ([range_snapshot]), and X_range's completeness invariant ([JQ] = JP) holds for every item
          that was visible at every configuration of the window in which the traversal was under way
     F    the traversal has answered with the list accF of ALL its visits: NoDup keys
          ([range_once]), the two facts above; the method filters out what is expired at NOW and
          calls the visitor ([rl]: the rest of the program only emits and returns)
     G    returned: the thread's history over the window is [HInv t o; HRes t (CList l)],
          l = visits NOW f (reorder hint accF).
   Theorems: [cache_range_window] and its three readings [cache_range_once],
   [cache_range_no_phantom], [cache_range_complete]. *)
From CacheV Require Import Base SpecMap Client CacheModel CacheOfModel Ops SpecTTL Lin Conc XMachine.
From CacheV.gen Require Import Params.
From CacheV.proofs Require Import X_basic X_inv X_own X_c04 X_lin X_linpoints X_resize X_range
  CX_trans CX_compose CX_product CX_mapof CX_product2 X_linearizable2 CX_mapof2 C07_range CX_range.
From Coq Require Import NArith Lia Permutation.
Local Open Scope nat_scope.

Section Window.
  Context {K V : Type}.
  Variable eqd : forall a b : K, {a = b} + {a <> b}.
  Variable hash : K -> N -> N.
  Variable idx : N -> nat -> nat.
  Variable tag : N -> N.
  Variable nslots : nat.
  Variable seeds : nat -> N.
  Variable grow_needed shrink_policy : nat -> Z -> bool.
  Variable probe : list (option N) -> N -> list nat.
  Variable nstripes : nat -> nat.
  Variable minlen : nat.
  Variable grow_only : bool.
  Variable len0 : nat.
  Variable progs : cop K V -> prog K V (cres K V).
  Variables NOW DFLT : Z.
  Variable CB : cbid.
  Variable sup : cmop K V -> bool.

  Notation item := (item V).
  Notation xstate := (@xstate K item).
  Notation xop := (@xop K item).
  Notation xres := (@xres K item).
  Notation xlabel := (@xlabel K item).
  Notation pc := (@pc K item).
  Notation cop := (cop K V).
  Notation cres := (cres K V).
  Notation prog := (prog K V cres).
  Notation imres := (imres K V).
  Notation env0 := (Conc.env0 NOW DFLT).
  Notation xstep := (@xstep K item eqd hash idx tag nslots seeds grow_needed shrink_policy probe nstripes minlen grow_only).
  Notation xrun := (@xrun K item eqd hash idx tag nslots seeds grow_needed shrink_policy probe nstripes minlen grow_only).
  Notation with_todo := (@CX_mapof.with_todo K item).
  Notation pconf := (@CX_product2.pconf K V xstate).
  Notation qst := (@CX_product2.qst K V).
  Notation out := (@out K V).
  Notation px := (@p_x K V xstate).
  Notation pthr := (@p_thr K V xstate).
  Notation ptodo := (@p_todo K V xstate).
  Notation tab_at := (@tab_at K item nslots nstripes).
  Notation vis := (@X_lin.vis K item hash idx).
  Notation hm := (@X_range.hm K item hash idx nslots nstripes).
  Notation xpush := (CX_product2.push xstate xop (@g_todo K item) with_todo).
  Notation feed := (@CX_product2.feed K V xop xres (back env0)).
  Notation mk_so := (@CX_product2.Build_sout K V xop xres).
  Notation gstep := (@gstep K V eqd hash idx tag nslots seeds grow_needed shrink_policy probe nstripes minlen grow_only progs NOW DFLT CB sup).
  Notation ginit := (@ginit K V nslots seeds nstripes len0).
  Notation pafter := (@pafter K V eqd hash idx tag nslots seeds grow_needed shrink_policy probe nstripes minlen grow_only progs NOW DFLT CB sup).
  Notation pouts := (@pouts K V eqd hash idx tag nslots seeds grow_needed shrink_policy probe nstripes minlen grow_only progs NOW DFLT CB sup).
  Notation plabs := (@plabs K V eqd hash idx tag nslots seeds grow_needed shrink_policy probe nstripes minlen grow_only progs NOW DFLT CB sup).
  Notation plab := (@plab K V eqd hash idx tag nslots seeds grow_needed shrink_policy probe nstripes minlen grow_only).
  Notation Reach := (@Reach K V eqd hash idx tag nslots seeds grow_needed shrink_policy probe nstripes minlen grow_only len0).
  Notation TI := (@TI K V NOW DFLT).
  Notation JQ := (@JQ K V hash idx nslots nstripes).
  Notation svis := (@svis K V).
  Notation trav := (@trav K V).
  Notation x2_idle := (@x2_idle K V).

  Hypothesis Hx : xhyps4 idx nstripes minlen nslots probe.
  Hypothesis Hlen : 0 < len0.

  (* ---------------- the shape of Range / Items in both cache texts ---------------- *)

  (* the rest of the method only calls the visitor and returns the list R *)
  Inductive rl (R : list (K * V)) : prog -> Prop :=
  | rl_ret : rl R (Ret (CList R))
  | rl_emit e k : rl R k -> rl R (Emit e k).

  Variable rloop : Z -> (K -> V -> bool) -> list (K * item) -> list (K * V) -> prog.
  Variable reord : list K -> list (K * item) -> list (K * item).
  Hypothesis Hrl : forall now f l vs, rl (vs ++ visits now f l) (rloop now f l vs).
  Hypothesis Hperm : forall hint l, Permutation l (reord hint l).

  Definition K0 (now : Z) (f : K -> V -> bool) (hint : list K) : imres -> prog :=
    fun r => match r with RSnap snap => rloop now f (reord hint snap) [] | _ => Ret (CList []) end.
  Definition RangeP (f : K -> V -> bool) (hint : list K) : prog :=
    ReadNow (fun now => MapCall CSnapshot (K0 now f hint)).
  Definition ftrue : K -> V -> bool := fun _ _ => true.

  Hypothesis Hrange : forall f hint, progs (ORange (Some f) hint) = RangeP f hint.
  Hypothesis Hitems : forall hint, progs (OItems hint) = MapCall CSize (fun _ => RangeP ftrue hint).

  (* ---------------- the moves of the client, as equations ---------------- *)

  Lemma gstep_idle p t o rest : pthr p t = QIdle -> ptodo p t = o :: rest ->
    gstep p t = Some ({| p_x := px p; p_thr := upd (pthr p) t (QRun o (progs o)); p_todo := upd (ptodo p) t rest |}, [OC (HInv t o)], []).
  Proof. intros E1 E2. unfold CX_range.gstep, CX_product2.pstep. rewrite E1, E2. reflexivity. Qed.

  Lemma gstep_idle_nil p t : pthr p t = QIdle -> ptodo p t = [] -> gstep p t = None.
  Proof. intros E1 E2. unfold CX_range.gstep, CX_product2.pstep. rewrite E1, E2. reflexivity. Qed.

  Lemma gstep_ret p t o r : pthr p t = QRun o (Ret r) ->
    gstep p t = Some ({| p_x := px p; p_thr := upd (pthr p) t QIdle; p_todo := ptodo p |}, [OC (HRes t r)], []).
  Proof. intros E1. unfold CX_range.gstep, CX_product2.pstep. rewrite E1. reflexivity. Qed.

  Lemma gstep_now p t o k : pthr p t = QRun o (ReadNow k) ->
    gstep p t = Some ({| p_x := px p; p_thr := upd (pthr p) t (QRun o (k NOW)); p_todo := ptodo p |}, [], []).
  Proof. intros E1. unfold CX_range.gstep, CX_product2.pstep. rewrite E1. reflexivity. Qed.

  Lemma gstep_emit p t o e k : pthr p t = QRun o (Emit e k) ->
    gstep p t = Some ({| p_x := px p; p_thr := upd (pthr p) t (QRun o k); p_todo := ptodo p |}, [], []).
  Proof. intros E1. unfold CX_range.gstep, CX_product2.pstep. rewrite E1. reflexivity. Qed.

  Lemma gstep_snap p t o k : pthr p t = QRun o (MapCall CSnapshot k) ->
    gstep p t = Some ({| p_x := xpush (px p) t XRange; p_thr := upd (pthr p) t (QSPushed o k); p_todo := ptodo p |}, [], []).
  Proof. intros E1. unfold CX_range.gstep, CX_product2.pstep. rewrite E1. reflexivity. Qed.

  Lemma gstep_size p t o k : pthr p t = QRun o (MapCall CSize k) ->
    gstep p t = if sup CSize
                then Some ({| p_x := xpush (px p) t XSize; p_thr := upd (pthr p) t (QPushed o CSize k); p_todo := ptodo p |}, [], [])
                else None.
  Proof. intros E1. unfold CX_range.gstep, CX_product2.pstep. rewrite E1. reflexivity. Qed.

  (* the list of calls to come only shrinks *)
  Lemma gstep_todo_len p u p1 os h t : gstep p u = Some (p1, os, h) -> length (ptodo p1 t) <= length (ptodo p t).
  Proof.
    intros E. destruct (Nat.eq_dec t u) as [->|Hn]; [|destruct (gstep_other _ _ _ _ _ _ _ _ _ _ _ _ _ _ _ _ _ p u p1 os h t E Hn) as [_ [-> _]]; lia].
    destruct (mach (pthr p u)) eqn:Hm.
    - destruct (gstep_mach _ _ _ _ _ _ _ _ _ _ _ _ _ _ _ _ _ p u p1 os h Hm E) as [ls [_ [_ [_ [-> _]]]]]. lia.
    - unfold CX_range.gstep, CX_product2.pstep in E. destruct (pthr p u) as [|o pr| | | |] eqn:Eq; try discriminate Hm.
      + destruct (ptodo p u) as [|o rest] eqn:Et; [discriminate E|]. inversion E; subst. cbn [p_todo]. rewrite upd_eq. cbn [length]. lia.
      + destruct pr as [r|mo k|k|k|d k|k|cb k|e k]; try discriminate E; try (inversion E; subst; cbn [CX_product2.pset p_todo]; lia).
        destruct mo.
        1-7: destruct (sup _) eqn:Hsup; [|discriminate E]; inversion E; subst; cbn [p_todo]; lia.
        inversion E; subst; cbn [p_todo]; lia.
  Qed.

  (* the table a traversal starts on has buckets *)
  Lemma reach_len x L : Reach x L -> 0 < x_len (tab_at x (g_cur x)).
  Proof.
    intros HR. destruct (HR (fun _ => [])) as [fut [m [td [_ Hrun]]]].
    destruct Hx as [[H1 [H2 H3]] [H4 [H5 H6]]].
    pose proof (reachable_inv5 eqd hash idx tag nslots seeds grow_needed shrink_policy probe nstripes minlen grow_only
                  H1 H2 H3 H4 H5 H6 len0 fut m Hlen) as HI5.
    rewrite Hrun in HI5. cbn [fst] in HI5. destruct HI5 as [[HI _] _].
    pose proof (xi_wf _ _ _ _ _ HI (g_cur (with_todo x td)) (xi_cur _ _ _ _ _ HI)) as Hw.
    apply Hw.
  Qed.

  (* ---------------- the window ---------------- *)

  Variable todo0 : nat -> list cop.
  Variable sched0 : list nat.
  Variable t : nat.
  Variable o : cop.
  Variable f : K -> V -> bool.
  Variable hint : list K.
  Variable rest : list cop.

  Hypothesis Ho : o = ORange (Some f) hint \/ (o = OItems hint /\ f = ftrue).

  Let p0 : pconf := pafter (ginit todo0) sched0.
  Let L0 : list xlabel := plabs (ginit todo0) sched0.

  Hypothesis H0thr : pthr p0 t = QIdle.
  Hypothesis H0todo : ptodo p0 t = o :: rest.

  Notation kI := (fun _ : imres => RangeP f hint).
  Notation KN := (K0 NOW f hint).

  Lemma progs_o : progs o = RangeP f hint \/ progs o = MapCall CSize kI.
  Proof. destruct Ho as [->|[-> ->]]; [left; apply Hrange | right; apply Hitems]. Qed.

  Definition prephase (q : qst) : Prop :=
    q = QRun o (MapCall CSize kI) \/ q = QPushed o CSize kI \/ q = QWait o CSize kI
    \/ q = QRun o (RangeP f hint) \/ q = QRun o (MapCall CSnapshot KN) \/ q = QSPushed o KN.

  (* the traversal of thread t is under way, on table tab *)
  Definition traversing (p : pconf) (tab : nat) : Prop := trav (g_pc (px p) t) tab.

  (* (k, i) was visible in the traversed table at a configuration of the window in which the traversal was under way *)
  Definition Wit (s1 : list nat) (tab : nat) (k : K) (i : item) : Prop :=
    exists a b, s1 = a ++ b /\ traversing (pafter p0 a) tab /\ vis (tab_at (px (pafter p0 a)) tab) k i.

  (* tab was the current table at a configuration of the window (where the traversal loaded the pointer) *)
  Definition Cur (s1 : list nat) (tab : nat) : Prop :=
    exists a b, s1 = a ++ b /\ g_cur (px (pafter p0 a)) = tab.

  (* (k, i) is visible in the traversed table at every configuration of the window (the last one
     excepted) in which the traversal is under way *)
  Definition Hc (s1 : list nat) (k : K) (i : item) : Prop :=
    forall a b tab, s1 = a ++ b -> b <> [] -> traversing (pafter p0 a) tab -> vis (tab_at (px (pafter p0 a)) tab) k i.

  Definition Facts (s1 : list nat) (tab : nat) (accF : list (K * item)) : Prop :=
    NoDup (map fst accF) /\ (forall k i, In (k, i) accF -> Wit s1 tab k i) /\ (forall k i, Hc s1 k i -> In (k, i) accF)
    /\ Cur s1 tab.

  Lemma Wit_mono s1 u tab k i : Wit s1 tab k i -> Wit (s1 ++ [u]) tab k i.
  Proof. intros [a [b [-> H]]]. exists a, (b ++ [u]). rewrite app_assoc. auto. Qed.

  Lemma Cur_mono s1 u tab : Cur s1 tab -> Cur (s1 ++ [u]) tab.
  Proof. intros [a [b [-> H]]]. exists a, (b ++ [u]). rewrite app_assoc. auto. Qed.

  Lemma Hc_mono s1 u k i : Hc (s1 ++ [u]) k i -> Hc s1 k i.
  Proof.
    intros H a b tab -> Hb. apply (H a (b ++ [u]) tab); [rewrite app_assoc; reflexivity|].
    intros Hc0. apply app_eq_nil in Hc0. destruct Hc0 as [_ Hc0]. discriminate Hc0.
  Qed.

  Lemma Facts_mono s1 u tab accF : Facts s1 tab accF -> Facts (s1 ++ [u]) tab accF.
  Proof.
    intros [A [B [C D]]]. split; [exact A|]. split; [|split].
    - intros k i Hin. apply Wit_mono. apply B. exact Hin.
    - intros k i H. apply C. eapply Hc_mono. exact H.
    - apply Cur_mono. exact D.
  Qed.

  Lemma Wit_here s1 tab k i : traversing (pafter p0 s1) tab -> vis (tab_at (px (pafter p0 s1)) tab) k i -> forall u, Wit (s1 ++ [u]) tab k i.
  Proof. intros Ht Hv u. exists s1, [u]. auto. Qed.

  Lemma Hc_here s1 u tab k i : Hc (s1 ++ [u]) k i -> traversing (pafter p0 s1) tab -> vis (tab_at (px (pafter p0 s1)) tab) k i.
  Proof. intros H Ht. apply (H s1 [u] tab); [reflexivity | discriminate | exact Ht]. Qed.

  Inductive W (s1 : list nat) (p : pconf) (L : list xlabel) (ot : list (hev cop cres)) : Prop :=
  | W_A : pthr p t = QIdle -> ptodo p t = o :: rest -> ot = [] -> W s1 p L ot
  | W_pre : prephase (pthr p t) -> ptodo p t = rest -> ot = [HInv t o] -> W s1 p L ot
  | W_E tab acc : pthr p t = QSWait o KN acc -> ptodo p t = rest -> ot = [HInv t o] ->
                  trav (g_pc (px p) t) tab -> acc = cv t [] L ->
                  (forall k i, In (k, i) acc -> Wit s1 tab k i) ->
                  (forall k i, Hc s1 k i -> JQ t tab k i (px p) acc) -> Cur s1 tab -> W s1 p L ot
  | W_F tab accF pr : pthr p t = QRun o pr -> rl (visits NOW f (reord hint accF)) pr -> ptodo p t = rest -> ot = [HInv t o] ->
                  Facts s1 tab accF -> W s1 p L ot
  | W_G tab accF : pthr p t = QIdle -> ptodo p t = rest -> ot = [HInv t o; HRes t (CList (visits NOW f (reord hint accF)))] ->
               Facts s1 tab accF -> W s1 p L ot
  | W_Past : length (ptodo p t) < length rest -> W s1 p L ot.

  (* a disabled move *)
  Lemma W_none s1 p L ot u : W s1 p L ot -> W (s1 ++ [u]) p L ot.
  Proof.
    intros [A B C|A B C|tab acc A B C D E F G HC|tab accF pr A B C D E|tab accF A B C D|A].
    - apply W_A; assumption.
    - apply W_pre; assumption.
    - eapply W_E; try eassumption.
      + intros k i Hin. apply Wit_mono. apply F. exact Hin.
      + intros k i H. apply G. eapply Hc_mono. exact H.
      + apply Cur_mono. exact HC.
    - eapply W_F; try eassumption. apply Facts_mono. exact E.
    - eapply W_G; try eassumption. apply Facts_mono. exact D.
    - apply W_Past. exact A.
  Qed.

  Lemma thist_inv u (x : cop) : thist u [@HInv cop cres u x] = [HInv u x].
  Proof. unfold thist. cbn [filter ev_thread]. rewrite Nat.eqb_refl. reflexivity. Qed.

  Lemma thist_res u (r : cres) : thist u [@HRes cop cres u r] = [HRes u r].
  Proof. unfold thist. cbn [filter ev_thread]. rewrite Nat.eqb_refl. reflexivity. Qed.

  Lemma JQ_same (x x' : xstate) tab k i acc : g_pc x' t = g_pc x t -> (forall tb, tab_at x' tb = tab_at x tb) ->
    JQ t tab k i x acc -> JQ t tab k i x' acc.
  Proof. intros E1 E2. unfold CX_range.JQ, X_range.hm. rewrite E1, E2. exact (fun H => H). Qed.

  (* a move of another thread *)
  Lemma W_other s1 p L ot u p1 os h : W s1 p L ot -> p = pafter p0 s1 -> Reach (px p) L ->
    gstep p u = Some (p1, os, h) -> t <> u -> W (s1 ++ [u]) p1 (L ++ plab p u) (ot ++ thist t (cproj os)).
  Proof.
    intros HW Ep HR E Hn.
    destruct (gstep_other _ _ _ _ _ _ _ _ _ _ _ _ _ _ _ _ _ p u p1 os h t E Hn) as [Eth [Etd Eos]].
    rewrite Eos, app_nil_r.
    destruct HW as [A B C|A B C|tab acc A B C D EE F G HC|tab accF pr A B C D EE|tab accF A B C D|A].
    - apply W_A; congruence.
    - apply W_pre; congruence.
    - (* the traversal is under way *)
      assert (Hst : g_pc (px p1) t = g_pc (px p) t /\ cv t acc (plab p u) = acc
                    /\ (forall k i, vis (tab_at (px p) tab) k i -> JQ t tab k i (px p) acc -> JQ t tab k i (px p1) acc)).
      { destruct (mach (pthr p u)) eqn:Hm.
        - destruct (gstep_mach _ _ _ _ _ _ _ _ _ _ _ _ _ _ _ _ _ p u p1 os h Hm E) as [ls [Ex [El _]]]. rewrite El.
          split; [eapply xstep_other_trav; [exact Ex | exact Hn | exact D]|]. split.
          + rewrite (cv_step _ _ _ _ _ _ _ _ _ _ _ _ _ _ _ _ _ _ Ex). destruct (Nat.eq_dec u t); [exfalso; apply Hn; congruence | reflexivity].
          + intros k i Hv HJ.
            pose proof (reach_jq_step eqd hash idx tag nslots seeds grow_needed shrink_policy probe nstripes minlen grow_only len0 Hx Hlen
                          _ _ t tab k i acc u _ _ HR Hv HJ Ex) as HJ'.
            rewrite (allvis_step _ _ _ _ _ _ _ _ _ _ _ _ _ _ _ _ _ Ex) in HJ'. unfold CX_range.svis in HJ'.
            destruct (Nat.eq_dec u t); [exfalso; apply Hn; congruence|]. rewrite app_nil_r in HJ'. exact HJ'.
        - destruct (gstep_client _ _ _ _ _ _ _ _ _ _ _ _ _ _ _ _ _ p u p1 os h Hm E) as [El [Ex|[xo Ex]]]; rewrite El, Ex;
            (split; [reflexivity|]); (split; [reflexivity|]); intros k i _ HJ; [exact HJ|].
          eapply JQ_same; [| |exact HJ]; reflexivity. }
      destruct Hst as [Hpc [Hcv HJ]].
      eapply (W_E _ _ _ _ tab acc); [congruence | congruence | exact C | | | | | apply Cur_mono; exact HC].
      + rewrite Hpc. exact D.
      + rewrite cv_app, <- EE. symmetry. exact Hcv.
      + intros k i Hin. apply Wit_mono. apply F. exact Hin.
      + intros k i H. apply HJ.
        * rewrite Ep. eapply Hc_here; [exact H|]. unfold traversing. rewrite <- Ep. exact D.
        * apply G. eapply Hc_mono. exact H.
    - eapply W_F; try eassumption; try congruence. apply Facts_mono. exact EE.
    - eapply W_G; try eassumption; try congruence. apply Facts_mono. exact D.
    - apply W_Past. congruence.
  Qed.

  Lemma plab_client p u : mach (pthr p u) = false -> plab p u = [].
  Proof. intros Hm. unfold CX_range.plab. rewrite Hm. reflexivity. Qed.

  (* a move of thread t itself *)
  Lemma W_own s1 p L ot p1 os h : W s1 p L ot -> p = pafter p0 s1 -> Reach (px p) L -> TI p ->
    gstep p t = Some (p1, os, h) -> W (s1 ++ [t]) p1 (L ++ plab p t) (ot ++ thist t (cproj os)).
  Proof.
    intros HW Ep HR HT E.
    destruct HW as [A B C|B A C|tab acc A B C D EE F G HC|tab accF pr A B C D EE|tab accF A B C D|A].
    - (* the invocation *)
      rewrite (gstep_idle p t o rest A B) in E. inversion E; subst p1 os h; clear E.
      apply W_pre; cbn [p_thr p_todo]; rewrite ?upd_eq.
      + unfold prephase. destruct progs_o as [->| ->]; auto.
      + reflexivity.
      + rewrite C. cbn [cproj app]. apply thist_inv.
    - (* before the traversal *)
      destruct B as [Eq|[Eq|[Eq|[Eq|[Eq|Eq]]]]].
      + rewrite (gstep_size p t o _ Eq) in E. destruct (sup CSize); [|discriminate E]. inversion E; subst p1 os h; clear E.
        apply W_pre; cbn [p_thr p_todo cproj thist filter]; rewrite ?upd_eq, ?app_nil_r; [unfold prephase; auto | exact A | exact C].
      + assert (Hm : mach (pthr p t) = true) by (rewrite Eq; reflexivity).
        destruct (gstep_mach _ _ _ _ _ _ _ _ _ _ _ _ _ _ _ _ _ p t p1 os h Hm E) as [ls [Ex [El [Eth [Etd Eo]]]]].
        apply W_pre; [| rewrite Etd; exact A | rewrite Eo, feed_cproj; cbn [thist filter]; rewrite app_nil_r; exact C].
        rewrite Eth, upd_eq, Eq. cbn [CX_product2.feed]. unfold prephase.
        destruct (so_inv xop xres (so_of ls)); [destruct (so_res xop xres (so_of ls))|]; cbn [fst]; auto.
      + assert (Hm : mach (pthr p t) = true) by (rewrite Eq; reflexivity).
        destruct (gstep_mach _ _ _ _ _ _ _ _ _ _ _ _ _ _ _ _ _ p t p1 os h Hm E) as [ls [Ex [El [Eth [Etd Eo]]]]].
        apply W_pre; [| rewrite Etd; exact A | rewrite Eo, feed_cproj; cbn [thist filter]; rewrite app_nil_r; exact C].
        rewrite Eth, upd_eq, Eq. cbn [CX_product2.feed]. unfold prephase.
        destruct (so_res xop xres (so_of ls)); cbn [fst]; auto.
      + unfold RangeP in Eq. rewrite (gstep_now p t o _ Eq) in E. inversion E; subst p1 os h; clear E.
        apply W_pre; cbn [p_thr p_todo cproj thist filter]; rewrite ?upd_eq, ?app_nil_r; [unfold prephase; auto 6 | exact A | exact C].
      + rewrite (gstep_snap p t o _ Eq) in E. inversion E; subst p1 os h; clear E.
        apply W_pre; cbn [p_thr p_todo cproj thist filter]; rewrite ?upd_eq, ?app_nil_r; [unfold prephase; auto 7 | exact A | exact C].
      + (* the traversal is in the todo list of t's map thread *)
        assert (Hm : mach (pthr p t) = true) by (rewrite Eq; reflexivity).
        destruct (gstep_mach _ _ _ _ _ _ _ _ _ _ _ _ _ _ _ _ _ p t p1 os h Hm E) as [ls [Ex [El [Eth [Etd Eo]]]]].
        pose proof (HT t) as Ht. unfold CX_range.TIq in Ht. rewrite Eq in Ht. destruct Ht as [Htd [Hs|Hi]].
        * destruct (start_step _ _ _ _ _ _ _ _ _ _ _ _ _ _ _ _ Hs Ex) as [Hso _].
          apply W_pre; [| rewrite Etd; exact A | rewrite Eo, feed_cproj; cbn [thist filter]; rewrite app_nil_r; exact C].
          rewrite Eth, upd_eq, Eq, Hso. cbn [CX_product2.feed so_inv fst]. unfold prephase. auto 7.
        * destruct (range_invoke_step _ _ _ _ _ _ _ _ _ _ _ _ _ _ _ _ _ Hi Htd Ex) as [_ [[Hso Hpc]|[_ [_ Hlt]]]].
          2:{ exfalso. apply Nat.ltb_ge in Hlt. pose proof (reach_len _ _ HR). lia. }
          eapply (W_E _ _ _ _ (g_cur (px p)) []).
          -- rewrite Eth, upd_eq, Eq, Hso. reflexivity.
          -- rewrite Etd. exact A.
          -- rewrite Eo, feed_cproj. cbn [thist filter]. rewrite app_nil_r. exact C.
          -- rewrite Hpc. reflexivity.
          -- rewrite cv_app, El, (cv_step _ _ _ _ _ _ _ _ _ _ _ _ _ _ _ _ _ _ Ex).
             destruct (Nat.eq_dec t t) as [_|Hc]; [|congruence]. destruct (pc_idle_dec (g_pc (px p) t)) as [_|Hc]; [reflexivity | congruence].
          -- intros k i [].
          -- intros k i _. right. rewrite Hpc. split; [reflexivity|]. intros Hc0. inversion Hc0.
          -- exists s1, [t]. rewrite <- Ep. auto.
    - (* the traversal runs *)
      assert (Hm : mach (pthr p t) = true) by (rewrite A; reflexivity).
      destruct (gstep_mach _ _ _ _ _ _ _ _ _ _ _ _ _ _ _ _ _ p t p1 os h Hm E) as [ls [Ex [El [Eth [Etd Eo]]]]].
      assert (Htr : traversing (pafter p0 s1) tab) by (unfold traversing; rewrite <- Ep; exact D).
      set (sv := svis (px p) t t).
      assert (Hnid : g_pc (px p) t <> PIdle) by (intros Hc0; rewrite Hc0 in D; exact D).
      assert (Hcv : acc ++ sv = cv t [] (L ++ ls)).
      { rewrite cv_app, <- EE, (cv_step _ _ _ _ _ _ _ _ _ _ _ _ _ _ _ _ _ _ Ex).
        destruct (Nat.eq_dec t t) as [_|Hc0]; [|congruence]. destruct (pc_idle_dec (g_pc (px p) t)) as [Hc0|_]; [contradiction | reflexivity]. }
      assert (Hsv : forall k i, In (k, i) sv -> vis (tab_at (px p) tab) k i).
      { intros k i Hin. unfold sv, CX_range.svis in Hin. destruct (Nat.eq_dec t t) as [_|Hc0]; [|congruence].
        destruct (g_pc (px p) t) eqn:Hpc; try contradiction. cbn [CX_range.trav] in D. subst tab0.
        apply (reach_snapshot eqd hash idx tag nslots seeds grow_needed shrink_policy probe nstripes minlen grow_only len0 Hx Hlen _ _ _ _ _ _ HR Hpc k i). exact Hin. }
      assert (HWit : forall k i, In (k, i) (acc ++ sv) -> Wit (s1 ++ [t]) tab k i).
      { intros k i Hin. apply in_app_or in Hin. destruct Hin as [Hin|Hin]; [apply Wit_mono; apply F; exact Hin|].
        apply (Wit_here s1 tab k i Htr). rewrite <- Ep. apply Hsv. exact Hin. }
      assert (HJ : forall k i, Hc (s1 ++ [t]) k i -> JQ t tab k i (px p1) (acc ++ sv)).
      { intros k i H.
        assert (Hv : vis (tab_at (px p) tab) k i) by (rewrite Ep; eapply Hc_here; [exact H | exact Htr]).
        pose proof (reach_jq_step eqd hash idx tag nslots seeds grow_needed shrink_policy probe nstripes minlen grow_only len0 Hx Hlen
                      _ _ t tab k i acc t _ _ HR Hv (G k i (Hc_mono _ _ _ _ H)) Ex) as HJ'.
        rewrite (allvis_step _ _ _ _ _ _ _ _ _ _ _ _ _ _ _ _ _ Ex) in HJ'. exact HJ'. }
      assert (Hot : ot ++ thist t (cproj os) = [HInv t o]) by (rewrite Eo, feed_cproj; cbn [thist filter]; rewrite app_nil_r; exact C).
      rewrite Hot, El.
      assert (Hcont : (so_res xop xres (so_of ls) = None /\ so_vis xop xres (so_of ls) = sv /\ exists tab', trav (g_pc (px p1) t) tab' /\ tab' = tab)
                      \/ (so_res xop xres (so_of ls) = Some XRUnit /\ so_vis xop xres (so_of ls) = sv /\ g_pc (px p1) t = PIdle)).
      { unfold sv, CX_range.svis. destruct (Nat.eq_dec t t) as [_|Hc0]; [|congruence].
        destruct (g_pc (px p) t) eqn:Hpc; try contradiction; cbn [CX_range.trav] in D; subst tab0.
        - destruct (range_lock_step _ _ _ _ _ _ _ _ _ _ _ _ _ _ _ _ _ _ Hpc Ex) as [Hso [Hpc1 _]]. left. rewrite Hso. cbn [so_res so_vis].
          split; [reflexivity|]. split; [reflexivity|]. exists tab. rewrite Hpc1. split; reflexivity.
        - destruct (range_unlock_step _ _ _ _ _ _ _ _ _ _ _ _ _ _ _ _ _ _ _ Hpc Ex) as [_ [[Hso Hpc1]|[Hso Hpc1]]]; rewrite Hso; cbn [so_res so_vis].
          + left. split; [reflexivity|]. split; [reflexivity|]. exists tab. rewrite Hpc1. split; reflexivity.
          + right. auto. }
      destruct Hcont as [[Hr [Hvs [tab' [Htr1 ->]]]]|[Hr [Hvs Hpc1]]].
      + eapply (W_E _ _ _ _ tab (acc ++ sv)); [| rewrite Etd; exact B | reflexivity | exact Htr1 | exact Hcv | exact HWit | exact HJ | apply Cur_mono; exact HC].
        rewrite Eth, upd_eq, A. cbn [CX_product2.feed]. rewrite Hr, Hvs. reflexivity.
      + eapply (W_F _ _ _ _ tab (acc ++ sv) (rloop NOW f (reord hint (acc ++ sv)) [])); [| apply (Hrl NOW f _ []) | rewrite Etd; exact B | reflexivity |].
        * rewrite Eth, upd_eq, A. cbn [CX_product2.feed]. rewrite Hr, Hvs. reflexivity.
        * split; [|split; [exact HWit|split; [|apply Cur_mono; exact HC]]].
          -- rewrite Hcv. apply (reach_once eqd hash idx tag nslots seeds grow_needed shrink_policy probe nstripes minlen grow_only len0 Hx Hlen (px p1) (L ++ ls) t).
             eapply Reach_step; eassumption.
          -- intros k i H. destruct (HJ k i H) as [Hin|Hj]; [exact Hin|]. rewrite Hpc1 in Hj. contradiction.
    - (* the visitor is called, the method returns *)
      inversion B as [Er|e k Hk Er]; subst pr.
      + rewrite (gstep_ret p t o _ A) in E. inversion E; subst p1 os h; clear E.
        eapply (W_G _ _ _ _ tab accF); cbn [p_thr p_todo]; rewrite ?upd_eq; [reflexivity | exact C | | apply Facts_mono; exact EE].
        rewrite D. cbn [cproj]. rewrite thist_res. reflexivity.
      + rewrite (gstep_emit p t o _ _ A) in E. inversion E; subst p1 os h; clear E.
        eapply (W_F _ _ _ _ tab accF k); cbn [p_thr p_todo cproj thist filter]; rewrite ?upd_eq, ?app_nil_r;
          [reflexivity | exact Hk | exact C | exact D | apply Facts_mono; exact EE].
    - (* the next call *)
      destruct (ptodo p t) as [|o' rest'] eqn:Et; [rewrite (gstep_idle_nil p t A Et) in E; discriminate E|].
      rewrite (gstep_idle p t o' rest' A Et) in E. inversion E; subst p1 os h; clear E.
      apply W_Past. cbn [p_todo]. rewrite upd_eq. rewrite <- B. cbn [length]. lia.
    - apply W_Past. pose proof (gstep_todo_len p t p1 os h t E). lia.
  Qed.

  Lemma TI_p0 s1 : TI (pafter p0 s1).
  Proof. apply TI_run. apply TI_run. apply TI_init. Qed.

  Lemma Reach_p0 s1 : Reach (px (pafter p0 s1)) (L0 ++ plabs p0 s1).
  Proof. apply Reach_run. apply Reach_from_init. Qed.

  Theorem W_all s1 : W s1 (pafter p0 s1) (L0 ++ plabs p0 s1) (thist t (cproj (pouts p0 s1))).
  Proof.
    induction s1 as [|u s1 IH] using rev_ind.
    - apply W_A; [exact H0thr | exact H0todo | reflexivity].
    - rewrite pafter_snoc, pouts_snoc, plabs_snoc.
      destruct (gstep (pafter p0 s1) u) as [[[p1 os] h]|] eqn:E.
      + rewrite cproj_app, thist_app, app_assoc.
        destruct (Nat.eq_dec t u) as [<-|Hn].
        * eapply W_own; [exact IH | reflexivity | apply Reach_p0 | apply TI_p0 | exact E].
        * eapply W_other; [exact IH | reflexivity | apply Reach_p0 | exact E | exact Hn].
      + rewrite !app_nil_r. apply W_none. exact IH.
  Qed.

  (* ---------------- the theorems ---------------- *)

  (* the window: t is idle again, the call consumed *)
  Theorem cache_range_window sched :
    pthr (pafter p0 sched) t = QIdle -> ptodo (pafter p0 sched) t = rest ->
    exists tab accF, thist t (cproj (pouts p0 sched)) = [HInv t o; HRes t (CList (visits NOW f (reord hint accF)))]
                     /\ Facts sched tab accF.
  Proof.
    intros Hq Htd.
    destruct (W_all sched) as [A B C|B A C|tab acc A B C D EE F G HC|tab accF pr A B C D EE|tab accF A B C D|A].
    - rewrite Htd in B. exfalso. assert (Hl : length rest = length (o :: rest)) by (rewrite <- B; reflexivity). cbn [length] in Hl. lia.
    - rewrite Hq in B. unfold prephase in B. exfalso. destruct B as [B|[B|[B|[B|[B|B]]]]]; discriminate B.
    - rewrite Hq in A. discriminate A.
    - rewrite Hq in A. discriminate A.
    - exists tab, accF. auto.
    - rewrite Htd in A. lia.
  Qed.

  (* a call that has not returned (yet, or ever): the pairs its traversal has collected so far *)
  Theorem cache_range_pending sched o' k' acc :
    pthr (pafter p0 sched) t = QSWait o' k' acc -> ptodo (pafter p0 sched) t = rest ->
    NoDup (map fst acc)
    /\ exists tab, Cur sched tab /\ traversing (pafter p0 sched) tab /\ forall k i, In (k, i) acc -> Wit sched tab k i.
  Proof.
    intros Hq Htd.
    destruct (W_all sched) as [A B C|B A C|tab acc0 A B C D EE F G HC|tab accF pr A B C D EE|tab accF A B C D|A].
    - rewrite Hq in A. discriminate A.
    - rewrite Hq in B. unfold prephase in B. exfalso. destruct B as [B|[B|[B|[B|[B|B]]]]]; discriminate B.
    - rewrite Hq in A. injection A as Eo Ek Ea. rewrite Ea. split.
      + rewrite EE. apply (reach_once eqd hash idx tag nslots seeds grow_needed shrink_policy probe nstripes minlen grow_only len0 Hx Hlen
                             (px (pafter p0 sched)) _ t). apply Reach_p0.
      + exists tab. auto.
    - rewrite Hq in A. discriminate A.
    - rewrite Hq in A. discriminate A.
    - rewrite Htd in A. lia.
  Qed.

  Section Readings.
    Variable sched : list nat.
    Hypothesis Hq : pthr (pafter p0 sched) t = QIdle.
    Hypothesis Htd : ptodo (pafter p0 sched) t = rest.
    Variable l : list (K * V).
    Hypothesis Hl : In (HRes t (CList l)) (thist t (cproj (pouts p0 sched))).

    Lemma the_result : exists tab accF, l = visits NOW f (reord hint accF) /\ Facts sched tab accF
                                    /\ thist t (cproj (pouts p0 sched)) = [HInv t o; HRes t (CList l)].
    Proof.
      destruct (cache_range_window sched Hq Htd) as [tab [accF [Eh HF]]]. exists tab, accF.
      rewrite Eh in Hl. destruct Hl as [Hc0|[Hc0|[]]]; [discriminate Hc0|]. inversion Hc0; subst l. auto.
    Qed.

    (* (a) at most once per key *)
    Theorem cache_range_once : NoDup (map fst l).
    Proof.
      destruct the_result as [tab [accF [-> [[Hnd _] _]]]]. apply visits_nodup.
      eapply Permutation_NoDup; [apply Permutation_map; apply Hperm | exact Hnd].
    Qed.

    (* (b) only what was stored under the key, current at some moment of the traversal, not expired at NOW *)
    Theorem cache_range_no_phantom k v : In (k, v) l ->
      exists a b tab i, sched = a ++ b /\ traversing (pafter p0 a) tab /\ vis (tab_at (px (pafter p0 a)) tab) k i
                        /\ iv i = v /\ expiredWithNow NOW i = false.
    Proof.
      destruct the_result as [tab [accF [-> [[_ [HW _]] _]]]]. intros Hin.
      apply visits_sound in Hin. destruct Hin as [i [Hin [He Hv]]].
      apply (Permutation_in _ (Permutation_sym (Hperm hint accF))) in Hin.
      destruct (HW k i Hin) as [a [b [E1 [E2 E3]]]]. exists a, b, tab, i. auto.
    Qed.

    (* (b'), sharper: ONE table tab for all the pairs of l, and tab was the current table at a configuration of
       the window (the one at which the traversal loaded the table pointer) *)
    Theorem cache_range_no_phantom_tab :
      exists tab, (exists a0 b0, sched = a0 ++ b0 /\ g_cur (px (pafter p0 a0)) = tab)
        /\ forall k v, In (k, v) l ->
             exists a b i, sched = a ++ b /\ traversing (pafter p0 a) tab /\ vis (tab_at (px (pafter p0 a)) tab) k i
                           /\ iv i = v /\ expiredWithNow NOW i = false.
    Proof.
      destruct the_result as [tab [accF [-> [[_ [HW [_ HC]]] _]]]]. exists tab. split; [exact HC|].
      intros k v Hin. apply visits_sound in Hin. destruct Hin as [i [Hin [He Hv]]].
      apply (Permutation_in _ (Permutation_sym (Hperm hint accF))) in Hin.
      destruct (HW k i Hin) as [a [b [E1 [E2 E3]]]]. exists a, b, i. auto.
    Qed.

    (* (b''): if the current table is the same at every configuration of the window (no grow / shrink / Clear
       is published meanwhile), every pair of l was in the ABSTRACT map ([abs] of X_resize.v: what a lock-free
       reader that loads the table pointer now can find) at a configuration of the window *)
    Theorem cache_range_no_phantom_abs c :
      (forall a b, sched = a ++ b -> g_cur (px (pafter p0 a)) = c) ->
      forall k v, In (k, v) l ->
        exists a b i, sched = a ++ b /\ X_resize.abs hash idx nslots nstripes (px (pafter p0 a)) k i
                      /\ iv i = v /\ expiredWithNow NOW i = false.
    Proof.
      intros Hcur k v Hin. destruct cache_range_no_phantom_tab as [tab [[a0 [b0 [E0 Ec]]] H]].
      destruct (H k v Hin) as [a [b [i [E1 [_ [E3 [E4 E5]]]]]]]. exists a, b, i. split; [exact E1|]. split; [|auto].
      unfold X_resize.abs. rewrite (Hcur a b E1), <- (Hcur a0 b0 E0), Ec. exact E3.
    Qed.

    (* (c) every key that stays present and unexpired is visited *)
    Theorem cache_range_complete k i :
      expiredWithNow NOW i = false ->
      (forall a b tab, sched = a ++ b -> traversing (pafter p0 a) tab -> vis (tab_at (px (pafter p0 a)) tab) k i) ->
      (forall k' v', In (k', v') l -> f k' v' = true) ->
      In (k, iv i) l.
    Proof.
      destruct the_result as [tab0 [accF [-> [[_ [_ [HC _]]] _]]]]. intros He Hv Hf.
      assert (Hin : In (k, i) accF) by (apply HC; intros a b tab E1 _ E2; apply (Hv a b tab E1 E2)).
      apply (Permutation_in _ (Hperm hint accF)) in Hin.
      destruct (visits_end NOW f (reord hint accF)) as [[pre [k' [v' [E Hfv]]]]|[_ H]].
      - exfalso. rewrite (Hf k' v') in Hfv; [discriminate Hfv|]. rewrite E. apply in_or_app. right. left. reflexivity.
      - apply H; assumption.
    Qed.
  End Readings.

End Window.
