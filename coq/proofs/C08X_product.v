(* C08X_product.v -- C08 at the cache level over a concurrent map machine: the generic part.

   The product machine of CX_product.v (threads running cache methods, each MapCall a whole
   call of the map machine), for any map machine with CX_product.v's interface, any
   translation [tr]/[bk] and ANY supported calls [sup] -- in particular with CSize run ON THE
   MACHINE (Size is not linearizable, so CX_product's theorems exclude it; nothing here needs
   linearizability).

   1. [prophecy_state]: every run of the product machine drives the map machine through a run
      it also has from the initial state whose todo lists are what the threads WILL push plus any
      [fut_after] -- reaching the SAME machine state up to the todo lists.  (CX_product.prophecy
      says this of the histories only.)  So every theorem about reachable states of the map
      machine with todo lists fixed in advance applies to the machine state inside a reachable
      product state.
   2. [todo_ext]: the machine's behaviour depends on the todo lists pointwise only.
   3. [solo_answer]: a thread whose map call is pushed or invoked, run alone, takes the answer the
      machine gives when its thread is run alone.
   4. [solo_call]: an idle thread whose next cache method is one map call followed by a return, run
      alone from a state of the product machine, invokes, makes the call, and returns. *)
From CacheV Require Import Base SpecMap Client Ops Lin Conc.
From CacheV.proofs Require Import CX_trans CX_compose CX_product.
Local Open Scope nat_scope.
Local Arguments p_x {K V XS} p.
Local Arguments p_thr {K V XS} p _.
Local Arguments p_todo {K V XS} p _.

Section Count.
  Context {K V : Type}.
  Variable progs : cop K V -> prog K V (cres K V).
  Variables NOW DFLT : Z.
  Variable CB : cbid.

  Notation item := (item V).
  Notation cop := (cop K V).
  Notation cres := (cres K V).
  Notation cmop := (cmop K V).
  Notation imres := (imres K V).

  Variables XS XO XR : Type.
  Variable step : XS -> nat -> option (XS * list (hev XO XR)).
  Variable todo : XS -> nat -> list XO.
  Variable wtodo : XS -> (nat -> list XO) -> XS.
  Variable idle : XS -> nat -> Prop.
  Variable xinit : (nat -> list XO) -> XS.
  Variable tr : cmop -> XO.
  Variable bk : cmop -> XR -> imres.
  Variable sup : cmop -> bool.

  Notation mrun := (mrun XS XO XR step).
  Notation pconf := (@pconf K V XS).
  Notation pstep := (pstep progs NOW DFLT CB XS XO XR step todo wtodo tr bk sup).
  Notation prun := (prun progs NOW DFLT CB XS XO XR step todo wtodo tr bk sup).
  Notation PI := (PI XS XO todo idle tr sup).
  Notation push := (push XS XO todo wtodo).
  Notation pinit := (pinit XS XO xinit).
  Notation pset := (pset XS).

  Lemma upd_same {X} (f : nat -> X) t x : upd f t x t = x.
  Proof. unfold upd. destruct (Nat.eq_dec t t); congruence. Qed.
  Lemma upd_other {X} (f : nat -> X) t x t' : t' <> t -> upd f t x t' = f t'.
  Proof. unfold upd. destruct (Nat.eq_dec t' t); congruence. Qed.

  Hypothesis H_todo_w : forall s td t, todo (wtodo s td) t = td t.
  Hypothesis H_idle_w : forall s td t, idle (wtodo s td) t <-> idle s t.
  Hypothesis H_ww : forall s a b, wtodo (wtodo s a) b = wtodo s b.
  Hypothesis H_wid : forall s, wtodo s (todo s) = s.
  Hypothesis H_init_todo : forall td t, todo (xinit td) t = td t.
  Hypothesis H_init_idle : forall td t, idle (xinit td) t.
  Hypothesis H_init_w : forall a b, wtodo (xinit a) b = xinit b.

  Hypothesis H_frame : forall s t s' h td fut,
    step s t = Some (s', h) -> (forall u, td u = todo s u ++ fut u) ->
    exists td', step (wtodo s td) t = Some (wtodo s' td', h) /\ forall u, td' u = todo s' u ++ fut u.

  Hypothesis H_proto : forall s t s' h, step s t = Some (s', h) ->
    (forall u, u <> t -> todo s' u = todo s u /\ (idle s u -> idle s' u))
    /\ ( (idle s t /\ h = [] /\ idle s' t /\ todo s' t = todo s t)
         \/ (idle s t /\ exists o rest, todo s t = o :: rest /\ todo s' t = rest
                        /\ (h = [HInv t o] \/ exists r, h = [HInv t o; HRes t r] /\ idle s' t))
         \/ (~ idle s t /\ todo s' t = todo s t /\ (h = [] \/ exists r, h = [HRes t r] /\ idle s' t)) ).

  Notation pstep_ok := (pstep_ok progs NOW DFLT CB XS XO XR step todo wtodo idle tr bk sup H_todo_w H_idle_w H_proto).
  Notation prun_cons := (prun_cons progs NOW DFLT CB XS XO XR step todo wtodo tr bk sup).
  Notation mrun_cons := (mrun_cons XS XO XR step).

  (* ---------------- the invariant along runs ---------------- *)

  Lemma prun_PI sched : forall p, PI p -> PI (fst (fst (prun p sched))).
  Proof.
    induction sched as [|[t orc] rest IH]; intros p HP; [exact HP|].
    rewrite prun_cons. destruct (pstep p t orc) as [[[p1 os] h]|] eqn:E; [|apply IH; exact HP].
    cbn [fst]. apply IH. destruct (pstep_ok p t orc p1 os h HP E) as [HP1 _]. exact HP1.
  Qed.

  Lemma prun_app a : forall p b,
    prun p (a ++ b) =
    let '(p1, o1, h1) := prun p a in let '(p2, o2, h2) := prun p1 b in (p2, o1 ++ o2, h1 ++ h2).
  Proof.
    induction a as [|[t orc] r IH]; intros p b.
    - cbn [app CX_product.prun]. destruct (prun p b) as [[p2 o2] h2]. reflexivity.
    - cbn [app]. rewrite !prun_cons. destruct (pstep p t orc) as [[[p1 os] h]|]; [|apply IH].
      rewrite IH. destruct (prun p1 r) as [[p2 o2] h2]. cbn [fst snd].
      destruct (prun p2 b) as [[p3 o3] h3]. cbn [fst snd]. rewrite !app_assoc. reflexivity.
  Qed.

  (* ---------------- 1. the prophecy, with the states ---------------- *)

  Definition aheadS (fut : nat -> list XO) (s s' : XS) : Prop :=
    exists td, s' = wtodo s td /\ forall u, td u = todo s u ++ fut u.

  Lemma pstep_kind' p t orc p1 os h : pstep p t orc = Some (p1, os, h) ->
    (p_x p1 = p_x p /\ h = [])
    \/ (exists mo, p_x p1 = push (p_x p) t (tr mo) /\ h = [])
    \/ step (p_x p) t = Some (p_x p1, h).
  Proof.
    intros E. unfold CX_product.pstep in E.
    assert (Hx : xmove XS XO XR step bk p t = Some (p1, os, h) -> step (p_x p) t = Some (p_x p1, h)).
    { unfold xmove. destruct (step (p_x p) t) as [[x1 h1]|]; [|discriminate].
      destruct (feeds XO XR bk t (p_thr p t) h1). intros E'. inversion E'; subst. reflexivity. }
    destruct (p_thr p t) as [|o pr|o mo k|o mo k].
    - destruct (p_todo p t); [discriminate E|]. inversion E; subst. left. split; reflexivity.
    - destruct pr as [r|mo k|k|k|d k|k|cb k|e k]; try discriminate E;
        try (inversion E; subst; left; split; reflexivity).
      destruct mo; try (inversion E; subst; left; split; reflexivity);
        (destruct (sup _); [|discriminate E]; inversion E; subst; right; left; eexists; split; reflexivity).
    - right; right. apply Hx. exact E.
    - right; right. apply Hx. exact E.
  Qed.

  Theorem prophecy_state sched : forall p fut_after,
    exists fut,
      forall s', aheadS fut (p_x p) s' ->
        exists sched' s'', mrun s' sched' = (s'', snd (prun p sched))
                           /\ aheadS fut_after (p_x (fst (fst (prun p sched)))) s''.
  Proof.
    induction sched as [|[t orc] rest IH]; intros p fut_after.
    - exists fut_after. intros s' Ha. exists [], s'. split; [reflexivity | exact Ha].
    - rewrite prun_cons. destruct (pstep p t orc) as [[[p1 os] h]|] eqn:E; [|apply IH].
      cbn [fst snd]. destruct (IH p1 fut_after) as [fut1 Hf1].
      destruct (pstep_kind' p t orc p1 os h E) as [[Ex Eh]|[[mo [Ex Eh]]|Es]].
      + subst h. exists fut1. intros s' Ha. rewrite <- Ex in Ha. apply (Hf1 s' Ha).
      + subst h. exists (upd fut1 t (tr mo :: fut1 t)).
        intros s' [td [Es' Htd]]. apply Hf1. rewrite Ex. exists td. split.
        * unfold CX_product.push. rewrite H_ww. exact Es'.
        * intros u. unfold CX_product.push. rewrite H_todo_w. rewrite Htd. unfold upd.
          destruct (Nat.eq_dec u t) as [->|]; [rewrite <- app_assoc; reflexivity | reflexivity].
      + exists fut1. intros s' [td [Es' Htd]]. subst s'.
        destruct (H_frame _ _ _ _ td fut1 Es Htd) as [td' [Es1 Htd']].
        destruct (Hf1 (wtodo (p_x p1) td')) as [sched' [s'' [Hs' Ha']]]; [exists td'; split; [reflexivity | exact Htd']|].
        exists (t :: sched'), s''. split; [|exact Ha'].
        rewrite mrun_cons, Es1. rewrite Hs'. reflexivity.
  Qed.

  (* ---------------- 2. the todo lists matter pointwise only ---------------- *)

  Lemma step_ext s td1 td2 t : (forall u, td1 u = td2 u) ->
    match step (wtodo s td1) t with
    | Some (s1, h) => exists td2', step (wtodo s td2) t = Some (wtodo s1 td2', h) /\ forall u, td2' u = todo s1 u
    | None => True
    end.
  Proof.
    intros He. destruct (step (wtodo s td1) t) as [[s1 h]|] eqn:E; [|exact I].
    destruct (H_frame _ _ _ _ td2 (fun _ => []) E) as [td' [E' Htd']].
    { intros u. rewrite H_todo_w, app_nil_r. symmetry. apply He. }
    rewrite H_ww in E'. exists td'. split; [exact E'|]. intros u. rewrite Htd', app_nil_r. reflexivity.
  Qed.

  Theorem todo_ext sched : forall s td1 td2, (forall u, td1 u = td2 u) ->
    snd (mrun (wtodo s td1) sched) = snd (mrun (wtodo s td2) sched).
  Proof.
    induction sched as [|t rest IH]; intros s td1 td2 He; [reflexivity|].
    rewrite !mrun_cons.
    pose proof (step_ext s td1 td2 t He) as H12.
    pose proof (step_ext s td2 td1 t (fun u => eq_sym (He u))) as H21.
    destruct (step (wtodo s td1) t) as [[s1 h]|] eqn:E1.
    - destruct H12 as [td2' [E2 Htd2]]. rewrite E2. cbn [snd]. f_equal.
      rewrite <- (H_wid s1) at 1. apply IH. intros u. symmetry. apply Htd2.
    - destruct (step (wtodo s td2) t) as [[s2 h]|] eqn:E2.
      + destruct H21 as [td1' [E1' _]]. discriminate E1'.
      + apply IH. exact He.
  Qed.

  (* ---------------- 3. a thread inside a map call, run alone ---------------- *)

  (* a thread that stands between calls with nothing to do produces no events *)
  Lemma quiet_silent t m : forall s, idle s t -> todo s t = [] -> snd (mrun s (repeat t m)) = [].
  Proof.
    induction m as [|m IH]; intros s Hi Ht; [reflexivity|].
    cbn [repeat]. rewrite mrun_cons. destruct (step s t) as [[s1 h]|] eqn:E; [|apply IH; assumption].
    cbn [snd]. destruct (H_proto _ _ _ _ E) as [_ [[_ [Eh [Hi1 Ht1]]]|[[_ [o [rest [Et _]]]]|[Hn _]]]].
    - subst h. cbn [app]. apply IH; [exact Hi1 | rewrite Ht1; exact Ht].
    - rewrite Ht in Et. discriminate Et.
    - contradiction.
  Qed.

  Definition in_call (q : qst) (o : cop) (mo : cmop) (k : imres -> prog K V cres) : Prop :=
    q = QPushed o mo k \/ q = QWait o mo k.

  Theorem solo_answer t m : forall (p : pconf) o mo k r,
    PI p -> in_call (p_thr p t) o mo k ->
    In (HRes t r) (snd (mrun (p_x p) (repeat t m))) ->
    exists j, let p' := fst (fst (prun p (repeat (t, []) j))) in
      cproj (snd (fst (prun p (repeat (t, []) j)))) = []
      /\ p_thr p' t = QRun o (k (bk mo r))
      /\ (forall u, u <> t -> p_thr p' u = p_thr p u) /\ p_todo p' = p_todo p /\ PI p'.
  Proof.
    induction m as [|m IH]; intros p o mo k r HP Hq Hin; [cbn in Hin; contradiction|].
    cbn [repeat] in Hin. rewrite mrun_cons in Hin.
    assert (Hps : pstep p t [] = xmove XS XO XR step bk p t).
    { unfold CX_product.pstep. destruct Hq as [-> | ->]; reflexivity. }
    destruct (step (p_x p) t) as [[x1 h1]|] eqn:Es; [|apply (IH p o mo k r HP Hq Hin)].
    cbn [snd] in Hin.
    (* the product's move *)
    assert (Hmv : exists q' os, pstep p t [] = Some ({| p_x := x1; p_thr := upd (p_thr p) t q'; p_todo := p_todo p |}, os, h1)
                                /\ feeds XO XR bk t (p_thr p t) h1 = (q', os)).
    { rewrite Hps. unfold xmove. rewrite Es. destruct (feeds XO XR bk t (p_thr p t) h1) as [q' os]. eauto. }
    destruct Hmv as [q' [os [Emv Efd]]].
    set (p1 := {| p_x := x1; p_thr := upd (p_thr p) t q'; p_todo := p_todo p |}) in *.
    destruct (pstep_ok p t [] p1 os h1 HP Emv) as [HP1 _].
    assert (Hcont : in_call q' o mo k -> cproj os = [] -> In (HRes t r) (snd (mrun x1 (repeat t m))) ->
              exists j, let p' := fst (fst (prun p (repeat (t, []) j))) in
                cproj (snd (fst (prun p (repeat (t, []) j)))) = []
                /\ p_thr p' t = QRun o (k (bk mo r))
                /\ (forall u, u <> t -> p_thr p' u = p_thr p u) /\ p_todo p' = p_todo p /\ PI p').
    { intros Hq' Hos Hin'.
      destruct (IH p1 o mo k r HP1) as [j [A [B [C [D F]]]]].
      - unfold p1; cbn [p_thr]. rewrite upd_same. exact Hq'.
      - exact Hin'.
      - exists (S j). cbn [repeat]. rewrite prun_cons, Emv. cbn [fst snd]. rewrite cproj_app, Hos, A.
        split; [reflexivity|]. split; [exact B|]. split; [|split; [exact D | exact F]].
        intros u Hu. rewrite (C u Hu). unfold p1; cbn [p_thr]. apply upd_other. exact Hu. }
    assert (Hdone : forall r', q' = QRun o (k (bk mo r')) -> cproj os = [] -> r' = r ->
              exists j, let p' := fst (fst (prun p (repeat (t, []) j))) in
                cproj (snd (fst (prun p (repeat (t, []) j)))) = []
                /\ p_thr p' t = QRun o (k (bk mo r))
                /\ (forall u, u <> t -> p_thr p' u = p_thr p u) /\ p_todo p' = p_todo p /\ PI p').
    { intros r' Eq Hos ->. exists 1. cbn [repeat]. rewrite prun_cons, Emv. cbn [CX_product.prun fst snd]. rewrite app_nil_r.
      split; [exact Hos|]. split; [unfold p1; cbn [p_thr]; rewrite upd_same; exact Eq|].
      split; [intros u Hu; unfold p1; cbn [p_thr]; apply upd_other; exact Hu|]. split; [reflexivity | exact HP1]. }
    pose proof (HP t) as Hpt.
    destruct (H_proto _ _ _ _ Es) as [_ Hc].
    destruct Hq as [Eq|Eq]; rewrite Eq in Hpt, Efd.
    - (* pushed *)
      destruct Hpt as [Htd [Hid _]].
      destruct Hc as [[_ [Eh [Hid1 Htd1]]]|[[_ [xo [rest [Etd [Etd1 Eh]]]]]|[Hni _]]]; [| |contradiction].
      + subst h1. cbn in Efd. inversion Efd; subst q' os. apply Hcont; [left; reflexivity | reflexivity | exact Hin].
      + rewrite Htd in Etd. injection Etd as Exo Erest. rewrite <- Erest in Etd1. clear Erest. subst xo.
        destruct Eh as [Eh|[r' [Eh Hid1]]]; subst h1; cbn in Efd; inversion Efd; subst q' os.
        * apply Hcont; [right; reflexivity | reflexivity|]. cbn in Hin. destruct Hin as [Hin|Hin]; [discriminate Hin | exact Hin].
        * apply (Hdone r'); [reflexivity | reflexivity|].
          rewrite (quiet_silent t m x1 Hid1 Etd1) in Hin. cbn in Hin.
          destruct Hin as [Hin|[Hin|[]]]; [discriminate Hin | inversion Hin; reflexivity].
    - (* invoked *)
      destruct Hpt as [Htd _].
      destruct Hc as [[_ [Eh [Hid1 Htd1]]]|[[_ [xo [rest [Etd _]]]]|[Hni [Htd1 [Eh|[r' [Eh Hid1]]]]]]].
      + subst h1. cbn in Efd. inversion Efd; subst q' os. apply Hcont; [right; reflexivity | reflexivity | exact Hin].
      + rewrite Htd in Etd. discriminate Etd.
      + subst h1. cbn in Efd. inversion Efd; subst q' os. apply Hcont; [right; reflexivity | reflexivity | exact Hin].
      + subst h1. cbn in Efd. inversion Efd; subst q' os.
        apply (Hdone r'); [reflexivity | reflexivity|].
        rewrite (quiet_silent t m x1 Hid1) in Hin by (rewrite Htd1; exact Htd). cbn in Hin.
        destruct Hin as [Hin|[]]. inversion Hin; reflexivity.
  Qed.

  (* ---------------- 4. a whole call, run alone ---------------- *)

  Theorem solo_call t m (p : pconf) o rest mo k r c :
    PI p -> p_thr p t = QIdle -> p_todo p t = o :: rest ->
    progs o = MapCall mo k -> mo <> CSnapshot -> sup mo = true ->
    k (bk mo r) = Ret c ->
    In (HRes t r) (snd (mrun (push (p_x p) t (tr mo)) (repeat t m))) ->
    exists j, let p' := fst (fst (prun p (repeat (t, []) j))) in
      cproj (snd (fst (prun p (repeat (t, []) j)))) = [HInv t o; HRes t c]
      /\ p_thr p' t = QIdle /\ p_todo p' t = rest /\ (forall u, u <> t -> p_thr p' u = p_thr p u).
  Proof.
    intros HP Eq Etd Epr Hns Hsup Ek Hin.
    (* the invocation *)
    set (p1 := {| p_x := p_x p; p_thr := upd (p_thr p) t (QRun o (progs o)); p_todo := upd (p_todo p) t rest |}).
    assert (E1 : pstep p t [] = Some (p1, [OC (HInv t o)], [])).
    { unfold CX_product.pstep. rewrite Eq, Etd. reflexivity. }
    destruct (pstep_ok p t [] p1 _ _ HP E1) as [HP1 _].
    (* the call goes to the map machine *)
    set (p2 := {| p_x := push (p_x p) t (tr mo); p_thr := upd (p_thr p1) t (QPushed o mo k); p_todo := p_todo p1 |}).
    assert (E2 : pstep p1 t [] = Some (p2, [], [])).
    { unfold CX_product.pstep. unfold p1 at 1; cbn [p_thr]. rewrite upd_same, Epr.
      destruct mo; try (exfalso; apply Hns; reflexivity); rewrite Hsup; reflexivity. }
    destruct (pstep_ok p1 t [] p2 _ _ HP1 E2) as [HP2 _].
    (* the machine's thread runs *)
    destruct (solo_answer t m p2 o mo k r HP2) as [j [A [B [C [D F]]]]].
    { left. unfold p2; cbn [p_thr]. apply upd_same. }
    { exact Hin. }
    set (p3 := fst (fst (prun p2 (repeat (t, []) j)))) in *.
    (* the return *)
    assert (E4 : pstep p3 t [] = Some (pset p3 t QIdle, [OC (HRes t c)], [])).
    { unfold CX_product.pstep. rewrite B, Ek. reflexivity. }
    exists (S (S (j + 1))).
    change (repeat (t, @nil (K * item)) (S (S (j + 1)))) with ((t, @nil (K * item)) :: (t, []) :: repeat (t, []) (j + 1)).
    rewrite prun_cons, E1. cbn [fst snd]. rewrite prun_cons, E2. cbn [fst snd].
    rewrite repeat_app, prun_app.
    unfold p3 in *. clear p3. destruct (prun p2 (repeat (t, []) j)) as [[p3 o3] h3] eqn:E3. cbn [fst snd] in *.
    cbn [repeat]. rewrite prun_cons, E4. cbn [CX_product.prun fst snd].
    rewrite !cproj_app, A. cbn [cproj app].
    split; [reflexivity|]. split; [cbn [pset p_thr]; apply upd_same|]. split.
    - cbn [pset p_todo]. rewrite D. unfold p2, p1; cbn [p_todo]. apply upd_same.
    - intros u Hu. cbn [pset p_thr]. rewrite upd_other by exact Hu. rewrite (C u Hu).
      unfold p2, p1; cbn [p_thr]. rewrite !upd_other by exact Hu. reflexivity.
  Qed.

  (* ---------------- threads with nothing to do stay idle ---------------- *)

  Definition dormantC (n : nat) (p : pconf) : Prop :=
    forall t, n <= t -> p_thr p t = QIdle /\ p_todo p t = [].

  Lemma pstep_other p t orc p1 os h u : pstep p t orc = Some (p1, os, h) -> u <> t ->
    p_thr p1 u = p_thr p u /\ p_todo p1 u = p_todo p u.
  Proof.
    intros E Hn. unfold CX_product.pstep in E.
    assert (Hx : xmove XS XO XR step bk p t = Some (p1, os, h) -> p_thr p1 u = p_thr p u /\ p_todo p1 u = p_todo p u).
    { unfold xmove. destruct (step (p_x p) t) as [[x1 h1]|]; [|discriminate].
      destruct (feeds XO XR bk t (p_thr p t) h1). intros E'. inversion E'; subst. cbn.
      rewrite upd_other by exact Hn. auto. }
    destruct (p_thr p t) as [|o pr|o mo k|o mo k]; try (apply Hx; exact E).
    - destruct (p_todo p t); [discriminate E|]. inversion E; subst. cbn. rewrite !upd_other by exact Hn. auto.
    - destruct pr as [r|mo k|k|k|d k|k|cb k|e k]; try discriminate E;
        try (inversion E; subst; cbn; rewrite upd_other by exact Hn; auto).
      destruct mo; try (inversion E; subst; cbn; rewrite upd_other by exact Hn; auto);
        (destruct (sup _); [|discriminate E]; inversion E; subst; cbn; rewrite upd_other by exact Hn; auto).
  Qed.

  Lemma prun_dormant n sched : forall p, dormantC n p -> dormantC n (fst (fst (prun p sched))).
  Proof.
    induction sched as [|[t orc] rest IH]; intros p Hd; [exact Hd|].
    rewrite prun_cons. destruct (pstep p t orc) as [[[p1 os] h]|] eqn:E; [|apply IH; exact Hd].
    cbn [fst]. apply IH. intros u Hu. destruct (Nat.eq_dec u t) as [->|Hn].
    - exfalso. destruct (Hd t Hu) as [A B]. unfold CX_product.pstep in E. rewrite A, B in E. discriminate E.
    - destruct (pstep_other p t orc p1 os h u E Hn) as [A B]. rewrite A, B. apply Hd. exact Hu.
  Qed.

End Count.
