(* C01_sim.v -- the simulation between the cache model (xsync_map.go, run over
   SpecMap) and SpecTTL: one lemma per method, then induction over the history. *)
From CacheV Require Import Base SpecMap Client CacheModel Ops SpecTTL.
From CacheV.gen Require Import Params.

Section Sim.
  Context {K V : Type}.
  Variable eqd : forall a b : K, {a = b} + {a <> b}.
  Variable zero : V.

  Notation item := (item V).
  Notation cstate := (cstate K V).

  (* physical entry vs specification entry of one key *)
  Definition rel1 (now : Z) (p l : option item) : Prop :=
    match p with
    | Some i => l = Some i
    | None => match l with Some i => expiredWithNow now i = true | None => True end
    end.

  Record R (m s : cstate) : Prop := {
    R_now : st_now m = st_now s;
    R_dflt : st_dflt m = st_dflt s;
    R_cb : st_cb m = st_cb s;
    R_ndP : NoDup (keys (st_map m));
    R_ndL : NoDup (keys (st_map s));
    R_pt : forall k, rel1 (st_now s) (lookup eqd k (st_map m)) (lookup eqd k (st_map s));
  }.

  Lemma R_view m s k : R m s ->
    vw eqd s k = match lookup eqd k (st_map m) with
                 | Some i => if expiredWithNow (st_now m) i then None else Some i
                 | None => None
                 end.
  Proof.
    intros HR. unfold vw, view. pose proof (R_pt _ _ HR k) as H. rewrite (R_now _ _ HR).
    unfold rel1 in H. destruct (lookup eqd k (st_map m)) as [i|].
    - rewrite H. reflexivity.
    - destruct (lookup eqd k (st_map s)) as [i|]; [rewrite H|]; reflexivity.
  Qed.


  Lemma expiration_eq m s d : R m s ->
    expiration_env {| e_now := st_now m; e_dflt := st_dflt m |} d
    = spec_expiration (st_dflt s) (st_now s) d.
  Proof.
    intros HR. unfold expiration_env, spec_expiration. cbn [e_now e_dflt].
    rewrite (R_now _ _ HR), (R_dflt _ _ HR). reflexivity.
  Qed.

  (* changing both maps *)
  Lemma R_upd m s P' L' : R m s -> NoDup (keys P') -> NoDup (keys L') ->
    (forall k0, rel1 (st_now s) (lookup eqd k0 P') (lookup eqd k0 L')) ->
    R (with_map m P') (set_L s L').
  Proof.
    intros HR H1 H2 H3. destruct HR. constructor; cbn; auto.
  Qed.

  (* changing the physical map only *)
  Lemma R_updP m s P' : R m s -> NoDup (keys P') ->
    (forall k0, rel1 (st_now s) (lookup eqd k0 P') (lookup eqd k0 (st_map s))) ->
    R (with_map m P') s.
  Proof.
    intros HR H1 H3. destruct HR. constructor; cbn; auto.
  Qed.

  Lemma R_with_map_id m s : R m s -> R (with_map m (st_map m)) s.
  Proof. intros HR. apply R_updP; auto; apply HR. Qed.

  Lemma rel1_mono now now' p l : now <= now' -> rel1 now p l -> rel1 now' p l.
  Proof.
    intros Hle. unfold rel1. destruct p; auto. destruct l as [i|]; auto.
    unfold expiredWithNow. intros H. apply andb_true_iff in H. destruct H as [H1 H2].
    apply andb_true_iff. split; auto. apply Z.ltb_lt in H2. apply Z.ltb_lt. lia.
  Qed.

  Lemma R_advance m s dt : 0 <= dt -> R m s -> R (advance m dt) (advance s dt).
  Proof.
    intros Hdt HR. destruct HR. constructor; cbn; auto; try congruence.
    intros k. apply rel1_mono with (now := st_now s); [lia | auto].
  Qed.

End Sim.

(* solves the pointwise side condition of R_upd / R_updP after an insert/remove at [k] *)
Ltac pointwise eqd HR k :=
  let k0 := fresh "k0" in
  intros k0; rewrite ?lookup_insert, ?lookup_remove;
  destruct (eqd k0 k); [subst k0 | exact (R_pt eqd _ _ HR k0)].


Ltac nodup eqd HR :=
  solve [ repeat first [apply NoDup_insert | apply NoDup_remove];
          first [exact (R_ndP eqd _ _ HR) | exact (R_ndL eqd _ _ HR) | constructor] ].
