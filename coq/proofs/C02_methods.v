(* C02_methods.v -- every method of the string/interface{} twin is [good] from its first step. *)
From CacheV Require Import Base SpecMap Client CacheModel Ops SpecTTL Conc.
From CacheV.gen Require Import Params.
From CacheV.proofs Require Import C01_sim C01_ops C02_good.

Section Methods.
  Context {K V : Type}.
  Variable eqd : forall a b : K, {a = b} + {a <> b}.
  Variable zero : V.
  Variables NOW DFLT : Z.
  Variable CB : cbid.

  Notation good := (good eqd zero NOW DFLT CB).
  Notation mk := (mk NOW DFLT CB).
  Notation Rm := (Rm eqd NOW DFLT CB).
  Notation env0 := (env0 NOW DFLT).
  Notation cop := (cop K V).
  Notation cres := (cres K V).

  Ltac of_sim lem :=
    let P := fresh "P" in let L := fresh "L" in let HR := fresh "HR" in let H := fresh "H" in
    intros P L HR; pose proof (lem (mk P) (mk L) HR) as H; unfold step_cache, step_with, prog_cache in H; exact H.

  (* ---------- single Compute / Store / LoadAndDelete / Clear ---------- *)

  Lemma good_GetOrSet k v d : good (OGetOrSet k v d) None [] 0 (GetOrSet zero k v d).
  Proof.
    unfold GetOrSet.
    eapply good_single with (ret := fun r => match r with
                                             | RVal (Some i) _ (Some a) => CVal (iv i) (a_ok a)
                                             | _ => CVal zero false end); try exact I; try reflexivity.
    - intros r'. destruct r' as [|[i|] ok [a|]| |]; reflexivity.
    - of_sim (sim_GetOrSet eqd zero k v d).
    - intros P. cbn [to_mop map_step]. unfold CacheModel.expired, Conc.env0. cbn [e_now].
      destruct (lookup eqd k P) as [i|]; [destruct (expiredWithNow NOW i)|]; cbn; reflexivity.
  Qed.

  Lemma good_GetAndSet k v d : good (OGetAndSet k v d) None [] 0 (GetAndSet zero k v d).
  Proof.
    unfold GetAndSet.
    eapply good_single with (ret := fun r => match r with
                                             | RVal (Some i) _ (Some a) =>
                                                 if a_ok a then match a_old a with Some old => CVal (iv old) true | None => CVal zero true end
                                                 else CVal (iv i) false
                                             | _ => CVal zero false end); try exact I; try reflexivity.
    - intros r'. destruct r' as [|[i|] ok [a|]| |]; try reflexivity. destruct (a_ok a); [destruct (a_old a)|]; reflexivity.
    - of_sim (sim_GetAndSet eqd zero k v d).
    - intros P. cbn [to_mop map_step]. unfold CacheModel.expired, Conc.env0. cbn [e_now].
      destruct (lookup eqd k P) as [i|]; [destruct (expiredWithNow NOW i)|]; cbn; reflexivity.
  Qed.

  Lemma good_GetAndRefresh k d : good (OGetAndRefresh k d) None [] 0 (GetAndRefresh zero k d).
  Proof.
    unfold GetAndRefresh.
    eapply good_single with (ret := fun r => match r with
                                             | RVal (Some i) true _ => CVal (iv i) true
                                             | _ => CVal zero false end); try exact I; try reflexivity.
    - intros r'. destruct r' as [|[i|] [] a| |]; reflexivity.
    - of_sim (sim_GetAndRefresh eqd zero k d).
    - intros P. cbn [to_mop map_step]. unfold CacheModel.expired, Conc.env0. cbn [e_now].
      destruct (lookup eqd k P) as [i|]; [destruct (expiredWithNow NOW i)|]; cbn; reflexivity.
  Qed.

  Lemma good_GetOrCompute k v d : good (OGetOrCompute k v d) None [] 0 (GetOrCompute zero k v d).
  Proof.
    unfold GetOrCompute.
    eapply good_single with (ret := fun r => match r with
                                             | RVal (Some i) _ (Some a) => CVal (iv i) (a_ok a)
                                             | _ => CVal zero false end); try exact I; try reflexivity.
    - intros r'. destruct r' as [|[i|] ok [a|]| |]; reflexivity.
    - of_sim (sim_GetOrCompute eqd zero k v d).
    - intros P. cbn [to_mop map_step]. unfold CacheModel.expired, Conc.env0. cbn [e_now].
      destruct (lookup eqd k P) as [i|]; [destruct (expiredWithNow NOW i)|]; cbn; reflexivity.
  Qed.

  Lemma good_Compute k fn d : good (OCompute k fn d) None [] 0 (Compute zero k fn d).
  Proof.
    unfold Compute.
    eapply good_single with (ret := fun r => match r with
                                             | RVal (Some i) true _ => CVal (iv i) true
                                             | RVal _ _ (Some a) => CVal (match a_old a with Some i => iv i | None => zero end) false
                                             | _ => CVal zero false end); try exact I; try reflexivity.
    - intros r'. destruct r' as [|[i|] [] [a|]| |]; reflexivity.
    - of_sim (sim_Compute eqd zero k fn d).
    - intros P. cbn [to_mop map_step]. unfold CacheModel.expired, Conc.env0. cbn [e_now].
      destruct (lookup eqd k P) as [i|]; [destruct (expiredWithNow NOW i)|]; cbn;
        match goal with |- context [fn ?a ?b] => destruct (fn a b) as [? []] end; cbn; reflexivity.
  Qed.

  Lemma good_Clear : good OClear None [] 0 (@Clear K V).
  Proof.
    unfold Clear. eapply good_single with (ret := fun _ => CUnit); try exact I; try reflexivity.
    of_sim (sim_Clear eqd zero).
  Qed.


  (* ---------- Set: the instant is computed before the Store ---------- *)

  Lemma good_Set_ (o : cop) k v d :
    conc_ok o -> is_remover o = false ->
    (forall P L, Rm P L ->
       let '(m', r, evs) := run_seq eqd (Set_ k v d) (mk P) in
       spec_ok eqd zero (mk L) o r /\ R eqd m' (spec_next eqd zero (mk L) o)) ->
    match o with OCompute _ _ _ | OGetOrCompute _ _ _ => False | _ => True end ->
    good o None [] 0 (Set_ k v d).
  Proof.
    intros Hc Hrem Hsim Hnf. unfold Set_, expiration_prog in *.
    assert (Hfn : forall r, fn_ok o r 0) by (intros r; destruct o; cbn in *; try contradiction; reflexivity).
    assert (Hfn' : forall mo : cmop K V, match mo with CCompute _ _ => False | _ => True end ->
               forall P, let '(P', r') := map_step eqd P (to_mop env0 mo) in fn_ok o CUnit (length (fn_events mo r'))).
    { intros mo Hmo P. destruct (map_step eqd P (to_mop env0 mo)) as [P' r']. destruct mo; try contradiction; cbn; apply Hfn. }
    destruct (d =? DefaultExpiration).
    - rewrite good_ReadDflt. destruct (0 <? DFLT) eqn:E; rewrite ?good_ReadNow;
        eapply good_single with (ret := fun _ => CUnit); try exact I; try reflexivity; try assumption;
        try (apply Hfn'; exact I);
        try (intros P L HR; specialize (Hsim P L HR); cbn [run_seq st_dflt st_now mk] in Hsim; rewrite ?E in Hsim; exact Hsim).
    - destruct (0 <? d) eqn:E; rewrite ?good_ReadNow;
        eapply good_single with (ret := fun _ => CUnit); try exact I; try reflexivity; try assumption;
        try (apply Hfn'; exact I);
        try (intros P L HR; specialize (Hsim P L HR); cbn [run_seq st_dflt st_now mk] in Hsim; rewrite ?E in Hsim; exact Hsim).
  Qed.

  Lemma good_Set k v d : good (OSet k v d) None [] 0 (Set_ k v d).
  Proof.
    apply good_Set_; try exact I; try reflexivity.
    intros P L HR. pose proof (run_Set eqd (mk P) (mk L) k v d HR) as H.
    destruct (run_seq eqd (Set_ k v d) (mk P)) as [[m' r] evs]. destruct H as [-> H]. cbn. auto.
  Qed.

  Lemma good_SetDefault k v : good (OSetDefault k v) None [] 0 (SetDefault k v).
  Proof.
    unfold SetDefault. apply good_Set_; try exact I; try reflexivity.
    intros P L HR. pose proof (run_Set eqd (mk P) (mk L) k v DefaultExpiration HR) as H.
    destruct (run_seq eqd (Set_ k v DefaultExpiration) (mk P)) as [[m' r] evs]. destruct H as [-> H]. cbn. auto.
  Qed.

  Lemma good_SetForever k v : good (OSetForever k v) None [] 0 (SetForever k v).
  Proof.
    unfold SetForever. apply good_Set_; try exact I; try reflexivity.
    intros P L HR. pose proof (run_Set eqd (mk P) (mk L) k v NoExpiration HR) as H.
    destruct (run_seq eqd (Set_ k v NoExpiration) (mk P)) as [[m' r] evs]. destruct H as [-> H]. cbn. auto.
  Qed.


  (* ---------- get: a Load that may settle the answer, else a re-checking Compute ---------- *)

  Lemma track_nonremover (o : cop) (P P' : amap K (item V)) owe : is_remover o = false -> track eqd CB o P P' owe = owe.
  Proof. intros H. unfold track. rewrite H. reflexivity. Qed.

  Lemma vw_mk (L : amap K (item V)) k (P : amap K (item V)) : Rm P L ->
    vw eqd (mk L) k = match lookup eqd k P with
                      | Some i => if expiredWithNow NOW i then None else Some i
                      | None => None
                      end.
  Proof. intros HR. apply (R_view eqd (mk P) (mk L) k HR). Qed.

  Lemma good_get (o : cop) k (f : option (item V) -> prog K V cres) (res_of : option (item V) -> cres) :
    conc_ok o -> is_remover o = false -> (forall r, fn_ok o r 0) ->
    (forall L, spec_ok eqd zero (mk L) o (res_of (vw eqd (mk L) k)) /\ spec_next eqd zero (mk L) o = mk L) ->
    (forall x, good o (Some (res_of x)) [] 0 (f x)) ->
    good o None [] 0 (CacheModel.bind (get zero k) f).
  Proof.
    intros Hc Hrem Hfn Hspec Hf. unfold get. cbn [CacheModel.bind good]. intros P L HR.
    cbn [to_mop map_step]. pose proof (vw_mk L k P HR) as Hv. destruct (Hspec L) as [Hok Hnx].
    destruct (lookup eqd k P) as [i|] eqn:HP.
    - rewrite (track_nonremover o P P [] Hrem). cbn [fn_events length Nat.add].
      destruct (expiredWithNow NOW i) eqn:He.
      + (* expired: this Load decides nothing; the Compute will *)
        left. split; [exact HR|]. cbn [CacheModel.bind good]. rewrite He. cbn [negb CacheModel.bind good].
        intros P2 L2 HR2. cbn [to_mop map_step]. unfold get_closure, CacheModel.expired, Conc.env0. cbn [e_now].
        pose proof (vw_mk L2 k P2 HR2) as Hv2. destruct (Hspec L2) as [Hok2 Hnx2].
        pose proof (R_pt eqd _ _ HR2 k) as Hk2. cbn [st_map mk st_now] in Hk2.
        destruct (lookup eqd k P2) as [j|] eqn:HP2.
        * destruct (expiredWithNow NOW j) eqn:He2; cbn [negb].
          -- right. exists (res_of None). rewrite Hv2 in Hok2. split; [exact Hok2|]. rewrite Hnx2. cbn [st_map mk].
             split.
             ++ apply (R_updP eqd (mk P2) (mk L2)); [exact HR2 | cbn; apply NoDup_remove; exact (R_ndP eqd _ _ HR2) |].
                cbn. pointwise eqd HR2 k. cbn. cbn in Hk2. rewrite Hk2. exact He2.
             ++ rewrite (track_nonremover o P2 _ [] Hrem). cbn. apply Hf.
          -- right. exists (res_of (Some j)). rewrite Hv2 in Hok2. split; [exact Hok2|]. rewrite Hnx2. cbn [st_map mk].
             split.
             ++ apply (R_updP eqd (mk P2) (mk L2)); [exact HR2 | cbn; apply NoDup_insert; exact (R_ndP eqd _ _ HR2) |].
                cbn. pointwise eqd HR2 k. cbn. cbn in Hk2. exact Hk2.
             ++ rewrite (track_nonremover o P2 _ [] Hrem). cbn. apply Hf.
        * right. exists (res_of None). rewrite Hv2 in Hok2. split; [exact Hok2|]. rewrite Hnx2. cbn [st_map mk].
          split; [exact HR2|]. rewrite (track_nonremover o P2 _ [] Hrem). cbn. apply Hf.
      + (* live: the Load is the linearization point *)
        right. exists (res_of (Some i)). rewrite Hv in Hok. split; [exact Hok|]. rewrite Hnx. cbn [st_map mk].
        split; [exact HR|]. cbn [CacheModel.bind good]. rewrite He. cbn [negb CacheModel.bind]. apply Hf.
    - right. exists (res_of None). rewrite Hv in Hok. split; [exact Hok|]. rewrite Hnx. cbn [st_map mk].
      split; [exact HR|]. rewrite (track_nonremover o P P [] Hrem). cbn. apply Hf.
  Qed.


  Lemma good_Get k : good (OGet k) None [] 0 (Get zero k).
  Proof.
    unfold Get. apply good_get with (res_of := fun x => match x with Some i => CVal (iv i) true | None => CVal zero false end);
      try exact I; try reflexivity.
    - intros L. cbn. split; reflexivity.
    - intros [i|]; cbn; auto.
  Qed.

  Lemma good_GetWithExpiration k : good (OGetWithExpiration k) None [] 0 (GetWithExpiration zero k).
  Proof.
    unfold GetWithExpiration.
    apply good_get with (res_of := fun x => match x with
                                            | Some i => CValExp (iv i) (if 0 <? ie i then ie i else 0) true
                                            | None => CValExp zero 0 false end);
      try exact I; try reflexivity.
    - intros L. cbn. split; reflexivity.
    - intros [i|]; cbn; auto. destruct (0 <? ie i); cbn; auto.
  Qed.

  Lemma good_GetWithTTL k : good (OGetWithTTL k) None [] 0 (GetWithTTL zero k).
  Proof.
    unfold GetWithTTL.
    apply good_get with (res_of := fun x => match x with
                                            | Some i => CValTTL (iv i) (if 0 <? ie i then ie i - NOW else NoExpiration) true
                                            | None => CValTTL zero 0 false end);
      try exact I; try reflexivity.
    - intros L. cbn. split; reflexivity.
    - intros [i|]; cbn; auto. destruct (0 <? ie i); cbn; auto.
  Qed.

  (* ---------- GetAndDelete / Delete: remove, then report to the callback ---------- *)

  Lemma pick_one k (P : amap K (item V)) i : NoDup (keys P) -> lookup eqd k P = Some i ->
    flat_map (fun p : K * item V => if eqd (fst p) k then [(fst p, iv (snd p))] else []) P = [(k, iv i)].
  Proof.
    induction P as [|[k' j] t IH]; cbn; intros Hnd HP; [discriminate|].
    inversion Hnd as [|? ? Hnotin Hnd']; subst.
    destruct (eqd k k') as [->|Hne].
    - inversion HP; subst. destruct (eqd k' k'); [|congruence]. cbn. f_equal.
      clear - Hnotin. induction t as [|[k2 j2] t IH]; cbn; auto.
      cbn in Hnotin. destruct (eqd k2 k') as [->|]; [tauto|]. apply IH. tauto.
    - destruct (eqd k' k) as [->|_]; [congruence|]. cbn. apply IH; auto.
  Qed.

  Lemma gone_remove k (P : amap K (item V)) i : NoDup (keys P) -> lookup eqd k P = Some i ->
    gone eqd P (remove eqd k P) = [(k, iv i)].
  Proof.
    intros Hnd HP. unfold gone. rewrite <- (pick_one k P i Hnd HP).
    apply flat_map_ext_in'. intros [k' j] Hin. cbn [fst snd].
    rewrite lookup_remove. destruct (eqd k' k); [reflexivity|].
    rewrite (In_lookup eqd k' j P Hnd Hin). reflexivity.
  Qed.

  Lemma gone_none (P P' : amap K (item V)) :
    (forall k i, In (k, i) P -> exists j, lookup eqd k P' = Some j) -> gone eqd P P' = [].
  Proof.
    intros H. unfold gone. induction P as [|[k i] t IH]; cbn; [reflexivity|].
    destruct (H k i (or_introl eq_refl)) as [j ->]. cbn. apply IH. intros k' i' Hin. apply (H k' i'). right. exact Hin.
  Qed.


  Lemma Rm_remove_both (P L : amap K (item V)) k : Rm P L -> Rm (remove eqd k P) (remove eqd k L).
  Proof.
    intros HR. apply (R_upd eqd (mk P) (mk L)); [exact HR | nodup eqd HR | nodup eqd HR |].
    pointwise eqd HR k. cbn. exact I.
  Qed.

  Lemma Rm_remove_spec_only (P L : amap K (item V)) k : Rm P L -> lookup eqd k P = None -> Rm P (remove eqd k L).
  Proof.
    intros HR HP. apply (R_upd eqd (mk P) (mk L)); [exact HR | exact (R_ndP eqd _ _ HR) | nodup eqd HR |].
    intros k0. cbn [st_map mk]. rewrite lookup_remove. destruct (eqd k0 k) as [->|]; [rewrite HP; exact I | exact (R_pt eqd _ _ HR k0)].
  Qed.

  Lemma gone_self (P : amap K (item V)) : NoDup (keys P) -> gone eqd P P = [].
  Proof. intros Hnd. apply gone_none. intros k i Hin. exists i. apply In_lookup; auto. Qed.

  (* the common shape of GetAndDelete and Delete: a LoadAndDelete, then whatever
     [kont] does with its two possible answers *)
  Lemma good_getanddelete (o : cop) k (fin : option (item V) -> cres) (kont : imres K V -> prog K V cres) :
    conc_ok o -> is_remover o = true ->
    (forall L, spec_ok eqd zero (mk L) o (fin (vw eqd (mk L) k))
               /\ spec_next eqd zero (mk L) o = mk (remove eqd k L)) ->
    (forall i, good o (Some (fin (if expiredWithNow NOW i then None else Some i)))
                    (if has_cb CB then [(k, iv i)] else []) 0 (kont (RVal (Some i) true None))) ->
    good o (Some (fin None)) [] 0 (kont (RVal None false None)) ->
    good o None [] 0 (MapCall (CLoadAndDelete k) kont).
  Proof.
    intros Hc Hrem Hspec H1 H2. cbn [good]. intros P L HR. cbn [to_mop map_step].
    pose proof (vw_mk L k P HR) as Hv. destruct (Hspec L) as [Hok Hnx].
    destruct (lookup eqd k P) as [i|] eqn:HP.
    - right. exists (fin (if expiredWithNow NOW i then None else Some i)).
      rewrite Hv in Hok. split; [exact Hok|]. rewrite Hnx. cbn [st_map mk]. split; [apply Rm_remove_both; exact HR|].
      unfold track. rewrite Hrem. cbn [andb fn_events length Nat.add].
      rewrite (gone_remove k P i (R_ndP eqd _ _ HR) HP). specialize (H1 i).
      destruct (has_cb CB); exact H1.
    - right. exists (fin None). rewrite Hv in Hok. split; [exact Hok|]. rewrite Hnx. cbn [st_map mk].
      split; [apply Rm_remove_spec_only; auto|].
      unfold track. rewrite Hrem. rewrite (gone_self P (R_ndP eqd _ _ HR)).
      destruct (has_cb CB); cbn [andb app fn_events length Nat.add]; exact H2.
  Qed.

  Lemma good_GetAndDelete k : good (OGetAndDelete k) None [] 0 (GetAndDelete zero k).
  Proof.
    unfold GetAndDelete.
    apply good_getanddelete with (fin := fun x => match x with Some i => CVal (iv i) true | None => CVal zero false end);
      try exact I; try reflexivity.
    - intros L. cbn. split; reflexivity.
    - intros i. rewrite good_ReadNow, good_ReadCb. unfold has_cb, fire.
      destruct CB as [c|]; destruct (expiredWithNow NOW i); cbn; eauto 6.
    - cbn. auto.
  Qed.

  Lemma good_Delete k : good (ODelete k) None [] 0 (Delete zero k).
  Proof.
    unfold Delete, GetAndDelete. cbn [CacheModel.bind].
    apply good_getanddelete with (fin := fun _ => CUnit); try exact I; try reflexivity.
    - intros L. cbn. split; reflexivity.
    - intros i. cbn [CacheModel.bind]. rewrite good_ReadNow. cbn [CacheModel.bind]. rewrite good_ReadCb.
      unfold has_cb, fire. destruct CB as [c|]; destruct (expiredWithNow NOW i); cbn; eauto 6.
    - cbn. auto.
  Qed.


End Methods.

Section MethodsDE.
  Context {K V : Type}.
  Variable eqd : forall a b : K, {a = b} + {a <> b}.
  Variable zero : V.
  Variables NOW DFLT : Z.

  Notation good CB := (good eqd zero NOW DFLT CB).
  Notation mk CB := (mk NOW DFLT CB).
  Notation cop := (cop K V).
  Notation cres := (cres K V).

  (* ---------- DeleteExpired: linearized at once; the rest only removes what the view hides ---------- *)

  Lemma good_fire_all CB c (ev : list (K * V)) : CB = Some c ->
    good CB ODeleteExpired (Some CUnit) ev 0 (fire_all c ev (Ret CUnit)).
  Proof.
    intros Hcb. induction ev as [|[k v] t IH]; cbn [fire_all good].
    - cbn. auto.
    - exists t. auto.
  Qed.

  Lemma gone_insert_same k (P : amap K (item V)) cur : NoDup (keys P) -> lookup eqd k P = Some cur ->
    gone eqd P (insert eqd k cur P) = [].
  Proof.
    intros Hnd HP. apply (gone_none eqd). intros k' i' Hin. rewrite lookup_insert.
    destruct (eqd k' k); [eauto|]. exists i'. apply In_lookup; auto.
  Qed.

  Lemma good_delexp_loop CB snap : forall ev,
    (has_cb CB = false -> ev = []) ->
    good CB ODeleteExpired (Some CUnit) ev 0 (delexp_loop zero CB NOW snap ev).
  Proof.
    induction snap as [|[k i0] t IH]; intros ev Hev; cbn [delexp_loop].
    - destruct CB as [c|].
      + apply good_fire_all. reflexivity.
      + rewrite (Hev eq_refl). cbn. auto.
    - destruct (expiredWithNow NOW i0); [|apply IH; exact Hev].
      cbn [good]. intros P L HR. cbn [to_mop map_step]. unfold delexp_closure.
      pose proof (R_pt eqd _ _ HR k) as Hk. cbn [st_map mk st_now] in Hk.
      destruct (lookup eqd k P) as [cur|] eqn:HP.
      + destruct (expiredWithNow NOW cur) eqn:He; cbn [a_ok a_old a_fn fn_events repeat length Nat.add].
        * (* still expired: removed for real, and owed to the callback *)
          split.
          { apply (R_updP eqd (mk CB P) (mk CB L)); [exact HR | cbn; apply NoDup_remove; exact (R_ndP eqd _ _ HR) |].
            cbn. pointwise eqd HR k. cbn. cbn in Hk. rewrite Hk. exact He. }
          unfold track. cbn [is_remover andb]. rewrite (gone_remove eqd k P cur (R_ndP eqd _ _ HR) HP).
          unfold has_cb in *. destruct CB as [c|]; cbn.
          -- apply IH. intros; discriminate.
          -- apply IH. exact Hev.
        * (* a fresh value: kept *)
          split.
          { apply (R_updP eqd (mk CB P) (mk CB L)); [exact HR | cbn; apply NoDup_insert; exact (R_ndP eqd _ _ HR) |].
            cbn. pointwise eqd HR k. cbn. cbn in Hk. exact Hk. }
          unfold track. cbn [is_remover andb]. rewrite (gone_insert_same k P cur (R_ndP eqd _ _ HR) HP).
          destruct (has_cb CB); rewrite ?app_nil_r; apply IH; exact Hev.
      + split; [exact HR|].
        unfold track. cbn [is_remover andb a_ok aux0 fn_events a_fn repeat length Nat.add].
        rewrite (gone_self eqd P (R_ndP eqd _ _ HR)).
        destruct (has_cb CB); rewrite ?app_nil_r; apply IH; exact Hev.
  Qed.

  Lemma good_DeleteExpired CB : good CB ODeleteExpired None [] 0 (DeleteExpired zero).
  Proof.
    unfold DeleteExpired. rewrite good_ReadCb, good_ReadNow. cbn [good]. intros P L HR l.
    right. exists CUnit. split; [reflexivity|]. split; [exact HR|].
    apply good_delexp_loop. reflexivity.
  Qed.

End MethodsDE.

Section Init.
  Context {K V : Type}.
  Variable eqd : forall a b : K, {a = b} + {a <> b}.
  Variable zero : V.
  Variables NOW DFLT : Z.
  Variable CB : cbid.
  Notation good := (good eqd zero NOW DFLT CB).
  Notation cop := (cop K V).

  (* ---------- every call of a concurrent phase starts out good ---------- *)

  Theorem good_init (o : cop) : conc_ok o -> good o None [] 0 (prog_cache eqd zero o).
  Proof.
    destruct o; cbn [conc_ok prog_cache]; intros Hc; try contradiction.
    - apply good_Set. - apply good_SetDefault. - apply good_SetForever.
    - apply good_Get. - apply good_GetWithExpiration. - apply good_GetWithTTL.
    - apply good_GetOrSet. - apply good_GetAndSet. - apply good_GetAndRefresh.
    - apply good_GetOrCompute. - apply good_Compute.
    - apply good_GetAndDelete. - apply good_Delete. - apply good_DeleteExpired. - apply good_Clear.
  Qed.

End Init.
