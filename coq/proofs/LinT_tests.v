(* LinT_tests.v -- the statement of LinT.v TESTED on closed runs of ConcT.v's
   machine before anything is proved about it: ticks at awkward points, the
   histories computed by vm_compute, explicit instrumented histories accepted by
   [cache_linearizableT] -- and one schedule whose history is NOT linearizable in
   the sense first written down ([cache_linearizableT_strict]): GetAndDelete. *)
From CacheV Require Import Base SpecMap Client CacheModel Ops SpecTTL Lin LinT Conc ConcT.
From CacheV.gen Require Import Params.
From CacheV.proofs Require Import LinT_facts.
Local Open Scope Z_scope.

(* keys, values: Z; zero value 0; default expiration 0 (= none); no callback *)
Definition runT (now0 : Z) (m : amap Z (item Z)) (todo : nat -> list (cop Z Z)) (sched : list (@move Z Z)) :=
  historyT (snd (trun Z.eq_dec (prog_cache Z.eq_dec 0) 0 None (tinit now0 m todo) sched)).
Definition th (n : nat) := @MThr Z Z n [].
Definition tk (d : Z) := @MTick Z Z d.
Definition st0 (now0 : Z) : cstate Z Z := {| st_map := []; st_now := now0; st_dflt := 0; st_cb := None |}.
Notation linT := (cache_linearizableT Z.eq_dec 0).
Notation linT_strict := (cache_linearizableT_strict Z.eq_dec 0).
Notation legT := (legalT (cop Z Z) (cres Z Z) (cstate Z Z) (@st_now Z Z) (@advance Z Z) (stampT (K:=Z) (V:=Z)) (tspecT Z.eq_dec 0)).

(* one event of an instrumented history *)
Ltac legal_step :=
  first
    [ apply lt_nil
    | eapply lt_inv; [reflexivity|]
    | eapply lt_tick; [lia|]
    | eapply lt_lin; [reflexivity | cbn; lia | vm_compute; split; reflexivity |]
    | eapply lt_res; [reflexivity | cbn; lia |] ].
Definition inst := list (ievT (cop Z Z) (cres Z Z)).
Ltac accept i := exists i; split; [reflexivity | repeat legal_step].

(* ---- 1. a tick between Set's clock read and its Store; a tick that expires the entry between two Gets ---- *)
Definition todo1 (t : nat) : list (cop Z Z) :=
  match t with 0%nat => [OSet 7 1 10] | 1%nat => [OGet 7; OGet 7] | _ => [] end.
Definition sched1 := [th 0; th 0; tk 5; th 0; th 0; th 1; th 1; th 1; th 1; tk 10; th 1; th 1; th 1; th 1; th 1].
Definition hist1 : list (hevT (cop Z Z) (cres Z Z)) :=
  [HTInv 0 (OSet 7 1 10); HTTick 5; HTRes 0 CUnit; HTInv 1 (OGet 7); HTRes 1 (CVal 1 true); HTTick 10;
   HTInv 1 (OGet 7); HTRes 1 (CVal 0 false)].
Example run1 : runT 100 [] todo1 sched1 = hist1.
Proof. vm_compute. reflexivity. Qed.
(* the Set is marked at clock 105 but armed its entry at tau = 100: it expires at 110, not 115 *)
Example lin1 : linT (st0 100) hist1.
Proof.
  accept ([ITInv 0 (OSet 7 1 10); ITTick 5; ITLin 0 (OSet 7 1 10) 100 CUnit; ITRes 0 CUnit;
          ITInv 1 (OGet 7); ITLin 1 (OGet 7) 105 (CVal 1 true); ITRes 1 (CVal 1 true); ITTick 10;
          ITInv 1 (OGet 7); ITLin 1 (OGet 7) 115 (CVal 0 false); ITRes 1 (CVal 0 false)] : inst).
Qed.
(* had it been armed at the clock of the mark (105 -> 115) the second Get, at 115, would still see it *)
Example lin1_needs_pre :
  ~ legT (st0 100) (fun _ => TIdleT)
      ([ITInv 0 (OSet 7 1 10); ITTick 5; ITLin 0 (OSet 7 1 10) 105 CUnit; ITRes 0 CUnit;
       ITInv 1 (OGet 7); ITLin 1 (OGet 7) 105 (CVal 1 true); ITRes 1 (CVal 1 true); ITTick 10;
       ITInv 1 (OGet 7); ITLin 1 (OGet 7) 115 (CVal 0 false); ITRes 1 (CVal 0 false)] : inst).
Proof.
  intros H. repeat (inversion H; subst; clear H; match goal with H' : legalT _ _ _ _ _ _ _ _ _ _ |- _ => rename H' into H end).
  repeat match goal with H : tspecT _ _ _ _ _ _ _ |- _ => vm_compute in H; destruct H as [? ?]; subst end.
  discriminate.
Qed.

(* ---- 2. the entry expires between Get's Load and its clock read: the re-checking Compute answers ---- *)
Definition todo2 (t : nat) : list (cop Z Z) :=
  match t with 0%nat => [OSet 7 1 10] | 1%nat => [OGet 7] | _ => [] end.
Definition sched2 := [th 0; th 0; th 0; th 0; th 1; th 1; tk 20; th 1; th 1; th 1].
Definition hist2 : list (hevT (cop Z Z) (cres Z Z)) :=
  [HTInv 0 (OSet 7 1 10); HTRes 0 CUnit; HTInv 1 (OGet 7); HTTick 20; HTRes 1 (CVal 0 false)].
Example run2 : runT 100 [] todo2 sched2 = hist2.
Proof. vm_compute. reflexivity. Qed.
Example lin2 : linT (st0 100) hist2.
Proof.
  accept ([ITInv 0 (OSet 7 1 10); ITLin 0 (OSet 7 1 10) 100 CUnit; ITRes 0 CUnit;
          ITInv 1 (OGet 7); ITTick 20; ITLin 1 (OGet 7) 120 (CVal 0 false); ITRes 1 (CVal 0 false)] : inst).
Qed.

(* ---- 3. GetWithTTL: ticks between the Load, the liveness check and the read the lifetime is computed from.
        The call answers ok = true with a NEGATIVE remaining lifetime (the entry expired after the check). ---- *)
Definition todo3 (t : nat) : list (cop Z Z) :=
  match t with 0%nat => [OSet 7 1 10] | 1%nat => [OGetWithTTL 7] | _ => [] end.
Definition sched3 := [th 0; th 0; th 0; th 0; th 1; th 1; tk 3; th 1; tk 20; th 1; th 1].
Definition hist3 : list (hevT (cop Z Z) (cres Z Z)) :=
  [HTInv 0 (OSet 7 1 10); HTRes 0 CUnit; HTInv 1 (OGetWithTTL 7); HTTick 3; HTTick 20; HTRes 1 (CValTTL 1 (-13) true)].
Example run3 : runT 100 [] todo3 sched3 = hist3.
Proof. vm_compute. reflexivity. Qed.
(* marked at its Load (clock 100), lifetime relative to tau = 123 <= clock of the response *)
Example lin3 : linT (st0 100) hist3.
Proof.
  accept ([ITInv 0 (OSet 7 1 10); ITLin 0 (OSet 7 1 10) 100 CUnit; ITRes 0 CUnit;
          ITInv 1 (OGetWithTTL 7); ITLin 1 (OGetWithTTL 7) 123 (CValTTL 1 (-13) true); ITTick 3; ITTick 20;
          ITRes 1 (CValTTL 1 (-13) true)] : inst).
Qed.

(* ---- 5. an entry born expired: Set reads the clock, 20 pass, then it stores an entry that expired 10 ago ---- *)
Definition sched5 := [th 0; th 0; tk 20; th 0; th 0; th 1; th 1; th 1; th 1; th 1].
Definition hist5 : list (hevT (cop Z Z) (cres Z Z)) :=
  [HTInv 0 (OSet 7 1 10); HTTick 20; HTRes 0 CUnit; HTInv 1 (OGet 7); HTRes 1 (CVal 0 false)].
Example run5 : runT 100 [] todo2 sched5 = hist5.
Proof. vm_compute. reflexivity. Qed.
Example lin5 : linT (st0 100) hist5.
Proof.
  accept ([ITInv 0 (OSet 7 1 10); ITTick 20; ITLin 0 (OSet 7 1 10) 100 CUnit; ITRes 0 CUnit;
          ITInv 1 (OGet 7); ITLin 1 (OGet 7) 120 (CVal 0 false); ITRes 1 (CVal 0 false)] : inst).
Qed.

(* ---- 6. a tick inside GetOrSet and one that expires the entry before a second GetOrSet ---- *)
Definition todo6 (t : nat) : list (cop Z Z) :=
  match t with 0%nat => [OGetOrSet 7 1 10] | 1%nat => [OGetOrSet 7 2 10] | _ => [] end.
Definition sched6 := [th 0; th 1; tk 4; th 0; tk 11; th 1; th 0; th 1].
Definition hist6 : list (hevT (cop Z Z) (cres Z Z)) :=
  [HTInv 0 (OGetOrSet 7 1 10); HTInv 1 (OGetOrSet 7 2 10); HTTick 4; HTTick 11; HTRes 0 (CVal 1 false); HTRes 1 (CVal 2 false)].
Example run6 : runT 100 [] todo6 sched6 = hist6.
Proof. vm_compute. reflexivity. Qed.
(* armed inside the closure: exactly at the clock of the mark (104 -> 114 < 115) *)
Example lin6 : linT (st0 100) hist6.
Proof.
  accept ([ITInv 0 (OGetOrSet 7 1 10); ITInv 1 (OGetOrSet 7 2 10); ITTick 4; ITLin 0 (OGetOrSet 7 1 10) 104 (CVal 1 false);
          ITTick 11; ITLin 1 (OGetOrSet 7 2 10) 115 (CVal 2 false); ITRes 0 (CVal 1 false); ITRes 1 (CVal 2 false)] : inst).
Qed.

(* ---- 4. GetAndDelete: REFUTES the statement as first written ----
   Clock 100.  Thread 0 stores 7 -> 1 for 10 (expires at 110), then calls GetAndDelete(7): its LoadAndDelete
   removes the LIVE entry.  Thread 1's Get(7) misses.  20 pass.  Thread 0 reads the clock (120), finds the entry
   it removed "expired" and answers (zero, false).
   No order explains this if GetAndDelete must answer as SpecTTL says at the clock of its mark: the Get missed
   at clock 100, when 7 -> 1 was live, so the GetAndDelete took effect before it -- at clock 100 -- and had
   to answer (1, true). *)
Definition todo4 (t : nat) : list (cop Z Z) :=
  match t with 0%nat => [OSet 7 1 10; OGetAndDelete 7] | 1%nat => [OGet 7] | _ => [] end.
Definition sched4 := [th 0; th 0; th 0; th 0; th 0; th 0; th 1; th 1; th 1; tk 20; th 0; th 0; th 0].
Definition hist4 : list (hevT (cop Z Z) (cres Z Z)) :=
  [HTInv 0 (OSet 7 1 10); HTRes 0 CUnit; HTInv 0 (OGetAndDelete 7); HTInv 1 (OGet 7); HTRes 1 (CVal 0 false);
   HTTick 20; HTRes 0 (CVal 0 false)].
Example getanddelete_run : runT 100 [] todo4 sched4 = hist4.
Proof. vm_compute. reflexivity. Qed.

(* with the weakening (GetAndDelete judges "expired" of the entry it removed at a tau of its interval, here 120) *)
Example getanddelete_weak : linT (st0 100) hist4.
Proof.
  accept ([ITInv 0 (OSet 7 1 10); ITLin 0 (OSet 7 1 10) 100 CUnit; ITRes 0 CUnit;
           ITInv 0 (OGetAndDelete 7); ITLin 0 (OGetAndDelete 7) 120 (CVal 0 false);
           ITInv 1 (OGet 7); ITLin 1 (OGet 7) 100 (CVal 0 false); ITRes 1 (CVal 0 false);
           ITTick 20; ITRes 0 (CVal 0 false)] : inst).
Qed.

(* ---- the refutation ---- *)

Ltac who Hst :=
  unfold upd in Hst;
  repeat match type of Hst with context [Nat.eq_dec ?t ?n] => destruct (Nat.eq_dec t n); [subst t|] end;
  try discriminate Hst.

Ltac refute H He :=
  let t := fresh "t" in let o := fresh "o" in let ci := fresh "ci" in let tau := fresh "tau" in
  let r := fresh "r" in let s' := fresh "s'" in let i' := fresh "i'" in
  let Hst := fresh "Hst" in let Hsk := fresh "Hsk" in let Hsp := fresh "Hsp" in
  let H' := fresh "H'" in let He' := fresh "He'" in let Hx := fresh "Hx" in
  let Hi := fresh "Hi" in let Hle := fresh "Hle" in
  lazymatch type of He with
  | _ = ?e :: _ =>
    destruct (legalT_head _ _ _ _ _ _ _ _ _ _ _ _ H He)
      as [(t & o & ci & tau & r & s' & i' & -> & Hst & Hsk & Hsp & H' & He') | (i' & He' & Hx)]; clear H He;
    [ (* a mark: of which thread?  then the stamp and the specification decide r and s' *)
      who Hst; injection Hst as <- <-;
      unfold stampT_strict, stamp_in, kindT_strict in Hsk; cbn in Hsk;
      try (assert (tau = 100) by lia; subst tau); try (assert (tau = 120) by lia; subst tau); try subst tau;
      vm_compute in Hsp; destruct Hsp as [? ?]; subst;
      refute H' He'
    | cbn beta iota in Hx;
      lazymatch e with
      | HTInv _ _ => destruct Hx as (-> & Hi & H'); who Hi; refute H' He'
      | HTRes _ _ => destruct Hx as (-> & o & tau & Hi & Hle & H'); who Hi; try discriminate Hi; injection Hi; intros; subst; try congruence; refute H' He'
      | HTTick _ => destruct Hx as (-> & Hi & H'); refute H' He'
      end ]
  end.

(* every placement of the marks is tried (LinT_facts.legalT_head): none is legal *)
Example getanddelete_refuted : ~ linT_strict (st0 100) hist4.
Proof.
  intros [i [He H]]. unfold hist4 in He.
  refute H He.
Qed.
