(* SkelTac.v -- what the skeleton theorems share and what does NOT depend on the generated budgets: the loop lemmas
   (generic in the budget) and the proof scripts, as tactics.  Skel.v (all primitives: C02), SkelMap.v (map calls and
   user functions: C05), SkelSet.v (clock and settings: C14), SkelCb.v (callbacks: C06) instantiate them, each for its own
   projection of the budgets, so that a change of the source's structure breaks the statements of the properties it
   concerns and not the others. *)
From CacheV Require Import Base SpecMap Client CacheModel CacheOfModel Ops.
From CacheV.gen Require Import Params SrcFacts.
From CacheV.proofs Require Export SkelDefs.
From Coq Require Import String ZArith List Lia Bool.
Import ListNotations.
Local Open Scope nat_scope.

(* ------------------------------------------------------------------ *)
(* lemmas for the loops *)

Lemma take_none_some (b : budget) (t : stok) b' :
  take b t = Some b' -> In (t, None) b -> (forall n, In (t, Some n) b -> False) -> b' = b.
Proof.
  revert b'. induction b as [|[t' n] r IH]; intros b' H Hin Hno; [discriminate|].
  cbn [take] in H. destruct (stok_beq t t') eqn:E.
  - apply internal_stok_dec_bl in E. subst t'. destruct n as [[|m]|].
    + discriminate.
    + exfalso. apply (Hno (S m)). left. reflexivity.
    + congruence.
  - destruct (take r t) as [r'|] eqn:Er; [|discriminate]. inversion H; subst b'. f_equal.
    apply IH; [reflexivity| |].
    + destruct Hin as [Hin|Hin]; [|exact Hin]. inversion Hin; subst.
      rewrite (internal_stok_dec_lb t t eq_refl) in E. discriminate.
    + intros n0 Hn. apply (Hno n0). right. exact Hn.
Qed.

Section Loops.
  Context {K V : Type}.
  Variable eqd : forall a b : K, {a = b} + {a <> b}.
  Variable zero : V.

  (* a budget in which t is unlimited *)
  Definition unl (b : budget) (t : stok) : Prop := take b t = Some b.

  Lemma fire_all_bounded {R} cf b c l (p : prog K V R) :
    unl b TFire -> bounded cf b p -> bounded cf b (CacheModel.fire_all c l p).
  Proof.
    intros Hf Hp. induction l as [|[k v] t IH]; cbn [CacheModel.fire_all]; [exact Hp|].
    cbn [bounded tk_ev]. rewrite Hf. exact IH.
  Qed.

  Lemma fire_all_bounded_of {R} cf b c l (p : prog K V R) :
    unl b TFire -> bounded cf b p -> bounded cf b (CacheOfModel.fire_all c l p).
  Proof.
    intros Hf Hp. induction l as [|[k v] t IH]; cbn [CacheOfModel.fire_all]; [exact Hp|].
    cbn [bounded tk_ev]. rewrite Hf. exact IH.
  Qed.

End Loops.

(* ------------------------------------------------------------------ *)
(* direction 1: every path of every model program stays within the source budget *)

Ltac lookup_budget :=
  match goal with
  | |- context [lookup_s ?n ?t] =>
      let x := eval vm_compute in (lookup_s n t) in change (lookup_s n t) with x
  end.

Ltac crunch :=
  repeat (first
    [ progress intros
    | match goal with
      | |- _ /\ _ => split
      | |- True => exact I
      | |- _ <= _ => solve [cbn; lia]
      end
    | progress cbn
    | match goal with
      | |- context [if ?c then _ else _] => destruct c
      | |- context [match ?x with _ => _ end] => destruct x
      end ]).

Section Bounded.
  Context {K V : Type}.
  Variable eqd : forall a b : K, {a = b} + {a <> b}.
  Variable zero : V.

  Lemma delexp_loop_bounded cf b ec now (snap : list (K * item V)) (ev : list (K * V)) :
    unl b TCompute -> unl b TFire ->
    bounded cf b (CacheModel.delexp_loop zero ec now snap ev).
  Proof.
    intros Hc Hf. revert ev. induction snap as [|[k i] t IH]; intros ev; cbn [CacheModel.delexp_loop].
    - destruct ec as [c|]; [|exact I]. apply fire_all_bounded; [exact Hf|exact I].
    - destruct (expiredWithNow now i); [|apply IH].
      cbn [bounded tk_of]. rewrite Hc. split.
      + cbn [closure_ok]. intros e x. unfold CacheModel.delexp_closure.
        destruct x as [cur|]; [destruct (expiredWithNow now cur)|]; cbn; lia.
      + intros r. destruct r as [|o ok a|n|l]; try apply IH.
        destruct a as [a|]; [|apply IH].
        destruct (a_ok a); [|apply IH]. destruct (a_old a); [|apply IH]. destruct ec; apply IH.
  Qed.

  Lemma range_loop_bounded cf b now (f : K -> V -> bool) (l : list (K * item V)) (vis : list (K * V)) :
    unl b TUserFn -> bounded cf b (CacheModel.range_loop now f l vis).
  Proof.
    intros Hu. revert vis. induction l as [|[k i] t IH]; intros vis; cbn [CacheModel.range_loop]; [exact I|].
    destruct (expiredWithNow now i); [apply IH|].
    cbn [bounded tk_ev]. rewrite Hu. destruct (f k (iv i)); [apply IH|exact I].
  Qed.

End Bounded.

Section BoundedOf.
  Context {K V : Type}.
  Variable eqd : forall a b : K, {a = b} + {a <> b}.
  Variable zero : V.

  Lemma delexp_loop_bounded_of cf b ec now (snap : list (K * item V)) (ev : list (K * V)) :
    unl b TCompute -> unl b TFire ->
    bounded cf b (CacheOfModel.delexp_loop zero ec now snap ev).
  Proof.
    intros Hc Hf. revert ev. induction snap as [|[k i] t IH]; intros ev; cbn [CacheOfModel.delexp_loop].
    - destruct ec as [c|]; [|exact I]. apply fire_all_bounded_of; [exact Hf|exact I].
    - destruct (expiredWithNow now i); [|apply IH].
      cbn [bounded tk_of]. rewrite Hc. split.
      + cbn [closure_ok]. intros e x. unfold CacheOfModel.delexp_closure, CacheOfModel.arg.
        destruct x as [cur|]; cbn; [destruct (expiredWithNow now cur)|]; cbn; lia.
      + intros r. destruct r as [|o ok a|n|l]; try apply IH.
        destruct a as [a|]; [|apply IH].
        destruct (a_ok a); [|apply IH]. destruct (a_old a); [|apply IH]. destruct ec; apply IH.
  Qed.

  Lemma range_loop_bounded_of cf b now (f : K -> V -> bool) (l : list (K * item V)) (vis : list (K * V)) :
    unl b TUserFn -> bounded cf b (CacheOfModel.range_loop now f l vis).
  Proof.
    intros Hu. revert vis. induction l as [|[k i] t IH]; intros vis; cbn [CacheOfModel.range_loop]; [exact I|].
    destruct (expiredWithNow now i); [apply IH|].
    cbn [bounded tk_ev]. rewrite Hu. destruct (f k (iv i)); [apply IH|exact I].
  Qed.

End BoundedOf.

Ltac solve_within_cache :=
  intros Hcall; unfold within; match goal with o : cop _ _ |- _ => destruct o end; cbn [opname]; lookup_budget; cbn [prog_cache]; try (exfalso; exact Hcall); try (unfold CacheModel.SetDefault, CacheModel.SetForever, CacheModel.Set_, CacheModel.expiration_prog, CacheModel.Get, CacheModel.GetWithExpiration, CacheModel.GetWithTTL, CacheModel.get, CacheModel.bind, CacheModel.GetOrSet, CacheModel.GetAndSet, CacheModel.GetAndRefresh, CacheModel.GetOrCompute, CacheModel.Compute, CacheModel.GetAndDelete, CacheModel.Delete, CacheModel.fire, CacheModel.get_closure, CacheModel.Clear, CacheModel.Count, CacheModel.GetDefaultExpiration, CacheModel.SetDefaultExpiration, CacheModel.GetEvictedCallback, CacheModel.SetEvictedCallback, CacheModel.expired, CacheModel.expiration_env); try solve [crunch];
  [> unfold CacheModel.GetAndDelete, CacheModel.bind, CacheModel.fire; crunch
   | unfold CacheModel.DeleteExpired; cbn; intros ec now; split; [exact I|]; intros r; destruct r; try exact I; apply delexp_loop_bounded; reflexivity
   | unfold CacheModel.Range; match goal with f : option _ |- _ => destruct f as [f|] end; [|exact I]; cbn; intros now; split; [exact I|]; intros r; destruct r; try exact I; apply range_loop_bounded; reflexivity
   | unfold CacheModel.Items, CacheModel.Range; cbn; split; [exact I|]; intros _ now; split; [exact I|]; intros r; destruct r; try exact I; apply range_loop_bounded; reflexivity ].

Ltac solve_within_cacheof :=
  intros Hcall; unfold within; match goal with o : cop _ _ |- _ => destruct o end; cbn [opname]; lookup_budget; cbn [prog_cacheof]; try (exfalso; exact Hcall); try (unfold CacheOfModel.SetDefault, CacheOfModel.SetForever, CacheOfModel.Set_, CacheOfModel.expiration_prog, CacheOfModel.Get, CacheOfModel.GetWithExpiration, CacheOfModel.GetWithTTL, CacheOfModel.get, CacheOfModel.bind, CacheOfModel.GetOrSet, CacheOfModel.GetAndSet, CacheOfModel.GetAndRefresh, CacheOfModel.GetOrCompute, CacheOfModel.Compute, CacheOfModel.fire, CacheOfModel.Clear, CacheOfModel.Count, CacheOfModel.GetDefaultExpiration, CacheOfModel.SetDefaultExpiration, CacheOfModel.GetEvictedCallback, CacheOfModel.SetEvictedCallback, CacheOfModel.expired, CacheOfModel.expiration_env, CacheOfModel.arg); try solve [crunch];
  [> unfold CacheOfModel.GetAndDelete, CacheOfModel.fire; crunch
   | unfold CacheOfModel.Delete, CacheOfModel.GetAndDelete, CacheOfModel.bind, CacheOfModel.fire; crunch
   | unfold CacheOfModel.DeleteExpired; cbn; intros ec now; split; [exact I|]; intros r; destruct r; try exact I; apply delexp_loop_bounded_of; reflexivity
   | unfold CacheOfModel.Range; match goal with f : option _ |- _ => destruct f as [f|] end; [|exact I]; cbn; intros now; split; [exact I|]; intros r; destruct r; try exact I; apply range_loop_bounded_of; reflexivity
   | unfold CacheOfModel.Items, CacheOfModel.Range; cbn; split; [exact I|]; intros _ now; split; [exact I|]; intros r; destruct r; try exact I; apply range_loop_bounded_of; reflexivity ].
