(* X_loadhit.v -- what a Load of XMachine (MapOf) can return, under every schedule (C04:
   "reads never observe a key paired with another key's value"; "a deleted key never
   reappears" for readers): while a thread stays inside one lookup of key k in table
   tab, if its next step returns the value v, then (k, v) was VISIBLE in that table --
   meta byte set and entry pointer set, i.e. a completely written pair stored under k --
   in some state the run went through since the lookup loaded the table pointer.
   The reader may find the entry of a slot whose meta byte has been cleared meanwhile
   (a delete between its two stores): the pair was visible just before that store. *)
From CacheV Require Import Base SpecMap XMachine.
From CacheV.proofs Require Import X_basic X_inv X_c13 X_c16 X_own X_chain X_c04 X_lin X_resize X_range.
From Coq Require Import NArith.
Local Open Scope nat_scope.

Section LoadHit.
  Context {K V : Type}.
  Variable eqd : forall a b : K, {a = b} + {a <> b}.
  Variable hash : K -> N -> N.
  Variable idx : N -> nat -> nat.
  Variable tag : N -> N.
  Variable nslots : nat.
  Variable seeds : nat -> N.
  Variable grow_needed : nat -> Z -> bool.
  Variable shrink_policy : nat -> Z -> bool.
  Variable probe : list (option N) -> N -> list nat.
  Variable nstripes : nat -> nat.
  Variable minlen : nat.
  Variable grow_only : bool.

  Hypothesis Hidx : forall h len, 0 < len -> idx h len < len.
  Hypothesis Hstripes : forall len, 0 < nstripes len.
  Hypothesis Hminlen : 0 < minlen.
  Hypothesis Hnslots : 0 < nslots.
  Hypothesis Hprobe_sound : forall tags tg i, In i (probe tags tg) -> i < length tags /\ nth i tags None <> None.
  Hypothesis Hprobe_complete : forall tags tg i, i < length tags -> nth i tags None = Some tg -> In i (probe tags tg).

  Notation xtable := (@xtable K V).
  Notation xstate := (@xstate K V).
  Notation pc := (@pc K V).
  Notation slot := (@slot K V).
  Notation xlabel := (@xlabel K V).
  Notation empty_slot := (@empty_slot K V).
  Notation tab_at := (@tab_at K V nslots nstripes).
  Notation step_pc := (@step_pc K V eqd hash idx tag nslots seeds grow_needed shrink_policy probe nstripes minlen grow_only).
  Notation xstep := (@xstep K V eqd hash idx tag nslots seeds grow_needed shrink_policy probe nstripes minlen grow_only).
  Notation xrun := (@xrun K V eqd hash idx tag nslots seeds grow_needed shrink_policy probe nstripes minlen grow_only).
  Notation XInv := (@X_inv.XInv K V hash idx nslots nstripes).
  Notation XT := (@X_own.XT K V).
  Notation XC := (@X_c04.XC K V hash idx tag nslots nstripes).
  Notation XI5 := (@X_resize.XI5 K V hash idx tag nslots nstripes).
  Notation vis := (@X_lin.vis K V hash idx).

  (* P holds in some state the run goes through *)
  Fixpoint ever (P : xstate -> Prop) (s : xstate) (sched : list nat) : Prop :=
    P s \/ match sched with
           | [] => False
           | u :: r => match xstep s u with Some (s', _) => ever P s' r | None => ever P s r end
           end.

  (* ---------------- where a pair behind a cleared meta byte comes from ---------------- *)

  Lemma some_pair5 {A B} (g : A * B) a b : Some g = Some (a, b) -> a = fst g /\ b = snd g.
  Proof. intros H. inversion H. auto. Qed.
  Lemma goto_labels5 (s : xstate) t p ls :
    snd (goto s t p ls) = match p with PRet r => ls ++ [XRes t r] | _ => ls end.
  Proof. destruct p; reflexivity. Qed.
  Lemma goto_state5 (s : xstate) t p ls : fst (goto s t p ls) = set_pc s t (norm p).
  Proof. destruct p; reflexivity. Qed.

  Ltac step_cases5 Hs :=
    cbn [XMachine.step_pc] in Hs; cbv zeta in Hs;
    repeat match type of Hs with
           | context [match ?x with _ => _ end] => destruct x eqn:?
           end;
    try discriminate; apply some_pair5 in Hs; destruct Hs as [? ?]; subst;
    rewrite ?goto_state5, ?goto_labels5; cbn [fst].

  (* a thread stands at PW_D2 after a step only if it stood there before, or has just made the first store of its delete *)
  Lemma set_pc_same (S0 : xstate) u (q : pc) : g_pc (set_pc S0 u q) u = q.
  Proof. cbn [set_pc g_pc]. destruct (Nat.eq_dec u u) as [_|Hc]; [reflexivity | exfalso; apply Hc; reflexivity]. Qed.

  Lemma norm_d2 (q : pc) cx tab pos v : norm q = PW_D2 cx tab pos v -> q = PW_D2 cx tab pos v.
  Proof. destruct q; cbn; intros H; try discriminate; exact H. Qed.

  Lemma d2_prov_pc s u p s' ls cx tab pos v : valid hash idx nslots nstripes s p ->
    step_pc s u p = Some (s', ls) -> g_pc s' u = PW_D2 cx tab pos v -> p = PW_D1 cx tab pos v.
  Proof.
    intros Hv Hs Hp.
    destruct p; step_cases5 Hs; rewrite ?goto_state5 in Hp; cbn [fst] in Hp; rewrite set_pc_same in Hp; try discriminate Hp; try apply norm_d2 in Hp; try discriminate Hp;
      try (match type of Hp with run_cont ?kt = _ => destruct kt; discriminate Hp end);
      try (match type of Hp with (match ?x with _ => _ end) = _ => destruct x; try discriminate Hp end);
      try (match type of Hp with run_cont ?kt = _ => destruct kt; discriminate Hp end).
    all: try (inversion Hp; subst; reflexivity).
    all: exfalso; subst; cbn [valid] in Hv; destruct Hv as [_ [_ [_ [Hq _]]]]; specialize (Hq s); cbn [holds] in Hq; discriminate Hq.
  Qed.
  Section OneLookup.

    Variables (t : nat) (k : K) (lc : @lcont K V) (tab : nat) (v : V).

    (* thread t is inside the lookup of k in table tab *)
    Definition inlookup (s : xstate) : Prop :=
      tab <= g_cur s /\
      match g_pc s t with
      | PL_Meta k' lc' tab' h _ | PL_Ent k' lc' tab' h _ _ | PL_Next k' lc' tab' h _ =>
          k' = k /\ lc' = lc /\ tab' = tab /\ h = hash k (x_seed (tab_at s tab))
      | _ => False
      end.

    (* the slots the reader is still going to look at: none holds (k, v) behind a cleared meta byte,
       unless the pair has been witnessed (W) *)
    Definition JJ (W : Prop) (s : xstate) : Prop :=
      match g_pc s t with
      | PL_Ent _ _ _ h bi todo =>
          let c := chain_of (tab_at s tab) (idx h (x_len (tab_at s tab))) in
          forall i, In i todo -> s_ent (nth (bi * nslots + i) c empty_slot) = Some (k, v) ->
                    s_tag (nth (bi * nslots + i) c empty_slot) <> None \/ W
      | _ => True
      end.

    (* the other threads' program counters over one xstep *)
    Lemma xstep_others s u s' ls : XInv s -> xstep s u = Some (s', ls) ->
      forall w, w <> u -> g_pc s' w = g_pc s w \/ g_pc s' w = wake (g_pc s w).
    Proof.
      intros HI E w Hne. unfold XMachine.xstep in E. pose proof (xi_valid _ _ _ _ s HI u) as Hv.
      destruct (g_pc s u) eqn:Hp;
        try (rewrite <- Hp in Hv; rewrite <- Hp in E;
             destruct (step_misc eqd hash idx tag nslots seeds grow_needed shrink_policy probe nstripes minlen grow_only s u _ s' ls E Hv) as [_ [_ [_ Ho]]];
             apply Ho; exact Hne).
      destruct (g_todo s u) as [|o rest]; [discriminate|].
      match type of E with match step_pc ?s1 u ?q with _ => _ end = _ => set (S1 := s1) in *; destruct (step_pc S1 u q) as [[s2 ls2]|] eqn:E2 end.
      - inversion E; subst.
        assert (Hv1 : valid hash idx nslots nstripes S1 (start_pc o)) by (destruct o; cbn; auto; try (destruct lie; cbn; auto)).
        destruct (step_misc eqd hash idx tag nslots seeds grow_needed shrink_policy probe nstripes minlen grow_only S1 u _ s' ls2 E2 Hv1) as [_ [_ [_ Ho]]].
        assert (E1 : g_pc S1 w = g_pc s w) by (unfold S1; cbn [g_pc]; destruct (Nat.eq_dec w u); [contradiction | reflexivity]).
        rewrite <- E1. apply Ho. exact Hne.
      - inversion E; subst. left. unfold S1. cbn [g_pc]. destruct (Nat.eq_dec w u); [contradiction | reflexivity].
    Qed.

    Lemma xstep_frame s u s' ls : xstep s u = Some (s', ls) -> X_inv.frame nslots nstripes s s'.
    Proof.
      intros E. unfold XMachine.xstep in E.
      destruct (g_pc s u) eqn:Hp; try (eapply (step_frame eqd hash idx tag nslots seeds grow_needed shrink_policy probe nstripes minlen grow_only Hminlen Hnslots); exact E).
      destruct (g_todo s u) as [|o rest]; [discriminate|].
      match type of E with match step_pc ?s1 u ?q with _ => _ end = _ => destruct (step_pc s1 u q) as [[s2 ls2]|] eqn:E2 end.
      - inversion E; subst. eapply (frame_trans nslots nstripes minlen Hminlen);
          [|eapply (step_frame eqd hash idx tag nslots seeds grow_needed shrink_policy probe nstripes minlen grow_only Hminlen Hnslots); exact E2].
        split; [cbn; lia | intros; apply shape_refl].
      - inversion E; subst. split; [cbn; lia | intros; apply shape_refl].
    Qed.

    (* a thread at PW_D2 after an xstep: it was there before, or it has just made the first store of its delete *)
    Lemma d2_prov s u s' ls w cx tab0 pos v0 : XInv s -> xstep s u = Some (s', ls) -> g_pc s' w = PW_D2 cx tab0 pos v0 ->
      g_pc s w = PW_D2 cx tab0 pos v0 \/ g_pc s w = PW_D1 cx tab0 pos v0.
    Proof.
      intros HI E Hp. destruct (Nat.eq_dec w u) as [->|Hne].
      - unfold XMachine.xstep in E. pose proof (xi_valid _ _ _ _ s HI u) as Hv.
        destruct (g_pc s u) eqn:Hpu;
          try (right; eapply d2_prov_pc; [exact Hv | exact E | exact Hp]).
        destruct (g_todo s u) as [|o rest]; [discriminate|].
        match type of E with match step_pc ?s1 u ?q with _ => _ end = _ => set (S1 := s1) in *; destruct (step_pc S1 u q) as [[s2 ls2]|] eqn:E2 end.
        + inversion E; subst. exfalso.
          assert (Hv1 : valid hash idx nslots nstripes S1 (start_pc o)) by (destruct o; cbn; auto; try (destruct lie; cbn; auto)).
          pose proof (d2_prov_pc S1 u _ s' ls2 cx tab0 pos v0 Hv1 E2 Hp) as Hc. destruct o; cbn in Hc; try discriminate; destruct lie; discriminate.
        + inversion E; subst. exfalso. unfold S1 in Hp. cbn [g_pc] in Hp. destruct (Nat.eq_dec u u) as [_|Hc]; [|apply Hc; reflexivity].
          destruct o; cbn in Hp; try discriminate; destruct lie; discriminate.
      - destruct (xstep_others s u s' ls HI E w Hne) as [E0|E0]; rewrite E0 in Hp; [left; exact Hp|].
        left. destruct (g_pc s w); cbn in Hp; try discriminate; exact Hp.
    Qed.

    (* an entry found behind a cleared meta byte in a published chain was there, with the same pair, one step earlier *)
    Lemma hidden_prov s u s' ls b pos : XInv s -> XT s -> XC s -> XC s' -> xstep s u = Some (s', ls) ->
      tab <= g_cur s -> tab <= g_cur s' -> (forall w, newtab (g_pc s' w) <> Some tab) -> b < x_len (tab_at s tab) ->
      pos < length (chain_of (tab_at s' tab) b) ->
      s_ent (nth pos (chain_of (tab_at s' tab) b) empty_slot) = Some (k, v) ->
      s_tag (nth pos (chain_of (tab_at s' tab) b) empty_slot) = None ->
      pos < length (chain_of (tab_at s tab) b) /\ s_ent (nth pos (chain_of (tab_at s tab) b) empty_slot) = Some (k, v)
      /\ home hash idx (tab_at s tab) k = b.
    Proof.
      intros HI HT HC HC' E Hc Hc' Hpub' Hb Hp He Ht.
      assert (Htab : tab < length (g_tabs s)) by (pose proof (xi_cur _ _ _ _ s HI); lia).
      pose proof (xstep_frame s u s' ls E) as [Hlen Hfr]. destruct (Hfr tab Htab) as [E1 [E2 _]].
      assert (Htab' : tab < length (g_tabs s')) by lia.
      assert (Hb' : b < x_len (tab_at s' tab)) by (rewrite E1; exact Hb).
      destruct (xc_ch _ _ _ _ _ s' HC' tab b Htab' Hpub' Hb') as [_ [_ Hs]]. specialize (Hs pos Hp).
      unfold X_c04.slot_ok, X_c04.chain in Hs. rewrite He, Ht in Hs. destruct Hs as [w [cx [Hpc [Ek Hh]]]].
      assert (Ehome : home hash idx (tab_at s tab) k = b).
      { unfold X_c04.hkey, XMachine.home in Hh. unfold XMachine.home. rewrite <- E1, <- E2. exact Hh. }
      pose proof (xc_pc _ _ _ _ _ s HC w) as Hf.
      destruct (d2_prov s u s' ls w cx tab pos v HI E Hpc) as [Ew|Ew]; rewrite Ew in Hf; cbn [X_c04.pcfact] in Hf;
        unfold X_c04.chain, X_c04.hkey, ent_at in Hf; rewrite Ek, Ehome in Hf; destruct Hf as [F1 [F2 _]]; auto.
    Qed.

    Notation visnow := (fun s : xstate => vis (tab_at s tab) k v).

    Lemma reader_state_same s p s' ls : reader_pc p = true -> step_pc s t p = Some (s', ls) ->
      g_tabs s' = g_tabs s /\ g_cur s' = g_cur s.
    Proof.
      intros Hr Hs. destruct p; try discriminate Hr; step_cases5 Hs; cbn [set_pc g_tabs g_cur]; auto.
    Qed.

    (* one step of the run keeps the invariant, with the pair witnessed if it was visible before the step *)
    Lemma JJ_step W s u s' ls : XI5 s -> XI5 s' -> xstep s u = Some (s', ls) -> inlookup s -> inlookup s' ->
      JJ W s -> JJ (W \/ visnow s) s'.
    Proof.
      intros [[HI [_ [HT HC]]] _] [[HI' [_ [HT' HC']]] _] E [Hc Hin] [Hc' Hin'] HJ.
      assert (Htab : tab < length (g_tabs s)) by (pose proof (xi_cur _ _ _ _ s HI); lia).
      pose proof (xstep_frame s u s' ls E) as [Hlen Hfr]. destruct (Hfr tab Htab) as [E1 [E2 _]].
      assert (Hpub' : forall w, newtab (g_pc s' w) <> Some tab).
      { intros w Ew. destruct (xt_new s' HT' w _ Ew) as [_ B]. lia. }
      unfold JJ. destruct (g_pc s' t) eqn:Hp'; try exact I.
      destruct Hin' as [-> [-> [-> Eh']]].
      intros i Hi He. set (c' := chain_of (tab_at s' tab) (idx h (x_len (tab_at s' tab)))) in *.
      destruct (s_tag (nth (bi * nslots + i) c' empty_slot)) eqn:Et; [left; discriminate|]. right.
      assert (Hb : idx h (x_len (tab_at s tab)) < x_len (tab_at s tab)) by (apply Hidx; apply (xi_wf _ _ _ _ s HI tab Htab)).
      destruct (Nat.lt_ge_cases (bi * nslots + i) (length c')) as [Hlt|Hge].
      2:{ rewrite nth_overflow in He by exact Hge. discriminate He. }
      unfold c' in *. rewrite E1 in *.
      destruct (hidden_prov s u s' ls _ _ HI HT HC HC' E Hc Hc' Hpub' Hb Hlt He Et) as [P1 [P2 P3]].
      (* the pair was in the slot before the step: either the reader already had it in its list, or it has just loaded the meta word *)
      destruct (Nat.eq_dec u t) as [->|Hne].
      - (* the reader's own step: shared state unchanged, so the slot had a cleared meta byte before, too *)
        assert (Ex : xstep s t = step_pc s t (g_pc s t)).
        { unfold XMachine.xstep. destruct (g_pc s t); try reflexivity; contradiction. }
        rewrite Ex in E.
        assert (Hr : reader_pc (g_pc s t) = true) by (destruct (g_pc s t); try contradiction; reflexivity).
        destruct (reader_state_same s _ s' ls Hr E) as [Et1 Et2].
        assert (Etab : tab_at s' tab = tab_at s tab) by (unfold XMachine.tab_at; rewrite Et1; reflexivity).
        rewrite Etab in Et.
        destruct (g_pc s t) eqn:Hp; try contradiction; destruct Hin as [-> [-> [-> Eh]]].
        + (* PL_Meta: the list is what the probe of the meta word just loaded gives: only slots whose meta byte is set *)
          step_cases5 E; rewrite ?goto_state5 in Hp'; cbn [fst] in Hp'; rewrite set_pc_same in Hp'; try discriminate Hp'.
          cbn [norm] in Hp'. inversion Hp'; subst. exfalso.
          match goal with H : probe ?tags ?tg = _ |- _ => assert (Hpr : In i (probe tags tg)) by (rewrite H; exact Hi) end.
          destruct (Hprobe_sound _ _ _ Hpr) as [Q1 Q2].
          assert (Hi3 : i < nslots).
          { unfold tags_of in Q1. rewrite map_length in Q1. unfold bucket_slots in Q1. rewrite firstn_length in Q1. lia. }
          rewrite nth_tags_of, (nth_bucket_slots nslots Hnslots _ _ _ Hi3) in Q2. apply Q2. exact Et.
        + (* PL_Ent: the list shrinks *)
          left. unfold JJ in HJ. rewrite Hp in HJ.
          step_cases5 E; rewrite ?goto_state5 in Hp'; cbn [fst] in Hp'; rewrite set_pc_same in Hp'; cbn [norm] in Hp'; try discriminate Hp';
            try (destruct lc; discriminate Hp'); inversion Hp'; subst;
            (destruct (HJ i (or_intror Hi) P2) as [Hx|Hx]; [exfalso; apply Hx; exact Et | exact Hx]).
        + (* PL_Next -> PL_Meta, never PL_Ent *)
          step_cases5 E; rewrite ?goto_state5 in Hp'; cbn [fst] in Hp'; rewrite set_pc_same in Hp'; cbn [norm] in Hp'; try discriminate Hp'; destruct lc; discriminate Hp'.
      - (* another thread's step: the reader's list is what it was *)
        assert (Ept : g_pc s' t = g_pc s t).
        { destruct (xstep_others s u s' ls HI E t (not_eq_sym Hne)) as [E0|E0]; [exact E0|]. rewrite E0.
          destruct (g_pc s t); try reflexivity; contradiction. }
        rewrite Hp' in Ept. unfold JJ in HJ. rewrite <- Ept in HJ, Hin. destruct Hin as [_ [_ [_ Eh]]].
        destruct (HJ i Hi P2) as [Hx|Hx]; [|left; exact Hx].
        right. unfold X_lin.vis. rewrite P3. exists (bi * nslots + i). split; [exact P1|]. split; [exact Hx | exact P2].
    Qed.

    (* the label of a lookup that returns the value v *)
    Definition hit (l : xlabel) : Prop := exists b, l = XRes t (XRVal (Some v) b).

    (* the step that returns v finds the pair (k, v) in a slot of its list *)
    Lemma hit_step W s s2 ls2 : XInv s -> inlookup s -> JJ W s -> xstep s t = Some (s2, ls2) -> (exists l, In l ls2 /\ hit l) ->
      W \/ visnow s.
    Proof.
      intros HI [Hc Hin] HJ E [l [Hl [b0 ->]]].
      assert (Htab : tab < length (g_tabs s)) by (pose proof (xi_cur _ _ _ _ s HI); lia).
      assert (Ex : xstep s t = step_pc s t (g_pc s t)).
      { unfold XMachine.xstep. destruct (g_pc s t); try reflexivity; contradiction. }
      rewrite Ex in E. unfold JJ in HJ.
      destruct (g_pc s t) eqn:Hp; try contradiction; destruct Hin as [-> [-> [-> Eh]]].
      - exfalso. step_cases5 E; rewrite ?goto_labels5 in Hl; cbn [snd] in Hl; cbn [In] in Hl; destruct Hl as [Hl|[]]; discriminate Hl.
      - step_cases5 E; rewrite ?goto_labels5 in Hl; cbn [snd] in Hl; repeat (apply in_app_or in Hl; destruct Hl as [Hl|Hl]); cbn [In] in Hl;
          repeat match goal with H : _ \/ _ |- _ => destruct H end; try contradiction; try discriminate;
          try (match goal with H : XStep _ _ = XRes _ _ |- _ => discriminate H end).
        all: try (match goal with H : XRes _ _ = XRes _ _ |- _ => inversion H; subst; clear H end).
        all: match goal with Hq : s_ent (nth ?p ?c empty_slot) = Some (_, _) |- _ =>
               destruct (HJ _ (or_introl eq_refl) Hq) as [Hx|Hx]; [right | left; exact Hx];
               unfold X_lin.vis, XMachine.home; exists p; split;
               [ destruct (Nat.lt_ge_cases p (length c)) as [Hlt|Hge]; [exact Hlt | rewrite nth_overflow in Hq by exact Hge; discriminate Hq]
               | split; [exact Hx | exact Hq] ]
             end.
      - exfalso. step_cases5 E; rewrite ?goto_labels5 in Hl; cbn [snd] in Hl; repeat (apply in_app_or in Hl; destruct Hl as [Hl|Hl]); cbn [In] in Hl;
          repeat match goal with H : _ \/ _ |- _ => destruct H end; try contradiction; try discriminate;
          destruct lc; cbn [In] in *; repeat match goal with H : _ \/ _ |- _ => destruct H end; try contradiction; try discriminate.
    Qed.


    Notation along := (@X_range.along K V eqd hash idx tag nslots seeds grow_needed shrink_policy probe nstripes minlen grow_only).

    Lemma load_hit_gen sched : forall W s, XI5 s -> along inlookup s sched -> JJ W s ->
      forall s2 ls2, xstep (fst (xrun s sched)) t = Some (s2, ls2) -> (exists l, In l ls2 /\ hit l) ->
      W \/ ever visnow s sched.
    Proof.
      induction sched as [|u r IH]; intros W s H5 Hal HJ s2 ls2 E Hh; cbn [XMachine.xrun X_range.along ever] in *.
      - destruct Hal as [Hin _]. cbn [fst] in E. destruct H5 as [[HI _] _].
        destruct (hit_step W s s2 ls2 HI Hin HJ E Hh) as [H|H]; [left; exact H | right; left; exact H].
      - destruct Hal as [Hin Hal]. destruct (xstep s u) as [[s' ls]|] eqn:Eu.
        + pose proof (XI5_xstep eqd hash idx tag nslots seeds grow_needed shrink_policy probe nstripes minlen grow_only
                        Hidx Hstripes Hminlen Hnslots Hprobe_sound Hprobe_complete s u s' ls H5 Eu) as H5'.
          assert (Hin' : inlookup s') by (destruct r; cbn [X_range.along] in Hal; apply Hal).
          pose proof (JJ_step W s u s' ls H5 H5' Eu Hin Hin' HJ) as HJ'.
          destruct (XMachine.xrun _ _ _ _ _ _ _ _ _ _ _ _ s' r) as [s'' ls''] eqn:Er. cbn [fst] in E.
          specialize (IH (W \/ visnow s) s' H5' Hal HJ' s2 ls2). rewrite Er in IH. cbn [fst] in IH.
          destruct (IH E Hh) as [[H|H]|H]; [left; exact H | right; left; exact H | right; right; exact H].
        + destruct (IH W s H5 Hal HJ s2 ls2 E Hh) as [H|H]; [left; exact H | right; right; exact H].
    Qed.

    (* C04, readers: while thread t stays inside one lookup of k in table tab (from a state in which it is
       about to load a meta word), if its next step returns v, then (k, v) was visible in that table in
       some state of the run *)
    Theorem load_hit s sched s2 ls2 : XI5 s -> along inlookup s sched ->
      (match g_pc s t with PL_Ent _ _ _ _ _ _ => False | _ => True end) ->
      xstep (fst (xrun s sched)) t = Some (s2, ls2) -> (exists l, In l ls2 /\ hit l) ->
      ever visnow s sched.
    Proof.
      intros H5 Hal Hne E Hh.
      destruct (load_hit_gen sched False s H5 Hal) with (s2 := s2) (ls2 := ls2) as [[]|H]; try assumption.
      unfold JJ. destruct (g_pc s t); try exact I. contradiction.
    Qed.
  End OneLookup.

  (* ---------------- how one step changes the entry pointer of a slot of a published chain ---------------- *)

  Lemma ent_step s u p s' ls tab b pos : XInv s -> XC s -> g_pc s u = p -> step_pc s u p = Some (s', ls) ->
    tab < length (g_tabs s) -> newtab p <> Some tab -> pos < length (chain_of (tab_at s tab) b) ->
    s_ent (nth pos (chain_of (tab_at s' tab) b) empty_slot) = s_ent (nth pos (chain_of (tab_at s tab) b) empty_slot)
    \/ (exists cx old, p = PW_D2 cx tab pos old /\ home hash idx (tab_at s tab) (cx_k cx) = b)
    \/ (exists cx nv, (exists old, p = PW_U1 cx tab pos old nv) /\ home hash idx (tab_at s tab) (cx_k cx) = b
                      /\ s_ent (nth pos (chain_of (tab_at s' tab) b) empty_slot) = Some (cx_k cx, nv))
    \/ (exists cx nv, p = PW_I2 cx tab pos nv /\ home hash idx (tab_at s tab) (cx_k cx) = b
                      /\ s_ent (nth pos (chain_of (tab_at s' tab) b) empty_slot) = Some (cx_k cx, nv)).
  Proof.
    intros HI HC Hp Hs Htab Hnt Hpos.
    destruct (step_chain_frame eqd hash idx tag nslots seeds grow_needed shrink_policy probe nstripes minlen grow_only
                s u p s' ls HI Hp Hs tab b Htab) as [H|[H|H]]; [left; rewrite H; reflexivity | | contradiction].
    pose proof (xc_pc _ _ _ _ _ s HC u) as Hf. rewrite Hp in Hf.
    pose proof (xi_valid _ _ _ _ s HI u) as Hv. rewrite Hp in Hv.
    destruct p; cbn [holds] in H; try discriminate H; inversion H; subst; clear H;
      step_cases5 Hs; cbn [valid X_c04.pcfact] in *; unfold X_c04.chain, X_c04.hkey, ent_at, tag_at in *;
      change (tab_at (set_pc ?S0 u ?q) tab) with (tab_at S0 tab);
      rewrite ?(chain_set_tab nslots nstripes s tab _ tab _ Htab);
      try (destruct (Nat.eq_dec tab tab) as [_|Hc]; [|exfalso; apply Hc; reflexivity]);
      try (left; reflexivity);
      rewrite ?chain_of_set_chain;
      try (match goal with |- context [Nat.eq_dec ?a ?a] => destruct (Nat.eq_dec a a) as [_|Hc]; [|exfalso; apply Hc; reflexivity] end);
      try (match goal with |- context [Nat.ltb ?a ?b] => let E := fresh "E" in destruct (Nat.ltb a b) eqn:E; [|apply Nat.ltb_ge in E; exfalso; pose proof (xi_wf _ _ _ _ s HI tab Htab) as [W0 _]; pose proof (Hidx (hash (cx_k cx) (x_seed (tab_at s tab))) _ W0); unfold XMachine.home in E; lia] end).
    all: try (rewrite app_nth1 by exact Hpos; left; reflexivity).
    all: rewrite (nth_set_slot _ _ _ pos) by (apply Hf);
         (destruct (Nat.eq_dec pos pos0) as [->|Hne]; [|left; reflexivity]); cbn [s_ent].
    (* D1, I1: the meta byte only *)
    all: try (left; reflexivity).
    (* D2 *)
    all: try (right; left; do 2 eexists; split; reflexivity).
    (* U1 *)
    all: try (right; right; left; do 2 eexists; split; [eexists; reflexivity | split; reflexivity]).
    (* I2 *)
    all: try (right; right; right; do 2 eexists; split; [reflexivity | split; reflexivity]).
  Qed.

  (* ---------------- the other half: a key that stays visible is found ---------------- *)

  Section OneMiss.
    Variables (t : nat) (k : K) (lc : @lcont K V) (tab : nat).

    Notation inl := (inlookup t k lc tab).

    (* k is visible in slot p of its home chain *)
    Definition kpos (s : xstate) (p : nat) : Prop :=
      let c := chain_of (tab_at s tab) (home hash idx (tab_at s tab) k) in
      p < length c /\ s_tag (nth p c empty_slot) <> None /\ exists v, s_ent (nth p c empty_slot) = Some (k, v).

    Lemma kpos_uniq s p q : XInv s -> XC s -> tab < length (g_tabs s) -> (forall w, newtab (g_pc s w) <> Some tab) ->
      kpos s p -> kpos s q -> p = q.
    Proof.
      intros HI HC Htab Hpub [P1 [_ [v1 P3]]] [Q1 [_ [v2 Q3]]].
      assert (Hb : home hash idx (tab_at s tab) k < x_len (tab_at s tab)) by (unfold XMachine.home; apply Hidx; apply (xi_wf _ _ _ _ s HI tab Htab)).
      destruct (xc_ch _ _ _ _ _ s HC tab _ Htab Hpub Hb) as [_ [Hu _]]. unfold X_c04.chain in Hu.
      apply (Hu p q k v1 v2 P1 Q1 P3 Q3).
    Qed.

    (* the visible slot of k does not move in one step *)
    Lemma kpos_step_pc s u p s' ls p0 p' : XInv s -> XT s -> XC s -> XInv s' -> XT s' -> XC s' -> g_pc s u = p -> step_pc s u p = Some (s', ls) ->
      tab <= g_cur s -> tab <= g_cur s' -> kpos s p0 -> kpos s' p' -> p' = p0.
    Proof.
      intros HI HT HC HI' HT' HC' Hp Hs Hc Hc' [P1 [P2 [v0 P3]]] K'.
      assert (Htab : tab < length (g_tabs s)) by (pose proof (xi_cur _ _ _ _ s HI); lia).
      assert (Htab' : tab < length (g_tabs s')) by (pose proof (xi_cur _ _ _ _ s' HI'); lia).
      assert (Hpub : forall w, newtab (g_pc s w) <> Some tab) by (intros w Ew; destruct (xt_new s HT w _ Ew) as [_ B]; lia).
      assert (Hpub' : forall w, newtab (g_pc s' w) <> Some tab) by (intros w Ew; destruct (xt_new s' HT' w _ Ew) as [_ B]; lia).
      pose proof (step_frame eqd hash idx tag nslots seeds grow_needed shrink_policy probe nstripes minlen grow_only Hminlen Hnslots s u p s' ls Hs) as [_ Hfr].
      destruct (Hfr tab Htab) as [E1 [E2 _]].
      assert (Eh : home hash idx (tab_at s' tab) k = home hash idx (tab_at s tab) k) by (unfold XMachine.home; rewrite E1, E2; reflexivity).
      set (b := home hash idx (tab_at s tab) k) in *.
      assert (Hk : exists v1, s_ent (nth p0 (chain_of (tab_at s' tab) b) empty_slot) = Some (k, v1)).
      { assert (Hnt : newtab p <> Some tab) by (rewrite <- Hp; apply Hpub).
        pose proof (xc_pc _ _ _ _ _ s HC u) as Hf. rewrite Hp in Hf.
        destruct (ent_step s u p s' ls tab b p0 HI HC Hp Hs Htab Hnt P1) as [E|[[cx [old [Ep Eb]]]|[[cx [nv [[old Ep] [Eb E]]]]|[cx [nv [Ep [Eb E]]]]]]].
        - exists v0. rewrite E. exact P3.
        - exfalso. rewrite Ep in Hf. cbn [X_c04.pcfact] in Hf. unfold X_c04.chain, X_c04.hkey, tag_at in Hf. rewrite Eb in Hf. destruct Hf as [_ [_ F3]]. exact (P2 F3).
        - rewrite Ep in Hf. cbn [X_c04.pcfact] in Hf. unfold X_c04.chain, X_c04.hkey, ent_at in Hf. rewrite Eb in Hf. destruct Hf as [_ [F2 _]].
          rewrite P3 in F2. inversion F2; subst. exists nv. rewrite E. rewrite <- H0. reflexivity.
        - exfalso. rewrite Ep in Hf. cbn [X_c04.pcfact] in Hf. unfold X_c04.chain, X_c04.hkey, ent_at in Hf. rewrite Eb in Hf. destruct Hf as [_ [F2 _]].
          rewrite P3 in F2. discriminate F2. }
      destruct Hk as [v1 Hk]. destruct K' as [Q1 [Q2 [v2 Q3]]]. rewrite Eh in Q1, Q2, Q3.
      assert (Hb' : b < x_len (tab_at s' tab)) by (rewrite E1; unfold b, XMachine.home; apply Hidx; apply (xi_wf _ _ _ _ s HI tab Htab)).
      destruct (xc_ch _ _ _ _ _ s' HC' tab b Htab' Hpub' Hb') as [_ [Hu _]]. unfold X_c04.chain in Hu.
      assert (P1' : p0 < length (chain_of (tab_at s' tab) b)).
      { destruct (Nat.lt_ge_cases p0 (length (chain_of (tab_at s' tab) b))) as [H|H]; [exact H|]. rewrite nth_overflow in Hk by exact H. discriminate Hk. }
      apply (Hu p' p0 k v2 v1 Q1 P1' Q3 Hk).
    Qed.

    Lemma kpos_xstep s u s' ls p0 p' : XI5 s -> XI5 s' -> xstep s u = Some (s', ls) ->
      tab <= g_cur s -> tab <= g_cur s' -> kpos s p0 -> kpos s' p' -> p' = p0.
    Proof.
      intros [[HI [_ [HT HC]]] _] [[HI' [_ [HT' HC']]] _] E Hc Hc' K0 K'. unfold XMachine.xstep in E.
      destruct (g_pc s u) eqn:Hp; try (eapply kpos_step_pc; [exact HI | exact HT | exact HC | exact HI' | exact HT' | exact HC' | exact Hp | exact E | exact Hc | exact Hc' | exact K0 | exact K']).
      destruct (g_todo s u) as [|o rest]; [discriminate|].
      destruct (invoke_inv hash idx tag nslots seeds grow_needed nstripes minlen Hminlen Hnslots s u o rest HI HT HC Hp) as [HI1 [HT1 HC1]].
      cbv zeta in HI1, HT1, HC1. set (s1 := set_pc _ u (start_pc o)) in *.
      assert (Epc : g_pc s1 u = start_pc o) by (unfold s1; cbn [set_pc g_pc]; destruct (Nat.eq_dec u u); congruence).
      assert (K1 : kpos s1 p0) by exact K0.
      change (match step_pc s1 u (start_pc o) with
              | Some (s2, ls1) => Some (s2, XMachine.XInv u o :: ls1)
              | None => Some (s1, [XMachine.XInv u o])
              end = Some (s', ls)) in E.
      destruct (step_pc s1 u (start_pc o)) as [[s2 ls1]|] eqn:E2.
      - inversion E; subst s2 ls.
        eapply (kpos_step_pc s1 u (start_pc o) s' ls1 p0 p'); try eassumption.
      - inversion E; subst s' ls.
        assert (Htab : tab < length (g_tabs s)) by (pose proof (xi_cur _ _ _ _ s HI); lia).
        assert (Hpub : forall w, newtab (g_pc s1 w) <> Some tab) by (intros w Ew; destruct (xt_new s1 HT1 w _ Ew) as [_ B]; cbn in B; lia).
        symmetry. apply (kpos_uniq s1 p0 p' HI1 HC1 Htab Hpub K1 K').
    Qed.

    (* where the reader still has to look: the visible slot of k is not behind it *)
    Definition region (p : pc) (q : nat) : Prop :=
      match p with
      | PL_Meta _ _ _ _ bi => bi * nslots <= q
      | PL_Ent _ _ _ _ bi todo => (exists i, In i todo /\ q = bi * nslots + i) \/ (S bi) * nslots <= q
      | PL_Next _ _ _ _ bi => (S bi) * nslots <= q
      | _ => True
      end.

    Definition JM (s : xstate) : Prop := forall q, kpos s q -> region (g_pc s t) q.

    Definition stays (s : xstate) : Prop := inl s /\ exists q, kpos s q.

    Lemma JM_step s u s' ls : XI5 s -> XI5 s' -> xstep s u = Some (s', ls) -> stays s -> stays s' -> JM s -> JM s'.
    Proof.
      intros H5 H5' E [[Hc Hin] [q0 K0]] [[Hc' Hin'] _] HJ q' K'.
      pose proof (kpos_xstep s u s' ls q0 q' H5 H5' E Hc Hc' K0 K') as ->.
      specialize (HJ q0 K0).
      destruct H5 as [[HI [_ [HT HC]]] _].
      destruct (Nat.eq_dec u t) as [->|Hne].
      - (* the reader's own step *)
        assert (Ex : xstep s t = step_pc s t (g_pc s t)).
        { unfold XMachine.xstep. destruct (g_pc s t); try reflexivity; contradiction. }
        rewrite Ex in E.
        assert (Htab : tab < length (g_tabs s)) by (pose proof (xi_cur _ _ _ _ s HI); lia).
        assert (Hpub : forall w, newtab (g_pc s w) <> Some tab) by (intros w Ew; destruct (xt_new s HT w _ Ew) as [_ B]; lia).
        destruct K0 as [P1 [P2 [v0 P3]]].
        assert (Hb : home hash idx (tab_at s tab) k < x_len (tab_at s tab)) by (unfold XMachine.home; apply Hidx; apply (xi_wf _ _ _ _ s HI tab Htab)).
        destruct (xc_ch _ _ _ _ _ s HC tab _ Htab Hpub Hb) as [Csh [_ Csl]]. unfold X_c04.chain in Csh, Csl.
        destruct (g_pc s t) eqn:Hp; try contradiction; destruct Hin as [-> [-> [-> Eh]]]; cbn [region] in HJ.
        + (* PL_Meta: the probe of the meta word finds the slot of k if it is in this bucket *)
          step_cases5 E; rewrite ?goto_state5 in Hin'; cbn [fst] in Hin'; rewrite set_pc_same in Hin'; cbn [norm] in Hin';
            rewrite set_pc_same; cbn [norm region].
          * (* no slot of this bucket carries the tag: k is further on *)
            destruct (Nat.lt_ge_cases q0 (S bi * nslots)) as [Hlt|Hge]; [|exact Hge]. exfalso.
            set (i := q0 - bi * nslots). assert (Hi : i < nslots) by (unfold i; lia). assert (Eq : q0 = bi * nslots + i) by (unfold i; lia).
            specialize (Csl q0 P1). unfold X_c04.slot_ok in Csl. rewrite P3 in Csl.
            destruct (s_tag (nth q0 (chain_of (tab_at s tab) (home hash idx (tab_at s tab) k)) empty_slot)) as [tg|] eqn:Et; [|apply P2; reflexivity].
            destruct Csl as [_ Etg]. unfold X_c04.ktag in Etg.
            match goal with H : probe ?tags ?tg0 = [] |- _ => assert (Hpr : In i (probe tags tg0)); [|rewrite H in Hpr; exact Hpr] end.
            apply Hprobe_complete.
            -- unfold tags_of. rewrite map_length. unfold bucket_slots. rewrite firstn_length, skipn_length. unfold XMachine.home in P1. lia.
            -- rewrite nth_tags_of, (nth_bucket_slots nslots Hnslots _ _ _ Hi), <- Eq. unfold XMachine.home in Et. rewrite Et, Etg. reflexivity.
          * destruct (Nat.lt_ge_cases q0 (S bi * nslots)) as [Hlt|Hge]; [left|right; exact Hge].
            set (i := q0 - bi * nslots). assert (Hi : i < nslots) by (unfold i; lia). assert (Eq : q0 = bi * nslots + i) by (unfold i; lia).
            exists i. split; [|exact Eq].
            specialize (Csl q0 P1). unfold X_c04.slot_ok in Csl. rewrite P3 in Csl.
            destruct (s_tag (nth q0 (chain_of (tab_at s tab) (home hash idx (tab_at s tab) k)) empty_slot)) as [tg|] eqn:Et; [|exfalso; apply P2; reflexivity].
            destruct Csl as [_ Etg]. unfold X_c04.ktag in Etg.
            match goal with H : probe ?tags ?tg0 = _ :: _ |- _ => rewrite <- H end.
            apply Hprobe_complete.
            -- unfold tags_of. rewrite map_length. unfold bucket_slots. rewrite firstn_length, skipn_length. unfold XMachine.home in P1. lia.
            -- rewrite nth_tags_of, (nth_bucket_slots nslots Hnslots _ _ _ Hi), <- Eq. unfold XMachine.home in Et. rewrite Et, Etg. reflexivity.
        + (* PL_Ent: the slot just looked at is not the slot of k, or the step is a hit *)
          step_cases5 E; rewrite ?goto_state5 in Hin'; cbn [fst] in Hin'; rewrite set_pc_same in Hin'; cbn [norm] in Hin';
            try (destruct lc; contradiction); try contradiction;
            rewrite set_pc_same; cbn [norm region];
            (destruct HJ as [[i [Hi Eq]]|Hge]; [|first [right; exact Hge | exact Hge]]);
            (destruct Hi as [<-|Hi]; [exfalso; subst q0; unfold XMachine.home in P3;
                                       match goal with H : s_ent _ = _ |- _ => rewrite P3 in H; first [discriminate H | inversion H; subst; congruence] end
                                     | first [left; exists i; split; [exact Hi | exact Eq] | destruct Hi] ]).
        + (* PL_Next *)
          step_cases5 E; rewrite ?goto_state5 in Hin'; cbn [fst] in Hin'; rewrite set_pc_same in Hin'; cbn [norm] in Hin';
            try (destruct lc; cbn in Hin'; contradiction); rewrite set_pc_same; cbn [norm region]; first [exact HJ | exact I | (destruct lc; cbn in Hin'; contradiction)].
      - (* another thread: the reader stands where it stood *)
        assert (Ept : g_pc s' t = g_pc s t).
        { destruct (xstep_others s u s' ls HI E t (not_eq_sym Hne)) as [E0|E0]; [exact E0|]. rewrite E0.
          destruct (g_pc s t); try reflexivity; contradiction. }
        rewrite Ept. exact HJ.
    Qed.

    (* the next step of the reader is not a miss *)
    Lemma miss_step s s2 ls2 : XI5 s -> stays s -> JM s -> xstep s t = Some (s2, ls2) ->
      ~ In (XRes t (XRVal None false)) ls2 /\ (forall cx, g_pc s2 t <> PW_Table cx).
    Proof.
      intros [[HI [_ [HT HC]]] _] [[Hc Hin] [q0 K0]] HJ E.
      assert (Ex : xstep s t = step_pc s t (g_pc s t)).
      { unfold XMachine.xstep. destruct (g_pc s t); try reflexivity; contradiction. }
      rewrite Ex in E. specialize (HJ q0 K0).
      assert (Htab : tab < length (g_tabs s)) by (pose proof (xi_cur _ _ _ _ s HI); lia).
      assert (Hpub : forall w, newtab (g_pc s w) <> Some tab) by (intros w Ew; destruct (xt_new s HT w _ Ew) as [_ B]; lia).
      assert (Hb : home hash idx (tab_at s tab) k < x_len (tab_at s tab)) by (unfold XMachine.home; apply Hidx; apply (xi_wf _ _ _ _ s HI tab Htab)).
      destruct (xc_ch _ _ _ _ _ s HC tab _ Htab Hpub Hb) as [Csh _]. unfold X_c04.chain in Csh.
      destruct (shaped_nbuckets nslots Hnslots _ Csh) as [Elen _].
      destruct K0 as [P1 _].
      destruct (g_pc s t) eqn:Hp; try contradiction; destruct Hin as [-> [-> [-> Eh]]]; cbn [region] in HJ.
      - step_cases5 E; rewrite set_pc_same; cbn [norm]; (split; [cbn [In]; intros [H|[]]; discriminate H | intros cx9; discriminate]).
      - step_cases5 E; rewrite set_pc_same; cbn [norm];
          (split; [intros H; repeat (apply in_app_or in H; destruct H as [H|H]); cbn [In] in H;
                   repeat match goal with H0 : _ \/ _ |- _ => destruct H0 end; try contradiction; discriminate
                  | intros cx9; try discriminate; destruct lc; discriminate]).
      - unfold XMachine.home in P1, Elen.
        step_cases5 E; rewrite ?set_pc_same; cbn [norm];
          first [ (exfalso; match goal with H : Nat.ltb _ _ = false |- _ => apply Nat.ltb_ge in H end; nia)
                | (split; [cbn [In]; intros [H|[]]; discriminate H | intros cx9; discriminate]) ].
    Qed.

    Notation along := (@X_range.along K V eqd hash idx tag nslots seeds grow_needed shrink_policy probe nstripes minlen grow_only).

    Lemma load_no_miss_gen sched : forall s, XI5 s -> along stays s sched -> JM s ->
      forall s2 ls2, xstep (fst (xrun s sched)) t = Some (s2, ls2) ->
      ~ In (XRes t (XRVal None false)) ls2 /\ (forall cx, g_pc s2 t <> PW_Table cx).
    Proof.
      induction sched as [|u r IH]; intros s H5 Hal HJ s2 ls2 E; cbn [XMachine.xrun X_range.along] in *.
      - destruct Hal as [Hst _]. cbn [fst] in E. apply (miss_step s s2 ls2 H5 Hst HJ E).
      - destruct Hal as [Hst Hal]. destruct (xstep s u) as [[s' ls]|] eqn:Eu.
        + pose proof (XI5_xstep eqd hash idx tag nslots seeds grow_needed shrink_policy probe nstripes minlen grow_only
                        Hidx Hstripes Hminlen Hnslots Hprobe_sound Hprobe_complete s u s' ls H5 Eu) as H5'.
          assert (Hst' : stays s') by (destruct r; cbn [X_range.along] in Hal; apply Hal).
          pose proof (JM_step s u s' ls H5 H5' Eu Hst Hst' HJ) as HJ'.
          destruct (XMachine.xrun _ _ _ _ _ _ _ _ _ _ _ _ s' r) as [s'' ls''] eqn:Er. cbn [fst] in E.
          specialize (IH s' H5' Hal HJ' s2 ls2). rewrite Er in IH. cbn [fst] in IH. apply IH. exact E.
        + apply (IH s H5 Hal HJ s2 ls2 E).
    Qed.

    (* C04, readers, the other half: from a state in which thread t is about to load the first meta word of
       the chain, as long as it stays inside the lookup and k is visible in table tab in every state of
       the run, its next step is not a miss (it does not return "absent" and does not fall through to the
       locked path of a load-or-compute) *)
    Theorem load_no_miss s sched s2 ls2 : XI5 s -> along stays s sched ->
      (exists k' lc' tab' h, g_pc s t = PL_Meta k' lc' tab' h 0) ->
      xstep (fst (xrun s sched)) t = Some (s2, ls2) ->
      ~ In (XRes t (XRVal None false)) ls2 /\ (forall cx, g_pc s2 t <> PW_Table cx).
    Proof.
      intros H5 Hal [k' [lc' [tab' [h Hp]]]] E.
      apply (load_no_miss_gen sched s H5 Hal) with (s2 := s2) (ls2 := ls2); [|exact E].
      intros q _. rewrite Hp. cbn [region]. lia.
    Qed.

    (* ---------------- a miss is justified by a state in which k was not visible ---------------- *)

    Definition vslot (sl : slot) : bool :=
      match s_tag sl, s_ent sl with
      | Some _, Some (k', _) => if eqd k k' then true else false
      | _, _ => false
      end.

    Lemma haspos_dec s : {exists q, kpos s q} + {forall q, ~ kpos s q}.
    Proof.
      set (c := chain_of (tab_at s tab) (home hash idx (tab_at s tab) k)).
      destruct (existsb vslot c) eqn:E.
      - left. apply existsb_exists in E. destruct E as [sl [Hin Hv]].
        destruct (In_nth c sl empty_slot Hin) as [q [Hq Eq]]. exists q. unfold kpos. fold c. rewrite Eq.
        unfold vslot in Hv. destruct (s_tag sl); [|discriminate]. destruct (s_ent sl) as [[k' v']|]; [|discriminate].
        destruct (eqd k k') as [->|]; [|discriminate]. split; [exact Hq|]. split; [discriminate | exists v'; reflexivity].
      - right. intros q [Q1 [Q2 [v Q3]]]. fold c in Q1, Q2, Q3.
        assert (Hx : existsb vslot c = true); [|rewrite Hx in E; discriminate].
        apply existsb_exists. exists (nth q c empty_slot). split; [apply nth_In; exact Q1|].
        unfold vslot. rewrite Q3. destruct (s_tag (nth q c empty_slot)); [|exfalso; apply Q2; reflexivity].
        destruct (eqd k k); [reflexivity | congruence].
    Qed.

    Lemma along_or_ever (P : xstate -> Prop) (Pdec : forall s, {P s} + {~ P s}) sched : forall s,
      along P s sched \/ ever (fun s => ~ P s) s sched.
    Proof.
      induction sched as [|u r IH]; intros s; cbn [X_range.along ever].
      - destruct (Pdec s) as [H|H]; [left; auto | right; left; exact H].
      - destruct (Pdec s) as [H|H]; [|right; left; exact H].
        destruct (xstep s u) as [[s' ls]|].
        + destruct (IH s') as [A|A]; [left; auto | right; right; exact A].
        + destruct (IH s) as [A|A]; [left; auto | right; right; exact A].
    Qed.

    Lemma along_and (P Q : xstate -> Prop) sched : forall s, along P s sched -> along Q s sched -> along (fun s => P s /\ Q s) s sched.
    Proof.
      induction sched as [|u r IH]; intros s [HP AP] [HQ AQ]; cbn [X_range.along]; (split; [auto|]); [exact I|].
      cbn [X_range.along] in AP, AQ. destruct (xstep s u) as [[s' ls]|]; apply IH; assumption.
    Qed.

    Lemma ever_impl (P Q : xstate -> Prop) sched : (forall s, P s -> Q s) -> forall s, ever P s sched -> ever Q s sched.
    Proof.
      intros HPQ. induction sched as [|u r IH]; intros s; cbn [ever]; intros [H|H].
      - left. apply HPQ. exact H.
      - destruct H.
      - left. apply HPQ. exact H.
      - right. destruct (xstep s u) as [[s' ls]|]; apply IH; exact H.
    Qed.

    (* C04, readers: a lookup that misses is justified by a state of the run in which k was not visible in the table *)
    Theorem load_miss s sched s2 ls2 : XI5 s -> along inl s sched ->
      (exists k' lc' tab' h, g_pc s t = PL_Meta k' lc' tab' h 0) ->
      xstep (fst (xrun s sched)) t = Some (s2, ls2) ->
      (In (XRes t (XRVal None false)) ls2 \/ exists cx, g_pc s2 t = PW_Table cx) ->
      ever (fun s' => forall q, ~ kpos s' q) s sched.
    Proof.
      intros H5 Hal Hst E Hmiss.
      destruct (along_or_ever (fun s => exists q, kpos s q)
                  (fun s => match haspos_dec s with left H => left H | right H => right (fun '(ex_intro _ q Hq) => H q Hq) end) sched s) as [A|A].
      - exfalso. pose proof (along_and _ _ sched s Hal A) as Hst'.
        destruct (load_no_miss s sched s2 ls2 H5 Hst' Hst E) as [N1 N2].
        destruct Hmiss as [H|[cx H]]; [exact (N1 H) | exact (N2 cx H)].
      - eapply ever_impl; [|exact A]. intros s0 Hn q Hq. apply Hn. exists q. exact Hq.
    Qed.
  End OneMiss.
End LoadHit.

(* ---------------- the statement of props/C04.v ---------------- *)
Section Final.
  Context {K V : Type}.
  Variable eqd : forall a b : K, {a = b} + {a <> b}.
  Variable hash : K -> N -> N.
  Variable idx : N -> nat -> nat.
  Variable tag : N -> N.
  Variable nslots : nat.
  Variable seeds : nat -> N.
  Variable grow_needed shrink_policy : nat -> Z -> bool.
  Variable probe : list (option N) -> N -> list nat.
  Variable nstripes : nat -> nat.
  Variable minlen : nat.
  Variable grow_only : bool.

  Notation xrun := (@xrun K V eqd hash idx tag nslots seeds grow_needed shrink_policy probe nstripes minlen grow_only).
  Notation xstep := (@xstep K V eqd hash idx tag nslots seeds grow_needed shrink_policy probe nstripes minlen grow_only).
  Notation along := (@X_range.along K V eqd hash idx tag nslots seeds grow_needed shrink_policy probe nstripes minlen grow_only).
  Notation ever := (@ever K V eqd hash idx tag nslots seeds grow_needed shrink_policy probe nstripes minlen grow_only).

  Lemma load_no_miss_proof :
    xhyps4 idx nstripes minlen nslots probe -> forall len0 todo sched0 sched t k lc tab s2 ls2, 0 < len0 ->
    let s := fst (xrun (xinit nslots seeds nstripes len0 todo) sched0) in
    along (stays hash idx nslots nstripes t k lc tab) s sched ->
    (exists k' lc' tab' h, g_pc s t = PL_Meta k' lc' tab' h 0) ->
    xstep (fst (xrun s sched)) t = Some (s2, ls2) ->
    ~ In (XRes t (XRVal None false)) ls2 /\ (forall cx, g_pc s2 t <> PW_Table cx).
  Proof.
    intros [[H1 [H2 H3]] [H4 [H5 H6]]] len0 todo sched0 sched t k lc tab s2 ls2 Hl s.
    apply (load_no_miss eqd hash idx tag nslots seeds grow_needed shrink_policy probe nstripes minlen grow_only H1 H2 H3 H4 H5 H6 t k lc tab s sched s2 ls2).
    apply (reachable_inv5 eqd hash idx tag nslots seeds grow_needed shrink_policy probe nstripes minlen grow_only H1 H2 H3 H4 H5 H6 len0 todo sched0 Hl).
  Qed.

  Lemma load_miss_proof :
    xhyps4 idx nstripes minlen nslots probe -> forall len0 todo sched0 sched t k lc tab s2 ls2, 0 < len0 ->
    let s := fst (xrun (xinit nslots seeds nstripes len0 todo) sched0) in
    along (inlookup hash nslots nstripes t k lc tab) s sched ->
    (exists k' lc' tab' h, g_pc s t = PL_Meta k' lc' tab' h 0) ->
    xstep (fst (xrun s sched)) t = Some (s2, ls2) ->
    (In (XRes t (XRVal None false)) ls2 \/ exists cx, g_pc s2 t = PW_Table cx) ->
    ever (fun s' => forall q, ~ kpos hash idx nslots nstripes k tab s' q) s sched.
  Proof.
    intros [[H1 [H2 H3]] [H4 [H5 H6]]] len0 todo sched0 sched t k lc tab s2 ls2 Hl s.
    apply (load_miss eqd hash idx tag nslots seeds grow_needed shrink_policy probe nstripes minlen grow_only H1 H2 H3 H4 H5 H6 t k lc tab s sched s2 ls2).
    apply (reachable_inv5 eqd hash idx tag nslots seeds grow_needed shrink_policy probe nstripes minlen grow_only H1 H2 H3 H4 H5 H6 len0 todo sched0 Hl).
  Qed.

  Lemma load_hit_proof :
    xhyps4 idx nstripes minlen nslots probe -> forall len0 todo sched0 sched t k lc tab v s2 ls2, 0 < len0 ->
    let s := fst (xrun (xinit nslots seeds nstripes len0 todo) sched0) in
    along (inlookup hash nslots nstripes t k lc tab) s sched ->
    (match g_pc s t with PL_Ent _ _ _ _ _ _ => False | _ => True end) ->
    xstep (fst (xrun s sched)) t = Some (s2, ls2) -> (exists l, In l ls2 /\ hit t v l) ->
    ever (fun s' => X_lin.vis hash idx (tab_at nslots nstripes s' tab) k v) s sched.
  Proof.
    intros [[H1 [H2 H3]] [H4 [H5 H6]]] len0 todo sched0 sched t k lc tab v s2 ls2 Hl s.
    apply (load_hit eqd hash idx tag nslots seeds grow_needed shrink_policy probe nstripes minlen grow_only H1 H2 H3 H4 H5 H6 t k lc tab v s sched s2 ls2).
    apply (reachable_inv5 eqd hash idx tag nslots seeds grow_needed shrink_policy probe nstripes minlen grow_only H1 H2 H3 H4 H5 H6 len0 todo sched0 Hl).
  Qed.
End Final.
