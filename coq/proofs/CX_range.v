(* CX_range.v -- C07 (Range / Items) at the CACHE level under concurrency, part 1: the machine side.

   The product machine of CX_product2.v over XMachine (the instance of CX_mapof2.v), here GENERIC in
   the set [sup] of map calls that are run on the machine ([cx2step] of CX_mapof2.v is the instance
   sup := xsup, which blocks on CSize; with sup CSize = true the Size call of Items runs on the
   machine as well).  Nothing below depends on [sup] or on the client programs [progs].

   - [plab] / [plabs]: the XMachine labels of a product run (the labels of the steps of the map threads);
   - [Reach x L]: "for every extension of the todo lists of x, that state is reached by a run of
     XMachine from an initial state, with label trace L".  It holds of every configuration of a product
     run ([Reach_run]): pushing a call onto a todo list is absorbed by the quantification over the
     extension, a step of a map thread is a step of XMachine ([xstep_frame]).  Hence the theorems
     of X_range.v (stated over runs of XMachine from [xinit]) apply to the machine state of every
     product configuration: [reach_once], [reach_snapshot], [reach_jp_step];
   - [TI]: the protocol invariant of CX_product2.v ([PI]) without the side conditions that tie it to
     the linearizability proof;
   - what the steps of a traversal look like to the product thread ([range_invoke_step],
     [range_lock_step], [range_unlock_step]) and what a step of another thread does to a traversal
     ([xstep_other_pc]). *)
From CacheV Require Import Base SpecMap Client CacheModel Ops SpecTTL Lin Conc XMachine.
From CacheV.gen Require Import Params.
From CacheV.proofs Require Import X_basic X_inv X_own X_c04 X_lin X_linpoints X_resize X_range
  CX_trans CX_compose CX_product CX_mapof CX_product2 X_linearizable2 CX_mapof2.
From Coq Require Import NArith Lia.
Local Open Scope nat_scope.

Section CXRange.
  Context {K V : Type}.
  Variable eqd : forall a b : K, {a = b} + {a <> b}.
  Variable hash : K -> N -> N.
  Variable idx : N -> nat -> nat.
  Variable tag : N -> N.
  Variable nslots : nat.
  Variable seeds : nat -> N.
  Variable grow_needed shrink_policy : nat -> Z -> bool.
  Variable probe : list (option N) -> N -> list nat.
  Variable nstripes : nat -> nat.
  Variable minlen : nat.
  Variable grow_only : bool.
  Variable len0 : nat.
  Variable progs : cop K V -> prog K V (cres K V).
  Variables NOW DFLT : Z.
  Variable CB : cbid.
  Variable sup : cmop K V -> bool.

  Notation item := (item V).
  Notation xstate := (@xstate K item).
  Notation xop := (@xop K item).
  Notation xres := (@xres K item).
  Notation xlabel := (@xlabel K item).
  Notation pc := (@pc K item).
  Notation cop := (cop K V).
  Notation cres := (cres K V).
  Notation env0 := (Conc.env0 NOW DFLT).
  Notation step_pc := (@step_pc K item eqd hash idx tag nslots seeds grow_needed shrink_policy probe nstripes minlen grow_only).
  Notation xstep := (@xstep K item eqd hash idx tag nslots seeds grow_needed shrink_policy probe nstripes minlen grow_only).
  Notation xrun := (@xrun K item eqd hash idx tag nslots seeds grow_needed shrink_policy probe nstripes minlen grow_only).
  Notation x2_step := (@x2_step K V eqd hash idx tag nslots seeds grow_needed shrink_policy probe nstripes minlen grow_only).
  Notation with_todo := (@CX_mapof.with_todo K item).
  Notation pconf := (@CX_product2.pconf K V xstate).
  Notation qst := (@CX_product2.qst K V).
  Notation out := (@out K V).
  Notation px := (@p_x K V xstate).
  Notation pthr := (@p_thr K V xstate).
  Notation ptodo := (@p_todo K V xstate).
  Notation xinit0 := (xinit nslots seeds nstripes len0).
  Notation tab_at := (@tab_at K item nslots nstripes).
  Notation vis := (@X_lin.vis K item hash idx).
  Notation hm := (@X_range.hm K item hash idx nslots nstripes).
  Notation xpush := (CX_product2.push xstate xop (@g_todo K item) with_todo).
  Notation feed := (@CX_product2.feed K V xop xres (back env0)).

  (* ---------------- the product machine, its runs, its labels ---------------- *)

  Definition gstep : pconf -> nat -> option (pconf * list out * list (hev xop xres)) :=
    CX_product2.pstep progs NOW DFLT CB xstate xop xres x2_step (@g_todo K item) with_todo
                      (translate env0) (back env0) sup XRange.
  Definition grun : pconf -> list nat -> pconf * list out * list (hev xop xres) :=
    CX_product2.prun progs NOW DFLT CB xstate xop xres x2_step (@g_todo K item) with_todo
                     (translate env0) (back env0) sup XRange.
  Definition ginit (todo : nat -> list cop) : pconf := cx2init nslots seeds nstripes len0 todo.

  Definition pafter (p : pconf) (sched : list nat) : pconf := fst (fst (grun p sched)).
  Definition pouts (p : pconf) (sched : list nat) : list out := snd (fst (grun p sched)).

  (* the thread stands in (or before) a call of the map machine *)
  Definition mach (q : qst) : bool := match q with QIdle | QRun _ _ => false | _ => true end.

  (* the XMachine labels of the move of thread t *)
  Definition plab (p : pconf) (t : nat) : list xlabel :=
    if mach (pthr p t) then match xstep (px p) t with Some (_, ls) => ls | None => [] end else [].

  Fixpoint plabs (p : pconf) (sched : list nat) : list xlabel :=
    match sched with
    | [] => []
    | t :: r => match gstep p t with Some (p', _, _) => plab p t ++ plabs p' r | None => plabs p r end
    end.

  Lemma grun_cons p t r :
    grun p (t :: r) = match gstep p t with
                      | Some (p', os, h) => (fst (fst (grun p' r)), os ++ snd (fst (grun p' r)), h ++ snd (grun p' r))
                      | None => grun p r
                      end.
  Proof.
    unfold grun, gstep. cbn [CX_product2.prun]. destruct (CX_product2.pstep _ _ _ _ _ _ _ _ _ _ _ _ _ _ p t) as [[[p' os] h]|]; [|reflexivity].
    destruct (CX_product2.prun _ _ _ _ _ _ _ _ _ _ _ _ _ _ p' r) as [[p'' os'] h']. reflexivity.
  Qed.

  Lemma pafter_nil p : pafter p [] = p. Proof. reflexivity. Qed.

  Lemma pafter_cons p t r : pafter p (t :: r) = match gstep p t with Some (p', _, _) => pafter p' r | None => pafter p r end.
  Proof. unfold pafter. rewrite grun_cons. destruct (gstep p t) as [[[p' os] h]|]; reflexivity. Qed.

  Lemma pouts_cons p t r : pouts p (t :: r) = match gstep p t with Some (p', os, _) => os ++ pouts p' r | None => pouts p r end.
  Proof. unfold pouts. rewrite grun_cons. destruct (gstep p t) as [[[p' os] h]|]; reflexivity. Qed.

  Lemma pafter_app a : forall p b, pafter p (a ++ b) = pafter (pafter p a) b.
  Proof.
    induction a as [|t r IH]; intros p b; [reflexivity|].
    cbn [app]. rewrite !pafter_cons. destruct (gstep p t) as [[[p' os] h]|]; apply IH.
  Qed.

  Lemma pouts_app a : forall p b, pouts p (a ++ b) = pouts p a ++ pouts (pafter p a) b.
  Proof.
    induction a as [|t r IH]; intros p b; [reflexivity|].
    cbn [app]. rewrite !pouts_cons, pafter_cons. destruct (gstep p t) as [[[p' os] h]|]; [rewrite IH, app_assoc; reflexivity | apply IH].
  Qed.

  Lemma plabs_app a : forall p b, plabs p (a ++ b) = plabs p a ++ plabs (pafter p a) b.
  Proof.
    induction a as [|t r IH]; intros p b; [reflexivity|].
    cbn [app plabs]. rewrite pafter_cons. destruct (gstep p t) as [[[p' os] h]|]; [rewrite IH, app_assoc; reflexivity | apply IH].
  Qed.

  (* one move at the end of a run *)
  Lemma pafter_snoc p a u : pafter p (a ++ [u]) = match gstep (pafter p a) u with Some (p', _, _) => p' | None => pafter p a end.
  Proof. rewrite pafter_app, pafter_cons. destruct (gstep (pafter p a) u) as [[[p' os] h]|]; reflexivity. Qed.

  Lemma pouts_snoc p a u : pouts p (a ++ [u]) = pouts p a ++ match gstep (pafter p a) u with Some (_, os, _) => os | None => [] end.
  Proof. rewrite pouts_app, pouts_cons. destruct (gstep (pafter p a) u) as [[[p' os] h]|]; [cbn; rewrite app_nil_r|]; reflexivity. Qed.

  Lemma plabs_snoc p a u : plabs p (a ++ [u]) = plabs p a ++ match gstep (pafter p a) u with Some _ => plab (pafter p a) u | None => [] end.
  Proof. rewrite plabs_app. cbn [plabs]. destruct (gstep (pafter p a) u) as [[[p' os] h]|]; [rewrite app_nil_r|]; reflexivity. Qed.

  (* ---------------- the cache-level history of one thread ---------------- *)

  Definition ev_thread {O R} (e : hev O R) : nat := match e with HInv u _ | HRes u _ => u end.
  Definition thist {O R} (t : nat) (h : list (hev O R)) : list (hev O R) :=
    filter (fun e => Nat.eqb (ev_thread e) t) h.

  Lemma thist_app {O R} t (a b : list (hev O R)) : thist t (a ++ b) = thist t a ++ thist t b.
  Proof. apply filter_app. Qed.

  Lemma cproj_app (a b : list out) : cproj (a ++ b) = cproj a ++ cproj b.
  Proof. induction a as [|[e|e] r IH]; cbn [app cproj]; [reflexivity | rewrite IH; reflexivity | exact IH]. Qed.

  Lemma feed_cproj t q so : cproj (snd (feed t q so)) = [].
  Proof.
    destruct q; cbn [CX_product2.feed snd]; try reflexivity;
      repeat match goal with |- context [match ?x with _ => _ end] => destruct x end; reflexivity.
  Qed.

  (* ---------------- what a move does ---------------- *)

  Lemma upd_eq {X} (f : nat -> X) t x : upd f t x t = x.
  Proof. unfold upd. destruct (Nat.eq_dec t t); congruence. Qed.

  Lemma upd_neq {X} (f : nat -> X) t x u : u <> t -> upd f t x u = f u.
  Proof. intros H. unfold upd. destruct (Nat.eq_dec u t); [contradiction | reflexivity]. Qed.

  Lemma gstep_mach_eq p t : mach (pthr p t) = true ->
    gstep p t = match x2_step (px p) t with
                | None => None
                | Some (x', so, h) =>
                    Some ({| p_x := x'; p_thr := upd (pthr p) t (fst (feed t (pthr p t) so)); p_todo := ptodo p |},
                          snd (feed t (pthr p t) so), h)
                end.
  Proof.
    intros Hm. unfold gstep, CX_product2.pstep.
    destruct (pthr p t) eqn:Eq; try discriminate Hm; unfold CX_product2.xmove; rewrite Eq;
      (destruct (x2_step (px p) t) as [[[x' so] h]|]; [|reflexivity]);
      match goal with |- context [CX_product2.feed ?a ?b ?c ?d ?e ?f] => destruct (CX_product2.feed a b c d e f) end; reflexivity.
  Qed.

  (* a move of a map thread is a step of XMachine *)
  Lemma gstep_mach p t p1 os h : mach (pthr p t) = true -> gstep p t = Some (p1, os, h) ->
    exists ls, xstep (px p) t = Some (px p1, ls) /\ plab p t = ls
               /\ pthr p1 = upd (pthr p) t (fst (feed t (pthr p t) (so_of ls))) /\ ptodo p1 = ptodo p
               /\ os = snd (feed t (pthr p t) (so_of ls)).
  Proof.
    intros Hm E. rewrite (gstep_mach_eq p t Hm) in E. unfold CX_mapof2.x2_step in E.
    destruct (xstep (px p) t) as [[x' ls]|] eqn:Ex; [|discriminate E].
    inversion E; subst p1 os h; clear E. exists ls. cbn [p_x p_thr p_todo].
    split; [reflexivity|]. split; [unfold plab; rewrite Hm, Ex; reflexivity|]. auto.
  Qed.

  (* a move of the client alone leaves the machine as it is, or pushes a call *)
  Lemma gstep_client p t p1 os h : mach (pthr p t) = false -> gstep p t = Some (p1, os, h) ->
    plab p t = [] /\ (px p1 = px p \/ exists xo, px p1 = xpush (px p) t xo).
  Proof.
    intros Hm E. split; [unfold plab; rewrite Hm; reflexivity|].
    unfold gstep, CX_product2.pstep in E. destruct (pthr p t) as [|o pr| | | |] eqn:Eq; try discriminate Hm.
    - destruct (ptodo p t); [discriminate E|]. inversion E; subst. left. reflexivity.
    - destruct pr as [r|mo k|k|k|d k|k|cb k|e k]; try discriminate E;
        try (inversion E; subst; left; reflexivity).
      destruct mo.
      1-7: destruct (sup _) eqn:Hsup; [|discriminate E]; inversion E; subst; right; eexists; reflexivity.
      inversion E; subst; right; eexists; reflexivity.
  Qed.

  (* a move of thread u does not touch what belongs to another thread *)
  Lemma gstep_other p u p1 os h t : gstep p u = Some (p1, os, h) -> t <> u ->
    pthr p1 t = pthr p t /\ ptodo p1 t = ptodo p t /\ thist t (cproj os) = [].
  Proof.
    intros E Hn.
    assert (Hne : Nat.eqb u t = false) by (apply Nat.eqb_neq; congruence).
    destruct (mach (pthr p u)) eqn:Hm.
    - destruct (gstep_mach p u p1 os h Hm E) as [ls [_ [_ [Et [Etd Eo]]]]].
      rewrite Et, Etd, Eo, feed_cproj. rewrite upd_neq by exact Hn. auto.
    - assert (Hfin : forall (x1 : xstate) q td os1, (td = ptodo p \/ exists r, td = upd (ptodo p) u r) ->
                (os1 = [] \/ (exists o, os1 = [OC (HInv u o)]) \/ (exists r, os1 = [OC (HRes u r)])) ->
                Some ({| p_x := x1; p_thr := upd (pthr p) u q; p_todo := td |}, os1, @nil (hev xop xres)) = Some (p1, os, h) ->
                pthr p1 t = pthr p t /\ ptodo p1 t = ptodo p t /\ thist t (cproj os) = []).
      { intros x1 q td os1 Htd Hos E1. inversion E1; subst p1 os h; clear E1. cbn [p_thr p_todo].
        split; [apply upd_neq; exact Hn|]. split.
        - destruct Htd as [->|[r ->]]; [reflexivity | apply upd_neq; exact Hn].
        - destruct Hos as [->|[[o ->]|[r ->]]]; cbn [cproj thist filter ev_thread]; rewrite ?Hne; reflexivity. }
      unfold gstep, CX_product2.pstep in E. destruct (pthr p u) as [|o pr| | | |] eqn:Eq; try discriminate Hm.
      + destruct (ptodo p u); [discriminate E|]. eapply Hfin; [| |exact E]; eauto.
      + destruct pr as [r|mo k|k|k|d k|k|cb k|e k]; try discriminate E;
          try (unfold CX_product2.pset in E; eapply Hfin; [| |exact E]; eauto; fail).
        destruct mo.
        1-7: destruct (sup _) eqn:Hsup; [|discriminate E]; eapply Hfin; [| |exact E]; eauto.
        eapply Hfin; [| |exact E]; eauto.
  Qed.

  (* ---------------- reachability ---------------- *)

  Definition Reach (x : xstate) (L : list xlabel) : Prop :=
    forall fr : nat -> list xop, exists fut m td,
      (forall u, td u = g_todo x u ++ fr u) /\ xrun (xinit0 fut) m = (with_todo x td, L).

  Lemma xrun_app' a : forall s b, xrun s (a ++ b) = (fst (xrun (fst (xrun s a)) b), snd (xrun s a) ++ snd (xrun (fst (xrun s a)) b)).
  Proof.
    induction a as [|t r IH]; intros s b; cbn [app XMachine.xrun].
    - cbn [fst snd app]. destruct (XMachine.xrun _ _ _ _ _ _ _ _ _ _ _ _ s b). reflexivity.
    - destruct (xstep s t) as [[s1 ls1]|]; [|apply IH].
      rewrite (IH s1 b). destruct (XMachine.xrun _ _ _ _ _ _ _ _ _ _ _ _ s1 r) as [s2 ls2]. cbn [fst snd].
      rewrite app_assoc. reflexivity.
  Qed.

  Lemma Reach_init : Reach (x2_init nslots seeds nstripes len0 (fun _ => [])) [].
  Proof. intros fr. exists fr, [], fr. split; [intros u; reflexivity | reflexivity]. Qed.

  Lemma Reach_push x L t xo : Reach x L -> Reach (xpush x t xo) L.
  Proof.
    intros HR fr. destruct (HR (upd fr t (xo :: fr t))) as [fut [m [td [Htd Hrun]]]].
    exists fut, m, td. split; [|exact Hrun].
    intros u. rewrite Htd. unfold CX_product2.push. cbn [CX_mapof.with_todo g_todo]. unfold upd.
    destruct (Nat.eq_dec u t) as [->|]; [rewrite <- app_assoc; reflexivity | reflexivity].
  Qed.

  Lemma Reach_step x L t x' ls : Reach x L -> xstep x t = Some (x', ls) -> Reach x' (L ++ ls).
  Proof.
    intros HR Ex fr. destruct (HR fr) as [fut [m [td [Htd Hrun]]]].
    destruct (xstep_frame eqd hash idx tag nslots seeds grow_needed shrink_policy probe nstripes minlen grow_only x t x' ls td fr Ex Htd)
      as [td' [Ex' Htd']].
    exists fut, (m ++ [t]), td'. split; [exact Htd'|].
    rewrite xrun_app', Hrun. cbn [fst snd XMachine.xrun]. rewrite Ex'. cbn [fst snd]. rewrite app_nil_r. reflexivity.
  Qed.

  Lemma Reach_gstep p L t p1 os h : Reach (px p) L -> gstep p t = Some (p1, os, h) -> Reach (px p1) (L ++ plab p t).
  Proof.
    intros HR E. destruct (mach (pthr p t)) eqn:Hm.
    - destruct (gstep_mach p t p1 os h Hm E) as [ls [Ex [El _]]]. rewrite El. eapply Reach_step; eassumption.
    - destruct (gstep_client p t p1 os h Hm E) as [El [Ex|[xo Ex]]]; rewrite El, app_nil_r, Ex; [exact HR | apply Reach_push; exact HR].
  Qed.

  Lemma Reach_run sched : forall p L, Reach (px p) L -> Reach (px (pafter p sched)) (L ++ plabs p sched).
  Proof.
    induction sched as [|t r IH]; intros p L HR; [cbn [plabs]; rewrite app_nil_r; exact HR|].
    rewrite pafter_cons. cbn [plabs]. destruct (gstep p t) as [[[p' os] h]|] eqn:E; [|apply IH; exact HR].
    rewrite app_assoc. apply IH. eapply Reach_gstep; eassumption.
  Qed.

  Theorem Reach_from_init todo sched : Reach (px (pafter (ginit todo) sched)) (plabs (ginit todo) sched).
  Proof. apply (Reach_run sched (ginit todo) []). exact Reach_init. Qed.

  (* ---------------- the theorems of X_range.v on a product configuration ---------------- *)

  Hypothesis Hx : xhyps4 idx nstripes minlen nslots probe.
  Hypothesis Hlen : 0 < len0.

  (* at most once per key *)
  Lemma reach_once x L t : Reach x L -> NoDup (map fst (cv t [] L)).
  Proof.
    intros HR. destruct (HR (fun _ => [])) as [fut [m [td [_ Hrun]]]].
    pose proof (range_once_proof eqd hash idx tag nslots seeds grow_needed shrink_policy probe nstripes minlen grow_only Hx len0 fut m t Hlen) as H.
    rewrite Hrun in H. exact H.
  Qed.

  (* the pairs a traversal holds are exactly what is visible in the locked bucket of the traversed table *)
  Lemma reach_snapshot x L t tab i snap : Reach x L -> g_pc x t = PG_Unlock tab i snap ->
    forall k v, In (k, v) snap <-> (vis (tab_at x tab) k v /\ hm x tab k = i).
  Proof.
    intros HR Hp. destruct (HR (fun _ => [])) as [fut [m [td [_ Hrun]]]].
    pose proof (range_snapshot_proof eqd hash idx tag nslots seeds grow_needed shrink_policy probe nstripes minlen grow_only Hx len0 fut m t tab i snap Hlen) as H.
    cbv zeta in H. rewrite Hrun in H. cbn [fst] in H. destruct (H Hp) as [_ [H2 _]]. exact H2.
  Qed.

  (* the completeness invariant of X_range.v, over pairs instead of labels *)
  Definition JQ (t tab : nat) (k : K) (v : item) (x : xstate) (acc : list (K * item)) : Prop :=
    In (k, v) acc
    \/ match g_pc x t with
       | PG_Lock tab' i => tab' = tab /\ (hm x tab k < i -> In (k, v) acc)
       | PG_Unlock tab' i snap => tab' = tab /\ (hm x tab k < i -> In (k, v) acc) /\ (hm x tab k = i -> In (k, v) snap)
       | _ => False
       end.

  Definition vlab (t : nat) (acc : list (K * item)) : list xlabel := map (fun kv => XVisit t (fst kv) (snd kv)) acc.

  Lemma JQ_JP t tab k (v : item) (x : xstate) acc : JQ t tab k v x acc <-> JP hash idx nslots nstripes t tab k v x (vlab t acc).
  Proof. unfold JQ, JP, vlab. rewrite allvis_map. reflexivity. Qed.

  Lemma JP_allvis t tab k (v : item) (x : xstate) (l1 l2 : list xlabel) : allvis t l1 = allvis t l2 ->
    JP hash idx nslots nstripes t tab k v x l1 -> JP hash idx nslots nstripes t tab k v x l2.
  Proof. unfold JP. intros ->. exact (fun H => H). Qed.

  Lemma reach_jq_step x L t tab k v acc u x' ls : Reach x L -> vis (tab_at x tab) k v ->
    JQ t tab k v x acc -> xstep x u = Some (x', ls) -> JQ t tab k v x' (acc ++ allvis t ls).
  Proof.
    intros HR Hv HJ Ex. destruct (HR (fun _ => [])) as [fut [m [td [Htd Hrun]]]].
    destruct Hx as [[H1 [H2 H3]] [H4 [H5 H6]]].
    pose proof (reachable_inv5 eqd hash idx tag nslots seeds grow_needed shrink_policy probe nstripes minlen grow_only
                  H1 H2 H3 H4 H5 H6 len0 fut m Hlen) as HI5.
    rewrite Hrun in HI5. cbn [fst] in HI5. destruct HI5 as [[HI [_ [HT HC]]] _].
    destruct (xstep_frame eqd hash idx tag nslots seeds grow_needed shrink_policy probe nstripes minlen grow_only x u x' ls td (fun _ => []) Ex Htd)
      as [td' [Ex' _]].
    apply JQ_JP in HJ.
    pose proof (JP_step eqd hash idx tag nslots seeds grow_needed shrink_policy probe nstripes minlen grow_only H1 H3 H4
                  t tab k v (with_todo x td) (vlab t acc) u (with_todo x' td') ls HI HT HC Hv HJ Ex') as HJ'.
    apply JQ_JP. eapply JP_allvis; [|exact HJ'].
    rewrite allvis_app. unfold vlab. rewrite !allvis_map. reflexivity.
  Qed.

  (* ---------------- what a step of XMachine does to the other threads, and what it visits ---------------- *)

  Lemma xstep_other_pc x u x' ls t : xstep x u = Some (x', ls) -> t <> u ->
    (g_pc x' t = g_pc x t \/ g_pc x' t = wake (g_pc x t)) /\ g_todo x' t = g_todo x t.
  Proof.
    intros Ex Hn.
    destruct (pc_idle_dec (g_pc x u)) as [Hp|Hp].
    - rewrite (X_linearizable2.xstep_idle eqd hash idx tag nslots seeds grow_needed shrink_policy probe nstripes minlen grow_only x u Hp) in Ex.
      destruct (g_todo x u) as [|o rest] eqn:Et; [discriminate Ex|].
      destruct (step_pc (xinvoke x u o rest) u (start_pc o)) as [[s2 ls2]|] eqn:E2.
      + inversion Ex; subst x' ls; clear Ex.
        pose proof (X_linearizable2.step_pc_others eqd hash idx tag nslots seeds grow_needed shrink_policy probe nstripes minlen grow_only _ _ _ _ _ E2 t Hn) as Ho.
        pose proof (CX_mapof.step_pc_todo eqd hash idx tag nslots seeds grow_needed shrink_policy probe nstripes minlen grow_only _ _ _ _ _ E2) as Htd.
        rewrite Htd. cbn [X_linearizable2.xinvoke g_pc g_todo] in Ho |- *.
        destruct (Nat.eq_dec t u) as [Hc|_]; [contradiction|]. auto.
      + inversion Ex; subst x' ls; clear Ex. cbn [X_linearizable2.xinvoke g_pc g_todo].
        destruct (Nat.eq_dec t u) as [Hc|_]; [contradiction|]. auto.
    - rewrite (X_linearizable2.xstep_nonidle eqd hash idx tag nslots seeds grow_needed shrink_policy probe nstripes minlen grow_only x u Hp) in Ex.
      split; [apply (X_linearizable2.step_pc_others eqd hash idx tag nslots seeds grow_needed shrink_policy probe nstripes minlen grow_only _ _ _ _ _ Ex t Hn)|].
      rewrite (CX_mapof.step_pc_todo eqd hash idx tag nslots seeds grow_needed shrink_policy probe nstripes minlen grow_only _ _ _ _ _ Ex). reflexivity.
  Qed.

  (* the thread walks table tab *)
  Definition trav (p : pc) (tab : nat) : Prop :=
    match p with PG_Lock tab' _ | PG_Unlock tab' _ _ => tab' = tab | _ => False end.

  Lemma trav_wake (p : pc) tab : trav p tab -> wake p = p.
  Proof. destruct p; cbn; try contradiction; reflexivity. Qed.

  Lemma xstep_other_trav x u x' ls t tab : xstep x u = Some (x', ls) -> t <> u -> trav (g_pc x t) tab -> g_pc x' t = g_pc x t.
  Proof.
    intros Ex Hn Ht. destruct (xstep_other_pc x u x' ls t Ex Hn) as [[E|E] _]; [exact E|].
    rewrite E. eapply trav_wake; exact Ht.
  Qed.

  (* the pairs the step of thread u hands to the visitor of thread t *)
  Definition svis (x : xstate) (u t : nat) : list (K * item) :=
    if Nat.eq_dec u t then match g_pc x u with PG_Unlock _ _ snap => snap | _ => [] end else [].

  Lemma allvis_plain t (ls : list xlabel) : Forall (@X_range.plain K item) ls -> allvis t ls = [].
  Proof.
    induction 1 as [|l r Hl _ IH]; [reflexivity|].
    destruct l; cbn [allvis X_range.plain] in *; try contradiction; exact IH.
  Qed.

  Lemma allvis_visits t u (snap : list (K * item)) :
    allvis t (map (fun kv => XVisit u (fst kv) (snd kv)) snap) = if Nat.eq_dec u t then snap else [].
  Proof.
    induction snap as [|[k v] r IH]; cbn [map allvis fst snd]; [destruct (Nat.eq_dec u t); reflexivity|].
    rewrite IH. destruct (Nat.eq_dec u t); reflexivity.
  Qed.

  Lemma vis_of_visits u (snap : list (K * item)) : @vis_of K V (map (fun kv => XVisit u (fst kv) (snd kv)) snap) = snap.
  Proof. induction snap as [|[k v] r IH]; [reflexivity|]. cbn [map fst snd]. unfold vis_of in *. cbn [flat_map app]. rewrite IH. reflexivity. Qed.

  Lemma vis_of_app (a b : list xlabel) : @vis_of K V (a ++ b) = vis_of a ++ vis_of b.
  Proof. unfold vis_of. apply flat_map_app. Qed.

  Lemma vis_of_plain (ls : list xlabel) : Forall (@X_range.plain K item) ls -> @vis_of K V ls = [].
  Proof.
    induction 1 as [|l r Hl _ IH]; [reflexivity|]. unfold vis_of in *. cbn [flat_map].
    destruct l; cbn [X_range.plain] in Hl; try contradiction; exact IH.
  Qed.

  Lemma not_unlock_start (o : xop) : forall tab i snap, start_pc o <> PG_Unlock tab i snap.
  Proof. intros tab i snap. destruct o; cbn; try discriminate. destruct lie; discriminate. Qed.

  (* the unlock step of a traversal *)
  Lemma unlock_step x u tab i snap x' ls : g_pc x u = PG_Unlock tab i snap -> xstep x u = Some (x', ls) ->
    exists tl, ls = XStep u KUnlock :: map (fun kv => XVisit u (fst kv) (snd kv)) snap ++ tl
      /\ ((tl = [] /\ g_pc x' u = PG_Lock tab (S i)) \/ (tl = [XRes u XRUnit] /\ g_pc x' u = PIdle)).
  Proof.
    intros Hp Ex. unfold XMachine.xstep in Ex. rewrite Hp in Ex. cbn [XMachine.step_pc] in Ex. cbv zeta in Ex.
    destruct (Nat.ltb (S i) (x_len (tab_at x tab))); cbn [goto] in Ex; inversion Ex; subst x' ls; clear Ex.
    - exists []. rewrite app_nil_r. split; [reflexivity|]. left. split; [reflexivity|].
      cbn [set_pc g_pc]. destruct (Nat.eq_dec u u); congruence.
    - exists [XRes u XRUnit]. split; [reflexivity|]. right. split; [reflexivity|].
      cbn [set_pc g_pc]. destruct (Nat.eq_dec u u); congruence.
  Qed.

  Lemma allvis_step x u x' ls t : xstep x u = Some (x', ls) -> allvis t ls = svis x u t.
  Proof.
    intros Ex. unfold svis.
    destruct (pc_idle_dec (g_pc x u)) as [Hp|Hp].
    - rewrite Hp. replace (if Nat.eq_dec u t then [] else []) with (@nil (K * item)) by (destruct (Nat.eq_dec u t); reflexivity).
      rewrite (X_linearizable2.xstep_idle eqd hash idx tag nslots seeds grow_needed shrink_policy probe nstripes minlen grow_only x u Hp) in Ex.
      destruct (g_todo x u) as [|o rest]; [discriminate Ex|].
      destruct (step_pc (xinvoke x u o rest) u (start_pc o)) as [[s2 ls2]|] eqn:E2; inversion Ex; subst x' ls; clear Ex; cbn [allvis]; [|reflexivity].
      apply allvis_plain. eapply (step_labels eqd hash idx tag nslots seeds grow_needed shrink_policy probe nstripes minlen grow_only); [exact E2 | apply not_unlock_start].
    - assert (Hgen : (forall tab i snap, g_pc x u <> PG_Unlock tab i snap) -> allvis t ls = []).
      { intros Hnu. apply allvis_plain.
        rewrite (X_linearizable2.xstep_nonidle eqd hash idx tag nslots seeds grow_needed shrink_policy probe nstripes minlen grow_only x u Hp) in Ex.
        eapply (step_labels eqd hash idx tag nslots seeds grow_needed shrink_policy probe nstripes minlen grow_only); [exact Ex | exact Hnu]. }
      destruct (g_pc x u) eqn:Eq;
        try (rewrite Hgen by (intros; discriminate); destruct (Nat.eq_dec u t); reflexivity).
      match type of Eq with _ = PG_Unlock ?tb ?j ?sn => destruct (unlock_step x u tb j sn x' ls Eq Ex) as [tl [-> Htl]] end.
      cbn [allvis]. rewrite allvis_app, allvis_visits.
      assert (Et : allvis t tl = []) by (destruct Htl as [[-> _]|[-> _]]; reflexivity).
      rewrite Et, app_nil_r. reflexivity.
  Qed.

  Lemma cv_step x u x' ls t acc : xstep x u = Some (x', ls) ->
    cv t acc ls = if Nat.eq_dec u t then (if pc_idle_dec (g_pc x u) then [] else acc ++ svis x u t) else acc.
  Proof.
    intros Ex. unfold svis.
    destruct (pc_idle_dec (g_pc x u)) as [Hp|Hp].
    - rewrite (X_linearizable2.xstep_idle eqd hash idx tag nslots seeds grow_needed shrink_policy probe nstripes minlen grow_only x u Hp) in Ex.
      destruct (g_todo x u) as [|o rest]; [discriminate Ex|].
      assert (Hcv : forall a ls2, Forall (@X_range.plain K item) ls2 -> cv t a (XMachine.XInv u o :: ls2) = if Nat.eq_dec u t then [] else a).
      { intros a ls2 Hpl. cbn [cv]. destruct (Nat.eq_dec u t); apply cv_plain; exact Hpl. }
      destruct (step_pc (xinvoke x u o rest) u (start_pc o)) as [[s2 ls2]|] eqn:E2; inversion Ex; subst x' ls; clear Ex; apply Hcv; [|constructor].
      eapply (step_labels eqd hash idx tag nslots seeds grow_needed shrink_policy probe nstripes minlen grow_only); [exact E2 | apply not_unlock_start].
    - rewrite (X_linearizable2.xstep_nonidle eqd hash idx tag nslots seeds grow_needed shrink_policy probe nstripes minlen grow_only x u Hp) in Ex.
      rewrite (step_cv eqd hash idx tag nslots seeds grow_needed shrink_policy probe nstripes minlen grow_only _ _ _ _ _ Ex t acc).
      destruct (Nat.eq_dec u t); destruct (g_pc x u); rewrite ?app_nil_r; reflexivity.
  Qed.

  (* ---------------- the steps of a traversal, as the product thread sees them ---------------- *)

  Notation mk_so := (@CX_product2.Build_sout K V xop xres).

  Lemma start_step x t x' ls : g_pc x t = PStart -> xstep x t = Some (x', ls) ->
    so_of ls = mk_so None [] None /\ g_pc x' t = PIdle /\ g_todo x' = g_todo x.
  Proof.
    intros Hp Ex. unfold XMachine.xstep in Ex. rewrite Hp in Ex. cbn [XMachine.step_pc] in Ex. inversion Ex; subst x' ls.
    split; [reflexivity|]. split; [|reflexivity]. cbn [set_pc g_pc]. destruct (Nat.eq_dec t t); congruence.
  Qed.

  Lemma range_invoke_step x t rest x' ls : g_pc x t = PIdle -> g_todo x t = XRange :: rest -> xstep x t = Some (x', ls) ->
    g_todo x' t = rest
    /\ ((so_of ls = mk_so (Some XRange) [] None /\ g_pc x' t = PG_Lock (g_cur x) 0)
        \/ (so_of ls = mk_so (Some XRange) [] (Some XRUnit) /\ g_pc x' t = PIdle /\ Nat.ltb 0 (x_len (tab_at x (g_cur x))) = false)).
  Proof.
    intros Hp Ht Ex. unfold XMachine.xstep in Ex. rewrite Hp, Ht in Ex. cbn [start_pc XMachine.step_pc] in Ex. cbv zeta in Ex.
    cbn [g_cur] in Ex.
    match type of Ex with context [Nat.ltb 0 ?n] => destruct (Nat.ltb 0 n) eqn:Hlt end; cbn [goto] in Ex; inversion Ex; subst x' ls; clear Ex;
      (split; [cbn [set_pc g_todo]; destruct (Nat.eq_dec t t); congruence|]); [left | right];
      (split; [reflexivity|]); [|split; [|exact Hlt]]; cbn [set_pc g_pc]; destruct (Nat.eq_dec t t); congruence.
  Qed.

  Lemma range_lock_step x t tab i x' ls : g_pc x t = PG_Lock tab i -> xstep x t = Some (x', ls) ->
    so_of ls = mk_so None [] None /\ g_pc x' t = PG_Unlock tab i (live_pairs (chain_of (tab_at x tab) i)) /\ g_todo x' = g_todo x.
  Proof.
    intros Hp Ex. unfold XMachine.xstep in Ex. rewrite Hp in Ex. cbn [XMachine.step_pc] in Ex. cbv zeta in Ex.
    destruct (lock_of (tab_at x tab) i); [discriminate Ex|]. cbn [goto] in Ex. inversion Ex; subst x' ls; clear Ex.
    split; [reflexivity|]. split; [|reflexivity]. cbn [set_pc g_pc]. destruct (Nat.eq_dec t t); congruence.
  Qed.

  Lemma range_unlock_step x t tab i snap x' ls : g_pc x t = PG_Unlock tab i snap -> xstep x t = Some (x', ls) ->
    g_todo x' = g_todo x
    /\ ((so_of ls = mk_so None snap None /\ g_pc x' t = PG_Lock tab (S i))
        \/ (so_of ls = mk_so None snap (Some XRUnit) /\ g_pc x' t = PIdle)).
  Proof.
    intros Hp Ex.
    assert (Htd : g_todo x' = g_todo x).
    { unfold XMachine.xstep in Ex. rewrite Hp in Ex.
      apply (CX_mapof.step_pc_todo eqd hash idx tag nslots seeds grow_needed shrink_policy probe nstripes minlen grow_only _ _ _ _ _ Ex). }
    split; [exact Htd|].
    destruct (unlock_step x t tab i snap x' ls Hp Ex) as [tl [-> [[-> Hpc]|[-> Hpc]]]]; [left | right]; (split; [|exact Hpc]);
      unfold so_of; cbn [X_linpoints.xhist]; rewrite X_linpoints.xhist_app, X_linearizable2.visit_hist'; cbn [X_linpoints.xhist app inv_of res_of];
      f_equal; change (XStep t KUnlock :: ?l) with ([XStep t KUnlock] ++ l); rewrite !vis_of_app, vis_of_visits; unfold vis_of; cbn [flat_map app]; rewrite ?app_nil_r; reflexivity.
  Qed.

  (* ---------------- the protocol invariant ---------------- *)

  Notation x2_idle := (@x2_idle K V).
  Notation x2_inkept := (@x2_inkept K V).
  Notation x2_indrop := (@x2_indrop K V).

  Definition TIq (x : xstate) (t : nat) (q : qst) : Prop :=
    match q with
    | QIdle | QRun _ _ => g_todo x t = [] /\ x2_idle x t
    | QPushed o mo k => g_todo x t = [translate env0 mo] /\ x2_idle x t
    | QWait o mo k => g_todo x t = [] /\ (x2_inkept x t \/ x2_indrop x t)
    | QSPushed o k => g_todo x t = [XRange] /\ x2_idle x t
    | QSWait o k acc => g_todo x t = [] /\ x2_indrop x t
    end.

  Definition TI (p : pconf) : Prop := forall t, TIq (px p) t (pthr p t).

  Lemma TI_init todo : TI (ginit todo).
  Proof. intros t. cbn. split; [reflexivity | left; reflexivity]. Qed.

  (* a move of the client alone, in detail *)
  Lemma gstep_client' p t p1 os h : mach (pthr p t) = false -> gstep p t = Some (p1, os, h) ->
    (px p1 = px p /\ mach (pthr p1 t) = false)
    \/ (exists o mo k, px p1 = xpush (px p) t (translate env0 mo) /\ pthr p1 t = QPushed o mo k)
    \/ (exists o k, px p1 = xpush (px p) t XRange /\ pthr p1 t = QSPushed o k).
  Proof.
    intros Hm E.
    unfold gstep, CX_product2.pstep in E. destruct (pthr p t) as [|o pr| | | |] eqn:Eq; try discriminate Hm.
    - destruct (ptodo p t); [discriminate E|]. inversion E; subst. left. cbn [p_x p_thr]. rewrite upd_eq. auto.
    - destruct pr as [r|mo k|k|k|d k|k|cb k|e k]; try discriminate E;
        try (inversion E; subst; left; cbn [CX_product2.pset p_x p_thr]; rewrite upd_eq; auto; fail).
      destruct mo.
      1-7: destruct (sup _) eqn:Hsup; [|discriminate E]; inversion E; subst; right; left; cbn [p_x p_thr]; rewrite upd_eq; do 3 eexists; split; [|reflexivity]; reflexivity.
      inversion E; subst; right; right; cbn [p_x p_thr]; rewrite upd_eq; eauto.
  Qed.

  Lemma TI_gstep p u p1 os h : TI p -> gstep p u = Some (p1, os, h) -> TI p1.
  Proof.
    intros HT E t. pose proof (HT t) as Ht.
    destruct (mach (pthr p u)) eqn:Hm.
    - (* a step of the map machine *)
      destruct (gstep_mach p u p1 os h Hm E) as [ls [Ex [_ [Eth [_ _]]]]].
      assert (E2 : x2_step (px p) u = Some (px p1, so_of ls, hstep2 (px p) u ls)) by (unfold CX_mapof2.x2_step; rewrite Ex; reflexivity).
      destruct (x2_proto eqd hash idx tag nslots seeds grow_needed shrink_policy probe nstripes minlen grow_only _ _ _ _ _ E2) as [Ho [Hci [Hck Hcd]]].
      rewrite Eth. destruct (Nat.eq_dec t u) as [->|Hn].
      + rewrite upd_eq. pose proof (HT u) as Hu. unfold TIq in Hu.
        destruct (pthr p u) as [|o pr|o mo k|o mo k|o k|o k acc] eqn:Eq; try discriminate Hm; cbn [CX_product2.feed].
        * destruct Hu as [Htd Hid].
          destruct (Hci Hid) as [[Ei [Er [_ [Hid1 Htd1]]]]|[xo [rest [Etd [Etd1 [Ei Hxo]]]]]].
          -- rewrite Ei. cbn [fst TIq]. rewrite Htd1. auto.
          -- rewrite Ei. rewrite Htd in Etd. injection Etd as Exo Erest. rewrite <- Erest in Etd1. rewrite <- Exo in Hxo. destruct (Hxo I) as [_ Hcl].
             destruct (so_res xop xres (so_of ls)); cbn [fst TIq]; (split; [exact Etd1|]); [exact Hcl|].
             destruct (x2_drop (translate env0 mo)); auto.
        * destruct Hu as [Htd [Hk|Hd]].
          -- destruct (Hck Hk) as [Htd1 [_ [_ Hcl]]]. destruct (so_res xop xres (so_of ls)); cbn [fst TIq]; rewrite Htd1; auto.
          -- destruct (Hcd Hd) as [Htd1 [_ [_ Hcl]]]. destruct (so_res xop xres (so_of ls)); cbn [fst TIq]; rewrite Htd1; auto.
        * destruct Hu as [Htd Hid].
          destruct (Hci Hid) as [[Ei [Er [_ [Hid1 Htd1]]]]|[xo [rest [Etd [Etd1 [Ei Hxo]]]]]].
          -- rewrite Ei. cbn [fst TIq]. rewrite Htd1. auto.
          -- rewrite Ei. rewrite Htd in Etd. injection Etd as Exo Erest. rewrite <- Erest in Etd1. rewrite <- Exo in Hxo. destruct (Hxo I) as [_ Hcl].
             destruct (so_res xop xres (so_of ls)); cbn [fst TIq]; (split; [exact Etd1|]); exact Hcl.
        * destruct Hu as [Htd Hd]. destruct (Hcd Hd) as [Htd1 [_ [_ Hcl]]].
          destruct (so_res xop xres (so_of ls)); cbn [fst TIq]; rewrite Htd1; auto.
      + rewrite upd_neq by exact Hn. destruct (Ho t Hn) as [A [B [C D]]]. unfold TIq in *. rewrite A.
        destruct (pthr p t); intuition.
    - (* a move of the client *)
      destruct (Nat.eq_dec t u) as [->|Hn].
      + pose proof (HT u) as Hu. unfold TIq in Hu.
        assert (Hidle : g_todo (px p) u = [] /\ x2_idle (px p) u) by (destruct (pthr p u); try discriminate Hm; exact Hu).
        destruct Hidle as [Htd Hid].
        destruct (gstep_client' p u p1 os h Hm E) as [[Ex Hm1]|[[o [mo [k [Ex Eq]]]]|[o [k [Ex Eq]]]]].
        * rewrite Ex. unfold TIq. destruct (pthr p1 u); try discriminate Hm1; auto.
        * rewrite Ex, Eq. cbn [TIq]. split; [|exact Hid]. unfold CX_product2.push. cbn [CX_mapof.with_todo g_todo]. rewrite upd_eq, Htd. reflexivity.
        * rewrite Ex, Eq. cbn [TIq]. split; [|exact Hid]. unfold CX_product2.push. cbn [CX_mapof.with_todo g_todo]. rewrite upd_eq, Htd. reflexivity.
      + destruct (gstep_other p u p1 os h t E Hn) as [Eth _]. rewrite Eth.
        destruct (gstep_client p u p1 os h Hm E) as [_ [Ex|[xo Ex]]]; rewrite Ex; [exact Ht|].
        unfold TIq in *. unfold CX_product2.push. cbn [CX_mapof.with_todo g_todo]. rewrite upd_neq by exact Hn. exact Ht.
  Qed.

  Lemma TI_run sched : forall p, TI p -> TI (pafter p sched).
  Proof.
    induction sched as [|t r IH]; intros p HT; [exact HT|].
    rewrite pafter_cons. destruct (gstep p t) as [[[p' os] h]|] eqn:E; [|apply IH; exact HT].
    apply IH. eapply TI_gstep; eassumption.
  Qed.

End CXRange.
