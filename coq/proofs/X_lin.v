(* X_lin.v -- what a reader can see in a table ([vis]) changes only at the
   linearization stores of the writer that holds the bucket lock, and then
   exactly as a map update of that writer's key. *)
From CacheV Require Import Base SpecMap XMachine.
From CacheV.proofs Require Import X_basic X_inv X_c13 X_own X_chain X_c04.
From Coq Require Import NArith.
Local Open Scope nat_scope.

Section Lin.
  Context {K V : Type}.
  Variable eqd : forall a b : K, {a = b} + {a <> b}.
  Variable hash : K -> N -> N.
  Variable idx : N -> nat -> nat.
  Variable tag : N -> N.
  Variable nslots : nat.
  Variable seeds : nat -> N.
  Variable grow_needed : nat -> Z -> bool.
  Variable shrink_policy : nat -> Z -> bool.
  Variable probe : list (option N) -> N -> list nat.
  Variable nstripes : nat -> nat.
  Variable minlen : nat.
  Variable grow_only : bool.

  Hypothesis Hidx : forall h len, 0 < len -> idx h len < len.
  Hypothesis Hstripes : forall len, 0 < nstripes len.
  Hypothesis Hminlen : 0 < minlen.
  Hypothesis Hnslots : 0 < nslots.
  Hypothesis Hprobe_sound : forall tags tg i, In i (probe tags tg) -> i < length tags /\ nth i tags None <> None.
  Hypothesis Hprobe_complete : forall tags tg i, i < length tags -> nth i tags None = Some tg -> In i (probe tags tg).

  Notation xtable := (@xtable K V).
  Notation xstate := (@xstate K V).
  Notation pc := (@pc K V).
  Notation slot := (@slot K V).
  Notation empty_slot := (@empty_slot K V).
  Notation tab_at := (@tab_at K V nslots nstripes).
  Notation home := (@home K V hash idx).
  Notation step_pc := (@step_pc K V eqd hash idx tag nslots seeds grow_needed shrink_policy probe nstripes minlen grow_only).
  Notation xstep := (@xstep K V eqd hash idx tag nslots seeds grow_needed shrink_policy probe nstripes minlen grow_only).
  Notation xrun := (@xrun K V eqd hash idx tag nslots seeds grow_needed shrink_policy probe nstripes minlen grow_only).
  Notation XInv := (@X_inv.XInv K V hash idx nslots nstripes).
  Notation XT := (@X_own.XT K V).
  Notation XC := (@X_c04.XC K V hash idx tag nslots nstripes).
  Notation chain := (@X_c04.chain K V nslots nstripes).
  Notation hkey := (@X_c04.hkey K V hash idx nslots nstripes).
  Notation ktag := (@X_c04.ktag K V hash tag nslots nstripes).
  Notation pcfact := (@X_c04.pcfact K V hash idx tag nslots nstripes).
  Notation chain_inv := (@X_c04.chain_inv K V hash idx tag nslots nstripes).
  Notation same_cells := (@X_c04.same_cells K V nslots nstripes).
  Notation holds := (@holds K V hash idx nslots nstripes).
  Notation valid := (@valid K V hash idx nslots nstripes).

  (* what a lock-free reader of table [tb] can find under key k *)
  Definition vis (tb : xtable) (k : K) (v : V) : Prop := cvis (chain_of tb (home tb k)) k v.

  (* the store that is about to happen at program counter p, as a map update of table tab *)
  Definition lin_effect (p : pc) (tab : nat) : option (K * option V) :=
    match p with
    | PW_U1 cx tab' _ _ nv => if Nat.eq_dec tab' tab then Some (cx_k cx, Some nv) else None
    | PW_I2 cx tab' _ nv => if Nat.eq_dec tab' tab then Some (cx_k cx, Some nv) else None
    | PW_N1 cx tab' nv => if Nat.eq_dec tab' tab then Some (cx_k cx, Some nv) else None
    | PW_D1 cx tab' _ _ => if Nat.eq_dec tab' tab then Some (cx_k cx, None) else None
    | _ => None
    end.

  Definition upd_rel (R : K -> V -> Prop) (e : option (K * option V)) (k : K) (v : V) : Prop :=
    match e with
    | Some (k0, Some nv) => (k = k0 /\ v = nv) \/ (k <> k0 /\ R k v)
    | Some (k0, None) => k <> k0 /\ R k v
    | None => R k v
    end.

  Lemma vis_same_cells s s' tab k v : same_cells s s' -> tab < length (g_tabs s) ->
    (vis (tab_at s' tab) k v <-> vis (tab_at s tab) k v).
  Proof.
    intros [_ H] Ht. destruct (H tab Ht) as [E1 E2]. unfold vis, XMachine.home, x_len, chain_of. rewrite E1, E2. tauto.
  Qed.

  Lemma vis_modify s tab b0 f t q k v : tab < length (g_tabs s) -> b0 < x_len (tab_at s tab) ->
    (vis (tab_at (set_pc (set_tab s tab (fun tb => set_chain tb b0 f)) t q) tab) k v
     <-> if Nat.eq_dec (hkey s tab k) b0 then cvis (f (chain s tab b0)) k v else vis (tab_at s tab) k v).
  Proof.
    intros Ht Hb. unfold vis.
    change (chain_of (tab_at (set_pc (set_tab s tab (fun tb => set_chain tb b0 f)) t q) tab)
                     (home (tab_at (set_pc (set_tab s tab (fun tb => set_chain tb b0 f)) t q) tab) k))
      with (chain (set_pc (set_tab s tab (fun tb => set_chain tb b0 f)) t q) tab
                  (hkey (set_pc (set_tab s tab (fun tb => set_chain tb b0 f)) t q) tab k)).
    rewrite (hkey_modify hash idx nslots nstripes minlen Hminlen Hnslots).
    destruct (Nat.eq_dec (hkey s tab k) b0) as [E|Hne].
    - rewrite E. rewrite (chain_modify nslots nstripes s tab b0 f t q Ht Hb). tauto.
    - unfold X_c04.chain. rewrite tab_at_set_pc, (tab_at_set_tab nslots nstripes s tab _ tab Ht).
      destruct (Nat.eq_dec tab tab); [|congruence]. rewrite chain_of_set_chain'.
      destruct (Nat.eq_dec (hkey s tab k) b0); [contradiction|]. tauto.
  Qed.

  Lemma vis_other_tab s tab0 f t q tab k v : tab0 < length (g_tabs s) -> tab <> tab0 ->
    (vis (tab_at (set_pc (set_tab s tab0 f) t q) tab) k v <-> vis (tab_at s tab) k v).
  Proof.
    intros Ht Hne. rewrite tab_at_set_pc, (tab_at_set_tab nslots nstripes s tab0 f tab Ht).
    destruct (Nat.eq_dec tab tab0); [contradiction|tauto].
  Qed.


  Lemma some_fst5 {A B} (g : A * B) a b : Some g = Some (a, b) -> a = fst g.
  Proof. intros H. inversion H. reflexivity. Qed.

  Ltac step_cases Hs :=
    cbn [XMachine.step_pc] in Hs; cbv zeta in Hs;
    repeat match type of Hs with
           | context [match ?x with _ => _ end] => destruct x eqn:?
           end;
    try discriminate; apply some_fst5 in Hs; subst; rewrite ?goto_state'; cbn [fst].

  Lemma same_cells_flags s c r m : same_cells s (set_flags s c r m).
  Proof. split; [cbn; lia | intros; split; reflexivity]. Qed.

  Lemma same_cells_app (s S0 : xstate) tb : g_tabs S0 = g_tabs s ++ [tb] -> same_cells s S0.
  Proof.
    intros E. split; [rewrite E, app_length; lia|]. intros tab Ht. unfold XMachine.tab_at. rewrite E, app_nth1 by exact Ht. auto.
  Qed.

  Ltac sc2 :=
    first [ apply (same_cells_refl nslots nstripes minlen Hminlen Hnslots)
          | apply (same_cells_set_tab nslots nstripes minlen Hminlen Hnslots); [tauto | intros; split; reflexivity]
          | apply same_cells_flags
          | eapply same_cells_app; cbn [g_tabs push_tab]; reflexivity
          | split; [cbn; lia | intros; split; reflexivity] ].

  Ltac lin_setup s t tab k v cx tab0 HI HT HC Hv Hf Hp Htab Hpub :=
    destruct (Nat.eq_dec tab0 tab) as [Heq|Hneq];
    [ subst tab0; cbn [lin_effect]; destruct (Nat.eq_dec tab tab) as [_|Hc]; [|exfalso; apply Hc; reflexivity]; cbn [upd_rel];
      assert (Hw : wtab (g_pc s t) = Some tab) by (rewrite Hp; reflexivity);
      assert (Hh : holds s (g_pc s t) = Some (tab, hkey s tab (cx_k cx))) by (rewrite Hp; reflexivity);
      assert (Hb : hkey s tab (cx_k cx) < x_len (tab_at s tab)) by (unfold X_c04.hkey, XMachine.home; apply Hidx; apply (xi_wf _ _ _ _ s HI tab Htab));
      assert (Hci : chain_inv s tab (hkey s tab (cx_k cx))) by (apply (xc_ch _ _ _ _ _ s HC tab _ Htab Hpub Hb));
      pose proof Hci as [Csh [Cun _]];
      cbn [X_c04.pcfact] in Hf; fold (hkey s tab (cx_k cx)) in Hf |- *; fold (chain s tab (hkey s tab (cx_k cx))) in Hf;
      rewrite (vis_modify s tab _ _ t _ k v Htab Hb);
      destruct (Nat.eq_dec (hkey s tab k) (hkey s tab (cx_k cx))) as [Ek|Ek];
      [ unfold vis; change (home (tab_at s tab) k) with (hkey s tab k); rewrite Ek; fold (chain s tab (hkey s tab (cx_k cx))) | ]
    | cbn [lin_effect]; destruct (Nat.eq_dec tab0 tab) as [Hc|_]; [exfalso; apply Hneq; exact Hc|]; cbn [upd_rel];
      apply vis_other_tab; [exact Hv | intros Hc; apply Hneq; symmetry; exact Hc] ].

  Theorem vis_step_pc s t p s' ls tab k v :
    XInv s -> XT s -> XC s -> g_pc s t = p -> step_pc s t p = Some (s', ls) ->
    tab < length (g_tabs s) -> (forall u, newtab (g_pc s u) <> Some tab) ->
    (vis (tab_at s' tab) k v <-> upd_rel (vis (tab_at s tab)) (lin_effect p tab) k v).
  Proof.
    intros HI HT HC Hp Hs Htab Hpub.
    pose proof (xi_valid _ _ _ _ s HI t) as Hv. pose proof (xc_pc _ _ _ _ _ s HC t) as Hf.
    rewrite Hp in Hv, Hf.
    destruct p; step_cases Hs; cbn [valid] in Hv;
      try change (set_pc s t PIdle) with (set_pc s t (norm (@PIdle K V)));
      try solve [ cbn [lin_effect upd_rel]; rewrite tab_at_set_pc; apply vis_same_cells; [sc2 | exact Htab] ].
    all: try match goal with Hp0 : g_pc _ _ = ?P |- _ =>
      match P with
      | PW_D1 ?cx ?tab0 _ _ => lin_setup s t tab k v cx tab0 HI HT HC Hv Hf Hp Htab Hpub
      | PW_D2 ?cx ?tab0 _ _ => lin_setup s t tab k v cx tab0 HI HT HC Hv Hf Hp Htab Hpub
      | PW_U1 ?cx ?tab0 _ _ _ => lin_setup s t tab k v cx tab0 HI HT HC Hv Hf Hp Htab Hpub
      | PW_I1 ?cx ?tab0 _ _ => lin_setup s t tab k v cx tab0 HI HT HC Hv Hf Hp Htab Hpub
      | PW_I2 ?cx ?tab0 _ _ => lin_setup s t tab k v cx tab0 HI HT HC Hv Hf Hp Htab Hpub
      | PW_N1 ?cx ?tab0 _ => lin_setup s t tab k v cx tab0 HI HT HC Hv Hf Hp Htab Hpub
      end end.
    (* keys of other chains *)
    all: try solve [ tauto ].
    all: try solve [ split; [intros H; split; [intros E; apply Ek; rewrite E; reflexivity | exact H] | intros [_ H]; exact H] ].
    all: try solve [ split; [intros H; right; split; [intros E; apply Ek; rewrite E; reflexivity | exact H]
                            | intros [[E _]|[_ H]]; [exfalso; apply Ek; rewrite E; reflexivity | exact H]] ].
    - (* D1 *) destruct Hf as [F1 [F2 F3]]. apply (cvis_clear_tag _ pos _ old F1 F2 Cun).
    - destruct Hf as [F1 [F2 F3]]. apply cvis_clear_ent; assumption.
    - destruct Hf as [F1 [F2 F3]]. apply cvis_clear_ent; assumption.
    - destruct Hf as [F1 [F2 F3]]. apply cvis_clear_ent; assumption.
    - destruct Hf as [F1 [F2 F3]]. apply cvis_store_ent; [exact F1 | exact F3 | | ].
      + intros p w Hp' Hne E. apply Hne. apply (Cun p pos _ w old Hp' F1 E F2).
      + intros k' v' E. rewrite F2 in E. inversion E. reflexivity.
    - destruct Hf as [F1 [F2 F3]]. apply cvis_store_ent; [exact F1 | exact F3 | | ].
      + intros p w Hp' Hne E. apply Hne. apply (Cun p pos _ w old Hp' F1 E F2).
      + intros k' v' E. rewrite F2 in E. inversion E. reflexivity.
    - (* I1 *) destruct Hf as [F1 [F2 [F3 F4]]]. apply cvis_set_tag; assumption.
    - (* I2 *) destruct Hf as [F1 [F2 [F3 F4]]]. apply cvis_store_ent; [exact F1 | rewrite F3; discriminate | | ].
      + intros p w Hp' Hne E. apply F4. exists p, w. auto.
      + intros k' v' E. rewrite F2 in E. discriminate.
    - (* N1 *) apply cvis_append; first [exact Hnslots | exact Hf].
    - (* the resize copy goes into the unpublished table *)
      destruct Hv as [Hv1 [Hv2 [Hv3 Hv4]]]. cbn [lin_effect upd_rel norm].
      assert (Hne : tab <> new) by (intros ->; apply (Hpub t); rewrite Hp; reflexivity).
      rewrite tab_at_set_pc.
      rewrite (tab_at_set_tab nslots nstripes _ new _ tab) by (unfold set_tab; cbn [g_tabs]; rewrite upd_nth_length; exact Hv2).
      destruct (Nat.eq_dec tab new); [contradiction|].
      rewrite (tab_at_set_tab nslots nstripes s tab0 _ tab Hv1). destruct (Nat.eq_dec tab tab0) as [->|]; [|tauto].
      unfold vis. tauto.
  Qed.


  Theorem vis_xstep s t s' ls tab k v :
    XInv s -> XT s -> XC s -> xstep s t = Some (s', ls) ->
    tab < length (g_tabs s) -> (forall u, newtab (g_pc s u) <> Some tab) ->
    (vis (tab_at s' tab) k v <-> upd_rel (vis (tab_at s tab)) (lin_effect (g_pc s t) tab) k v).
  Proof.
    intros HI HT HC Hs Htab Hpub. unfold XMachine.xstep in Hs.
    destruct (g_pc s t) eqn:Hp; try (eapply vis_step_pc; [exact HI | exact HT | exact HC | exact Hp | exact Hs | exact Htab | exact Hpub]).
    (* invocation: the first primitive of every call is a load *)
    cbn [lin_effect upd_rel]. destruct (g_todo s t) as [|o rest]; [discriminate|].
    destruct o; cbn [start_pc XMachine.step_pc] in Hs; try (destruct lie; cbn [XMachine.step_pc] in Hs);
      cbv zeta in Hs; try (destruct (Nat.ltb _ _)); inversion Hs; subst; clear Hs;
      unfold XMachine.goto; cbn [fst]; rewrite ?tab_at_set_pc; unfold XMachine.tab_at; cbn [g_tabs]; tauto.
  Qed.

  (* a key has at most one visible value in a published table *)
  Theorem vis_functional s tab k v1 v2 : XInv s -> XC s ->
    tab < length (g_tabs s) -> (forall u, newtab (g_pc s u) <> Some tab) ->
    vis (tab_at s tab) k v1 -> vis (tab_at s tab) k v2 -> v1 = v2.
  Proof.
    intros HI HC Htab Hpub [p1 [L1 [_ E1]]] [p2 [L2 [_ E2]]].
    assert (Hb : home (tab_at s tab) k < x_len (tab_at s tab)) by (unfold XMachine.home; apply Hidx; apply (xi_wf _ _ _ _ s HI tab Htab)).
    destruct (xc_ch _ _ _ _ _ s HC tab _ Htab Hpub Hb) as [_ [Hu _]].
    assert (p1 = p2) by (eapply Hu; eassumption). subst. rewrite E1 in E2. inversion E2. reflexivity.
  Qed.


  (* what a writer remembers of its locked search is what readers see at the moment of its
     linearization store: the old value it will report (update, delete) is the visible one, and an
     insert happens only when the key is not visible *)
  Theorem writer_sees_vis s t : XC s ->
    match g_pc s t with
    | PW_U1 cx tab _ old _ | PW_D1 cx tab _ old => vis (tab_at s tab) (cx_k cx) old
    | PW_I1 cx tab _ _ | PW_I2 cx tab _ _ | PW_N1 cx tab _ | PW_Sum cx tab _ _ => forall v, ~ vis (tab_at s tab) (cx_k cx) v
    | _ => True
    end.
  Proof.
    intros HC. pose proof (xc_pc _ _ _ _ _ s HC t) as Hf.
    destruct (g_pc s t); try exact I; cbn [X_c04.pcfact] in Hf; unfold vis;
      change (home (tab_at s tab) (cx_k cx)) with (hkey s tab (cx_k cx));
      change (chain_of (tab_at s tab) (hkey s tab (cx_k cx))) with (chain s tab (hkey s tab (cx_k cx))).
    - (* D1 *) destruct Hf as [F1 [F2 F3]]. exists pos. auto.
    - (* U1 *) destruct Hf as [F1 [F2 F3]]. exists pos. auto.
    - (* I1 *) destruct Hf as [_ [_ [_ F4]]]. intros v [p [Hp [_ He]]]. apply F4. exists p, v. auto.
    - (* I2 *) destruct Hf as [_ [_ [_ F4]]]. intros v [p [Hp [_ He]]]. apply F4. exists p, v. auto.
    - (* Sum *) intros v [p0 [Hp [_ He]]]. apply Hf. exists p0, v. auto.
    - (* N1 *) intros v [p [Hp [_ He]]]. apply Hf. exists p, v. auto.
  Qed.

End Lin.

(* ---------------- the statements of props/C04.v ---------------- *)

Definition xhyps4 (idx : N -> nat -> nat) (nstripes : nat -> nat) (minlen nslots : nat) (probe : list (option N) -> N -> list nat) : Prop :=
  xhyps idx nstripes minlen /\ 0 < nslots
  /\ (forall tags tg i, In i (probe tags tg) -> i < length tags /\ nth i tags None <> None)
  /\ (forall tags tg i, i < length tags -> nth i tags None = Some tg -> In i (probe tags tg)).

Section Final.
  Context {K V : Type}.
  Variable eqd : forall a b : K, {a = b} + {a <> b}.
  Variable hash : K -> N -> N.
  Variable idx : N -> nat -> nat.
  Variable tag : N -> N.
  Variable nslots : nat.
  Variable seeds : nat -> N.
  Variable grow_needed shrink_policy : nat -> Z -> bool.
  Variable probe : list (option N) -> N -> list nat.
  Variable nstripes : nat -> nat.
  Variable minlen : nat.
  Variable grow_only : bool.

  Notation xrun := (@xrun K V eqd hash idx tag nslots seeds grow_needed shrink_policy probe nstripes minlen grow_only).
  Notation xstep := (@xstep K V eqd hash idx tag nslots seeds grow_needed shrink_policy probe nstripes minlen grow_only).
  Notation tab_at := (@tab_at K V nslots nstripes).
  Notation vis := (@vis K V hash idx).

  Lemma cells_proof :
    xhyps4 idx nstripes minlen nslots probe -> forall len0 todo sched, 0 < len0 ->
    X_c04.XC hash idx tag nslots nstripes (fst (xrun (xinit nslots seeds nstripes len0 todo) sched)).
  Proof.
    intros [[H1 [H2 H3]] [H4 [H5 H6]]] len0 todo sched Hl.
    apply (reachable_inv4 eqd hash idx tag nslots seeds grow_needed shrink_policy probe nstripes minlen grow_only H1 H2 H3 H4 H5 H6 len0 todo sched Hl).
  Qed.

  Lemma vis_step_proof :
    xhyps4 idx nstripes minlen nslots probe -> forall len0 todo sched t s' ls tab k v, 0 < len0 ->
    let s := fst (xrun (xinit nslots seeds nstripes len0 todo) sched) in
    xstep s t = Some (s', ls) ->
    tab < length (g_tabs s) -> (forall u, newtab (g_pc s u) <> Some tab) ->
    (vis (tab_at s' tab) k v <-> upd_rel (vis (tab_at s tab)) (lin_effect (g_pc s t) tab) k v).
  Proof.
    intros [[H1 [H2 H3]] [H4 [H5 H6]]] len0 todo sched t s' ls tab k v Hl s E Htab Hpub.
    destruct (reachable_inv4 eqd hash idx tag nslots seeds grow_needed shrink_policy probe nstripes minlen grow_only H1 H2 H3 H4 H5 H6 len0 todo sched Hl)
      as [HI [_ [HT HC]]].
    eapply (vis_xstep eqd hash idx tag nslots seeds grow_needed shrink_policy probe nstripes minlen grow_only); eassumption.
  Qed.

  Lemma writer_sees_vis_proof :
    xhyps4 idx nstripes minlen nslots probe -> forall len0 todo sched t, 0 < len0 ->
    let s := fst (xrun (xinit nslots seeds nstripes len0 todo) sched) in
    match g_pc s t with
    | PW_U1 cx tab _ old _ | PW_D1 cx tab _ old => vis (tab_at s tab) (cx_k cx) old
    | PW_I1 cx tab _ _ | PW_I2 cx tab _ _ | PW_N1 cx tab _ | PW_Sum cx tab _ _ => forall v, ~ vis (tab_at s tab) (cx_k cx) v
    | _ => True
    end.
  Proof.
    intros [[H1 [H2 H3]] [H4 [H5 H6]]] len0 todo sched t Hl s.
    destruct (reachable_inv4 eqd hash idx tag nslots seeds grow_needed shrink_policy probe nstripes minlen grow_only H1 H2 H3 H4 H5 H6 len0 todo sched Hl)
      as [HI [_ [HT HC]]].
    apply (writer_sees_vis hash idx tag nslots nstripes s t HC).
  Qed.

  Lemma vis_functional_proof :
    xhyps4 idx nstripes minlen nslots probe -> forall len0 todo sched tab k v1 v2, 0 < len0 ->
    let s := fst (xrun (xinit nslots seeds nstripes len0 todo) sched) in
    tab < length (g_tabs s) -> (forall u, newtab (g_pc s u) <> Some tab) ->
    vis (tab_at s tab) k v1 -> vis (tab_at s tab) k v2 -> v1 = v2.
  Proof.
    intros [[H1 [H2 H3]] [H4 [H5 H6]]] len0 todo sched tab k v1 v2 Hl s Htab Hpub.
    destruct (reachable_inv4 eqd hash idx tag nslots seeds grow_needed shrink_policy probe nstripes minlen grow_only H1 H2 H3 H4 H5 H6 len0 todo sched Hl)
      as [HI [_ [HT HC]]].
    eapply vis_functional; eassumption.
  Qed.
End Final.
