(* C02_lin.v -- every run of the concurrent cache machine, under every schedule
   and every choice of what Range snapshots return, is linearizable with respect
   to SpecTTL; along the way every thread's callbacks match the entries its own
   map steps removed (C06) and its user-function invocations are as C05 says. *)
From CacheV Require Import Base SpecMap Client CacheModel Ops SpecTTL Lin Conc.
From CacheV.gen Require Import Params.
From CacheV.proofs Require Import C01_sim C01_ops C02_good C02_methods.

Section LinProof.
  Context {K V : Type}.
  Variable eqd : forall a b : K, {a = b} + {a <> b}.
  Variable zero : V.
  Variables NOW DFLT : Z.
  Variable CB : cbid.

  Notation item := (item V).
  Notation cop := (cop K V).
  Notation cres := (cres K V).
  Notation good := (good eqd zero NOW DFLT CB).
  Notation mk := (mk NOW DFLT CB).
  Notation Rm := (Rm eqd NOW DFLT CB).
  Notation progs := (prog_cache eqd zero).
  Notation cconf := (@cconf K V).
  Notation cstep := (cstep eqd progs NOW DFLT CB).
  Notation crun := (crun eqd progs NOW DFLT CB).
  Notation label := (@label K V).

  (* the sequential specification as a transition relation *)
  Definition tspec (s : cstate K V) (o : cop) (r : cres) (s' : cstate K V) : Prop :=
    spec_ok eqd zero s o r /\ s' = spec_next eqd zero s o.

  (* ---------------- the per-thread monitor of C06 / C05 ---------------- *)

  (* what a thread is in the middle of, what it still owes its callback, how
     often it has invoked the user function in the current call *)
  Record mon := { m_op : option cop; m_owe : list (K * V); m_nfn : nat }.
  Definition mon_idle : mon := {| m_op := None; m_owe := []; m_nfn := 0 |}.

  Definition veq_kv (a b : K * V) : Prop := a = b.

  (* None = the trace violates C06 / C05 at this label *)
  Definition mon_step (t : nat) (m : option mon) (l : label) : option mon -> Prop :=
    fun m' =>
    match m with
    | None => m' = None
    | Some m =>
      match l with
      | LInv t' o => if Nat.eq_dec t' t then m' = Some {| m_op := Some o; m_owe := []; m_nfn := 0 |} else m' = Some m
      | LGone t' k v =>
          if Nat.eq_dec t' t then
            match m_op m with
            | Some o => m' = Some {| m_op := Some o; m_owe := (if is_remover o && has_cb CB then m_owe m ++ [(k, v)] else m_owe m);
                                     m_nfn := m_nfn m |}
            | None => m' = None
            end
          else m' = Some m
      | LEv t' (EFire c k v) =>
          if Nat.eq_dec t' t then
            (* a callback: the one in force, for the oldest entry this call removed and has not reported yet *)
            (exists rest, CB = Some c /\ m_owe m = (k, v) :: rest
                          /\ m' = Some {| m_op := m_op m; m_owe := rest; m_nfn := m_nfn m |})
            \/ ((forall rest, ~ (CB = Some c /\ m_owe m = (k, v) :: rest)) /\ m' = None)
          else m' = Some m
      | LEv t' (EFn _) =>
          if Nat.eq_dec t' t then m' = Some {| m_op := m_op m; m_owe := m_owe m; m_nfn := S (m_nfn m) |} else m' = Some m
      | LEv _ (EVisit _ _) => m' = Some m
      | LRes t' r =>
          if Nat.eq_dec t' t then
            match m_op m with
            | Some o => (m_owe m = [] /\ fn_ok o r (m_nfn m) /\ m' = Some mon_idle)
                        \/ (~ (m_owe m = [] /\ fn_ok o r (m_nfn m)) /\ m' = None)
            | None => m' = None
            end
          else m' = Some m
      | LTau _ => m' = Some m
      end
    end.

  Inductive mon_run (t : nat) : option mon -> list label -> option mon -> Prop :=
  | mr_nil m : mon_run t m [] m
  | mr_cons m l m1 ls m2 : mon_step t m l m1 -> mon_run t m1 ls m2 -> mon_run t m (l :: ls) m2.

  (* the trace never violates: whatever the monitor can reach is a Some *)
  Definition mon_accepts (t : nat) (m : mon) (ls : list label) : Prop :=
    forall m', mon_run t (Some m) ls m' -> m' <> None.

  (* ---------------- the invariant ---------------- *)

  Definition gh_t := (list (K * V) * nat)%type.

  Definition thr_ok (ts : tstate) (st : tstat cop cres) (g : gh_t) : Prop :=
    match ts with
    | Idle => st = TIdle
    | Running o p =>
        conc_ok o /\
        ((st = TInvoked o /\ good o None (fst g) (snd g) p)
         \/ (exists r, st = TLinearized o r /\ good o (Some r) (fst g) (snd g) p))
    end.

  Definition mon_of (ts : tstate) (g : gh_t) : mon :=
    match ts with
    | Idle => mon_idle
    | Running o _ => {| m_op := Some o; m_owe := fst g; m_nfn := snd g |}
    end.

  Record Inv (s : cconf) (ist : nat -> tstat cop cres) (L : amap K item) (gh : nat -> gh_t) : Prop := {
    inv_R : Rm (c_map s) L;
    inv_thr : forall t, thr_ok (c_thr s t) (ist t) (gh t);
    inv_todo : forall t, Forall conc_ok (c_todo s t);
  }.

  Lemma upd_same {X} (f : nat -> X) t x : upd f t x t = x.
  Proof. unfold upd. destruct (Nat.eq_dec t t); congruence. Qed.
  Lemma upd_other {X} (f : nat -> X) t x t' : t' <> t -> upd f t x t' = f t'.
  Proof. unfold upd. destruct (Nat.eq_dec t' t); congruence. Qed.

  Lemma Inv_set s ist L gh t m' ts st g L' todo' :
    Inv s ist L gh -> Rm m' L' -> thr_ok ts st g ->
    (forall t', Forall conc_ok (todo' t')) ->
    Inv {| c_map := m'; c_thr := upd (c_thr s) t ts; c_todo := todo' |} (upd ist t st) L' (upd gh t g).
  Proof.
    intros HI HR Ht Htodo. constructor; cbn.
    - exact HR.
    - intros t'. unfold upd. destruct (Nat.eq_dec t' t); [exact Ht | apply (inv_thr _ _ _ _ HI)].
    - exact Htodo.
  Qed.

  Lemma history_app (a b : list label) : history (a ++ b) = history a ++ history b.
  Proof. induction a as [|[] a IH]; cbn; auto; f_equal; auto. Qed.

  (* labels of thread t do not move another thread's monitor *)
  Definition labels_of (t : nat) (ls : list label) : Prop :=
    Forall (fun l => match l with
                     | LInv t' _ | LRes t' _ | LEv t' _ | LGone t' _ _ | LTau t' => t' = t
                     end) ls.

  Lemma mon_other t t' m ls m' : t' <> t -> labels_of t ls -> mon_run t' (Some m) ls m' -> m' = Some m.
  Proof.
    intros Hne Hl. revert m'. induction ls as [|l ls IH]; intros m' Hr; inversion Hr; subst; auto.
    inversion Hl as [|? ? Hl1 Hl2]; subst.
    assert (m1 = Some m).
    { destruct l as [t0 o|t0 r|t0 e|t0 k v|t0]; subst t0; cbn in H2.
      - destruct (Nat.eq_dec t t'); [congruence|auto].
      - destruct (Nat.eq_dec t t'); [congruence|auto].
      - destruct e; try (destruct (Nat.eq_dec t t'); [congruence|auto]); auto.
      - destruct (Nat.eq_dec t t'); [congruence|auto].
      - auto. }
    subst m1. apply IH; auto.
  Qed.

  Definition step_labels (t : nat) (evs : list (event K V)) (g : list (K * V)) : list label :=
    map (LEv t) evs ++ map (fun kv => LGone t (fst kv) (snd kv)) g ++ [LTau t].

  Lemma step_labels_history t evs g : history (step_labels t evs g) = [].
  Proof. unfold step_labels. induction evs; cbn; auto. induction g; cbn; auto. Qed.

  Lemma step_labels_of t evs g : labels_of t (step_labels t evs g).
  Proof.
    unfold step_labels, labels_of. apply Forall_app. split.
    - apply Forall_forall. intros x Hx. apply in_map_iff in Hx. destruct Hx as [? [<- _]]. reflexivity.
    - apply Forall_app. split; [|repeat constructor].
      apply Forall_forall. intros x Hx. apply in_map_iff in Hx. destruct Hx as [? [<- _]]. reflexivity.
  Qed.

  Lemma mon_run_single t m l m' : mon_run t m [l] m' -> mon_step t m l m'.
  Proof.
    intros H. inversion H as [|? ? mx ? ? Hs Hr]; subst. inversion Hr; subst. exact Hs.
  Qed.

  Lemma mon_run_app t m a b m' : mon_run t m (a ++ b) m' -> exists mx, mon_run t m a mx /\ mon_run t mx b m'.
  Proof.
    revert m. induction a as [|l a IH]; intros m H; cbn in H.
    - exists m. split; [constructor | exact H].
    - inversion H as [|? ? m1 ? ? Hs Hr]; subst. destruct (IH _ Hr) as [mx [H1 H2]].
      exists mx. split; [econstructor; eauto | exact H2].
  Qed.

  Lemma mon_fns t o owe nfn k n mm :
    mon_run t (Some {| m_op := Some o; m_owe := owe; m_nfn := nfn |}) (map (LEv t) (repeat (EFn k) n)) mm ->
    mm = Some {| m_op := Some o; m_owe := owe; m_nfn := (nfn + n)%nat |}.
  Proof.
    revert nfn. induction n as [|n IH]; intros nfn Hr; cbn in Hr.
    - inversion Hr; subst. rewrite Nat.add_0_r. reflexivity.
    - inversion Hr as [|? ? m1 ? ? Hs Hr']; subst. cbn in Hs. destruct (Nat.eq_dec t t); [|congruence]. subst m1.
      cbn in Hr'. rewrite (IH _ Hr'). f_equal. f_equal. lia.
  Qed.

  Lemma mon_gones t o owe nfn (g : list (K * V)) mm :
    mon_run t (Some {| m_op := Some o; m_owe := owe; m_nfn := nfn |})
            (map (fun kv => LGone t (fst kv) (snd kv)) g) mm ->
    mm = Some {| m_op := Some o; m_owe := (if is_remover o && has_cb CB then owe ++ g else owe); m_nfn := nfn |}.
  Proof.
    revert owe. induction g as [|[k v] g IH]; intros owe Hr; cbn in Hr.
    - inversion Hr; subst. destruct (is_remover o && has_cb CB); rewrite ?app_nil_r; reflexivity.
    - inversion Hr as [|? ? m1 ? ? Hs Hr']; subst. cbn in Hs. destruct (Nat.eq_dec t t); [|congruence]. subst m1.
      cbn [m_op m_owe m_nfn] in Hr'. rewrite (IH _ Hr').
      destruct (is_remover o && has_cb CB); [rewrite <- app_assoc|]; reflexivity.
  Qed.

  Lemma fn_events_shape (mo : cmop K V) (r : imres K V) :
    fn_events mo r = [] \/ exists k n, fn_events mo r = repeat (EFn k) n.
  Proof.
    destruct mo; cbn; auto. destruct r as [|v ok [a|]| |]; auto. right. exists k, (a_fn a). reflexivity.
  Qed.

  Lemma mon_step_labels t o owe nfn (mo : cmop K V) (r : imres K V) (g : list (K * V)) mm :
    mon_run t (Some {| m_op := Some o; m_owe := owe; m_nfn := nfn |}) (step_labels t (fn_events mo r) g) mm ->
    mm = Some {| m_op := Some o; m_owe := (if is_remover o && has_cb CB then owe ++ g else owe);
                 m_nfn := (nfn + length (fn_events mo r))%nat |}.
  Proof.
    unfold step_labels. intros Hr.
    apply mon_run_app in Hr. destruct Hr as [m1 [H1 H2]].
    apply mon_run_app in H2. destruct H2 as [m2 [H2 H3]].
    assert (E1 : m1 = Some {| m_op := Some o; m_owe := owe; m_nfn := (nfn + length (fn_events mo r))%nat |}).
    { destruct (fn_events_shape mo r) as [E|[k [n E]]]; rewrite E in *.
      - cbn in H1. inversion H1; subst. cbn. rewrite Nat.add_0_r. reflexivity.
      - rewrite (mon_fns _ _ _ _ _ _ _ H1). rewrite repeat_length. reflexivity. }
    subst m1. rewrite (mon_gones _ _ _ _ _ _ H2) in H3.
    apply mon_run_single in H3. cbn in H3. exact H3.
  Qed.

  (* one step: what it does to the instrumented history, to the invariant and to the monitors *)
  Lemma step_inv s ist L gh t orc s1 ls1 :
    Inv s ist L gh -> cstep s t orc = Some (s1, ls1) ->
    exists ist1 L1 g1 marks,
      Inv s1 ist1 L1 (upd gh t g1)
      /\ erase _ _ marks = history ls1
      /\ (forall i, wf_inst _ _ ist1 i -> wf_inst _ _ ist (marks ++ i))
      /\ (forall i, legal _ _ _ tspec (mk L1) i -> legal _ _ _ tspec (mk L) (marks ++ i))
      /\ labels_of t ls1
      /\ (forall m', mon_run t (Some (mon_of (c_thr s t) (gh t))) ls1 m' -> m' = Some (mon_of (c_thr s1 t) g1)).
  Proof.
    intros HI Hstep.
    pose proof (inv_thr _ _ _ _ HI t) as Ht. pose proof (inv_R _ _ _ _ HI) as HR.
    unfold Conc.cstep in Hstep.
    destruct (c_thr s t) as [|o p] eqn:Ethr.
    - (* invocation *)
      destruct (c_todo s t) as [|o rest_ops] eqn:Etodo; [discriminate|].
      injection Hstep as <- <-. cbn in Ht.
      assert (Hco : conc_ok o /\ Forall conc_ok rest_ops).
      { pose proof (inv_todo _ _ _ _ HI t) as Hf. rewrite Etodo in Hf. inversion Hf; auto. }
      destruct Hco as [Hco Hrest].
      exists (upd ist t (TInvoked o)), L, ([], 0%nat), [IInv t o].
      split; [|split; [reflexivity|split; [|split; [|split]]]].
      + eapply Inv_set; [exact HI | exact HR | |].
        * cbn. split; [exact Hco|]. left. split; [reflexivity|]. apply good_init. exact Hco.
        * intros t'. unfold upd. destruct (Nat.eq_dec t' t); [exact Hrest | apply (inv_todo _ _ _ _ HI)].
      + intros i Hw. cbn. apply wf_inv; assumption.
      + intros i Hl. cbn. apply legal_inv; assumption.
      + repeat constructor.
      + intros m' Hr. apply mon_run_single in Hr. cbn in Hr. destruct (Nat.eq_dec t t); [|congruence].
        subst m'. cbn [c_thr]. rewrite upd_same. reflexivity.
    - (* a step of a running call *)
      cbn in Ht. destruct Ht as [Hco Hg]. destruct (gh t) as [owe nfn] eqn:Egh. cbn [fst snd] in Hg.
      destruct p as [r|mo k|k|k|d k|k|c k|e k].
      + (* Ret *)
        injection Hstep as <- <-.
        assert (Hst : ist t = TLinearized o r /\ owe = [] /\ fn_ok o r nfn).
        { destruct Hg as [[_ Hg]|[r' [Hst Hg]]]; cbn in Hg; destruct Hg as [Hl [Ho Hf]]; [discriminate | inversion Hl; subst; auto]. }
        destruct Hst as [Hst [Ho Hf]].
        exists (upd ist t TIdle), L, ([], 0%nat), [IRes t r].
        split; [|split; [reflexivity|split; [|split; [|split]]]].
        * unfold set_thr. eapply Inv_set; [exact HI | exact HR | cbn; reflexivity | apply (inv_todo _ _ _ _ HI)].
        * intros i Hw. cbn. eapply wf_res; eassumption.
        * intros i Hl. cbn. apply legal_res; assumption.
        * repeat constructor.
        * intros m' Hr. apply mon_run_single in Hr. cbn in Hr. destruct (Nat.eq_dec t t); [|congruence].
          destruct Hr as [[_ [_ ->]]|[Hn _]]; [|exfalso; apply Hn; subst; auto].
          cbn [c_thr set_thr]. rewrite upd_same. reflexivity.
      + (* a map call *)
        assert (Hcases :
          exists m' k' g1, s1 = {| c_map := m'; c_thr := upd (c_thr s) t (Running o k'); c_todo := c_todo s |}
            /\ history ls1 = [] /\ labels_of t ls1
            /\ (forall mm, mon_run t (Some {| m_op := Some o; m_owe := owe; m_nfn := nfn |}) ls1 mm ->
                  mm = Some {| m_op := Some o; m_owe := fst g1; m_nfn := snd g1 |})
            /\ ((Rm m' L /\ ((ist t = TInvoked o /\ good o None (fst g1) (snd g1) k')
                             \/ (exists r, ist t = TLinearized o r /\ good o (Some r) (fst g1) (snd g1) k')))
                \/ (ist t = TInvoked o /\ exists res,
                      spec_ok eqd zero (mk L) o res /\ Rm m' (st_map (spec_next eqd zero (mk L) o))
                      /\ good o (Some res) (fst g1) (snd g1) k'))).
        { destruct mo.
          8:{ (* the snapshot *)
              cbn [good] in Hg. injection Hstep as <- <-.
              exists (c_map s), (k (RSnap orc)), (owe, nfn). unfold set_thr.
              split; [reflexivity|]. split; [reflexivity|]. split; [repeat constructor|].
              split. { intros mm Hr. apply mon_run_single in Hr. cbn in Hr. subst. reflexivity. }
              cbn [fst snd].
              destruct Hg as [[Hst Hg]|[r [Hst Hg]]]; specialize (Hg _ _ HR orc); cbn [call_ok] in Hg.
              - destruct Hg as [[HR' Hg]|[res [Hok [HR' Hg]]]].
                + left. split; [exact HR'|]. left. auto.
                + right. split; [exact Hst|]. eauto.
              - destruct Hg as [HR' Hg]. left. split; [exact HR'|]. right. exists r. auto. }
          all: cbn [good] in Hg;
               destruct Hg as [[Hst Hg]|[r [Hst Hg]]]; specialize (Hg _ _ HR);
               revert Hstep Hg;
               match goal with |- context [map_step eqd ?m ?op] => destruct (map_step eqd m op) as [m' r'] eqn:Ems end;
               intros Hstep Hg; injection Hstep as <- <-;
               match type of Ems with map_step _ _ (to_mop _ ?MO) = _ =>
                 exists m', (k r'), (track eqd CB o (c_map s) m' owe, (nfn + length (fn_events MO r'))%nat) end;
               (split; [reflexivity|]);
               match type of Ems with map_step _ _ (to_mop _ ?MO) = _ =>
                 (split; [exact (step_labels_history t (fn_events MO r') (gone eqd (c_map s) m'))|]);
                 (split; [exact (step_labels_of t (fn_events MO r') (gone eqd (c_map s) m'))|]);
                 (split; [intros mm Hmm; exact (mon_step_labels t o owe nfn MO r' (gone eqd (c_map s) m') mm Hmm)|])
               end.
          all: cbn [fst snd]; cbn [call_ok] in Hg.
          all: first
            [ (* not yet linearized *)
              destruct Hg as [[HR' Hg]|[res [Hok [HR' Hg]]]];
              [ left; split; [exact HR'|]; left; split; [exact Hst | exact Hg]
              | right; split; [exact Hst|]; exists res; auto ]
            | (* already linearized *)
              destruct Hg as [HR' Hg]; left; split; [exact HR'|]; right; exists r; split; [exact Hst | exact Hg] ]. }
        destruct Hcases as [m' [k' [g1 [-> [Hh [Hlab [Hmon Hc]]]]]]].
        destruct Hc as [[HR' Hc]|[Hst [res [Hok [HR' Hg']]]]].
        * (* no linearization point at this step *)
          exists ist, L, g1, []. split; [|split; [symmetry; exact Hh|split; [auto|split; [auto|split; [exact Hlab|]]]]].
          -- assert (E : ist = upd ist t (ist t) \/ True) by (right; exact I). clear E.
             constructor; cbn.
             ++ exact HR'.
             ++ intros t'. unfold upd. destruct (Nat.eq_dec t' t) as [->|]; [|apply (inv_thr _ _ _ _ HI)].
                cbn. split; [exact Hco|]. destruct Hc as [[Hst Hg']|[r [Hst Hg']]]; [left|right]; eauto.
             ++ apply (inv_todo _ _ _ _ HI).
          -- intros mm Hr. cbn [mon_of] in Hr. rewrite (Hmon _ Hr). cbn [c_thr]. rewrite upd_same. reflexivity.
        * (* the linearization point *)
          exists (upd ist t (TLinearized o res)), (st_map (spec_next eqd zero (mk L) o)), g1, [ILin t o res].
          split; [|split; [cbn; symmetry; exact Hh|split; [|split; [|split; [exact Hlab|]]]]].
          -- eapply Inv_set; [exact HI | exact HR' | | apply (inv_todo _ _ _ _ HI)].
             cbn. split; [exact Hco|]. right. exists res. auto.
          -- intros i Hw. cbn. apply wf_lin; assumption.
          -- intros i Hl. cbn. eapply legal_lin; [|exact Hl]. split; [exact Hok|]. symmetry. apply spec_next_mk. exact Hco.
          -- intros mm Hr. cbn [mon_of] in Hr. rewrite (Hmon _ Hr). cbn [c_thr]. rewrite upd_same. reflexivity.
      + (* ReadNow *)
        injection Hstep as <- <-. exists ist, L, (owe, nfn), [].
        split; [|split; [reflexivity|split; [auto|split; [auto|split; [repeat constructor|]]]]].
        * unfold set_thr. constructor; cbn; [exact HR | | apply (inv_todo _ _ _ _ HI)].
          intros t'. unfold upd. destruct (Nat.eq_dec t' t) as [->|]; [|apply (inv_thr _ _ _ _ HI)].
          cbn. split; [exact Hco|]. exact Hg.
        * intros mm Hr. apply mon_run_single in Hr. cbn in Hr. subst mm. cbn [c_thr set_thr]. rewrite upd_same. reflexivity.
      + (* ReadDflt *)
        injection Hstep as <- <-. exists ist, L, (owe, nfn), [].
        split; [|split; [reflexivity|split; [auto|split; [auto|split; [repeat constructor|]]]]].
        * unfold set_thr. constructor; cbn; [exact HR | | apply (inv_todo _ _ _ _ HI)].
          intros t'. unfold upd. destruct (Nat.eq_dec t' t) as [->|]; [|apply (inv_thr _ _ _ _ HI)].
          cbn. split; [exact Hco|]. exact Hg.
        * intros mm Hr. apply mon_run_single in Hr. cbn in Hr. subst mm. cbn [c_thr set_thr]. rewrite upd_same. reflexivity.
      + discriminate.
      + (* ReadCb *)
        injection Hstep as <- <-. exists ist, L, (owe, nfn), [].
        split; [|split; [reflexivity|split; [auto|split; [auto|split; [repeat constructor|]]]]].
        * unfold set_thr. constructor; cbn; [exact HR | | apply (inv_todo _ _ _ _ HI)].
          intros t'. unfold upd. destruct (Nat.eq_dec t' t) as [->|]; [|apply (inv_thr _ _ _ _ HI)].
          cbn. split; [exact Hco|]. exact Hg.
        * intros mm Hr. apply mon_run_single in Hr. cbn in Hr. subst mm. cbn [c_thr set_thr]. rewrite upd_same. reflexivity.
      + discriminate.
      + (* Emit *)
        injection Hstep as <- <-.
        destruct e as [c k0 v|k0|k0 v].
        * (* a callback: the thread owes it *)
          assert (Hx : exists owe', CB = Some c /\ owe = (k0, v) :: owe'
                       /\ ((ist t = TInvoked o /\ good o None owe' nfn k)
                           \/ (exists r, ist t = TLinearized o r /\ good o (Some r) owe' nfn k))).
          { destruct Hg as [[Hst Hg]|[r [Hst Hg]]]; cbn [good] in Hg; destruct Hg as [owe' [Hcb [Ho Hg]]]; exists owe'; eauto 8. }
          destruct Hx as [owe' [Hcb [Ho Hg']]].
          exists ist, L, (owe', nfn), [].
          split; [|split; [reflexivity|split; [auto|split; [auto|split; [repeat constructor|]]]]].
          -- unfold set_thr. constructor; cbn; [exact HR | | apply (inv_todo _ _ _ _ HI)].
             intros t'. unfold upd. destruct (Nat.eq_dec t' t) as [->|]; [|apply (inv_thr _ _ _ _ HI)].
             cbn. split; [exact Hco|]. exact Hg'.
          -- intros mm Hr. apply mon_run_single in Hr. cbn in Hr. destruct (Nat.eq_dec t t); [|congruence].
             destruct Hr as [[rest [_ [Hr1 ->]]]|[Hn _]].
             ++ cbn [m_owe] in Hr1. rewrite Ho in Hr1. inversion Hr1; subst. cbn [c_thr set_thr]. rewrite upd_same. reflexivity.
             ++ exfalso. apply (Hn owe'). cbn. auto.
        * (* the user function is reported by the map call itself; no method body emits it *)
          exfalso. destruct Hg as [[Hst Hg]|[r [Hst Hg]]]; cbn [good] in Hg; exact Hg.
        * (* a visit *)
          exists ist, L, (owe, nfn), [].
          split; [|split; [reflexivity|split; [auto|split; [auto|split; [repeat constructor|]]]]].
          -- unfold set_thr. constructor; cbn; [exact HR | | apply (inv_todo _ _ _ _ HI)].
             intros t'. unfold upd. destruct (Nat.eq_dec t' t) as [->|]; [|apply (inv_thr _ _ _ _ HI)].
             cbn. split; [exact Hco|]. exact Hg.
          -- intros mm Hr. apply mon_run_single in Hr. cbn in Hr. subst mm. cbn [c_thr set_thr]. rewrite upd_same. reflexivity.
  Qed.

  Lemma cstep_other s t orc s1 ls1 t' : cstep s t orc = Some (s1, ls1) -> t' <> t -> c_thr s1 t' = c_thr s t'.
  Proof.
    unfold Conc.cstep. intros H Hne.
    destruct (c_thr s t) as [|o p].
    - destruct (c_todo s t); [discriminate|]. injection H as <- <-. cbn. apply upd_other. exact Hne.
    - destruct p as [r|mo k|k|k|d k|k|c k|e k]; try discriminate.
      + injection H as <- <-. cbn. apply upd_other. exact Hne.
      + destruct mo.
        8:{ injection H as <- <-. cbn. apply upd_other. exact Hne. }
        all: destruct (map_step eqd (c_map s) _) as [m' r']; injection H as <- <-; cbn; apply upd_other; exact Hne.
      + injection H as <- <-. cbn. apply upd_other. exact Hne.
      + injection H as <- <-. cbn. apply upd_other. exact Hne.
      + injection H as <- <-. cbn. apply upd_other. exact Hne.
      + injection H as <- <-. cbn. apply upd_other. exact Hne.
  Qed.

  Theorem runs_linearizable sched : forall s ist L gh,
    Inv s ist L gh ->
    let '(s', ls) := crun s sched in
    exists i, erase _ _ i = history ls /\ wf_inst _ _ ist i /\ legal _ _ _ tspec (mk L) i.
  Proof.
    induction sched as [|[t orc] rest IH]; intros s ist L gh HI; cbn [Conc.crun].
    - exists []. cbn. repeat split; constructor.
    - destruct (cstep s t orc) as [[s1 ls1]|] eqn:Hstep; [|apply (IH _ _ _ _ HI)].
      destruct (step_inv _ _ _ _ _ _ _ _ HI Hstep) as [ist1 [L1 [g1 [marks [HI1 [He [Hw [Hl _]]]]]]]].
      specialize (IH _ _ _ _ HI1). destruct (crun s1 rest) as [s2 ls2]. destruct IH as [i [He2 [Hw2 Hl2]]].
      exists (marks ++ i). split; [|split; [apply Hw; exact Hw2 | apply Hl; exact Hl2]].
      rewrite history_app, <- He, <- He2. clear. induction marks as [|[] m IH]; cbn; auto; f_equal; auto.
  Qed.

  Theorem runs_monitored sched : forall s ist L gh,
    Inv s ist L gh ->
    forall t', mon_accepts t' (mon_of (c_thr s t') (gh t')) (snd (crun s sched)).
  Proof.
    induction sched as [|[t orc] rest IH]; intros s ist L gh HI t'; cbn [Conc.crun].
    - cbn. intros m' Hr. inversion Hr; subst. discriminate.
    - destruct (cstep s t orc) as [[s1 ls1]|] eqn:Hstep; [|apply (IH _ _ _ _ HI)].
      destruct (step_inv _ _ _ _ _ _ _ _ HI Hstep) as [ist1 [L1 [g1 [marks [HI1 [_ [_ [_ [Hlab Hmon]]]]]]]]].
      specialize (IH _ _ _ _ HI1 t'). destruct (crun s1 rest) as [s2 ls2]. cbn [snd] in *.
      intros m' Hr. apply mon_run_app in Hr. destruct Hr as [mx [H1 H2]].
      destruct (Nat.eq_dec t' t) as [->|Hne].
      + rewrite (Hmon _ H1) in H2. rewrite upd_same in IH. exact (IH _ H2).
      + rewrite (mon_other _ _ _ _ _ Hne Hlab H1) in H2.
        rewrite upd_other in IH by exact Hne. rewrite (cstep_other _ _ _ _ _ _ Hstep Hne) in IH. exact (IH _ H2).
  Qed.

  (* from any state reached sequentially (physical map P0 related to the
     specification state L0, e.g. by C01), with every thread idle *)
  Lemma Inv_init (P0 L0 : amap K item) (todo : nat -> list cop) :
    Rm P0 L0 -> (forall t, Forall conc_ok (todo t)) ->
    Inv (cinit P0 todo) (fun _ => TIdle) L0 (fun _ => ([], 0%nat)).
  Proof. intros HR Htodo. constructor; cbn; auto. Qed.

  Theorem cache_linearizable (P0 L0 : amap K item) (todo : nat -> list cop) sched :
    Rm P0 L0 -> (forall t, Forall conc_ok (todo t)) ->
    linearizable _ _ _ tspec (mk L0) (history (snd (crun (cinit P0 todo) sched))).
  Proof.
    intros HR Htodo.
    pose proof (runs_linearizable sched _ _ _ _ (Inv_init P0 L0 todo HR Htodo)) as H.
    destruct (crun (cinit P0 todo) sched) as [s' ls]. cbn. exact H.
  Qed.

  (* C06 / C05 along every run: no thread's trace ever violates the monitor *)
  Theorem cache_monitored (P0 L0 : amap K item) (todo : nat -> list cop) sched t :
    Rm P0 L0 -> (forall t, Forall conc_ok (todo t)) ->
    mon_accepts t mon_idle (snd (crun (cinit P0 todo) sched)).
  Proof.
    intros HR Htodo.
    exact (runs_monitored sched _ _ _ _ (Inv_init P0 L0 todo HR Htodo) t).
  Qed.

End LinProof.
