(* C02_lin.v -- every run of the concurrent cache machine, under every schedule
   and every choice of what Range snapshots return, is linearizable with respect
   to SpecTTL. *)
From CacheV Require Import Base SpecMap Client CacheModel Ops SpecTTL Lin Conc.
From CacheV.gen Require Import Params.
From CacheV.proofs Require Import C01_sim C01_ops C02_good C02_methods.

Section LinProof.
  Context {K V : Type}.
  Variable eqd : forall a b : K, {a = b} + {a <> b}.
  Variable zero : V.
  Variables NOW DFLT : Z.
  Variable CB : cbid.

  Notation item := (item V).
  Notation cop := (cop K V).
  Notation cres := (cres K V).
  Notation good := (good eqd zero NOW DFLT CB).
  Notation mk := (mk NOW DFLT CB).
  Notation Rm := (Rm eqd NOW DFLT CB).
  Notation progs := (prog_cache eqd zero).
  Notation cconf := (@cconf K V).
  Notation cstep := (cstep eqd progs NOW DFLT CB).
  Notation crun := (crun eqd progs NOW DFLT CB).

  (* the sequential specification as a transition relation *)
  Definition tspec (s : cstate K V) (o : cop) (r : cres) (s' : cstate K V) : Prop :=
    spec_ok eqd zero s o r /\ s' = spec_next eqd zero s o.

  Definition thr_ok (ts : tstate) (st : tstat cop cres) : Prop :=
    match ts with
    | Idle => st = TIdle
    | Running o p =>
        conc_ok o /\ exists owe nfn,
          (st = TInvoked o /\ good o None owe nfn p)
          \/ (exists r, st = TLinearized o r /\ good o (Some r) owe nfn p)
    end.

  Record Inv (s : cconf) (ist : nat -> tstat cop cres) (L : amap K item) : Prop := {
    inv_R : Rm (c_map s) L;
    inv_thr : forall t, thr_ok (c_thr s t) (ist t);
    inv_todo : forall t, Forall conc_ok (c_todo s t);
  }.

  Lemma upd_same {X} (f : nat -> X) t x : upd f t x t = x.
  Proof. unfold upd. destruct (Nat.eq_dec t t); congruence. Qed.
  Lemma upd_other {X} (f : nat -> X) t x t' : t' <> t -> upd f t x t' = f t'.
  Proof. unfold upd. destruct (Nat.eq_dec t' t); congruence. Qed.

  (* changing one thread (and possibly the shared state, keeping Rm) *)
  Lemma Inv_set s ist L t m' ts st L' todo' :
    Inv s ist L -> Rm m' L' -> thr_ok ts st ->
    (forall t', Forall conc_ok (todo' t')) ->
    Inv {| c_map := m'; c_thr := upd (c_thr s) t ts; c_todo := todo' |} (upd ist t st) L'.
  Proof.
    intros HI HR Ht Htodo. constructor; cbn.
    - exact HR.
    - intros t'. unfold upd. destruct (Nat.eq_dec t' t); [exact Ht | apply (inv_thr _ _ _ HI)].
    - exact Htodo.
  Qed.

  Lemma Inv_set_same s ist L t m' ts L' :
    Inv s ist L -> Rm m' L' -> thr_ok ts (ist t) ->
    Inv {| c_map := m'; c_thr := upd (c_thr s) t ts; c_todo := c_todo s |} ist L'.
  Proof.
    intros HI HR Ht. constructor; cbn.
    - exact HR.
    - intros t'. unfold upd. destruct (Nat.eq_dec t' t) as [->|]; [exact Ht | apply (inv_thr _ _ _ HI)].
    - apply (inv_todo _ _ _ HI).
  Qed.

  Lemma history_app (a b : list (@label K V)) : history (a ++ b) = history a ++ history b.
  Proof. induction a as [|[] a IH]; cbn; auto; f_equal; auto. Qed.

  (* a step that is neither invocation, response nor linearization point *)
  Lemma silent_step sched (IH : forall s ist L, Inv s ist L ->
            let '(s', ls) := crun s sched in
            exists i, erase _ _ i = history ls /\ wf_inst _ _ ist i /\ legal _ _ _ tspec (mk L) i)
        s ist L t o p' ls' :
    Inv s ist L -> history ls' = [] -> thr_ok (Running o p') (ist t) ->
    let '(s', ls) := crun (set_thr s t (Running o p')) sched in
    exists i, erase _ _ i = history (ls' ++ ls) /\ wf_inst _ _ ist i /\ legal _ _ _ tspec (mk L) i.
  Proof.
    intros HI Hh Ht.
    assert (HI1 : Inv (set_thr s t (Running o p')) ist L).
    { unfold set_thr. apply (Inv_set_same s ist L t (c_map s) (Running o p') L HI (inv_R _ _ _ HI) Ht). }
    specialize (IH _ _ _ HI1). destruct (crun _ sched) as [s2 ls2]. destruct IH as [i [He [Hw Hl]]].
    exists i. rewrite history_app, Hh. cbn. auto.
  Qed.

  Theorem runs_linearizable sched : forall s ist L,
    Inv s ist L ->
    let '(s', ls) := crun s sched in
    exists i, erase _ _ i = history ls /\ wf_inst _ _ ist i /\ legal _ _ _ tspec (mk L) i.
  Proof.
    induction sched as [|[t orc] rest IH]; intros s ist L HI; cbn [Conc.crun].
    - exists []. cbn. repeat split; constructor.
    - destruct (cstep s t orc) as [[s1 ls1]|] eqn:Hstep; [|apply IH; exact HI].
      pose proof (inv_thr _ _ _ HI t) as Ht. pose proof (inv_R _ _ _ HI) as HR.
      unfold Conc.cstep in Hstep.
      destruct (c_thr s t) as [|o p] eqn:Ethr.
      + (* invocation *)
        destruct (c_todo s t) as [|o rest_ops] eqn:Etodo; [discriminate|].
        inversion Hstep; subst s1 ls1; clear Hstep. cbn in Ht.
        assert (Hco : conc_ok o /\ Forall conc_ok rest_ops).
        { pose proof (inv_todo _ _ _ HI t) as Hf. rewrite Etodo in Hf. inversion Hf; auto. }
        destruct Hco as [Hco Hrest].
        assert (HI1 : Inv {| c_map := c_map s; c_thr := upd (c_thr s) t (Running o (progs o));
                             c_todo := upd (c_todo s) t rest_ops |} (upd ist t (TInvoked o)) L).
        { eapply Inv_set; [exact HI | exact HR | |].
          - cbn. split; [exact Hco|]. exists [], 0%nat. left. split; [reflexivity|]. apply good_init. exact Hco.
          - intros t'. unfold upd. destruct (Nat.eq_dec t' t); [exact Hrest | apply (inv_todo _ _ _ HI)]. }
        specialize (IH _ _ _ HI1). destruct (crun _ rest) as [s2 ls2]. destruct IH as [i [He [Hw Hl]]].
        exists (IInv t o :: i). cbn. rewrite He. repeat split; [apply wf_inv; assumption | apply legal_inv; assumption].
      + (* a step of a running call *)
        cbn in Ht. destruct Ht as [Hco [owe [nfn Hg]]].
        destruct p as [r|mo k|k|k|d k|k|c k|e k].
        * (* Ret: the response *)
          inversion Hstep; subst s1 ls1; clear Hstep.
          assert (Hst : ist t = TLinearized o r).
          { destruct Hg as [[_ Hg]|[r' [Hst Hg]]]; cbn in Hg; destruct Hg as [Hl _]; [discriminate | inversion Hl; subst; exact Hst]. }
          assert (HI1 : Inv (set_thr s t Idle) (upd ist t TIdle) L).
          { unfold set_thr. eapply Inv_set; [exact HI | exact HR | cbn; reflexivity | apply (inv_todo _ _ _ HI)]. }
          specialize (IH _ _ _ HI1). destruct (crun _ rest) as [s2 ls2]. destruct IH as [i [He [Hw Hl]]].
          exists (IRes t r :: i). cbn. rewrite He. repeat split; [eapply wf_res; eassumption | apply legal_res; assumption].
        * (* a map call *)
          assert (Hcases :
            exists m' k' ls', s1 = {| c_map := m'; c_thr := upd (c_thr s) t (Running o k'); c_todo := c_todo s |}
              /\ ls1 = ls' /\ history ls' = []
              /\ ((Rm m' L /\ ((ist t = TInvoked o /\ exists owe' nfn', good o None owe' nfn' k')
                               \/ (exists r, ist t = TLinearized o r /\ exists owe' nfn', good o (Some r) owe' nfn' k')))
                  \/ (ist t = TInvoked o /\ exists res owe' nfn',
                        spec_ok eqd zero (mk L) o res /\ Rm m' (st_map (spec_next eqd zero (mk L) o))
                        /\ good o (Some res) owe' nfn' k'))).
          { assert (Hhist : forall (evs : list (event K V)) (g : list (K * V)),
                      history (map (LEv t) evs ++ map (fun kv => LGone t (fst kv) (snd kv)) g ++ [LTau t]) = []).
            { intros evs g. induction evs; cbn; auto. induction g; cbn; auto. }
            destruct mo.
            all: try (cbn [good] in Hg;
                      destruct Hg as [[Hst Hg]|[r [Hst Hg]]]; specialize (Hg _ _ HR);
                      revert Hstep Hg;
                      match goal with |- context [map_step eqd ?m ?op] => destruct (map_step eqd m op) as [m' r'] end;
                      intros Hstep Hg; injection Hstep as <- <-;
                      exists m', (k r'); eexists; (split; [reflexivity|]); (split; [reflexivity|]); (split; [first [apply Hhist | exact (Hhist [] _)]|]);
                      cbn [call_ok] in Hg;
                      [ destruct Hg as [[HR' Hg]|[res [Hok [HR' Hg]]]];
                        [ left; split; [exact HR'|]; left; split; [exact Hst|]; eauto
                        | right; split; [exact Hst|]; eauto 8 ]
                      | destruct Hg as [HR' Hg]; left; split; [exact HR'|]; right; exists r; split; [exact Hst|]; eauto ]).
            (* the snapshot *)
            cbn [good] in Hg. injection Hstep as <- <-.
            exists (c_map s), (k (RSnap orc)), [LTau t]. unfold set_thr. split; [reflexivity|]. split; [reflexivity|]. split; [reflexivity|].
            destruct Hg as [[Hst Hg]|[r [Hst Hg]]]; specialize (Hg _ _ HR orc); cbn [call_ok] in Hg.
            - destruct Hg as [[HR' Hg]|[res [Hok [HR' Hg]]]].
              + left. split; [exact HR'|]. left. split; [exact Hst|]. eauto.
              + right. split; [exact Hst|]. eauto 8.
            - destruct Hg as [HR' Hg]. left. split; [exact HR'|]. right. exists r. split; [exact Hst|]. eauto. }
          destruct Hcases as [m' [k' [ls' [-> [-> [Hh Hc]]]]]].
          destruct Hc as [[HR' Hc]|[Hst [res [owe' [nfn' [Hok [HR' Hg']]]]]]].
          -- (* no linearization point at this step *)
             assert (HI1 : Inv {| c_map := m'; c_thr := upd (c_thr s) t (Running o k'); c_todo := c_todo s |} ist L).
             { eapply Inv_set_same; [exact HI | exact HR' |].
               cbn. split; [exact Hco|].
               destruct Hc as [[Hst [owe' [nfn' Hg']]]|[r [Hst [owe' [nfn' Hg']]]]]; exists owe', nfn'; [left|right]; eauto. }
             specialize (IH _ _ _ HI1). destruct (crun _ rest) as [s2 ls2]. destruct IH as [i [He [Hw Hl]]].
             exists i. rewrite history_app, Hh. cbn. auto.
          -- (* the linearization point *)
             assert (HI1 : Inv {| c_map := m'; c_thr := upd (c_thr s) t (Running o k'); c_todo := c_todo s |}
                               (upd ist t (TLinearized o res)) (st_map (spec_next eqd zero (mk L) o))).
             { eapply Inv_set; [exact HI | exact HR' | | apply (inv_todo _ _ _ HI)].
               cbn. split; [exact Hco|]. exists owe', nfn'. right. exists res. auto. }
             specialize (IH _ _ _ HI1). destruct (crun _ rest) as [s2 ls2]. destruct IH as [i [He [Hw Hl]]].
             exists (ILin t o res :: i). rewrite history_app, Hh. cbn. split; [exact He|]. split.
             ++ apply wf_lin; assumption.
             ++ eapply legal_lin; [|exact Hl]. split; [exact Hok|]. symmetry. apply spec_next_mk. exact Hco.
        * (* ReadNow *)
          inversion Hstep; subst s1 ls1; clear Hstep.
          pose proof (silent_step rest IH s ist L t o (k NOW) [LTau t] HI eq_refl) as Hs.
          assert (Ht' : thr_ok (Running o (k NOW)) (ist t)).
          { cbn. split; [exact Hco|]. exists owe, nfn. exact Hg. }
          specialize (Hs Ht'). destruct (crun _ rest) as [s2 ls2]. exact Hs.
        * (* ReadDflt *)
          inversion Hstep; subst s1 ls1; clear Hstep.
          pose proof (silent_step rest IH s ist L t o (k DFLT) [LTau t] HI eq_refl) as Hs.
          assert (Ht' : thr_ok (Running o (k DFLT)) (ist t)).
          { cbn. split; [exact Hco|]. exists owe, nfn. exact Hg. }
          specialize (Hs Ht'). destruct (crun _ rest) as [s2 ls2]. exact Hs.
        * (* WriteDflt: not a step *) discriminate.
        * (* ReadCb *)
          inversion Hstep; subst s1 ls1; clear Hstep.
          pose proof (silent_step rest IH s ist L t o (k CB) [LTau t] HI eq_refl) as Hs.
          assert (Ht' : thr_ok (Running o (k CB)) (ist t)).
          { cbn. split; [exact Hco|]. exists owe, nfn. exact Hg. }
          specialize (Hs Ht'). destruct (crun _ rest) as [s2 ls2]. exact Hs.
        * (* WriteCb: not a step *) discriminate.
        * (* Emit *)
          inversion Hstep; subst s1 ls1; clear Hstep.
          pose proof (silent_step rest IH s ist L t o k [LEv t e] HI eq_refl) as Hs.
          assert (Ht' : thr_ok (Running o k) (ist t)).
          { cbn. split; [exact Hco|].
            destruct e as [c k0 v|k0|k0 v].
            - destruct Hg as [[Hst Hg]|[r [Hst Hg]]]; cbn [good] in Hg; destruct Hg as [owe' [_ [_ Hg]]]; exists owe', nfn; eauto.
            - exists owe, nfn. exact Hg.
            - exists owe, nfn. exact Hg. }
          specialize (Hs Ht'). destruct (crun _ rest) as [s2 ls2]. exact Hs.
  Qed.



  (* from any state reached sequentially (physical map P0 related to the
     specification state L0, e.g. by C01), with every thread idle *)
  Theorem cache_linearizable (P0 L0 : amap K item) (todo : nat -> list cop) sched :
    Rm P0 L0 -> (forall t, Forall conc_ok (todo t)) ->
    linearizable _ _ _ tspec (mk L0) (history (snd (crun (cinit P0 todo) sched))).
  Proof.
    intros HR Htodo.
    assert (HI : Inv (cinit P0 todo) (fun _ => TIdle) L0).
    { constructor; cbn; auto. }
    pose proof (runs_linearizable sched _ _ _ HI) as H.
    destruct (crun (cinit P0 todo) sched) as [s' ls]. cbn. exact H.
  Qed.

End LinProof.
