(* CX_mapof2.v -- the cache methods over XMachine (MapOf), the snapshot of DeleteExpired run
   ON THE MACHINE: XMachine satisfies the interface of CX_product2.v.

   [x2_step]: one step of XMachine with what the calling thread sees of it (the invocation,
   the pairs of the XVisit labels, the response) and its kept events ([hstep2] of
   X_linearizable2.v); classes: idle = PStart / PIdle, inkept = [keptx], indrop = [rgsz].
   H_proto is X_linearizable2's class lemmas ([keptx_step], [rgsz_step], [start_class]),
   H_lin is [xmachine_linearizable2_steps].

   [cache_over_xmachine_linearizable2]: every run of "the cache methods of CacheModel over
   XMachine, every map call -- Range included -- being a whole call of the machine" is
   linearizable at the cache level w.r.t. the TTL semantics. *)
From CacheV Require Import Base SpecMap Client CacheModel Ops SpecTTL Lin Conc XMachine.
From CacheV.gen Require Import Params.
From CacheV.proofs Require Import C01_sim C01_hist C02_good C02_lin X_basic X_lin X_linpoints
  CX_trans CX_compose CX_product CX_mapof CX_product2 X_linearizable2.
From Coq Require Import NArith.
Local Open Scope nat_scope.

Section X2Frame.
  Context {K V : Type}.           (* the cache's key and value types; the map's values are items *)
  Variable eqd : forall a b : K, {a = b} + {a <> b}.
  Variable hash : K -> N -> N.
  Variable idx : N -> nat -> nat.
  Variable tag : N -> N.
  Variable nslots : nat.
  Variable seeds : nat -> N.
  Variable grow_needed shrink_policy : nat -> Z -> bool.
  Variable probe : list (option N) -> N -> list nat.
  Variable nstripes : nat -> nat.
  Variable minlen : nat.
  Variable grow_only : bool.

  Notation item := (item V).
  Notation xstate := (@xstate K item).
  Notation xop := (@xop K item).
  Notation xres := (@xres K item).
  Notation xlabel := (@xlabel K item).
  Notation pc := (@pc K item).
  Notation step_pc := (@step_pc K item eqd hash idx tag nslots seeds grow_needed shrink_policy probe nstripes minlen grow_only).
  Notation xstep := (@xstep K item eqd hash idx tag nslots seeds grow_needed shrink_policy probe nstripes minlen grow_only).
  Notation xrun := (@xrun K item eqd hash idx tag nslots seeds grow_needed shrink_policy probe nstripes minlen grow_only).
  Notation xrunh := (@xrunh K item eqd hash idx tag nslots seeds grow_needed shrink_policy probe nstripes minlen grow_only).
  Notation xhist := (@X_linpoints.xhist K item).
  Notation sout := (@CX_product2.sout K V xop xres).
  Notation with_todo := (@CX_mapof.with_todo K item).
  Notation so_inv := (@CX_product2.so_inv K V xop xres).
  Notation so_res := (@CX_product2.so_res K V xop xres).
  Notation so_vis := (@CX_product2.so_vis K V xop xres).
  Notation xinvoke := (@X_linearizable2.xinvoke K item).

  (* what the calling thread sees of a step: read off the labels *)
  Definition inv_of (h : list (hev xop xres)) : option xop := match h with HInv _ o :: _ => Some o | _ => None end.
  Fixpoint res_of (h : list (hev xop xres)) : option xres :=
    match h with [] => None | HRes _ r :: _ => Some r | _ :: r => res_of r end.
  Definition vis_of (ls : list xlabel) : list (K * item) :=
    flat_map (fun l => match l with XVisit _ k v => [(k, v)] | _ => [] end) ls.
  Definition so_of (ls : list xlabel) : sout :=
    @CX_product2.Build_sout K V xop xres (inv_of (xhist ls)) (vis_of ls) (res_of (xhist ls)).

  Definition x2_step (s : xstate) (t : nat) : option (xstate * sout * list (hev xop xres)) :=
    match xstep s t with Some (s', ls) => Some (s', so_of ls, hstep2 s t ls) | None => None end.

  Definition x2_idle (s : xstate) (t : nat) : Prop := g_pc s t = PStart \/ g_pc s t = PIdle.
  Definition x2_inkept (s : xstate) (t : nat) : Prop := keptx (g_pc s t) = true.
  Definition x2_indrop (s : xstate) (t : nat) : Prop := rgsz (g_pc s t) = true.
  Definition x2_drop (o : xop) : bool := negb (okopb o).

  Lemma pc_idle_dec (p : pc) : {p = PIdle} + {p <> PIdle}.
  Proof. destruct p; first [left; reflexivity | right; discriminate]. Qed.

  (* a step does not depend on what lies further down the todo lists *)
  Lemma xstep_frame s t s' ls td fut :
    xstep s t = Some (s', ls) -> (forall u, td u = g_todo s u ++ fut u) ->
    exists td', xstep (with_todo s td) t = Some (with_todo s' td', ls) /\ forall u, td' u = g_todo s' u ++ fut u.
  Proof.
    intros Ex Htd.
    destruct (pc_idle_dec (g_pc s t)) as [Hp|Hp].
    - rewrite (xstep_idle eqd hash idx tag nslots seeds grow_needed shrink_policy probe nstripes minlen grow_only s t Hp) in Ex.
      rewrite (xstep_idle eqd hash idx tag nslots seeds grow_needed shrink_policy probe nstripes minlen grow_only (with_todo s td) t Hp).
      cbn [CX_mapof.with_todo g_todo]. rewrite (Htd t).
      destruct (g_todo s t) as [|o rest] eqn:Et; [discriminate Ex|]. cbn [app].
      set (td1 := fun t' => if Nat.eq_dec t' t then rest ++ fut t else td t').
      change (xinvoke (with_todo s td) t o (rest ++ fut t)) with (with_todo (xinvoke s t o rest) td1).
      rewrite (step_pc_wtodo eqd hash idx tag nslots seeds grow_needed shrink_policy probe nstripes minlen grow_only).
      assert (Htd1 : forall u, td1 u = g_todo (xinvoke s t o rest) u ++ fut u).
      { intros u. unfold td1. cbn [X_linearizable2.xinvoke g_todo]. destruct (Nat.eq_dec u t) as [->|]; [reflexivity | apply Htd]. }
      destruct (step_pc (xinvoke s t o rest) t (start_pc o)) as [[s2 ls2]|] eqn:E2; cbn [CX_mapof.lift].
      + inversion Ex; subst s' ls; clear Ex. exists td1. split; [reflexivity|].
        intros u. rewrite (step_pc_todo eqd hash idx tag nslots seeds grow_needed shrink_policy probe nstripes minlen grow_only _ _ _ _ _ E2). apply Htd1.
      + inversion Ex; subst s' ls; clear Ex. exists td1. split; [reflexivity | exact Htd1].
    - rewrite (xstep_nonidle eqd hash idx tag nslots seeds grow_needed shrink_policy probe nstripes minlen grow_only s t Hp) in Ex.
      rewrite (xstep_nonidle eqd hash idx tag nslots seeds grow_needed shrink_policy probe nstripes minlen grow_only (with_todo s td) t Hp).
      cbn [CX_mapof.with_todo g_pc].
      rewrite (step_pc_wtodo eqd hash idx tag nslots seeds grow_needed shrink_policy probe nstripes minlen grow_only), Ex.
      cbn [CX_mapof.lift]. exists td. split; [reflexivity|].
      intros u. rewrite (step_pc_todo eqd hash idx tag nslots seeds grow_needed shrink_policy probe nstripes minlen grow_only _ _ _ _ _ Ex). apply Htd.
  Qed.

  Lemma hstep2_frame s t ls td fut : (forall u, td u = g_todo s u ++ fut u) ->
    (g_pc s t = PIdle -> g_todo s t <> []) ->
    hstep2 (with_todo s td) t ls = hstep2 s t ls.
  Proof.
    intros Htd Hne. unfold hstep2. cbn [CX_mapof.with_todo g_pc g_todo]. destruct (rgsz (g_pc s t)); [reflexivity|].
    destruct (g_pc s t) eqn:Hp; try reflexivity. rewrite (Htd t).
    destruct (g_todo s t) as [|o rest]; [exfalso; apply Hne; reflexivity | reflexivity].
  Qed.

  Lemma x2_frame s t s' so h td fut :
    x2_step s t = Some (s', so, h) -> (forall u, td u = g_todo s u ++ fut u) ->
    exists td', x2_step (with_todo s td) t = Some (with_todo s' td', so, h) /\ forall u, td' u = g_todo s' u ++ fut u.
  Proof.
    unfold x2_step. intros E Htd.
    destruct (xstep s t) as [[s1 ls]|] eqn:Ex; [|discriminate E]. inversion E; subst s1 so h; clear E.
    destruct (xstep_frame s t s' ls td fut Ex Htd) as [td' [E' Htd']].
    exists td'. rewrite E'. split; [|exact Htd'].
    rewrite (hstep2_frame s t ls td fut Htd); [reflexivity|].
    intros Hp Hn. unfold XMachine.xstep in Ex. rewrite Hp, Hn in Ex. discriminate Ex.
  Qed.

  Lemma wake_idle (p : pc) : (p = PStart \/ p = PIdle) -> wake p = p.
  Proof. intros [-> | ->]; reflexivity. Qed.

  Lemma res_of_one t r : res_of [HRes t r] = Some r. Proof. reflexivity. Qed.

  (* the call protocol of XMachine, by class *)
  Lemma x2_proto s t s' so h : x2_step s t = Some (s', so, h) ->
    (forall u, u <> t -> g_todo s' u = g_todo s u /\ (x2_idle s u -> x2_idle s' u)
                         /\ (x2_inkept s u -> x2_inkept s' u) /\ (x2_indrop s u -> x2_indrop s' u))
    /\ (x2_idle s t ->
          (so_inv so = None /\ so_res so = None /\ h = [] /\ x2_idle s' t /\ g_todo s' t = g_todo s t)
          \/ (exists o rest, g_todo s t = o :: rest /\ g_todo s' t = rest /\ so_inv so = Some o
               /\ (True ->
                   h = (if x2_drop o then [] else kev xop xres t (Some o) (so_res so))
                   /\ match so_res so with Some _ => x2_idle s' t | None => if x2_drop o then x2_indrop s' t else x2_inkept s' t end)))
    /\ (x2_inkept s t -> g_todo s' t = g_todo s t /\ so_inv so = None /\ h = kev xop xres t None (so_res so)
                         /\ match so_res so with Some _ => x2_idle s' t | None => x2_inkept s' t end)
    /\ (x2_indrop s t -> g_todo s' t = g_todo s t /\ so_inv so = None /\ h = []
                         /\ match so_res so with Some _ => x2_idle s' t | None => x2_indrop s' t end).
  Proof.
    unfold x2_step. intros E.
    destruct (xstep s t) as [[s1 ls]|] eqn:Ex; [|discriminate E]. inversion E; subst s1 so h; clear E.
    cbn [so_of CX_product2.so_inv CX_product2.so_res].
    assert (Hcls : forall (s0 s2 : xstate), (forall u, u <> t -> g_pc s2 u = g_pc s0 u \/ g_pc s2 u = wake (g_pc s0 u)) ->
              forall u, u <> t -> (x2_idle s0 u -> x2_idle s2 u) /\ (x2_inkept s0 u -> x2_inkept s2 u) /\ (x2_indrop s0 u -> x2_indrop s2 u)).
    { intros s0 s2 Hoth u Hn. unfold x2_idle, x2_inkept, x2_indrop.
      destruct (Hoth u Hn) as [Eu|Eu]; rewrite Eu; [auto|]. split; [|split].
      - intros Hi. rewrite (wake_idle _ Hi). exact Hi.
      - rewrite keptx_wake. auto.
      - rewrite rgsz_wake. auto. }
    destruct (pc_idle_dec (g_pc s t)) as [Hp|Hp].
    - (* the invocation *)
      rewrite (xstep_idle eqd hash idx tag nslots seeds grow_needed shrink_policy probe nstripes minlen grow_only s t Hp) in Ex.
      destruct (g_todo s t) as [|o rest] eqn:Et; [discriminate Ex|].
      destruct (step_pc (xinvoke s t o rest) t (start_pc o)) as [[s2 ls2]|] eqn:E2;
        [|exfalso; exact (start_pc_blocks_not eqd hash idx tag nslots seeds grow_needed shrink_policy probe nstripes minlen grow_only _ _ _ E2)].
      inversion Ex; subst s' ls; clear Ex.
      pose proof (step_pc_todo eqd hash idx tag nslots seeds grow_needed shrink_policy probe nstripes minlen grow_only _ _ _ _ _ E2) as Htd.
      assert (Hoth : forall u, u <> t -> g_pc s2 u = g_pc s u \/ g_pc s2 u = wake (g_pc s u)).
      { intros u Hn. destruct (step_pc_others eqd hash idx tag nslots seeds grow_needed shrink_policy probe nstripes minlen grow_only _ _ _ _ _ E2 u Hn) as [A|A];
          rewrite A; cbn [X_linearizable2.xinvoke g_pc]; (destruct (Nat.eq_dec u t) as [Hc|_]; [contradiction|]); auto. }
      split; [|split; [|split]].
      + intros u Hn. split; [|apply (Hcls s s2 Hoth u Hn)].
        rewrite Htd. cbn [X_linearizable2.xinvoke g_todo]. destruct (Nat.eq_dec u t) as [Hc|_]; [contradiction | reflexivity].
      + intros _. right. exists o, rest. split; [reflexivity|]. split.
        { rewrite Htd. cbn [X_linearizable2.xinvoke g_todo]. destruct (Nat.eq_dec t t) as [_|Hc]; [reflexivity | congruence]. }
        cbn [X_linpoints.xhist inv_of res_of]. split; [reflexivity|]. intros _.
        unfold hstep2. rewrite Hp. cbn [rgsz]. rewrite Et. unfold x2_drop. cbn [X_linpoints.xhist].
        pose proof (start_class o) as Hc.
        destruct (okopb o) eqn:Eo; cbn [negb].
        * destruct (keptx_step eqd hash idx tag nslots seeds grow_needed shrink_policy probe nstripes minlen grow_only _ _ _ _ _ E2 Hc) as [[A B]|[A [r B]]];
            rewrite B; cbn [res_of kev app]; (split; [reflexivity|]); [exact A | right; exact A].
        * destruct (rgsz_step eqd hash idx tag nslots seeds grow_needed shrink_policy probe nstripes minlen grow_only _ _ _ _ _ E2 Hc) as [[A B]|[A [r B]]];
            rewrite B; cbn [res_of]; (split; [reflexivity|]); [exact A | right; exact A].
      + unfold x2_inkept. rewrite Hp. discriminate.
      + unfold x2_indrop. rewrite Hp. discriminate.
    - rewrite (xstep_nonidle eqd hash idx tag nslots seeds grow_needed shrink_policy probe nstripes minlen grow_only s t Hp) in Ex.
      pose proof (step_pc_todo eqd hash idx tag nslots seeds grow_needed shrink_policy probe nstripes minlen grow_only _ _ _ _ _ Ex) as Htd.
      pose proof (step_pc_others eqd hash idx tag nslots seeds grow_needed shrink_policy probe nstripes minlen grow_only _ _ _ _ _ Ex) as Hoth.
      split; [|split; [|split]].
      + intros u Hn. split; [rewrite Htd; reflexivity | apply (Hcls s s' Hoth u Hn)].
      + (* the goroutine starts *)
        intros [Hs|Hi]; [|contradiction]. left.
        rewrite Hs in Ex. cbn [XMachine.step_pc] in Ex. inversion Ex; subst s' ls; clear Ex.
        unfold hstep2. rewrite Hs. cbn [rgsz X_linpoints.xhist inv_of res_of].
        split; [reflexivity|]. split; [reflexivity|]. split; [reflexivity|].
        split; [right; cbn [set_pc g_pc]; destruct (Nat.eq_dec t t); congruence | reflexivity].
      + (* inside a kept call *)
        intros Hk. unfold x2_inkept in Hk. split; [rewrite Htd; reflexivity|].
        rewrite (hstep2_kept s t ls (keptx_rgsz _ Hk) Hp).
        destruct (keptx_step eqd hash idx tag nslots seeds grow_needed shrink_policy probe nstripes minlen grow_only _ _ _ _ _ Ex Hk) as [[A B]|[A [r B]]];
          rewrite B; cbn [inv_of res_of kev app]; (split; [reflexivity|]); (split; [reflexivity|]); [exact A | right; exact A].
      + (* inside Range / Size *)
        intros Hr. unfold x2_indrop in Hr. split; [rewrite Htd; reflexivity|].
        unfold hstep2. rewrite Hr.
        destruct (rgsz_step eqd hash idx tag nslots seeds grow_needed shrink_policy probe nstripes minlen grow_only _ _ _ _ _ Ex Hr) as [[A B]|[A [r B]]];
          rewrite B; cbn [inv_of res_of]; (split; [reflexivity|]); (split; [reflexivity|]); [exact A | right; exact A].
  Qed.

  Lemma x2_mrun sched : forall s, snd (mrun2 xstate xop xres x2_step s sched) = xrunh s sched.
  Proof.
    induction sched as [|t rest IH]; intros s; [reflexivity|].
    cbn [mrun2 X_linearizable2.xrunh]. unfold x2_step at 1.
    destruct (xstep s t) as [[s1 ls]|]; [|apply IH].
    specialize (IH s1). destruct (mrun2 xstate xop xres x2_step s1 rest) as [s2 h2]. cbn [snd] in *. rewrite IH. reflexivity.
  Qed.

End X2Frame.

(* ---------------- the cache over XMachine, Range included ---------------- *)

Section CacheOverXMachine2.
  Context {K V : Type}.
  Variable eqd : forall a b : K, {a = b} + {a <> b}.
  Variable hash : K -> N -> N.
  Variable idx : N -> nat -> nat.
  Variable tag : N -> N.
  Variable nslots : nat.
  Variable seeds : nat -> N.
  Variable grow_needed shrink_policy : nat -> Z -> bool.
  Variable probe : list (option N) -> N -> list nat.
  Variable nstripes : nat -> nat.
  Variable minlen : nat.
  Variable grow_only : bool.
  Variable len0 : nat.
  Variable progs : cop K V -> prog K V (cres K V).
  Variables NOW DFLT : Z.
  Variable CB : cbid.

  Notation item := (item V).
  Notation xstate := (@xstate K item).
  Notation xop := (@xop K item).
  Notation xres := (@xres K item).
  Notation env0 := (Conc.env0 NOW DFLT).
  Notation x2_step := (@x2_step K V eqd hash idx tag nslots seeds grow_needed shrink_policy probe nstripes minlen grow_only).
  Notation with_todo := (@CX_mapof.with_todo K item).

  Definition x2_init (td : nat -> list xop) : xstate := xinit nslots seeds nstripes len0 td.

  (* one move of thread t of "the cache over MapOf"; a schedule is a list of threads *)
  Definition cx2step := CX_product2.pstep progs NOW DFLT CB xstate xop xres x2_step (@g_todo K item) with_todo
                          (translate env0) (back env0) (@xsup K V) XRange.
  Definition cx2run := CX_product2.prun progs NOW DFLT CB xstate xop xres x2_step (@g_todo K item) with_todo
                          (translate env0) (back env0) (@xsup K V) XRange.
  Definition cx2init (todo : nat -> list (cop K V)) : CX_product2.pconf xstate := CX_product2.pinit xstate xop x2_init todo.

  (* the cache-level history of a run *)
  Definition cx2hist (todo : nat -> list (cop K V)) (sched : list nat) : list (hev (cop K V) (cres K V)) :=
    cproj (snd (fst (cx2run (cx2init todo) sched))).

  Hypothesis Hx : xhyps4 idx nstripes minlen nslots probe.
  Hypothesis Hlen : 0 < len0.

  Theorem xproduct2_linearizable (St : Type) (spec : St -> cop K V -> cres K V -> St -> Prop) (S0 : St) todo sched :
    (forall sched', linearizable _ _ St spec S0 (history (snd (crun eqd progs NOW DFLT CB (cinit [] todo) sched')))) ->
    linearizable _ _ St spec S0 (cx2hist todo sched).
  Proof.
    intros Hall. unfold cx2hist, cx2run, cx2init.
    apply (product2_linearizable eqd progs NOW DFLT CB xstate xop xres (X_linpoints.amap K item)
             x2_step (@g_todo K item) with_todo (@x2_idle K V) (@x2_inkept K V) (@x2_indrop K V) x2_init
             (xspec eqd) (aempty (K:=K) (V:=item)) (fun _ => True) (@x2_drop K V)
             (translate env0) (back env0) (@xsup K V) XRange); try exact Hall.
    - intros s td t. reflexivity.
    - intros s td t. split; intros H; exact H.
    - intros s td t. split; intros H; exact H.
    - intros s td t. split; intros H; exact H.
    - intros s a b. reflexivity.
    - intros td t. reflexivity.
    - intros td t. left. reflexivity.
    - intros a b. reflexivity.
    - intros s t s' so h td fut. apply x2_frame.
    - intros s t s' so h. apply x2_proto.
    - intros o Ho. split; [exact I|]. destruct o; cbn in Ho |- *; try reflexivity; discriminate Ho.
    - split; [exact I | reflexivity].
    - intros td sched0 _. rewrite x2_mrun.
      apply (xmachine_linearizable2_steps eqd hash idx tag nslots seeds grow_needed shrink_policy probe nstripes minlen grow_only
               Hx len0 td sched0 Hlen).
    - intros hx hm Hh Hl. apply (mapof_lin_transfer eqd env0 hx hm); [|exact Hl].
      eapply hrel_ok_mono; [|exact Hh]. intros o Ho. destruct o; cbn in Ho |- *; try exact I; discriminate Ho.
  Qed.

End CacheOverXMachine2.

Section Final2.
  Context {K V : Type}.
  Variable eqd : forall a b : K, {a = b} + {a <> b}.
  Variable hash : K -> N -> N.
  Variable idx : N -> nat -> nat.
  Variable tag : N -> N.
  Variable nslots : nat.
  Variable seeds : nat -> N.
  Variable grow_needed shrink_policy : nat -> Z -> bool.
  Variable probe : list (option N) -> N -> list nat.
  Variable nstripes : nat -> nat.
  Variable minlen : nat.
  Variable grow_only : bool.
  Variable zero : V.
  Variables NOW DFLT : Z.
  Variable CB : cbid.

  (* C02 over the concurrent map, every map call -- the Range of DeleteExpired included -- run on XMachine *)
  Theorem cache_over_xmachine_linearizable2 :
    xhyps4 idx nstripes minlen nslots probe -> forall len0 (todo : nat -> list (cop K V)) sched, 0 < len0 ->
    (forall t, Forall conc_ok (todo t)) ->
    linearizable _ _ _ (tspec eqd zero) (mk NOW DFLT CB [])
      (cx2hist eqd hash idx tag nslots seeds grow_needed shrink_policy probe nstripes minlen grow_only len0
               (prog_cache eqd zero) NOW DFLT CB todo sched).
  Proof.
    intros Hx len0 todo sched Hlen Htodo.
    apply (xproduct2_linearizable eqd hash idx tag nslots seeds grow_needed shrink_policy probe nstripes minlen grow_only
             len0 (prog_cache eqd zero) NOW DFLT CB Hx Hlen).
    intros sched'. apply (cache_linearizable eqd zero NOW DFLT CB [] [] todo sched'); [|exact Htodo].
    apply C01_hist.R_init. reflexivity.
  Qed.

End Final2.

Print Assumptions cache_over_xmachine_linearizable2.

(* ---------------- the executable instance (XExec.v) ---------------- *)
From CacheV Require Import TabExec Exec XExec.
From CacheV.proofs Require Import X_swar.

Theorem cache_over_xmachine_instance2 :
  forall (o : oracle) (sds : list N) (hint : Z) (zero : Z) (NOW DFLT : Z) (CB : cbid)
         (todo : nat -> list (cop Z Z)) sched,
    (forall t, Forall conc_ok (todo t)) ->
    linearizable _ _ _ (tspec zeqd zero) (mk NOW DFLT CB [])
      (cx2hist zeqd (hash_of o) idx_mapof tag_mapof (Z.to_nat entriesPerMapOfBucket) (seeds_of sds)
               grow_needed_m shrink_policy_m probe_x nstripes_x (minlen_of_hint true hint) false (minlen_of_hint true hint)
               (prog_cache zeqd zero) NOW DFLT CB todo sched).
Proof.
  intros o sds hint zero NOW DFLT CB todo sched Htodo.
  apply (cache_over_xmachine_linearizable2 zeqd (hash_of o) idx_mapof tag_mapof (Z.to_nat entriesPerMapOfBucket) (seeds_of sds)
           grow_needed_m shrink_policy_m probe_x nstripes_x (minlen_of_hint true hint) false zero NOW DFLT CB
           (x_instance_hyps4 hint) (minlen_of_hint true hint) todo sched); [|exact Htodo].
  destruct (x_instance_hyps4 hint) as [[_ [_ H]] _]. exact H.
Qed.
Print Assumptions cache_over_xmachine_instance2.

Definition cx2_ex_hist (todo : nat -> list (cop Z Z)) sched :=
  cx2hist zeqd (hash_of []) idx_mapof tag_mapof (Z.to_nat entriesPerMapOfBucket) (seeds_of [])
          grow_needed_m shrink_policy_m probe_x nstripes_x (minlen_of_hint true 0%Z) false (minlen_of_hint true 0%Z)
          (prog_cache zeqd 0%Z) 100%Z 0%Z None todo sched.

(* ---------------- part (c): a DeleteExpired whose traversal overlaps a Set of the same key ---------------- *)

(* The clock stands at 100 during the phase.  Thread 0 plants an entry for key 7 that is ALREADY EXPIRED (the
   clock does not move within a phase, so this takes a duration that makes now + d wrap around: the entry
   expires at 50 < 100), then calls DeleteExpired.  The Range of the DeleteExpired visits (7, {1, expires 50})
   and is still running (it holds no lock of that bucket any more) when thread 1's Set(7, 2, 50ns) runs from
   invocation to response: the map now holds the fresh entry {2, expires 150}.  DeleteExpired then finds the
   snapshot entry expired and calls Compute on key 7; the closure RE-CHECKS the entry under the bucket lock
   (finding F3), sees the fresh one and keeps it: thread 1's Get answers (2, true). *)
Definition cx2_dexp : Z := (two64 - 50)%Z.
Definition cx2_ex_todo (t : nat) : list (cop Z Z) :=
  match t with O => [OSet 7%Z 1%Z cx2_dexp; ODeleteExpired] | S O => [OSet 7%Z 2%Z 50%Z; OGet 7%Z] | _ => [] end.
Definition cx2_ex_run sched :=
  cx2run zeqd (hash_of []) idx_mapof tag_mapof (Z.to_nat entriesPerMapOfBucket) (seeds_of [])
         grow_needed_m shrink_policy_m probe_x nstripes_x (minlen_of_hint true 0%Z) false
         (prog_cache zeqd 0%Z) 100%Z 0%Z None
         (cx2init (Z.to_nat entriesPerMapOfBucket) (seeds_of []) nstripes_x (minlen_of_hint true 0%Z) cx2_ex_todo) sched.
Definition cx2_thr sched (t : nat) := p_thr _ (fst (fst (cx2_ex_run sched))) t.

Definition cx2_s1 : list nat := repeat 0 40.                 (* the Range has visited key 7 and goes on *)
Definition cx2_s2 : list nat := cx2_s1 ++ repeat 1 11.       (* thread 1's Set, whole *)
Definition cx2_s3 : list nat := cx2_s2 ++ repeat 0 46.       (* the Range is over; the re-checking Compute is in flight *)
Definition cx2_s4 : list nat := cx2_s3 ++ repeat 0 24 ++ repeat 1 20.

Definition cx2_ex_inst : list (iev (cop Z Z) (cres Z Z)) :=
  [IInv 0 (OSet 7%Z 1%Z cx2_dexp); ILin 0 (OSet 7%Z 1%Z cx2_dexp) CUnit; IRes 0 CUnit;
   IInv 0 ODeleteExpired; IInv 1 (OSet 7%Z 2%Z 50%Z);
   ILin 1 (OSet 7%Z 2%Z 50%Z) CUnit; IRes 1 CUnit;
   ILin 0 ODeleteExpired CUnit; IRes 0 CUnit;
   IInv 1 (OGet 7%Z); ILin 1 (OGet 7%Z) (CVal 2%Z true); IRes 1 (CVal 2%Z true)].

Ltac cx_wf_witness :=
  repeat first [ apply wf_nil | apply wf_inv; [reflexivity|] | eapply wf_lin; [reflexivity|] | eapply wf_res; [reflexivity|] ].
Ltac cx_lin_witness :=
  repeat first [ apply legal_nil | apply legal_inv | apply legal_res
               | eapply legal_lin; [split; [vm_compute; reflexivity | reflexivity]|] ].

Example delete_expired_overlaps_set :
  (* the traversal has handed the expired entry to the visitor and is still running *)
  (exists o k, cx2_thr cx2_s1 0 = QSWait o k [(7%Z, {| iv := 1%Z; ie := 50%Z |})])
  (* thread 1's Set has returned *)
  /\ cx2hist zeqd (hash_of []) idx_mapof tag_mapof (Z.to_nat entriesPerMapOfBucket) (seeds_of [])
             grow_needed_m shrink_policy_m probe_x nstripes_x (minlen_of_hint true 0%Z) false (minlen_of_hint true 0%Z)
             (prog_cache zeqd 0%Z) 100%Z 0%Z None cx2_ex_todo cx2_s2
     = [HInv 0 (OSet 7%Z 1%Z cx2_dexp); HRes 0 CUnit; HInv 0 ODeleteExpired; HInv 1 (OSet 7%Z 2%Z 50%Z); HRes 1 CUnit]
  (* DeleteExpired is inside its Compute on key 7 *)
  /\ (exists o c k, cx2_thr cx2_s3 0 = QWait o (CCompute 7%Z c) k)
  (* the whole run *)
  /\ cx2_ex_hist cx2_ex_todo cx2_s4
     = [HInv 0 (OSet 7%Z 1%Z cx2_dexp); HRes 0 CUnit; HInv 0 ODeleteExpired; HInv 1 (OSet 7%Z 2%Z 50%Z); HRes 1 CUnit;
        HRes 0 CUnit; HInv 1 (OGet 7%Z); HRes 1 (CVal 2%Z true)]
  (* and a linearization of it *)
  /\ erase _ _ cx2_ex_inst = cx2_ex_hist cx2_ex_todo cx2_s4
  /\ wf_inst _ _ (fun _ => TIdle) cx2_ex_inst
  /\ legal _ _ _ (tspec zeqd 0%Z) (mk 100%Z 0%Z None []) cx2_ex_inst.
Proof.
  split; [eexists; eexists; vm_compute; reflexivity|].
  split; [vm_compute; reflexivity|].
  split; [eexists; eexists; eexists; vm_compute; reflexivity|].
  split; [vm_compute; reflexivity|].
  split; [vm_compute; reflexivity|].
  split; [unfold cx2_ex_inst; cx_wf_witness | unfold cx2_ex_inst; cx_lin_witness].
Qed.
