(* CX_term_ex.v -- C13 at the cache level: a concrete run (vm_compute) of the executable instance
   (CX_range_ex.v; sup := every map call on the machine, so Count runs too).
   Thread 0: Set 1, Set 2, Range;  thread 1: Clear, Get 2;  thread 2: Set 3, Count, DeleteExpired.
   After [tx_s0] thread 0 is in the middle of its traversal (QSWait), thread 1 is in the middle of the
   resize of its Clear (the resizing flag is set), thread 2 is inside the Compute of its Set.  A plain
   round robin of 100 rounds finishes everybody: all three threads have returned from all their calls,
   the resizing flag is clear, resizeMu is free.  [term_instance]: the hypotheses of
   cache_can_always_finish_mapof hold of this instance (growth policy: X_term.x_instance_ghyp). *)
From CacheV Require Import Base SpecMap Client CacheModel CacheOfModel Ops SpecTTL Lin Conc XMachine TabExec Exec XExec.
From CacheV.gen Require Import Params.
From CacheV.proofs Require Import X_inst X_swar X_lin X_range X_term CX_compose CX_mapof CX_product2 CX_mapof2 CX_range CX_range2 CX_range3 CX_range_ex CX_term CX_term2.
From Coq Require Import NArith ZArith List.
Import ListNotations.
Local Open Scope nat_scope.

Definition tx_todo (t : nat) : list (cop Z Z) :=
  match t with
  | 0 => [OSet 1%Z 10%Z 0%Z; OSet 2%Z 20%Z 0%Z; rx_range]
  | 1 => [OClear; OGet 2%Z]
  | 2 => [OSet 3%Z 30%Z 0%Z; OCount; ODeleteExpired]
  | _ => []
  end.
Definition tx_s0 : list nat := repeat 0 30 ++ repeat 1 6 ++ repeat 2 5.
Fixpoint tx_rr (n : nat) : list nat := match n with O => [] | S m => [0; 1; 2] ++ tx_rr m end.
Definition tx_conf a := rx_conf rx_all tx_todo [] a.
Definition tx_shape (q : @qst Z Z) : nat :=
  match q with QIdle => 0 | QRun _ _ => 1 | QPushed _ _ _ => 2 | QWait _ _ _ => 3 | QSPushed _ _ => 4 | QSWait _ _ _ => 5 end.
Definition tx_look a :=
  let p := tx_conf a in
  (map (fun t => (tx_shape (p_thr _ p t), length (p_todo _ p t))) [0; 1; 2], g_resizing (p_x _ p), g_rmu (p_x _ p)).

Example term_three_threads :
  (* thread 0 inside its traversal, thread 1 inside the resize of Clear (flag set), thread 2 inside a map call *)
  tx_look tx_s0 = ([(5, 0); (3, 1); (3, 2)], true, None)
  (* everybody has returned from everything; flag clear, resizeMu free *)
  /\ tx_look (tx_s0 ++ tx_rr 100) = ([(0, 0); (0, 0); (0, 0)], false, None)
  /\ rx_hist rx_all tx_todo (tx_s0 ++ tx_rr 100)
     = [HInv 0 (OSet 1%Z 10%Z 0%Z); HRes 0 CUnit; HInv 0 (OSet 2%Z 20%Z 0%Z); HRes 0 CUnit; HInv 0 rx_range;
        HInv 1 OClear; HInv 2 (OSet 3%Z 30%Z 0%Z)]
       ++ skipn 7 (rx_hist rx_all tx_todo (tx_s0 ++ tx_rr 100))
  /\ length (rx_hist rx_all tx_todo (tx_s0 ++ tx_rr 100)) = 16.
Proof.
  split; [vm_compute; reflexivity|]. split; [vm_compute; reflexivity|]. split; vm_compute; reflexivity.
Qed.

Example term_instance : forall sched0,
  exists cont,
    let p' := pafter zeqd (hash_of rx_or) idx_mapof tag_mapof rx_nslots (seeds_of []) grow_needed_m shrink_policy_m probe_x nstripes_x rx_len false
                     (prog_cache zeqd 0%Z) 100%Z 0%Z None rx_all (tx_conf sched0) cont in
    all_returned p' /\ machine_at_rest (hash_of rx_or) idx_mapof rx_nslots nstripes_x (p_x _ p').
Proof.
  intros sched0.
  assert (Hlen : 0 < rx_len) by (destruct (x_instance_hyps4 0%Z) as [[_ [_ H]] _]; exact H).
  apply (cache_can_always_finish_mapof zeqd (hash_of rx_or) idx_mapof tag_mapof rx_nslots (seeds_of []) grow_needed_m shrink_policy_m probe_x nstripes_x
           rx_len false rx_len 0%Z rx_all 100%Z 0%Z None (x_instance_hyps4 0%Z) Hlen X_term.x_instance_ghyp (fun _ _ => eq_refl) [0; 1; 2] tx_todo sched0).
  - intros u. destruct u as [|[|[|u]]]; cbn [tx_todo]; repeat constructor.
  - intros u Hu. destruct u as [|[|[|u]]]; try reflexivity; exfalso; apply Hu; cbn; auto.
Qed.

Print Assumptions term_three_threads.
Print Assumptions term_instance.
