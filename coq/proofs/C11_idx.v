(* C11_idx.v -- the index functions of the source stay inside a table whose
   length is a power of two. *)
From CacheV Require Import Base TabExec.
From Coq Require Import NArith ZifyN ZifyNat.

Lemma idx_bound_pow2 h n : (N.to_nat (N.land h (N.of_nat (2 ^ n) - 1)) < 2 ^ n)%nat.
Proof.
  assert (E : (N.of_nat (2 ^ n) = 2 ^ N.of_nat n)%N).
  { rewrite Nat2N.inj_pow. reflexivity. }
  rewrite E. rewrite <- N.pred_sub, <- N.ones_equiv, N.land_ones.
  pose proof (N.mod_upper_bound h (2 ^ N.of_nat n) ltac:(apply N.pow_nonzero; discriminate)) as Hb.
  rewrite <- E in Hb. rewrite <- E. set (p := (2 ^ n)%nat) in *. clearbody p. lia.
Qed.

Lemma source_index_functions h n : (idx_map h (2 ^ n) < 2 ^ n)%nat /\ (idx_mapof h (2 ^ n) < 2 ^ n)%nat.
Proof. split; [apply idx_bound_pow2 | apply (idx_bound_pow2 (N.shiftr h 7) n)]. Qed.
