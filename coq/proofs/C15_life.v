(* C15_life.v -- invariants of the janitor lifecycle. *)
From CacheV Require Import Base Janitor.

Definition linv (started : bool) (s : life) : Prop :=
  (* never started: never runs, never ticks *)
  (started = false -> l_jan s = JNone /\ l_ticks s = 0%nat)
  (* stop is closed only by the finalizer, which runs only on an unreachable wrapper *)
  /\ (l_stop_closed s = true -> l_finalized s = true)
  /\ (l_finalized s = true -> l_reachable s = false)
  (* the janitor returns only after stop was closed *)
  /\ (l_jan s = JReturned -> l_stop_closed s = true)
  /\ (started = true -> l_jan s <> JNone).

Lemma linv_born started : linv started (born started).
Proof. unfold linv, born. destruct started; cbn; repeat split; intros; try discriminate; auto. Qed.

Lemma linv_step started s a s' : linv started s -> lstep s a = Some s' -> linv started s'.
Proof.
  unfold linv. intros [H1 [H2 [H3 [H4 H5]]]] Hs.
  destruct a; cbn in Hs.
  - destruct (l_reachable s) eqn:Er; [|discriminate]. inversion Hs; subst; clear Hs; cbn.
    intuition congruence.
  - destruct (negb (l_reachable s) && negb (l_finalized s)) eqn:E; [|discriminate].
    inversion Hs; subst; clear Hs; cbn. intuition congruence.
  - destruct (l_jan s) eqn:Ej; try discriminate. inversion Hs; subst; clear Hs; cbn.
    intuition congruence.
  - destruct (l_jan s) eqn:Ej; try discriminate. destruct (l_stop_closed s) eqn:Ec; [|discriminate].
    inversion Hs; subst; clear Hs; cbn. intuition congruence.
Qed.

Theorem linv_run started tr : forall s s', linv started s -> lrun s tr = Some s' -> linv started s'.
Proof.
  induction tr as [|a t IH]; intros s s' Hi Hr; cbn in Hr.
  - inversion Hr; subst; auto.
  - destruct (lstep s a) as [s1|] eqn:E; [|discriminate]. eapply IH; [eapply linv_step; eauto | exact Hr].
Qed.

(* a cache built without a janitor never cleans on its own *)
Theorem no_janitor_no_ticks tr s : lrun (born false) tr = Some s -> l_ticks s = 0%nat /\ l_jan s = JNone.
Proof.
  intros H. pose proof (linv_run false tr _ _ (linv_born false) H) as [H1 _]. destruct (H1 eq_refl); auto.
Qed.

(* while the cache is reachable its janitor keeps running: it cannot have returned *)
Theorem janitor_alive_while_reachable tr s :
  lrun (born true) tr = Some s -> l_reachable s = true -> l_jan s = JRunning.
Proof.
  intros H Hr. pose proof (linv_run true tr _ _ (linv_born true) H) as [_ [H2 [H3 [H4 H5]]]].
  destruct (l_jan s) eqn:Ej; auto.
  - exfalso. apply H5; auto.
  - exfalso. specialize (H4 eq_refl). specialize (H2 H4). specialize (H3 H2). congruence.
Qed.

(* once it has observed stop it never ticks again: no transition at all *)
Theorem returned_is_final s a : l_jan s = JReturned -> a = LTick \/ a = LObserveStop -> lstep s a = None.
Proof. intros Hj [->| ->]; cbn; rewrite Hj; reflexivity. Qed.

(* and from every state of a dropped cache the janitor can still be stopped:
   finalize (if not yet), then observe *)
Theorem can_always_stop tr s :
  lrun (born true) tr = Some s -> l_reachable s = false ->
  exists tr' s', lrun s tr' = Some s' /\ l_jan s' = JReturned /\ (length tr' <= 2)%nat.
Proof.
  intros H Hr. pose proof (linv_run true tr _ _ (linv_born true) H) as [_ [H2 [H3 [H4 H5]]]].
  destruct (l_jan s) eqn:Ej.
  - exfalso. apply H5; auto.
  - destruct (l_stop_closed s) eqn:Ec.
    + exists [LObserveStop]. eexists. cbn. rewrite Ej, Ec. cbn. split; [reflexivity|]. cbn. auto.
    + destruct (l_finalized s) eqn:Ef.
      * (* finalized but stop open: impossible -- the finalizer closes stop *)
        exfalso. clear - H Ec Ef.
        assert (G : forall tr s0 s, (l_finalized s0 = true -> l_stop_closed s0 = true) -> lrun s0 tr = Some s ->
                     (l_finalized s = true -> l_stop_closed s = true)).
        { clear. induction tr as [|a t IH]; intros s0 s1 Hi Hrun; cbn in Hrun; [inversion Hrun; subst; auto|].
          destruct (lstep s0 a) as [s2|] eqn:E; [|discriminate]. eapply IH; [|exact Hrun].
          destruct a; cbn in E.
          - destruct (l_reachable s0); inversion E; subst; cbn; auto.
          - destruct (negb (l_reachable s0) && negb (l_finalized s0)); inversion E; subst; cbn; auto.
          - destruct (l_jan s0); inversion E; subst; cbn; auto.
          - destruct (l_jan s0); try discriminate. destruct (l_stop_closed s0); inversion E; subst; cbn; auto. }
        specialize (G tr (born true) s (fun H => ltac:(discriminate H)) H Ef). congruence.
      * exists [LFinalize; LObserveStop]. eexists. cbn. rewrite Hr, Ef. cbn. rewrite Ej. cbn.
        split; [reflexivity|]. cbn. auto.
  - exists []. exists s. cbn. auto.
Qed.
