(* X_swar.v -- the SWAR byte search of internal/xsync/util.go (markZeroBytes on
   the packed meta word, as modelled by XExec.probe_swar) visits every slot of a
   bucket whose meta byte equals the searched 7-bit tag and never a slot marked
   empty (0x80): the two hypotheses about [probe] under which the XMachine
   theorems are proved hold for the extracted instance. *)
From CacheV Require Import Base SpecMap XMachine TabExec Exec XExec.
From CacheV.gen Require Import Params.
From Coq Require Import NArith ZArith Lia ZifyN ZifyBool ZifyNat.
Ltac Zify.zify_post_hook ::= Z.div_mod_to_equations.
Local Open Scope N_scope.

Definition byte (X : N) (i : nat) : N := (X / 2 ^ N.of_nat (8 * i)) mod 256.

Lemma bit_byte X i r : (r < 8)%N -> N.testbit X (N.of_nat (8 * i) + r) = N.testbit (byte X i) r.
Proof.
  intros Hr. unfold byte. change 256 with (2 ^ 8). rewrite N.mod_pow2_bits_low by exact Hr.
  rewrite N.div_pow2_bits. f_equal. lia.
Qed.

Lemma byte_bits X i r : N.testbit (byte X i) r = if r <? 8 then N.testbit X (N.of_nat (8 * i) + r) else false.
Proof.
  destruct (r <? 8) eqn:E.
  - apply N.ltb_lt in E. symmetry. apply bit_byte. exact E.
  - apply N.ltb_ge in E. unfold byte. change 256 with (2 ^ 8). apply N.mod_pow2_bits_high. exact E.
Qed.

Lemma byte_lxor X Y i : byte (N.lxor X Y) i = N.lxor (byte X i) (byte Y i).
Proof.
  apply N.bits_inj. intros r. rewrite N.lxor_spec, !byte_bits. destruct (r <? 8); [apply N.lxor_spec | reflexivity].
Qed.

Lemma testbit7 b : b < 256 -> N.testbit b 7 = (128 <=? b).
Proof.
  intros H. destruct (128 <=? b) eqn:E.
  - apply N.testbit_true. apply N.leb_le in E. change (2 ^ 7) with 128. lia.
  - apply N.testbit_false. apply N.leb_gt in E. change (2 ^ 7) with 128. lia.
Qed.

(* ---------------- the packed meta word, byte by byte ---------------- *)

Definition bv (tags : list (option N)) (j : nat) : N :=
  match nth_error tags j with Some t => byte_of t | None => Z.to_N emptyMetaSlot end.

Lemma bv_nth tags j : bv tags j = byte_of (nth j tags None).
Proof.
  unfold bv. destruct (nth_error tags j) eqn:E.
  - rewrite (nth_error_nth _ _ _ E). reflexivity.
  - apply nth_error_None in E. rewrite nth_overflow by exact E. reflexivity.
Qed.

Definition tags_ok (tags : list (option N)) : Prop := forall j x, nth j tags None = Some x -> x < 128.

Lemma bv_lt tags j : tags_ok tags -> bv tags j < 256.
Proof.
  intros H. rewrite bv_nth. destruct (nth j tags None) as [x|] eqn:E; cbn.
  - specialize (H j x E). lia.
  - vm_compute. reflexivity.
Qed.

Lemma pack8 tags :
  pack_meta tags = bv tags 0 + (bv tags 1 * 2^8 + (bv tags 2 * 2^16 + (bv tags 3 * 2^24 + (bv tags 4 * 2^32
                   + (bv tags 5 * 2^40 + (bv tags 6 * 2^48 + (bv tags 7 * 2^56 + 0))))))).
Proof.
  unfold pack_meta. cbn [pack_from]. fold (bv tags 0) (bv tags 1) (bv tags 2) (bv tags 3) (bv tags 4) (bv tags 5) (bv tags 6) (bv tags 7).
  rewrite !N.shiftl_mul_pow2. cbn [Nat.mul Nat.add N.of_nat Pos.of_succ_nat Pos.succ]. rewrite N.mul_1_r. reflexivity.
Qed.

Ltac pows := change (2 ^ 8) with 256 in *; change (2 ^ 16) with 65536 in *; change (2 ^ 24) with 16777216 in *;
             change (2 ^ 32) with 4294967296 in *; change (2 ^ 40) with 1099511627776 in *;
             change (2 ^ 48) with 281474976710656 in *; change (2 ^ 56) with 72057594037927936 in *.

Lemma byte_sum8 b0 b1 b2 b3 b4 b5 b6 b7 i :
  b0 < 256 -> b1 < 256 -> b2 < 256 -> b3 < 256 -> b4 < 256 -> b5 < 256 -> b6 < 256 -> b7 < 256 -> (i < 8)%nat ->
  byte (b0 + (b1 * 2^8 + (b2 * 2^16 + (b3 * 2^24 + (b4 * 2^32 + (b5 * 2^40 + (b6 * 2^48 + (b7 * 2^56 + 0)))))))) i
  = nth i [b0; b1; b2; b3; b4; b5; b6; b7] 0.
Proof.
  intros H0 H1 H2 H3 H4 H5 H6 H7 Hi. unfold byte.
  destruct i as [|[|[|[|[|[|[|[|i]]]]]]]]; try lia; cbn [Nat.mul Nat.add N.of_nat Pos.of_succ_nat Pos.succ nth];
    pows; [ change (2 ^ 0) with 1 | change (2 ^ 8) with 256 | change (2 ^ 16) with 65536 | change (2 ^ 24) with 16777216
          | change (2 ^ 32) with 4294967296 | change (2 ^ 40) with 1099511627776 | change (2 ^ 48) with 281474976710656
          | change (2 ^ 56) with 72057594037927936 ]; lia.
Qed.

Lemma byte_pack tags i : tags_ok tags -> (i < 8)%nat -> byte (pack_meta tags) i = bv tags i.
Proof.
  intros Hok Hi. rewrite pack8.
  rewrite (byte_sum8 _ _ _ _ _ _ _ _ i (bv_lt tags 0 Hok) (bv_lt tags 1 Hok) (bv_lt tags 2 Hok) (bv_lt tags 3 Hok)
                     (bv_lt tags 4 Hok) (bv_lt tags 5 Hok) (bv_lt tags 6 Hok) (bv_lt tags 7 Hok) Hi).
  destruct i as [|[|[|[|[|[|[|[|i]]]]]]]]; try lia; reflexivity.
Qed.

Lemma broadcast8 tg : tg < 128 ->
  broadcast tg = tg + (tg * 2^8 + (tg * 2^16 + (tg * 2^24 + (tg * 2^32 + (tg * 2^40 + (tg * 2^48 + (tg * 2^56 + 0))))))).
Proof. intros H. unfold broadcast, w64. pows. lia. Qed.

Lemma byte_bcast tg i : tg < 128 -> (i < 8)%nat -> byte (broadcast tg) i = tg.
Proof.
  intros H Hi. rewrite (broadcast8 tg H).
  assert (H' : tg < 256) by lia.
  rewrite (byte_sum8 tg tg tg tg tg tg tg tg i H' H' H' H' H' H' H' H' Hi).
  destruct i as [|[|[|[|[|[|[|[|i]]]]]]]]; try lia; reflexivity.
Qed.

(* ---------------- markZeroBytes ---------------- *)

Definition ones64 : N := w64 - 1.

Lemma ones64_bit n : n < 64 -> N.testbit ones64 n = true.
Proof. intros H. change ones64 with (N.ones 64). apply N.ones_spec_low. exact H. Qed.

(* a byte whose top bit is set is never marked *)
Lemma mz_sound W i : (i < 8)%nat -> N.testbit (markZeroBytes W) (N.of_nat (8 * i) + 7) = true -> N.testbit (byte W i) 7 = false.
Proof.
  intros Hi H. unfold markZeroBytes in H. rewrite !N.land_spec in H. apply andb_true_iff in H. destruct H as [H _].
  apply andb_true_iff in H. destruct H as [_ H]. rewrite N.lxor_spec in H.
  change (w64 - 1) with ones64 in H. rewrite ones64_bit in H by lia.
  rewrite <- (bit_byte W i 7) by lia. destruct (N.testbit W (N.of_nat (8 * i) + 7)); [discriminate | reflexivity].
Qed.

(* a zero byte is always marked, whatever the bytes below it (borrow or not) *)
Lemma mz_sub_bit W i : (i < 8)%nat -> byte W i = 0 ->
  N.testbit ((W + w64 - 72340172838076673) mod w64) (N.of_nat (8 * i) + 7) = true.
Proof.
  intros Hi Hz. apply N.testbit_true. unfold byte in Hz. unfold w64.
  destruct i as [|[|[|[|[|[|[|[|i]]]]]]]]; try lia; cbn [Nat.mul Nat.add N.of_nat Pos.of_succ_nat Pos.succ N.add Pos.add Pos.add_carry] in *.
Qed.

Lemma c80_bit i : (i < 8)%nat -> N.testbit 9259542123273814144 (N.of_nat (8 * i) + 7) = true.
Proof. intros Hi. destruct i as [|[|[|[|[|[|[|[|i]]]]]]]]; try lia; vm_compute; reflexivity. Qed.

Lemma mz_complete W i : (i < 8)%nat -> byte W i = 0 -> N.testbit (markZeroBytes W) (N.of_nat (8 * i) + 7) = true.
Proof.
  intros Hi Hz. unfold markZeroBytes. rewrite !N.land_spec. rewrite (mz_sub_bit W i Hi Hz), (c80_bit i Hi).
  rewrite N.lxor_spec. change (w64 - 1) with ones64. rewrite ones64_bit by lia.
  rewrite (bit_byte W i 7) by lia. rewrite Hz. reflexivity.
Qed.

(* ---------------- the probe ---------------- *)

Lemma marked_in m : forall n i0 i, In i (marked_indices m i0 n) <-> ((i0 <= i < i0 + n)%nat /\ N.testbit m (N.of_nat (8 * i + 7)) = true).
Proof.
  induction n as [|n IH]; intros i0 i; cbn [marked_indices].
  - split; [intros [] | intros [H _]; lia].
  - rewrite in_app_iff, IH. split.
    + intros [H|[H1 H2]].
      * destruct (N.testbit m (N.of_nat (8 * i0 + 7))) eqn:E; [|contradiction]. destruct H as [<-|[]]. split; [lia | exact E].
      * split; [lia | exact H2].
    + intros [H1 H2]. destruct (Nat.eq_dec i i0) as [->|Hne].
      * left. rewrite H2. left. reflexivity.
      * right. split; [lia | exact H2].
Qed.

Lemma mask_bit i : (i < 8)%nat -> N.testbit (Z.to_N metaMask) (N.of_nat (8 * i) + 7) = Nat.ltb i 5.
Proof. intros Hi. destruct i as [|[|[|[|[|[|[|[|i]]]]]]]]; try lia; vm_compute; reflexivity. Qed.

Lemma probe_swar_in tags tg i :
  In i (probe_swar tags tg) <->
  ((i < 5)%nat /\ N.testbit (markZeroBytes (N.lxor (pack_meta tags) (broadcast tg))) (N.of_nat (8 * i) + 7) = true).
Proof.
  unfold probe_swar. cbv zeta. rewrite marked_in. replace (N.of_nat (8 * i + 7)) with (N.of_nat (8 * i) + 7) by lia.
  rewrite N.land_spec. split.
  - intros [H1 H2]. apply andb_true_iff in H2. destruct H2 as [A B]. rewrite mask_bit in B by lia. apply Nat.ltb_lt in B. auto.
  - intros [H1 H2]. split; [lia|]. rewrite H2, mask_bit by lia. apply Nat.ltb_lt in H1. rewrite H1. reflexivity.
Qed.

Theorem probe_swar_sound tags tg i : tags_ok tags -> tg < 128 ->
  In i (probe_swar tags tg) -> (i < length tags)%nat /\ nth i tags None <> None.
Proof.
  intros Hok Htg Hin. apply probe_swar_in in Hin. destruct Hin as [Hi Hb].
  apply mz_sound in Hb; [|lia]. rewrite byte_lxor, byte_pack, byte_bcast in Hb by (assumption || lia).
  rewrite N.lxor_spec in Hb. rewrite (testbit7 tg) in Hb by lia. rewrite (testbit7 (bv tags i) (ltac:(apply bv_lt; exact Hok))) in Hb.
  replace (128 <=? tg) with false in Hb by (symmetry; apply N.leb_gt; exact Htg). rewrite xorb_false_r in Hb.
  apply N.leb_gt in Hb. rewrite bv_nth in Hb.
  destruct (Nat.lt_ge_cases i (length tags)) as [Hl|Hl].
  - split; [exact Hl|]. intros E. rewrite E in Hb. vm_compute in Hb. discriminate.
  - exfalso. rewrite nth_overflow in Hb by exact Hl. vm_compute in Hb. discriminate.
Qed.

Theorem probe_swar_complete tags tg i : tags_ok tags -> tg < 128 -> (length tags <= 5)%nat ->
  (i < length tags)%nat -> nth i tags None = Some tg -> In i (probe_swar tags tg).
Proof.
  intros Hok Htg Hlen Hi Hn. apply probe_swar_in. split; [lia|]. apply mz_complete; [lia|].
  rewrite byte_lxor, byte_pack, byte_bcast by (assumption || lia). rewrite bv_nth, Hn. cbn [byte_of]. apply N.lxor_nilpotent.
Qed.

(* the probe of the executable machine, on every input *)
Lemma probe_valid_spec tags tg : probe_valid tags tg = true -> (length tags <= 5)%nat /\ tg < 128 /\ tags_ok tags.
Proof.
  unfold probe_valid. intros H. apply andb_true_iff in H. destruct H as [H H3]. apply andb_true_iff in H. destruct H as [H1 H2].
  split; [apply Nat.leb_le in H1; exact H1|]. split; [apply N.ltb_lt; exact H2|].
  intros j x E. rewrite forallb_forall in H3.
  destruct (Nat.lt_ge_cases j (length tags)) as [Hl|Hl]; [|rewrite nth_overflow in E by exact Hl; discriminate].
  specialize (H3 (nth j tags None) (nth_In _ _ Hl)). rewrite E in H3. apply N.ltb_lt. exact H3.
Qed.

Theorem probe_x_sound tags tg i : In i (probe_x tags tg) -> (i < length tags)%nat /\ nth i tags None <> None.
Proof.
  unfold probe_x. destruct (probe_valid tags tg) eqn:E.
  - destruct (probe_valid_spec tags tg E) as [_ [H2 H3]]. apply probe_swar_sound; assumption.
  - unfold probe_exact. intros H. apply filter_In in H. destruct H as [H1 H2]. apply in_seq in H1.
    split; [lia|]. destruct (nth i tags None); [discriminate | discriminate].
Qed.

Theorem probe_x_complete tags tg i : (i < length tags)%nat -> nth i tags None = Some tg -> In i (probe_x tags tg).
Proof.
  intros Hi Hn. unfold probe_x. destruct (probe_valid tags tg) eqn:E.
  - destruct (probe_valid_spec tags tg E) as [H1 [H2 H3]]. apply probe_swar_complete; assumption.
  - unfold probe_exact. apply filter_In. split; [apply in_seq; lia|]. rewrite Hn. apply N.eqb_refl.
Qed.

(* ---------------- the executable instance meets every hypothesis of the XMachine theorems ---------------- *)
From CacheV.proofs Require Import X_basic X_inv X_c13 X_inst X_own X_chain X_c04 X_lin.

Theorem x_instance_hyps4 hint :
  xhyps4 idx_mapof nstripes_x (minlen_of_hint true hint) (Z.to_nat entriesPerMapOfBucket) probe_x.
Proof.
  split; [apply x_instance_hyps|]. split; [vm_compute; lia|].
  split; [intros tags tg i; apply probe_x_sound | intros tags tg i; apply probe_x_complete].
Qed.
