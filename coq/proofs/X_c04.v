(* X_c04.v -- the cells of XMachine's tables in every reachable state (XC):
   every published chain is a whole number of buckets, holds each key at most
   once, every slot is free, completely written (in its key's home chain, with
   its key's tag) or in the middle of the two-store insert / delete of the
   thread that holds the bucket lock; every writer's program counter tells the
   truth about its locked chain; the resizer's unpublished table is clean and
   holds only keys of the buckets copied so far. *)
From CacheV Require Import Base SpecMap XMachine.
From CacheV.proofs Require Import X_basic X_inv X_c13 X_own X_chain.
From Coq Require Import NArith.
Local Open Scope nat_scope.

Section C04.
  Context {K V : Type}.
  Variable eqd : forall a b : K, {a = b} + {a <> b}.
  Variable hash : K -> N -> N.
  Variable idx : N -> nat -> nat.
  Variable tag : N -> N.
  Variable nslots : nat.
  Variable seeds : nat -> N.
  Variable grow_needed : nat -> Z -> bool.
  Variable shrink_policy : nat -> Z -> bool.
  Variable probe : list (option N) -> N -> list nat.
  Variable nstripes : nat -> nat.
  Variable minlen : nat.
  Variable grow_only : bool.

  Hypothesis Hidx : forall h len, 0 < len -> idx h len < len.
  Hypothesis Hstripes : forall len, 0 < nstripes len.
  Hypothesis Hminlen : 0 < minlen.
  Hypothesis Hnslots : 0 < nslots.
  Hypothesis Hprobe_sound : forall tags tg i, In i (probe tags tg) -> i < length tags /\ nth i tags None <> None.
  Hypothesis Hprobe_complete : forall tags tg i, i < length tags -> nth i tags None = Some tg -> In i (probe tags tg).

  Notation xtable := (@xtable K V).
  Notation xstate := (@xstate K V).
  Notation pc := (@pc K V).
  Notation slot := (@slot K V).
  Notation empty_slot := (@empty_slot K V).
  Notation tab_at := (@tab_at K V nslots nstripes).
  Notation home := (@home K V hash idx).
  Notation step_pc := (@step_pc K V eqd hash idx tag nslots seeds grow_needed shrink_policy probe nstripes minlen grow_only).
  Notation xstep := (@xstep K V eqd hash idx tag nslots seeds grow_needed shrink_policy probe nstripes minlen grow_only).
  Notation xrun := (@xrun K V eqd hash idx tag nslots seeds grow_needed shrink_policy probe nstripes minlen grow_only).
  Notation XInv := (@X_inv.XInv K V hash idx nslots nstripes).
  Notation XT := (@X_own.XT K V).
  Notation holds := (@holds K V hash idx nslots nstripes).
  Notation valid := (@valid K V hash idx nslots nstripes).
  Notation shaped := (@shaped K V nslots).
  Notation clean_table := (@clean_table K V hash idx tag nslots).
  Notation tent := (@tent K V).

  Definition chain (s : xstate) (tab b : nat) : list slot := chain_of (tab_at s tab) b.
  Definition hkey (s : xstate) (tab : nat) (k : K) : nat := home (tab_at s tab) k.
  Definition ktag (s : xstate) (tab : nat) (k : K) : N := tag (hash k (x_seed (tab_at s tab))).

  (* what a writer's program counter says about the chain it has locked *)
  Definition pcfact (s : xstate) (p : pc) : Prop :=
    match p with
    | PW_D1 cx tab pos old =>
        let c := chain s tab (hkey s tab (cx_k cx)) in
        pos < length c /\ ent_at c pos = Some (cx_k cx, old) /\ tag_at c pos <> None
    | PW_U1 cx tab pos old _ =>
        let c := chain s tab (hkey s tab (cx_k cx)) in
        pos < length c /\ ent_at c pos = Some (cx_k cx, old) /\ tag_at c pos <> None
    | PW_D2 cx tab pos old =>
        let c := chain s tab (hkey s tab (cx_k cx)) in
        pos < length c /\ ent_at c pos = Some (cx_k cx, old) /\ tag_at c pos = None
    | PW_I1 cx tab pos _ =>
        let c := chain s tab (hkey s tab (cx_k cx)) in
        pos < length c /\ ent_at c pos = None /\ tag_at c pos = None /\ ~ has_key c (cx_k cx)
    | PW_I2 cx tab pos _ =>
        let c := chain s tab (hkey s tab (cx_k cx)) in
        pos < length c /\ ent_at c pos = None /\ tag_at c pos = Some (ktag s tab (cx_k cx)) /\ ~ has_key c (cx_k cx)
    | PW_Sum cx tab _ _ | PW_N1 cx tab _ => ~ has_key (chain s tab (hkey s tab (cx_k cx))) (cx_k cx)
    | _ => True
    end.

  Definition slot_ok (s : xstate) (tab b pos : nat) (sl : slot) : Prop :=
    match s_tag sl, s_ent sl with
    | Some tg, Some (k, v) => hkey s tab k = b /\ tg = ktag s tab k
    | None, None => True
    | Some tg, None => exists t cx nv, g_pc s t = PW_I2 cx tab pos nv /\ hkey s tab (cx_k cx) = b
    | None, Some (k, v) => exists t cx, g_pc s t = PW_D2 cx tab pos v /\ cx_k cx = k /\ hkey s tab k = b
    end.

  Definition chain_inv (s : xstate) (tab b : nat) : Prop :=
    let c := chain s tab b in
    shaped c /\ uniq c /\ forall pos, pos < length c -> slot_ok s tab b pos (nth pos c empty_slot).

  Definition copied (s : xstate) (p : pc) : Prop :=
    match p with
    | PR_CpLock _ _ tab new i => forall k v, tent (tab_at s new) k v -> hkey s tab k < i
    | PR_CpUnlock _ _ tab new i => forall k v, tent (tab_at s new) k v -> hkey s tab k < S i
    | _ => True
    end.

  Record XC (s : xstate) : Prop := {
    xc_ch : forall tab b, tab < length (g_tabs s) -> (forall t, newtab (g_pc s t) <> Some tab) ->
                          b < x_len (tab_at s tab) -> chain_inv s tab b;
    xc_pc : forall t, pcfact s (g_pc s t);
    xc_new : forall t new, newtab (g_pc s t) = Some new -> clean_table (tab_at s new) /\ copied s (g_pc s t);
  }.

  (* ---------------- states that agree on tables ---------------- *)

  (* s' has the tables of s (maybe more), and the same cells in the old ones *)
  Definition same_cells (s s' : xstate) : Prop :=
    length (g_tabs s) <= length (g_tabs s') /\
    forall tab, tab < length (g_tabs s) ->
      x_chains (tab_at s' tab) = x_chains (tab_at s tab) /\ x_seed (tab_at s' tab) = x_seed (tab_at s tab).

  Lemma same_cells_chain s s' tab b : same_cells s s' -> tab < length (g_tabs s) -> chain s' tab b = chain s tab b.
  Proof. intros [_ H] Ht. unfold chain, chain_of. destruct (H tab Ht) as [E _]. rewrite E. reflexivity. Qed.

  Lemma same_cells_hkey s s' tab k : same_cells s s' -> tab < length (g_tabs s) -> hkey s' tab k = hkey s tab k.
  Proof.
    intros [_ H] Ht. unfold hkey, XMachine.home, x_len. destruct (H tab Ht) as [E1 E2]. rewrite E1, E2. reflexivity.
  Qed.

  Lemma same_cells_ktag s s' tab k : same_cells s s' -> tab < length (g_tabs s) -> ktag s' tab k = ktag s tab k.
  Proof. intros [_ H] Ht. unfold ktag. destruct (H tab Ht) as [_ E2]. rewrite E2. reflexivity. Qed.

  Lemma same_cells_xlen s s' tab : same_cells s s' -> tab < length (g_tabs s) -> x_len (tab_at s' tab) = x_len (tab_at s tab).
  Proof. intros [_ H] Ht. unfold x_len. destruct (H tab Ht) as [E _]. rewrite E. reflexivity. Qed.

  Lemma same_cells_tent s s' tab k v : same_cells s s' -> tab < length (g_tabs s) ->
    (tent (tab_at s' tab) k v <-> tent (tab_at s tab) k v).
  Proof.
    intros [_ H] Ht. unfold X_chain.tent, x_len, chain_of. destruct (H tab Ht) as [E _]. rewrite E. tauto.
  Qed.

  Lemma same_cells_clean s s' tab : same_cells s s' -> tab < length (g_tabs s) ->
    clean_table (tab_at s tab) -> clean_table (tab_at s' tab).
  Proof.
    intros [_ H] Ht. unfold X_chain.clean_table, X_chain.clean_chain, x_len, chain_of, XMachine.home, x_len.
    destruct (H tab Ht) as [E1 E2]. rewrite E1, E2. tauto.
  Qed.

  (* table index of a writer pc that talks about a chain *)
  Definition wtab (p : pc) : option nat :=
    match p with
    | PW_D1 _ tab _ _ | PW_D2 _ tab _ _ | PW_U1 _ tab _ _ _ | PW_I1 _ tab _ _ | PW_I2 _ tab _ _
    | PW_Sum _ tab _ _ | PW_N1 _ tab _ => Some tab
    | _ => None
    end.

  Lemma pcfact_same s s' p : same_cells s s' -> (forall tab, wtab p = Some tab -> tab < length (g_tabs s)) ->
    pcfact s p -> pcfact s' p.
  Proof.
    intros Hsc Hw. destruct p; cbn [pcfact]; auto;
      specialize (Hw _ eq_refl); rewrite ?(same_cells_hkey s s' _ _ Hsc Hw), ?(same_cells_ktag s s' _ _ Hsc Hw),
        ?(same_cells_chain s s' _ _ Hsc Hw); auto.
  Qed.


  Lemma slot_ok_same s s' tab b pos sl : same_cells s s' -> tab < length (g_tabs s) ->
    (forall u cx nv, g_pc s u = PW_I2 cx tab pos nv -> g_pc s' u = PW_I2 cx tab pos nv) ->
    (forall u cx v, g_pc s u = PW_D2 cx tab pos v -> g_pc s' u = PW_D2 cx tab pos v) ->
    slot_ok s tab b pos sl -> slot_ok s' tab b pos sl.
  Proof.
    intros Hsc Ht H1 H2. unfold slot_ok. destruct (s_tag sl) as [tg|], (s_ent sl) as [[k v]|]; auto.
    - rewrite (same_cells_hkey s s' _ _ Hsc Ht), (same_cells_ktag s s' _ _ Hsc Ht). auto.
    - intros [u [cx [nv [E1 E2]]]]. exists u, cx, nv. rewrite (same_cells_hkey s s' _ _ Hsc Ht). split; [apply H1; exact E1 | exact E2].
    - intros [u [cx [E1 [E2 E3]]]]. exists u, cx. rewrite (same_cells_hkey s s' _ _ Hsc Ht). split; [apply H2; exact E1 | auto].
  Qed.

  Lemma chain_inv_same s s' tab b : same_cells s s' -> tab < length (g_tabs s) ->
    (forall u cx pos nv, g_pc s u = PW_I2 cx tab pos nv -> g_pc s' u = PW_I2 cx tab pos nv) ->
    (forall u cx pos v, g_pc s u = PW_D2 cx tab pos v -> g_pc s' u = PW_D2 cx tab pos v) ->
    chain_inv s tab b -> chain_inv s' tab b.
  Proof.
    intros Hsc Ht H1 H2 [A [B C]]. unfold chain_inv. rewrite (same_cells_chain s s' _ _ Hsc Ht).
    split; [exact A|]. split; [exact B|]. intros pos Hp. eapply slot_ok_same; eauto.
  Qed.

  Lemma copied_same s s' p : same_cells s s' -> valid s p -> copied s p -> copied s' p.
  Proof.
    intros Hsc. destruct p; cbn [copied valid]; auto; intros [H1 [H2 _]] H k v Hk;
      rewrite (same_cells_hkey s s' _ _ Hsc H1); apply (H k v); apply (same_cells_tent s s' _ k v Hsc H2); exact Hk.
  Qed.

  Lemma wake_wtab (p : pc) : wake p = p \/ (wtab (wake p) = None /\ wtab p = None /\ newtab (wake p) = None /\ newtab p = None).
  Proof. destruct p; try (left; reflexivity). right. cbn. auto. Qed.

  Lemma clean_chain_inv s tab b : clean_table (tab_at s tab) -> b < x_len (tab_at s tab) -> chain_inv s tab b.
  Proof.
    intros [_ Hc] Hb. destruct (Hc b Hb) as [C1 [C2 [C3 C4]]]. split; [exact C1|]. split; [exact C2|].
    intros pos Hp. unfold slot_ok. fold (chain s tab b).
    pose proof (C3 pos Hp) as Hst. unfold tag_at, ent_at in Hst. fold (chain s tab b) in Hst.
    destruct (s_ent (nth pos (chain s tab b) empty_slot)) as [[k v]|] eqn:E.
    - destruct (C4 pos k v Hp E) as [Hh Ht]. unfold tag_at in Ht. fold (chain s tab b) in Ht. rewrite Ht. auto.
    - destruct Hst as [_ Hst]. rewrite (Hst eq_refl). exact I.
  Qed.

  (* a step that stores into no chain cell; the stepping thread keeps its (non-)ownership of a new table *)
  Lemma XC_frame s S0 t q :
    XInv s -> XT s -> XC s -> same_cells s S0 -> length (g_tabs S0) = length (g_tabs s) ->
    (forall t', t' <> t -> g_pc S0 t' = g_pc s t' \/ g_pc S0 t' = wake (g_pc s t')) ->
    (forall cx tab pos v, g_pc s t <> PW_I2 cx tab pos v) -> (forall cx tab pos v, g_pc s t <> PW_D2 cx tab pos v) ->
    pcfact s q -> (forall tab, wtab q = Some tab -> tab < length (g_tabs s)) ->
    (newtab q = newtab (g_pc s t) \/ newtab q = None) ->
    (forall new, newtab q = Some new -> copied S0 q) ->
    XC (set_pc S0 t (norm q)).
  Proof.
    intros HI HT HC Hsc Hlen Hoth HnI2 HnD2 Hq Hqt Hnt Hcp.
    set (s' := set_pc S0 t (norm q)).
    assert (Hsc' : same_cells s s') by exact Hsc.
    assert (Hpc' : forall t', t' <> t -> g_pc s' t' = g_pc s t' \/ (g_pc s' t' = wake (g_pc s t') /\ wtab (g_pc s t') = None /\ newtab (g_pc s t') = None
                                                       /\ wtab (g_pc s' t') = None /\ newtab (g_pc s' t') = None)).
    { intros t' Hne. unfold s'. cbn [set_pc g_pc]. destruct (Nat.eq_dec t' t); [contradiction|].
      destruct (Hoth t' Hne) as [E|E]; [left; exact E|]. rewrite E.
      destruct (wake_wtab (g_pc s t')) as [W|[W1 [W2 [W3 W4]]]]; [left; exact W | right; auto]. }
    assert (Hself : g_pc s' t = norm q) by (unfold s'; cbn [set_pc g_pc]; destruct (Nat.eq_dec t t); congruence).
    assert (Hwit_I2 : forall tab u cx pos nv, g_pc s u = PW_I2 cx tab pos nv -> g_pc s' u = PW_I2 cx tab pos nv).
    { intros tab u cx pos nv E. destruct (Nat.eq_dec u t) as [->|Hne]; [exfalso; eapply HnI2; exact E|].
      destruct (Hpc' u Hne) as [E'|[E' [W _]]]; [congruence | rewrite E in W; discriminate]. }
    assert (Hwit_D2 : forall tab u cx pos v, g_pc s u = PW_D2 cx tab pos v -> g_pc s' u = PW_D2 cx tab pos v).
    { intros tab u cx pos v E. destruct (Nat.eq_dec u t) as [->|Hne]; [exfalso; eapply HnD2; exact E|].
      destruct (Hpc' u Hne) as [E'|[E' [W _]]]; [congruence | rewrite E in W; discriminate]. }
    assert (Hnewtab : forall t', t' <> t -> newtab (g_pc s' t') = newtab (g_pc s t')).
    { intros t' Hne. destruct (Hpc' t' Hne) as [E|[_ [_ [W1 [_ W2]]]]]; congruence. }
    assert (Hnewt : forall new, newtab (g_pc s' t) = Some new -> newtab (g_pc s t) = Some new).
    { intros new E. rewrite Hself, norm_newtab in E. destruct Hnt as [H|H]; congruence. }
    constructor.
    - intros tab b Htab Hpub Hb. change (g_tabs s') with (g_tabs S0) in Htab. rewrite Hlen in Htab.
      rewrite (same_cells_xlen s s' tab Hsc' Htab) in Hb.
      destruct (newtab (g_pc s t)) as [nw|] eqn:Ent; [destruct (Nat.eq_dec nw tab) as [->|Hnw]|].
      + (* the table is being published by this step *)
        destruct (xc_new s HC t tab Ent) as [C1 _]. apply clean_chain_inv.
        * apply (same_cells_clean s s' tab Hsc' Htab C1).
        * rewrite (same_cells_xlen s s' tab Hsc' Htab). exact Hb.
      + apply (chain_inv_same s s' tab b Hsc' Htab (Hwit_I2 tab) (Hwit_D2 tab)).
        apply (xc_ch s HC tab b Htab); [|exact Hb]. intros t' E. destruct (Nat.eq_dec t' t) as [->|Hne]; [congruence|].
        apply (Hpub t'). rewrite Hnewtab by exact Hne. exact E.
      + apply (chain_inv_same s s' tab b Hsc' Htab (Hwit_I2 tab) (Hwit_D2 tab)).
        apply (xc_ch s HC tab b Htab); [|exact Hb]. intros t' E. destruct (Nat.eq_dec t' t) as [->|Hne]; [congruence|].
        apply (Hpub t'). rewrite Hnewtab by exact Hne. exact E.
    - intros t'. destruct (Nat.eq_dec t' t) as [->|Hne].
      + rewrite Hself. apply (pcfact_same s s' (norm q) Hsc').
        * intros tab E. apply Hqt. destruct q; cbn in *; congruence.
        * destruct q; cbn in *; auto.
      + destruct (Hpc' t' Hne) as [E|[E [W1 [_ [W2 _]]]]].
        * rewrite E. apply (pcfact_same s s' _ Hsc'); [|apply (xc_pc s HC)].
          intros tab Ew. pose proof (xi_valid _ _ _ _ s HI t') as Hv. destruct (g_pc s t'); cbn in Ew, Hv; try discriminate; inversion Ew; subst; tauto.
        * destruct (g_pc s' t'); cbn in W2; try discriminate; exact I.
    - intros t' new E.
      assert (E0 : newtab (g_pc s t') = Some new).
      { destruct (Nat.eq_dec t' t) as [->|Hne]; [apply Hnewt; exact E | rewrite <- Hnewtab by exact Hne; exact E]. }
      clear E. rename E0 into E.
      assert (Hnew : new < length (g_tabs s)).
      { destruct (xt_new s HT t' new E) as [A _]. lia. }
      destruct (xc_new s HC t' new E) as [C1 C2]. split; [apply (same_cells_clean s s' new Hsc' Hnew C1)|].
      destruct (Nat.eq_dec t' t) as [->|Hne].
      + rewrite Hself. destruct (newtab q) as [nq|] eqn:Eq.
        * assert (Hcq : copied S0 q) by (apply (Hcp nq); reflexivity). destruct q; try exact I; exact Hcq.
        * destruct q; try exact I; discriminate.
      + destruct (Hpc' t' Hne) as [E'|[_ [_ [W _]]]]; [|congruence]. rewrite E'.
        apply (copied_same s s' _ Hsc' (xi_valid _ _ _ _ s HI t') C2).
  Qed.


  Lemma nth_repeat_lt {X} (x d : X) n i : i < n -> nth i (repeat x n) d = x.
  Proof. revert i. induction n as [|n IH]; intros i H; [lia|]. destruct i; [reflexivity|]. cbn. apply IH. lia. Qed.

  Lemma clean_new len seed : 0 < len -> clean_table (new_xtable nslots nstripes len seed).
  Proof.
    intros Hl. split; [unfold x_len, new_xtable; cbn; rewrite repeat_length; exact Hl|].
    intros b Hb. unfold x_len, new_xtable in Hb. cbn in Hb. rewrite repeat_length in Hb.
    unfold X_chain.clean_chain, chain_of, new_xtable. cbn [x_chains]. rewrite (nth_repeat_lt _ _ _ _ Hb).
    assert (Hnth : forall pos, nth pos (repeat empty_slot nslots) empty_slot = empty_slot).
    { intros pos. destruct (Nat.lt_ge_cases pos nslots); [apply nth_repeat | apply nth_overflow; rewrite repeat_length; assumption]. }
    split; [exists 1; rewrite repeat_length; lia|]. split.
    - intros p1 p2 k v1 v2 _ _ E. unfold ent_at in E. rewrite Hnth in E. discriminate.
    - split.
      + intros pos _. unfold tag_at, ent_at. rewrite Hnth. cbn. tauto.
      + intros pos k v _ E. unfold ent_at in E. rewrite Hnth in E. discriminate.
  Qed.

  Lemma tent_new len seed k v : ~ tent (new_xtable nslots nstripes len seed) k v.
  Proof.
    intros [b [pos [Hb [Hp E]]]]. unfold x_len, new_xtable in Hb. cbn in Hb. rewrite repeat_length in Hb.
    unfold chain_of, new_xtable, ent_at in E. cbn [x_chains] in E. rewrite (nth_repeat_lt _ _ _ _ Hb) in E.
    destruct (Nat.lt_ge_cases pos nslots); [rewrite nth_repeat in E | rewrite nth_overflow in E by (rewrite repeat_length; assumption)]; discriminate.
  Qed.

  (* the resizer allocates its new table *)
  Lemma XC_push s S0 t q len seed :
    XInv s -> XT s -> XC s -> 0 < len ->
    g_tabs S0 = g_tabs s ++ [new_xtable nslots nstripes len seed] ->
    (forall t', t' <> t -> g_pc S0 t' = g_pc s t') ->
    resizer (g_pc s t) = true -> newtab (g_pc s t) = None ->
    wtab q = None -> newtab q = Some (length (g_tabs s)) -> copied S0 q ->
    XC (set_pc S0 t (norm q)).
  Proof.
    intros HI HT HC Hlen Htabs Hoth Hrz Hnt0 Hwq Hnq Hcq.
    set (s' := set_pc S0 t (norm q)).
    assert (Hold : forall tab, tab < length (g_tabs s) -> tab_at s' tab = tab_at s tab).
    { intros tab Ht. unfold s', XMachine.tab_at. cbn [set_pc g_tabs]. rewrite Htabs. apply app_nth1. exact Ht. }
    assert (Hnewt : tab_at s' (length (g_tabs s)) = new_xtable nslots nstripes len seed).
    { unfold s', XMachine.tab_at. cbn [set_pc g_tabs]. rewrite Htabs, app_nth2 by lia. rewrite Nat.sub_diag. reflexivity. }
    assert (Hsc : same_cells s s').
    { split; [unfold s'; cbn [set_pc g_tabs]; rewrite Htabs, app_length; lia|]. intros tab Ht. rewrite (Hold tab Ht). auto. }
    assert (Hpc' : forall t', t' <> t -> g_pc s' t' = g_pc s t').
    { intros t' Hne. unfold s'. cbn [set_pc g_pc]. destruct (Nat.eq_dec t' t); [contradiction | apply Hoth; exact Hne]. }
    assert (Hself : g_pc s' t = norm q) by (unfold s'; cbn [set_pc g_pc]; destruct (Nat.eq_dec t t); congruence).
    assert (Hnone : forall t', t' <> t -> newtab (g_pc s t') = None).
    { intros t' Hne. destruct (newtab (g_pc s t')) eqn:E; [|reflexivity]. exfalso. apply Hne.
      apply (xi_rzB _ _ _ _ s HI t' t); [eapply newtab_resizer; exact E | exact Hrz]. }
    assert (HnI2 : forall u cx tab pos nv, g_pc s u = PW_I2 cx tab pos nv -> g_pc s' u = PW_I2 cx tab pos nv).
    { intros u cx tab pos nv E. destruct (Nat.eq_dec u t) as [->|Hne]; [rewrite E in Hrz; discriminate | rewrite Hpc' by exact Hne; exact E]. }
    assert (HnD2 : forall u cx tab pos v, g_pc s u = PW_D2 cx tab pos v -> g_pc s' u = PW_D2 cx tab pos v).
    { intros u cx tab pos v E. destruct (Nat.eq_dec u t) as [->|Hne]; [rewrite E in Hrz; discriminate | rewrite Hpc' by exact Hne; exact E]. }
    constructor.
    - intros tab b Htab Hpub Hb.
      assert (Ht : tab < length (g_tabs s)).
      { unfold s' in Htab. cbn [set_pc g_tabs] in Htab. rewrite Htabs, app_length in Htab. cbn [length] in Htab.
        destruct (Nat.eq_dec tab (length (g_tabs s))) as [->|]; [|lia]. exfalso. apply (Hpub t). rewrite Hself, norm_newtab. exact Hnq. }
      rewrite (same_cells_xlen s s' tab Hsc Ht) in Hb.
      apply (chain_inv_same s s' tab b Hsc Ht); [intros; eapply HnI2; eassumption | intros; eapply HnD2; eassumption |].
      apply (xc_ch s HC tab b Ht); [|exact Hb]. intros t' E. destruct (Nat.eq_dec t' t) as [->|Hne]; [congruence|]. rewrite Hnone in E by exact Hne. discriminate.
    - intros t'. destruct (Nat.eq_dec t' t) as [->|Hne].
      + rewrite Hself. destruct q; cbn in Hwq; try discriminate; exact I.
      + rewrite Hpc' by exact Hne. apply (pcfact_same s s' _ Hsc); [|apply (xc_pc s HC)].
        intros tab Ew. pose proof (xi_valid _ _ _ _ s HI t') as Hv. destruct (g_pc s t'); cbn in Ew, Hv; try discriminate; inversion Ew; subst; tauto.
    - intros t' new E. destruct (Nat.eq_dec t' t) as [->|Hne].
      + rewrite Hself in *. rewrite norm_newtab in E. rewrite Hnq in E. inversion E; subst new. rewrite Hnewt.
        split; [apply clean_new; exact Hlen|]. destruct q; try exact I; exact Hcq.
      + rewrite Hpc' in E by exact Hne. rewrite Hnone in E by exact Hne. discriminate.
  Qed.


  (* ---------------- a writer stores into its locked chain ---------------- *)

  Definition agree (s s' : xstate) (tab b : nat) : Prop :=
    chain s' tab b = chain s tab b /\ x_len (tab_at s' tab) = x_len (tab_at s tab) /\ x_seed (tab_at s' tab) = x_seed (tab_at s tab).

  Lemma agree_hkey s s' tab b k : agree s s' tab b -> hkey s' tab k = hkey s tab k.
  Proof. intros [_ [E1 E2]]. unfold hkey, XMachine.home. rewrite E1, E2. reflexivity. Qed.
  Lemma agree_ktag s s' tab b k : agree s s' tab b -> ktag s' tab k = ktag s tab k.
  Proof. intros [_ [_ E2]]. unfold ktag. rewrite E2. reflexivity. Qed.

  Lemma chain_inv_agree s s' tab b : agree s s' tab b ->
    (forall u cx pos nv, g_pc s u = PW_I2 cx tab pos nv -> hkey s tab (cx_k cx) = b -> g_pc s' u = PW_I2 cx tab pos nv) ->
    (forall u cx pos v, g_pc s u = PW_D2 cx tab pos v -> hkey s tab (cx_k cx) = b -> g_pc s' u = PW_D2 cx tab pos v) ->
    chain_inv s tab b -> chain_inv s' tab b.
  Proof.
    intros Ha H1 H2 [A [B C]]. pose proof Ha as [Ec _]. unfold chain_inv. rewrite Ec.
    split; [exact A|]. split; [exact B|]. intros pos Hp. specialize (C pos Hp). unfold slot_ok in *.
    destruct (s_tag (nth pos (chain s tab b) empty_slot)) as [tg|], (s_ent (nth pos (chain s tab b) empty_slot)) as [[k v]|]; auto.
    - rewrite (agree_hkey s s' tab b k Ha), (agree_ktag s s' tab b k Ha). exact C.
    - destruct C as [u [cx [nv [E1 E2]]]]. exists u, cx, nv. rewrite (agree_hkey s s' tab b _ Ha). split; [apply H1; assumption | exact E2].
    - destruct C as [u [cx [E1 [E2 E3]]]]. exists u, cx. rewrite (agree_hkey s s' tab b _ Ha).
      split; [apply H2; [exact E1 | subst k; exact E3] | auto].
  Qed.

  Lemma pcfact_agree s s' p :
    (forall tab (cx : @cctx K V), wtab p = Some tab -> holds s p = Some (tab, hkey s tab (cx_k cx)) -> agree s s' tab (hkey s tab (cx_k cx))) ->
    pcfact s p -> pcfact s' p.
  Proof.
    intros Ha. destruct p; cbn [pcfact]; auto; specialize (Ha _ cx eq_refl eq_refl);
      rewrite ?(agree_hkey s s' _ _ _ Ha), ?(agree_ktag s s' _ _ _ Ha); destruct Ha as [Ec _]; rewrite Ec; auto.
  Qed.

  Lemma XC_modify s t tab b0 f q :
    XInv s -> XT s -> XC s ->
    holds s (g_pc s t) = Some (tab, b0) -> wtab (g_pc s t) = Some tab ->
    let S0 := set_tab s tab (fun tb => set_chain tb b0 f) in
    let s' := set_pc S0 t (norm q) in
    let c' := f (chain s tab b0) in
    shaped c' -> uniq c' -> (forall pos, pos < length c' -> slot_ok s' tab b0 pos (nth pos c' empty_slot)) ->
    pcfact s' (norm q) -> newtab q = None ->
    XC s'.
  Proof.
    intros HI HT HC Hh Hw S0 s' c' Hsh Hun Hsl Hq Hnq.
    pose proof (xi_valid _ _ _ _ s HI t) as Hv. pose proof (xt_le s HT t) as Hle.
    assert (Htab : tab < length (g_tabs s)).
    { destruct (g_pc s t); cbn in Hw, Hv; try discriminate; inversion Hw; subst; tauto. }
    assert (Hcur : tab <= g_cur s).
    { destruct (g_pc s t); cbn in Hw, Hle; try discriminate; inversion Hw; subst; tauto. }
    assert (Hb0 : b0 < x_len (tab_at s tab)).
    { destruct (g_pc s t); cbn in Hw, Hh, Hv; try discriminate; inversion Hh; subst;
        unfold XMachine.home; apply Hidx; apply (xi_wf _ _ _ _ s HI); tauto. }
    assert (Htabat : forall tab', tab_at s' tab' = if Nat.eq_dec tab' tab then set_chain (tab_at s tab) b0 f else tab_at s tab').
    { intros tab'. unfold s'. rewrite tab_at_set_pc. unfold S0. rewrite (tab_at_set_tab nslots nstripes s tab _ tab' Htab). reflexivity. }
    assert (Hlen : forall tab', x_len (tab_at s' tab') = x_len (tab_at s tab')).
    { intros tab'. rewrite Htabat. destruct (Nat.eq_dec tab' tab) as [->|]; [apply x_len_set_chain | reflexivity]. }
    assert (Hseed : forall tab', x_seed (tab_at s' tab') = x_seed (tab_at s tab')).
    { intros tab'. rewrite Htabat. destruct (Nat.eq_dec tab' tab) as [->|]; reflexivity. }
    assert (Hch : forall tab' b', chain s' tab' b' = if Nat.eq_dec tab' tab then (if Nat.eq_dec b' b0 then c' else chain s tab' b') else chain s tab' b').
    { intros tab' b'. unfold chain. rewrite Htabat. destruct (Nat.eq_dec tab' tab) as [->|]; [|reflexivity].
      rewrite chain_of_set_chain'. destruct (Nat.eq_dec b' b0); [|reflexivity].
      apply Nat.ltb_lt in Hb0. rewrite Hb0. reflexivity. }
    assert (Hag : forall tab' b', (tab', b') <> (tab, b0) -> agree s s' tab' b').
    { intros tab' b' Hne. split; [|split; [apply Hlen | apply Hseed]]. rewrite Hch.
      destruct (Nat.eq_dec tab' tab) as [->|]; [|reflexivity]. destruct (Nat.eq_dec b' b0) as [->|]; [congruence|reflexivity]. }
    assert (Hlentabs : length (g_tabs s') = length (g_tabs s)).
    { unfold s', S0, set_tab. cbn [set_pc g_tabs]. apply upd_nth_length. }
    assert (Hpc' : forall t', t' <> t -> g_pc s' t' = g_pc s t').
    { intros t' Hne. unfold s'. cbn [set_pc g_pc S0 set_tab]. destruct (Nat.eq_dec t' t); [contradiction|reflexivity]. }
    assert (Hself : g_pc s' t = norm q) by (unfold s'; cbn [set_pc g_pc]; destruct (Nat.eq_dec t t); congruence).
    assert (Hnewtab : forall t', newtab (g_pc s' t') = newtab (g_pc s t')).
    { intros t'. destruct (Nat.eq_dec t' t) as [->|Hne]; [|rewrite Hpc' by exact Hne; reflexivity].
      rewrite Hself, norm_newtab, Hnq. destruct (g_pc s t); cbn in Hw; try discriminate; reflexivity. }
    (* the only thread whose pc names chain (tab, b0) as its own is t *)
    assert (Honly : forall u, holds s (g_pc s u) = Some (tab, b0) -> u = t).
    { intros u Hu. apply (mutual_exclusion hash idx nslots nstripes s u t tab b0 HI Hu Hh). }
    constructor.
    - intros tab' b' Htab' Hpub Hb'. rewrite Hlentabs in Htab'. rewrite Hlen in Hb'.
      destruct (Nat.eq_dec tab' tab) as [->|Hnt]; [destruct (Nat.eq_dec b' b0) as [->|Hnb]|].
      + unfold chain_inv. rewrite Hch. destruct (Nat.eq_dec tab tab); [|congruence]. destruct (Nat.eq_dec b0 b0); [|congruence]. auto.
      + apply (chain_inv_agree s s' tab b'); [apply Hag; congruence | | |].
        * intros u cx pos nv E Ek. destruct (Nat.eq_dec u t) as [->|Hne]; [|rewrite Hpc' by exact Hne; exact E].
          exfalso. rewrite E in Hh. cbn in Hh. inversion Hh. unfold hkey in Ek. congruence.
        * intros u cx pos v E Ek. destruct (Nat.eq_dec u t) as [->|Hne]; [|rewrite Hpc' by exact Hne; exact E].
          exfalso. rewrite E in Hh. cbn in Hh. inversion Hh. unfold hkey in Ek. congruence.
        * apply (xc_ch s HC tab b' Htab'); [|exact Hb']. intros t' E. apply (Hpub t'). rewrite Hnewtab. exact E.
      + apply (chain_inv_agree s s' tab' b'); [apply Hag; congruence | | |].
        * intros u cx pos nv E Ek. destruct (Nat.eq_dec u t) as [->|Hne]; [|rewrite Hpc' by exact Hne; exact E].
          exfalso. rewrite E in Hw. cbn in Hw. congruence.
        * intros u cx pos v E Ek. destruct (Nat.eq_dec u t) as [->|Hne]; [|rewrite Hpc' by exact Hne; exact E].
          exfalso. rewrite E in Hw. cbn in Hw. congruence.
        * apply (xc_ch s HC tab' b' Htab'); [|exact Hb']. intros t' E. apply (Hpub t'). rewrite Hnewtab. exact E.
    - intros t'. destruct (Nat.eq_dec t' t) as [->|Hne]; [rewrite Hself; exact Hq|].
      rewrite Hpc' by exact Hne. apply (pcfact_agree s s'); [|apply (xc_pc s HC)].
      intros tab' cx Ew Eh. apply Hag. intros E. apply Hne. apply Honly. rewrite Eh. f_equal. exact E.
    - intros t' new E. rewrite Hnewtab in E.
      assert (Hne : t' <> t) by (intros ->; destruct (g_pc s t); cbn in Hw, E; discriminate).
      destruct (xt_new s HT t' new E) as [A B]. assert (Hnn : new <> tab) by lia.
      destruct (xc_new s HC t' new E) as [C1 C2].
      assert (Etab : tab_at s' new = tab_at s new) by (rewrite Htabat; destruct (Nat.eq_dec new tab); [contradiction|reflexivity]).
      split; [rewrite Etab; exact C1|]. rewrite Hpc' by exact Hne.
      destruct (g_pc s t'); cbn [copied newtab] in *; try exact I; inversion E; subst;
        intros k v Hk; rewrite Etab in Hk; unfold hkey, XMachine.home; rewrite Hlen, Hseed; apply (C2 k v Hk).
  Qed.


  (* ---------------- the resizer copies one bucket into its new table ---------------- *)

  Lemma XC_copy s t hn kt tab new i nt cp :
    XInv s -> XT s -> XC s -> g_pc s t = PR_CpLock hn kt tab new i -> lock_of (tab_at s tab) i = None ->
    copy_chain hash idx tag nslots (chain_of (tab_at s tab) i)
               (tab_at (set_tab s tab (fun tb => set_lock tb i (Some t))) new) = (nt, cp) ->
    XC (set_pc (set_tab (set_tab s tab (fun tb => set_lock tb i (Some t))) new (fun _ => add_size nt i cp)) t
               (PR_CpUnlock hn kt tab new i)).
  Proof.
    intros HI HT HC Hp Hfree Hcopy.
    set (s1 := set_tab s tab (fun tb => set_lock tb i (Some t))) in *.
    set (s' := set_pc (set_tab s1 new (fun _ => add_size nt i cp)) t (PR_CpUnlock hn kt tab new i)).
    pose proof (xi_valid _ _ _ _ s HI t) as Hv. rewrite Hp in Hv. cbn [valid] in Hv. destruct Hv as [Htab [Hnew [Hi Hnn]]].
    assert (Ent : newtab (g_pc s t) = Some new) by (rewrite Hp; reflexivity).
    destruct (xt_new s HT t new Ent) as [Hlast Hcn].
    destruct (xc_new s HC t new Ent) as [Hclean Hcopied]. rewrite Hp in Hcopied. cbn [copied] in Hcopied.
    assert (Esrc : tab = g_cur s) by (apply (xt_src s HT t); rewrite Hp; reflexivity).
    assert (E1 : tab_at s1 new = tab_at s new).
    { unfold s1. rewrite (tab_at_set_tab nslots nstripes s tab _ new Htab). destruct (Nat.eq_dec new tab); [contradiction|reflexivity]. }
    rewrite E1 in Hcopy.
    assert (Hlen1 : length (g_tabs s1) = length (g_tabs s)) by (unfold s1, set_tab; cbn [g_tabs]; apply upd_nth_length).
    assert (Htabat : forall tab', tab_at s' tab' = if Nat.eq_dec tab' new then add_size nt i cp
                                                   else if Nat.eq_dec tab' tab then set_lock (tab_at s tab) i (Some t) else tab_at s tab').
    { intros tab'. unfold s'. rewrite tab_at_set_pc. rewrite (tab_at_set_tab nslots nstripes s1 new _ tab') by (rewrite Hlen1; exact Hnew).
      destruct (Nat.eq_dec tab' new); [reflexivity|]. unfold s1. rewrite (tab_at_set_tab nslots nstripes s tab _ tab' Htab). reflexivity. }
    assert (Hag : forall tab' b', tab' <> new -> agree s s' tab' b').
    { intros tab' b' Hne. unfold agree, chain. rewrite Htabat. destruct (Nat.eq_dec tab' new); [contradiction|].
      destruct (Nat.eq_dec tab' tab) as [->|]; auto. }
    (* the chain being copied: public, and nobody is in the middle of a store in it *)
    assert (Hpub : forall u, newtab (g_pc s u) <> Some tab).
    { intros u E. destruct (xt_new s HT u tab E) as [_ B]. lia. }
    destruct (xc_ch s HC tab i Htab Hpub Hi) as [Csh [Cun Csl]]. fold (chain s tab i) in Hcopy.
    assert (Hhome : forall pos k v, pos < length (chain s tab i) -> ent_at (chain s tab i) pos = Some (k, v) -> hkey s tab k = i).
    { intros pos k v Hpos He. specialize (Csl pos Hpos). unfold slot_ok in Csl. unfold ent_at in He. rewrite He in Csl.
      destruct (s_tag (nth pos (chain s tab i) empty_slot)); [tauto|].
      destruct Csl as [u [cx [Eu [Ek Eh]]]]. exfalso.
      assert (Hl : lock_of (tab_at s tab) i = Some u).
      { apply (xi_lockA _ _ _ _ s HI u tab i). rewrite Eu. cbn. unfold hkey in Eh. rewrite Ek. rewrite Eh. reflexivity. }
      congruence. }
    rewrite (copy_chain_fold hash idx tag nslots) in Hcopy.
    pose proof (copy_fold_spec hash idx tag nslots Hnslots Hidx (chain s tab i) (tab_at s new, 0%Z)) as Hspec.
    cbn [fst] in Hspec. rewrite Hcopy in Hspec. cbn [fst] in Hspec.
    destruct Hspec as [R1 [R2 [R3 [R4 [R5 R6]]]]].
    { exact Hclean. }
    { apply (live_pairs_nodup nslots Hnslots). exact Cun. }
    { intros k Hin [w Hw]. apply in_map_iff in Hin. destruct Hin as [[k' v'] [Ek Hin]]. cbn in Ek. subst k'.
      apply (live_pairs_in nslots Hnslots) in Hin. destruct Hin as [pos [Hpos He]].
      pose proof (Hhome pos k v' Hpos He). pose proof (Hcopied k w Hw). lia. }
    assert (Hpc' : forall t', t' <> t -> g_pc s' t' = g_pc s t').
    { intros t' Hne. unfold s'. cbn [set_pc g_pc set_tab]. destruct (Nat.eq_dec t' t); [contradiction|reflexivity]. }
    assert (Hself : g_pc s' t = PR_CpUnlock hn kt tab new i) by (unfold s'; cbn [set_pc g_pc]; destruct (Nat.eq_dec t t); congruence).
    assert (Hnone : forall t', t' <> t -> newtab (g_pc s t') = None).
    { intros t' Hne. destruct (newtab (g_pc s t')) eqn:E; [|reflexivity]. exfalso. apply Hne.
      apply (xi_rzB _ _ _ _ s HI t' t); [eapply newtab_resizer; exact E | rewrite Hp; reflexivity]. }
    assert (Hlens : length (g_tabs s') = length (g_tabs s)).
    { unfold s', set_tab. cbn [set_pc g_tabs]. rewrite upd_nth_length. exact Hlen1. }
    constructor.
    - intros tab' b' Htab' Hpub' Hb'. rewrite Hlens in Htab'.
      assert (Hne : tab' <> new) by (intros ->; apply (Hpub' t); rewrite Hself; reflexivity).
      pose proof (Hag tab' b' Hne) as Ha. destruct Ha as [_ [El _]]. rewrite El in Hb'.
      apply (chain_inv_agree s s' tab' b' (Hag tab' b' Hne)).
      + intros u cx pos nv E _. destruct (Nat.eq_dec u t) as [->|Hu]; [congruence | rewrite Hpc' by exact Hu; exact E].
      + intros u cx pos v E _. destruct (Nat.eq_dec u t) as [->|Hu]; [congruence | rewrite Hpc' by exact Hu; exact E].
      + apply (xc_ch s HC tab' b' Htab'); [|exact Hb']. intros u E. destruct (Nat.eq_dec u t) as [->|Hu]; [congruence|].
        rewrite Hnone in E by exact Hu. discriminate.
    - intros t'. destruct (Nat.eq_dec t' t) as [->|Hne]; [rewrite Hself; exact I|].
      rewrite Hpc' by exact Hne. apply (pcfact_agree s s'); [|apply (xc_pc s HC)].
      intros tab' cx Ew _. apply Hag. pose proof (xt_le s HT t') as Hle.
      destruct (g_pc s t'); cbn in Ew, Hle; try discriminate; inversion Ew; subst; lia.
    - intros t' new' E. destruct (Nat.eq_dec t' t) as [->|Hne].
      + rewrite Hself in *. cbn [newtab] in E. inversion E; subst new'.
        assert (En : tab_at s' new = add_size nt i cp) by (rewrite Htabat; destruct (Nat.eq_dec new new); congruence).
        rewrite En. split; [exact R1|]. cbn [copied]. intros k v Hk. rewrite En in Hk.
        assert (Hk' : tent nt k v) by exact Hk.
        rewrite (agree_hkey s s' tab 0 k (Hag tab 0 (not_eq_sym Hnn))).
        apply R6 in Hk'. destruct Hk' as [Hk'|Hin].
        * pose proof (Hcopied k v Hk'). lia.
        * apply (live_pairs_in nslots Hnslots) in Hin. destruct Hin as [pos [Hpos He]]. rewrite (Hhome pos k v Hpos He). lia.
      + rewrite Hpc' in E by exact Hne. rewrite Hnone in E by exact Hne. discriminate.
  Qed.


  (* ---------------- every step ---------------- *)

  Lemma same_cells_refl s : same_cells s s.
  Proof. split; [lia | auto]. Qed.

  Lemma same_cells_set_tab s tab f : tab < length (g_tabs s) ->
    (forall tb, x_chains (f tb) = x_chains tb /\ x_seed (f tb) = x_seed tb) -> same_cells s (set_tab s tab f).
  Proof.
    intros Ht Hf. split; [unfold set_tab; cbn [g_tabs]; rewrite upd_nth_length; lia|].
    intros tab' _. rewrite (tab_at_set_tab nslots nstripes s tab f tab' Ht). destruct (Nat.eq_dec tab' tab) as [->|]; auto.
  Qed.

  Lemma same_cells_trans a b c : same_cells a b -> same_cells b c -> same_cells a c.
  Proof.
    intros [L1 H1] [L2 H2]. split; [lia|]. intros tab Ht. destruct (H1 tab Ht) as [A1 A2]. destruct (H2 tab ltac:(lia)) as [B1 B2].
    split; congruence.
  Qed.

  Lemma some_fst4 {A B} (g : A * B) a b : Some g = Some (a, b) -> a = fst g.
  Proof. intros H. inversion H. reflexivity. Qed.

  Ltac step_cases Hs :=
    cbn [XMachine.step_pc] in Hs; cbv zeta in Hs;
    repeat match type of Hs with
           | context [match ?x with _ => _ end] => destruct x eqn:?
           end;
    try discriminate; apply some_fst4 in Hs; subst; rewrite ?goto_state'; cbn [fst].

  Ltac sc :=
    first [ apply same_cells_refl
          | apply same_cells_set_tab; [tauto | intros; split; reflexivity]
          | exact (same_cells_refl _) ].

  Lemma pcfact_nowtab s (p : pc) : wtab p = None -> pcfact s p.
  Proof. destruct p; cbn; intros; try discriminate; exact I. Qed.

  Lemma quiet_wtab (p : pc) : quiet hash idx nslots nstripes p -> wtab p = None.
  Proof. intros [Q _]. specialize (Q (xinit nslots seeds nstripes 1 (fun _ => []))). destruct p; cbn in *; try discriminate; reflexivity. Qed.

  (* while a thread holds a bucket lock, the only half-written slot of that chain is its own *)
  Definition settled_slot (s : xstate) (tab b : nat) (sl : slot) : Prop :=
    match s_tag sl, s_ent sl with
    | Some tg, Some (k, v) => hkey s tab k = b /\ tg = ktag s tab k
    | None, None => True
    | _, _ => False
    end.

  Lemma locked_slots s t tab b pos : XInv s -> chain_inv s tab b -> holds s (g_pc s t) = Some (tab, b) ->
    pos < length (chain s tab b) ->
    settled_slot s tab b (nth pos (chain s tab b) empty_slot)
    \/ (exists cx nv, g_pc s t = PW_I2 cx tab pos nv) \/ (exists cx v, g_pc s t = PW_D2 cx tab pos v).
  Proof.
    intros HI [_ [_ Csl]] Hh Hpos. specialize (Csl pos Hpos). unfold slot_ok in Csl. unfold settled_slot.
    destruct (s_tag (nth pos (chain s tab b) empty_slot)) as [tg|], (s_ent (nth pos (chain s tab b) empty_slot)) as [[k v]|]; auto.
    - destruct Csl as [u [cx [nv [E1 E2]]]]. right. left. exists cx, nv.
      assert (u = t); [|subst; exact E1]. apply (mutual_exclusion hash idx nslots nstripes s u t tab b HI); [|exact Hh].
      rewrite E1. cbn. unfold hkey in E2. rewrite E2. reflexivity.
    - destruct Csl as [u [cx [E1 [E2 E3]]]]. right. right. exists cx, v.
      assert (u = t); [|subst; exact E1]. apply (mutual_exclusion hash idx nslots nstripes s u t tab b HI); [|exact Hh].
      rewrite E1. cbn. unfold hkey in E3. rewrite E2, E3. reflexivity.
  Qed.

  Lemma settled_slot_ok s s' tab b pos sl :
    (forall k, hkey s' tab k = hkey s tab k) -> (forall k, ktag s' tab k = ktag s tab k) ->
    settled_slot s tab b sl -> slot_ok s' tab b pos sl.
  Proof.
    intros H1 H2. unfold settled_slot, slot_ok. destruct (s_tag sl), (s_ent sl) as [[k v]|]; auto; try contradiction.
    rewrite H1, H2. auto.
  Qed.

  Lemma public_tab s t tab : XT s -> wtab (g_pc s t) = Some tab \/ (exists cx, g_pc s t = PW_ChkTab cx tab) ->
    forall u, newtab (g_pc s u) <> Some tab.
  Proof.
    intros HT Hw u E. destruct (xt_new s HT u tab E) as [_ B]. pose proof (xt_le s HT t) as Hle.
    destruct Hw as [Hw|[cx Hw]].
    - destruct (g_pc s t); cbn in Hw, Hle; try discriminate; inversion Hw; subst; lia.
    - rewrite Hw in Hle. cbn in Hle. lia.
  Qed.

  (* what the holder of a bucket lock knows about its chain when none of its own stores is pending *)
  Lemma locked_chain_facts s t tab b : XInv s -> chain_inv s tab b -> holds s (g_pc s t) = Some (tab, b) ->
    (forall cx pos nv, g_pc s t <> PW_I2 cx tab pos nv) -> (forall cx pos v, g_pc s t <> PW_D2 cx tab pos v) ->
    let c := chain s tab b in
    shaped c /\ uniq c
    /\ (forall pos, pos < length c -> settled_slot s tab b (nth pos c empty_slot))
    /\ (forall pos k v, pos < length c -> ent_at c pos = Some (k, v) -> tag_at c pos = Some (ktag s tab k) /\ hkey s tab k = b)
    /\ (forall pos, pos < length c -> tag_at c pos = None -> ent_at c pos = None).
  Proof.
    intros HI Hci Hh H1 H2 c. pose proof Hci as [A [B _]].
    assert (Hset : forall pos, pos < length c -> settled_slot s tab b (nth pos c empty_slot)).
    { intros pos Hpos. destruct (locked_slots s t tab b pos HI Hci Hh Hpos) as [H|[[cx [nv E]]|[cx [v E]]]]; [exact H | |].
      - exfalso. eapply H1. exact E.
      - exfalso. eapply H2. exact E. }
    split; [exact A|]. split; [exact B|]. split; [exact Hset|]. split.
    - intros pos k v Hpos He. specialize (Hset pos Hpos). unfold settled_slot in Hset. unfold ent_at in He. unfold tag_at. fold c in He.
      rewrite He in Hset. destruct (s_tag (nth pos c empty_slot)); [|contradiction]. destruct Hset as [Hk ->]. auto.
    - intros pos Hpos Ht. specialize (Hset pos Hpos). unfold settled_slot in Hset. unfold tag_at in Ht. unfold ent_at.
      rewrite Ht in Hset. destruct (s_ent (nth pos c empty_slot)); [contradiction|reflexivity].
  Qed.

  Lemma hkey_modify s tab b0 f t q tab' k :
    hkey (set_pc (set_tab s tab (fun tb => set_chain tb b0 f)) t q) tab' k = hkey s tab' k.
  Proof.
    unfold hkey, XMachine.home. rewrite tab_at_set_pc.
    destruct (Nat.lt_ge_cases tab (length (g_tabs s))) as [Ht|Ht].
    - rewrite (tab_at_set_tab nslots nstripes s tab _ tab' Ht). destruct (Nat.eq_dec tab' tab) as [->|]; [|reflexivity].
      rewrite x_len_set_chain. reflexivity.
    - unfold XMachine.tab_at, set_tab. cbn [g_tabs]. rewrite upd_nth_overflow by lia. reflexivity.
  Qed.

  Lemma ktag_modify s tab b0 f t q tab' k :
    ktag (set_pc (set_tab s tab (fun tb => set_chain tb b0 f)) t q) tab' k = ktag s tab' k.
  Proof.
    unfold ktag. rewrite tab_at_set_pc.
    destruct (Nat.lt_ge_cases tab (length (g_tabs s))) as [Ht|Ht].
    - rewrite (tab_at_set_tab nslots nstripes s tab _ tab' Ht). destruct (Nat.eq_dec tab' tab) as [->|]; reflexivity.
    - unfold XMachine.tab_at, set_tab. cbn [g_tabs]. rewrite upd_nth_overflow by lia. reflexivity.
  Qed.

  Lemma chain_modify s tab b0 f t q : tab < length (g_tabs s) -> b0 < x_len (tab_at s tab) ->
    chain (set_pc (set_tab s tab (fun tb => set_chain tb b0 f)) t q) tab b0 = f (chain s tab b0).
  Proof.
    intros Ht Hb. unfold chain. rewrite tab_at_set_pc, (tab_at_set_tab nslots nstripes s tab _ tab Ht).
    destruct (Nat.eq_dec tab tab); [|congruence]. rewrite chain_of_set_chain'. destruct (Nat.eq_dec b0 b0); [|congruence].
    apply Nat.ltb_lt in Hb. rewrite Hb. reflexivity.
  Qed.

  (* one slot of the locked chain is stored: the others stay as they were *)
  Lemma modify_slots s s' t tab b pos g :
    XInv s -> chain_inv s tab b -> holds s (g_pc s t) = Some (tab, b) -> pos < length (chain s tab b) ->
    (forall cx p nv, g_pc s t = PW_I2 cx tab p nv -> p = pos) -> (forall cx p v, g_pc s t = PW_D2 cx tab p v -> p = pos) ->
    (forall k, hkey s' tab k = hkey s tab k) -> (forall k, ktag s' tab k = ktag s tab k) ->
    slot_ok s' tab b pos (g (nth pos (chain s tab b) empty_slot)) ->
    forall p, p < length (set_slot (chain s tab b) pos g) -> slot_ok s' tab b p (nth p (set_slot (chain s tab b) pos g) empty_slot).
  Proof.
    intros HI Hci Hh Hpos HI2 HD2 Hk Ht Hnew p Hp. rewrite set_slot_length in Hp. rewrite nth_set_slot by exact Hpos.
    destruct (Nat.eq_dec p pos) as [->|Hne]; [exact Hnew|].
    destruct (locked_slots s t tab b p HI Hci Hh Hp) as [H|[[cx [nv E]]|[cx [v E]]]].
    - apply (settled_slot_ok s s' tab b p _ Hk Ht H).
    - exfalso. apply Hne. eapply HI2. exact E.
    - exfalso. apply Hne. eapply HD2. exact E.
  Qed.

  Ltac writer_setup s t cx tab HI HT HC Hv Hf Hp :=
      assert (Hw : wtab (g_pc s t) = Some tab) by (rewrite Hp; reflexivity);
      assert (Hh : holds s (g_pc s t) = Some (tab, hkey s tab (cx_k cx))) by (rewrite Hp; reflexivity);
      assert (Hb : hkey s tab (cx_k cx) < x_len (tab_at s tab)) by (unfold hkey, XMachine.home; apply Hidx; apply (xi_wf _ _ _ _ s HI tab Hv));
      assert (Hci : chain_inv s tab (hkey s tab (cx_k cx)))
        by (apply (xc_ch s HC tab _ Hv); [apply (public_tab s t tab HT); left; exact Hw | exact Hb]);
      pose proof Hci as [Csh [Cun _]];
      cbn [pcfact] in Hf; fold (hkey s tab (cx_k cx)) in Hf |- *; fold (chain s tab (hkey s tab (cx_k cx))) in Hf;
      apply (XC_modify s t tab (hkey s tab (cx_k cx)) _ _ HI HT HC Hh Hw); [ | | | | reflexivity].

  Theorem XC_step_pc s t p s' ls : XInv s -> XT s -> XC s -> g_pc s t = p -> step_pc s t p = Some (s', ls) -> XC s'.
  Proof.
    intros HI HT HC Hp Hs.
    pose proof (xi_valid _ _ _ _ s HI t) as Hv. pose proof (xc_pc s HC t) as Hf. pose proof (xt_le s HT t) as Hle.
    rewrite Hp in Hv, Hf, Hle.
    destruct p; step_cases Hs; cbn [valid] in Hv;
      try change (set_pc s t PIdle) with (set_pc s t (norm (@PIdle K V)));
      try match goal with |- context [run_cont ?kt] => destruct kt; cbn [run_cont] end;
      try solve [ apply (XC_frame s _ t _ HI HT HC);
                  [ sc
                  | cbn [g_tabs set_tab set_flags]; rewrite ?upd_nth_length; reflexivity
                  | intros t' _; cbn [g_pc set_tab set_flags]; first [left; reflexivity | right; reflexivity]
                  | intros; rewrite Hp; discriminate
                  | intros; rewrite Hp; discriminate
                  | first [exact I | exact Hf]
                  | cbn [wtab]; intros ? E; first [discriminate E | inversion E; subst; tauto]
                  | rewrite Hp; cbn [newtab]; first [left; reflexivity | right; reflexivity]
                  | cbn [newtab]; intros ? E; discriminate E ] ].
    (* ---- PW_ChkTab: the locked search ---- *)
    all: try match goal with Hp0 : g_pc _ _ = PW_ChkTab ?cx ?tab |- _ =>
      assert (Hh : holds s (g_pc s t) = Some (tab, hkey s tab (cx_k cx))) by (rewrite Hp; reflexivity);
      assert (Hci : chain_inv s tab (hkey s tab (cx_k cx)))
        by (apply (xc_ch s HC tab _ Hv); [apply (public_tab s t tab HT); right; eexists; exact Hp
                                         | unfold hkey, XMachine.home; apply Hidx; apply (xi_wf _ _ _ _ s HI tab Hv)]);
      destruct (locked_chain_facts s t tab _ HI Hci Hh) as [Fsh [Fun [Fset [Flive Ffree]]]];
        [intros; rewrite Hp; discriminate | intros; rewrite Hp; discriminate |];
      fold (chain s tab (hkey s tab (cx_k cx))) in *;
      apply (XC_frame s _ t _ HI HT HC);
        [ sc | reflexivity | intros t' _; left; reflexivity | intros; rewrite Hp; discriminate | intros; rewrite Hp; discriminate
        | | cbn [wtab]; intros ? E; inversion E; subst; exact Hv | rewrite Hp; left; reflexivity | cbn [newtab]; intros ? E; discriminate E ]
    end.
    (* ---- the stores of a writer into its locked chain ---- *)
    all: try match goal with Hp0 : g_pc _ _ = ?P |- _ =>
      match P with
      | PW_D1 ?cx ?tab _ _ => writer_setup s t cx tab HI HT HC Hv Hf Hp
      | PW_D2 ?cx ?tab _ _ => writer_setup s t cx tab HI HT HC Hv Hf Hp
      | PW_U1 ?cx ?tab _ _ _ => writer_setup s t cx tab HI HT HC Hv Hf Hp
      | PW_I1 ?cx ?tab _ _ => writer_setup s t cx tab HI HT HC Hv Hf Hp
      | PW_I2 ?cx ?tab _ _ => writer_setup s t cx tab HI HT HC Hv Hf Hp
      | PW_N1 ?cx ?tab _ => writer_setup s t cx tab HI HT HC Hv Hf Hp
      end end.
    all: try (match goal with |- shaped (set_slot _ _ _) =>
                destruct Csh as [m [Hm E]]; exists m; split; [exact Hm | rewrite set_slot_length; exact E] end).
    all: try (match goal with |- uniq (set_slot _ _ _) =>
                first [ apply uniq_set_tag; [tauto | exact Cun] | apply uniq_clear_ent; [tauto | exact Cun] ] end).
    all: try (match goal with |- forall pos0, pos0 < length (set_slot _ _ _) -> slot_ok _ _ _ _ _ =>
                apply (modify_slots s _ t _ _ _ _ HI Hci Hh);
                [ tauto
                | intros ? ? ? E; rewrite Hp in E; first [discriminate E | inversion E; reflexivity]
                | intros ? ? ? E; rewrite Hp in E; first [discriminate E | inversion E; reflexivity]
                | intros; apply hkey_modify
                | intros; apply ktag_modify
                | unfold slot_ok; cbn [s_tag s_ent]; unfold ent_at, tag_at in Hf ] end).
    - (* hit, update *)
      destruct (search_hit eqd nslots probe Hnslots Hprobe_sound _ _ _ _ _ Fsh Heqo) as [A [B C]].
      cbn [pcfact]. auto.
    - (* hit, delete *)
      destruct (search_hit eqd nslots probe Hnslots Hprobe_sound _ _ _ _ _ Fsh Heqo) as [A [B C]].
      cbn [pcfact]. auto.
    - (* miss, a free slot *)
      pose proof (search_miss eqd nslots probe Hnslots Hprobe_complete _ _ _ Fsh Heqo) as Hmiss.
      destruct (@first_free_spec K V nslots Hnslots _ _ _ Heqo0) as [_ [A B]]. rewrite Nat.sub_0_r in A, B.
      cbn [pcfact]. split; [exact A|]. split; [apply Ffree; assumption|]. split; [exact B|].
      intros [pos [w [Hpos He]]]. destruct (Flive pos _ w Hpos He) as [Ht _]. apply (Hmiss pos w Hpos Ht He).
    - (* miss, chain full *)
      pose proof (search_miss eqd nslots probe Hnslots Hprobe_complete _ _ _ Fsh Heqo) as Hmiss.
      cbn [pcfact]. intros [pos [w [Hpos He]]]. destruct (Flive pos _ w Hpos He) as [Ht _]. apply (Hmiss pos w Hpos Ht He).
    - (* D1: the new slot is the deleter's *)
      destruct Hf as [F1 [F2 F3]]. rewrite F2. exists t, cx. split; [cbn [set_pc g_pc norm]; destruct (Nat.eq_dec t t); congruence|].
      split; [reflexivity | apply hkey_modify].
    - (* D1: pc fact of D2 *)
      cbn [norm pcfact]. rewrite hkey_modify. rewrite (chain_modify s tab _ _ t _ Hv Hb).
      destruct Hf as [F1 [F2 F3]]. rewrite set_slot_length, ent_set_tag, tag_set_tag by exact F1.
      destruct (Nat.eq_dec pos pos); [auto|congruence].
    - (* D2, three continuations *) destruct Hf as [F1 [F2 F3]]. rewrite F3. exact I.
    - exact I.
    - destruct Hf as [F1 [F2 F3]]. rewrite F3. exact I.
    - exact I.
    - destruct Hf as [F1 [F2 F3]]. rewrite F3. exact I.
    - exact I.
    - (* U1 *) destruct Hf as [F1 [F2 F3]]. apply uniq_store_ent; [exact F1 | exact Cun |].
      intros p v Hp' Hne E. apply Hne. apply (Cun p pos _ v old Hp' F1 E F2).
    - destruct Hf as [F1 [F2 F3]].
      destruct (locked_chain_facts s t tab _ HI Hci Hh) as [_ [_ [_ [Flive _]]]];
        [intros; rewrite Hp; discriminate | intros; rewrite Hp; discriminate|].
      destruct (Flive pos _ _ F1 F2) as [T H]. unfold tag_at in T. rewrite T.
      split; [rewrite hkey_modify; reflexivity | rewrite ktag_modify; reflexivity].
    - exact I.
    - (* U1 *) destruct Hf as [F1 [F2 F3]]. apply uniq_store_ent; [exact F1 | exact Cun |].
      intros p v Hp' Hne E. apply Hne. apply (Cun p pos _ v old Hp' F1 E F2).
    - destruct Hf as [F1 [F2 F3]].
      destruct (locked_chain_facts s t tab _ HI Hci Hh) as [_ [_ [_ [Flive _]]]];
        [intros; rewrite Hp; discriminate | intros; rewrite Hp; discriminate|].
      destruct (Flive pos _ _ F1 F2) as [T H]. unfold tag_at in T. rewrite T.
      split; [rewrite hkey_modify; reflexivity | rewrite ktag_modify; reflexivity].
    - exact I.
    - (* I1 *) destruct Hf as [F1 [F2 [F3 F4]]]. rewrite F2. exists t, cx, nv.
      split; [cbn [set_pc g_pc norm]; destruct (Nat.eq_dec t t); congruence | apply hkey_modify].
    - cbn [norm pcfact]. rewrite hkey_modify, ktag_modify. rewrite (chain_modify s tab _ _ t _ Hv Hb).
      destruct Hf as [F1 [F2 [F3 F4]]]. rewrite set_slot_length, ent_set_tag, tag_set_tag by exact F1.
      destruct (Nat.eq_dec pos pos); [|congruence]. split; [exact F1|]. split; [exact F2|]. split; [reflexivity|].
      intros [p [w [Hp' E]]]. rewrite set_slot_length in Hp'. rewrite ent_set_tag in E by exact F1. apply F4. exists p, w. auto.
    - (* I2 *) destruct Hf as [F1 [F2 [F3 F4]]]. apply uniq_store_ent; [exact F1 | exact Cun |].
      intros p v Hp' Hne E. apply F4. exists p, v. auto.
    - destruct Hf as [F1 [F2 [F3 F4]]]. rewrite F3.
      split; [rewrite hkey_modify; reflexivity | rewrite ktag_modify; reflexivity].
    - exact I.
    - (* N1 *) destruct Csh as [m [Hm E]]. exists (S m). split; [lia|]. rewrite app_length. cbn [length]. rewrite repeat_length. lia.
    - apply uniq_append; first [exact Hnslots | exact Cun | exact Hf].
    - intros p Hp'. destruct (Nat.lt_ge_cases p (length (chain s tab (hkey s tab (cx_k cx))))) as [Hlt|Hge].
      + rewrite app_nth1 by exact Hlt.
        destruct (locked_slots s t tab _ p HI Hci Hh Hlt) as [H|[[cx0 [nv0 E]]|[cx0 [v0 E]]]]; [|rewrite Hp in E; discriminate|rewrite Hp in E; discriminate].
        apply (settled_slot_ok s _ tab _ p _ (fun k => hkey_modify s tab _ _ t _ tab k) (fun k => ktag_modify s tab _ _ t _ tab k) H).
      + rewrite app_nth2 by exact Hge. destruct (p - length (chain s tab (hkey s tab (cx_k cx)))) as [|r]; cbn [nth].
        * unfold slot_ok. cbn [s_tag s_ent]. split; [rewrite hkey_modify; reflexivity | rewrite ktag_modify; reflexivity].
        * assert (En : nth r (repeat empty_slot (nslots - 1)) empty_slot = empty_slot).
          { destruct (Nat.lt_ge_cases r (nslots - 1)); [apply nth_repeat | apply nth_overflow; rewrite repeat_length; assumption]. }
          rewrite En. exact I.
    - exact I.
    - destruct Hv as [Hv1 [Hv2 [Hv3 Hq]]]. pose proof (quiet_wtab p Hq) as Qw. destruct (quiet_newtab hash idx nslots nstripes p Hq) as [Qn _].
      apply (XC_frame s _ t _ HI HT HC);
        [ apply same_cells_set_tab; [exact Hv1 | intros; split; reflexivity]
        | cbn [g_tabs set_tab]; rewrite upd_nth_length; reflexivity
        | intros t' _; left; reflexivity
        | intros; rewrite Hp; discriminate
        | intros; rewrite Hp; discriminate
        | apply pcfact_nowtab; exact Qw
        | rewrite Qw; intros ? E; discriminate E
        | right; exact Qn
        | rewrite Qn; intros ? E; discriminate E ].
    - destruct Hv as [Hv1 [Hv2 [Hv3 Hq]]]. pose proof (quiet_wtab p Hq) as Qw. destruct (quiet_newtab hash idx nslots nstripes p Hq) as [Qn _].
      apply (XC_frame s _ t _ HI HT HC);
        [ apply same_cells_set_tab; [exact Hv1 | intros; split; reflexivity]
        | cbn [g_tabs set_tab]; rewrite upd_nth_length; reflexivity
        | intros t' _; left; reflexivity
        | intros; rewrite Hp; discriminate
        | intros; rewrite Hp; discriminate
        | apply pcfact_nowtab; exact Qw
        | rewrite Qw; intros ? E; discriminate E
        | right; exact Qn
        | rewrite Qn; intros ? E; discriminate E ].
    - eapply (XC_push s _ t _ _ _ HI HT HC);
        [ | cbn [g_tabs push_tab]; reflexivity | intros; reflexivity | rewrite Hp; reflexivity | rewrite Hp; reflexivity
          | reflexivity | reflexivity | ].
      + first [ exact Hminlen
              | pose proof (xi_wf _ _ _ _ s HI tab ltac:(tauto)) as [W _]; lia
              | destruct Hv as [Hv1 Hv2]; apply Nat.div_str_pos; lia ].
      + first [ exact I
              | cbn [copied]; intros k v Hk; exfalso;
                rewrite tab_at_set_pc in Hk || idtac;
                unfold XMachine.tab_at in Hk; cbn [g_tabs push_tab] in Hk; rewrite app_nth2 in Hk by lia;
                rewrite Nat.sub_diag in Hk; cbn [nth] in Hk; eapply tent_new; exact Hk ].
    - eapply (XC_push s _ t _ _ _ HI HT HC);
        [ | cbn [g_tabs push_tab]; reflexivity | intros; reflexivity | rewrite Hp; reflexivity | rewrite Hp; reflexivity
          | reflexivity | reflexivity | ].
      + first [ exact Hminlen
              | pose proof (xi_wf _ _ _ _ s HI tab ltac:(tauto)) as [W _]; lia
              | destruct Hv as [Hv1 Hv2]; apply Nat.div_str_pos; lia ].
      + first [ exact I
              | cbn [copied]; intros k v Hk; exfalso;
                rewrite tab_at_set_pc in Hk || idtac;
                unfold XMachine.tab_at in Hk; cbn [g_tabs push_tab] in Hk; rewrite app_nth2 in Hk by lia;
                rewrite Nat.sub_diag in Hk; cbn [nth] in Hk; eapply tent_new; exact Hk ].
    - eapply (XC_push s _ t _ _ _ HI HT HC);
        [ | cbn [g_tabs push_tab]; reflexivity | intros; reflexivity | rewrite Hp; reflexivity | rewrite Hp; reflexivity
          | reflexivity | reflexivity | ].
      + first [ exact Hminlen
              | pose proof (xi_wf _ _ _ _ s HI tab ltac:(tauto)) as [W _]; lia
              | destruct Hv as [Hv1 Hv2]; apply Nat.div_str_pos; lia ].
      + first [ exact I
              | cbn [copied]; intros k v Hk; exfalso;
                rewrite tab_at_set_pc in Hk || idtac;
                unfold XMachine.tab_at in Hk; cbn [g_tabs push_tab] in Hk; rewrite app_nth2 in Hk by lia;
                rewrite Nat.sub_diag in Hk; cbn [nth] in Hk; eapply tent_new; exact Hk ].
    - eapply (XC_push s _ t _ _ _ HI HT HC);
        [ | cbn [g_tabs push_tab]; reflexivity | intros; reflexivity | rewrite Hp; reflexivity | rewrite Hp; reflexivity
          | reflexivity | reflexivity | ].
      + first [ exact Hminlen
              | pose proof (xi_wf _ _ _ _ s HI tab ltac:(tauto)) as [W _]; lia
              | destruct Hv as [Hv1 Hv2]; apply Nat.div_str_pos; lia ].
      + first [ exact I
              | cbn [copied]; intros k v Hk; exfalso;
                rewrite tab_at_set_pc in Hk || idtac;
                unfold XMachine.tab_at in Hk; cbn [g_tabs push_tab] in Hk; rewrite app_nth2 in Hk by lia;
                rewrite Nat.sub_diag in Hk; cbn [nth] in Hk; eapply tent_new; exact Hk ].
    - eapply (XC_push s _ t _ _ _ HI HT HC);
        [ | cbn [g_tabs push_tab]; reflexivity | intros; reflexivity | rewrite Hp; reflexivity | rewrite Hp; reflexivity
          | reflexivity | reflexivity | ].
      + first [ exact Hminlen
              | pose proof (xi_wf _ _ _ _ s HI tab ltac:(tauto)) as [W _]; lia
              | destruct Hv as [Hv1 Hv2]; apply Nat.div_str_pos; lia ].
      + first [ exact I
              | cbn [copied]; intros k v Hk; exfalso;
                rewrite tab_at_set_pc in Hk || idtac;
                unfold XMachine.tab_at in Hk; cbn [g_tabs push_tab] in Hk; rewrite app_nth2 in Hk by lia;
                rewrite Nat.sub_diag in Hk; cbn [nth] in Hk; eapply tent_new; exact Hk ].
    - eapply (XC_push s _ t _ _ _ HI HT HC);
        [ | cbn [g_tabs push_tab]; reflexivity | intros; reflexivity | rewrite Hp; reflexivity | rewrite Hp; reflexivity
          | reflexivity | reflexivity | ].
      + first [ exact Hminlen
              | pose proof (xi_wf _ _ _ _ s HI tab ltac:(tauto)) as [W _]; lia
              | destruct Hv as [Hv1 Hv2]; apply Nat.div_str_pos; lia ].
      + first [ exact I
              | cbn [copied]; intros k v Hk; exfalso;
                rewrite tab_at_set_pc in Hk || idtac;
                unfold XMachine.tab_at in Hk; cbn [g_tabs push_tab] in Hk; rewrite app_nth2 in Hk by lia;
                rewrite Nat.sub_diag in Hk; cbn [nth] in Hk; eapply tent_new; exact Hk ].
    - eapply (XC_push s _ t _ _ _ HI HT HC);
        [ | cbn [g_tabs push_tab]; reflexivity | intros; reflexivity | rewrite Hp; reflexivity | rewrite Hp; reflexivity
          | reflexivity | reflexivity | ].
      + first [ exact Hminlen
              | pose proof (xi_wf _ _ _ _ s HI tab ltac:(tauto)) as [W _]; lia
              | destruct Hv as [Hv1 Hv2]; apply Nat.div_str_pos; lia ].
      + first [ exact I
              | cbn [copied]; intros k v Hk; exfalso;
                rewrite tab_at_set_pc in Hk || idtac;
                unfold XMachine.tab_at in Hk; cbn [g_tabs push_tab] in Hk; rewrite app_nth2 in Hk by lia;
                rewrite Nat.sub_diag in Hk; cbn [nth] in Hk; eapply tent_new; exact Hk ].
    - exact (XC_copy s t hn kt tab new i x z HI HT HC Hp Heqo Heqp).
    - (* CpUnlock -> next bucket *)
      destruct Hv as [Hv1 [Hv2 [Hv3 Hv4]]].
      assert (Ent : newtab (g_pc s t) = Some new) by (rewrite Hp; reflexivity).
      destruct (xc_new s HC t new Ent) as [_ Hcp]. rewrite Hp in Hcp. cbn [copied] in Hcp.
      assert (Hsc : same_cells s (set_tab s tab (fun tb => set_lock tb i None)))
        by (apply same_cells_set_tab; [exact Hv1 | intros; split; reflexivity]).
      apply (XC_frame s _ t _ HI HT HC);
        [ exact Hsc
        | cbn [g_tabs set_tab]; rewrite upd_nth_length; reflexivity
        | intros t' _; left; reflexivity
        | intros; rewrite Hp; discriminate
        | intros; rewrite Hp; discriminate
        | exact I
        | cbn [wtab]; intros ? E; discriminate E
        | rewrite Hp; left; reflexivity
        | ].
      intros ? _. cbn [copied]. intros k v Hk.
      rewrite (same_cells_hkey s _ tab k Hsc Hv1). apply (Hcp k v). apply (same_cells_tent s _ new k v Hsc Hv2). exact Hk.
    - (* CpUnlock -> publish *)
      destruct Hv as [Hv1 [Hv2 [Hv3 Hv4]]].
      apply (XC_frame s _ t _ HI HT HC);
        [ apply same_cells_set_tab; [exact Hv1 | intros; split; reflexivity]
        | cbn [g_tabs set_tab]; rewrite upd_nth_length; reflexivity
        | intros t' _; left; reflexivity
        | intros; rewrite Hp; discriminate
        | intros; rewrite Hp; discriminate
        | exact I
        | cbn [wtab]; intros ? E; discriminate E
        | rewrite Hp; left; reflexivity
        | intros ? _; exact I ].
  Qed.


  Lemma XC_xstep s t s' ls : XInv s -> XT s -> XC s -> xstep s t = Some (s', ls) -> XC s'.
  Proof.
    intros HI HT HC Hs. unfold XMachine.xstep in Hs.
    destruct (g_pc s t) eqn:Hp; try (eapply XC_step_pc; [exact HI | exact HT | exact HC | exact Hp | exact Hs]).
    destruct (g_todo s t) as [|o rest]; [discriminate|].
    set (S0 := {| g_tabs := g_tabs s; g_cur := g_cur s; g_resizing := g_resizing s; g_rmu := g_rmu s;
                  g_growths := g_growths s; g_shrinks := g_shrinks s; g_pc := g_pc s;
                  g_todo := fun t' => if Nat.eq_dec t' t then rest else g_todo s t' |}).
    destruct (start_tabs o (g_cur s)) as [Q1 [Q2 [Q3 Q4]]].
    assert (Qw : wtab (@start_pc K V o) = None) by (destruct o; cbn; auto; destruct lie; reflexivity).
    assert (HC1 : XC (set_pc S0 t (start_pc o))).
    { rewrite <- Q4. apply (XC_frame s S0 t _ HI HT HC).
      - split; [cbn; lia | intros; split; reflexivity].
      - reflexivity.
      - intros t' _. left. reflexivity.
      - intros; rewrite Hp; discriminate.
      - intros; rewrite Hp; discriminate.
      - apply pcfact_nowtab. exact Qw.
      - rewrite Qw. intros ? E; discriminate E.
      - right. exact Q2.
      - rewrite Q2. intros ? E; discriminate E. }
    assert (HT1 : XT (set_pc S0 t (start_pc o))).
    { rewrite <- Q4. eapply XT_move with (s := s); [exact Hminlen | exact HI | exact HT | cbn; lia | intros; left; reflexivity | exact Q1 | | | left; split; reflexivity].
      - rewrite Q2. intros ? E; discriminate E.
      - rewrite Q3. intros ? E; discriminate E. }
    assert (HI1 : XInv (set_pc S0 t (start_pc o))).
    { destruct (start_pc_quiet hash idx nslots nstripes o) as [R1 [R2 [R3 R4]]].
      eapply (move_pure hash idx nslots nstripes minlen Hminlen); [exact HI | | apply R4 | rewrite Hp; apply R1 | rewrite Hp; exact R2 | rewrite Hp; exact R3].
      unfold same_protocol. split; [split; [cbn; lia | intros; apply shape_refl]|]. repeat split; auto. }
    change (match step_pc (set_pc S0 t (start_pc o)) t (start_pc o) with
            | Some (s2, ls0) => Some (s2, XMachine.XInv t o :: ls0)
            | None => Some (set_pc S0 t (start_pc o), [XMachine.XInv t o])
            end = Some (s', ls)) in Hs.
    destruct (step_pc (set_pc S0 t (start_pc o)) t (start_pc o)) as [[s2 ls0]|] eqn:E.
    - inversion Hs; subst. eapply XC_step_pc; [exact HI1 | exact HT1 | exact HC1 | | exact E].
      cbn [set_pc g_pc]. destruct (Nat.eq_dec t t); congruence.
    - inversion Hs; subst. exact HC1.
  Qed.

  Lemma XC_init len0 todo : 0 < len0 -> XC (xinit nslots seeds nstripes len0 todo).
  Proof.
    intros Hl. constructor.
    - intros tab b Htab _ Hb. cbn [xinit g_tabs length] in Htab. assert (tab = 0) by lia. subst tab.
      apply clean_chain_inv; [|exact Hb]. apply clean_new. exact Hl.
    - intros t. exact I.
    - intros t new E. discriminate E.
  Qed.

  Definition XI4 (s : xstate) : Prop := XInv s /\ XW s /\ XT s /\ XC s.

  Lemma XI4_xstep s t s' ls : XI4 s -> xstep s t = Some (s', ls) -> XI4 s'.
  Proof.
    intros [HI [HW [HT HC]]] E.
    destruct (XI3_xstep eqd hash idx tag nslots seeds grow_needed shrink_policy probe nstripes minlen grow_only Hidx Hstripes Hminlen
                s t s' ls (conj HI (conj HW HT)) E) as [A [B C]].
    split; [exact A|]. split; [exact B|]. split; [exact C|]. exact (XC_xstep s t s' ls HI HT HC E).
  Qed.

  Theorem xrun_inv4 sched : forall s, XI4 s -> XI4 (fst (xrun s sched)).
  Proof.
    induction sched as [|t rest IH]; intros s H; cbn [XMachine.xrun]; [exact H|].
    destruct (xstep s t) as [[s' ls]|] eqn:E.
    - specialize (IH s' (XI4_xstep s t s' ls H E)).
      destruct (XMachine.xrun _ _ _ _ _ _ _ _ _ _ _ _ s' rest) as [s'' ls']. exact IH.
    - apply IH. exact H.
  Qed.

  Theorem reachable_inv4 len0 todo sched : 0 < len0 -> XI4 (fst (xrun (xinit nslots seeds nstripes len0 todo) sched)).
  Proof.
    intros Hl. apply xrun_inv4.
    destruct (reachable_inv3 eqd hash idx tag nslots seeds grow_needed shrink_policy probe nstripes minlen grow_only Hidx Hstripes Hminlen
                len0 todo [] Hl) as [A [B C]]. cbn in A, B, C.
    split; [exact A|]. split; [exact B|]. split; [exact C|]. apply XC_init. exact Hl.
  Qed.

End C04.
