(* C02_good.v -- every cache method, at whatever point of its execution, is in a
   state from which it will answer what the specification answered at its
   linearization point, whatever the other threads do to the shared map in
   between ("good").  Also tracked: the callbacks it still owes for entries it
   physically removed (C06) and how often it invoked the user function (C05). *)
From CacheV Require Import Base SpecMap Client CacheModel Ops SpecTTL Conc.
From CacheV.gen Require Import Params.
From CacheV.proofs Require Import C01_sim C01_ops.

Section Good.
  Context {K V : Type}.
  Variable eqd : forall a b : K, {a = b} + {a <> b}.
  Variable zero : V.
  Variables NOW DFLT : Z.
  Variable CB : cbid.

  Notation item := (item V).
  Notation cop := (cop K V).
  Notation cres := (cres K V).
  Notation prog := (prog K V).

  Definition mk (P : amap K item) : cstate K V :=
    {| st_map := P; st_now := NOW; st_dflt := DFLT; st_cb := CB |}.

  Definition Rm (P L : amap K item) : Prop := R eqd (mk P) (mk L).

  Notation env0 := (env0 NOW DFLT).

  (* the calls of a concurrent phase (C02's list) *)
  Definition conc_ok (o : cop) : Prop :=
    match o with
    | ORange _ _ | OItems _ | OCount | OGetDflt | OSetDflt _ | OGetCb | OSetCb _ | OAdvance _ => False
    | _ => True
    end.

  Definition is_remover (o : cop) : bool :=
    match o with ODelete _ | OGetAndDelete _ | ODeleteExpired => true | _ => false end.

  Definition has_cb : bool := match CB with Some _ => true | None => false end.

  (* callbacks owed after a map step that turned P into P' *)
  Definition track (o : cop) (P P' : amap K item) (owe : list (K * V)) : list (K * V) :=
    if is_remover o && has_cb then owe ++ gone eqd P P' else owe.

  (* C05: how often the user function may have been invoked when the call answers r *)
  Definition fn_ok (o : cop) (r : cres) (n : nat) : Prop :=
    match o with
    | OCompute _ _ _ => n = 1%nat
    | OGetOrCompute _ _ _ =>
        match r with CVal _ ok => n = (if ok then 0 else 1)%nat | _ => False end
    | _ => n = 0%nat
    end.

  (* what a map step must achieve, given the linearization status of the call *)
  Definition call_ok (o : cop) (lin : option cres) (P' L : amap K item) (G : option cres -> Prop) : Prop :=
    match lin with
    | Some r => Rm P' L /\ G (Some r)                       (* already took effect: only clean-up now *)
    | None =>
        (Rm P' L /\ G None)                                  (* a step that decides nothing *)
        \/ (exists res,                                      (* the linearization point *)
              spec_ok eqd zero (mk L) o res
              /\ Rm P' (st_map (spec_next eqd zero (mk L) o))
              /\ G (Some res))
    end.

  Fixpoint good (o : cop) (lin : option cres) (owe : list (K * V)) (nfn : nat) (p : prog cres) {struct p} : Prop :=
    match p with
    | Ret r => lin = Some r /\ owe = [] /\ fn_ok o r nfn
    | ReadNow k => good o lin owe nfn (k NOW)
    | ReadDflt k => good o lin owe nfn (k DFLT)
    | ReadCb k => good o lin owe nfn (k CB)
    | WriteDflt _ _ | WriteCb _ _ => False
    | Emit e k =>
        match e with
        | EFire c k0 v => exists owe', CB = Some c /\ owe = (k0, v) :: owe' /\ good o lin owe' nfn k
        | EFn _ => False          (* user-function events come from the map call itself, never from a method body *)
        | EVisit _ _ => good o lin owe nfn k
        end
    | MapCall mo k =>
        forall P L, Rm P L ->
          match mo with
          | CSnapshot => forall l, call_ok o lin P L (fun lin' => good o lin' owe nfn (k (RSnap l)))
          | _ =>
              let '(P', r') := map_step eqd P (to_mop env0 mo) in
              call_ok o lin P' L (fun lin' =>
                good o lin' (track o P P' owe) (nfn + length (fn_events mo r')) (k r'))
          end
    end.

  (* one-step unfoldings *)
  Lemma good_ReadNow o lin owe nfn k : good o lin owe nfn (ReadNow k) = good o lin owe nfn (k NOW).
  Proof. reflexivity. Qed.
  Lemma good_ReadDflt o lin owe nfn k : good o lin owe nfn (ReadDflt k) = good o lin owe nfn (k DFLT).
  Proof. reflexivity. Qed.
  Lemma good_ReadCb o lin owe nfn k : good o lin owe nfn (ReadCb k) = good o lin owe nfn (k CB).
  Proof. reflexivity. Qed.
  Lemma good_Ret o lin owe nfn r : good o lin owe nfn (Ret r) = (lin = Some r /\ owe = [] /\ fn_ok o r nfn).
  Proof. reflexivity. Qed.

  (* ---------------- facts about the frozen settings ---------------- *)

  Lemma spec_next_mk o L : conc_ok o ->
    spec_next eqd zero (mk L) o = mk (st_map (spec_next eqd zero (mk L) o)).
  Proof.
    intros Hc. destruct o; cbn in Hc; try contradiction; cbn [spec_next]; try reflexivity.
    - destruct (vw eqd (mk L) k); reflexivity.
    - destruct (vw eqd (mk L) k); reflexivity.
    - destruct (vw eqd (mk L) k); reflexivity.
    - destruct (match vw eqd (mk L) k with Some i => fn (iv i) true | None => fn zero false end) as [v []]; reflexivity.
  Qed.

  Lemma with_map_mk P P' : with_map (mk P) P' = mk P'.
  Proof. reflexivity. Qed.

  Lemma st_env_mk P : st_env (mk P) = env0.
  Proof. reflexivity. Qed.


  (* ---------------- methods that are one map call followed by a pure return ---------------- *)

  Lemma good_single (o : cop) mo (k : imres K V -> prog cres) (ret : imres K V -> cres) :
    conc_ok o -> is_remover o = false ->
    match mo with CSnapshot => False | _ => True end ->
    (forall r', k r' = Ret (ret r')) ->
    (forall P L, Rm P L ->
       let '(m', r, evs) := run_seq eqd (MapCall mo k) (mk P) in
       spec_ok eqd zero (mk L) o r /\ R eqd m' (spec_next eqd zero (mk L) o)) ->
    (forall P, let '(P', r') := map_step eqd P (to_mop env0 mo) in
               fn_ok o (ret r') (length (fn_events mo r'))) ->
    good o None [] 0 (MapCall mo k).
  Proof.
    intros Hc Hrem Hmo Hk Hsim Hfn. cbn [good]. intros P L HR.
    specialize (Hsim P L HR). specialize (Hfn P).
    cbn [run_seq] in Hsim. rewrite st_env_mk in Hsim. cbn [st_map mk] in Hsim.
    destruct mo; try contradiction;
      (destruct (map_step eqd P (to_mop env0 _)) as [P' r'];
       rewrite Hk in Hsim |- *; cbn [run_seq] in Hsim; rewrite with_map_mk in Hsim;
       destruct Hsim as [Hok HR'];
       right; exists (ret r'); split; [exact Hok|]; split;
       [ rewrite (spec_next_mk o L Hc) in HR'; exact HR'
       | cbn [good]; split; [reflexivity|]; split;
         [unfold track; rewrite Hrem; reflexivity | exact Hfn] ]).
  Qed.

End Good.
