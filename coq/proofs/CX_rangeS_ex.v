(* CX_rangeS_ex.v -- C07 at the cache level under concurrency over XMachineS (Map): a concrete run
   (vm_compute) of cs2run (CX_map2.v; = CX_rangeS.grun with sup := ssup).  Thread 0: Set 1 (bucket 0),
   Set 2 (bucket 5), Range.  While the traversal stands between buckets 5 and 10 (it has visited keys 1
   and 2) thread 1 runs Set 3 (bucket 10) from invocation to response; the Range then visits key 3 too.
   [rangeS_overlap_window]: the hypotheses of cacheS_range_once hold of this run. *)
From CacheV Require Import Base SpecMap Client CacheModel CacheOfModel Ops SpecTTL Lin Conc XMachineS TabExec Exec XExec XExecS.
From CacheV.gen Require Import Params.
From CacheV.proofs Require Import XS_cinst XS_range CX_compose CX_map CX_product2 CX_map2 CX_range CX_rangeS.
From Coq Require Import NArith ZArith List.
Import ListNotations.
Local Open Scope nat_scope.

Definition sx_ft : Z -> Z -> bool := fun _ _ => true.
Definition sx_or : oracle := [(1%Z,0%N,0%N); (2%Z,0%N,5%N); (3%Z,0%N,10%N)].
Definition sx_range : cop Z Z := ORange (Some sx_ft) [].
Definition sx_todo (t : nat) : list (cop Z Z) :=
  match t with
  | 0 => [OSet 1%Z 10%Z 0%Z; OSet 2%Z 20%Z 0%Z; sx_range]
  | 1 => [OSet 3%Z 30%Z 0%Z]
  | _ => []
  end.
Definition sx_len := minlen_of_hint false 0%Z.
Definition sx_window sched0 sched t o rest :=
  call_windowS zeqd (hash_of sx_or) idx_map tag_map (nslots_of false) (seeds_of []) grow_needed_s shrink_policy_s nstripes_x sx_len false sx_len
               (prog_cache zeqd 0%Z) (@ssup Z Z) 100%Z 0%Z None sx_todo sched0 sched t o rest.
Definition sx_whist sched0 sched t :=
  window_histS zeqd (hash_of sx_or) idx_map tag_map (nslots_of false) (seeds_of []) grow_needed_s shrink_policy_s nstripes_x sx_len false sx_len
               (prog_cache zeqd 0%Z) (@ssup Z Z) 100%Z 0%Z None sx_todo sched0 sched t.
Definition sx_hist sched :=
  cs2hist zeqd (hash_of sx_or) idx_map tag_map (nslots_of false) (seeds_of []) grow_needed_s shrink_policy_s nstripes_x sx_len false sx_len
          (prog_cache zeqd 0%Z) 100%Z 0%Z None sx_todo sched.
Definition sx_thr sched t :=
  p_thr _ (fst (fst (cs2run zeqd (hash_of sx_or) idx_map tag_map (nslots_of false) (seeds_of []) grow_needed_s shrink_policy_s nstripes_x sx_len false
                            (prog_cache zeqd 0%Z) 100%Z 0%Z None
                            (cs2init (nslots_of false) (seeds_of []) nstripes_x sx_len sx_todo) sched))) t.

Definition sx_s0 : list nat := repeat 0 33.
Definition sx_w1 : list nat := repeat 0 40.
Definition sx_w2 : list nat := sx_w1 ++ repeat 1 45.
Definition sx_w3 : list nat := sx_w2 ++ repeat 0 100.

Example rangeS_overlaps_set :
  (exists o k, sx_thr (sx_s0 ++ sx_w1) 0 = QSWait o k [(1%Z, {| iv := 10%Z; ie := 0%Z |}); (2%Z, {| iv := 20%Z; ie := 0%Z |})])
  /\ sx_hist (sx_s0 ++ sx_w2)
     = [HInv 0 (OSet 1%Z 10%Z 0%Z); HRes 0 CUnit; HInv 0 (OSet 2%Z 20%Z 0%Z); HRes 0 CUnit; HInv 0 sx_range;
        HInv 1 (OSet 3%Z 30%Z 0%Z); HRes 1 CUnit]
  /\ (exists o k, sx_thr (sx_s0 ++ sx_w2) 0 = QSWait o k [(1%Z, {| iv := 10%Z; ie := 0%Z |}); (2%Z, {| iv := 20%Z; ie := 0%Z |})])
  /\ sx_whist sx_s0 sx_w3 0 = [HInv 0 sx_range; HRes 0 (CList [(1%Z, 10%Z); (2%Z, 20%Z); (3%Z, 30%Z)])].
Proof.
  split; [eexists; eexists; vm_compute; reflexivity|].
  split; [vm_compute; reflexivity|].
  split; [eexists; eexists; vm_compute; reflexivity|].
  vm_compute; reflexivity.
Qed.

Example rangeS_overlap_window : sx_window sx_s0 sx_w3 0 sx_range [].
Proof. split; [vm_compute; reflexivity|]. split; [vm_compute; reflexivity|]. split; vm_compute; reflexivity. Qed.

Print Assumptions rangeS_overlaps_set.
