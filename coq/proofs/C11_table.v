(* C11_table.v -- the sequential table model refines SpecMap: for every hash
   function, seed stream, bucket size, index / tag function and resize policy. *)
From CacheV Require Import Base SpecMap TableModel.
From CacheV.proofs Require Import C11_lists.
From Coq Require Import NArith.

Section T.
  Context {K V A : Type}.
  Variable eqd : forall a b : K, {a = b} + {a <> b}.
  Variable hash : K -> N -> N.
  Variable idx : N -> nat -> nat.
  Variable tag : N -> N.
  Variable nslots : nat.
  Variable seeds : nat -> N.
  Variable variant : bool.
  Variable grow_needed : nat -> nat -> bool.
  Variable shrink_policy : nat -> nat -> bool.

  (* the only thing asked of the index function: it addresses a bucket of the table *)
  Hypothesis Hidx : forall h len, (0 < len)%nat -> (idx h len < len)%nat.

  Notation slot := (@slot K V).
  Notation chain := (@chain K V).
  Notation table := (@table K V).
  Notation tmap := (@tmap K V).
  Notation ce := (@chain_entries K V).
  Notation entries := (@entries K V).

  (* ---------------- chains ---------------- *)

  Lemma ce_app (a b : chain) : ce (a ++ b) = ce a ++ ce b.
  Proof. unfold chain_entries. apply flat_map_app. Qed.

  Lemma ce_repeat_none n : ce (repeat None n) = [].
  Proof. induction n; cbn; auto. Qed.

  Lemma entries_app (l1 l2 : list chain) seed sz sz1 sz2 :
    entries {| t_seed := seed; t_chains := l1 ++ l2; t_size := sz |}
    = entries {| t_seed := seed; t_chains := l1; t_size := sz1 |}
      ++ entries {| t_seed := seed; t_chains := l2; t_size := sz2 |}.
  Proof. unfold TableModel.entries. cbn. apply flat_map_app. Qed.

  Lemma find_slot_some k tg (c : chain) : forall pos p v,
    find_slot eqd k tg c pos = Some (p, v) ->
    exists c1 c2, c = c1 ++ Some (tg, k, v) :: c2 /\ (p = pos + length c1)%nat.
  Proof.
    induction c as [|s r IH]; intros pos p v H; cbn in H; [discriminate|].
    destruct s as [[[tg' k'] v']|].
    - destruct (tg' =? tg)%N eqn:Et.
      + destruct (eqd k k') as [->|Hne].
        * inversion H; subst. apply N.eqb_eq in Et. subst. exists [], r. cbn. split; [reflexivity|lia].
        * destruct (IH _ _ _ H) as [c1 [c2 [E Hp]]]. exists (Some (tg', k', v') :: c1), c2. cbn. subst. split; [reflexivity|lia].
      + destruct (IH _ _ _ H) as [c1 [c2 [E Hp]]]. exists (Some (tg', k', v') :: c1), c2. cbn. subst. split; [reflexivity|lia].
    - destruct (IH _ _ _ H) as [c1 [c2 [E Hp]]]. exists (None :: c1), c2. cbn. subst. split; [reflexivity|lia].
  Qed.

  Lemma find_slot_none k tg (c : chain) : forall pos,
    find_slot eqd k tg c pos = None -> forall v, ~ In (Some (tg, k, v)) c.
  Proof.
    induction c as [|s r IH]; intros pos H v Hin; cbn in *; [contradiction|].
    destruct s as [[[tg' k'] v']|].
    - destruct (tg' =? tg)%N eqn:Et.
      + destruct (eqd k k') as [->|Hne]; [discriminate|].
        destruct Hin as [E|Hin]; [inversion E; subst; contradiction | eapply IH; eauto].
      + destruct Hin as [E|Hin]; [inversion E; subst; rewrite N.eqb_refl in Et; discriminate | eapply IH; eauto].
    - destruct Hin as [E|Hin]; [discriminate | eapply IH; eauto].
  Qed.

  Lemma first_empty_some (c : chain) : forall pos p,
    first_empty c pos = Some p -> exists c1 c2, c = c1 ++ None :: c2 /\ (p = pos + length c1)%nat.
  Proof.
    induction c as [|s r IH]; intros pos p H; cbn in H; [discriminate|].
    destruct s as [x|].
    - destruct (IH _ _ H) as [c1 [c2 [E Hp]]]. exists (Some x :: c1), c2. cbn. subst. split; [reflexivity|lia].
    - inversion H; subst. exists [], r. cbn. split; [reflexivity|lia].
  Qed.

  Lemma set_nth_at (c1 c2 : chain) s s' : set_nth (c1 ++ s :: c2) (length c1) s' = c1 ++ s' :: c2.
  Proof. induction c1 as [|x r IH]; cbn; auto. rewrite IH. reflexivity. Qed.

  Lemma upd_nth_split {X} (l : list X) i c f : nth_error l i = Some c ->
    exists l1 l2, l = l1 ++ c :: l2 /\ length l1 = i /\ upd_nth l i f = l1 ++ f c :: l2.
  Proof.
    revert i. induction l as [|x r IH]; intros i H; destruct i; cbn in H; try discriminate.
    - inversion H; subst. exists [], r. auto.
    - destruct (IH _ H) as [l1 [l2 [E [Hl Hu]]]]. exists (x :: l1), l2. cbn. subst. rewrite Hu. auto.
  Qed.

  Lemma upd_nth_length {X} (l : list X) i f : length (upd_nth l i f) = length l.
  Proof. revert i. induction l as [|x r IH]; intros [|i]; cbn; auto. Qed.

  Lemma nth_nth_error {X} (l : list X) i d : (i < length l)%nat -> nth_error l i = Some (nth i l d).
  Proof. revert i. induction l as [|x r IH]; intros [|i] H; cbn in *; try lia; auto. apply IH. lia. Qed.

  (* ---------------- well-formed tables ---------------- *)

  Definition slot_ok (seed : N) (len i : nat) (s : slot) : Prop :=
    match s with
    | Some (tg, k, v) => idx (hash k seed) len = i /\ tg = tag (hash k seed)
    | None => True
    end.

  Record WF (t : table) : Prop := {
    wf_len : (0 < t_len t)%nat;
    wf_nd : NoDup (keys (entries t));
    wf_home : forall i c, nth_error (t_chains t) i = Some c -> Forall (slot_ok (t_seed t) (t_len t) i) c;
    wf_size : t_size t = length (entries t);
  }.

  Lemma entries_split (t : table) i c : nth_error (t_chains t) i = Some c ->
    exists l1 l2, t_chains t = l1 ++ c :: l2 /\ length l1 = i
      /\ entries t = flat_map ce l1 ++ ce c ++ flat_map ce l2.
  Proof.
    intros H. destruct (upd_nth_split _ _ _ (fun x => x) H) as [l1 [l2 [E [Hl _]]]].
    exists l1, l2. split; [exact E|]. split; [exact Hl|].
    unfold TableModel.entries. rewrite E, flat_map_app. cbn. reflexivity.
  Qed.

  (* a key can only live in its home chain *)
  Lemma in_entries_home (t : table) k v : WF t -> In (k, v) (entries t) ->
    exists c, nth_error (t_chains t) (idx (hash k (t_seed t)) (t_len t)) = Some c
              /\ In (Some (tag (hash k (t_seed t)), k, v)) c.
  Proof.
    intros Hwf Hin. unfold TableModel.entries in Hin. apply in_flat_map in Hin.
    destruct Hin as [c [Hc Hin]]. apply In_nth_error in Hc. destruct Hc as [i Hi].
    unfold chain_entries in Hin. apply in_flat_map in Hin. destruct Hin as [s [Hs Hin]].
    destruct s as [[[tg k'] v']|]; [|contradiction]. destruct Hin as [E|[]]. inversion E; subst.
    pose proof (wf_home t Hwf i c Hi) as Hf. rewrite Forall_forall in Hf. specialize (Hf _ Hs).
    cbn in Hf. destruct Hf as [Hi' Htg]. subst. exists c. auto.
  Qed.

  Definition home (t : table) (k : K) : chain :=
    nth (idx (hash k (t_seed t)) (t_len t)) (t_chains t) [].

  Lemma home_nth_error t k : WF t ->
    nth_error (t_chains t) (idx (hash k (t_seed t)) (t_len t)) = Some (home t k).
  Proof. intros Hwf. apply nth_nth_error. apply Hidx. apply (wf_len t Hwf). Qed.

  Lemma in_chain_in_entries (t : table) i c tg k v : nth_error (t_chains t) i = Some c ->
    In (Some (tg, k, v)) c -> In (k, v) (entries t).
  Proof.
    intros Hi Hin. unfold TableModel.entries. apply in_flat_map. exists c. split; [eapply nth_error_In; eauto|].
    unfold chain_entries. apply in_flat_map. exists (Some (tg, k, v)). split; [exact Hin | left; reflexivity].
  Qed.

  (* the search of the home chain decides membership in the abstract map *)
  Lemma find_lookup (t : table) k : WF t ->
    lookup eqd k (entries t) =
      match find_slot eqd k (tag (hash k (t_seed t))) (home t k) 0 with
      | Some (_, v) => Some v
      | None => None
      end.
  Proof.
    intros Hwf. destruct (find_slot eqd k _ (home t k) 0) as [[p v]|] eqn:Hf.
    - destruct (find_slot_some _ _ _ _ _ _ Hf) as [c1 [c2 [E _]]].
      apply In_lookup; [exact (wf_nd t Hwf)|].
      eapply in_chain_in_entries; [apply home_nth_error; auto|]. rewrite E. apply in_or_app. right. left. reflexivity.
    - destruct (lookup eqd k (entries t)) as [v|] eqn:Hl; [|reflexivity]. exfalso.
      apply lookup_In in Hl. destruct (in_entries_home t k v Hwf Hl) as [c [Hc Hin]].
      rewrite (home_nth_error t k Hwf) in Hc. inversion Hc; subst c.
      exact (find_slot_none _ _ _ _ Hf v Hin).
  Qed.


  (* ---------------- editing one chain ---------------- *)

  Definition with_chain (t : table) (i : nat) (c' : chain) (sz : nat) : table :=
    {| t_seed := t_seed t; t_chains := upd_nth (t_chains t) i (fun _ => c'); t_size := sz |}.

  Lemma nth_error_upd_nth {X} (l : list X) i j f :
    nth_error (upd_nth l i f) j =
      if Nat.eq_dec j i then match nth_error l i with Some x => Some (f x) | None => None end
      else nth_error l j.
  Proof.
    revert i j. induction l as [|x r IH]; intros [|i] [|j]; cbn [upd_nth nth_error].
    - destruct (Nat.eq_dec 0 0); reflexivity.
    - destruct (Nat.eq_dec (S j) 0); reflexivity.
    - destruct (Nat.eq_dec 0 (S i)); reflexivity.
    - destruct (Nat.eq_dec (S j) (S i)); reflexivity.
    - destruct (Nat.eq_dec 0 0); [reflexivity|lia].
    - destruct (Nat.eq_dec (S j) 0); [lia|reflexivity].
    - destruct (Nat.eq_dec 0 (S i)); [lia|reflexivity].
    - rewrite IH. destruct (Nat.eq_dec j i), (Nat.eq_dec (S j) (S i)); try lia; reflexivity.
  Qed.

  Lemma flat_map_upd_nth {X Y} (g : X -> list Y) (l : list X) i c c' : nth_error l i = Some c ->
    flat_map g l = flat_map g (firstn i l) ++ g c ++ flat_map g (skipn (S i) l)
    /\ flat_map g (upd_nth l i (fun _ => c')) = flat_map g (firstn i l) ++ g c' ++ flat_map g (skipn (S i) l).
  Proof.
    revert i. induction l as [|x r IH]; intros [|i] H; cbn in H; try discriminate.
    - inversion H; subst. cbn. auto.
    - destruct (IH _ H) as [E1 E2]. cbn [flat_map firstn skipn upd_nth]. rewrite E1 at 1. rewrite E2.
      rewrite <- !app_assoc. auto.
  Qed.

  Lemma upd_nth_ext {X} (l : list X) i c f : nth_error l i = Some c ->
    upd_nth l i f = upd_nth l i (fun _ => f c).
  Proof.
    revert i. induction l as [|x r IH]; intros [|i] H; cbn in *; try discriminate; auto.
    - inversion H; subst. reflexivity.
    - rewrite (IH _ H). reflexivity.
  Qed.

  Lemma edit_slot (t : table) i (c1 : chain) (s : slot) (c2 : chain) (s' : slot) sz : nth_error (t_chains t) i = Some (c1 ++ s :: c2) ->
    exists A B, entries t = A ++ ce [s] ++ B
      /\ entries (with_chain t i (c1 ++ s' :: c2) sz) = A ++ ce [s'] ++ B.
  Proof.
    intros H. destruct (flat_map_upd_nth ce _ _ _ (c1 ++ s' :: c2) H) as [E1 E2].
    exists (flat_map ce (firstn i (t_chains t)) ++ ce c1), (ce c2 ++ flat_map ce (skipn (S i) (t_chains t))).
    unfold TableModel.entries, with_chain. cbn [t_chains]. rewrite E1, E2.
    change (s :: c2) with ([s] ++ c2). change (s' :: c2) with ([s'] ++ c2).
    rewrite !ce_app, <- !app_assoc. auto.
  Qed.

  Lemma edit_append (t : table) i (c : chain) x n sz : nth_error (t_chains t) i = Some c ->
    exists A B, entries t = A ++ B
      /\ entries (with_chain t i (c ++ Some x :: repeat None n) sz) = A ++ ce [Some x] ++ B.
  Proof.
    intros H. destruct (flat_map_upd_nth ce _ _ _ (c ++ Some x :: repeat None n) H) as [E1 E2].
    exists (flat_map ce (firstn i (t_chains t)) ++ ce c), (flat_map ce (skipn (S i) (t_chains t))).
    unfold TableModel.entries, with_chain. cbn [t_chains]. rewrite E1, E2.
    change (Some x :: repeat None n) with ([Some x] ++ repeat None n).
    rewrite !ce_app, ce_repeat_none, app_nil_r, <- !app_assoc. auto.
  Qed.

  Lemma WF_with_chain (t : table) i (c c' : chain) sz : WF t -> nth_error (t_chains t) i = Some c ->
    Forall (slot_ok (t_seed t) (t_len t) i) c' ->
    NoDup (keys (entries (with_chain t i c' sz))) -> sz = length (entries (with_chain t i c' sz)) ->
    WF (with_chain t i c' sz).
  Proof.
    intros Hwf Hi Hc' Hnd Hsz.
    assert (Hlen : t_len (with_chain t i c' sz) = t_len t) by (unfold t_len, with_chain; cbn; apply upd_nth_length).
    constructor.
    - rewrite Hlen. apply (wf_len t Hwf).
    - exact Hnd.
    - intros j cj Hj. rewrite Hlen. unfold with_chain in Hj. cbn [t_chains t_seed] in *. rewrite nth_error_upd_nth in Hj.
      destruct (Nat.eq_dec j i) as [->|Hne].
      + rewrite Hi in Hj. inversion Hj; subst. exact Hc'.
      + apply (wf_home t Hwf j cj Hj).
    - exact Hsz.
  Qed.

  Lemma Forall_slot_replace seed len i (c1 c2 : chain) s s' :
    Forall (slot_ok seed len i) (c1 ++ s :: c2) -> slot_ok seed len i s' -> Forall (slot_ok seed len i) (c1 ++ s' :: c2).
  Proof.
    intros H Hs. apply Forall_app in H. destruct H as [H1 H2]. inversion H2; subst.
    apply Forall_app. split; auto.
  Qed.

  Lemma Forall_repeat_none seed len i n : Forall (slot_ok seed len i) (repeat None n).
  Proof. induction n; cbn; constructor; cbn; auto. Qed.

  (* ---------------- generations ---------------- *)

  Definition WFm (m : tmap) : Prop := tm_tabs m <> [] /\ WF (cur nslots m) /\ (0 < tm_minlen m)%nat.

  Lemma cur_set_cur (m : tmap) t : tm_tabs m <> [] -> cur nslots (set_cur m t) = t.
  Proof. intros _. unfold cur, set_cur. cbn. apply last_last. Qed.

  Lemma cur_push (m : tmap) t : cur nslots (push_tab m t) = t.
  Proof. unfold cur, push_tab. cbn. apply last_last. Qed.

  Lemma WFm_set_cur m t : WFm m -> WF t -> WFm (set_cur m t).
  Proof.
    intros [H1 [H2 H3]] Ht. split; [|split].
    - unfold set_cur. cbn. intros E. apply app_eq_nil in E. destruct E; discriminate.
    - rewrite cur_set_cur; auto.
    - exact H3.
  Qed.

  Lemma WFm_push m t : WFm m -> WF t -> WFm (push_tab m t).
  Proof.
    intros [H1 [H2 H3]] Ht. split; [|split].
    - unfold push_tab. cbn. intros E. apply app_eq_nil in E. destruct E; discriminate.
    - rewrite cur_push; auto.
    - exact H3.
  Qed.

  (* ---------------- copying: new_table, place, copy_into ---------------- *)

  Lemma entries_new_table len seed : entries (new_table nslots len seed) = [].
  Proof.
    unfold TableModel.entries, new_table. cbn. induction len; cbn; auto.
    rewrite IHlen. unfold empty_bucket. rewrite ce_repeat_none. reflexivity.
  Qed.

  Lemma WF_new_table len seed : (0 < len)%nat -> WF (new_table nslots len seed).
  Proof.
    intros Hl. constructor.
    - unfold t_len, new_table. cbn. rewrite repeat_length. exact Hl.
    - rewrite entries_new_table. constructor.
    - intros i c Hi. unfold new_table in Hi. cbn in Hi. apply nth_error_In in Hi. apply repeat_spec in Hi. subst.
      apply Forall_repeat_none.
    - rewrite entries_new_table. reflexivity.
  Qed.

  Lemma first_empty_none_full (c : chain) pos : first_empty c pos = None -> ~ In None c.
  Proof.
    revert pos. induction c as [|s r IH]; intros pos H Hin; cbn in *; [contradiction|].
    destruct s; [|discriminate]. destruct Hin as [E|Hin]; [discriminate | eapply IH; eauto].
  Qed.

  Lemma place_spec (dst : table) k v : WF dst -> ~ In k (keys (entries dst)) ->
    WF (place hash idx tag nslots dst (k, v))
    /\ t_seed (place hash idx tag nslots dst (k, v)) = t_seed dst
    /\ t_len (place hash idx tag nslots dst (k, v)) = t_len dst
    /\ exists A B, entries dst = A ++ B /\ entries (place hash idx tag nslots dst (k, v)) = A ++ (k, v) :: B.
  Proof.
    intros Hwf Hnotin. unfold place.
    set (h := hash k (t_seed dst)). set (i := idx h (t_len dst)).
    assert (Hi : nth_error (t_chains dst) i = Some (home dst k)) by (apply home_nth_error; auto).
    set (c := home dst k) in *.
    assert (Hupd : upd_nth (t_chains dst) i (fun c0 => append_to_chain nslots c0 (tag h, k, v))
                   = upd_nth (t_chains dst) i (fun _ => append_to_chain nslots c (tag h, k, v))).
    { apply (upd_nth_ext (t_chains dst) i c (fun c0 => append_to_chain nslots c0 (tag h, k, v))). exact Hi. }
    rewrite Hupd. fold (with_chain dst i (append_to_chain nslots c (tag h, k, v)) (S (t_size dst))).
    assert (Hok : slot_ok (t_seed dst) (t_len dst) i (Some (tag h, k, v))) by (cbn; auto).
    pose proof (wf_home dst Hwf i c Hi) as Hc.
    unfold append_to_chain. destruct (first_empty c 0) as [p|] eqn:Hfe.
    - destruct (first_empty_some _ _ _ Hfe) as [c1 [c2 [E Hp]]]. cbn in Hp. subst p. rewrite E, set_nth_at.
      rewrite E in Hi, Hc.
      destruct (edit_slot dst i c1 None c2 (Some (tag h, k, v)) (S (t_size dst)) Hi) as [A0 [B0 [E1 E2]]].
      cbn [chain_entries flat_map app] in E1, E2.
      assert (Hnd : NoDup (keys (A0 ++ (k, v) :: B0))).
      { apply nodup_mid_add; rewrite <- E1; [exact (wf_nd dst Hwf) | exact Hnotin]. }
      split; [|split; [reflexivity|split; [unfold t_len, with_chain; cbn; apply upd_nth_length|]]].
      + eapply WF_with_chain; eauto.
        * eapply Forall_slot_replace; eauto.
        * rewrite E2. exact Hnd.
        * rewrite E2, (wf_size dst Hwf), E1, !app_length. cbn. lia.
      + exists A0, B0. auto.
    - destruct (edit_append dst i c (tag h, k, v) (nslots - 1) (S (t_size dst)) Hi) as [A0 [B0 [E1 E2]]].
      cbn [chain_entries flat_map app] in E2.
      assert (Hnd : NoDup (keys (A0 ++ (k, v) :: B0))).
      { apply nodup_mid_add; rewrite <- E1; [exact (wf_nd dst Hwf) | exact Hnotin]. }
      split; [|split; [reflexivity|split; [unfold t_len, with_chain; cbn; apply upd_nth_length|]]].
      + eapply WF_with_chain; eauto.
        * apply Forall_app. split; [exact Hc|]. constructor; [exact Hok | apply Forall_repeat_none].
        * rewrite E2. exact Hnd.
        * rewrite E2, (wf_size dst Hwf), E1, !app_length. cbn. lia.
      + exists A0, B0. auto.
  Qed.


  Lemma copy_spec (l : list (K * V)) : forall dst : table,
    WF dst -> NoDup (keys l) -> (forall k, In k (keys l) -> ~ In k (keys (entries dst))) ->
    let t' := fold_left (place hash idx tag nslots) l dst in
    WF t' /\ t_seed t' = t_seed dst /\ t_len t' = t_len dst
    /\ forall k, lookup eqd k (entries t') =
                 match lookup eqd k l with Some v => Some v | None => lookup eqd k (entries dst) end.
  Proof.
    induction l as [|[k v] r IH]; intros dst Hwf Hnd Hdis; cbn [fold_left].
    - cbn. auto.
    - cbn [keys map fst] in Hnd. inversion Hnd as [|? ? Hk Hr]; subst.
      destruct (place_spec dst k v Hwf (Hdis k (or_introl eq_refl))) as [Hwf1 [Hs1 [Hl1 [A0 [B0 [E1 E2]]]]]].
      assert (Hdis1 : forall k0, In k0 (keys r) -> ~ In k0 (keys (entries (place hash idx tag nslots dst (k, v))))).
      { intros k0 Hin Hin2. rewrite E2, keys_app in Hin2. cbn in Hin2. apply in_app_or in Hin2.
        assert (Hd : ~ In k0 (keys (entries dst))) by (apply Hdis; right; exact Hin).
        rewrite E1, keys_app in Hd. destruct Hin2 as [H|[H|H]].
        - apply Hd. apply in_or_app. auto.
        - subst. contradiction.
        - apply Hd. apply in_or_app. auto. }
      destruct (IH _ Hwf1 Hr Hdis1) as [Hwf2 [Hs2 [Hl2 Hlk]]].
      split; [exact Hwf2|]. split; [congruence|]. split; [congruence|].
      intros k0. rewrite Hlk. cbn [lookup].
      destruct (eqd k0 k) as [->|Hne].
      + rewrite (notin_lookup_None eqd k r Hk). rewrite E2.
        rewrite lookup_mid; [destruct (eqd k k); congruence|].
        rewrite <- E2. exact (wf_nd _ Hwf1).
      + destruct (lookup eqd k0 r); [reflexivity|].
        rewrite E2, lookup_mid; [|rewrite <- E2; exact (wf_nd _ Hwf1)].
        destruct (eqd k0 k); [contradiction|]. rewrite E1. reflexivity.
  Qed.

  Definition abs (m : tmap) : list (K * V) := entries (cur nslots m).

  Lemma copy_into_spec (src : table) len seed : WF src -> (0 < len)%nat ->
    let t' := copy_into hash idx tag nslots src (new_table nslots len seed) in
    WF t' /\ meq eqd (entries t') (entries src).
  Proof.
    intros Hwf Hl. unfold copy_into.
    destruct (copy_spec (entries src) (new_table nslots len seed) (WF_new_table len seed Hl) (wf_nd _ Hwf)) as [H1 [_ [_ H4]]].
    { intros k _. rewrite entries_new_table. cbn. auto. }
    split; [exact H1|]. split; [exact (wf_nd _ H1)|]. split; [exact (wf_nd _ Hwf)|].
    intros k. rewrite H4, entries_new_table. cbn. destruct (lookup eqd k (entries src)); reflexivity.
  Qed.

  Lemma resize_spec (m : tmap) h : WFm m ->
    WFm (resize hash idx tag nslots seeds shrink_policy m h)
    /\ match h with
       | HClear => abs (resize hash idx tag nslots seeds shrink_policy m h) = []
       | _ => meq eqd (abs (resize hash idx tag nslots seeds shrink_policy m h)) (abs m)
       end.
  Proof.
    intros Hm. destruct Hm as [H1 [H2 H3]]. pose proof (wf_len _ H2) as Hlen.
    unfold resize, abs. destruct h.
    - destruct (copy_into_spec (cur nslots m) (t_len (cur nslots m) * 2) (seeds (length (tm_tabs m))) H2 ltac:(lia)) as [Hw He].
      rewrite cur_push. split; [apply WFm_push; [split; auto | exact Hw] | exact He].
    - destruct (Nat.ltb (tm_minlen m) (t_len (cur nslots m)) && shrink_policy (t_len (cur nslots m)) (t_size (cur nslots m))) eqn:E.
      + apply andb_true_iff in E. destruct E as [E _]. apply Nat.ltb_lt in E.
        assert (Hpos : (0 < t_len (cur nslots m) / 2)%nat).
        { apply Nat.div_str_pos. lia. }
        destruct (copy_into_spec (cur nslots m) (t_len (cur nslots m) / 2) (seeds (length (tm_tabs m))) H2 Hpos) as [Hw He].
        rewrite cur_push. split; [apply WFm_push; [split; auto | exact Hw] | exact He].
      + split; [split; auto | apply meq_refl; exact (wf_nd _ H2)].
    - rewrite cur_push. split; [apply WFm_push; [split; auto | apply WF_new_table; exact H3] | apply entries_new_table].
  Qed.


  (* ---------------- doCompute ---------------- *)

  Notation do_compute := (@do_compute K V A eqd hash idx tag nslots seeds variant grow_needed shrink_policy).

  Definition compute_post (a : amap K V) (k : K) (f : option V -> option V * option A) (lie co : bool)
             (m' : tmap) (r : res) : Prop :=
    match lookup eqd k a with
    | Some old =>
        if lie then meq eqd (abs m') a /\ r = (Some old, negb co, None)
        else
          let '(nvo, x) := f (Some old) in
          match nvo with
          | None => meq eqd (abs m') (remove eqd k a) /\ r = (Some old, negb co, x)
          | Some nv => meq eqd (abs m') (insert eqd k nv a) /\ r = ((if co then Some nv else Some old), true, x)
          end
    | None =>
        let '(nvo, x) := f None in
        match nvo with
        | None => meq eqd (abs m') a /\ r = (None, false, x)
        | Some nv => meq eqd (abs m') (insert eqd k nv a) /\ r = (Some nv, co, x)
        end
    end.

  Lemma size_pred_mid (A0 B0 : list (K * V)) kv : pred (length (A0 ++ kv :: B0)) = length (A0 ++ B0).
  Proof. rewrite !app_length. cbn. lia. Qed.

  (* the four elementary edits of the current table, each with its abstract effect *)

  Lemma upd_case (t : table) i (c1 c2 : chain) tg k old nv a :
    WF t -> nth_error (t_chains t) i = Some (c1 ++ Some (tg, k, old) :: c2) ->
    slot_ok (t_seed t) (t_len t) i (Some (tg, k, nv)) -> meq eqd (entries t) a ->
    WF (with_chain t i (c1 ++ Some (tg, k, nv) :: c2) (t_size t))
    /\ meq eqd (entries (with_chain t i (c1 ++ Some (tg, k, nv) :: c2) (t_size t))) (insert eqd k nv a).
  Proof.
    intros Hwf Hi Hok Hmeq.
    destruct (edit_slot t i c1 (Some (tg, k, old)) c2 (Some (tg, k, nv)) (t_size t) Hi) as [A0 [B0 [E1 E2]]].
    cbn [chain_entries flat_map app] in E1, E2. unfold TableModel.slot in *.
    assert (Hmq : meq eqd (A0 ++ (k, nv) :: B0) (insert eqd k nv a))
      by (apply meq_update with (v := old); rewrite <- E1; exact Hmeq).
    split; [|rewrite E2; exact Hmq].
    apply (WF_with_chain t i _ _ _ Hwf Hi).
    - eapply Forall_slot_replace; [exact (wf_home t Hwf i _ Hi) | exact Hok].
    - rewrite E2. apply Hmq.
    - rewrite E2, (wf_size t Hwf), E1, !app_length. reflexivity.
  Qed.

  Lemma del_case (t : table) i (c1 c2 : chain) tg k old a :
    WF t -> nth_error (t_chains t) i = Some (c1 ++ Some (tg, k, old) :: c2) -> meq eqd (entries t) a ->
    WF (with_chain t i (c1 ++ None :: c2) (pred (t_size t)))
    /\ meq eqd (entries (with_chain t i (c1 ++ None :: c2) (pred (t_size t)))) (remove eqd k a).
  Proof.
    intros Hwf Hi Hmeq.
    destruct (edit_slot t i c1 (Some (tg, k, old)) c2 None (pred (t_size t)) Hi) as [A0 [B0 [E1 E2]]].
    cbn [chain_entries flat_map app] in E1, E2. unfold TableModel.slot in *.
    assert (Hmq : meq eqd (A0 ++ B0) (remove eqd k a))
      by (apply meq_delete with (v := old); rewrite <- E1; exact Hmeq).
    split; [|rewrite E2; exact Hmq].
    apply (WF_with_chain t i _ _ _ Hwf Hi).
    - eapply Forall_slot_replace; [exact (wf_home t Hwf i _ Hi) | exact I].
    - rewrite E2. apply Hmq.
    - rewrite E2, (wf_size t Hwf), E1. apply size_pred_mid.
  Qed.

  Lemma fill_case (t : table) i (c1 c2 : chain) tg k nv a :
    WF t -> nth_error (t_chains t) i = Some (c1 ++ None :: c2) ->
    slot_ok (t_seed t) (t_len t) i (Some (tg, k, nv)) -> meq eqd (entries t) a -> lookup eqd k a = None ->
    WF (with_chain t i (c1 ++ Some (tg, k, nv) :: c2) (S (t_size t)))
    /\ meq eqd (entries (with_chain t i (c1 ++ Some (tg, k, nv) :: c2) (S (t_size t)))) (insert eqd k nv a).
  Proof.
    intros Hwf Hi Hok Hmeq Hnone.
    destruct (edit_slot t i c1 None c2 (Some (tg, k, nv)) (S (t_size t)) Hi) as [A0 [B0 [E1 E2]]].
    cbn [chain_entries flat_map app] in E1, E2. unfold TableModel.slot in *.
    assert (Hmq : meq eqd (A0 ++ (k, nv) :: B0) (insert eqd k nv a))
      by (apply meq_add; [rewrite <- E1; exact Hmeq | exact Hnone]).
    split; [|rewrite E2; exact Hmq].
    apply (WF_with_chain t i _ _ _ Hwf Hi).
    - eapply Forall_slot_replace; [exact (wf_home t Hwf i _ Hi) | exact Hok].
    - rewrite E2. apply Hmq.
    - rewrite E2, (wf_size t Hwf), E1, !app_length. cbn. lia.
  Qed.

  Lemma app_case (t : table) i (c : chain) tg k nv n a :
    WF t -> nth_error (t_chains t) i = Some c ->
    slot_ok (t_seed t) (t_len t) i (Some (tg, k, nv)) -> meq eqd (entries t) a -> lookup eqd k a = None ->
    WF (with_chain t i (c ++ Some (tg, k, nv) :: repeat None n) (S (t_size t)))
    /\ meq eqd (entries (with_chain t i (c ++ Some (tg, k, nv) :: repeat None n) (S (t_size t)))) (insert eqd k nv a).
  Proof.
    intros Hwf Hi Hok Hmeq Hnone.
    destruct (edit_append t i c (tg, k, nv) n (S (t_size t)) Hi) as [A0 [B0 [E1 E2]]].
    cbn [chain_entries flat_map app] in E2. unfold TableModel.slot in *.
    assert (Hmq : meq eqd (A0 ++ (k, nv) :: B0) (insert eqd k nv a))
      by (apply meq_add; [rewrite <- E1; exact Hmeq | exact Hnone]).
    split; [|rewrite E2; exact Hmq].
    apply (WF_with_chain t i _ _ _ Hwf Hi).
    - apply Forall_app. split; [exact (wf_home t Hwf i _ Hi) | constructor; [exact Hok | apply Forall_repeat_none]].
    - rewrite E2. apply Hmq.
    - rewrite E2, (wf_size t Hwf), E1, !app_length. cbn. lia.
  Qed.

  Lemma abs_set_cur m t : tm_tabs m <> [] -> abs (set_cur m t) = entries t.
  Proof. intros H. unfold abs. rewrite cur_set_cur; auto. Qed.

  Lemma do_compute_spec fuel : forall (m : tmap) a k f lie co m' r,
    WFm m -> meq eqd (abs m) a -> do_compute fuel m k f lie co = Some (m', r) ->
    WFm m' /\ compute_post a k f lie co m' r.
  Proof.
    induction fuel as [|fuel IH]; intros m a k f lie co m' r Hm Hmeq Hrun.
    {
      pose proof Hm as [Hne [Hwf Hmin]].
      unfold compute_post; rewrite <- (meq_lookup eqd _ _ k Hmeq); unfold abs at 1; rewrite (find_lookup _ k Hwf).
      cbn [TableModel.do_compute] in Hrun.
      fold (home (cur nslots m) k) in Hrun.
      set (t := cur nslots m) in *; set (h := hash k (t_seed t)) in *; set (i := idx h (t_len t)) in *.
      assert (Hi : nth_error (t_chains t) i = Some (home t k)) by (apply home_nth_error; exact Hwf).
      assert (Hok : forall nv, slot_ok (t_seed t) (t_len t) i (Some (tag h, k, nv))) by (intros; cbn; auto).
      assert (Habs : meq eqd (entries t) a) by exact Hmeq.

      destruct (find_slot eqd k (tag h) (home t k) 0) as [[pos old]|] eqn:Hf.
      - (* found *)
        destruct (find_slot_some _ _ _ _ _ _ Hf) as [c1 [c2 [E Hp]]]; cbn in Hp; subst pos.
        destruct lie.
        { inversion Hrun; subst m' r; split; [exact Hm | split; [exact Hmeq | reflexivity]]. }
        destruct (f (Some old)) as [[nv|] x] eqn:Hfx; rewrite E in Hrun, Hi; rewrite set_nth_at in Hrun.
        + destruct (upd_case t i c1 c2 (tag h) k old nv a Hwf Hi (Hok nv) Habs) as [Hwf' Hmq].
          unfold with_chain in Hwf', Hmq. inversion Hrun; subst m' r.
          split; [apply WFm_set_cur; auto | split; [rewrite abs_set_cur by exact Hne; exact Hmq | reflexivity]].
        + destruct (del_case t i c1 c2 (tag h) k old a Hwf Hi Habs) as [Hwf' Hmq].
          unfold with_chain in Hwf', Hmq.
          set (t1 := {| t_seed := t_seed t; t_chains := upd_nth (t_chains t) i (fun _ : chain => c1 ++ None :: c2);
                        t_size := Init.Nat.pred (t_size t) |}) in *.
          assert (Hm1 : WFm (set_cur m t1)) by (apply WFm_set_cur; auto).
          assert (Ha1 : meq eqd (abs (set_cur m t1)) (remove eqd k a)) by (rewrite abs_set_cur by exact Hne; exact Hmq).
          match type of Hrun with Some ((if ?b then _ else _), _) = _ => destruct b end; inversion Hrun; subst m' r.
          * destruct (resize_spec (set_cur m t1) HShrink Hm1) as [Hm2 He2].
            split; [exact Hm2 | split; [eapply meq_trans; [exact He2 | exact Ha1] | reflexivity]].
          * split; [exact Hm1 | split; [exact Ha1 | reflexivity]].
      - (* not found *)
        assert (Hnone : lookup eqd k a = None).
        { rewrite <- (meq_lookup eqd _ _ k Hmeq). unfold abs. fold t. rewrite (find_lookup t k Hwf). fold h. rewrite Hf. reflexivity. }
        destruct (first_empty (home t k) 0) as [p|] eqn:Hfe.
        + destruct (first_empty_some _ _ _ Hfe) as [c1 [c2 [E Hp]]]; cbn in Hp; subst p.
          destruct (f None) as [[nv|] x] eqn:Hfx.
          * rewrite E in Hrun, Hi; rewrite set_nth_at in Hrun.
            destruct (fill_case t i c1 c2 (tag h) k nv a Hwf Hi (Hok nv) Habs Hnone) as [Hwf' Hmq].
            unfold with_chain in Hwf', Hmq. inversion Hrun; subst m' r.
            split; [apply WFm_set_cur; auto | split; [rewrite abs_set_cur by exact Hne; exact Hmq | reflexivity]].
          * inversion Hrun; subst m' r; split; [exact Hm | split; [exact Hmeq | reflexivity]].
        + destruct (grow_needed (t_len t) (t_size t)).
          * discriminate Hrun.
          * destruct (f None) as [[nv|] x] eqn:Hfx.
            -- destruct (app_case t i (home t k) (tag h) k nv (nslots - 1) a Hwf Hi (Hok nv) Habs Hnone) as [Hwf' Hmq].
               unfold with_chain in Hwf', Hmq. inversion Hrun; subst m' r.
               split; [apply WFm_set_cur; auto | split; [rewrite abs_set_cur by exact Hne; exact Hmq | reflexivity]].
            -- inversion Hrun; subst m' r; split; [exact Hm | split; [exact Hmeq | reflexivity]].

    }
    {
      pose proof Hm as [Hne [Hwf Hmin]].
      unfold compute_post; rewrite <- (meq_lookup eqd _ _ k Hmeq); unfold abs at 1; rewrite (find_lookup _ k Hwf).
      cbn [TableModel.do_compute] in Hrun.
      fold (home (cur nslots m) k) in Hrun.
      set (t := cur nslots m) in *; set (h := hash k (t_seed t)) in *; set (i := idx h (t_len t)) in *.
      assert (Hi : nth_error (t_chains t) i = Some (home t k)) by (apply home_nth_error; exact Hwf).
      assert (Hok : forall nv, slot_ok (t_seed t) (t_len t) i (Some (tag h, k, nv))) by (intros; cbn; auto).
      assert (Habs : meq eqd (entries t) a) by exact Hmeq.

      destruct (find_slot eqd k (tag h) (home t k) 0) as [[pos old]|] eqn:Hf.
      - (* found *)
        destruct (find_slot_some _ _ _ _ _ _ Hf) as [c1 [c2 [E Hp]]]; cbn in Hp; subst pos.
        destruct lie.
        { inversion Hrun; subst m' r; split; [exact Hm | split; [exact Hmeq | reflexivity]]. }
        destruct (f (Some old)) as [[nv|] x] eqn:Hfx; rewrite E in Hrun, Hi; rewrite set_nth_at in Hrun.
        + destruct (upd_case t i c1 c2 (tag h) k old nv a Hwf Hi (Hok nv) Habs) as [Hwf' Hmq].
          unfold with_chain in Hwf', Hmq. inversion Hrun; subst m' r.
          split; [apply WFm_set_cur; auto | split; [rewrite abs_set_cur by exact Hne; exact Hmq | reflexivity]].
        + destruct (del_case t i c1 c2 (tag h) k old a Hwf Hi Habs) as [Hwf' Hmq].
          unfold with_chain in Hwf', Hmq.
          set (t1 := {| t_seed := t_seed t; t_chains := upd_nth (t_chains t) i (fun _ : chain => c1 ++ None :: c2);
                        t_size := Init.Nat.pred (t_size t) |}) in *.
          assert (Hm1 : WFm (set_cur m t1)) by (apply WFm_set_cur; auto).
          assert (Ha1 : meq eqd (abs (set_cur m t1)) (remove eqd k a)) by (rewrite abs_set_cur by exact Hne; exact Hmq).
          match type of Hrun with Some ((if ?b then _ else _), _) = _ => destruct b end; inversion Hrun; subst m' r.
          * destruct (resize_spec (set_cur m t1) HShrink Hm1) as [Hm2 He2].
            split; [exact Hm2 | split; [eapply meq_trans; [exact He2 | exact Ha1] | reflexivity]].
          * split; [exact Hm1 | split; [exact Ha1 | reflexivity]].
      - (* not found *)
        assert (Hnone : lookup eqd k a = None).
        { rewrite <- (meq_lookup eqd _ _ k Hmeq). unfold abs. fold t. rewrite (find_lookup t k Hwf). fold h. rewrite Hf. reflexivity. }
        destruct (first_empty (home t k) 0) as [p|] eqn:Hfe.
        + destruct (first_empty_some _ _ _ Hfe) as [c1 [c2 [E Hp]]]; cbn in Hp; subst p.
          destruct (f None) as [[nv|] x] eqn:Hfx.
          * rewrite E in Hrun, Hi; rewrite set_nth_at in Hrun.
            destruct (fill_case t i c1 c2 (tag h) k nv a Hwf Hi (Hok nv) Habs Hnone) as [Hwf' Hmq].
            unfold with_chain in Hwf', Hmq. inversion Hrun; subst m' r.
            split; [apply WFm_set_cur; auto | split; [rewrite abs_set_cur by exact Hne; exact Hmq | reflexivity]].
          * inversion Hrun; subst m' r; split; [exact Hm | split; [exact Hmeq | reflexivity]].
        + destruct (grow_needed (t_len t) (t_size t)).
          * destruct (resize_spec m HGrow Hm) as [Hm2 He2].
            destruct (IH _ a k f lie co m' r Hm2 (meq_trans eqd _ _ _ He2 Hmeq) Hrun) as [Hm3 Hpost].
            split; [exact Hm3|]. unfold compute_post in Hpost. rewrite Hnone in Hpost. exact Hpost.
          * destruct (f None) as [[nv|] x] eqn:Hfx.
            -- destruct (app_case t i (home t k) (tag h) k nv (nslots - 1) a Hwf Hi (Hok nv) Habs Hnone) as [Hwf' Hmq].
               unfold with_chain in Hwf', Hmq. inversion Hrun; subst m' r.
               split; [apply WFm_set_cur; auto | split; [rewrite abs_set_cur by exact Hne; exact Hmq | reflexivity]].
            -- inversion Hrun; subst m' r; split; [exact Hm | split; [exact Hmeq | reflexivity]].

    }
  Qed.


  (* ---------------- every call ---------------- *)

  Definition res_equiv (r r' : mres K V A) : Prop :=
    match r, r' with
    | RSnap l, RSnap l' => Permutation l l'       (* iteration order is the table's business *)
    | _, _ => r = r'
    end.

  Notation table_step := (@table_step K V A eqd hash idx tag nslots seeds variant grow_needed shrink_policy).

  Lemma load_lookup (m : tmap) a k : WFm m -> meq eqd (abs m) a ->
    load eqd hash idx tag nslots m k = lookup eqd k a.
  Proof.
    intros [Hne [Hwf Hmin]] Hmeq. rewrite <- (meq_lookup eqd _ _ k Hmeq). unfold abs.
    rewrite (find_lookup _ k Hwf). unfold load, home.
    destruct (find_slot eqd k _ _ 0) as [[p v]|]; reflexivity.
  Qed.

  Theorem table_refines fuel (m : tmap) a o m' r :
    WFm m -> meq eqd (abs m) a -> table_step fuel m o = Some (m', r) ->
    let '(a', r') := map_step eqd a o in
    WFm m' /\ meq eqd (abs m') a' /\ res_equiv r r'.
  Proof.
    intros Hm Hmeq Hrun. pose proof Hm as [Hne [Hwf Hmin]].
    destruct o; cbn [TableModel.table_step map_step] in *.
    - (* Load *)
      inversion Hrun; subst m' r. rewrite (load_lookup m a k Hm Hmeq).
      destruct (lookup eqd k a); cbn; auto.
    - (* Store *)
      destruct (do_compute fuel m k _ false false) as [[m1 r1]|] eqn:E; [|discriminate]. inversion Hrun; subst m' r.
      destruct (do_compute_spec _ _ _ _ _ _ _ _ _ Hm Hmeq E) as [Hm1 Hp]. unfold compute_post in Hp.
      destruct (lookup eqd k a); destruct Hp as [Hq _]; cbn; auto.
    - (* LoadOrStore *)
      destruct (do_compute fuel m k _ true false) as [[m1 r1]|] eqn:E; [|discriminate]. inversion Hrun; subst m' r.
      destruct (do_compute_spec _ _ _ _ _ _ _ _ _ Hm Hmeq E) as [Hm1 Hp]. unfold compute_post in Hp.
      destruct (lookup eqd k a); destruct Hp as [Hq Hr]; subst r1; cbn; auto.
    - (* LoadAndStore *)
      destruct (do_compute fuel m k _ false false) as [[m1 r1]|] eqn:E; [|discriminate]. inversion Hrun; subst m' r.
      destruct (do_compute_spec _ _ _ _ _ _ _ _ _ Hm Hmeq E) as [Hm1 Hp]. unfold compute_post in Hp.
      destruct (lookup eqd k a); destruct Hp as [Hq Hr]; subst r1; cbn; auto.
    - (* LoadOrCompute *)
      rewrite (load_lookup m a k Hm Hmeq) in Hrun.
      destruct (lookup eqd k a) as [old|] eqn:El.
      + inversion Hrun; subst m' r. cbn. auto.
      + destruct (do_compute fuel m k _ true false) as [[m1 r1]|] eqn:E; [|discriminate]. inversion Hrun; subst m' r.
        destruct (do_compute_spec _ _ _ _ _ _ _ _ _ Hm Hmeq E) as [Hm1 Hp]. unfold compute_post in Hp.
        rewrite El in Hp. destruct (f tt) as [v x]. destruct Hp as [Hq Hr]; subst r1; cbn; auto.
    - (* Compute *)
      destruct (do_compute fuel m k _ false true) as [[m1 r1]|] eqn:E; [|discriminate]. inversion Hrun; subst m' r.
      destruct (do_compute_spec _ _ _ _ _ _ _ _ _ Hm Hmeq E) as [Hm1 Hp]. unfold compute_post in Hp.
      destruct (lookup eqd k a) as [old|]; [destruct (f (Some old)) as [[nv del] x] | destruct (f None) as [[nv del] x]];
        destruct del; destruct Hp as [Hq Hr]; subst r1; cbn; auto.
    - (* LoadAndDelete *)
      destruct (do_compute fuel m k _ false false) as [[m1 r1]|] eqn:E; [|discriminate]. inversion Hrun; subst m' r.
      destruct (do_compute_spec _ _ _ _ _ _ _ _ _ Hm Hmeq E) as [Hm1 Hp]. unfold compute_post in Hp.
      destruct (lookup eqd k a); destruct Hp as [Hq Hr]; subst r1; cbn; auto.
    - (* Delete *)
      destruct (do_compute fuel m k _ false false) as [[m1 r1]|] eqn:E; [|discriminate]. inversion Hrun; subst m' r.
      destruct (do_compute_spec _ _ _ _ _ _ _ _ _ Hm Hmeq E) as [Hm1 Hp]. unfold compute_post in Hp.
      destruct (lookup eqd k a) eqn:El; destruct Hp as [Hq Hr]; cbn; auto.
      rewrite (remove_absent eqd k a El). auto.
    - (* Clear *)
      inversion Hrun; subst m' r. destruct (resize_spec m HClear Hm) as [Hm1 He].
      cbn [TableModel.resize] in Hm1, He.
      split; [exact Hm1|]. split; [|reflexivity]. rewrite He. apply meq_refl. constructor.
    - (* Size *)
      inversion Hrun; subst m' r. split; [exact Hm|]. split; [exact Hmeq|]. cbn. f_equal.
      rewrite (wf_size _ Hwf). apply (meq_length eqd). exact Hmeq.
    - (* Snapshot *)
      inversion Hrun; subst m' r. split; [exact Hm|]. split; [exact Hmeq|]. cbn.
      apply (meq_perm eqd). exact Hmeq.
  Qed.

  (* a fresh map is well formed and empty *)
  Lemma new_map_ok minlen : (0 < minlen)%nat ->
    WFm (new_map nslots seeds minlen) /\ abs (new_map nslots seeds minlen) = [].
  Proof.
    intros H. unfold new_map, WFm, abs, cur. cbn. split; [split; [discriminate | split; [apply WF_new_table; exact H | exact H]]|].
    apply (entries_new_table minlen (seeds 0)).
  Qed.

  (* ---------------- histories ---------------- *)

  Fixpoint run_table (fuel : nat) (m : tmap) (ops : list (mop K V A)) : option (tmap * list (mres K V A)) :=
    match ops with
    | [] => Some (m, [])
    | o :: t =>
        match table_step fuel m o with
        | Some (m1, r) =>
            match run_table fuel m1 t with Some (m2, rs) => Some (m2, r :: rs) | None => None end
        | None => None
        end
    end.

  Fixpoint run_spec (a : amap K V) (ops : list (mop K V A)) : amap K V * list (mres K V A) :=
    match ops with
    | [] => (a, [])
    | o :: t => let '(a1, r) := map_step eqd a o in let '(a2, rs) := run_spec a1 t in (a2, r :: rs)
    end.

  Theorem run_refines fuel ops : forall (m : tmap) a m' rs,
    WFm m -> meq eqd (abs m) a -> run_table fuel m ops = Some (m', rs) ->
    let '(a', rs') := run_spec a ops in
    WFm m' /\ meq eqd (abs m') a' /\ Forall2 res_equiv rs rs'.
  Proof.
    induction ops as [|o t IH]; intros m a m' rs Hm Hmeq Hrun; cbn [run_table run_spec] in *.
    - inversion Hrun; subst. auto.
    - destruct (table_step fuel m o) as [[m1 r]|] eqn:E; [|discriminate].
      destruct (run_table fuel m1 t) as [[m2 rs2]|] eqn:E2; [|discriminate]. inversion Hrun; subst m' rs.
      pose proof (table_refines fuel m a o m1 r Hm Hmeq E) as H1.
      destruct (map_step eqd a o) as [a1 r']. destruct H1 as [Hm1 [Hq1 Hr1]].
      pose proof (IH m1 a1 m2 rs2 Hm1 Hq1 E2) as H2.
      destruct (run_spec a1 t) as [a2 rs']. destruct H2 as [Hm2 [Hq2 Hr2]].
      split; [exact Hm2|]. split; [exact Hq2|]. constructor; auto.
  Qed.

End T.
