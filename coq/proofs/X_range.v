(* X_range.v -- Range of XMachine (MapOf) under every schedule (C07):
   the traversal locks one bucket of the table it loaded at a time, takes the pairs of
   that bucket, unlocks, and calls the visitor on them.
     - the pairs taken from bucket i are exactly what is visible in that bucket of the
       traversed table while the lock is held (no phantom, nothing of the bucket missed),
       with pairwise distinct keys, all of which have bucket i as their home;
     - hence the visits of one call have pairwise distinct keys, whatever the other
       threads do meanwhile (stores, deletes, grows, shrinks, Clear). *)
From CacheV Require Import Base SpecMap XMachine.
From CacheV.proofs Require Import X_basic X_inv X_c13 X_own X_chain X_c04 X_lin X_resize X_count.
From Coq Require Import NArith.
Local Open Scope nat_scope.

Section Range.
  Context {K V : Type}.
  Variable eqd : forall a b : K, {a = b} + {a <> b}.
  Variable hash : K -> N -> N.
  Variable idx : N -> nat -> nat.
  Variable tag : N -> N.
  Variable nslots : nat.
  Variable seeds : nat -> N.
  Variable grow_needed : nat -> Z -> bool.
  Variable shrink_policy : nat -> Z -> bool.
  Variable probe : list (option N) -> N -> list nat.
  Variable nstripes : nat -> nat.
  Variable minlen : nat.
  Variable grow_only : bool.

  Hypothesis Hidx : forall h len, 0 < len -> idx h len < len.
  Hypothesis Hstripes : forall len, 0 < nstripes len.
  Hypothesis Hminlen : 0 < minlen.
  Hypothesis Hnslots : 0 < nslots.
  Hypothesis Hprobe_sound : forall tags tg i, In i (probe tags tg) -> i < length tags /\ nth i tags None <> None.
  Hypothesis Hprobe_complete : forall tags tg i, i < length tags -> nth i tags None = Some tg -> In i (probe tags tg).

  Notation xtable := (@xtable K V).
  Notation xstate := (@xstate K V).
  Notation pc := (@pc K V).
  Notation slot := (@slot K V).
  Notation xlabel := (@xlabel K V).
  Notation empty_slot := (@empty_slot K V).
  Notation tab_at := (@tab_at K V nslots nstripes).
  Notation step_pc := (@step_pc K V eqd hash idx tag nslots seeds grow_needed shrink_policy probe nstripes minlen grow_only).
  Notation xstep := (@xstep K V eqd hash idx tag nslots seeds grow_needed shrink_policy probe nstripes minlen grow_only).
  Notation xrun := (@xrun K V eqd hash idx tag nslots seeds grow_needed shrink_policy probe nstripes minlen grow_only).
  Notation XInv := (@X_inv.XInv K V hash idx nslots nstripes).
  Notation XT := (@X_own.XT K V).
  Notation XC := (@X_c04.XC K V hash idx tag nslots nstripes).
  Notation XI5 := (@X_resize.XI5 K V hash idx tag nslots nstripes).
  Notation vis := (@X_lin.vis K V hash idx).
  Notation frame := (@X_inv.frame K V nslots nstripes).

  (* ---------------- the visits of a thread since its last invocation ---------------- *)

  Fixpoint cv (t : nat) (acc : list (K * V)) (ls : list xlabel) : list (K * V) :=
    match ls with
    | [] => acc
    | XMachine.XInv u _ :: r => if Nat.eq_dec u t then cv t [] r else cv t acc r
    | XVisit u k v :: r => if Nat.eq_dec u t then cv t (acc ++ [(k, v)]) r else cv t acc r
    | _ :: r => cv t acc r
    end.

  Lemma cv_app t ls1 : forall acc ls2, cv t acc (ls1 ++ ls2) = cv t (cv t acc ls1) ls2.
  Proof.
    induction ls1 as [|l r IH]; intros acc ls2; [reflexivity|].
    destruct l; cbn [app cv]; try apply IH; destruct (Nat.eq_dec _ t); apply IH.
  Qed.

  (* a label that is neither an invocation nor a visit *)
  Definition plain (l : xlabel) : Prop :=
    match l with XMachine.XInv _ _ | XVisit _ _ _ => False | _ => True end.

  Lemma cv_plain t ls : Forall plain ls -> forall acc, cv t acc ls = acc.
  Proof.
    induction 1 as [|l r Hl _ IH]; intros acc; [reflexivity|].
    destruct l; cbn [cv plain] in *; try contradiction; apply IH.
  Qed.

  Lemma cv_visits t u (snap : list (K * V)) : forall acc,
    cv t acc (map (fun kv => XVisit u (fst kv) (snd kv)) snap) = if Nat.eq_dec u t then acc ++ snap else acc.
  Proof.
    induction snap as [|[k v] r IH]; intros acc; cbn [map cv fst snd].
    - destruct (Nat.eq_dec u t); [rewrite app_nil_r|]; reflexivity.
    - destruct (Nat.eq_dec u t) as [E|E]; rewrite IH; destruct (Nat.eq_dec u t); try contradiction; [rewrite <- app_assoc|]; reflexivity.
  Qed.

  Lemma some_pair3 {A B} (g : A * B) a b : Some g = Some (a, b) -> a = fst g /\ b = snd g.
  Proof. intros H. inversion H. auto. Qed.

  Lemma goto_labels3 (s : xstate) t p ls :
    snd (goto s t p ls) = match p with PRet r => ls ++ [XRes t r] | _ => ls end.
  Proof. destruct p; reflexivity. Qed.

  Lemma goto_state3 (s : xstate) t p ls : fst (goto s t p ls) = set_pc s t (norm p).
  Proof. destruct p; reflexivity. Qed.

  Ltac step_cases3 Hs :=
    cbn [XMachine.step_pc] in Hs; cbv zeta in Hs;
    repeat match type of Hs with
           | context [match ?x with _ => _ end] => destruct x eqn:?
           end;
    try discriminate; apply some_pair3 in Hs; destruct Hs as [? ?]; subst;
    rewrite ?goto_state3, ?goto_labels3; cbn [fst].

  Lemma plain_ret (p : pc) t (ls : list xlabel) : Forall plain ls ->
    Forall plain (match p with PRet r => ls ++ [XRes t r] | _ => ls end).
  Proof. intros H. destruct p; try exact H. apply Forall_app. split; [exact H | constructor; [exact I | constructor]]. Qed.

  (* only the unlock step of a traversal emits visits; no step_pc emits an invocation *)
  Lemma step_labels s t p s' ls : step_pc s t p = Some (s', ls) ->
    (forall tab i snap, p <> PG_Unlock tab i snap) -> Forall plain ls.
  Proof.
    intros Hs Hn.
    destruct p; try (exfalso; eapply Hn; reflexivity); step_cases3 Hs;
      try (apply plain_ret);
      repeat first [ apply Forall_app; split | apply Forall_cons; [exact I|] | apply Forall_nil
                   | (unfold fnev_of; match goal with |- context [cx_ev ?c] => destruct (cx_ev c) end) ].
  Qed.

  (* ---------------- a step keeps length and seed of every existing table ---------------- *)

  Let f_trans := @frame_trans K V nslots nstripes minlen Hminlen.
  Let f_refl := @frame_refl K V nslots nstripes minlen Hminlen.
  Let f_pc := @frame_set_pc K V nslots nstripes minlen Hminlen.
  Let f_flags := @frame_set_flags K V nslots nstripes minlen Hminlen.
  Let f_push := @frame_push K V nslots nstripes minlen Hminlen.
  Let f_tab := @frame_set_tab K V nslots nstripes minlen Hminlen.

  Lemma frame_wake (s : xstate) :
    frame s {| g_tabs := g_tabs s; g_cur := g_cur s; g_resizing := g_resizing s; g_rmu := g_rmu s;
               g_growths := g_growths s; g_shrinks := g_shrinks s;
               g_pc := fun t' => wake (g_pc s t'); g_todo := g_todo s |}.
  Proof. split; [cbn; lia | intros; apply shape_refl]. Qed.

  Ltac tab1 := apply f_tab; intros; first [apply shape_set_lock | apply shape_set_chain | apply shape_add_size].

  Lemma step_frame s t p s' ls : step_pc s t p = Some (s', ls) -> frame s s'.
  Proof.
    intros Hs.
    destruct p; step_cases3 Hs;
      (eapply f_trans; [|apply f_pc]);
      try solve [ apply f_refl | apply f_flags | apply f_push | apply frame_wake | tab1 | (eapply f_trans; [tab1 | tab1]) ].
    (* the copy of one bucket *)
    eapply f_trans; [tab1|]. apply (@frame_set_tab' K V nslots nstripes minlen Hminlen).
    match goal with H : copy_chain _ _ _ _ ?src ?dst = (?x, ?z) |- _ =>
      pose proof (copy_chain_shape hash idx tag nslots src dst 0%Z) as Hsh; cbv zeta in Hsh;
      change (fold_left _ src (dst, 0%Z)) with (copy_chain hash idx tag nslots src dst) in Hsh; rewrite H in Hsh end.
    destruct Hsh as [Hsh _]. cbn [fst] in Hsh.
    eapply shape_trans; [|apply shape_add_size].
    match goal with |- shape_eq ?a ?b => assert (Ea : a = _) by reflexivity end.
    exact Hsh.
  Qed.

  (* ---------------- what the pairs taken under a bucket lock are ---------------- *)

  Definition hm (s : xstate) (tab : nat) (k : K) : nat := home hash idx (tab_at s tab) k.

  Lemma hm_frame s s' tab k : frame s s' -> tab < length (g_tabs s) -> hm s' tab k = hm s tab k.
  Proof.
    intros [_ Hf] Htab. destruct (Hf tab Htab) as [E1 [E2 _]]. unfold hm, XMachine.home. rewrite E1, E2. reflexivity.
  Qed.

  Lemma live_pairs_in (c : list slot) k v :
    In (k, v) (live_pairs c) <-> exists pos, pos < length c /\ ent_at c pos = Some (k, v).
  Proof.
    unfold live_pairs, ent_at. rewrite in_flat_map. split.
    - intros [sl [Hin Hs]]. destruct (In_nth c sl empty_slot Hin) as [pos [Hp E]]. exists pos. split; [exact Hp|]. rewrite E.
      destruct (s_ent sl) as [kv|]; [destruct Hs as [->|[]]; reflexivity | contradiction].
    - intros [pos [Hp He]]. exists (nth pos c empty_slot). split; [apply nth_In; exact Hp|]. rewrite He. left. reflexivity.
  Qed.

  Lemma live_pairs_nodup (c : list slot) : uniq c -> NoDup (map fst (live_pairs c)).
  Proof.
    induction c as [|sl r IH]; intros Hu; [constructor|].
    destruct (@uniq_tail K V nslots minlen Hminlen Hnslots sl r Hu) as [Hr Hno]. unfold live_pairs in *. cbn [flat_map]. rewrite map_app.
    destruct (s_ent sl) as [[k v]|] eqn:E; [|apply IH; exact Hr].
    cbn [map fst app]. constructor; [|apply IH; exact Hr].
    intros Hin. apply in_map_iff in Hin. destruct Hin as [[k' v'] [Ek Hin]]. cbn in Ek. subst k'.
    apply (live_pairs_in r k v') in Hin. destruct Hin as [pos [Hp He]]. apply (Hno k v eq_refl). exists pos, v'. auto.
  Qed.

  (* a bucket of a published table whose lock is held by a thread that is not in the middle of a
     two-store update: every slot is settled, so the entries are exactly the visible pairs *)
  Lemma locked_settled s tab b : XInv s -> XC s -> tab < length (g_tabs s) -> (forall u, newtab (g_pc s u) <> Some tab) ->
    b < x_len (tab_at s tab) ->
    (forall u cx pos v, g_pc s u <> PW_D2 cx tab pos v \/ hm s tab (cx_k cx) <> b) ->
    (forall u cx pos nv, g_pc s u <> PW_I2 cx tab pos nv \/ hm s tab (cx_k cx) <> b) ->
    let c := chain_of (tab_at s tab) b in
    NoDup (map fst (live_pairs c))
    /\ forall k v, In (k, v) (live_pairs c) <-> (vis (tab_at s tab) k v /\ hm s tab k = b).
  Proof.
    intros HI HC Htab Hpub Hb HD HIn c.
    destruct (xc_ch _ _ _ _ _ s HC tab b Htab Hpub Hb) as [_ [Hu Hs]]. fold c in Hu, Hs. unfold X_c04.chain in *.
    split; [apply live_pairs_nodup; exact Hu|].
    intros k v. rewrite live_pairs_in. split.
    - intros [pos [Hp He]]. specialize (Hs pos Hp). unfold X_c04.slot_ok, ent_at in *. fold c in Hs. rewrite He in Hs.
      destruct (s_tag (nth pos c empty_slot)) eqn:Et.
      + destruct Hs as [Hh _]. unfold X_c04.hkey in Hh. split; [|exact Hh].
        unfold X_lin.vis. rewrite Hh. exists pos. split; [exact Hp|]. unfold tag_at, ent_at. fold c. rewrite Et, He. split; [discriminate | reflexivity].
      + exfalso. destruct Hs as [u [cx [Hpc [Ek Hh]]]]. destruct (HD u cx pos v) as [H|H]; [exact (H Hpc)|].
        apply H. unfold hm. rewrite Ek. exact Hh.
    - intros [[pos [Hp [_ He]]] Hh]. unfold hm in Hh. rewrite Hh in Hp, He. exists pos. auto.
  Qed.

  (* ---------------- the invariant over state and trace ---------------- *)

  Fixpoint not_pg (p : pc) : Prop :=
    match p with
    | PG_Table | PG_Lock _ _ | PG_Unlock _ _ _ => False
    | PW_Unlock _ _ a | PW_Add _ _ _ a => not_pg a
    | _ => True
    end.

  Definition rvfact (s : xstate) (p : pc) (vs : list (K * V)) : Prop :=
    match p with
    | PG_Table => vs = []
    | PG_Lock tab i => NoDup (map fst vs) /\ (forall k v, In (k, v) vs -> hm s tab k < i)
    | PG_Unlock tab i snap =>
        NoDup (map fst vs) /\ (forall k v, In (k, v) vs -> hm s tab k < i)
        /\ snap = live_pairs (chain_of (tab_at s tab) i)
    | _ => NoDup (map fst vs) /\ not_pg p
    end.

  Definition RV (s : xstate) (ls : list xlabel) : Prop := forall t, rvfact s (g_pc s t) (cv t [] ls).

  Lemma rv_default s (p : pc) vs : not_pg p -> NoDup (map fst vs) -> rvfact s p vs.
  Proof. intros Hn Hd. destruct p; cbn [rvfact not_pg] in *; try contradiction; auto. Qed.

  Lemma rv_nodup s (p : pc) vs : rvfact s p vs -> NoDup (map fst vs).
  Proof. destruct p; cbn [rvfact]; intros H; try (destruct H as [H _]; exact H). subst vs. constructor. Qed.

  Lemma not_pg_wake (p : pc) : not_pg p -> not_pg (wake p).
  Proof. destruct p; cbn; auto. Qed.

  Lemma not_pg_norm (p : pc) : not_pg p -> not_pg (norm p).
  Proof. destruct p; cbn; auto. Qed.

  Lemma not_pg_cont kt : not_pg (@run_cont K V kt).
  Proof. destruct kt; exact I. Qed.

  Lemma step_not_pg s t p s' ls : step_pc s t p = Some (s', ls) -> not_pg p -> not_pg (g_pc s' t).
  Proof.
    intros Hs Hn.
    destruct p; cbn [not_pg] in Hn; try contradiction; step_cases3 Hs;
      cbn [set_pc g_pc]; (destruct (Nat.eq_dec t t) as [_|Hc]; [|exfalso; apply Hc; reflexivity]);
      first [exact I | apply not_pg_norm; first [exact I | exact Hn | apply not_pg_cont | (match goal with |- context [match ?h with _ => _ end] => destruct h as [[]|] end; first [exact I | apply not_pg_cont])]].
  Qed.

  Lemma chain_set_lock9 s tab0 b o tab i : tab0 < length (g_tabs s) ->
    chain_of (tab_at (set_tab s tab0 (fun tb => set_lock tb b o)) tab) i = chain_of (tab_at s tab) i.
  Proof.
    intros H. rewrite (tab_at_set_tab nslots nstripes s tab0 _ tab H). destruct (Nat.eq_dec tab tab0) as [->|_]; reflexivity.
  Qed.

  (* the trace of a step, as seen by [cv] *)
  Lemma step_cv s t p s' ls : step_pc s t p = Some (s', ls) ->
    forall u acc, cv u acc ls =
      match p with
      | PG_Unlock _ _ snap => if Nat.eq_dec t u then acc ++ snap else acc
      | _ => acc
      end.
  Proof.
    intros Hs u acc.
    assert (Hpl : (forall tab i snap, p <> PG_Unlock tab i snap) -> cv u acc ls = acc).
    { intros Hn. apply cv_plain. eapply step_labels; eassumption. }
    destruct p; try (apply Hpl; intros; discriminate).
    clear Hpl. step_cases3 Hs.
    - cbn [cv]. apply cv_visits.
    - change (XStep t KUnlock :: map (fun kv => XVisit t (fst kv) (snd kv)) snap ++ [XRes t XRUnit])
        with ([XStep t KUnlock] ++ map (fun kv => XVisit t (fst kv) (snd kv)) snap ++ [XRes t XRUnit]).
      rewrite !cv_app. cbn [cv]. rewrite cv_visits. reflexivity.
  Qed.

  Lemma RV_step_pc s ls0 t p s' ls : XInv s -> XT s -> XC s -> RV s ls0 ->
    g_pc s t = p -> step_pc s t p = Some (s', ls) -> RV s' (ls0 ++ ls).
  Proof.
    intros HI HT HC HR Hp Hs u.
    pose proof (step_frame s t p s' ls Hs) as Hfr.
    pose proof (xi_valid _ _ _ _ s HI t) as Hv. rewrite Hp in Hv.
    rewrite cv_app. rewrite (step_cv s t p s' ls Hs).
    destruct (Nat.eq_dec u t) as [->|Hne].
    - (* the stepping thread *)
      specialize (HR t). rewrite Hp in HR. set (vs := cv t [] ls0) in *.
      destruct p;
        try (apply rv_default; [eapply step_not_pg; [exact Hs | apply HR] | apply HR]).
      + (* PG_Table *)
        cbn [rvfact] in HR. rewrite HR. step_cases3 Hs; cbn [set_pc g_pc]; (destruct (Nat.eq_dec t t) as [_|Hc]; [|exfalso; apply Hc; reflexivity]);
          cbn [norm rvfact not_pg map]; (split; [constructor|]); [intros k v [] | exact I].
      + (* PG_Lock *)
        destruct HR as [R1 R2]. cbn [valid] in Hv. destruct Hv as [Hv1 Hv2].
        step_cases3 Hs. rewrite ?goto_state3 in Hfr. cbn [norm] in Hfr. cbn [set_pc g_pc]. (destruct (Nat.eq_dec t t) as [_|Hc]; [|exfalso; apply Hc; reflexivity]).
        cbn [norm rvfact]. split; [exact R1|]. split.
        * intros k v Hin. rewrite (hm_frame s _ tab k Hfr Hv1). apply (R2 k v Hin).
        * change (tab_at (set_pc ?S t ?q) tab) with (tab_at S tab). rewrite (chain_set_lock9 s tab i (Some t) tab i Hv1). reflexivity.
      + (* PG_Unlock *)
        destruct HR as [R1 [R2 R3]]. cbn [valid] in Hv. destruct Hv as [Hv1 Hv2].
        destruct (Nat.eq_dec t t) as [_|Hc]; [|exfalso; apply Hc; reflexivity].
        assert (Hlk : lock_of (tab_at s tab) i = Some t).
        { apply (xi_lockA _ _ _ _ s HI t tab i). rewrite Hp. reflexivity. }
        assert (Hpub : forall w, newtab (g_pc s w) <> Some tab).
        { intros w Ew. destruct (xt_new s HT w _ Ew) as [_ B]. pose proof (xt_le s HT t) as L. rewrite Hp in L. cbn [tabs_le] in L. lia. }
        destruct (locked_settled s tab i HI HC Hv1 Hpub Hv2) as [S1 S2].
        { intros w cx pos v. destruct (Nat.eq_dec (hm s tab (cx_k cx)) i) as [E|E]; [left|right; exact E].
          intros Ew. assert (Hh : holds hash idx nslots nstripes s (g_pc s w) = Some (tab, i)) by (rewrite Ew; cbn [holds]; unfold hm in E; rewrite E; reflexivity).
          pose proof (xi_lockA _ _ _ _ s HI w tab i Hh) as L. rewrite Hlk in L. inversion L; subst w. rewrite Hp in Ew. discriminate. }
        { intros w cx pos nv. destruct (Nat.eq_dec (hm s tab (cx_k cx)) i) as [E|E]; [left|right; exact E].
          intros Ew. assert (Hh : holds hash idx nslots nstripes s (g_pc s w) = Some (tab, i)) by (rewrite Ew; cbn [holds]; unfold hm in E; rewrite E; reflexivity).
          pose proof (xi_lockA _ _ _ _ s HI w tab i Hh) as L. rewrite Hlk in L. inversion L; subst w. rewrite Hp in Ew. discriminate. }
        rewrite <- R3 in S1, S2.
        assert (Hnd : NoDup (map fst (vs ++ snap))).
        { rewrite map_app. apply NoDup_app_iff'; [exact R1 | exact S1|].
          intros k H1 H2. apply in_map_iff in H1. destruct H1 as [[k1 v1] [E1 H1]]. cbn in E1. subst k1.
          apply in_map_iff in H2. destruct H2 as [[k2 v2] [E2 H2]]. cbn in E2. subst k2.
          pose proof (R2 k v1 H1) as A. destruct (proj1 (S2 k v2) H2) as [_ B]. lia. }
        step_cases3 Hs; rewrite ?goto_state3 in Hfr; cbn [norm] in Hfr; cbn [set_pc g_pc]; (destruct (Nat.eq_dec t t) as [_|Hc]; [|exfalso; apply Hc; reflexivity]);
          cbn [norm rvfact not_pg]; (split; [exact Hnd|]); [|exact I].
        intros k v Hin. rewrite (hm_frame s _ tab k Hfr Hv1). apply in_app_or in Hin. destruct Hin as [Hin|Hin].
        * pose proof (R2 k v Hin). lia.
        * destruct (proj1 (S2 k v) Hin) as [_ B]. lia.
    - (* another thread *)
      assert (Ecv : match p with PG_Unlock _ _ snap => if Nat.eq_dec t u then cv u [] ls0 ++ snap else cv u [] ls0 | _ => cv u [] ls0 end = cv u [] ls0).
      { destruct p; try reflexivity. destruct (Nat.eq_dec t u); [exfalso; apply Hne; congruence | reflexivity]. }
      rewrite Ecv. clear Ecv. specialize (HR u). set (vs := cv u [] ls0) in *.
      destruct (step_misc eqd hash idx tag nslots seeds grow_needed shrink_policy probe nstripes minlen grow_only s t p s' ls Hs Hv) as [_ [_ [_ Hoth]]].
      pose proof (xi_valid _ _ _ _ s HI u) as Hvu.
      assert (Hw : g_pc s' u = g_pc s u \/ (g_pc s' u = wake (g_pc s u) /\ not_pg (g_pc s u) /\ not_pg (wake (g_pc s u)))).
      { destruct (Hoth u Hne) as [E|E]; [left; exact E|]. destruct (g_pc s u) eqn:Eu; try (left; exact E). right. rewrite E. cbn. auto. }
      destruct Hw as [E|[E [W1 W2]]].
      2:{ rewrite E. apply rv_default; [exact W2 | eapply rv_nodup; exact HR]. }
      rewrite E. destruct (g_pc s u) eqn:Eu; try exact HR; cbn [rvfact valid] in *.
      + destruct HR as [R1 R2]. destruct Hvu as [Hv1 _]. split; [exact R1|]. intros k v Hin. rewrite (hm_frame s _ tab k Hfr Hv1). apply (R2 k v Hin).
      + destruct HR as [R1 [R2 R3]]. destruct Hvu as [Hv1 Hv2]. split; [exact R1|]. split.
        * intros k v Hin. rewrite (hm_frame s _ tab k Hfr Hv1). apply (R2 k v Hin).
        * rewrite R3. f_equal. symmetry.
          destruct (step_chain_frame eqd hash idx tag nslots seeds grow_needed shrink_policy probe nstripes minlen grow_only
                      s t p s' ls HI Hp Hs tab i Hv1) as [H|[H|H]]; [exact H | exfalso | exfalso].
          -- rewrite <- Hp in H. pose proof (xi_lockA _ _ _ _ s HI t tab i H) as L1.
             assert (Hh : holds hash idx nslots nstripes s (g_pc s u) = Some (tab, i)) by (rewrite Eu; reflexivity).
             pose proof (xi_lockA _ _ _ _ s HI u tab i Hh) as L2. rewrite L1 in L2. inversion L2. apply Hne. congruence.
          -- rewrite <- Hp in H. destruct (xt_new s HT t _ H) as [_ B]. pose proof (xt_le s HT u) as L. rewrite Eu in L. cbn [tabs_le] in L. lia.
  Qed.

  Lemma start_not_pg_or_table (o : @xop K V) : not_pg (@start_pc K V o) \/ @start_pc K V o = PG_Table.
  Proof. destruct o; cbn; auto; destruct lie; cbn; auto. Qed.

  Lemma RV_xstep s ls0 t s' ls : XI5 s -> RV s ls0 -> xstep s t = Some (s', ls) -> RV s' (ls0 ++ ls).
  Proof.
    intros [[HI [_ [HT HC]]] _] HR E. unfold XMachine.xstep in E.
    destruct (g_pc s t) eqn:Hp; try (eapply RV_step_pc; [exact HI | exact HT | exact HC | exact HR | exact Hp | exact E]).
    destruct (g_todo s t) as [|o rest]; [discriminate|].
    destruct (invoke_inv hash idx tag nslots seeds grow_needed nstripes minlen Hminlen Hnslots s t o rest HI HT HC Hp) as [HI1 [HT1 HC1]].
    cbv zeta in HI1, HT1, HC1.
    set (s1 := set_pc _ t (start_pc o)) in *.
    assert (HR1 : RV s1 (ls0 ++ [XMachine.XInv t o])).
    { intros u. rewrite cv_app. cbn [cv]. unfold s1. cbn [set_pc g_pc].
      destruct (Nat.eq_dec t u) as [->|Hne].
      - destruct (Nat.eq_dec u u) as [_|Hc]; [|exfalso; apply Hc; reflexivity].
        destruct (start_not_pg_or_table o) as [H|H]; [apply rv_default; [exact H | constructor] | rewrite H; reflexivity].
      - destruct (Nat.eq_dec u t) as [Hc|_]; [exfalso; apply Hne; congruence|].
        specialize (HR u). destruct (g_pc s u); exact HR. }
    assert (Epc : g_pc s1 t = start_pc o) by (unfold s1; cbn [set_pc g_pc]; destruct (Nat.eq_dec t t); congruence).
    change (match step_pc s1 t (start_pc o) with
            | Some (s2, ls1) => Some (s2, XMachine.XInv t o :: ls1)
            | None => Some (s1, [XMachine.XInv t o])
            end = Some (s', ls)) in E.
    destruct (step_pc s1 t (start_pc o)) as [[s2 ls1]|] eqn:E2.
    - inversion E; subst s2 ls. change (ls0 ++ XMachine.XInv t o :: ls1) with (ls0 ++ [XMachine.XInv t o] ++ ls1). rewrite app_assoc.
      eapply RV_step_pc; [exact HI1 | exact HT1 | exact HC1 | exact HR1 | exact Epc | exact E2].
    - inversion E; subst s' ls. exact HR1.
  Qed.

  Lemma RV_xrun sched : forall s ls0, XI5 s -> RV s ls0 -> RV (fst (xrun s sched)) (ls0 ++ snd (xrun s sched)).
  Proof.
    induction sched as [|t rest IH]; intros s ls0 H5 HR; cbn [XMachine.xrun]; [cbn [fst snd]; rewrite app_nil_r; exact HR|].
    destruct (xstep s t) as [[s' ls]|] eqn:E.
    - pose proof (XI5_xstep eqd hash idx tag nslots seeds grow_needed shrink_policy probe nstripes minlen grow_only
                    Hidx Hstripes Hminlen Hnslots Hprobe_sound Hprobe_complete s t s' ls H5 E) as H5'.
      specialize (IH s' (ls0 ++ ls) H5' (RV_xstep s ls0 t s' ls H5 HR E)).
      destruct (XMachine.xrun _ _ _ _ _ _ _ _ _ _ _ _ s' rest) as [s'' ls']. cbn [fst snd] in *. rewrite app_assoc. exact IH.
    - apply IH; assumption.
  Qed.

  Lemma RV_init len0 todo : RV (xinit nslots seeds nstripes len0 todo) [].
  Proof. intros t. cbn. split; [constructor | exact I]. Qed.

  (* the pairs a traversal holds after locking bucket i of table tab *)
  Lemma held_snapshot s t tab i snap : XInv s -> XT s -> XC s -> g_pc s t = PG_Unlock tab i snap ->
    let c := chain_of (tab_at s tab) i in
    NoDup (map fst (live_pairs c))
    /\ forall k v, In (k, v) (live_pairs c) <-> (vis (tab_at s tab) k v /\ hm s tab k = i).
  Proof.
    intros HI HT HC Hp.
    pose proof (xi_valid _ _ _ _ s HI t) as Hv. rewrite Hp in Hv. cbn [valid] in Hv. destruct Hv as [Hv1 Hv2].
    assert (Hlk : lock_of (tab_at s tab) i = Some t).
    { apply (xi_lockA _ _ _ _ s HI t tab i). rewrite Hp. reflexivity. }
    assert (Hpub : forall w, newtab (g_pc s w) <> Some tab).
    { intros w Ew. destruct (xt_new s HT w _ Ew) as [_ B]. pose proof (xt_le s HT t) as L. rewrite Hp in L. cbn [tabs_le] in L. lia. }
    apply (locked_settled s tab i HI HC Hv1 Hpub Hv2).
    - intros w cx pos v. destruct (Nat.eq_dec (hm s tab (cx_k cx)) i) as [E|E]; [left|right; exact E].
      intros Ew. assert (Hh : holds hash idx nslots nstripes s (g_pc s w) = Some (tab, i)) by (rewrite Ew; cbn [holds]; unfold hm in E; rewrite E; reflexivity).
      pose proof (xi_lockA _ _ _ _ s HI w tab i Hh) as L. rewrite Hlk in L. inversion L; subst w. rewrite Hp in Ew. discriminate.
    - intros w cx pos nv. destruct (Nat.eq_dec (hm s tab (cx_k cx)) i) as [E|E]; [left|right; exact E].
      intros Ew. assert (Hh : holds hash idx nslots nstripes s (g_pc s w) = Some (tab, i)) by (rewrite Ew; cbn [holds]; unfold hm in E; rewrite E; reflexivity).
      pose proof (xi_lockA _ _ _ _ s HI w tab i Hh) as L. rewrite Hlk in L. inversion L; subst w. rewrite Hp in Ew. discriminate.
  Qed.

  (* ---------------- C07 on every reachable state ---------------- *)

  (* at most once per key: the visits a thread has made since its last invocation have pairwise
     distinct keys -- in every reachable state, whatever the schedule *)
  Theorem range_once len0 todo sched t : 0 < len0 ->
    NoDup (map fst (cv t [] (snd (xrun (xinit nslots seeds nstripes len0 todo) sched)))).
  Proof.
    intros Hl.
    pose proof (RV_xrun sched (xinit nslots seeds nstripes len0 todo) []
                  (reachable_inv5 eqd hash idx tag nslots seeds grow_needed shrink_policy probe nstripes minlen grow_only
                     Hidx Hstripes Hminlen Hnslots Hprobe_sound Hprobe_complete len0 todo [] Hl) (RV_init len0 todo) t) as H.
    cbn [app] in H. eapply rv_nodup. exact H.
  Qed.

  (* no phantom, nothing of the bucket missed: what the traversal is about to hand to the visitor
     is exactly what is visible in bucket i of the traversed table while it holds that bucket's lock *)
  Theorem range_snapshot len0 todo sched t tab i snap : 0 < len0 ->
    let s := fst (xrun (xinit nslots seeds nstripes len0 todo) sched) in
    g_pc s t = PG_Unlock tab i snap ->
    NoDup (map fst snap) /\ (forall k v, In (k, v) snap <-> (vis (tab_at s tab) k v /\ hm s tab k = i))
    /\ lock_of (tab_at s tab) i = Some t.
  Proof.
    intros Hl s Hp.
    assert (H5 : XI5 s) by apply (reachable_inv5 eqd hash idx tag nslots seeds grow_needed shrink_policy probe nstripes minlen grow_only
               Hidx Hstripes Hminlen Hnslots Hprobe_sound Hprobe_complete len0 todo sched Hl).
    pose proof (RV_xrun sched (xinit nslots seeds nstripes len0 todo) []
                  (reachable_inv5 eqd hash idx tag nslots seeds grow_needed shrink_policy probe nstripes minlen grow_only
                     Hidx Hstripes Hminlen Hnslots Hprobe_sound Hprobe_complete len0 todo [] Hl) (RV_init len0 todo) t) as H.
    fold s in H. rewrite Hp in H. cbn [rvfact] in H. destruct H as [_ [_ R3]].
    destruct H5 as [[HI [_ [HT HC]]] _].
    destruct (held_snapshot s t tab i snap HI HT HC Hp) as [S1 S2]. rewrite <- R3 in S1, S2.
    split; [exact S1|]. split; [exact S2|]. apply (xi_lockA _ _ _ _ s HI t tab i). rewrite Hp. reflexivity.
  Qed.

  (* ... and the unlock step calls the visitor on exactly these pairs, in order *)
  Theorem range_visits s t tab i snap s' ls : g_pc s t = PG_Unlock tab i snap -> xstep s t = Some (s', ls) ->
    cv t [] ls = snap
    /\ ((S i < x_len (tab_at s tab) /\ g_pc s' t = PG_Lock tab (S i)) \/ (x_len (tab_at s tab) <= S i /\ g_pc s' t = PIdle)).
  Proof.
    intros Hp E. unfold XMachine.xstep in E. rewrite Hp in E.
    split.
    - rewrite (step_cv s t _ s' ls E). destruct (Nat.eq_dec t t) as [_|Hc]; [reflexivity | exfalso; apply Hc; reflexivity].
    - step_cases3 E; cbn [set_pc g_pc norm]; (destruct (Nat.eq_dec t t) as [_|Hc]; [|exfalso; apply Hc; reflexivity]);
        match goal with H : Nat.ltb _ _ = true |- _ => apply Nat.ltb_lt in H; left; auto
                      | H : Nat.ltb _ _ = false |- _ => apply Nat.ltb_ge in H; right; auto end.
  Qed.

  (* the traversal starts at bucket 0 of the table that is current when it loads the pointer *)
  Theorem range_start s t s' ls : g_pc s t = PG_Table -> step_pc s t PG_Table = Some (s', ls) ->
    (0 < x_len (tab_at s (g_cur s)) /\ g_pc s' t = PG_Lock (g_cur s) 0) \/ (x_len (tab_at s (g_cur s)) = 0 /\ g_pc s' t = PIdle).
  Proof.
    intros Hp E.
    step_cases3 E; cbn [set_pc g_pc norm]; (destruct (Nat.eq_dec t t) as [_|Hc]; [|exfalso; apply Hc; reflexivity]);
      match goal with H : Nat.ltb _ _ = true |- _ => apply Nat.ltb_lt in H; left; auto
                    | H : Nat.ltb _ _ = false |- _ => apply Nat.ltb_ge in H; right; split; [apply Nat.le_0_r; exact H | reflexivity] end.
  Qed.

  (* ... locks bucket i only when it is free, and takes the pairs of that bucket *)
  Theorem range_lock s t tab i s' ls : g_pc s t = PG_Lock tab i -> xstep s t = Some (s', ls) ->
    lock_of (tab_at s tab) i = None /\ g_pc s' t = PG_Unlock tab i (live_pairs (chain_of (tab_at s tab) i)).
  Proof.
    intros Hp E. unfold XMachine.xstep in E. rewrite Hp in E.
    step_cases3 E. cbn [set_pc g_pc norm]. destruct (Nat.eq_dec t t) as [_|Hc]; [|exfalso; apply Hc; reflexivity]. auto.
  Qed.

  (* ---------------- completeness: a pair that stays visible in the traversed table is visited ---------------- *)

  (* all visits of thread t in a trace *)
  Fixpoint allvis (t : nat) (ls : list xlabel) : list (K * V) :=
    match ls with
    | [] => []
    | XVisit u k v :: r => if Nat.eq_dec u t then (k, v) :: allvis t r else allvis t r
    | _ :: r => allvis t r
    end.

  Lemma allvis_app t l1 l2 : allvis t (l1 ++ l2) = allvis t l1 ++ allvis t l2.
  Proof.
    induction l1 as [|l r IH]; [reflexivity|]. destruct l; cbn [app allvis]; try exact IH.
    destruct (Nat.eq_dec t0 t); [cbn [app]; rewrite IH; reflexivity | exact IH].
  Qed.

  Lemma allvis_map t (snap : list (K * V)) : allvis t (map (fun kv => XVisit t (fst kv) (snd kv)) snap) = snap.
  Proof.
    induction snap as [|[k v] r IH]; [reflexivity|]. cbn [map allvis fst snd].
    destruct (Nat.eq_dec t t) as [_|Hc]; [rewrite IH; reflexivity | exfalso; apply Hc; reflexivity].
  Qed.

  (* P holds in every state the run goes through *)
  Fixpoint along (P : xstate -> Prop) (s : xstate) (sched : list nat) : Prop :=
    P s /\ match sched with
           | [] => True
           | u :: r => match xstep s u with Some (s', _) => along P s' r | None => along P s r end
           end.

  Section Complete.
    Variables (t tab : nat) (k : K) (v : V).

    Definition JP (s : xstate) (acc : list xlabel) : Prop :=
      In (k, v) (allvis t acc)
      \/ match g_pc s t with
         | PG_Lock tab' i => tab' = tab /\ (hm s tab k < i -> In (k, v) (allvis t acc))
         | PG_Unlock tab' i snap =>
             tab' = tab /\ (hm s tab k < i -> In (k, v) (allvis t acc)) /\ (hm s tab k = i -> In (k, v) snap)
         | _ => False
         end.

    Lemma JP_step s acc u s' ls : XInv s -> XT s -> XC s -> vis (tab_at s tab) k v -> JP s acc ->
      xstep s u = Some (s', ls) -> JP s' (acc ++ ls).
    Proof.
      intros HI HT HC Hvis [Hd|Hj] E.
      { left. rewrite allvis_app. apply in_or_app. left. exact Hd. }
      assert (Hnid : g_pc s t <> PIdle) by (intros Ei; rewrite Ei in Hj; exact Hj).
      destruct (Nat.eq_dec u t) as [->|Hne].
      - (* the traversing thread *)
        assert (Ex : xstep s t = step_pc s t (g_pc s t)).
        { unfold XMachine.xstep. destruct (g_pc s t); try reflexivity. exfalso. apply Hnid. reflexivity. }
        rewrite Ex in E. pose proof (step_frame s t _ s' ls E) as Hfr.
        pose proof (xi_valid _ _ _ _ s HI t) as Hv.
        destruct (g_pc s t) eqn:Hp; try contradiction.
        + (* PG_Lock: the bucket is free; its entries are taken *)
          destruct Hj as [-> Hlt]. cbn [valid] in Hv. destruct Hv as [Hv1 Hv2].
          step_cases3 E. rewrite ?goto_state3 in Hfr. cbn [norm] in Hfr.
          right. cbn [set_pc g_pc norm]. destruct (Nat.eq_dec t t) as [_|Hc]; [|exfalso; apply Hc; reflexivity].
          split; [reflexivity|]. rewrite (hm_frame s _ tab k Hfr Hv1). split.
          * intros Hl. rewrite allvis_app. apply in_or_app. left. apply Hlt. exact Hl.
          * intros Hi0.
            assert (Hpub : forall w, newtab (g_pc s w) <> Some tab).
            { intros w Ew. destruct (xt_new s HT w _ Ew) as [_ B]. pose proof (xt_le s HT t) as L. rewrite Hp in L. cbn [tabs_le] in L. lia. }
            destruct (locked_settled s tab i HI HC Hv1 Hpub Hv2) as [_ S2].
            { intros w cx pos v0. destruct (Nat.eq_dec (hm s tab (cx_k cx)) i) as [E0|E0]; [left|right; exact E0].
              intros Ew. assert (Hh : holds hash idx nslots nstripes s (g_pc s w) = Some (tab, i)) by (rewrite Ew; cbn [holds]; unfold hm in E0; rewrite E0; reflexivity).
              pose proof (xi_lockA _ _ _ _ s HI w tab i Hh) as L. rewrite L in *. discriminate. }
            { intros w cx pos nv. destruct (Nat.eq_dec (hm s tab (cx_k cx)) i) as [E0|E0]; [left|right; exact E0].
              intros Ew. assert (Hh : holds hash idx nslots nstripes s (g_pc s w) = Some (tab, i)) by (rewrite Ew; cbn [holds]; unfold hm in E0; rewrite E0; reflexivity).
              pose proof (xi_lockA _ _ _ _ s HI w tab i Hh) as L. rewrite L in *. discriminate. }
            apply (proj2 (S2 k v)). split; [exact Hvis | exact Hi0].
        + (* PG_Unlock: the visitor is called on the entries taken *)
          destruct Hj as [-> [Hlt Heq]]. cbn [valid] in Hv. destruct Hv as [Hv1 Hv2].
          assert (Hk : hm s tab k < x_len (tab_at s tab)) by (unfold hm, XMachine.home; apply Hidx; apply (xi_wf _ _ _ _ s HI tab Hv1)).
          assert (Hvs : hm s tab k <= i -> In (k, v) (allvis t (acc ++ XStep t KUnlock :: map (fun kv => XVisit t (fst kv) (snd kv)) snap))).
          { intros Hle. rewrite allvis_app. apply in_or_app. destruct (Nat.eq_dec (hm s tab k) i) as [E0|E0].
            - right. cbn [allvis]. rewrite allvis_map. apply Heq. exact E0.
            - left. apply Hlt. lia. }
          step_cases3 E; rewrite ?goto_state3 in Hfr; cbn [norm] in Hfr.
          * right. cbn [set_pc g_pc norm]. destruct (Nat.eq_dec t t) as [_|Hc]; [|exfalso; apply Hc; reflexivity].
            split; [reflexivity|]. rewrite (hm_frame s _ tab k Hfr Hv1). intros Hl. apply Hvs. lia.
          * left. match goal with H : Nat.ltb _ _ = false |- _ => apply Nat.ltb_ge in H end.
            rewrite app_assoc, allvis_app. apply in_or_app. left. apply Hvs. lia.
      - (* another thread *)
        assert (Hfr : frame s s').
        { unfold XMachine.xstep in E. destruct (g_pc s u) eqn:Hp; try (eapply step_frame; exact E).
          destruct (g_todo s u) as [|o rest]; [discriminate|].
          match type of E with match step_pc ?s1 u ?q with _ => _ end = _ => destruct (step_pc s1 u q) as [[s2 ls2]|] eqn:E2 end.
          - inversion E; subst. eapply f_trans; [|eapply step_frame; exact E2]. split; [cbn; lia | intros; apply shape_refl].
          - inversion E; subst. split; [cbn; lia | intros; apply shape_refl]. }
        assert (Hpc : g_pc s' t = g_pc s t \/ g_pc s' t = wake (g_pc s t)).
        { unfold XMachine.xstep in E. pose proof (xi_valid _ _ _ _ s HI u) as Hv. destruct (g_pc s u) eqn:Hp;
            try (rewrite <- Hp in Hv; rewrite <- Hp in E;
                 destruct (step_misc eqd hash idx tag nslots seeds grow_needed shrink_policy probe nstripes minlen grow_only s u _ s' ls E Hv) as [_ [_ [_ Ho]]];
                 apply Ho; intros Eq; apply Hne; congruence).
          destruct (g_todo s u) as [|o rest]; [discriminate|].
          match type of E with match step_pc ?s1 u ?q with _ => _ end = _ => set (S1 := s1) in *; destruct (step_pc S1 u q) as [[s2 ls2]|] eqn:E2 end.
          - inversion E; subst.
            assert (Hv1 : valid hash idx nslots nstripes S1 (start_pc o)) by (destruct o; cbn; auto; try (destruct lie; cbn; auto)).
            destruct (step_misc eqd hash idx tag nslots seeds grow_needed shrink_policy probe nstripes minlen grow_only S1 u _ s' ls2 E2 Hv1) as [_ [_ [_ Ho]]].
            assert (E1 : g_pc S1 t = g_pc s t) by (unfold S1; cbn [g_pc]; destruct (Nat.eq_dec t u); [exfalso; apply Hne; congruence | reflexivity]).
            rewrite <- E1. apply Ho. intros Eq. apply Hne. congruence.
          - inversion E; subst. left. unfold S1. cbn [g_pc]. destruct (Nat.eq_dec t u); [exfalso; apply Hne; congruence | reflexivity]. }
        right. pose proof (xi_valid _ _ _ _ s HI t) as Hv.
        assert (Ew : g_pc s' t = g_pc s t).
        { destruct Hpc as [E0|E0]; [exact E0|]. rewrite E0. destruct (g_pc s t); try reflexivity; contradiction. }
        rewrite Ew. destruct (g_pc s t) eqn:Hp; try contradiction; cbn [valid] in Hv.
        + destruct Hj as [-> Hlt]. destruct Hv as [Hv1 _]. split; [reflexivity|]. rewrite (hm_frame s s' tab k Hfr Hv1).
          intros Hl. rewrite allvis_app. apply in_or_app. left. apply Hlt. exact Hl.
        + destruct Hj as [-> [Hlt Heq]]. destruct Hv as [Hv1 _]. split; [reflexivity|]. rewrite (hm_frame s s' tab k Hfr Hv1).
          split; [|exact Heq]. intros Hl. rewrite allvis_app. apply in_or_app. left. apply Hlt. exact Hl.
    Qed.

    Lemma JP_run sched : forall s acc, XI5 s -> along (fun s => vis (tab_at s tab) k v) s sched -> JP s acc ->
      JP (fst (xrun s sched)) (acc ++ snd (xrun s sched)).
    Proof.
      induction sched as [|u rest IH]; intros s acc H5 Hal HJ; cbn [XMachine.xrun]; [cbn [fst snd]; rewrite app_nil_r; exact HJ|].
      cbn [along] in Hal. destruct Hal as [Hv Hal].
      destruct (xstep s u) as [[s' ls]|] eqn:E.
      - pose proof (XI5_xstep eqd hash idx tag nslots seeds grow_needed shrink_policy probe nstripes minlen grow_only
                      Hidx Hstripes Hminlen Hnslots Hprobe_sound Hprobe_complete s u s' ls H5 E) as H5'.
        destruct H5 as [[HI [_ [HT HC]]] _].
        specialize (IH s' (acc ++ ls) H5' Hal (JP_step s acc u s' ls HI HT HC Hv HJ E)).
        destruct (XMachine.xrun _ _ _ _ _ _ _ _ _ _ _ _ s' rest) as [s'' ls']. cbn [fst snd] in *. rewrite app_assoc. exact IH.
      - apply IH; assumption.
    Qed.
  End Complete.

  (* C07, completeness: a traversal stands before bucket 0 of table tab; if (k, v) is visible in that
     table in every state the run goes through, then by the time the traversing thread is idle again
     the visitor has been called with (k, v) -- whatever the other threads did meanwhile *)
  Theorem range_complete len0 todo sched0 sched t tab k v : 0 < len0 ->
    let s0 := fst (xrun (xinit nslots seeds nstripes len0 todo) sched0) in
    g_pc s0 t = PG_Lock tab 0 ->
    along (fun s => vis (tab_at s tab) k v) s0 sched ->
    g_pc (fst (xrun s0 sched)) t = PIdle ->
    In (k, v) (allvis t (snd (xrun s0 sched))).
  Proof.
    intros Hl s0 Hp Hal Hend.
    assert (H5 : XI5 s0) by apply (reachable_inv5 eqd hash idx tag nslots seeds grow_needed shrink_policy probe nstripes minlen grow_only
               Hidx Hstripes Hminlen Hnslots Hprobe_sound Hprobe_complete len0 todo sched0 Hl).
    pose proof (JP_run t tab k v sched s0 [] H5 Hal) as H. cbn [app] in H.
    destruct H as [H|H].
    - right. rewrite Hp. split; [reflexivity|]. intros Hc. inversion Hc.
    - exact H.
    - rewrite Hend in H. contradiction.
  Qed.
End Range.

(* ---------------- the statements of props/C07.v ---------------- *)
Section Final.
  Context {K V : Type}.
  Variable eqd : forall a b : K, {a = b} + {a <> b}.
  Variable hash : K -> N -> N.
  Variable idx : N -> nat -> nat.
  Variable tag : N -> N.
  Variable nslots : nat.
  Variable seeds : nat -> N.
  Variable grow_needed shrink_policy : nat -> Z -> bool.
  Variable probe : list (option N) -> N -> list nat.
  Variable nstripes : nat -> nat.
  Variable minlen : nat.
  Variable grow_only : bool.

  Notation xrun := (@xrun K V eqd hash idx tag nslots seeds grow_needed shrink_policy probe nstripes minlen grow_only).

  Lemma range_once_proof :
    xhyps4 idx nstripes minlen nslots probe -> forall len0 todo sched t, 0 < len0 ->
    NoDup (map fst (cv t [] (snd (xrun (xinit nslots seeds nstripes len0 todo) sched)))).
  Proof.
    intros [[H1 [H2 H3]] [H4 [H5 H6]]] len0 todo sched t Hl.
    apply (range_once eqd hash idx tag nslots seeds grow_needed shrink_policy probe nstripes minlen grow_only H1 H2 H3 H4 H5 H6 len0 todo sched t Hl).
  Qed.

  Lemma range_complete_proof :
    xhyps4 idx nstripes minlen nslots probe -> forall len0 todo sched0 sched t tab k v, 0 < len0 ->
    let s0 := fst (xrun (xinit nslots seeds nstripes len0 todo) sched0) in
    g_pc s0 t = PG_Lock tab 0 ->
    along eqd hash idx tag nslots seeds grow_needed shrink_policy probe nstripes minlen grow_only
          (fun s => X_lin.vis hash idx (tab_at nslots nstripes s tab) k v) s0 sched ->
    g_pc (fst (xrun s0 sched)) t = PIdle ->
    In (k, v) (allvis t (snd (xrun s0 sched))).
  Proof.
    intros [[H1 [H2 H3]] [H4 [H5 H6]]] len0 todo sched0 sched t tab k v Hl.
    apply (range_complete eqd hash idx tag nslots seeds grow_needed shrink_policy probe nstripes minlen grow_only H1 H2 H3 H4 H5 H6 len0 todo sched0 sched t tab k v Hl).
  Qed.

  Lemma range_snapshot_proof :
    xhyps4 idx nstripes minlen nslots probe -> forall len0 todo sched t tab i snap, 0 < len0 ->
    let s := fst (xrun (xinit nslots seeds nstripes len0 todo) sched) in
    g_pc s t = PG_Unlock tab i snap ->
    NoDup (map fst snap)
    /\ (forall k v, In (k, v) snap <-> (X_lin.vis hash idx (tab_at nslots nstripes s tab) k v /\ home hash idx (tab_at nslots nstripes s tab) k = i))
    /\ lock_of (tab_at nslots nstripes s tab) i = Some t.
  Proof.
    intros [[H1 [H2 H3]] [H4 [H5 H6]]] len0 todo sched t tab i snap Hl.
    apply (range_snapshot eqd hash idx tag nslots seeds grow_needed shrink_policy probe nstripes minlen grow_only H1 H2 H3 H4 H5 H6 len0 todo sched t tab i snap Hl).
  Qed.
End Final.
