(* XS_cells.v -- the cells of XMachineS's tables (map.go) in every reachable
   state (XCS): every chain of a published table is a whole number of buckets
   with one topHashMutex word each, holds each key at most once, and every slot
   is free (key nil, value nil, presence bit clear), complete (key k, value set,
   presence bit set, top hash that of k, in k's home chain) or the one slot the
   thread holding the bucket lock is writing -- whose exact shape is told by
   that thread's program counter (QW_I1 .. QW_I3, QW_D1 .. QW_D3, QW_U1);
   every writer's program counter tells the truth about its locked chain; the
   words loaded by lockBucket / unlockBucket / the top-hash stores agree with
   memory; the resizer's unpublished table holds only free and complete slots,
   and only keys of the buckets copied so far. *)
From CacheV Require Import Base SpecMap XMachineS.
From CacheV.proofs Require Import X_maps XS_inv XS_lock XS_own XS_count.
From Coq Require Import NArith.
Local Open Scope nat_scope.

(* ---------------- the word: its fields do not overlap ---------------- *)

Definition egood (e : bool * N) : Prop := (snd e < 1048576)%N.     (* a top hash has 20 bits *)

Lemma top_val_inj (l l' : list (bool * N)) : length l = length l' -> length l <= 3 -> Forall egood l -> Forall egood l' ->
  top_val l 0 = top_val l' 0 -> l = l'.
Proof.
  intros HL H3 G G'.
  destruct l as [|[p0 t0] [|[p1 t1] [|[p2 t2] [|]]]]; destruct l' as [|[q0 u0] [|[q1 u1] [|[q2 u2] [|]]]]; try discriminate HL; cbn [length] in H3; try lia.
  all: repeat match goal with H : Forall _ (_ :: _) |- _ => inversion H; clear H; subst end; unfold egood in *; cbn [snd] in *.
  all: cbn [top_val]; rewrite ?N.shiftl_mul_pow2;
       change (N.of_nat (64 - 20 * 1)) with 44%N; change (N.of_nat (64 - 20 * 2)) with 24%N; change (N.of_nat (64 - 20 * 3)) with 4%N;
       change (N.of_nat 1) with 1%N; change (N.of_nat 2) with 2%N; change (N.of_nat 3) with 3%N;
       change (2^44)%N with 17592186044416%N; change (2^24)%N with 16777216%N; change (2^4)%N with 16%N;
       change (2^1)%N with 2%N; change (2^2)%N with 4%N; change (2^3)%N with 8%N.
  all: intros E.
  - reflexivity.
  - destruct p0, q0; assert (t0 = u0) by lia; subst; try reflexivity; exfalso; lia.
  - destruct p0, q0, p1, q1; assert (t0 = u0 /\ t1 = u1) by lia; destruct H; subst; try reflexivity; exfalso; lia.
  - destruct p0, q0, p1, q1, p2, q2; assert (t0 = u0 /\ t1 = u1 /\ t2 = u2) by lia; destruct H as [? [? ?]]; subst; try reflexivity; exfalso; lia.
Qed.

Section SCells.
  Context {K V : Type}.
  Variable eqd : forall a b : K, {a = b} + {a <> b}.
  Variable hash : K -> N -> N.
  Variable idx : N -> nat -> nat.
  Variable tophash : N -> N.
  Variable nslots : nat.
  Variable seeds : nat -> N.
  Variable grow_needed : nat -> Z -> bool.
  Variable shrink_policy : nat -> Z -> bool.
  Variable nstripes : nat -> nat.
  Variable minlen : nat.
  Variable grow_only : bool.

  (* the hypotheses on the parameters (Hidx, Hminlen further down) *)
  Hypothesis Hslots : nslots <= 3.
  Hypothesis Hnslots : 0 < nslots.
  Hypothesis Htop : forall k sd, (tophash (hash k sd) < 1048576)%N.      (* the top hash of a key has 20 bits *)

  Notation mslot := (@mslot K V).
  Notation mtable := (@mtable K V).
  Notation mstate := (@mstate K V).
  Notation spc := (@spc K V).
  Notation rframe := (@rframe K V).
  Notation empty_mslot := (@empty_mslot K V).
  Notation sstep_pc := (@sstep_pc K V eqd hash idx tophash nslots seeds grow_needed shrink_policy nstripes minlen grow_only).
  Notation sstep := (@sstep K V eqd hash idx tophash nslots seeds grow_needed shrink_policy nstripes minlen grow_only).
  Notation srun := (@srun K V eqd hash idx tophash nslots seeds grow_needed shrink_policy nstripes minlen grow_only).
  Notation stab_at := (@stab_at K V nslots nstripes).
  Notation shome := (@shome K V hash idx).
  Notation sword_at := (@sword_at K V nslots).
  Notation XL := (@XL K V hash idx nslots nstripes).
  Notation sholds := (@sholds K V hash idx nslots nstripes).
  Notation sholdsT := (@sholdsT K V hash idx nslots nstripes).
  Notation lock_of := (@lock_of K V nslots nstripes).
  Notation lockT := (@lockT K V nslots nstripes).
  Notation tabT := (@tabT K V nslots nstripes).
  Notation XT := (@XT K V).
  Notation PCI := (@PCI K V hash idx nslots nstripes).

  (* ---------------- slots, entries of the words, chains ---------------- *)

  Definition tgood (l : list (bool * N)) : Prop := length l = nslots /\ Forall egood l.
  Definition wgood (w : bword) : Prop := tgood (w_top w).
  Definition tb_wgood (tb : mtable) : Prop := Forall (Forall wgood) (m_words tb).

  (* the top-hash parts of the words of chain b *)
  Definition ctops (tb : mtable) (b : nat) : list (list (bool * N)) := map w_top (swords_of tb b).
  (* presence bit and top hash of the slot at flat position pos *)
  Definition topent (tops : list (list (bool * N))) (pos : nat) : bool * N :=
    nth (pos mod nslots) (nth (pos / nslots) tops []) (false, 0%N).

  Definition ktop (tb : mtable) (k : K) : N := tophash (hash k (m_seed tb)).

  Definition sfree (sl : mslot) (e : bool * N) : Prop := ms_key sl = None /\ ms_val sl = None /\ fst e = false.
  Definition sfull (tb : mtable) (b : nat) (sl : mslot) (e : bool * N) : Prop :=
    exists k v id, ms_key sl = Some k /\ ms_val sl = Some (v, id) /\ e = (true, ktop tb k) /\ shome tb k = b.

  (* the slot the holder of the bucket lock is writing *)
  Definition witpos (tab : nat) (p : spc) : option nat :=
    match p with
    | QW_I2 _ tab' pos _ | QW_I3 _ tab' pos _ | QW_D2 _ tab' pos _ _ | QW_D3 _ tab' pos _ _ => if Nat.eq_dec tab' tab then Some pos else None
    | _ => None
    end.

  Definition slot_ok (tb : mtable) (tab b pos : nat) (hp : option spc) (sl : mslot) (e : bool * N) : Prop :=
    sfree sl e \/ sfull tb b sl e \/ exists p, hp = Some p /\ witpos tab p = Some pos.

  Definition shaped (c : list mslot) (tops : list (list (bool * N))) : Prop :=
    tops <> [] /\ length c = length tops * nslots.

  Definition uniq (c : list mslot) : Prop :=
    forall p1 p2 k, p1 < length c -> p2 < length c ->
      ms_key (nth p1 c empty_mslot) = Some k -> ms_key (nth p2 c empty_mslot) = Some k -> p1 = p2.

  Definition chain_ok (tb : mtable) (tab b : nat) (hp : option spc) : Prop :=
    let c := schain_of tb b in
    let tops := ctops tb b in
    shaped c tops /\ uniq c /\ forall pos, pos < length c -> slot_ok tb tab b pos hp (nth pos c empty_mslot) (topent tops pos).

  Definition absent (c : list mslot) (k : K) : Prop := forall pos, pos < length c -> ms_key (nth pos c empty_mslot) <> Some k.


  (* ---------------- what the program counters say ---------------- *)

  Definition holder_pc (s : mstate) (tab b : nat) : option spc := option_map (h_pc s) (lock_of s tab b).

  Definition kchain (T : list mtable) (tab : nat) (k : K) : list mslot := schain_of (tabT T tab) (shome (tabT T tab) k).
  Definition ktops (T : list mtable) (tab : nat) (k : K) : list (list (bool * N)) := ctops (tabT T tab) (shome (tabT T tab) k).

  (* slot pos of the home chain of k: its key, a property of its value pointer and of its word entry *)
  Definition slot_is (T : list mtable) (tab : nat) (k : K) (pos : nat) (ok : option K)
             (vP : option (V * nat) -> Prop) (eP : bool * N -> Prop) : Prop :=
    pos < length (kchain T tab k)
    /\ ms_key (nth pos (kchain T tab k) empty_mslot) = ok
    /\ vP (ms_val (nth pos (kchain T tab k) empty_mslot))
    /\ eP (topent (ktops T tab k) pos).

  Definition val_is (v : V) (o : option (V * nat)) : Prop := exists id, o = Some (v, id).
  Definition ent_clear (e : bool * N) : Prop := fst e = false.

  Fixpoint pcfact (T : list mtable) (p : spc) : Prop :=
    match p with
    | QW_Scan cx tab bi emp _ =>
        (forall pos, pos < bi * nslots -> pos < length (kchain T tab (sc_k cx)) ->
                     ms_key (nth pos (kchain T tab (sc_k cx)) empty_mslot) <> Some (sc_k cx))
        /\ match emp with
           | Some e => e < length (kchain T tab (sc_k cx)) /\ ms_key (nth e (kchain T tab (sc_k cx)) empty_mslot) = None
           | None => True
           end
    | QW_I0 cx tab pos _ => slot_is T tab (sc_k cx) pos None (eq None) ent_clear /\ absent (kchain T tab (sc_k cx)) (sc_k cx)
    | QW_I1 cx tab pos _ w =>
        slot_is T tab (sc_k cx) pos None (eq None) ent_clear /\ absent (kchain T tab (sc_k cx)) (sc_k cx)
        /\ w_top w = nth (pos / nslots) (ktops T tab (sc_k cx)) [] /\ wgood w
    | QW_I2 cx tab pos _ =>
        slot_is T tab (sc_k cx) pos None (eq None) (eq (true, ktop (tabT T tab) (sc_k cx))) /\ absent (kchain T tab (sc_k cx)) (sc_k cx)
    | QW_I3 cx tab pos nv =>
        slot_is T tab (sc_k cx) pos None (val_is nv) (eq (true, ktop (tabT T tab) (sc_k cx))) /\ absent (kchain T tab (sc_k cx)) (sc_k cx)
    | QW_D1 cx tab pos old w _ =>
        slot_is T tab (sc_k cx) pos (Some (sc_k cx)) (val_is old) (eq (true, ktop (tabT T tab) (sc_k cx)))
        /\ w_top w = nth (pos / nslots) (ktops T tab (sc_k cx)) [] /\ wgood w
    | QW_U1 cx tab pos old _ =>
        slot_is T tab (sc_k cx) pos (Some (sc_k cx)) (val_is old) (eq (true, ktop (tabT T tab) (sc_k cx)))
    | QW_D2 cx tab pos old _ => slot_is T tab (sc_k cx) pos (Some (sc_k cx)) (val_is old) ent_clear
    | QW_D3 cx tab pos _ _ => slot_is T tab (sc_k cx) pos (Some (sc_k cx)) (eq None) ent_clear
    | QW_Sum cx tab _ _ | QW_N1 cx tab _ => absent (kchain T tab (sc_k cx)) (sc_k cx)
    | QU_Load _ _ _ a | QA_Add _ _ _ a => pcfact T a
    | QU_Store tab b v _ a => w_top v = nth 0 (ctops (tabT T tab) b) [] /\ wgood v /\ pcfact T a
    | QK_CAS _ _ v _ => wgood v
    | _ => True
    end.

  (* ---------------- the resizer's new table ---------------- *)

  (* (source table, number of source buckets copied so far) *)
  Fixpoint cfront (p : spc) : option (nat * nat) :=
    match p with
    | QK_Load tab b lk | QK_Spin tab b lk | QK_CAS tab b _ lk | QK_Yield tab b lk =>
        match lk with LKCopy _ _ _ => Some (tab, b) | _ => None end
    | QU_Load _ _ _ a | QU_Store _ _ _ _ a | QA_Add _ _ _ a => cfront a
    | _ => None
    end.

  Definition tkey (tb : mtable) (k : K) : Prop :=
    exists b pos, b < m_len tb /\ pos < length (schain_of tb b) /\ ms_key (nth pos (schain_of tb b) empty_mslot) = Some k.

  Definition copied (T : list mtable) (new : nat) (p : spc) : Prop :=
    match cfront p with
    | Some (tab, i) => forall k, tkey (tabT T new) k -> shome (tabT T tab) k < i
    | None => True
    end.

  Definition clean_table (tb : mtable) (tab : nat) : Prop := forall b, b < m_len tb -> chain_ok tb tab b None.

  Record XCS (s : mstate) : Prop := {
    xcs_words : Forall tb_wgood (h_tabs s);
    (* published tables: those that have been current *)
    xcs_ch : forall tab b, tab <= h_cur s -> b < m_len (tabT (h_tabs s) tab) ->
               chain_ok (tabT (h_tabs s) tab) tab b (holder_pc s tab b);
    xcs_pc : forall t, pcfact (h_tabs s) (h_pc s t);
    xcs_fr : forall t fr, h_frame s t = Some fr -> pcfact (h_tabs s) (rf_after fr);
    (* the unpublished table of a resize *)
    xcs_new : forall t new, snewtab (h_pc s t) = Some new ->
                clean_table (tabT (h_tabs s) new) new /\ copied (h_tabs s) new (h_pc s t);
  }.

  (* ---------------- entries ---------------- *)

  Lemma divmod_pos a b : a / nslots = b / nslots -> a mod nslots = b mod nslots -> a = b.
  Proof.
    intros H1 H2. rewrite (Nat.div_mod a nslots) by lia. rewrite (Nat.div_mod b nslots) by lia. rewrite H1, H2. reflexivity.
  Qed.

  (* the entry of slot pos is rewritten in its word *)
  Lemma topent_upd tops pos g pos' : pos / nslots < length tops -> pos mod nslots < length (nth (pos / nslots) tops []) ->
    topent (supd_nth tops (pos / nslots) (fun l => supd_nth l (pos mod nslots) g)) pos'
    = if Nat.eq_dec pos' pos then g (topent tops pos) else topent tops pos'.
  Proof.
    intros H1 H2. unfold topent. rewrite nth_supd_nth. apply Nat.ltb_lt in H1. rewrite H1.
    destruct (Nat.eq_dec pos' pos) as [->|Hne].
    - destruct (Nat.eq_dec (pos / nslots) (pos / nslots)) as [_|Hc]; [|exfalso; apply Hc; reflexivity].
      rewrite nth_supd_nth. destruct (Nat.eq_dec (pos mod nslots) (pos mod nslots)) as [_|Hc]; [|exfalso; apply Hc; reflexivity].
      apply Nat.ltb_lt in H2. rewrite H2. reflexivity.
    - destruct (Nat.eq_dec (pos' / nslots) (pos / nslots)) as [E|]; [|reflexivity].
      rewrite nth_supd_nth. destruct (Nat.eq_dec (pos' mod nslots) (pos mod nslots)) as [E2|]; [|rewrite E; reflexivity].
      exfalso. apply Hne. apply divmod_pos; assumption.
  Qed.

  Lemma topent_app tops l pos : pos < length tops * nslots -> topent (tops ++ [l]) pos = topent tops pos.
  Proof.
    intros H. unfold topent. rewrite app_nth1; [reflexivity|]. apply Nat.div_lt_upper_bound; lia.
  Qed.

  Lemma topent_app_new tops l i : i < nslots -> topent (tops ++ [l]) (length tops * nslots + i) = nth i l (false, 0%N).
  Proof.
    intros H. unfold topent.
    assert (E1 : (length tops * nslots + i) / nslots = length tops) by (rewrite Nat.add_comm, Nat.div_add by lia; rewrite Nat.div_small by lia; lia).
    assert (E2 : (length tops * nslots + i) mod nslots = i) by (rewrite Nat.add_comm, Nat.mod_add by lia; apply Nat.mod_small; lia).
    rewrite E1, E2. rewrite app_nth2 by lia. rewrite Nat.sub_diag. reflexivity.
  Qed.

  (* ---------------- chain_ok only looks at the slots, the top parts of the words, seed and length ---------------- *)

  Definition cellsw (tb : mtable) (b : nat) : list mslot * list (list (bool * N)) := (schain_of tb b, ctops tb b).

  Lemma chain_ok_ext (tb tb' : mtable) tab b hp : cellsw tb' b = cellsw tb b -> m_len tb' = m_len tb -> m_seed tb' = m_seed tb ->
    chain_ok tb tab b hp -> chain_ok tb' tab b hp.
  Proof.
    intros E Hl Hs. unfold cellsw in E. injection E as E1 E2. unfold chain_ok. cbv zeta. rewrite E1, E2.
    intros [A [B C]]. split; [exact A|]. split; [exact B|]. intros pos Hp. destruct (C pos Hp) as [F|[F|F]]; [left; exact F | | right; right; exact F].
    right. left. unfold sfull, ktop in *. rewrite Hs. destruct F as [k [v [id [F1 [F2 [F3 F4]]]]]]. exists k, v, id.
    rewrite (shome_ext hash idx _ _ k Hl Hs). auto.
  Qed.

  (* no slot is in the middle of a write: the holder's program counter does not matter *)
  Lemma slot_ok_hp (tb : mtable) tab b pos hp hp' sl e :
    (forall p, hp = Some p -> witpos tab p = Some pos -> exists p', hp' = Some p' /\ witpos tab p' = Some pos) ->
    slot_ok tb tab b pos hp sl e -> slot_ok tb tab b pos hp' sl e.
  Proof. intros H [F|[F|[p [F1 F2]]]]; [left; exact F | right; left; exact F | right; right; apply (H p F1 F2)]. Qed.

  Lemma chain_ok_hp (tb : mtable) tab b hp hp' :
    (forall p pos, hp = Some p -> witpos tab p = Some pos -> exists p', hp' = Some p' /\ witpos tab p' = Some pos) ->
    chain_ok tb tab b hp -> chain_ok tb tab b hp'.
  Proof.
    intros H [A [B C]]. split; [exact A|]. split; [exact B|]. intros pos Hp. eapply slot_ok_hp; [|apply (C pos Hp)].
    intros p E1 E2. apply (H p pos E1 E2).
  Qed.

  Lemma chain_ok_none (tb : mtable) tab b hp : chain_ok tb tab b None -> chain_ok tb tab b hp.
  Proof. apply chain_ok_hp. intros p pos E. discriminate E. Qed.


  (* ---------------- good words ---------------- *)

  Lemma tgood_empty : tgood (repeat (false, 0%N) nslots).
  Proof. split; [apply repeat_length|]. apply Forall_forall. intros x Hx. apply repeat_spec in Hx. subst x. unfold egood. cbn. lia. Qed.

  Lemma wgood_empty : wgood (empty_bword nslots).
  Proof. exact tgood_empty. Qed.

  Lemma tgood_supd l i e : tgood l -> egood e -> tgood (supd_nth l i (fun _ => e)).
  Proof. intros [A B] He. split; [rewrite supd_nth_length; exact A|]. apply Forall_supd_nth_at with (d := e); auto. Qed.

  Lemma tgood_supd_erase l i : tgood l -> tgood (supd_nth l i (fun p => (false, snd p))).
  Proof.
    intros [A B]. split; [rewrite supd_nth_length; exact A|]. apply Forall_supd_nth; [exact B|]. intros x Hx. exact Hx.
  Qed.

  Lemma wgood_store_top w i th : wgood w -> (th < 1048576)%N -> wgood (store_top w i th).
  Proof. intros H Ht. apply tgood_supd; [exact H | exact Ht]. Qed.

  Lemma wgood_erase_top w i : wgood w -> wgood (erase_top w i).
  Proof. apply tgood_supd_erase. Qed.

  Lemma wgood_tabT T i : Forall tb_wgood T -> tb_wgood (tabT T i).
  Proof.
    intros H. unfold XS_lock.tabT. destruct (Nat.lt_ge_cases i (length T)) as [L|L].
    - rewrite Forall_forall in H. apply H. apply nth_In. exact L.
    - rewrite nth_overflow by exact L. unfold tb_wgood, new_mtable. cbn. repeat constructor; apply tgood_empty.
  Qed.

  Lemma wgood_sword_at (tb : mtable) b bi : tb_wgood tb -> wgood (sword_at tb b bi).
  Proof.
    intros D. unfold XMachineS.sword_at, swords_of.
    destruct (Nat.lt_ge_cases b (length (m_words tb))) as [L|L]; [|rewrite (nth_overflow _ _ L); destruct bi; apply wgood_empty].
    unfold tb_wgood in D. rewrite Forall_forall in D. pose proof (D _ (nth_In _ [] L)) as Hws.
    destruct (Nat.lt_ge_cases bi (length (nth b (m_words tb) []))) as [L2|L2]; [|rewrite (nth_overflow _ _ L2); apply wgood_empty].
    rewrite Forall_forall in Hws. apply Hws. apply nth_In. exact L2.
  Qed.

  Lemma ctops_nth (tb : mtable) b bi : nth bi (ctops tb b) [] = if Nat.ltb bi (length (swords_of tb b)) then w_top (sword_at tb b bi) else [].
  Proof.
    unfold ctops, XMachineS.sword_at. destruct (Nat.ltb bi (length (swords_of tb b))) eqn:E.
    - apply Nat.ltb_lt in E. rewrite (nth_indep _ [] (w_top (empty_bword nslots))) by (rewrite map_length; exact E). apply map_nth.
    - apply Nat.ltb_ge in E. apply nth_overflow. rewrite map_length. exact E.
  Qed.

  (* lockBucket's CAS writes v|1 where v was loaded earlier: the fields above bit 0 are those in memory *)
  Lemma cas_wtop s t tab b v lk : XL s -> Forall tb_wgood (h_tabs s) -> wgood v -> h_pc s t = QK_CAS tab b v lk ->
    word_val (sword_at (stab_at s tab) b 0) = word_val v -> w_top v = w_top (sword_at (tabT (h_tabs s) tab) b 0).
  Proof.
    intros HS HW Hv Hp E. pose proof (cas_topbits hash idx nslots nstripes Hslots s t tab b v lk HS Hp E) as Ht.
    unfold topbits in Ht. cbn [with_lock w_top] in Ht.
    pose proof (wgood_sword_at (tabT (h_tabs s) tab) b 0 (wgood_tabT _ tab HW)) as [A1 A2]. destruct Hv as [B1 B2].
    apply top_val_inj; try assumption; lia.
  Qed.

  (* ---------------- ownership, for the fields of the words ---------------- *)

  Lemma cellsw_set_chain (tb : mtable) b0 g b : b <> b0 -> cellsw (sset_chain tb b0 g) b = cellsw tb b.
  Proof.
    intros Hne. unfold cellsw, ctops, schain_of, swords_of, sset_chain. cbn [m_chains m_words]. rewrite nth_supd_nth.
    destruct (Nat.eq_dec b b0); [contradiction | reflexivity].
  Qed.

  Lemma cellsw_set_words (tb : mtable) b0 g b : b <> b0 -> cellsw (sset_words tb b0 g) b = cellsw tb b.
  Proof.
    intros Hne. unfold cellsw, ctops, schain_of, swords_of, sset_words. cbn [m_chains m_words]. rewrite nth_supd_nth.
    destruct (Nat.eq_dec b b0); [contradiction | reflexivity].
  Qed.

  Lemma cellsw_set_lock (tb : mtable) b0 w' b : w_top w' = w_top (sword_at tb b0 0) ->
    cellsw (sset_word tb b0 0 (fun _ => w')) b = cellsw tb b.
  Proof.
    intros Ht. unfold cellsw, ctops, schain_of, swords_of, sset_word, sset_words. cbn [m_chains m_words]. f_equal.
    rewrite nth_supd_nth. destruct (Nat.eq_dec b b0) as [->|]; [|reflexivity].
    destruct (Nat.ltb b0 (length (m_words tb))) eqn:E; [|apply Nat.ltb_ge in E; rewrite (nth_overflow _ _ E); reflexivity].
    unfold XMachineS.sword_at, swords_of in Ht. destruct (nth b0 (m_words tb) []) as [|w ws]; [reflexivity|].
    cbn [supd_nth map nth] in *. rewrite Ht. reflexivity.
  Qed.

  Lemma cellsw_supd T tab0 (f : mtable -> mtable) tab b :
    (tab = tab0 -> cellsw (f (tabT T tab0)) b = cellsw (tabT T tab0) b) ->
    cellsw (tabT (supd_nth T tab0 f) tab) b = cellsw (tabT T tab) b.
  Proof.
    intros H. rewrite tabT_supd. destruct (Nat.eq_dec tab tab0) as [->|]; [|reflexivity].
    destruct (Nat.ltb tab0 (length T)); [apply H; reflexivity | reflexivity].
  Qed.

  Lemma cellsw_bucket T tab0 b0 (f : mtable -> mtable) tab b :
    (forall b', b' <> b0 -> cellsw (f (tabT T tab0)) b' = cellsw (tabT T tab0) b') ->
    cellsw (tabT (supd_nth T tab0 f) tab) b = cellsw (tabT T tab) b \/ (tab = tab0 /\ b = b0).
  Proof.
    intros H. destruct (Nat.eq_dec tab tab0) as [->|Hne].
    - destruct (Nat.eq_dec b b0) as [->|Hb]; [right; auto|]. left. apply cellsw_supd. intros _. apply H. exact Hb.
    - left. apply cellsw_supd. intros E. contradiction.
  Qed.

  Lemma cellsw_push T (tb : mtable) tab b : tab < length T -> cellsw (tabT (T ++ [tb]) tab) b = cellsw (tabT T tab) b.
  Proof. intros H. unfold XS_lock.tabT. rewrite app_nth1 by exact H. reflexivity. Qed.

  Lemma after_lock_cellsw (S1 : mstate) t tab b lk tab' b' :
    cellsw (tabT (h_tabs (fst (after_lock hash idx tophash nslots nstripes S1 t tab b lk))) tab') b' = cellsw (tabT (h_tabs S1) tab') b'
    \/ lk_new lk = Some tab'.
  Proof.
    unfold after_lock. destruct lk; cbv zeta; try (left; reflexivity).
    match goal with |- context [scopy_chain ?a ?b ?c ?d ?e ?f] => destruct (scopy_chain a b c d e f) as [nt cp] end.
    cbn [fst h_tabs sset_tab lk_new]. destruct (Nat.eq_dec tab' new) as [->|Hne]; [right; reflexivity|].
    left. apply cellsw_supd. intros E. contradiction.
  Qed.

  Ltac bucket_framew :=
    match goal with
    | |- cellsw (XS_lock.tabT _ _ (supd_nth ?T ?tab0 ?f) ?tab') ?b' = _ \/ Some (_, ?b0) = _ \/ _ =>
        destruct (cellsw_bucket T tab0 b0 f tab' b') as [E|[-> ->]];
        [ intros b'' Hb''; cbv beta;
          first [ apply cellsw_set_chain; exact Hb'' | apply cellsw_set_words; exact Hb''
                | rewrite cellsw_set_words by exact Hb''; apply cellsw_set_chain; exact Hb'' ]
        | left; exact E | right; left; reflexivity ]
    end.

  Lemma htabs_goto (S0 : mstate) t q ls : h_tabs (fst (sgoto S0 t q ls)) = h_tabs S0.
  Proof. destruct (sgoto_shared S0 t q ls) as [[A _] _]. exact A. Qed.
  Lemma htabs_visits (S0 : mstate) t rest vf after ls : h_tabs (fst (svisits S0 t rest vf after ls)) = h_tabs S0.
  Proof. destruct (svisits_shared S0 t rest vf after ls) as [[A _] _]. exact A. Qed.

  Lemma some_fst_c {A B} (g : A * B) a b : Some g = Some (a, b) -> a = fst g.
  Proof. intros H. inversion H. reflexivity. Qed.

  Theorem step_cellsw_frame s t p s' ls : XL s -> XCS s -> h_pc s t = p -> sstep_pc s t p = Some (s', ls) ->
    forall tab b, tab < length (h_tabs s) ->
      cellsw (tabT (h_tabs s') tab) b = cellsw (tabT (h_tabs s) tab) b
      \/ sholds s p = Some (tab, b)
      \/ snewtab p = Some tab.
  Proof.
    intros HS HC Hp Hs tab' b' Htab'. pose proof (xcs_pc s HC t) as Hf. rewrite Hp in Hf.
    destruct p; cbn [XMachineS.sstep_pc] in Hs; cbv zeta in Hs;
      repeat match type of Hs with context [match ?x with _ => _ end] => destruct x eqn:? end;
      try discriminate Hs; apply some_fst_c in Hs; subst s'; rewrite ?htabs_goto, ?htabs_visits;
      cbn [fst h_tabs sset_pc sset_tab sset_flags spush_tab sbump]; try (left; reflexivity).
    all: try (left; apply cellsw_push; exact Htab').
    all: try (left; apply cellsw_supd; intros _; reflexivity).
    all: cbn [XS_lock.sholds XS_lock.sholdsT].
    all: try bucket_framew.
    apply N.eqb_eq in Heqb0. cbn [pcfact] in Hf.
    match goal with Ha : after_lock _ _ _ _ _ ?S1 _ _ _ _ = (_, _) |- _ =>
      destruct (after_lock_cellsw S1 t tab b lk tab' b') as [E|E]; rewrite ?Ha in E; cbn [fst] in E end.
    - left. rewrite E. cbn [h_tabs sset_tab]. apply cellsw_supd. intros _. apply cellsw_set_lock.
      cbn [with_lock w_top]. apply (cas_wtop s t tab b v lk HS (xcs_words s HC) Hf Hp Heqb0).
    - right. right. exact E.
  Qed.


  (* ---------------- the facts of a program counter only look at the chain it has locked ---------------- *)

  Definition same_bucket (b : nat) (tb tb' : mtable) : Prop :=
    m_len tb' = m_len tb /\ m_seed tb' = m_seed tb /\ cellsw tb' b = cellsw tb b.

  Lemma kfacts_same T T' tab k : same_bucket (shome (tabT T tab) k) (tabT T tab) (tabT T' tab) ->
    kchain T' tab k = kchain T tab k /\ ktops T' tab k = ktops T tab k /\ ktop (tabT T' tab) k = ktop (tabT T tab) k.
  Proof.
    intros [A [B C]]. unfold kchain, ktops, ktop. rewrite (shome_ext hash idx _ _ k A B), B.
    unfold cellsw in C. injection C as C1 C2. rewrite C1, C2. auto.
  Qed.

  Lemma pcfact_nolock T T' (p : spc) : nolock p = true -> pcfact T p -> pcfact T' p.
  Proof. induction p; cbn [pcfact nolock]; intros Hn H; auto; discriminate Hn. Qed.

  Lemma pcfact_ext T T' t (p : spc) : PCI T t p ->
    (forall tab b, sholdsT T p = Some (tab, b) -> same_bucket b (tabT T tab) (tabT T' tab)) ->
    pcfact T p -> pcfact T' p.
  Proof.
    intros Hpc Hk. destruct p; cbn [pcfact XS_lock.sholdsT XS_lock.PCI] in *; auto.
    all: try (intros H; apply (pcfact_nolock T T'); tauto).
    all: try (destruct (kfacts_same T T' tab (sc_k cx) (Hk _ _ eq_refl)) as [E1 [E2 E3]]; unfold slot_is; rewrite ?E1, ?E2, ?E3; exact (fun H => H)).
    intros [H1 [H2 H3]]. destruct (Hk _ _ eq_refl) as [_ [_ C]]. unfold cellsw in C. injection C as C1 C2. rewrite C2.
    split; [exact H1|]. split; [exact H2|]. apply (pcfact_nolock T T'); tauto.
  Qed.

  Lemma swake_pcfact T (p : spc) : pcfact T p -> pcfact T (swake p).
  Proof. destruct p; cbn; auto. Qed.

  (* ---------------- the words stay good ---------------- *)

  Lemma tb_wgood_set_word (tb : mtable) b bi g : (forall w, wgood w -> wgood (g w)) -> tb_wgood tb -> tb_wgood (sset_word tb b bi g).
  Proof.
    intros Hg H. unfold tb_wgood, sset_word, sset_words. cbn [m_words]. apply Forall_supd_nth; [exact H|].
    intros ws Hws. apply Forall_supd_nth; assumption.
  Qed.

  Lemma tb_wgood_app_word (tb : mtable) b w : wgood w -> tb_wgood tb -> tb_wgood (sset_words tb b (fun ws => ws ++ [w])).
  Proof.
    intros Hw H. unfold tb_wgood, sset_words. cbn [m_words]. apply Forall_supd_nth; [exact H|].
    intros ws Hws. apply Forall_app. split; [exact Hws | constructor; [exact Hw | constructor]].
  Qed.

  Lemma tb_wgood_sappend (tb : mtable) b th k vp : (th < 1048576)%N -> tb_wgood tb -> tb_wgood (sappend nslots tb b th k vp).
  Proof.
    intros Ht H. unfold sappend. destruct (first_nil_key _ _) as [pos|].
    - apply tb_wgood_set_word; [intros w Hw; apply wgood_store_top; assumption | exact H].
    - apply tb_wgood_app_word; [apply wgood_store_top; [apply wgood_empty | exact Ht] | exact H].
  Qed.

  Lemma tb_wgood_scopy src (dst : mtable) : tb_wgood dst -> tb_wgood (fst (scopy_chain hash idx tophash nslots src dst)).
  Proof.
    unfold scopy_chain. generalize 0%Z. revert dst. induction src as [|sl r IH]; intros dst z H; cbn [fold_left fst]; [exact H|].
    destruct (ms_key sl) as [k|]; [|apply IH; exact H]. cbn [fst snd]. apply IH. apply tb_wgood_sappend; [apply Htop | exact H].
  Qed.

  Lemma tb_wgood_new len seed : tb_wgood (new_mtable nslots nstripes len seed : mtable).
  Proof.
    unfold tb_wgood, new_mtable. cbn [m_words]. apply Forall_forall. intros ws Hws. apply repeat_spec in Hws. subst ws.
    constructor; [apply wgood_empty | constructor].
  Qed.

  Lemma after_lock_wgood (S1 : mstate) t tab b lk : Forall tb_wgood (h_tabs S1) ->
    Forall tb_wgood (h_tabs (fst (after_lock hash idx tophash nslots nstripes S1 t tab b lk))).
  Proof.
    intros H. unfold after_lock. destruct lk; cbv zeta; try exact H.
    match goal with |- context [scopy_chain ?a ?b ?c ?d ?e ?f] => destruct (scopy_chain a b c d e f) as [nt cp] eqn:Ec end.
    cbn [fst h_tabs sset_tab]. apply Forall_supd_nth; [exact H|]. intros _ _.
    pose proof (tb_wgood_scopy (schain_of (stab_at S1 tab) b) (stab_at S1 new) (wgood_tabT (h_tabs S1) new H)) as E.
    rewrite Ec in E. exact E.
  Qed.

  Lemma step_wgood s t p s' ls : pcfact (h_tabs s) p -> sstep_pc s t p = Some (s', ls) ->
    Forall tb_wgood (h_tabs s) -> Forall tb_wgood (h_tabs s').
  Proof.
    intros Hf Hs H.
    destruct p; cbn [XMachineS.sstep_pc] in Hs; cbv zeta in Hs;
      repeat match type of Hs with context [match ?x with _ => _ end] => destruct x eqn:? end;
      try discriminate Hs; apply some_fst_c in Hs; subst s'; rewrite ?htabs_goto, ?htabs_visits;
      cbn [fst h_tabs sset_pc sset_tab sset_flags spush_tab sbump pcfact] in *; try exact H.
    all: try (apply Forall_app; split; [exact H | constructor; [apply tb_wgood_new | constructor]]).
    all: try (apply Forall_supd_nth; [exact H|]; intros x Hx;
              first [ exact Hx
                    | apply tb_wgood_set_word; [intros ? _; first [apply wgood_erase_top | apply wgood_store_top; [|apply Htop] | idtac]; tauto | exact Hx]
                    | apply tb_wgood_app_word; [apply wgood_store_top; [apply wgood_empty | apply Htop] | exact Hx] ]).
    match goal with Ha : after_lock _ _ _ _ _ ?S1 ?T ?TAB ?B ?LK = (_, _) |- _ =>
      pose proof (after_lock_wgood S1 T TAB B LK) as A; rewrite Ha in A; cbn [fst] in A; apply A end.
    cbn [h_tabs sset_tab]. apply Forall_supd_nth; [exact H|]. intros x Hx. apply tb_wgood_set_word; [intros _ _; exact Hf | exact Hx].
  Qed.


  (* ---------------- the holder of the bucket lock rewrites one slot ---------------- *)

  Lemma sfull_ext (tb tb' : mtable) b sl e : m_len tb' = m_len tb -> m_seed tb' = m_seed tb -> sfull tb b sl e -> sfull tb' b sl e.
  Proof.
    intros Hl Hs [k [v [id [F1 [F2 [F3 F4]]]]]]. exists k, v, id. unfold ktop. rewrite Hs, (shome_ext hash idx _ _ k Hl Hs). auto.
  Qed.

  Lemma chain_ok_upd (tb tb' : mtable) tab b hp hp' pos :
    chain_ok tb tab b hp ->
    m_len tb' = m_len tb -> m_seed tb' = m_seed tb ->
    length (schain_of tb' b) = length (schain_of tb b) -> length (ctops tb' b) = length (ctops tb b) ->
    (forall pos', pos' <> pos -> nth pos' (schain_of tb' b) empty_mslot = nth pos' (schain_of tb b) empty_mslot
                                 /\ topent (ctops tb' b) pos' = topent (ctops tb b) pos') ->
    slot_ok tb' tab b pos hp' (nth pos (schain_of tb' b) empty_mslot) (topent (ctops tb' b) pos) ->
    (forall p pos', hp = Some p -> witpos tab p = Some pos' -> pos' = pos) ->
    (forall k, ms_key (nth pos (schain_of tb' b) empty_mslot) = Some k ->
               ms_key (nth pos (schain_of tb b) empty_mslot) = Some k \/ absent (schain_of tb b) k) ->
    chain_ok tb' tab b hp'.
  Proof.
    intros [[A1 A2] [B C]] Hl Hs Hlc Hlt Hoth Hpos Hw Hk. unfold chain_ok. cbv zeta. split; [|split].
    - split; [intros E; apply A1; destruct (ctops tb b); [reflexivity | rewrite E in Hlt; discriminate Hlt] | rewrite Hlc, Hlt; exact A2].
    - intros p1 p2 k H1 H2 K1 K2. rewrite Hlc in H1, H2.
      destruct (Nat.eq_dec p1 pos) as [E1|N1], (Nat.eq_dec p2 pos) as [E2|N2]; try congruence.
      + subst p1. destruct (Hoth p2 N2) as [F _]. rewrite F in K2. destruct (Hk k K1) as [G|G].
        * apply (B pos p2 k H1 H2 G K2).
        * exfalso. apply (G p2 H2 K2).
      + subst p2. destruct (Hoth p1 N1) as [F _]. rewrite F in K1. destruct (Hk k K2) as [G|G].
        * apply (B p1 pos k H1 H2 K1 G).
        * exfalso. apply (G p1 H1 K1).
      + destruct (Hoth p1 N1) as [F1 _]. destruct (Hoth p2 N2) as [F2 _]. rewrite F1 in K1. rewrite F2 in K2. apply (B p1 p2 k H1 H2 K1 K2).
    - intros pos' Hp'. rewrite Hlc in Hp'. destruct (Nat.eq_dec pos' pos) as [->|Hne]; [exact Hpos|].
      destruct (Hoth pos' Hne) as [F1 F2]. rewrite F1, F2. destruct (C pos' Hp') as [F|[F|[p [G1 G2]]]].
      + left. exact F.
      + right. left. apply (sfull_ext tb tb'); assumption.
      + exfalso. apply Hne. apply (Hw p pos' G1 G2).
  Qed.

  (* a new bucket with one complete slot is linked at the end *)
  Lemma chain_ok_app (tb tb' : mtable) tab b hp hp' (cell : mslot) l k v id :
    chain_ok tb tab b hp ->
    m_len tb' = m_len tb -> m_seed tb' = m_seed tb ->
    schain_of tb' b = schain_of tb b ++ cell :: repeat empty_mslot (nslots - 1) ->
    ctops tb' b = ctops tb b ++ [l] ->
    ms_key cell = Some k -> ms_val cell = Some (v, id) -> shome tb k = b ->
    nth 0 l (false, 0%N) = (true, ktop tb k) -> (forall i, 0 < i -> fst (nth i l (false, 0%N)) = false) ->
    absent (schain_of tb b) k ->
    (forall p pos', hp = Some p -> witpos tab p = Some pos' -> False) ->
    chain_ok tb' tab b hp'.
  Proof.
    intros [[A1 A2] [B C]] Hl Hs Ec Et Kc Vc Hh L0 Li Hab Hw. unfold chain_ok. cbv zeta. rewrite Ec, Et.
    set (c := schain_of tb b) in *. set (tops := ctops tb b) in *.
    assert (Hlen : length (c ++ cell :: repeat empty_mslot (nslots - 1)) = length c + nslots)
      by (rewrite app_length; cbn [length]; rewrite repeat_length; lia).
    assert (Hnew : forall i, i < nslots -> nth (length c + i) (c ++ cell :: repeat empty_mslot (nslots - 1)) empty_mslot
                                             = if Nat.eq_dec i 0 then cell else empty_mslot).
    { intros i Hi. rewrite app_nth2 by lia. replace (length c + i - length c) with i by lia.
      destruct i as [|i]; [reflexivity|]. cbn [nth]. destruct (Nat.eq_dec (S i) 0); [discriminate|].
      destruct (Nat.lt_ge_cases i (nslots - 1)); [apply nth_repeat | apply nth_overflow; rewrite repeat_length; assumption]. }
    split; [|split].
    - split; [destruct tops; discriminate | rewrite Hlen, app_length; cbn [length]; lia].
    - intros p1 p2 k0 H1 H2 K1 K2. rewrite Hlen in H1, H2.
      assert (Hcase : forall p, p < length c + nslots -> ms_key (nth p (c ++ cell :: repeat empty_mslot (nslots - 1)) empty_mslot) = Some k0 ->
                        (p < length c /\ ms_key (nth p c empty_mslot) = Some k0) \/ (p = length c /\ k0 = k)).
      { intros p Hp Kp. destruct (Nat.lt_ge_cases p (length c)) as [L|L].
        - left. rewrite app_nth1 in Kp by exact L. auto.
        - right. replace p with (length c + (p - length c)) in Kp by lia. rewrite Hnew in Kp by lia.
          destruct (Nat.eq_dec (p - length c) 0); [split; [lia | congruence] | discriminate Kp]. }
      destruct (Hcase p1 H1 K1) as [[L1 G1]|[-> ->]], (Hcase p2 H2 K2) as [[L2 G2]|[E2 E2']]; try lia.
      + apply (B p1 p2 k0 L1 L2 G1 G2).
      + subst k0. exfalso. apply (Hab p1 L1 G1).
      + exfalso. apply (Hab p2 L2 G2).
    - intros pos Hp. rewrite Hlen in Hp. destruct (Nat.lt_ge_cases pos (length c)) as [L|L].
      + rewrite app_nth1 by exact L. rewrite topent_app by (rewrite <- A2; exact L).
        destruct (C pos L) as [F|[F|[p [G1 G2]]]]; [left; exact F | right; left; apply (sfull_ext tb tb'); assumption | exfalso; apply (Hw p pos G1 G2)].
      + assert (Ei : exists i, pos = length c + i /\ i < nslots) by (exists (pos - length c); lia).
        destruct Ei as [i [-> Hi]]. rewrite Hnew by exact Hi. rewrite A2, topent_app_new by exact Hi.
        destruct (Nat.eq_dec i 0) as [E|E].
        * right. left. rewrite E, L0. exists k, v, id. unfold ktop. rewrite Hs, (shome_ext hash idx _ _ k Hl Hs). auto.
        * left. split; [reflexivity|]. split; [reflexivity|]. apply Li. lia.
  Qed.

  (* ---------------- how the updates of the machine act on chain and entries ---------------- *)

  Lemma map_supd_const {X Y} (h : X -> Y) (l : list X) i x : map h (supd_nth l i (fun _ => x)) = supd_nth (map h l) i (fun _ => h x).
  Proof. revert i. induction l as [|a r IH]; intros [|i]; cbn [supd_nth map]; try reflexivity. rewrite IH. reflexivity. Qed.



  Lemma tabT_supd_same T tab (f : mtable -> mtable) : tab < length T -> tabT (supd_nth T tab f) tab = f (tabT T tab).
  Proof. intros H. rewrite tabT_supd. destruct (Nat.eq_dec tab tab) as [_|Hc]; [|exfalso; apply Hc; reflexivity]. apply Nat.ltb_lt in H. rewrite H. reflexivity. Qed.

  Lemma supd_nth_const_eq {X} (l : list X) i f d : supd_nth l i (fun _ => f (nth i l d)) = supd_nth l i f.
  Proof. revert i. induction l as [|a r IH]; intros [|i]; cbn [supd_nth nth]; try reflexivity. rewrite IH. reflexivity. Qed.

  (* a slot of chain b is rewritten *)
  Lemma set_slot_effect (tb : mtable) b pos g : b < m_len tb ->
    schain_of (sset_slot tb b pos g) b = supd_nth (schain_of tb b) pos g /\ ctops (sset_slot tb b pos g) b = ctops tb b
    /\ m_len (sset_slot tb b pos g) = m_len tb /\ m_seed (sset_slot tb b pos g) = m_seed tb.
  Proof.
    intros Hb. unfold sset_slot, sset_chain, schain_of, ctops, swords_of, m_len in *. cbn [m_chains m_words m_seed].
    rewrite nth_supd_nth, supd_nth_length. destruct (Nat.eq_dec b b) as [_|Hc]; [|exfalso; apply Hc; reflexivity].
    apply Nat.ltb_lt in Hb. rewrite Hb. auto.
  Qed.

  (* the entry of slot pos is rewritten: the word stored is the one in memory but for that entry *)
  Lemma set_ent_effect (tb : mtable) b pos w' g : b < length (m_words tb) ->
    pos / nslots < length (ctops tb b) -> length (nth (pos / nslots) (ctops tb b) []) = nslots ->
    w_top w' = supd_nth (nth (pos / nslots) (ctops tb b) []) (pos mod nslots) g ->
    schain_of (sset_word tb b (pos / nslots) (fun _ => w')) b = schain_of tb b
    /\ length (ctops (sset_word tb b (pos / nslots) (fun _ => w')) b) = length (ctops tb b)
    /\ (forall pos', topent (ctops (sset_word tb b (pos / nslots) (fun _ => w')) b) pos'
                     = if Nat.eq_dec pos' pos then g (topent (ctops tb b) pos) else topent (ctops tb b) pos')
    /\ m_len (sset_word tb b (pos / nslots) (fun _ => w')) = m_len tb /\ m_seed (sset_word tb b (pos / nslots) (fun _ => w')) = m_seed tb.
  Proof.
    intros Hb Hbi Hl Hw. split; [reflexivity|].
    assert (E : ctops (sset_word tb b (pos / nslots) (fun _ => w')) b
                = supd_nth (ctops tb b) (pos / nslots) (fun l => supd_nth l (pos mod nslots) g)).
    { unfold ctops, swords_of, sset_word, sset_words. cbn [m_words]. rewrite nth_supd_nth.
      destruct (Nat.eq_dec b b) as [_|Hc]; [|exfalso; apply Hc; reflexivity]. apply Nat.ltb_lt in Hb. rewrite Hb.
      rewrite map_supd_const, Hw. fold (swords_of tb b). fold (ctops tb b).
      apply (supd_nth_const_eq (ctops tb b) (pos / nslots) (fun l => supd_nth l (pos mod nslots) g) []). }
    rewrite E. split; [apply supd_nth_length|]. split; [|split; reflexivity].
    intros pos'. apply topent_upd; [exact Hbi|]. rewrite Hl. apply Nat.mod_upper_bound. lia.
  Qed.

  Lemma sgoto_pc_eq (S0 : mstate) t q ls : (forall r, q <> QRet r) -> h_pc (fst (sgoto S0 t q ls)) t = q.
  Proof.
    intros H. destruct q; cbn [sgoto fst sset_pc h_pc]; try (destruct (Nat.eq_dec t t) as [_|Hc]; [reflexivity | exfalso; apply Hc; reflexivity]).
    exfalso. apply (H r). reflexivity.
  Qed.

  Lemma holder_goto (S0 : mstate) t q ls tab b : XL (fst (sgoto S0 t q ls)) -> (forall r, q <> QRet r) ->
    sholdsT (h_tabs S0) q = Some (tab, b) -> holder_pc (fst (sgoto S0 t q ls)) tab b = Some q.
  Proof.
    intros HS' Hq Hh. pose proof (sgoto_pc_eq S0 t q ls Hq) as E.
    assert (A : sholds (fst (sgoto S0 t q ls)) (h_pc (fst (sgoto S0 t q ls)) t) = Some (tab, b))
      by (unfold XS_lock.sholds; rewrite E, htabs_goto; exact Hh).
    unfold holder_pc. rewrite (xl_lockA _ _ _ _ _ HS' t tab b A). cbn [option_map]. rewrite E. reflexivity.
  Qed.

  (* facts about the bucket a program counter holds *)
  Lemma holder_facts s t tab b : XL s -> XT s -> XCS s -> sholds s (h_pc s t) = Some (tab, b) ->
    tab < length (h_tabs s) /\ tab <= h_cur s /\ b < m_len (tabT (h_tabs s) tab)
    /\ chain_ok (tabT (h_tabs s) tab) tab b (Some (h_pc s t))
    /\ tb_ok (tabT (h_tabs s) tab) /\ tb_wgood (tabT (h_tabs s) tab).
  Proof.
    intros HS HT HC Hh.
    assert (Htab : tab < length (h_tabs s)).
    { pose proof (xl_pc _ _ _ _ s HS t) as Hpc. unfold XS_lock.sholds in Hh.
      destruct (h_pc s t); cbn [XS_lock.sholdsT XS_lock.PCI] in *; try discriminate Hh; inversion Hh; subst; unfold inr in *; tauto. }
    assert (Hle : tab <= h_cur s).
    { destruct (xt_pc s HT t) as [Hle _]. unfold XS_lock.sholds in Hh.
      destruct (h_pc s t); cbn [XS_lock.sholdsT tabs_le] in *; try discriminate Hh; inversion Hh; subst; tauto. }
    pose proof (tb_ok_tabT nslots nstripes Hslots (h_tabs s) tab (xl_tabs _ _ _ _ s HS)) as Hok.
    pose proof (xl_lockA _ _ _ _ s HS t tab b Hh) as Hl.
    assert (Hb : b < m_len (tabT (h_tabs s) tab)).
    { destruct Hok as [A [B [C D]]]. destruct (Nat.lt_ge_cases b (m_len (tabT (h_tabs s) tab))) as [L|L]; [exact L|]. exfalso.
      unfold XS_lock.lock_of, lockT, XMachineS.sword_at, swords_of in Hl.
      rewrite (nth_overflow (m_words (tabT (h_tabs s) tab)) []) in Hl by lia. discriminate Hl. }
    split; [exact Htab|]. split; [exact Hle|]. split; [exact Hb|]. split; [|split; [exact Hok | apply wgood_tabT; apply (xcs_words s HC)]].
    pose proof (xcs_ch s HC tab b Hle Hb) as Hch. unfold holder_pc in Hch. rewrite Hl in Hch. exact Hch.
  Qed.


  (* ---------------- the chain of the stepping lock holder ---------------- *)

  Lemma ch_slot_upd (tb : mtable) tab b pos g hp hp' :
    chain_ok tb tab b hp -> b < m_len tb -> pos < length (schain_of tb b) ->
    slot_ok tb tab b pos hp' (g (nth pos (schain_of tb b) empty_mslot)) (topent (ctops tb b) pos) ->
    (forall p pos', hp = Some p -> witpos tab p = Some pos' -> pos' = pos) ->
    (forall k, ms_key (g (nth pos (schain_of tb b) empty_mslot)) = Some k ->
               ms_key (nth pos (schain_of tb b) empty_mslot) = Some k \/ absent (schain_of tb b) k) ->
    chain_ok (sset_slot tb b pos g) tab b hp'.
  Proof.
    intros Hch Hb Hp Hnew Hw Hk. destruct (set_slot_effect tb b pos g Hb) as [E1 [E2 [E3 E4]]].
    assert (Hn : nth pos (supd_nth (schain_of tb b) pos g) empty_mslot = g (nth pos (schain_of tb b) empty_mslot)).
    { rewrite nth_supd_nth. destruct (Nat.eq_dec pos pos) as [_|Hc]; [|exfalso; apply Hc; reflexivity]. apply Nat.ltb_lt in Hp. rewrite Hp. reflexivity. }
    apply (chain_ok_upd tb _ tab b hp hp' pos Hch E3 E4); rewrite ?E1, ?E2, ?supd_nth_length; try reflexivity.
    - intros pos' Hne. split; [|reflexivity]. rewrite nth_supd_nth. destruct (Nat.eq_dec pos' pos); [contradiction | reflexivity].
    - rewrite Hn. destruct Hnew as [F|[F|F]]; [left; exact F | right; left; apply (sfull_ext tb); assumption | right; right; exact F].
    - exact Hw.
    - rewrite Hn. exact Hk.
  Qed.

  Lemma ch_ent_upd (tb : mtable) tab b pos w' g hp hp' :
    chain_ok tb tab b hp -> b < m_len tb -> length (m_words tb) = m_len tb -> tb_wgood tb -> pos < length (schain_of tb b) ->
    w_top w' = supd_nth (nth (pos / nslots) (ctops tb b) []) (pos mod nslots) g ->
    slot_ok tb tab b pos hp' (nth pos (schain_of tb b) empty_mslot) (g (topent (ctops tb b) pos)) ->
    (forall p pos', hp = Some p -> witpos tab p = Some pos' -> pos' = pos) ->
    chain_ok (sset_word tb b (pos / nslots) (fun _ => w')) tab b hp'.
  Proof.
    intros Hch Hb Hlw Hwg Hp Hw Hnew Hwit. pose proof Hch as [[A1 A2] _].
    assert (Hbi : pos / nslots < length (ctops tb b)) by (apply Nat.div_lt_upper_bound; lia).
    assert (Hl : length (nth (pos / nslots) (ctops tb b) []) = nslots).
    { rewrite ctops_nth. unfold ctops in Hbi. rewrite map_length in Hbi. apply Nat.ltb_lt in Hbi. rewrite Hbi.
      apply (wgood_sword_at tb b (pos / nslots) Hwg). }
    destruct (set_ent_effect tb b pos w' g ltac:(lia) Hbi Hl Hw) as [E1 [E2 [E3 [E4 E5]]]].
    apply (chain_ok_upd tb _ tab b hp hp' pos Hch E4 E5); rewrite ?E1; try reflexivity; try exact E2.
    - intros pos' Hne. split; [reflexivity|]. rewrite E3. destruct (Nat.eq_dec pos' pos); [contradiction | reflexivity].
    - rewrite E3. destruct (Nat.eq_dec pos pos) as [_|Hc]; [|exfalso; apply Hc; reflexivity].
      destruct Hnew as [F|[F|F]]; [left; exact F | right; left; apply (sfull_ext tb); assumption | right; right; exact F].
    - exact Hwit.
    - intros k Hk. left. exact Hk.
  Qed.

  Lemma XCS_ch_holder s t p s' ls tab b : XL s -> XL s' -> XT s -> XCS s -> h_pc s t = p -> sstep_pc s t p = Some (s', ls) ->
    sholds s p = Some (tab, b) ->
    chain_ok (tabT (h_tabs s') tab) tab b (holder_pc s' tab b).
  Proof.
    intros HS HS' HT HC Hp Hs Hh. pose proof (xcs_pc s HC t) as Hf. rewrite Hp in Hf.
    assert (Hh0 : sholds s (h_pc s t) = Some (tab, b)) by (rewrite Hp; exact Hh).
    destruct (holder_facts s t tab b HS HT HC Hh0) as (Htab & Hle & Hb & Hch & Hok & Hwg). rewrite Hp in Hch.
    assert (Hnw : forall q, witpos tab q = None -> forall hp', chain_ok (tabT (h_tabs s) tab) tab b (Some q) -> chain_ok (tabT (h_tabs s) tab) tab b hp').
    { intros q Hq hp'. apply chain_ok_hp. intros p0 pos0 E W. inversion E; subst. rewrite Hq in W. discriminate W. }
    unfold XS_lock.sholds in Hh.
    destruct p; cbn [XS_lock.sholdsT] in Hh; try discriminate Hh; inversion Hh; subst tab b; clear Hh;
      cbn [XMachineS.sstep_pc] in Hs; cbv zeta in Hs;
      repeat match type of Hs with context [match ?x with _ => _ end] => destruct x eqn:? end;
      try discriminate Hs; apply some_fst_c in Hs; subst s'; cbn [pcfact] in Hf.
    all: rewrite ?htabs_goto, ?htabs_visits; cbn [h_tabs sset_tab sset_flags spush_tab sbump].
    all: try (match type of Hch with chain_ok _ _ _ (Some ?q) => apply (Hnw q eq_refl) end; exact Hch).
    all: rewrite (tabT_supd_same _ _ _ Htab).
    all: change (stab_at s tab0) with (tabT (h_tabs s) tab0) in *.
    all: destruct Hok as [Hok1 [Hok2 _]].
    - (* unlockBucket of a Range *)
      destruct Hf as [Hf1 _]. apply (chain_ok_ext (tabT (h_tabs s) tab0)); try reflexivity.
      + apply cellsw_set_lock. cbn [with_lock w_top]. rewrite Hf1, ctops_nth. destruct Hch as [[A1 _] _]. unfold ctops in A1.
        destruct (swords_of (tabT (h_tabs s) tab0) b0); [exfalso; apply A1; reflexivity | reflexivity].
      + match type of Hch with chain_ok _ _ _ (Some ?q) => apply (Hnw q eq_refl) end. exact Hch.
    - destruct Hf as [Hf1 _]. apply (chain_ok_ext (tabT (h_tabs s) tab0)); try reflexivity.
      + apply cellsw_set_lock. cbn [with_lock w_top]. rewrite Hf1, ctops_nth. destruct Hch as [[A1 _] _]. unfold ctops in A1.
        destruct (swords_of (tabT (h_tabs s) tab0) b0); [exfalso; apply A1; reflexivity | reflexivity].
      + match type of Hch with chain_ok _ _ _ (Some ?q) => apply (Hnw q eq_refl) end. exact Hch.
    - (* D1: the presence bit is cleared *)
      destruct Hf as [[F1 [F2 [F3 F4]]] [F5 F6]]. unfold kchain, ktops in *.
      rewrite holder_goto; [| exact HS' | discriminate |].
      + apply (ch_ent_upd _ _ _ _ _ (fun e => (false, snd e)) (Some (QW_D1 cx tab0 pos old w ne))); try assumption.
        * cbn [erase_top w_top]. rewrite F5. reflexivity.
        * right. right. eexists. split; [reflexivity|]. cbn [witpos]. destruct (Nat.eq_dec tab0 tab0) as [_|Hc]; [reflexivity | exfalso; apply Hc; reflexivity].
        * intros p0 pos' E W. inversion E; subst p0. discriminate W.
      + cbn [XS_lock.sholdsT h_tabs sset_tab sbump]. rewrite (tabT_supd_same _ _ _ Htab). reflexivity.
    - (* D2: the value pointer is cleared *)
      destruct Hf as [F1 [F2 [F3 F4]]]. unfold kchain, ktops in *.
      rewrite holder_goto; [| exact HS' | discriminate |].
      + apply (ch_slot_upd _ _ _ _ _ (Some (QW_D2 cx tab0 pos old ne))); try assumption.
        * right. right. eexists. split; [reflexivity|]. cbn [witpos]. destruct (Nat.eq_dec tab0 tab0) as [_|Hc]; [reflexivity | exfalso; apply Hc; reflexivity].
        * intros p0 pos' E W. inversion E; subst p0. cbn [witpos] in W. destruct (Nat.eq_dec tab0 tab0); inversion W; reflexivity.
        * intros k Hk. left. exact Hk.
      + cbn [XS_lock.sholdsT h_tabs sset_tab sbump]. rewrite (tabT_supd_same _ _ _ Htab). f_equal. f_equal. apply (shome_ext hash idx); [unfold sset_slot, sset_chain, m_len; cbn [m_chains]; apply supd_nth_length | reflexivity].
    (* D3: the key pointer is cleared: the slot is free *)
    - destruct Hf as [F1 [F2 [F3 F4]]]. unfold kchain, ktops in *.
      apply (ch_slot_upd _ _ _ _ _ (Some (QW_D3 cx tab0 pos old ne))); try assumption.
      + left. split; [reflexivity|]. split; [cbn [ms_val]; symmetry; exact F3 | exact F4].
      + intros p0 pos' E W. inversion E; subst p0. cbn [witpos] in W. destruct (Nat.eq_dec tab0 tab0); inversion W; reflexivity.
      + intros k Hk. discriminate Hk.
    - destruct Hf as [F1 [F2 [F3 F4]]]. unfold kchain, ktops in *.
      apply (ch_slot_upd _ _ _ _ _ (Some (QW_D3 cx tab0 pos old ne))); try assumption.
      + left. split; [reflexivity|]. split; [cbn [ms_val]; symmetry; exact F3 | exact F4].
      + intros p0 pos' E W. inversion E; subst p0. cbn [witpos] in W. destruct (Nat.eq_dec tab0 tab0); inversion W; reflexivity.
      + intros k Hk. discriminate Hk.
    - destruct Hf as [F1 [F2 [F3 F4]]]. unfold kchain, ktops in *.
      apply (ch_slot_upd _ _ _ _ _ (Some (QW_D3 cx tab0 pos old ne))); try assumption.
      + left. split; [reflexivity|]. split; [cbn [ms_val]; symmetry; exact F3 | exact F4].
      + intros p0 pos' E W. inversion E; subst p0. cbn [witpos] in W. destruct (Nat.eq_dec tab0 tab0); inversion W; reflexivity.
      + intros k Hk. discriminate Hk.
    (* U1: a new value pointer *)
    - destruct Hf as [F1 [F2 [[id F3] F4]]]. unfold kchain, ktops in *.
      apply (ch_slot_upd _ _ _ _ _ (Some (QW_U1 cx tab0 pos old nv))); try assumption.
      + right. left. exists (sc_k cx), nv, (h_alloc s). split; [exact F2|]. split; [reflexivity|]. split; [symmetry; exact F4 | reflexivity].
      + intros p0 pos' E W. inversion E; subst p0. discriminate W.
      + intros k Hk. left. exact Hk.
    - destruct Hf as [F1 [F2 [[id F3] F4]]]. unfold kchain, ktops in *.
      apply (ch_slot_upd _ _ _ _ _ (Some (QW_U1 cx tab0 pos old nv))); try assumption.
      + right. left. exists (sc_k cx), nv, (h_alloc s). split; [exact F2|]. split; [reflexivity|]. split; [symmetry; exact F4 | reflexivity].
      + intros p0 pos' E W. inversion E; subst p0. discriminate W.
      + intros k Hk. left. exact Hk.
    - (* I1: presence bit and top hash *)
      destruct Hf as [[F1 [F2 [F3 F4]]] [F5 [F6 F7]]]. unfold kchain, ktops in *.
      rewrite holder_goto; [| exact HS' | discriminate |].
      + apply (ch_ent_upd _ _ _ _ _ (fun _ => (true, ktop (tabT (h_tabs s) tab0) (sc_k cx))) (Some (QW_I1 cx tab0 pos nv w))); try assumption.
        * cbn [store_top w_top]. rewrite F6. reflexivity.
        * right. right. eexists. split; [reflexivity|]. cbn [witpos]. destruct (Nat.eq_dec tab0 tab0) as [_|Hc]; [reflexivity | exfalso; apply Hc; reflexivity].
        * intros p0 pos' E W. inversion E; subst p0. discriminate W.
      + cbn [XS_lock.sholdsT h_tabs sset_tab sbump]. rewrite (tabT_supd_same _ _ _ Htab). reflexivity.
    - (* I2: the value pointer *)
      destruct Hf as [[F1 [F2 [F3 F4]]] F5]. unfold kchain, ktops in *.
      rewrite holder_goto; [| exact HS' | discriminate |].
      + apply (ch_slot_upd _ _ _ _ _ (Some (QW_I2 cx tab0 pos nv))); try assumption.
        * right. right. eexists. split; [reflexivity|]. cbn [witpos]. destruct (Nat.eq_dec tab0 tab0) as [_|Hc]; [reflexivity | exfalso; apply Hc; reflexivity].
        * intros p0 pos' E W. inversion E; subst p0. cbn [witpos] in W. destruct (Nat.eq_dec tab0 tab0); inversion W; reflexivity.
        * intros k Hk. left. exact Hk.
      + cbn [XS_lock.sholdsT h_tabs sset_tab sbump]. rewrite (tabT_supd_same _ _ _ Htab). f_equal. f_equal. apply (shome_ext hash idx); [unfold sset_slot, sset_chain, m_len; cbn [m_chains]; apply supd_nth_length | reflexivity].
    - (* I3: the key pointer: the slot is complete *)
      destruct Hf as [[F1 [F2 [[id F3] F4]]] F5]. unfold kchain, ktops in *.
      apply (ch_slot_upd _ _ _ _ _ (Some (QW_I3 cx tab0 pos nv))); try assumption.
      + right. left. exists (sc_k cx), nv, id. split; [reflexivity|]. split; [exact F3|]. split; [symmetry; exact F4 | reflexivity].
      + intros p0 pos' E W. inversion E; subst p0. cbn [witpos] in W. destruct (Nat.eq_dec tab0 tab0); inversion W; reflexivity.
      + intros k Hk. right. cbn [ms_key] in Hk. inversion Hk; subst k. exact F5.
    - (* N1: a new bucket *)
      unfold kchain in Hf.
      eapply (chain_ok_app (tabT (h_tabs s) tab0) _ tab0 _ (Some (QW_N1 cx tab0 nv))); try exact Hch; try exact Hf.
      + unfold sset_words, sset_chain, m_len. cbn [m_chains]. apply supd_nth_length.
      + reflexivity.
      + unfold schain_of, sset_words, sset_chain. cbn [m_chains]. rewrite nth_supd_nth.
        destruct (Nat.eq_dec _ _) as [_|Hc]; [|exfalso; apply Hc; reflexivity]. unfold m_len in Hb. apply Nat.ltb_lt in Hb. rewrite Hb. reflexivity.
      + unfold ctops, swords_of, sset_words, sset_chain. cbn [m_words]. rewrite nth_supd_nth.
        destruct (Nat.eq_dec _ _) as [_|Hc]; [|exfalso; apply Hc; reflexivity]. rewrite Hok2. apply Nat.ltb_lt in Hb. rewrite Hb.
        rewrite map_app. reflexivity.
      + reflexivity.
      + reflexivity.
      + reflexivity.
      + cbn [store_top empty_bword w_top map]. destruct nslots; [lia | reflexivity].
      + intros i Hi. cbn [store_top empty_bword w_top map]. destruct nslots as [|n]; [lia|]. destruct i; [lia|]. cbn [repeat supd_nth nth].
        destruct (Nat.lt_ge_cases i n); [rewrite nth_repeat | rewrite nth_overflow by (rewrite repeat_length; assumption)]; reflexivity.
      + intros p0 pos' E W. inversion E; subst p0. discriminate W.
  Qed.


  (* ---------------- the locked scan, in detail ---------------- *)

  Lemma scan_found_full k th w (sl : list mslot) base i emp ne pos vp :
    scan_slots eqd k th w sl base i emp ne = ScFound pos vp ->
    exists j, j < length sl /\ pos = base + i + j /\ ms_key (nth j sl empty_mslot) = Some k
              /\ ms_val (nth j sl empty_mslot) = vp /\ top_match th w (i + j) = true.
  Proof.
    revert i emp ne. induction sl as [|x r IH]; intros i emp ne; cbn [scan_slots length]; [discriminate|].
    assert (Hrec : forall emp0 ne0, scan_slots eqd k th w r base (S i) emp0 ne0 = ScFound pos vp ->
                     exists j, j < S (length r) /\ pos = base + i + j /\ ms_key (nth j (x :: r) empty_mslot) = Some k
                               /\ ms_val (nth j (x :: r) empty_mslot) = vp /\ top_match th w (i + j) = true).
    { intros emp0 ne0 E. destruct (IH _ _ _ E) as [j [A [B [C [D F]]]]]. exists (S j). split; [lia|]. split; [lia|].
      split; [exact C|]. split; [exact D|]. replace (i + S j) with (S i + j) by lia. exact F. }
    destruct (ms_key x) as [k'|] eqn:Ek; [|apply Hrec].
    destruct (top_match th w i) eqn:Em; [destruct (eqd k k') as [->|]|]; try apply Hrec.
    intros E. inversion E; subst. exists 0. split; [lia|]. split; [lia|]. split; [exact Ek|]. split; [reflexivity|].
    rewrite Nat.add_0_r. exact Em.
  Qed.

  Lemma scan_miss_all k th w (sl : list mslot) base i emp ne emp' ne' :
    scan_slots eqd k th w sl base i emp ne = ScMiss emp' ne' ->
    forall j, j < length sl -> ms_key (nth j sl empty_mslot) = Some k -> top_match th w (i + j) = false.
  Proof.
    revert i emp ne. induction sl as [|x r IH]; intros i emp ne; cbn [scan_slots length]; [intros _ j Hj; lia|].
    assert (Hrec : forall emp0 ne0, scan_slots eqd k th w r base (S i) emp0 ne0 = ScMiss emp' ne' ->
                     forall j, j < length r -> ms_key (nth j r empty_mslot) = Some k -> top_match th w (i + S j) = false).
    { intros emp0 ne0 E j Hj Hk. replace (i + S j) with (S i + j) by lia. apply (IH _ _ _ E j Hj Hk). }
    destruct (ms_key x) as [k'|] eqn:Ek.
    - destruct (top_match th w i) eqn:Em; [destruct (eqd k k') as [->|Hne]|].
      + discriminate.
      + intros E [|j] Hj Hk; [cbn [nth] in Hk; congruence | apply (Hrec _ _ E j); [lia | exact Hk]].
      + intros E [|j] Hj Hk; [rewrite Nat.add_0_r; exact Em | apply (Hrec _ _ E j); [lia | exact Hk]].
    - intros E [|j] Hj Hk; [cbn [nth] in Hk; congruence | apply (Hrec _ _ E j); [lia | exact Hk]].
  Qed.

  Lemma top_match_true th w i : top_match th w i = true -> nth i (w_top w) (false, 0%N) = (true, th).
  Proof.
    unfold top_match. destruct (nth i (w_top w) (false, 0%N)) as [[|] th']; [|discriminate]. intros E. apply N.eqb_eq in E. subst. reflexivity.
  Qed.

  Lemma top_match_false th w i : nth i (w_top w) (false, 0%N) = (true, th) -> top_match th w i = true.
  Proof. unfold top_match. intros ->. apply N.eqb_refl. Qed.

  Lemma sbucket_length (c : list mslot) bi : length (sbucket_slots nslots c bi) = Nat.min nslots (length c - bi * nslots).
  Proof. unfold sbucket_slots. rewrite firstn_length, skipn_length. reflexivity. Qed.

  (* the word of bucket bi of a well-shaped chain, and the entry of a slot of that bucket *)
  Lemma topent_bucket (tb : mtable) b bi j : shaped (schain_of tb b) (ctops tb b) -> bi * nslots + j < length (schain_of tb b) -> j < nslots ->
    topent (ctops tb b) (bi * nslots + j) = nth j (w_top (sword_at tb b bi)) (false, 0%N)
    /\ nth bi (ctops tb b) [] = w_top (sword_at tb b bi) /\ (bi * nslots + j) / nslots = bi.
  Proof.
    intros [A1 A2] Hp Hj.
    assert (E1 : (bi * nslots + j) / nslots = bi) by (rewrite Nat.add_comm, Nat.div_add by lia; rewrite Nat.div_small by lia; lia).
    assert (E2 : (bi * nslots + j) mod nslots = j) by (rewrite Nat.add_comm, Nat.mod_add by lia; apply Nat.mod_small; lia).
    assert (Hbi : bi < length (swords_of tb b)).
    { unfold ctops in A2. rewrite map_length in A2. rewrite A2 in Hp. nia. }
    assert (E3 : nth bi (ctops tb b) [] = w_top (sword_at tb b bi)) by (rewrite ctops_nth; apply Nat.ltb_lt in Hbi; rewrite Hbi; reflexivity).
    split; [|split; assumption]. unfold topent. rewrite E1, E2, E3. reflexivity.
  Qed.


  Lemma scan_found_chain (tb : mtable) b bi k emp ne pos vp :
    shaped (schain_of tb b) (ctops tb b) ->
    scan_slots eqd k (ktop tb k) (sword_at tb b bi) (sbucket_slots nslots (schain_of tb b) bi) (bi * nslots) 0 emp ne = ScFound pos vp ->
    pos < length (schain_of tb b) /\ ms_key (nth pos (schain_of tb b) empty_mslot) = Some k
    /\ ms_val (nth pos (schain_of tb b) empty_mslot) = vp /\ topent (ctops tb b) pos = (true, ktop tb k)
    /\ nth (pos / nslots) (ctops tb b) [] = w_top (sword_at tb b bi).
  Proof.
    intros Hsh E. destruct (scan_found_full _ _ _ _ _ _ _ _ _ _ E) as [j [A [B [C [D F]]]]].
    destruct (sbucket_nth nslots _ bi j empty_mslot A) as [G1 G2]. rewrite G2 in C, D.
    assert (Hj : j < nslots) by (rewrite sbucket_length in A; lia).
    replace pos with (bi * nslots + j) by lia.
    destruct (topent_bucket tb b bi j Hsh G1 Hj) as [T1 [T2 T3]].
    split; [exact G1|]. split; [exact C|]. split; [exact D|]. split; [|rewrite T3; exact T2].
    rewrite T1. apply top_match_true. exact F.
  Qed.

  Lemma scan_miss_chain (tb : mtable) tab b bi k emp ne emp' ne' q :
    chain_ok tb tab b (Some q) -> witpos tab q = None -> shome tb k = b ->
    scan_slots eqd k (ktop tb k) (sword_at tb b bi) (sbucket_slots nslots (schain_of tb b) bi) (bi * nslots) 0 emp ne = ScMiss emp' ne' ->
    forall pos, bi * nslots <= pos < S bi * nslots -> pos < length (schain_of tb b) -> ms_key (nth pos (schain_of tb b) empty_mslot) <> Some k.
  Proof.
    intros [Hsh [_ Hsl]] Hq Hh E pos Hr Hp Hk.
    assert (Ej : exists j, pos = bi * nslots + j /\ j < nslots) by (exists (pos - bi * nslots); lia). destruct Ej as [j [-> Hj]].
    assert (A : j < length (sbucket_slots nslots (schain_of tb b) bi)) by (rewrite sbucket_length; lia).
    destruct (sbucket_nth nslots _ bi j empty_mslot A) as [_ G2].
    pose proof (scan_miss_all _ _ _ _ _ _ _ _ _ _ E j A) as Hm. rewrite G2 in Hm. specialize (Hm Hk). cbn [Nat.add] in Hm.
    destruct (topent_bucket tb b bi j Hsh Hp Hj) as [T1 _].
    destruct (Hsl _ Hp) as [[F _]|[[k' [v [id [F1 [F2 [F3 F4]]]]]]|[p0 [F1 F2]]]].
    - congruence.
    - rewrite Hk in F1. inversion F1; subst k'. rewrite T1 in F3. rewrite (top_match_false _ _ _ F3) in Hm. discriminate Hm.
    - inversion F1; subst p0. rewrite Hq in F2. discriminate F2.
  Qed.

  (* a slot with a nil key is free, unless it is the one the holder is writing *)
  Lemma nil_key_free (tb : mtable) tab b q pos : chain_ok tb tab b (Some q) -> witpos tab q = None ->
    pos < length (schain_of tb b) -> ms_key (nth pos (schain_of tb b) empty_mslot) = None ->
    ms_val (nth pos (schain_of tb b) empty_mslot) = None /\ fst (topent (ctops tb b) pos) = false.
  Proof.
    intros [_ [_ Hsl]] Hq Hp Hk. destruct (Hsl _ Hp) as [[_ F]|[[k' [v [id [F1 _]]]]|[p0 [F1 F2]]]].
    - exact F.
    - congruence.
    - inversion F1; subst p0. rewrite Hq in F2. discriminate F2.
  Qed.

  (* ---------------- the stepping thread: its new program counter ---------------- *)

  Definition FRP (T : list mtable) (fr : nat -> option rframe) : Prop := forall u f, fr u = Some f -> pcfact T (rf_after f).

  Lemma start_cx_pf (cx : @scx K V) T : pcfact T (sstart_cx cx).
  Proof. unfold sstart_cx. destruct (sc_lie cx); exact I. Qed.

  Lemma svisits_pf (S0 : mstate) t rest vf after ls T : FRP T (h_frame S0) -> pcfact T after ->
    pcfact T (h_pc (fst (svisits S0 t rest vf after ls)) t) /\ FRP T (h_frame (fst (svisits S0 t rest vf after ls))).
  Proof.
    intros HF Ha. revert ls. induction rest as [|[k v] r IH]; intros ls; cbn [svisits].
    - assert (HF' : FRP T (fun t' => if Nat.eq_dec t' t then None else h_frame S0 t')).
      { intros u f. destruct (Nat.eq_dec u t); [discriminate | apply HF]. }
      destruct after; cbn [fst sset_pc sset_frame h_pc h_frame]; (destruct (Nat.eq_dec t t) as [_|Hc]; [|exfalso; apply Hc; reflexivity]);
        (split; [first [exact Ha | exact I] | exact HF']).
    - destruct (vf k v) as [cx|]; [|apply IH]. cbn [fst sset_pc sset_frame h_pc h_frame].
      destruct (Nat.eq_dec t t) as [_|Hc]; [|exfalso; apply Hc; reflexivity]. split; [apply start_cx_pf|].
      intros u f. destruct (Nat.eq_dec u t) as [->|]; [|apply HF]. intros E. inversion E; subst f. exact Ha.
  Qed.

  Lemma sgoto_pf (S0 : mstate) t q ls T : FRP T (h_frame S0) -> pcfact T q ->
    pcfact T (h_pc (fst (sgoto S0 t q ls)) t) /\ FRP T (h_frame (fst (sgoto S0 t q ls))).
  Proof.
    intros HF Hq. destruct q; cbn [sgoto fst sset_pc h_pc h_frame];
      try (destruct (Nat.eq_dec t t) as [_|Hc]; [|exfalso; apply Hc; reflexivity]; split; [exact Hq | exact HF]).
    destruct (h_frame S0 t) as [fr|] eqn:E.
    - apply svisits_pf; [exact HF | apply (HF t fr E)].
    - cbn [fst sset_pc h_pc h_frame]. destruct (Nat.eq_dec t t) as [_|Hc]; [|exfalso; apply Hc; reflexivity]. split; [exact I | exact HF].
  Qed.

  Lemma pf_goto (S0 : mstate) t q ls : FRP (h_tabs S0) (h_frame S0) -> pcfact (h_tabs S0) q ->
    pcfact (h_tabs (fst (sgoto S0 t q ls))) (h_pc (fst (sgoto S0 t q ls)) t) /\ FRP (h_tabs (fst (sgoto S0 t q ls))) (h_frame (fst (sgoto S0 t q ls))).
  Proof. intros HF Hq. rewrite htabs_goto. apply sgoto_pf; assumption. Qed.

  Lemma pf_visits (S0 : mstate) t rest vf after ls : FRP (h_tabs S0) (h_frame S0) -> pcfact (h_tabs S0) after ->
    pcfact (h_tabs (fst (svisits S0 t rest vf after ls))) (h_pc (fst (svisits S0 t rest vf after ls)) t)
    /\ FRP (h_tabs (fst (svisits S0 t rest vf after ls))) (h_frame (fst (svisits S0 t rest vf after ls))).
  Proof. intros HF Ha. rewrite htabs_visits. apply svisits_pf; assumption. Qed.

  Lemma FRP_move s T' : XL s -> XCS s -> FRP T' (h_frame s).
  Proof.
    intros HS HC u f E. apply (pcfact_nolock (h_tabs s)); [apply (xl_frame _ _ _ _ s HS u f E) | apply (xcs_fr s HC u f E)].
  Qed.

  Lemma words_nonempty (tb : mtable) b : tb_ok tb -> b < m_len tb -> 0 < length (swords_of tb b).
  Proof.
    intros [_ [B [C _]]] Hb. rewrite <- B in Hb. rewrite Forall_forall in C. pose proof (C _ (nth_In _ [] Hb)) as Hn.
    unfold swords_of. destruct (nth b (m_words tb) []); [contradiction | cbn; lia].
  Qed.

  Lemma scan_miss_emp_chain (tb : mtable) b bi k emp ne emp' ne' :
    scan_slots eqd k (ktop tb k) (sword_at tb b bi) (sbucket_slots nslots (schain_of tb b) bi) (bi * nslots) 0 emp ne = ScMiss emp' ne' ->
    match emp with Some e => e < length (schain_of tb b) /\ ms_key (nth e (schain_of tb b) empty_mslot) = None | None => True end ->
    match emp' with Some e => e < length (schain_of tb b) /\ ms_key (nth e (schain_of tb b) empty_mslot) = None | None => True end.
  Proof.
    intros E H. destruct (scan_miss_emp _ _ _ _ _ _ _ _ _ _ _ E) as [->|[j [A [B C]]]]; [exact H|].
    destruct (sbucket_nth nslots _ bi j empty_mslot A) as [D F]. rewrite B. rewrite F in C.
    replace (bi * nslots + 0 + j) with (bi * nslots + j) by lia. auto.
  Qed.

  (* the stores of the lock holder, seen from its facts *)
  Lemma kfacts_ent T tab k pos w' g : tab < length T -> shome (tabT T tab) k < length (m_words (tabT T tab)) ->
    pos / nslots < length (ktops T tab k) -> length (nth (pos / nslots) (ktops T tab k) []) = nslots ->
    w_top w' = supd_nth (nth (pos / nslots) (ktops T tab k) []) (pos mod nslots) g ->
    let T1 := supd_nth T tab (fun tb : mtable => sset_word tb (shome (tabT T tab) k) (pos / nslots) (fun _ => w')) in
    kchain T1 tab k = kchain T tab k /\ ktop (tabT T1 tab) k = ktop (tabT T tab) k
    /\ forall pos', topent (ktops T1 tab k) pos' = if Nat.eq_dec pos' pos then g (topent (ktops T tab k) pos) else topent (ktops T tab k) pos'.
  Proof.
    intros Htab Hb Hbi Hl Hw T1. unfold kchain, ktops, T1 in *. rewrite (tabT_supd_same _ _ _ Htab).
    destruct (set_ent_effect (tabT T tab) _ pos w' g Hb Hbi Hl Hw) as [E1 [E2 [E3 [E4 E5]]]].
    rewrite (shome_ext hash idx _ _ k E4 E5). unfold ktop. rewrite E5. auto.
  Qed.

  Lemma kfacts_slot T tab k pos g : tab < length T -> shome (tabT T tab) k < m_len (tabT T tab) ->
    let T1 := supd_nth T tab (fun tb : mtable => sset_slot tb (shome (tabT T tab) k) pos g) in
    kchain T1 tab k = supd_nth (kchain T tab k) pos g /\ ktop (tabT T1 tab) k = ktop (tabT T tab) k /\ ktops T1 tab k = ktops T tab k.
  Proof.
    intros Htab Hb T1. unfold kchain, ktops, T1 in *. rewrite (tabT_supd_same _ _ _ Htab).
    destruct (set_slot_effect (tabT T tab) _ pos g Hb) as [E1 [E2 [E3 E4]]].
    rewrite (shome_ext hash idx _ _ k E3 E4). unfold ktop. rewrite E4. auto.
  Qed.

  Lemma absent_supd (c : list mslot) pos g k : absent c k -> ms_key (g (nth pos c empty_mslot)) <> Some k -> absent (supd_nth c pos g) k.
  Proof.
    intros Ha Hg pos' Hp. rewrite supd_nth_length in Hp. rewrite nth_supd_nth. destruct (Nat.eq_dec pos' pos) as [->|]; [|apply Ha; exact Hp].
    apply Nat.ltb_lt in Hp. rewrite Hp. exact Hg.
  Qed.

  Lemma after_lock_pf (S1 : mstate) t tab b lk T : pcfact T (snd (after_lock hash idx tophash nslots nstripes S1 t tab b lk)).
  Proof.
    unfold after_lock. destruct lk; cbv zeta.
    - exact I.
    - match goal with |- context [scopy_chain ?a ?b ?c ?d ?e ?f] => destruct (scopy_chain a b c d e f) as [nt cp] end.
      cbn [snd pcfact]. match goal with |- context [Nat.ltb ?x ?y] => destruct (Nat.ltb x y) end; exact I.
    - cbn [snd pcfact]. match goal with |- context [Nat.ltb ?x ?y] => destruct (Nat.ltb x y) end; exact I.
  Qed.

  (* the last bucket of a well-shaped chain has been scanned *)
  Lemma last_bucket (c : list mslot) tops bi pos : shaped c tops -> Nat.ltb (S bi) (snbuckets nslots c) = false -> pos < length c -> pos < S bi * nslots.
  Proof.
    intros [_ A] H Hp. apply Nat.ltb_ge in H. unfold snbuckets in H. rewrite A in H. rewrite Nat.div_mul in H by lia. nia.
  Qed.

  Lemma XCS_pc_t s t p s' ls : XL s -> XT s -> XCS s -> h_pc s t = p -> sstep_pc s t p = Some (s', ls) ->
    pcfact (h_tabs s') (h_pc s' t) /\ FRP (h_tabs s') (h_frame s').
  Proof.
    intros HS HT HC Hp Hs. pose proof (xcs_pc s HC t) as Hf. rewrite Hp in Hf.
    pose proof (xl_pc _ _ _ _ s HS t) as Hpc. rewrite Hp in Hpc.
    pose proof (xcs_words s HC) as Hw.
    assert (HF : forall T', FRP T' (h_frame s)) by (intros T'; apply FRP_move; assumption).
    destruct p; cbn [XMachineS.sstep_pc] in Hs; cbv zeta in Hs;
      repeat match type of Hs with context [match ?x with _ => _ end] => destruct x eqn:? end;
      try discriminate Hs; apply some_fst_c in Hs; subst s'; cbn [pcfact XS_lock.PCI] in Hf, Hpc.
    all: try match goal with |- context [srun_cont ?kt] => destruct kt; cbn [srun_cont] end.
    all: try (apply pf_goto; [apply HF | cbn [h_tabs sset_tab sset_flags spush_tab sbump pcfact];
                                         repeat match goal with |- _ /\ _ => split end;
                                         try exact I; try tauto]).
    all: try (apply wgood_sword_at; apply (wgood_tabT _ _ Hw)).
    all: try (apply (pcfact_nolock (h_tabs s)); tauto).
    all: try (intros pos0 H0; cbn in H0; lia).
    all: try match goal with Hsc : scan_slots _ _ _ _ _ _ _ _ _ = _ |- _ => rename Hsc into Hscan end.
    all: try match goal with Hx : (S _ <? snbuckets _ _) = false |- _ => rename Hx into Hlast end.
    - (* the goroutine starts *)
      cbn [fst sset_pc h_tabs h_pc h_frame]. destruct (Nat.eq_dec t t) as [_|Hc]; [|exfalso; apply Hc; reflexivity]. split; [exact I | apply HF].
    - (* lockBucket's CAS succeeded *)
      match goal with Ha : after_lock _ _ _ _ _ ?S1 ?T ?TAB ?B ?LK = (_, _) |- _ =>
        pose proof (after_lock_ok hash idx tophash nslots nstripes S1 T TAB B LK) as [_ [A2 _]];
        pose proof (after_lock_pf S1 T TAB B LK (h_tabs m)) as A3; rewrite Ha in A2, A3; cbn [fst snd] in A2, A3 end.
      apply pf_goto; [rewrite A2; apply HF | exact A3].
    - (* unlockBucket loads the word *)
      rewrite ctops_nth. destruct Hpc as [[Hin1 Hin2] _].
      pose proof (words_nonempty _ b (tb_ok_tabT nslots nstripes Hslots _ tab (xl_tabs _ _ _ _ s HS)) Hin2) as Hn.
      apply Nat.ltb_lt in Hn. rewrite Hn. reflexivity.
    - (* unlockBucket of a Range *)
      apply pf_visits; [apply HF | apply (pcfact_nolock (h_tabs s)); tauto].
    - (* the scan found the key: update *)
      pose proof (holder_facts s t tab (shome (tabT (h_tabs s) tab) (sc_k cx)) HS HT HC ltac:(rewrite Hp; reflexivity)) as (Htab & Hle & Hb & Hch & Hok & Hwg); rewrite Hp in Hch; change (stab_at s tab) with (tabT (h_tabs s) tab) in *.
      destruct Hch as [Hsh _]. destruct (scan_found_chain _ _ _ _ _ _ _ _ Hsh Hscan) as (A & B & C & D & E).
      split; [exact A|]. split; [exact B|]. split; [exists n; exact C | symmetry; exact D].
    - (* ... delete *)
      pose proof (holder_facts s t tab (shome (tabT (h_tabs s) tab) (sc_k cx)) HS HT HC ltac:(rewrite Hp; reflexivity)) as (Htab & Hle & Hb & Hch & Hok & Hwg); rewrite Hp in Hch; change (stab_at s tab) with (tabT (h_tabs s) tab) in *.
      destruct Hch as [Hsh _]. destruct (scan_found_chain _ _ _ _ _ _ _ _ Hsh Hscan) as (A & B & C & D & E).
      split; [exact A|]. split; [exact B|]. split; [exists n; exact C | symmetry; exact D].
    - pose proof (holder_facts s t tab (shome (tabT (h_tabs s) tab) (sc_k cx)) HS HT HC ltac:(rewrite Hp; reflexivity)) as (Htab & Hle & Hb & Hch & Hok & Hwg); rewrite Hp in Hch; change (stab_at s tab) with (tabT (h_tabs s) tab) in *.
      destruct Hch as [Hsh _]. destruct (scan_found_chain _ _ _ _ _ _ _ _ Hsh Hscan) as (A & B & C & D & E). symmetry. exact E.
    - (* the scan goes on: the key is not in the bucket scanned *)
      pose proof (holder_facts s t tab (shome (tabT (h_tabs s) tab) (sc_k cx)) HS HT HC ltac:(rewrite Hp; reflexivity)) as (Htab & Hle & Hb & Hch & Hok & Hwg); rewrite Hp in Hch; change (stab_at s tab) with (tabT (h_tabs s) tab) in *.
      destruct Hf as [Hf1 Hf2]. intros pos0 H1 H2. destruct (Nat.lt_ge_cases pos0 (bi * nslots)) as [L|L]; [apply (Hf1 pos0 L H2)|].
      apply (scan_miss_chain _ tab _ bi (sc_k cx) _ _ _ _ _ Hch eq_refl eq_refl Hscan pos0); [lia | exact H2].
    - destruct Hf as [Hf1 Hf2]. apply (scan_miss_emp_chain _ _ _ _ _ _ _ _ Hscan Hf2).
    - (* the scan is over: insert into the first slot with a nil key *)
      pose proof (holder_facts s t tab (shome (tabT (h_tabs s) tab) (sc_k cx)) HS HT HC ltac:(rewrite Hp; reflexivity)) as (Htab & Hle & Hb & Hch & Hok & Hwg); rewrite Hp in Hch; change (stab_at s tab) with (tabT (h_tabs s) tab) in *.
      destruct Hf as [Hf1 Hf2]. pose proof (scan_miss_emp_chain _ _ _ _ _ _ _ _ Hscan Hf2) as [A B]. cbn beta iota in A, B.
      destruct (nil_key_free _ tab _ _ n Hch eq_refl A B) as [C D].
      split; [exact A|]. split; [exact B|]. split; [symmetry; exact C | exact D].
    - pose proof (holder_facts s t tab (shome (tabT (h_tabs s) tab) (sc_k cx)) HS HT HC ltac:(rewrite Hp; reflexivity)) as (Htab & Hle & Hb & Hch & Hok & Hwg); rewrite Hp in Hch; change (stab_at s tab) with (tabT (h_tabs s) tab) in *.
      destruct Hf as [Hf1 Hf2]. intros pos0 H2. destruct (Nat.lt_ge_cases pos0 (bi * nslots)) as [L|L]; [apply (Hf1 pos0 L H2)|].
      apply (scan_miss_chain _ tab _ bi (sc_k cx) _ _ _ _ _ Hch eq_refl eq_refl Hscan pos0); [|exact H2].
      split; [exact L|]. destruct Hch as [Hsh _]. apply (last_bucket _ _ bi pos0 Hsh Hlast H2).
    - pose proof (holder_facts s t tab (shome (tabT (h_tabs s) tab) (sc_k cx)) HS HT HC ltac:(rewrite Hp; reflexivity)) as (Htab & Hle & Hb & Hch & Hok & Hwg); rewrite Hp in Hch; change (stab_at s tab) with (tabT (h_tabs s) tab) in *.
      destruct Hf as [Hf1 Hf2]. intros pos0 H2. destruct (Nat.lt_ge_cases pos0 (bi * nslots)) as [L|L]; [apply (Hf1 pos0 L H2)|].
      apply (scan_miss_chain _ tab _ bi (sc_k cx) _ _ _ _ _ Hch eq_refl eq_refl Hscan pos0); [|exact H2].
      split; [exact L|]. destruct Hch as [Hsh _]. apply (last_bucket _ _ bi pos0 Hsh Hlast H2).
    - (* D1 -> D2 *)
      pose proof (holder_facts s t tab (shome (tabT (h_tabs s) tab) (sc_k cx)) HS HT HC ltac:(rewrite Hp; reflexivity)) as (Htab & Hle & Hb & Hch & Hok & Hwg); rewrite Hp in Hch; change (stab_at s tab) with (tabT (h_tabs s) tab) in *.
      destruct Hf as [[F1 [F2 [F3 F4]]] [F5 F6]]. destruct Hok as [Hok1 [Hok2 _]]. pose proof Hch as [[_ Hsh2] _].
      assert (Hbi : pos / nslots < length (ktops (h_tabs s) tab (sc_k cx))) by (unfold kchain, ktops in *; apply Nat.div_lt_upper_bound; lia).
      destruct (kfacts_ent (h_tabs s) tab (sc_k cx) pos (erase_top w (pos mod nslots)) (fun e => (false, snd e)) Htab ltac:(lia) Hbi) as [E1 [E2 E3]];
        [rewrite <- F5; apply (proj1 F6) | cbn [erase_top w_top]; rewrite F5; reflexivity |].
      unfold slot_is. rewrite E1, E3. destruct (Nat.eq_dec pos pos) as [_|Hc]; [|exfalso; apply Hc; reflexivity].
      split; [exact F1|]. split; [exact F2|]. split; [exact F3 | reflexivity].
    - (* D2 -> D3 *)
      pose proof (holder_facts s t tab (shome (tabT (h_tabs s) tab) (sc_k cx)) HS HT HC ltac:(rewrite Hp; reflexivity)) as (Htab & Hle & Hb & Hch & Hok & Hwg); rewrite Hp in Hch; change (stab_at s tab) with (tabT (h_tabs s) tab) in *.
      destruct Hf as [F1 [F2 [F3 F4]]].
      destruct (kfacts_slot (h_tabs s) tab (sc_k cx) pos (fun sl => {| ms_key := ms_key sl; ms_val := None |}) Htab Hb) as [E1 [E2 E3]].
      unfold slot_is. rewrite E1, E3, supd_nth_length, nth_supd_nth. destruct (Nat.eq_dec pos pos) as [_|Hc]; [|exfalso; apply Hc; reflexivity].
      pose proof F1 as F1'. apply Nat.ltb_lt in F1'. rewrite F1'. cbn [ms_key ms_val].
      split; [exact F1|]. split; [exact F2|]. split; [reflexivity | exact F4].
    - (* I0 -> I1: the word of the slot's bucket *)
      pose proof (holder_facts s t tab (shome (tabT (h_tabs s) tab) (sc_k cx)) HS HT HC ltac:(rewrite Hp; reflexivity)) as (Htab & Hle & Hb & Hch & Hok & Hwg); rewrite Hp in Hch; change (stab_at s tab) with (tabT (h_tabs s) tab) in *.
      destruct Hf as [[F1 _] _]. pose proof Hch as [[_ Hsh2] _]. unfold ktops, kchain in *. rewrite ctops_nth.
      assert (Hbi : pos / nslots < length (swords_of (tabT (h_tabs s) tab) (shome (tabT (h_tabs s) tab) (sc_k cx))))
        by (unfold ctops in Hsh2; rewrite map_length in Hsh2; apply Nat.div_lt_upper_bound; lia).
      apply Nat.ltb_lt in Hbi. rewrite Hbi. reflexivity.
    - (* I1 -> I2 *)
      pose proof (holder_facts s t tab (shome (tabT (h_tabs s) tab) (sc_k cx)) HS HT HC ltac:(rewrite Hp; reflexivity)) as (Htab & Hle & Hb & Hch & Hok & Hwg); rewrite Hp in Hch; change (stab_at s tab) with (tabT (h_tabs s) tab) in *.
      destruct Hf as [[F1 [F2 [F3 F4]]] [Fa [F6 F7]]]. destruct Hok as [Hok1 [Hok2 _]]. pose proof Hch as [[_ Hsh2] _].
      assert (Hbi : pos / nslots < length (ktops (h_tabs s) tab (sc_k cx))) by (unfold kchain, ktops in *; apply Nat.div_lt_upper_bound; lia).
      destruct (kfacts_ent (h_tabs s) tab (sc_k cx) pos (store_top w (pos mod nslots) (tophash (hash (sc_k cx) (m_seed (tabT (h_tabs s) tab)))))
                           (fun _ => (true, ktop (tabT (h_tabs s) tab) (sc_k cx))) Htab ltac:(lia) Hbi) as [E1 [E2 E3]];
        [rewrite <- F6; apply (proj1 F7) | cbn [store_top w_top]; rewrite F6; reflexivity |].
      unfold slot_is. rewrite E1, E2, E3. destruct (Nat.eq_dec pos pos) as [_|Hc]; [|exfalso; apply Hc; reflexivity].
      split; [exact F1|]. split; [exact F2|]. split; [exact F3 | reflexivity].
    - pose proof (holder_facts s t tab (shome (tabT (h_tabs s) tab) (sc_k cx)) HS HT HC ltac:(rewrite Hp; reflexivity)) as (Htab & Hle & Hb & Hch & Hok & Hwg); rewrite Hp in Hch; change (stab_at s tab) with (tabT (h_tabs s) tab) in *.
      destruct Hf as [[F1 [F2 [F3 F4]]] [Fa [F6 F7]]]. destruct Hok as [Hok1 [Hok2 _]]. pose proof Hch as [[_ Hsh2] _].
      assert (Hbi : pos / nslots < length (ktops (h_tabs s) tab (sc_k cx))) by (unfold kchain, ktops in *; apply Nat.div_lt_upper_bound; lia).
      destruct (kfacts_ent (h_tabs s) tab (sc_k cx) pos (store_top w (pos mod nslots) (tophash (hash (sc_k cx) (m_seed (tabT (h_tabs s) tab)))))
                           (fun _ => (true, ktop (tabT (h_tabs s) tab) (sc_k cx))) Htab ltac:(lia) Hbi) as [E1 [E2 E3]];
        [rewrite <- F6; apply (proj1 F7) | cbn [store_top w_top]; rewrite F6; reflexivity |].
      rewrite E1. exact Fa.
    - (* I2 -> I3 *)
      pose proof (holder_facts s t tab (shome (tabT (h_tabs s) tab) (sc_k cx)) HS HT HC ltac:(rewrite Hp; reflexivity)) as (Htab & Hle & Hb & Hch & Hok & Hwg); rewrite Hp in Hch; change (stab_at s tab) with (tabT (h_tabs s) tab) in *.
      destruct Hf as [[F1 [F2 [F3 F4]]] Fa].
      destruct (kfacts_slot (h_tabs s) tab (sc_k cx) pos (fun sl => {| ms_key := ms_key sl; ms_val := Some (nv, h_alloc s) |}) Htab Hb) as [E1 [E2 E3]].
      unfold slot_is. rewrite E1, E2, E3, supd_nth_length, nth_supd_nth. destruct (Nat.eq_dec pos pos) as [_|Hc]; [|exfalso; apply Hc; reflexivity].
      pose proof F1 as F1'. apply Nat.ltb_lt in F1'. rewrite F1'. cbn [ms_key ms_val].
      split; [exact F1|]. split; [exact F2|]. split; [exists (h_alloc s); reflexivity | exact F4].
    - pose proof (holder_facts s t tab (shome (tabT (h_tabs s) tab) (sc_k cx)) HS HT HC ltac:(rewrite Hp; reflexivity)) as (Htab & Hle & Hb & Hch & Hok & Hwg); rewrite Hp in Hch; change (stab_at s tab) with (tabT (h_tabs s) tab) in *.
      destruct Hf as [[F1 [F2 [F3 F4]]] Fa].
      destruct (kfacts_slot (h_tabs s) tab (sc_k cx) pos (fun sl => {| ms_key := ms_key sl; ms_val := Some (nv, h_alloc s) |}) Htab Hb) as [E1 [E2 E3]].
      rewrite E1. apply absent_supd; [exact Fa|]. cbn [ms_key]. rewrite F2. discriminate.
  Qed.


  (* ---------------- the other threads, and the chains the stepping thread does not hold ---------------- *)

  Hypothesis Hidx : forall h len, 0 < len -> idx h len < len.
  Hypothesis Hminlen : 0 < minlen.

  Lemma holds_le n T (p : spc) tab b : tabs_le n p -> sholdsT T p = Some (tab, b) -> tab <= n.
  Proof. destruct p; cbn [tabs_le XS_lock.sholdsT]; intros H E; try discriminate E; inversion E; subst; tauto. Qed.

  Lemma same_bucket_step s t p s' ls tab b : XL s -> XT s -> XCS s -> h_pc s t = p -> sstep_pc s t p = Some (s', ls) ->
    tab <= h_cur s -> sholds s p <> Some (tab, b) ->
    same_bucket b (tabT (h_tabs s) tab) (tabT (h_tabs s') tab).
  Proof.
    intros HS HT HC Hp Hs Hle Hnh.
    pose proof (sstep_pc_eff eqd hash idx tophash nslots seeds grow_needed shrink_policy nstripes minlen grow_only
                  Hslots Hidx Hminlen s t p s' ls HS Hp Hs) as HE.
    assert (Htab : tab < length (h_tabs s)) by (pose proof (xt_cur s HT); lia).
    destruct (se_ext _ _ _ _ _ _ _ HE) as [_ X]. destruct (X tab Htab) as [E1 E2]. split; [exact E1 | split; [exact E2|]].
    destruct (step_cellsw_frame s t p s' ls HS HC Hp Hs tab b Htab) as [C|[C|C]]; [exact C | contradiction |].
    exfalso. destruct (xt_pc s HT t) as [_ Hn]. rewrite Hp in Hn. destruct (Hn tab C). lia.
  Qed.

  Lemma XCS_pc_oth s t p s' ls u : XL s -> XT s -> XCS s -> h_pc s t = p -> sstep_pc s t p = Some (s', ls) -> u <> t ->
    pcfact (h_tabs s') (h_pc s' u).
  Proof.
    intros HS HT HC Hp Hs Hne.
    pose proof (sstep_pc_eff eqd hash idx tophash nslots seeds grow_needed shrink_policy nstripes minlen grow_only
                  Hslots Hidx Hminlen s t p s' ls HS Hp Hs) as HE.
    assert (Hc : pcfact (h_tabs s') (h_pc s u)).
    { apply (pcfact_ext (h_tabs s) (h_tabs s') u); [apply (xl_pc _ _ _ _ s HS) | | apply (xcs_pc s HC)].
      intros tab b Hh. apply (same_bucket_step s t p s' ls tab b HS HT HC Hp Hs).
      - destruct (xt_pc s HT u) as [Hle _]. apply (holds_le _ _ _ _ _ Hle Hh).
      - intros C. apply Hne. apply (lock_mutex hash idx nslots nstripes s u t tab b HS); [exact Hh | rewrite Hp; exact C]. }
    destruct (se_oth _ _ _ _ _ _ _ HE u Hne) as [E|E]; rewrite E; [exact Hc | apply swake_pcfact; exact Hc].
  Qed.

  Lemma eqp_eq a b a' b' : eqp a b a' b' = true -> a' = a /\ b' = b.
  Proof. unfold eqp. intros H. apply andb_true_iff in H. destruct H as [H1 H2]. apply Nat.eqb_eq in H1, H2. auto. Qed.

  Lemma swake_wit tab (q : spc) pos : witpos tab q = Some pos -> swake q = q.
  Proof. destruct q; cbn; intros E; try discriminate E; reflexivity. Qed.

  Lemma XCS_ch_other s t p s' ls tab b : XL s -> XT s -> XCS s -> h_pc s t = p -> sstep_pc s t p = Some (s', ls) ->
    tab <= h_cur s -> b < m_len (tabT (h_tabs s) tab) -> sholds s p <> Some (tab, b) ->
    chain_ok (tabT (h_tabs s') tab) tab b (holder_pc s' tab b).
  Proof.
    intros HS HT HC Hp Hs Hle Hb Hnh.
    pose proof (sstep_pc_eff eqd hash idx tophash nslots seeds grow_needed shrink_policy nstripes minlen grow_only
                  Hslots Hidx Hminlen s t p s' ls HS Hp Hs) as HE.
    destruct (same_bucket_step s t p s' ls tab b HS HT HC Hp Hs Hle Hnh) as [E1 [E2 E3]].
    apply (chain_ok_ext (tabT (h_tabs s) tab)); [exact E3 | exact E1 | exact E2 |].
    apply (chain_ok_hp _ _ _ (holder_pc s tab b)); [|apply (xcs_ch s HC tab b Hle Hb)].
    intros q pos Hq Hw. unfold holder_pc in Hq. destruct (lock_of s tab b) as [u|] eqn:El; [|discriminate Hq].
    cbn [option_map] in Hq. inversion Hq; subst q. clear Hq.
    pose proof (xl_lockB _ _ _ _ s HS u tab b El) as Hu.
    assert (Hne : u <> t) by (intros ->; apply Hnh; rewrite <- Hp; exact Hu).
    assert (El' : lock_of s' tab b = Some u).
    { destruct (se_lock _ _ _ _ _ _ _ HE) as [_ L | tb bb L1 L2 L3 L4 | tb bb L1 L2 L4].
      - rewrite L. exact El.
      - rewrite L4. destruct (eqp tb bb tab b) eqn:Eq; [|exact El]. apply eqp_eq in Eq. destruct Eq as [-> ->]. congruence.
      - rewrite L4. destruct (eqp tb bb tab b) eqn:Eq; [|exact El]. apply eqp_eq in Eq. destruct Eq as [-> ->].
        exfalso. apply Hnh. rewrite <- Hp. exact L1. }
    exists (h_pc s u). split; [|exact Hw]. unfold holder_pc. rewrite El'. cbn [option_map].
    destruct (se_oth _ _ _ _ _ _ _ HE u Hne) as [E|E]; rewrite E; [reflexivity | rewrite (swake_wit tab _ pos Hw); reflexivity].
  Qed.


  (* ---------------- copyBucket: appendToBucket on the private new table ---------------- *)

  Lemma map_supd_comm {X Y} (h : X -> Y) (l : list X) i f f' : (forall x, h (f x) = f' (h x)) -> map h (supd_nth l i f) = supd_nth (map h l) i f'.
  Proof. intros H. revert i. induction l as [|a r IH]; intros [|i]; cbn [supd_nth map]; try reflexivity; [rewrite H | rewrite IH]; reflexivity. Qed.

  Lemma tkey_intro (tb : mtable) b pos k : b < m_len tb -> pos < length (schain_of tb b) ->
    ms_key (nth pos (schain_of tb b) empty_mslot) = Some k -> tkey tb k.
  Proof. intros. exists b, pos. auto. Qed.

  Lemma clean_nil_free (tb : mtable) new b pos : chain_ok tb new b None -> pos < length (schain_of tb b) ->
    ms_key (nth pos (schain_of tb b) empty_mslot) = None ->
    ms_val (nth pos (schain_of tb b) empty_mslot) = None /\ fst (topent (ctops tb b) pos) = false.
  Proof.
    intros [_ [_ Hsl]] Hp Hk. destruct (Hsl _ Hp) as [[_ F]|[[k' [v [id [F1 _]]]]|[p0 [F1 _]]]]; [exact F | congruence | discriminate F1].
  Qed.

  Lemma first_nil_at (c : list mslot) pos0 pos : first_nil_key c pos0 = Some pos ->
    pos0 <= pos < pos0 + length c /\ ms_key (nth (pos - pos0) c empty_mslot) = None.
  Proof.
    revert pos0. induction c as [|x r IH]; intros pos0; cbn [first_nil_key length]; [discriminate|].
    destruct (ms_key x) eqn:E.
    - intros H. destruct (IH _ H) as [A B]. split; [lia|]. replace (pos - pos0) with (S (pos - S pos0)) by lia. exact B.
    - intros H. inversion H; subst. split; [lia|]. rewrite Nat.sub_diag. exact E.
  Qed.

  Lemma sappend_clean (tb : mtable) new k v id : clean_table tb new -> tb_ok tb -> tb_wgood tb -> ~ tkey tb k ->
    clean_table (sappend nslots tb (shome tb k) (ktop tb k) k (Some (v, id))) new
    /\ (forall k', tkey (sappend nslots tb (shome tb k) (ktop tb k) k (Some (v, id))) k' -> tkey tb k' \/ k' = k).
  Proof.
    intros Hcl Hok Hwg Hnk. pose proof (shome_lt hash idx Hidx tb k Hok) as Hb. destruct Hok as [Hok1 [Hok2 _]].
    set (b := shome tb k) in *. pose proof (Hcl b Hb) as Hch.
    assert (Habs : absent (schain_of tb b) k) by (intros pos Hp Hk; apply Hnk; exists b, pos; auto).
    unfold sappend. destruct (first_nil_key (schain_of tb b) 0) as [pos|] eqn:E.
    - destruct (first_nil_at _ _ _ E) as [A B]. rewrite Nat.sub_0_r in B. assert (Hp : pos < length (schain_of tb b)) by lia.
      destruct (clean_nil_free tb new b pos Hch Hp B) as [C D].
      set (cell := {| ms_key := Some k; ms_val := Some (v, id) |}).
      set (tb' := sset_word (sset_slot tb b pos (fun _ => cell)) b (pos / nslots) (fun w => store_top w (pos mod nslots) (ktop tb k))).
      assert (Hc : forall b', schain_of tb' b' = if Nat.eq_dec b' b then supd_nth (schain_of tb b) pos (fun _ => cell) else schain_of tb b').
      { intros b'. unfold tb', schain_of, sset_word, sset_words, sset_slot, sset_chain. cbn [m_chains]. rewrite nth_supd_nth.
        destruct (Nat.eq_dec b' b) as [->|]; [|reflexivity]. unfold m_len in Hb. apply Nat.ltb_lt in Hb. rewrite Hb. reflexivity. }
      assert (Ht : forall b', ctops tb' b' = if Nat.eq_dec b' b
                                              then supd_nth (ctops tb b) (pos / nslots) (fun l => supd_nth l (pos mod nslots) (fun _ => (true, ktop tb k)))
                                              else ctops tb b').
      { intros b'. unfold tb', ctops, swords_of, sset_word, sset_words, sset_slot, sset_chain. cbn [m_words]. rewrite nth_supd_nth.
        destruct (Nat.eq_dec b' b) as [->|]; [|reflexivity]. rewrite Hok2. apply Nat.ltb_lt in Hb. rewrite Hb.
        apply map_supd_comm. intros w. reflexivity. }
      assert (Hl : m_len tb' = m_len tb) by (unfold tb', sset_word, sset_words, sset_slot, sset_chain, m_len; cbn [m_chains]; apply supd_nth_length).
      assert (Hs : m_seed tb' = m_seed tb) by reflexivity.
      pose proof Hch as [[_ Hsh2] _].
      assert (Hbi : pos / nslots < length (ctops tb b)) by (apply Nat.div_lt_upper_bound; lia).
      assert (Hln : length (nth (pos / nslots) (ctops tb b) []) = nslots).
      { rewrite ctops_nth. unfold ctops in Hbi. rewrite map_length in Hbi. apply Nat.ltb_lt in Hbi. rewrite Hbi. apply (wgood_sword_at tb b (pos / nslots) Hwg). }
      split.
      + intros b' Hb'. rewrite Hl in Hb'. destruct (Nat.eq_dec b' b) as [->|Hne].
        * apply (chain_ok_upd tb tb' new b None None pos Hch Hl Hs); rewrite ?Hc, ?Ht; (destruct (Nat.eq_dec b b) as [_|Hcc]; [|exfalso; apply Hcc; reflexivity]).
          -- apply supd_nth_length.
          -- apply supd_nth_length.
          -- intros pos' Hne. rewrite nth_supd_nth, topent_upd by (try exact Hbi; rewrite Hln; apply Nat.mod_upper_bound; lia).
             destruct (Nat.eq_dec pos' pos); [contradiction | split; reflexivity].
          -- rewrite nth_supd_nth, topent_upd by (try exact Hbi; rewrite Hln; apply Nat.mod_upper_bound; lia).
             destruct (Nat.eq_dec pos pos) as [_|Hcc]; [|exfalso; apply Hcc; reflexivity]. pose proof Hp as Hp'. apply Nat.ltb_lt in Hp'. rewrite Hp'.
             right. left. exists k, v, id. unfold ktop. rewrite Hs, (shome_ext hash idx _ _ k Hl Hs). auto.
          -- intros p0 pos' E0. discriminate E0.
          -- intros k0 Hk0. right. rewrite nth_supd_nth in Hk0. destruct (Nat.eq_dec pos pos) as [_|Hcc]; [|exfalso; apply Hcc; reflexivity].
             pose proof Hp as Hp'. apply Nat.ltb_lt in Hp'. rewrite Hp' in Hk0. cbn [cell ms_key] in Hk0. inversion Hk0; subst k0. exact Habs.
        * apply (chain_ok_ext tb); [unfold cellsw; rewrite Hc, Ht; destruct (Nat.eq_dec b' b); [contradiction | reflexivity] | exact Hl | exact Hs | apply Hcl; exact Hb'].
      + intros k' [b' [pos' [H1 [H2 H3]]]]. rewrite Hl in H1. rewrite Hc in H2, H3. destruct (Nat.eq_dec b' b) as [->|Hne].
        * rewrite supd_nth_length in H2. rewrite nth_supd_nth in H3. destruct (Nat.eq_dec pos' pos) as [->|Hnp].
          -- pose proof Hp as Hp'. apply Nat.ltb_lt in Hp'. rewrite Hp' in H3. cbn [cell ms_key] in H3. inversion H3. right. reflexivity.
          -- left. exists b, pos'. auto.
        * left. exists b', pos'. auto.
    - set (cell := {| ms_key := Some k; ms_val := Some (v, id) |}).
      set (tb' := sset_words (sset_chain tb b (fun c => c ++ cell :: repeat empty_mslot (nslots - 1))) b (fun ws => ws ++ [store_top (empty_bword nslots) 0 (ktop tb k)])).
      assert (Hc : forall b', schain_of tb' b' = if Nat.eq_dec b' b then schain_of tb b ++ cell :: repeat empty_mslot (nslots - 1) else schain_of tb b').
      { intros b'. unfold tb', schain_of, sset_words, sset_chain. cbn [m_chains]. rewrite nth_supd_nth.
        destruct (Nat.eq_dec b' b) as [->|]; [|reflexivity]. unfold m_len in Hb. apply Nat.ltb_lt in Hb. rewrite Hb. reflexivity. }
      assert (Ht : forall b', ctops tb' b' = if Nat.eq_dec b' b then ctops tb b ++ [w_top (store_top (empty_bword nslots) 0 (ktop tb k))] else ctops tb b').
      { intros b'. unfold tb', ctops, swords_of, sset_words, sset_chain. cbn [m_words]. rewrite nth_supd_nth.
        destruct (Nat.eq_dec b' b) as [->|]; [|reflexivity]. rewrite Hok2. apply Nat.ltb_lt in Hb. rewrite Hb. rewrite map_app. reflexivity. }
      assert (Hl : m_len tb' = m_len tb) by (unfold tb', sset_words, sset_chain, m_len; cbn [m_chains]; apply supd_nth_length).
      assert (Hs : m_seed tb' = m_seed tb) by reflexivity.
      split.
      + intros b' Hb'. rewrite Hl in Hb'. destruct (Nat.eq_dec b' b) as [->|Hne].
        * eapply (chain_ok_app tb tb' new b None None cell _ k v id Hch Hl Hs); rewrite ?Hc, ?Ht; try (destruct (Nat.eq_dec b b) as [_|Hcc]; [|exfalso; apply Hcc; reflexivity]); try reflexivity.
          -- cbn [store_top empty_bword w_top]. destruct nslots; [lia | reflexivity].
          -- intros i Hi. cbn [store_top empty_bword w_top]. destruct nslots as [|n]; [lia|]. destruct i; [lia|]. cbn [repeat supd_nth nth].
             destruct (Nat.lt_ge_cases i n); [rewrite nth_repeat | rewrite nth_overflow by (rewrite repeat_length; assumption)]; reflexivity.
          -- exact Habs.
          -- intros p0 pos' E0. discriminate E0.
        * apply (chain_ok_ext tb); [unfold cellsw; rewrite Hc, Ht; destruct (Nat.eq_dec b' b); [contradiction | reflexivity] | exact Hl | exact Hs | apply Hcl; exact Hb'].
      + intros k' [b' [pos' [H1 [H2 H3]]]]. rewrite Hl in H1. rewrite Hc in H2, H3. destruct (Nat.eq_dec b' b) as [->|Hne]; [|left; exists b', pos'; auto].
        destruct (Nat.lt_ge_cases pos' (length (schain_of tb b))) as [L|L].
        * rewrite app_nth1 in H3 by exact L. left. exists b, pos'. auto.
        * rewrite app_nth2 in H3 by exact L. destruct (pos' - length (schain_of tb b)) as [|j]; [cbn in H3; inversion H3; right; reflexivity|].
          cbn [nth] in H3. exfalso. destruct (Nat.lt_ge_cases j (nslots - 1)); [rewrite nth_repeat in H3 | rewrite nth_overflow in H3 by (rewrite repeat_length; assumption)]; discriminate H3.
  Qed.


  (* ---------------- copyBucket: the whole chain ---------------- *)

  Definition inkeys (l : list mslot) (k : K) : Prop := exists sl, In sl l /\ ms_key sl = Some k.

  Fixpoint ukeys (l : list mslot) : Prop :=
    match l with
    | [] => True
    | sl :: r => (forall k, ms_key sl = Some k -> ~ inkeys r k) /\ ukeys r
    end.

  Definition allfull (l : list mslot) : Prop := forall sl k, In sl l -> ms_key sl = Some k -> exists v id, ms_val sl = Some (v, id).

  Lemma uniq_ukeys (c : list mslot) : uniq c -> ukeys c.
  Proof.
    induction c as [|x r IH]; intros Hu; [exact I|]. split.
    - intros k Hk [sl [Hin Hs]]. destruct (In_nth _ _ empty_mslot Hin) as [j [Hj Ej]].
      assert (E : 0 = S j); [|discriminate E]. apply (Hu 0 (S j) k); cbn [length nth]; try lia; [exact Hk | rewrite Ej; exact Hs].
    - apply IH. intros p1 p2 k H1 H2 K1 K2. assert (E : S p1 = S p2); [|lia]. apply (Hu (S p1) (S p2) k); cbn [length nth]; try lia; assumption.
  Qed.

  Lemma scopy_clean src : forall (dst : mtable) z new, clean_table dst new -> tb_ok dst -> tb_wgood dst ->
    allfull src -> ukeys src -> (forall k, inkeys src k -> ~ tkey dst k) ->
    let r := fst (fold_left (fun (acc : mtable * Z) s =>
                    match ms_key s with
                    | Some k => let h := hash k (m_seed (fst acc)) in
                                (sappend nslots (fst acc) (idx h (m_len (fst acc))) (tophash h) k (ms_val s), (snd acc + 1)%Z)
                    | None => acc end) src (dst, z)) in
    clean_table r new /\ (forall k, tkey r k -> tkey dst k \/ inkeys src k) /\ m_len r = m_len dst /\ m_seed r = m_seed dst.
  Proof.
    induction src as [|sl r IH]; intros dst z new Hcl Hok Hwg Hfull Hu Hdis; cbn [fold_left fst].
    - split; [exact Hcl|]. split; [intros k H; left; exact H | split; reflexivity].
    - destruct Hu as [Hu1 Hu2].
      assert (Hfull' : allfull r) by (intros sl0 k0 Hin; apply Hfull; right; exact Hin).
      destruct (ms_key sl) as [k|] eqn:Ek.
      + cbv zeta. cbn [fst snd]. destruct (Hfull sl k (or_introl eq_refl) Ek) as [v [id Ev]]. rewrite Ev.
        assert (Hnk : ~ tkey dst k) by (apply Hdis; exists sl; split; [left; reflexivity | exact Ek]).
        destruct (sappend_clean dst new k v id Hcl Hok Hwg Hnk) as [C1 C2].
        change (idx (hash k (m_seed dst)) (m_len dst)) with (shome dst k). change (tophash (hash k (m_seed dst))) with (ktop dst k).
        set (dst1 := sappend nslots dst (shome dst k) (ktop dst k) k (Some (v, id))) in *.
        destruct (neutral_sappend nslots Hslots dst (shome dst k) (ktop dst k) k (Some (v, id))) as [N1 [N2 [_ N4]]].
        specialize (IH dst1 (z + 1)%Z new C1 (N4 Hok) (tb_wgood_sappend dst _ _ k _ (Htop _ _) Hwg) Hfull' Hu2).
        destruct IH as [I1 [I2 [I3 I4]]].
        * intros k' Hin Ht. destruct (C2 k' Ht) as [G| ->].
          -- apply (Hdis k'); [|exact G]. destruct Hin as [sl0 [A B]]. exists sl0. split; [right; exact A | exact B].
          -- apply (Hu1 k eq_refl). exact Hin.
        * split; [exact I1|]. split; [|split; [exact (eq_trans I3 N1) | exact (eq_trans I4 N2)]]. intros k' Ht. destruct (I2 k' Ht) as [G|[sl0 [A B]]].
          -- destruct (C2 k' G) as [G'| ->]; [left; exact G' | right; exists sl; split; [left; reflexivity | exact Ek]].
          -- right. exists sl0. split; [right; exact A | exact B].
      + destruct (IH dst z new Hcl Hok Hwg Hfull' Hu2) as [I1 [I2 I3]].
        * intros k' [sl0 [A B]]. apply Hdis. exists sl0. split; [right; exact A | exact B].
        * split; [exact I1|]. split; [|exact I3]. intros k' Ht. destruct (I2 k' Ht) as [G|[sl0 [A B]]]; [left; exact G|].
          right. exists sl0. split; [right; exact A | exact B].
  Qed.

  (* a chain nobody holds: its slots with a key are complete, in their home chain *)
  Lemma free_chain_facts (tb : mtable) tab b : chain_ok tb tab b None ->
    allfull (schain_of tb b) /\ ukeys (schain_of tb b) /\ (forall k, inkeys (schain_of tb b) k -> shome tb k = b).
  Proof.
    intros [_ [Hu Hsl]]. split; [|split; [apply uniq_ukeys; exact Hu|]].
    - intros sl k Hin Hk. destruct (In_nth _ _ empty_mslot Hin) as [j [Hj Ej]]. specialize (Hsl j Hj). rewrite Ej in Hsl.
      destruct Hsl as [[F _]|[[k' [v [id [F1 [F2 _]]]]]|[p0 [F1 _]]]]; [congruence | exists v, id; exact F2 | discriminate F1].
    - intros k [sl [Hin Hk]]. destruct (In_nth _ _ empty_mslot Hin) as [j [Hj Ej]]. specialize (Hsl j Hj). rewrite Ej in Hsl.
      destruct Hsl as [[F _]|[[k' [v [id [F1 [F2 [F3 F4]]]]]]|[p0 [F1 _]]]]; [congruence | congruence | discriminate F1].
  Qed.

  Lemma tkey_same (tb tb' : mtable) k : m_len tb' = m_len tb -> (forall b, schain_of tb' b = schain_of tb b) -> tkey tb' k -> tkey tb k.
  Proof. intros Hl Hc [b [pos [H1 [H2 H3]]]]. rewrite Hl in H1. rewrite Hc in H2, H3. exists b, pos. auto. Qed.

  Lemma clean_table_ext (tb tb' : mtable) new : m_len tb' = m_len tb -> m_seed tb' = m_seed tb -> (forall b, cellsw tb' b = cellsw tb b) ->
    clean_table tb new -> clean_table tb' new.
  Proof. intros Hl Hs Hc H b Hb. rewrite Hl in Hb. apply (chain_ok_ext tb); auto. Qed.

  Lemma clean_new len seed new : clean_table (new_mtable nslots nstripes len seed : mtable) new.
  Proof.
    intros b Hb. unfold m_len, new_mtable in Hb. cbn [m_chains] in Hb. rewrite repeat_length in Hb.
    assert (Hc : schain_of (new_mtable nslots nstripes len seed : mtable) b = repeat empty_mslot nslots).
    { unfold schain_of, new_mtable. cbn [m_chains]. rewrite (nth_indep _ [] (repeat empty_mslot nslots)) by (rewrite repeat_length; exact Hb). apply nth_repeat. }
    assert (Ht : ctops (new_mtable nslots nstripes len seed : mtable) b = [repeat (false, 0%N) nslots]).
    { unfold ctops, swords_of, new_mtable. cbn [m_words]. rewrite (nth_indep _ [] [empty_bword nslots]) by (rewrite repeat_length; exact Hb). rewrite nth_repeat. reflexivity. }
    assert (Hn : forall pos, nth pos (repeat empty_mslot nslots) empty_mslot = empty_mslot).
    { intros pos. destruct (Nat.lt_ge_cases pos nslots); [apply nth_repeat | apply nth_overflow; rewrite repeat_length; assumption]. }
    unfold chain_ok. cbv zeta. rewrite Hc, Ht. split; [|split].
    - split; [discriminate | rewrite repeat_length; cbn; lia].
    - intros p1 p2 k _ _ K1. rewrite Hn in K1. discriminate K1.
    - intros pos Hp. rewrite repeat_length in Hp. left. rewrite Hn. split; [reflexivity|]. split; [reflexivity|].
      unfold topent. rewrite Nat.div_small by exact Hp. cbn [nth]. rewrite Nat.mod_small by exact Hp. rewrite nth_repeat. reflexivity.
  Qed.

  Lemma tkey_new len seed k : ~ tkey (new_mtable nslots nstripes len seed : mtable) k.
  Proof.
    intros [b [pos [H1 [H2 H3]]]]. unfold m_len, new_mtable in H1. cbn [m_chains] in H1. rewrite repeat_length in H1.
    unfold schain_of, new_mtable in H3. cbn [m_chains] in H3.
    rewrite (nth_indep _ [] (repeat empty_mslot nslots)) in H3 by (rewrite repeat_length; exact H1). rewrite nth_repeat in H3.
    destruct (Nat.lt_ge_cases pos nslots); [rewrite nth_repeat in H3 | rewrite nth_overflow in H3 by (rewrite repeat_length; assumption)]; discriminate H3.
  Qed.


  (* ---------------- the unpublished table ---------------- *)

  Lemma cfront_swake (p : spc) : cfront (swake p) = cfront p.
  Proof. destruct p; reflexivity. Qed.

  Lemma cfront_tab_lt T t (p : spc) tab i : cfront p = Some (tab, i) -> PCI T t p -> tab < length T.
  Proof.
    induction p; cbn [cfront XS_lock.PCI]; intros E H; try discriminate E; try (apply IHp; tauto).
    all: destruct lk; try discriminate E; inversion E; subst; unfold inr in *; tauto.
  Qed.

  Lemma XCS_new_oth s t p s' ls u new : SI s -> XL s -> XT s -> XCS s -> h_pc s t = p -> sstep_pc s t p = Some (s', ls) ->
    u <> t -> snewtab (h_pc s' u) = Some new ->
    clean_table (tabT (h_tabs s') new) new /\ copied (h_tabs s') new (h_pc s' u).
  Proof.
    intros HI HS HT HC Hp Hs Hne En.
    pose proof (sstep_pc_eff eqd hash idx tophash nslots seeds grow_needed shrink_policy nstripes minlen grow_only
                  Hslots Hidx Hminlen s t p s' ls HS Hp Hs) as HE.
    assert (E0 : snewtab (h_pc s u) = Some new).
    { destruct (se_oth _ _ _ _ _ _ _ HE u Hne) as [E|E]; rewrite E in En; [exact En | rewrite swake_newtab in En; exact En]. }
    assert (Ec : cfront (h_pc s' u) = cfront (h_pc s u)).
    { destruct (se_oth _ _ _ _ _ _ _ HE u Hne) as [E|E]; rewrite E; [reflexivity | apply cfront_swake]. }
    destruct (xcs_new s HC u new E0) as [C1 C2]. destruct (xt_pc s HT u) as [_ Hn]. destruct (Hn new E0) as [N1 N2].
    assert (Hnew : new < length (h_tabs s)) by lia.
    assert (Hnt : snewtab p <> Some new).
    { intros C. apply Hne. apply (si_rzB s HI u t); [eapply snewtab_srz; exact E0 | rewrite Hp; eapply snewtab_srz; exact C]. }
    assert (Hcw : forall b, cellsw (tabT (h_tabs s') new) b = cellsw (tabT (h_tabs s) new) b).
    { intros b. destruct (step_cellsw_frame s t p s' ls HS HC Hp Hs new b Hnew) as [C|[C|C]]; [exact C | | contradiction].
      exfalso. destruct (xt_pc s HT t) as [Hle _]. rewrite Hp in Hle. pose proof (holds_le _ _ _ _ _ Hle C). lia. }
    destruct (se_ext _ _ _ _ _ _ _ HE) as [_ X]. destruct (X new Hnew) as [X1 X2].
    split; [apply (clean_table_ext (tabT (h_tabs s) new)); assumption|].
    unfold copied in *. rewrite Ec. destruct (cfront (h_pc s u)) as [[tab i]|] eqn:Ef; [|exact I].
    intros k Hk. pose proof (cfront_tab_lt _ _ _ _ _ Ef (xl_pc _ _ _ _ s HS u)) as Htab. destruct (X tab Htab) as [Y1 Y2].
    rewrite (shome_ext hash idx _ _ k Y1 Y2). apply C2. apply (tkey_same _ (tabT (h_tabs s') new)); [exact X1 | | exact Hk].
    intros b. specialize (Hcw b). unfold cellsw in Hcw. injection Hcw as Q _. exact Q.
  Qed.

  Lemma svisits_newtab (S0 : mstate) t rest vf after ls : snewtab after = None ->
    snewtab (h_pc (fst (svisits S0 t rest vf after ls)) t) = None.
  Proof.
    intros Ha. revert ls. induction rest as [|[k v] r IH]; intros ls; cbn [svisits].
    - destruct after; cbn [fst sset_pc sset_frame h_pc]; (destruct (Nat.eq_dec t t) as [_|Hc]; [|exfalso; apply Hc; reflexivity]); first [exact Ha | reflexivity].
    - destruct (vf k v) as [cx|]; [|apply IH]. cbn [fst sset_pc sset_frame h_pc].
      destruct (Nat.eq_dec t t) as [_|Hc]; [|exfalso; apply Hc; reflexivity]. apply start_cx_tp. exact 0.
  Qed.

  Lemma sgoto_newtab (S0 : mstate) t q ls new : (forall u f, h_frame S0 u = Some f -> snewtab (rf_after f) = None) ->
    snewtab (h_pc (fst (sgoto S0 t q ls)) t) = Some new -> h_pc (fst (sgoto S0 t q ls)) t = q /\ snewtab q = Some new.
  Proof.
    intros HF. destruct q; cbn [sgoto fst sset_pc h_pc];
      try (destruct (Nat.eq_dec t t) as [_|Hc]; [|exfalso; apply Hc; reflexivity]; intros E; split; [reflexivity | exact E]).
    destruct (h_frame S0 t) as [fr|] eqn:E.
    - rewrite svisits_newtab by (apply (HF t fr E)). discriminate.
    - cbn [fst sset_pc h_pc]. destruct (Nat.eq_dec t t) as [_|Hc]; [|exfalso; apply Hc; reflexivity]. discriminate.
  Qed.

  (* a store into another table, that keeps its length and seed, does not matter to the resizer *)
  Lemma new_frame T tab (f : mtable -> mtable) new q : tab <> new ->
    m_len (f (tabT T tab)) = m_len (tabT T tab) -> m_seed (f (tabT T tab)) = m_seed (tabT T tab) ->
    clean_table (tabT T new) new /\ copied T new q ->
    clean_table (tabT (supd_nth T tab f) new) new /\ copied (supd_nth T tab f) new q.
  Proof.
    intros Hne Hl Hs [C1 C2].
    assert (En : tabT (supd_nth T tab f) new = tabT T new) by (rewrite tabT_supd; destruct (Nat.eq_dec new tab); [congruence | reflexivity]).
    rewrite En. split; [exact C1|]. unfold copied in *. destruct (cfront q) as [[tab' i]|]; [|exact I].
    intros k Hk. rewrite En in Hk. specialize (C2 k Hk). rewrite tabT_supd. destruct (Nat.eq_dec tab' tab) as [->|]; [|exact C2].
    destruct (Nat.ltb tab (length T)); [|exact C2]. rewrite (shome_ext hash idx _ _ k Hl Hs). exact C2.
  Qed.

  Lemma new_push T (nm : mtable) q : (forall k, ~ tkey nm k) -> (forall b, b < m_len nm -> chain_ok nm (length T) b None) ->
    clean_table (tabT (T ++ [nm]) (length T)) (length T) /\ copied (T ++ [nm]) (length T) q.
  Proof.
    intros Hk Hc. assert (E : tabT (T ++ [nm]) (length T) = nm) by (unfold XS_lock.tabT; rewrite app_nth2 by lia; rewrite Nat.sub_diag; reflexivity).
    rewrite E. split; [exact Hc|]. unfold copied. destruct (cfront q) as [[tab' i]|]; [|exact I]. intros k Hkk. rewrite E in Hkk. exfalso. apply (Hk k Hkk).
  Qed.

  (* copyBucket: the copied chain goes to the new table, which stays clean *)
  Lemma cas_copy_new s t tab b v hn kt new : XL s -> XT s -> XCS s -> h_pc s t = QK_CAS tab b v (LKCopy hn kt new) ->
    word_val (sword_at (stab_at s tab) b 0) = word_val v ->
    clean_table (tabT (h_tabs (fst (after_lock hash idx tophash nslots nstripes
                   (sset_tab s tab (fun tb => sset_word tb b 0 (fun _ => with_lock v (Some t)))) t tab b (LKCopy hn kt new)))) new) new
    /\ copied (h_tabs (fst (after_lock hash idx tophash nslots nstripes
                   (sset_tab s tab (fun tb => sset_word tb b 0 (fun _ => with_lock v (Some t)))) t tab b (LKCopy hn kt new)))) new
               (snd (after_lock hash idx tophash nslots nstripes
                   (sset_tab s tab (fun tb => sset_word tb b 0 (fun _ => with_lock v (Some t)))) t tab b (LKCopy hn kt new))).
  Proof.
    intros HS HT HC Hp E.
    destruct (xt_pc s HT t) as [Hle Hnew]. rewrite Hp in Hle, Hnew. cbn [tabs_le snewtab lk_new] in Hle, Hnew. destruct (Hnew new eq_refl) as [N1 N2].
    pose proof (xl_pc _ _ _ _ s HS t) as Hpc. rewrite Hp in Hpc. cbn [XS_lock.PCI] in Hpc. destruct Hpc as [[Hin1 Hin2] _].
    assert (Hne : tab <> new) by lia. assert (Hnl : new < length (h_tabs s)) by lia.
    destruct (xcs_new s HC t new) as [C1 C2]; [rewrite Hp; reflexivity|]. rewrite Hp in C2. unfold copied in C2. cbn [cfront] in C2.
    pose proof (cas_free hash idx nslots nstripes Hslots s t tab b v _ HS Hp E) as Hfree.
    pose proof (xcs_ch s HC tab b Hle Hin2) as Hch. unfold holder_pc in Hch. rewrite Hfree in Hch. cbn [option_map] in Hch.
    destruct (free_chain_facts _ _ _ Hch) as [F1 [F2 F3]].
    set (S1 := sset_tab s tab (fun tb => sset_word tb b 0 (fun _ => with_lock v (Some t)))).
    assert (E1 : stab_at S1 new = tabT (h_tabs s) new).
    { unfold S1, XMachineS.stab_at. cbn [h_tabs sset_tab]. fold (tabT (supd_nth (h_tabs s) tab (fun tb : mtable => sset_word tb b 0 (fun _ => with_lock v (Some t)))) new).
      rewrite tabT_supd. destruct (Nat.eq_dec new tab); [congruence | reflexivity]. }
    assert (E2 : stab_at S1 tab = sset_word (tabT (h_tabs s) tab) b 0 (fun _ => with_lock v (Some t))).
    { unfold S1, XMachineS.stab_at. cbn [h_tabs sset_tab]. fold (tabT (supd_nth (h_tabs s) tab (fun tb : mtable => sset_word tb b 0 (fun _ => with_lock v (Some t)))) tab).
      apply tabT_supd_same. exact Hin1. }
    unfold after_lock. cbv zeta. rewrite E1, E2.
    change (schain_of (sset_word (tabT (h_tabs s) tab) b 0 (fun _ => with_lock v (Some t))) b) with (schain_of (tabT (h_tabs s) tab) b).
    change (m_len (sset_word (tabT (h_tabs s) tab) b 0 (fun _ => with_lock v (Some t)))) with (m_len (tabT (h_tabs s) tab)).
    pose proof (scopy_clean (schain_of (tabT (h_tabs s) tab) b) (tabT (h_tabs s) new) 0%Z new C1
                  (tb_ok_tabT nslots nstripes Hslots _ new (xl_tabs _ _ _ _ s HS)) (wgood_tabT _ new (xcs_words s HC)) F1 F2) as Hcp.
    cbv zeta in Hcp. fold (scopy_chain hash idx tophash nslots (schain_of (tabT (h_tabs s) tab) b) (tabT (h_tabs s) new)) in Hcp.
    destruct (scopy_chain hash idx tophash nslots (schain_of (tabT (h_tabs s) tab) b) (tabT (h_tabs s) new)) as [nt cp] eqn:Ec.
    cbn [fst] in Hcp. destruct Hcp as [G1 [G2 [G3 G4]]].
    { intros k Hk Ht. pose proof (F3 k Hk). pose proof (C2 k Ht). lia. }
    cbn [fst snd h_tabs sset_tab S1].
    set (T1 := supd_nth (h_tabs s) tab (fun tb : mtable => sset_word tb b 0 (fun _ => with_lock v (Some t)))).
    assert (Hl1 : new < length T1) by (unfold T1; rewrite supd_nth_length; exact Hnl).
    rewrite (tabT_supd_same T1 new _ Hl1). split.
    - apply (clean_table_ext nt); try reflexivity. exact G1.
    - unfold copied. cbn [cfront]. destruct (Nat.ltb (S b) (m_len (tabT (h_tabs s) tab))); cbn [cfront]; [|exact I].
      intros k Hk. rewrite (tabT_supd_same T1 new _ Hl1) in Hk.
      assert (Et : tabT (supd_nth T1 new (fun _ : mtable => sadd_size nt b cp)) tab = sset_word (tabT (h_tabs s) tab) b 0 (fun _ => with_lock v (Some t))).
      { rewrite tabT_supd. destruct (Nat.eq_dec tab new); [congruence|]. unfold T1. apply tabT_supd_same. exact Hin1. }
      rewrite Et. change (shome (sset_word (tabT (h_tabs s) tab) b 0 (fun _ => with_lock v (Some t))) k) with (shome (tabT (h_tabs s) tab) k).
      assert (Hk' : tkey nt k) by (apply (tkey_same nt (sadd_size nt b cp)); [reflexivity | reflexivity | exact Hk]).
      destruct (G2 k Hk') as [A|A]; [pose proof (C2 k A); lia | rewrite (F3 k A); lia].
  Qed.

  Lemma XCS_new_t s t p s' ls new : SI s -> XL s -> XT s -> XCS s -> h_pc s t = p -> sstep_pc s t p = Some (s', ls) ->
    snewtab (h_pc s' t) = Some new ->
    clean_table (tabT (h_tabs s') new) new /\ copied (h_tabs s') new (h_pc s' t).
  Proof.
    intros HI HS HT HC Hp Hs En. pose proof (xcs_pc s HC t) as Hf. rewrite Hp in Hf.
    pose proof (xl_pc _ _ _ _ s HS t) as Hpc. rewrite Hp in Hpc.
    assert (HF : forall u f, h_frame s u = Some f -> snewtab (rf_after f) = None) by (intros u f E; apply (xt_fr s HT u f E)).
    destruct (xt_pc s HT t) as [Hle Hnew]. rewrite Hp in Hle, Hnew. pose proof (xcs_new s HC t) as Hxn. rewrite Hp in Hxn.
    destruct p; cbn [XMachineS.sstep_pc] in Hs; cbv zeta in Hs;
      repeat match type of Hs with context [match ?x with _ => _ end] => destruct x eqn:? end;
      try discriminate Hs; apply some_fst_c in Hs; subst s'.
    all: try match goal with |- context [srun_cont ?kt] => destruct kt; cbn [srun_cont] in * end.
    all: try (apply sgoto_newtab in En; [|exact HF]; destruct En as [Epc En]; cbn [snewtab lk_new] in En; try discriminate En).
    - (* the goroutine starts *)
      cbn [fst sset_pc h_pc] in En. destruct (Nat.eq_dec t t) as [_|Hc]; [discriminate En | exfalso; apply Hc; reflexivity].
    - rewrite Epc, htabs_goto. destruct (Hxn new En) as [C1 C2]. split; [exact C1 | exact C2].
    - rewrite Epc, htabs_goto. destruct (Hxn new En) as [C1 C2]. split; [exact C1 | exact C2].
    - rewrite Epc, htabs_goto. destruct (Hxn new En) as [C1 C2]. split; [exact C1 | exact C2].
    - (* lockBucket's CAS succeeded *)
      apply N.eqb_eq in Heqb0.
      match goal with Ha : after_lock _ _ _ _ _ ?S1 ?T ?TAB ?B ?LK = (_, _) |- _ =>
        pose proof (after_lock_ok hash idx tophash nslots nstripes S1 T TAB B LK) as [_ [A2 _]]; rewrite Ha in A2; cbn [fst] in A2 end.
      apply sgoto_newtab in En; [|intros u f E; apply (HF u f); rewrite A2 in E; exact E]. destruct En as [Epc En].
      rewrite Epc, htabs_goto. destruct lk as [cx|hn kt nw|vf].
      + unfold after_lock in Heqp. inversion Heqp; subst. discriminate En.
      + pose proof (cas_copy_new s t tab b v hn kt nw HS HT HC Hp Heqb0) as Hcc. rewrite Heqp in Hcc. cbn [fst snd] in Hcc.
        assert (nw = new); [|subst nw; exact Hcc].
        unfold after_lock in Heqp. cbv zeta in Heqp.
        match type of Heqp with context [scopy_chain ?a ?b0 ?c ?d ?e ?f] => destruct (scopy_chain a b0 c d e f) as [nt cp] end.
        inversion Heqp; subst. cbn [snewtab] in En. destruct (Nat.ltb _ _); cbn [snewtab lk_new] in En; congruence.
      + unfold after_lock in Heqp. inversion Heqp; subst. cbn [snewtab] in En. destruct (Nat.ltb _ _); discriminate En.
    - rewrite Epc, htabs_goto. destruct (Hxn new En) as [C1 C2]. split; [exact C1 | exact C2].
    - rewrite Epc, htabs_goto. destruct (Hxn new En) as [C1 C2]. split; [exact C1 | exact C2].
    - rewrite Epc, htabs_goto. destruct (Hxn new En) as [C1 C2]. split; [exact C1 | exact C2].
    - (* unlockBucket of a Range: the visits follow, no resize there *)
      exfalso. pose proof (si_wf s HI t) as Hw. rewrite Hp in Hw. cbn [swf] in Hw. destruct Hw as [Hpl _]. specialize (Hpl ltac:(discriminate)).
      destruct Hpl as (_ & Hrz & _). rewrite svisits_newtab in En; [discriminate En|].
      destruct (snewtab p) eqn:Eq; [apply snewtab_srz in Eq; congruence | reflexivity].
    - (* unlockBucket *)
      rewrite Epc, htabs_goto. cbn [h_tabs sset_tab]. cbn [tabs_le] in Hle. destruct (Hnew new En).
      apply new_frame; [lia | reflexivity | reflexivity |]. destruct (Hxn new En) as [C1 C2]. split; [exact C1 | exact C2].
    - rewrite Epc, htabs_goto. cbn [h_tabs sset_tab]. cbn [tabs_le] in Hle. destruct (Hnew new En).
      apply new_frame; [lia | reflexivity | reflexivity |]. destruct (Hxn new En) as [C1 C2]. split; [exact C1 | exact C2].
    - inversion En; subst new. rewrite Epc, htabs_goto. apply new_push; [apply tkey_new | intros b0 Hb0; apply clean_new; exact Hb0].
    - inversion En; subst new. rewrite Epc, htabs_goto. apply new_push; [apply tkey_new | intros b0 Hb0; apply clean_new; exact Hb0].
    - inversion En; subst new. rewrite Epc, htabs_goto. apply new_push; [apply tkey_new | intros b0 Hb0; apply clean_new; exact Hb0].
    - inversion En; subst new. rewrite Epc, htabs_goto. apply new_push; [apply tkey_new | intros b0 Hb0; apply clean_new; exact Hb0].
    - inversion En; subst new. rewrite Epc, htabs_goto. apply new_push; [apply tkey_new | intros b0 Hb0; apply clean_new; exact Hb0].
    - inversion En; subst new. rewrite Epc, htabs_goto. apply new_push; [apply tkey_new | intros b0 Hb0; apply clean_new; exact Hb0].
    - inversion En; subst new. rewrite Epc, htabs_goto. apply new_push; [apply tkey_new | intros b0 Hb0; apply clean_new; exact Hb0].
  Qed.


  (* ---------------- every table beyond the current one is the new table of the running resize ---------------- *)

  Definition XP (s : mstate) : Prop :=
    forall tab, h_cur s < tab -> tab < length (h_tabs s) -> exists u, snewtab (h_pc s u) = Some tab.

  Lemma sgoto_keep_newtab (S0 : mstate) t q ls new : snewtab q = Some new -> snewtab (h_pc (fst (sgoto S0 t q ls)) t) = Some new.
  Proof. intros E. rewrite sgoto_pc_eq; [exact E|]. intros r Hr. rewrite Hr in E. discriminate E. Qed.

  Lemma hcur_goto (S0 : mstate) t q ls : h_cur (fst (sgoto S0 t q ls)) = h_cur S0.
  Proof. destruct (sgoto_shared S0 t q ls) as [[_ [A _]] _]. exact A. Qed.
  Lemma hcur_visits (S0 : mstate) t rest vf after ls : h_cur (fst (svisits S0 t rest vf after ls)) = h_cur S0.
  Proof. destruct (svisits_shared S0 t rest vf after ls) as [[_ [A _]] _]. exact A. Qed.

  Lemma after_lock_kind (S1 : mstate) t tab b lk :
    h_cur (fst (after_lock hash idx tophash nslots nstripes S1 t tab b lk)) = h_cur S1
    /\ length (h_tabs (fst (after_lock hash idx tophash nslots nstripes S1 t tab b lk))) = length (h_tabs S1)
    /\ forall new, lk_new lk = Some new -> snewtab (snd (after_lock hash idx tophash nslots nstripes S1 t tab b lk)) = Some new.
  Proof.
    unfold after_lock. destruct lk; cbv zeta; try (split; [reflexivity | split; [reflexivity | intros new E; discriminate E]]).
    match goal with |- context [scopy_chain ?a ?b ?c ?d ?e ?f] => destruct (scopy_chain a b c d e f) as [nt cp] end.
    cbn [fst snd h_tabs h_cur sset_tab lk_new]. rewrite supd_nth_length. split; [reflexivity | split; [reflexivity|]].
    intros new0 E. cbn [snewtab]. destruct (Nat.ltb _ _); exact E.
  Qed.

  Inductive step_kind (s : mstate) (t : nat) (p : spc) (s' : mstate) : Prop :=
  | SK_plain : h_cur s' = h_cur s -> length (h_tabs s') = length (h_tabs s) ->
               (forall new, snewtab p = Some new -> snewtab (h_pc s' t) = Some new) -> step_kind s t p s'
  | SK_publish kt new : p = QR_Publish kt new -> h_cur s' = new -> h_tabs s' = h_tabs s -> step_kind s t p s'
  | SK_push len seed : h_cur s' = h_cur s -> h_tabs s' = h_tabs s ++ [new_mtable nslots nstripes len seed] ->
               snewtab p = None -> snewtab (h_pc s' t) = Some (length (h_tabs s)) -> step_kind s t p s'.

  Lemma step_kinds s t p s' ls : swf p -> sstep_pc s t p = Some (s', ls) -> step_kind s t p s'.
  Proof.
    intros Hw Hs.
    destruct p; cbn [XMachineS.sstep_pc] in Hs; cbv zeta in Hs;
      repeat match type of Hs with context [match ?x with _ => _ end] => destruct x eqn:? end;
      try discriminate Hs; apply some_fst_c in Hs; subst s'.
    all: try match goal with |- context [srun_cont ?kt] => destruct kt; cbn [srun_cont] end.
    all: try (apply SK_plain; rewrite ?hcur_goto, ?htabs_goto, ?hcur_visits, ?htabs_visits;
              cbn [fst h_cur h_tabs sset_pc sset_tab sset_flags spush_tab sbump]; rewrite ?supd_nth_length;
              [reflexivity | reflexivity | cbn [snewtab lk_new]; intros new E; first [discriminate E | apply sgoto_keep_newtab; exact E]]).
    - (* lockBucket's CAS succeeded *)
      match goal with Ha : after_lock _ _ _ _ _ ?S1 ?T ?TAB ?B ?LK = (_, _) |- _ =>
        pose proof (after_lock_kind S1 T TAB B LK) as [A1 [A2 A3]]; rewrite Ha in A1, A2, A3; cbn [fst snd h_cur h_tabs sset_tab] in A1, A2, A3;
        rewrite supd_nth_length in A2 end.
      apply SK_plain; rewrite ?hcur_goto, ?htabs_goto; [exact A1 | exact A2 |].
      cbn [snewtab]. intros new E. apply sgoto_keep_newtab. apply A3. exact E.
    - (* unlockBucket of a Range: no resize in its continuation *)
      apply SK_plain; rewrite ?hcur_visits, ?htabs_visits; cbn [h_cur h_tabs sset_tab]; rewrite ?supd_nth_length; [reflexivity | reflexivity |].
      cbn [snewtab swf] in *. intros new E. exfalso. destruct Hw as [Hpl _]. specialize (Hpl ltac:(discriminate)). destruct Hpl as (_ & Hrz & _).
      apply snewtab_srz in E. congruence.
    - eapply SK_push; rewrite ?hcur_goto, ?htabs_goto; [reflexivity | reflexivity | reflexivity | apply sgoto_keep_newtab; reflexivity].
    - eapply SK_push; rewrite ?hcur_goto, ?htabs_goto; [reflexivity | reflexivity | reflexivity | apply sgoto_keep_newtab; reflexivity].
    - eapply SK_push; rewrite ?hcur_goto, ?htabs_goto; [reflexivity | reflexivity | reflexivity | apply sgoto_keep_newtab; reflexivity].
    - eapply SK_push; rewrite ?hcur_goto, ?htabs_goto; [reflexivity | reflexivity | reflexivity | apply sgoto_keep_newtab; reflexivity].
    - eapply SK_push; rewrite ?hcur_goto, ?htabs_goto; [reflexivity | reflexivity | reflexivity | apply sgoto_keep_newtab; reflexivity].
    - eapply SK_push; rewrite ?hcur_goto, ?htabs_goto; [reflexivity | reflexivity | reflexivity | apply sgoto_keep_newtab; reflexivity].
    - eapply SK_push; rewrite ?hcur_goto, ?htabs_goto; [reflexivity | reflexivity | reflexivity | apply sgoto_keep_newtab; reflexivity].
    - eapply SK_publish; rewrite ?hcur_goto, ?htabs_goto; reflexivity.
  Qed.

  Lemma XP_step_pc s t p s' ls : SI s -> XT s -> XP s -> h_pc s t = p -> sstep_pc s t p = Some (s', ls) ->
    (forall u, u <> t -> h_pc s' u = h_pc s u \/ h_pc s' u = swake (h_pc s u)) -> XP s'.
  Proof.
    intros HI HT HX Hp Hs Hoth tab H1 H2.
    assert (Hw : swf p) by (rewrite <- Hp; apply (si_wf s HI)).
    assert (Hkeep : forall u new, u <> t -> snewtab (h_pc s u) = Some new -> snewtab (h_pc s' u) = Some new).
    { intros u new Hne E. destruct (Hoth u Hne) as [E'|E']; rewrite E'; [exact E | rewrite swake_newtab; exact E]. }
    destruct (step_kinds s t p s' ls Hw Hs) as [K1 K2 K3 | kt new K1 K2 K3 | len seed K1 K2 K3 K4].
    - rewrite K1 in H1. rewrite K2 in H2. destruct (HX tab H1 H2) as [u Hu]. destruct (Nat.eq_dec u t) as [->|Hne].
      + exists t. apply K3. rewrite <- Hp. exact Hu.
      + exists u. apply Hkeep; assumption.
    - exfalso. rewrite K3 in H2. rewrite K2 in H1. destruct (xt_pc s HT t) as [_ Hn]. rewrite Hp, K1 in Hn. destruct (Hn new eq_refl). lia.
    - rewrite K1 in H1. rewrite K2, app_length in H2. cbn [length] in H2.
      destruct (Nat.eq_dec tab (length (h_tabs s))) as [->|Hnt]; [exists t; exact K4|].
      destruct (HX tab H1 ltac:(lia)) as [u Hu]. destruct (Nat.eq_dec u t) as [->|Hne]; [rewrite Hp in Hu; congruence|].
      exists u. apply Hkeep; assumption.
  Qed.


  (* ---------------- one step ---------------- *)

  Theorem XCS_step_pc s t p s' ls : SI s -> XL s -> XT s -> XP s -> XL s' -> XCS s -> h_pc s t = p -> sstep_pc s t p = Some (s', ls) -> XCS s'.
  Proof.
    intros HI HS HT HX HS' HC Hp Hs.
    pose proof (sstep_pc_eff eqd hash idx tophash nslots seeds grow_needed shrink_policy nstripes minlen grow_only
                  Hslots Hidx Hminlen s t p s' ls HS Hp Hs) as HE.
    destruct (XCS_pc_t s t p s' ls HS HT HC Hp Hs) as [P1 P2].
    assert (Hw : swf p) by (rewrite <- Hp; apply (si_wf s HI)).
    constructor.
    - apply (step_wgood s t p s' ls); [rewrite <- Hp; apply (xcs_pc s HC) | exact Hs | apply (xcs_words s HC)].
    - intros tab b Hle Hb. destruct (le_lt_dec tab (h_cur s)) as [L|L].
      + assert (Htab : tab < length (h_tabs s)) by (pose proof (xt_cur s HT); lia).
        destruct (se_ext _ _ _ _ _ _ _ HE) as [_ X]. destruct (X tab Htab) as [X1 _]. rewrite X1 in Hb.
        destruct (sholds s p) as [[tb bb]|] eqn:Eh.
        * destruct (Nat.eq_dec tb tab) as [->|N1]; [destruct (Nat.eq_dec bb b) as [->|N2]|].
          -- apply (XCS_ch_holder s t p s' ls tab b HS HS' HT HC Hp Hs Eh).
          -- apply (XCS_ch_other s t p s' ls tab b HS HT HC Hp Hs L Hb). rewrite Eh. congruence.
          -- apply (XCS_ch_other s t p s' ls tab b HS HT HC Hp Hs L Hb). rewrite Eh. congruence.
        * apply (XCS_ch_other s t p s' ls tab b HS HT HC Hp Hs L Hb). rewrite Eh. discriminate.
      + destruct (step_kinds s t p s' ls Hw Hs) as [K1 K2 K3 | kt new K1 K2 K3 | len seed K1 K2 K3 K4]; try (exfalso; lia).
        destruct (xt_pc s HT t) as [_ Hn]. rewrite Hp, K1 in Hn. destruct (Hn new eq_refl) as [N1 N2]. rewrite K2 in Hle.
        destruct (HX tab L ltac:(lia)) as [u Hu].
        assert (u = t) by (apply (si_rzB s HI u t); [eapply snewtab_srz; exact Hu | rewrite Hp, K1; reflexivity]). subst u.
        rewrite Hp, K1 in Hu. cbn [snewtab] in Hu. inversion Hu; subst tab.
        destruct (xcs_new s HC t new) as [C1 _]; [rewrite Hp, K1; reflexivity|]. rewrite K3 in *. apply chain_ok_none. apply C1. exact Hb.
    - intros u. destruct (Nat.eq_dec u t) as [->|Hne]; [exact P1 | apply (XCS_pc_oth s t p s' ls u HS HT HC Hp Hs Hne)].
    - exact P2.
    - intros u new En. destruct (Nat.eq_dec u t) as [->|Hne].
      + apply (XCS_new_t s t p s' ls new HI HS HT HC Hp Hs En).
      + apply (XCS_new_oth s t p s' ls u new HI HS HT HC Hp Hs Hne En).
  Qed.

  (* ---------------- every reachable state ---------------- *)

  Lemma sstart_pf (o : @sop K V) T : pcfact T (sstart_pc o).
  Proof. destruct o; cbn [sstart_pc]; try exact I. apply start_cx_pf. Qed.

  Definition XB (s : mstate) : Prop := SI s /\ XL s /\ XT s /\ XP s /\ XCS s.

  Notation sinvoke := (@sinvoke K V).

  Lemma invoke_inv3 s t o rest : h_pc s t = QIdle -> SI s -> XL s -> XT s ->
    SI (sinvoke s t o rest) /\ XL (sinvoke s t o rest) /\ XT (sinvoke s t o rest).
  Proof.
    intros Hp HI HS HT. set (s1 := sinvoke s t o rest).
    destruct (sstart_plain o) as [[P1 [P2 [P3 [P4 P5]]]] Pw].
    destruct (sstart_nolock hash idx nslots nstripes o (h_tabs s) t) as [N1 N2].
    destruct (sstart_tp o (h_cur s)) as [Q1 Q2].
    assert (Hpc : forall u, h_pc s1 u = if Nat.eq_dec u t then sstart_pc o else h_pc s u) by reflexivity.
    assert (Hsame : forall (f : spc -> bool), f (sstart_pc o) = false -> f QIdle = false -> forall u, f (h_pc s1 u) = f (h_pc s u)).
    { intros f F1 F2 u. rewrite Hpc. destruct (Nat.eq_dec u t) as [->|]; [rewrite Hp; congruence | reflexivity]. }
    assert (Hh : forall u, sholds s1 (h_pc s1 u) = sholds s (h_pc s u)).
    { intros u. unfold XS_lock.sholds. rewrite Hpc. change (h_tabs s1) with (h_tabs s). destruct (Nat.eq_dec u t) as [->|]; [|reflexivity].
      rewrite Hp. apply nolock_holds. exact N1. }
    assert (Ht : h_tabs s1 = h_tabs s) by reflexivity. assert (Hc : h_cur s1 = h_cur s) by reflexivity.
    assert (Hf : h_frame s1 = h_frame s) by reflexivity.
    assert (Hm : h_rmu s1 = h_rmu s) by reflexivity. assert (Hz : h_resizing s1 = h_resizing s) by reflexivity.
    clearbody s1.
    split; [|split].
    - constructor; rewrite ?Hm, ?Hz, ?Hf.
      + intros u. rewrite Hpc. destruct (Nat.eq_dec u t); [exact Pw | apply (si_wf s HI)].
      + intros u. rewrite (Hsame smu P1 eq_refl). apply (si_muA s HI).
      + intros u H. rewrite (Hsame smu P1 eq_refl). apply (si_muB s HI u H).
      + intros u. rewrite (Hsame srz P2 eq_refl). apply (si_rzA s HI).
      + intros u u'. rewrite !(Hsame srz P2 eq_refl). apply (si_rzB s HI).
      + intros H. destruct (si_rzC s HI H) as [u Hu]. exists u. rewrite (Hsame srz P2 eq_refl). exact Hu.
      + intros u. rewrite (Hsame swait P4 eq_refl). apply (si_wait s HI).
      + intros u. rewrite (Hsame swaiting P3 eq_refl). intros H. destruct (si_waiting s HI u H) as [A|[w A]]; [left; exact A|].
        right. exists w. rewrite (Hsame sbcast P5 eq_refl). exact A.
      + apply (si_frame s HI).
    - constructor; rewrite ?Ht, ?Hc, ?Hf.
      + apply (xl_tabs _ _ _ _ s HS).
      + apply (xl_cur _ _ _ _ s HS).
      + intros u. rewrite Hpc. destruct (Nat.eq_dec u t) as [->|]; [exact N2 | apply (xl_pc _ _ _ _ s HS)].
      + apply (xl_frame _ _ _ _ s HS).
      + intros u tab0 b0. rewrite Hh. unfold XS_lock.lock_of. rewrite Ht. apply (xl_lockA _ _ _ _ s HS).
      + intros u tab0 b0. rewrite Hh. unfold XS_lock.lock_of. rewrite Ht. apply (xl_lockB _ _ _ _ s HS u tab0 b0).
    - constructor; rewrite ?Ht, ?Hc, ?Hf; [apply (xt_cur s HT) | | apply (xt_fr s HT)].
      intros u. rewrite Hpc. destruct (Nat.eq_dec u t); [apply TP_none; assumption | apply (xt_pc s HT)].
  Qed.

  Lemma invoke_XB s t o rest : h_pc s t = QIdle -> XB s -> XB (sinvoke s t o rest).
  Proof.
    intros Hp [HI [HS [HT [HX HC]]]]. destruct (invoke_inv3 s t o rest Hp HI HS HT) as [HI1 [HS1 HT1]].
    assert (Hn : forall u, snewtab (h_pc (sinvoke s t o rest) u) = snewtab (h_pc s u)).
    { intros u. cbn [XS_count.sinvoke h_pc]. destruct (Nat.eq_dec u t) as [->|]; [|reflexivity]. rewrite Hp. apply sstart_tp. exact 0. }
    assert (Hcf : forall u new, snewtab (h_pc s u) = Some new -> h_pc (sinvoke s t o rest) u = h_pc s u).
    { intros u new H. cbn [XS_count.sinvoke h_pc]. destruct (Nat.eq_dec u t) as [->|]; [|reflexivity]. rewrite Hp in H. discriminate H. }
    split; [exact HI1|]. split; [exact HS1|]. split; [exact HT1|]. split.
    - intros tab H1 H2. destruct (HX tab H1 H2) as [u Hu]. exists u. rewrite Hn. exact Hu.
    - constructor.
      + apply (xcs_words s HC).
      + intros tab b Hle Hb. apply (chain_ok_hp _ _ _ (holder_pc s tab b)); [|apply (xcs_ch s HC tab b Hle Hb)].
        intros q pos Hq Hw. unfold holder_pc in *. change (lock_of (sinvoke s t o rest) tab b) with (lock_of s tab b).
        destruct (lock_of s tab b) as [u|]; [|discriminate Hq]. cbn [option_map] in *. inversion Hq; subst q.
        exists (h_pc s u). split; [|exact Hw]. f_equal. cbn [XS_count.sinvoke h_pc].
        destruct (Nat.eq_dec u t) as [->|]; [|reflexivity]. rewrite Hp in Hw. discriminate Hw.
      + intros u. cbn [XS_count.sinvoke h_pc]. destruct (Nat.eq_dec u t); [apply sstart_pf | apply (xcs_pc s HC)].
      + apply (xcs_fr s HC).
      + intros u new En. rewrite Hn in En. rewrite (Hcf u new En). apply (xcs_new s HC u new En).
  Qed.

  Lemma XB_sstep s t s' ls : XB s -> sstep s t = Some (s', ls) -> XB s'.
  Proof.
    assert (Hpc_step : forall s0 p s1 ls0, XB s0 -> h_pc s0 t = p -> sstep_pc s0 t p = Some (s1, ls0) -> XB s1).
    { intros s0 p s1 ls0 [HI [HS [HT [HX HC]]]] Hp Hs.
      assert (Hw : swf p) by (rewrite <- Hp; apply (si_wf s0 HI)).
      pose proof (sstep_pc_eff eqd hash idx tophash nslots seeds grow_needed shrink_policy nstripes minlen grow_only
                    Hslots Hidx Hminlen s0 t p s1 ls0 HS Hp Hs) as HE.
      assert (HS1 : XL s1) by (apply (XL_eff hash idx tophash nslots seeds grow_needed shrink_policy nstripes Hslots s0 t s1 HS HE)).
      split; [eapply SI_step_pc; eassumption|]. split; [exact HS1|].
      split; [eapply XT_step_pc; [exact (si_rzB s0 HI) | exact Hw | exact HT | exact Hp | exact Hs]|].
      split; [eapply XP_step_pc; [exact HI | exact HT | exact HX | exact Hp | exact Hs | apply (se_oth _ _ _ _ _ _ _ HE)]|].
      eapply XCS_step_pc; eassumption. }
    intros HB E. unfold XMachineS.sstep in E.
    destruct (h_pc s t) eqn:Hp; try (eapply Hpc_step; [exact HB | exact Hp | exact E]).
    destruct (h_todo s t) as [|o rest]; [discriminate|].
    pose proof (invoke_XB s t o rest Hp HB) as HB1.
    change (match sstep_pc (sinvoke s t o rest) t (sstart_pc o) with
            | Some (s2, ls0) => Some (s2, SInv t o :: ls0)
            | None => Some (sinvoke s t o rest, [SInv t o])
            end = Some (s', ls)) in E.
    destruct (sstep_pc (sinvoke s t o rest) t (sstart_pc o)) as [[s2 ls0]|] eqn:E2.
    - inversion E; subst s2 ls. eapply Hpc_step; [exact HB1 | | exact E2]. cbn [XS_count.sinvoke h_pc]. destruct (Nat.eq_dec t t); congruence.
    - inversion E; subst s'. exact HB1.
  Qed.

  Lemma XB_init len0 todo : 0 < len0 -> XB (sinit nslots seeds nstripes len0 todo).
  Proof.
    intros Hl. split; [apply SI_init|]. split; [apply (XL_init hash idx nslots seeds nstripes Hslots); exact Hl|]. split; [apply XT_init|]. split.
    - intros tab H1 H2. cbn [sinit h_cur h_tabs length] in *. lia.
    - constructor; cbn [sinit h_tabs h_cur h_pc h_frame].
      + constructor; [apply tb_wgood_new | constructor].
      + intros tab b Hle Hb. assert (tab = 0) by lia. subst tab. unfold XS_lock.tabT in *. cbn [nth] in *.
        apply chain_ok_none. apply clean_new. exact Hb.
      + intros t. exact I.
      + intros u f E. discriminate E.
      + intros u new E. discriminate E.
  Qed.

  Theorem XB_srun sched : forall s, XB s -> XB (fst (srun s sched)).
  Proof.
    induction sched as [|t rest IH]; intros s H; cbn [XMachineS.srun]; [exact H|].
    destruct (sstep s t) as [[s' ls]|] eqn:E.
    - specialize (IH s' (XB_sstep s t s' ls H E)). destruct (XMachineS.srun _ _ _ _ _ _ _ _ _ _ _ s' rest). exact IH.
    - apply IH. exact H.
  Qed.

  (* the cell invariant in every reachable state, for every schedule *)
  Theorem reachable_XCS len0 todo sched : 0 < len0 -> XCS (fst (srun (sinit nslots seeds nstripes len0 todo) sched)).
  Proof. intros Hl. apply (XB_srun sched _ (XB_init len0 todo Hl)). Qed.

  Theorem reachable_XB len0 todo sched : 0 < len0 -> XB (fst (srun (sinit nslots seeds nstripes len0 todo) sched)).
  Proof. intros Hl. apply (XB_srun sched _ (XB_init len0 todo Hl)). Qed.

  (* "published" = has been current = is nobody's new table *)
  Theorem published_iff s tab : XB s -> tab < length (h_tabs s) -> (tab <= h_cur s <-> forall u, snewtab (h_pc s u) <> Some tab).
  Proof.
    intros [HI [HS [HT [HX HC]]]] Htab. split.
    - intros Hle u E. destruct (xt_pc s HT u) as [_ Hn]. destruct (Hn tab E). lia.
    - intros H. destruct (le_lt_dec tab (h_cur s)) as [L|L]; [exact L|]. destruct (HX tab L Htab) as [u Hu]. exfalso. apply (H u Hu).
  Qed.


  (* ---------------- what XCS says about one slot of a published table ---------------- *)

  (* the slot is free, complete, or the one the thread named by the bucket's lock word is writing,
     in exactly the shape that thread's program counter tells *)
  Theorem slot_states s tab b pos : XB s -> tab <= h_cur s -> b < m_len (tabT (h_tabs s) tab) ->
    pos < length (schain_of (tabT (h_tabs s) tab) b) ->
    let tb := tabT (h_tabs s) tab in
    let sl := nth pos (schain_of tb b) empty_mslot in
    let e := topent (ctops tb b) pos in
    sfree sl e \/ sfull tb b sl e
    \/ exists t cx, lock_of s tab b = Some t /\ shome tb (sc_k cx) = b /\
         ((exists nv, h_pc s t = QW_I2 cx tab pos nv /\ ms_key sl = None /\ ms_val sl = None /\ e = (true, ktop tb (sc_k cx)))
          \/ (exists nv id, h_pc s t = QW_I3 cx tab pos nv /\ ms_key sl = None /\ ms_val sl = Some (nv, id) /\ e = (true, ktop tb (sc_k cx)))
          \/ (exists old ne id, h_pc s t = QW_D2 cx tab pos old ne /\ ms_key sl = Some (sc_k cx) /\ ms_val sl = Some (old, id) /\ fst e = false)
          \/ (exists old ne, h_pc s t = QW_D3 cx tab pos old ne /\ ms_key sl = Some (sc_k cx) /\ ms_val sl = None /\ fst e = false)).
  Proof.
    intros [HI [HS [HT [HX HC]]]] Hle Hb Hp tb sl e. destruct (xcs_ch s HC tab b Hle Hb) as [_ [_ Hsl]].
    destruct (Hsl pos Hp) as [F|[F|[p [F1 F2]]]]; [left; exact F | right; left; exact F|]. right. right.
    unfold holder_pc in F1. destruct (lock_of s tab b) as [t|] eqn:El; [|discriminate F1]. cbn [option_map] in F1. inversion F1; subst p. clear F1.
    pose proof (xl_lockB _ _ _ _ s HS t tab b El) as Hh. pose proof (xcs_pc s HC t) as Hf. unfold XS_lock.sholds in Hh.
    destruct (h_pc s t) eqn:Ep; cbn [witpos] in F2; try discriminate F2;
      (destruct (Nat.eq_dec tab0 tab) as [->|]; [|discriminate F2]); inversion F2; subst pos0; clear F2;
      cbn [XS_lock.sholdsT] in Hh; inversion Hh as [Hb0]; cbn [pcfact] in Hf; unfold slot_is, kchain, ktops in Hf; rewrite Hb0 in Hf;
      exists t, cx; (split; [reflexivity|]); (split; [first [exact Hb0 | reflexivity]|]).
    - right. right. left. destruct Hf as [_ [A [[id B] C]]]. exists old, ne, id. auto.
    - right. right. right. destruct Hf as [_ [A [B C]]]. exists old, ne. auto.
    - left. destruct Hf as [[_ [A [B C]]] _]. exists nv. auto.
    - right. left. destruct Hf as [[_ [A [[id B] C]]] _]. exists nv, id. auto.
  Qed.

  (* keys are unique within a chain, and a complete slot lies in its key's home chain *)
  Theorem chain_keys s tab b : XB s -> tab <= h_cur s -> b < m_len (tabT (h_tabs s) tab) ->
    shaped (schain_of (tabT (h_tabs s) tab) b) (ctops (tabT (h_tabs s) tab) b) /\ uniq (schain_of (tabT (h_tabs s) tab) b).
  Proof. intros [_ [_ [_ [_ HC]]]] Hle Hb. destruct (xcs_ch s HC tab b Hle Hb) as [A [B _]]. auto. Qed.

End SCells.
