(* XS_inst.v -- the executable instance of XMachineS (XExecS: the numbers of
   map.go) meets the hypotheses under which XS_lock / XS_own / XS_count are
   proved, and so has their invariants in every state it reaches. *)
From CacheV Require Import Base SpecMap XMachineS TabExec Exec XExec XExecS.
From CacheV.gen Require Import Params.
From CacheV.proofs Require Import X_inst XS_lock.
From Coq Require Import NArith Lia.

(* the hypotheses of XS_lock.v on the parameters of the machine *)
Definition shyps (idx : N -> nat -> nat) (minlen nslots : nat) : Prop :=
  (forall h len, (0 < len)%nat -> (idx h len < len)%nat) /\ (0 < minlen)%nat /\ (nslots <= 3)%nat.

Lemma idx_map_lt h len : (0 < len)%nat -> (idx_map h len < len)%nat.
Proof. intros H. unfold idx_map. pose proof (N_land_le_r h (N.of_nat len - 1)). lia. Qed.

Lemma s_instance_hyps hint : shyps idx_map (minlen_of_hint false hint) (nslots_of false).
Proof. split; [exact idx_map_lt | split; [apply minlen_of_hint_pos | vm_compute; lia]]. Qed.

(* every state the extracted Map machine reaches, under every schedule, has the bucket-lock invariant *)
Theorem s_machine_XL (o : oracle) (seeds : list N) (hint : Z) (todo : nat -> list sop_z) (sched : list nat) :
  XL (hash_of o) idx_map (nslots_of false) nstripes_x
     (fst (srun zeqd (hash_of o) idx_map tag_map (nslots_of false) (seeds_of seeds) grow_needed_s shrink_policy_s
                nstripes_x (minlen_of_hint false hint) false (s_machine_init seeds hint todo) sched)).
Proof.
  destruct (s_instance_hyps hint) as [H1 [H2 H3]]. unfold s_machine_init.
  apply reachable_XL; assumption.
Qed.

From CacheV.proofs Require Import XS_inv XS_own XS_count.

(* the hypotheses of XS_count.v: those of XS_lock.v and a counter with at least one stripe *)
Definition shyps_count (idx : N -> nat -> nat) (minlen nslots : nat) (nstripes : nat -> nat) : Prop :=
  shyps idx minlen nslots /\ forall len, (0 < nstripes len)%nat.

Lemma s_instance_hyps_count hint : shyps_count idx_map (minlen_of_hint false hint) (nslots_of false) nstripes_x.
Proof. split; [apply s_instance_hyps | exact nstripes_x_pos]. Qed.

Notation s_srun o seeds hint todo sched :=
  (fst (srun zeqd (hash_of o) idx_map tag_map (nslots_of false) (seeds_of seeds) grow_needed_s shrink_policy_s
             nstripes_x (minlen_of_hint false hint) false (s_machine_init seeds hint todo) sched)).

(* resize protocol, bucket locks and table discipline together, every reachable state of the extracted machine *)
Theorem s_machine_XO (o : oracle) (seeds : list N) (hint : Z) (todo : nat -> list sop_z) (sched : list nat) :
  XO (hash_of o) idx_map (nslots_of false) nstripes_x (s_srun o seeds hint todo sched).
Proof.
  destruct (s_instance_hyps hint) as [H1 [H2 H3]]. unfold s_machine_init.
  apply reachable_XO; try assumption.
Qed.

(* write ownership of the extracted machine *)
Theorem s_machine_write_ownership (o : oracle) (seeds : list N) (hint : Z) (todo : nat -> list sop_z) (sched : list nat)
        t s' ls tab b :
  let s := s_srun o seeds hint todo sched in
  s_machine_step o seeds hint s t = Some (s', ls) ->
  (tab < length (h_tabs s))%nat ->
  cells (stab_at (nslots_of false) nstripes_x s' tab) b <> cells (stab_at (nslots_of false) nstripes_x s tab) b ->
  lock_of (nslots_of false) nstripes_x s tab b = Some t
  \/ (snewtab (h_pc s t) = Some tab /\ (h_cur s < tab)%nat /\ S tab = length (h_tabs s)
      /\ (forall t', t' <> t -> tabs_le (h_cur s) (h_pc s t') /\ snewtab (h_pc s t') = None)
      /\ (forall t' fr, h_frame s t' = Some fr -> tabs_le (h_cur s) (rf_after fr) /\ snewtab (rf_after fr) = None)).
Proof.
  destruct (s_instance_hyps hint) as [H1 [H2 H3]]. unfold s_machine_init, s_machine_step.
  apply reachable_write_ownership; try assumption.
Qed.

(* the counter invariant of the extracted machine *)
Theorem s_machine_count (o : oracle) (seeds : list N) (hint : Z) (todo : nat -> list sop_z) (sched : list nat) :
  XS (nslots_of false) nstripes_x (nodup Nat.eq_dec sched) (s_srun o seeds hint todo sched).
Proof.
  destruct (s_instance_hyps_count hint) as [[H1 [H2 H3]] H4]. unfold s_machine_init.
  apply reachable_count; try assumption.
Qed.

(* ---------------- non-vacuity ---------------- *)

Definition ex_sched (sched : list nat) : @mstate nat nat :=
  fst (@srun nat nat Nat.eq_dec (fun k _ => N.of_nat k) (fun h len => Nat.modulo (N.to_nat h) len) (fun h => h) 3%nat (fun _ => 0%N)
             (fun _ _ => false) (fun _ _ => false) (fun _ => 1%nat) 1%nat false
             (sinit 3%nat (fun _ => 0%N) (fun _ => 1%nat) 1%nat
                    (fun t => if Nat.eqb t 0%nat then [SCompute 7%nat (fun _ => Some 1%nat) true false true] else [SLoad 7%nat]))
             sched).

(* thread 0 is past the CAS of lockBucket: the word names it, and a second thread spins *)
Example lock_nonvacuous :
  let s := ex_sched [0; 0; 0; 0; 1; 1]%nat in
  sholds (fun k _ => N.of_nat k) (fun h len => Nat.modulo (N.to_nat h) len) 3%nat (fun _ => 1%nat) s (h_pc s 0%nat) = Some (0%nat, 0%nat)
  /\ lock_of 3%nat (fun _ => 1%nat) s 0%nat 0%nat = Some 0%nat.
Proof. split; vm_compute; reflexivity. Qed.

(* thread 0 has stored the key of its insert and not yet added to the counter: one key, counter 0, one owed *)
Example count_nonvacuous :
  let s := ex_sched [0; 0; 0; 0; 0; 0; 0; 0; 0; 0; 0]%nat in
  tcount (stab_at 3%nat (fun _ => 1%nat) s 0%nat) = 1%Z
  /\ ssum_z (m_size (stab_at 3%nat (fun _ => 1%nat) s 0%nat)) = 0%Z
  /\ owed 0%nat (h_pc s 0%nat) = 1%Z.
Proof. repeat split; vm_compute; reflexivity. Qed.

(* ---------------- why [nslots <= 3] is a hypothesis ---------------- *)
(* With four slots the top hash of slot 3 is shifted by 64 - 20*4 = 0 (nat subtraction) in [top_val]: it overlaps
   the mutex bit, [word_val] is no longer injective on bit 0, and the CAS of the MODEL (a comparison of [word_val])
   lets a lock be stolen.  Thread 1 loads the unlocked word (slot 3: erased, stale top hash 17), thread 2 locks the
   bucket and stores top hash 0 with the presence bit (1 + 16 = 17) into slot 3, thread 1's CAS then succeeds:
   both program counters hold (0, 0).  map.go has three entries per bucket; the extracted instance has nslots = 3. *)
Definition ex4_st k v : @sop nat nat := SCompute k (fun _ => Some v) false false false.
Definition ex4_del k : @sop nat nat := SCompute k (fun _ => None) false false false.
Definition ex4_hash := (fun (k : nat) (_ : N) => N.of_nat k).
Definition ex4_idx := (fun (h : N) len => Nat.modulo (N.to_nat h) len).
Definition ex4_run (sched : list nat) : @mstate nat nat :=
  fst (@srun nat nat Nat.eq_dec ex4_hash ex4_idx (fun h => h) 4%nat (fun _ => 0%N)
             (fun _ _ => false) (fun _ _ => false) (fun _ => 1%nat) 1%nat false
             (sinit 4%nat (fun _ => 0%N) (fun _ => 1%nat) 1%nat
                    (fun t => match t with
                              | 0 => [ex4_st 100 1; ex4_st 101 1; ex4_st 102 1; ex4_st 17 1; ex4_del 17]
                              | 1 => [ex4_st 5 1] | 2 => [ex4_st 0 1] | _ => [] end)%nat)
             sched).
Example hslots_needed :
  let s := ex4_run (repeat 0 100 ++ repeat 1 3 ++ repeat 2 9 ++ [1])%nat in
  sholds ex4_hash ex4_idx 4%nat (fun _ => 1%nat) s (h_pc s 1%nat) = Some (0%nat, 0%nat)
  /\ sholds ex4_hash ex4_idx 4%nat (fun _ => 1%nat) s (h_pc s 2%nat) = Some (0%nat, 0%nat)
  /\ lock_of 4%nat (fun _ => 1%nat) s 0%nat 0%nat = Some 1%nat.
Proof. repeat split; vm_compute; reflexivity. Qed.
