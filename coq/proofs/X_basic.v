(* X_basic.v -- plumbing for the proofs about XMachine: list updates, table
   lookups after updates, what never changes in a table. *)
From CacheV Require Import Base SpecMap XMachine.
From Coq Require Import NArith.
Local Open Scope nat_scope.

Section B.
  Context {K V : Type}.
  Variable nslots : nat.
  Variable nstripes : nat -> nat.

  Notation xtable := (@xtable K V).
  Notation xstate := (@xstate K V).
  Notation tab_at := (@tab_at K V nslots nstripes).
  Notation upd_nth := XMachine.upd_nth.

  Lemma upd_nth_length {X} (l : list X) i f : length (upd_nth l i f) = length l.
  Proof. revert i. induction l as [|x r IH]; intros [|i]; cbn; auto. Qed.

  Lemma nth_upd_nth {X} (l : list X) i j f d :
    nth j (upd_nth l i f) d = if Nat.eq_dec j i then (if Nat.ltb i (length l) then f (nth i l d) else d) else nth j l d.
  Proof.
    revert i j. induction l as [|x r IH]; intros i j.
    - cbn [XMachine.upd_nth length]. destruct (Nat.eq_dec j i); [|reflexivity].
      replace (Nat.ltb i 0) with false by (symmetry; apply Nat.ltb_ge; lia). destruct j; reflexivity.
    - destruct i as [|i], j as [|j]; cbn [XMachine.upd_nth nth length].
      + destruct (Nat.eq_dec 0 0); [reflexivity|congruence].
      + destruct (Nat.eq_dec (S j) 0); [lia|reflexivity].
      + destruct (Nat.eq_dec 0 (S i)); [lia|reflexivity].
      + rewrite IH. destruct (Nat.eq_dec j i), (Nat.eq_dec (S j) (S i)); try lia; try reflexivity.
  Qed.

  Lemma upd_nth_overflow {X} (l : list X) i f : length l <= i -> upd_nth l i f = l.
  Proof.
    revert i. induction l as [|x r IH]; intros [|i] H; cbn in *; auto; try lia. rewrite IH by lia. reflexivity.
  Qed.

  Lemma nth_upd_nth_same {X} (l : list X) i f d : i < length l -> nth i (upd_nth l i f) d = f (nth i l d).
  Proof.
    intros H. rewrite nth_upd_nth. destruct (Nat.eq_dec i i); [|congruence].
    apply Nat.ltb_lt in H. rewrite H. reflexivity.
  Qed.

  Lemma nth_upd_nth_other {X} (l : list X) i j f d : j <> i -> nth j (upd_nth l i f) d = nth j l d.
  Proof. intros H. rewrite nth_upd_nth. destruct (Nat.eq_dec j i); [contradiction|reflexivity]. Qed.

  (* ---- tables ---- *)

  Lemma x_len_set_lock (tb : xtable) b o : x_len (set_lock tb b o) = x_len tb.
  Proof. reflexivity. Qed.
  Lemma x_len_set_chain (tb : xtable) b f : x_len (set_chain tb b f) = x_len tb.
  Proof. unfold x_len, set_chain. cbn. apply upd_nth_length. Qed.
  Lemma x_len_add_size (tb : xtable) b d : x_len (add_size tb b d) = x_len tb.
  Proof. reflexivity. Qed.

  Lemma lock_of_set_lock (tb : xtable) b o b' : b < length (x_locks tb) ->
    lock_of (set_lock tb b o) b' = if Nat.eq_dec b' b then o else lock_of tb b'.
  Proof.
    intros H. unfold lock_of, set_lock. cbn. rewrite nth_upd_nth.
    destruct (Nat.eq_dec b' b); [|reflexivity]. apply Nat.ltb_lt in H. rewrite H. reflexivity.
  Qed.

  Lemma lock_of_set_chain (tb : xtable) b f b' : lock_of (set_chain tb b f) b' = lock_of tb b'.
  Proof. reflexivity. Qed.
  Lemma lock_of_add_size (tb : xtable) b d b' : lock_of (add_size tb b d) b' = lock_of tb b'.
  Proof. reflexivity. Qed.

  Lemma tab_at_set_tab (s : xstate) i f j : i < length (g_tabs s) ->
    tab_at (set_tab s i f) j = if Nat.eq_dec j i then f (tab_at s i) else tab_at s j.
  Proof.
    intros H. unfold XMachine.tab_at, set_tab. cbn [g_tabs]. rewrite nth_upd_nth.
    destruct (Nat.eq_dec j i); [|reflexivity]. apply Nat.ltb_lt in H. rewrite H. reflexivity.
  Qed.

  Lemma tab_at_set_pc (s : xstate) t p j : tab_at (set_pc s t p) j = tab_at s j.
  Proof. reflexivity. Qed.
  Lemma tab_at_set_flags (s : xstate) c r m j : tab_at (set_flags s c r m) j = tab_at s j.
  Proof. reflexivity. Qed.

  Lemma tab_at_push_old (s : xstate) tb j : j < length (g_tabs s) -> tab_at (push_tab s tb) j = tab_at s j.
  Proof. intros H. unfold XMachine.tab_at, push_tab. cbn [g_tabs]. apply app_nth1. exact H. Qed.

  Lemma tab_at_push_new (s : xstate) tb : tab_at (push_tab s tb) (length (g_tabs s)) = tb.
  Proof. unfold XMachine.tab_at, push_tab. cbn [g_tabs]. rewrite app_nth2 by lia. rewrite Nat.sub_diag. reflexivity. Qed.

  Lemma g_pc_set_pc (s : xstate) t p t' : g_pc (set_pc s t p) t' = if Nat.eq_dec t' t then p else g_pc s t'.
  Proof. reflexivity. Qed.

End B.
