(* CX_product.v -- Stage C, generic part: the PRODUCT MACHINE "threads running the cache
   methods over a concurrent map machine", for any map machine given by an interface, and
   the theorem that its cache-level histories are linearizable.

   The map machine: states XS; [step s t] = one primitive step of thread t, with the
   invocation / response events it contributes to the map-level history; per thread a
   list of calls still to make ([todo], replaced wholesale by [wtodo]); [idle s t] = thread
   t stands between calls.  What is assumed of it (the hypotheses of the section; they are
   proved for XMachine in CX_mapof.v and for XMachineS in CX_map.v):
     - [H_frame]: steps do not depend on what lies further down the todo lists;
     - [H_proto]: the call protocol -- a step of t changes nobody else's todo list or
       idleness; an idle thread either makes a silent step, or pops the head of its todo
       list and invokes it (and may answer in the same step); a thread inside a call
       makes silent steps until the step that answers, after which it is idle;
     - [H_lin]: every run from an initial state, whatever the (fixed) todo lists of
       translated calls, is linearizable w.r.t. the machine's specification;
     - [H_transfer]: the specification of translated calls is that of the cache's map
       calls (CX_trans.v).

   The product machine [pstep]: a thread runs its cache program as in Conc.v, except that
   [MapCall mo k] (a) appends the translation of mo to the thread's todo list in the map
   machine, (b) lets the map machine's thread run -- one primitive step per move of the
   schedule, interleaved with everybody else's moves -- until it answers r, and (c)
   continues with [k (bk mo r)].  CSnapshot is, as in Conc.v, one step with an arbitrary
   answer; a call the machine cannot do linearizably ([sup mo = false]: CSize) blocks.

   The todo lists of the map machine are thus filled DYNAMICALLY, by the programs; the
   machines' theorems are about todo lists fixed in advance.  [prophecy]: every run of
   the product machine drives the map machine through a run it also has from the initial
   state whose todo lists are what the threads WILL push (H_frame).

   [product_linearizable]: if every run of Conc.v's atomic-map machine is linearizable
   w.r.t. a specification, so is the cache-level history of every run of the product
   machine. *)
From CacheV Require Import Base SpecMap Client Ops Lin Conc.
From CacheV.proofs Require Import CX_trans CX_compose.
Local Open Scope nat_scope.

Lemma hrel_ext {Op1 Res1 Op2 Res2 : Type} (f : Op2 -> Op1) (g : Op2 -> Res1 -> Res2) (ok2 : Op2 -> Prop)
    p h1 h2 : hrel f g ok2 p h1 h2 -> forall p', (forall t, p t = p' t) -> hrel f g ok2 p' h1 h2.
Proof.
  induction 1 as [p | p t o h1 h2 Hok H IH | p t o r h1 h2 Hp H IH]; intros p' He.
  - constructor.
  - constructor; [exact Hok|]. apply IH. intros t'. unfold upd. destruct (Nat.eq_dec t' t); [reflexivity | apply He].
  - constructor; [rewrite <- He; exact Hp|]. apply IH. intros t'. unfold upd. destruct (Nat.eq_dec t' t); [reflexivity | apply He].
Qed.

Lemma hrel_ok_mono {Op1 Res1 Op2 Res2 : Type} (f : Op2 -> Op1) (g : Op2 -> Res1 -> Res2) (ok2 ok2' : Op2 -> Prop)
    p h1 h2 : (forall o, ok2 o -> ok2' o) -> hrel f g ok2 p h1 h2 -> hrel f g ok2' p h1 h2.
Proof.
  intros Hm. induction 1 as [p | p t o h1 h2 Hok H IH | p t o r h1 h2 Hp H IH].
  - constructor.
  - constructor; [apply Hm; exact Hok | exact IH].
  - constructor; [exact Hp | exact IH].
Qed.

Section Product.
  Context {K V : Type}.
  Variable eqd : forall a b : K, {a = b} + {a <> b}.
  Variable progs : cop K V -> prog K V (cres K V).
  Variables NOW DFLT : Z.
  Variable CB : cbid.

  Notation item := (item V).
  Notation cop := (cop K V).
  Notation cres := (cres K V).
  Notation cmop := (cmop K V).
  Notation imres := (imres K V).
  Notation prog := (prog K V cres).
  Notation env0 := (Conc.env0 NOW DFLT).
  Notation cmspec := (@cmspec K V eqd env0).
  Notation crun := (crun eqd progs NOW DFLT CB).
  Notation history := (@history K V).
  Notation out := (@out K V).
  Notation vconf := (@vconf K V).
  Notation vst := (@vst K V).
  Notation vstep := (vstep progs NOW DFLT CB).
  Notation vtrace := (vtrace progs NOW DFLT CB).

  (* ---------------- the map machine ---------------- *)

  Variables XS XO XR XSt : Type.
  Variable step : XS -> nat -> option (XS * list (hev XO XR)).
  Variable todo : XS -> nat -> list XO.
  Variable wtodo : XS -> (nat -> list XO) -> XS.
  Variable idle : XS -> nat -> Prop.
  Variable xinit : (nat -> list XO) -> XS.
  Variable xspec : XSt -> XO -> XR -> XSt -> Prop.
  Variable x0 : XSt.
  Variable xok : XO -> Prop.

  (* the translation *)
  Variable tr : cmop -> XO.
  Variable bk : cmop -> XR -> imres.
  Variable sup : cmop -> bool.
  Definition mok (o : cmop) : Prop := sup o = true.

  Fixpoint mrun (s : XS) (sched : list nat) : XS * list (hev XO XR) :=
    match sched with
    | [] => (s, [])
    | t :: rest =>
        match step s t with
        | Some (s', h) => let '(s'', h') := mrun s' rest in (s'', h ++ h')
        | None => mrun s rest
        end
    end.

  Hypothesis H_todo_w : forall s td t, todo (wtodo s td) t = td t.
  Hypothesis H_idle_w : forall s td t, idle (wtodo s td) t <-> idle s t.
  Hypothesis H_ww : forall s a b, wtodo (wtodo s a) b = wtodo s b.
  Hypothesis H_init_todo : forall td t, todo (xinit td) t = td t.
  Hypothesis H_init_idle : forall td t, idle (xinit td) t.
  Hypothesis H_init_w : forall a b, wtodo (xinit a) b = xinit b.

  Hypothesis H_frame : forall s t s' h td fut,
    step s t = Some (s', h) -> (forall u, td u = todo s u ++ fut u) ->
    exists td', step (wtodo s td) t = Some (wtodo s' td', h) /\ forall u, td' u = todo s' u ++ fut u.

  Hypothesis H_proto : forall s t s' h, step s t = Some (s', h) ->
    (forall u, u <> t -> todo s' u = todo s u /\ (idle s u -> idle s' u))
    /\ ( (idle s t /\ h = [] /\ idle s' t /\ todo s' t = todo s t)
         \/ (idle s t /\ exists o rest, todo s t = o :: rest /\ todo s' t = rest
                        /\ (h = [HInv t o] \/ exists r, h = [HInv t o; HRes t r] /\ idle s' t))
         \/ (~ idle s t /\ todo s' t = todo s t /\ (h = [] \/ exists r, h = [HRes t r] /\ idle s' t)) ).

  Hypothesis H_ok : forall o, mok o -> xok (tr o).

  Hypothesis H_lin : forall td sched, (forall t, Forall xok (td t)) ->
    linearizable XO XR XSt xspec x0 (snd (mrun (xinit td) sched)).

  Hypothesis H_transfer : forall hx hm, hrel tr bk mok (fun _ => None) hx hm ->
    linearizable XO XR XSt xspec x0 hx -> linearizable cmop imres _ cmspec [] hm.

  (* ---------------- the product machine ---------------- *)

  Inductive qst :=
  | QIdle
  | QRun (o : cop) (p : prog)
  | QPushed (o : cop) (mo : cmop) (k : imres -> prog)     (* the call is in the todo list of the map machine *)
  | QWait (o : cop) (mo : cmop) (k : imres -> prog).      (* the map machine has invoked it *)

  Record pconf := { p_x : XS; p_thr : nat -> qst; p_todo : nat -> list cop }.

  Definition push (s : XS) (t : nat) (xo : XO) : XS := wtodo s (upd (todo s) t (todo s t ++ [xo])).

  (* an event of the map machine, seen by the thread that waits for it *)
  Definition feed (t : nat) (q : qst) (e : hev XO XR) : qst * list out :=
    match e, q with
    | HInv _ _, QPushed o mo k => (QWait o mo k, [OM (HInv t mo)])
    | HRes _ r, QWait o mo k => (QRun o (k (bk mo r)), [OM (HRes t (bk mo r))])
    | _, _ => (q, [])          (* does not happen: H_proto *)
    end.

  Fixpoint feeds (t : nat) (q : qst) (es : list (hev XO XR)) : qst * list out :=
    match es with
    | [] => (q, [])
    | e :: r => let '(q1, o1) := feed t q e in let '(q2, o2) := feeds t q1 r in (q2, o1 ++ o2)
    end.

  Definition pset (p : pconf) (t : nat) (q : qst) : pconf :=
    {| p_x := p_x p; p_thr := upd (p_thr p) t q; p_todo := p_todo p |}.

  Definition xmove (p : pconf) (t : nat) : option (pconf * list out * list (hev XO XR)) :=
    match step (p_x p) t with
    | None => None
    | Some (x', h) =>
        let '(q', os) := feeds t (p_thr p t) h in
        Some ({| p_x := x'; p_thr := upd (p_thr p) t q'; p_todo := p_todo p |}, os, h)
    end.

  (* one move of thread t; [orc] = what a snapshot answers, if that is the move.
     Result: the new configuration, the events of the combined trace, the events of the
     map machine *)
  Definition pstep (p : pconf) (t : nat) (orc : list (K * item)) : option (pconf * list out * list (hev XO XR)) :=
    match p_thr p t with
    | QIdle =>
        match p_todo p t with
        | [] => None
        | o :: rest =>
            Some ({| p_x := p_x p; p_thr := upd (p_thr p) t (QRun o (progs o)); p_todo := upd (p_todo p) t rest |},
                  [OC (HInv t o)], [])
        end
    | QRun o pr =>
        match pr with
        | Ret r => Some (pset p t QIdle, [OC (HRes t r)], [])
        | MapCall mo k =>
            match mo with
            | CSnapshot => Some (pset p t (QRun o (k (RSnap orc))), [], [])
            | _ => if sup mo
                   then Some ({| p_x := push (p_x p) t (tr mo); p_thr := upd (p_thr p) t (QPushed o mo k);
                                 p_todo := p_todo p |}, [], [])
                   else None
            end
        | ReadNow k => Some (pset p t (QRun o (k NOW)), [], [])
        | ReadDflt k => Some (pset p t (QRun o (k DFLT)), [], [])
        | ReadCb k => Some (pset p t (QRun o (k CB)), [], [])
        | Emit _ k => Some (pset p t (QRun o k), [], [])
        | WriteDflt _ _ | WriteCb _ _ => None
        end
    | QPushed _ _ _ | QWait _ _ _ => xmove p t
    end.

  Fixpoint prun (p : pconf) (sched : list (nat * list (K * item))) : pconf * list out * list (hev XO XR) :=
    match sched with
    | [] => (p, [], [])
    | (t, orc) :: rest =>
        match pstep p t orc with
        | Some (p', os, h) => let '(p'', os', h') := prun p' rest in (p'', os ++ os', h ++ h')
        | None => prun p rest
        end
    end.

  Definition pinit (todo0 : nat -> list cop) : pconf :=
    {| p_x := xinit (fun _ => []); p_thr := fun _ => QIdle; p_todo := todo0 |}.

  (* the cache-level history of a run *)
  Definition phist (todo0 : nat -> list cop) sched : list (hev cop cres) :=
    cproj (snd (fst (prun (pinit todo0) sched))).

  (* ---------------- the invariant ---------------- *)

  Definition PI (p : pconf) : Prop :=
    forall t, match p_thr p t with
              | QIdle | QRun _ _ => todo (p_x p) t = [] /\ idle (p_x p) t
              | QPushed o mo k => todo (p_x p) t = [tr mo] /\ idle (p_x p) t /\ mok mo /\ mo <> CSnapshot
              | QWait o mo k => todo (p_x p) t = [] /\ mok mo
              end.

  (* the client's view of a product thread *)
  Definition vq (q : qst) : vst :=
    match q with
    | QIdle => VIdle
    | QRun o p => VRun o p
    | QPushed o mo k => VRun o (MapCall mo k)
    | QWait o mo k => VWait o mo k
    end.

  Definition vof (p : pconf) : vconf := {| v_thr := fun t => vq (p_thr p t); v_todo := p_todo p |}.

  Definition pq (q : qst) : option cmop := match q with QWait _ mo _ => Some mo | _ => None end.
  Definition pend_of (p : pconf) : nat -> option cmop := fun t => pq (p_thr p t).

  Notation hrel' := (hrel tr bk mok).

  (* what a move does, for the three things we track *)
  Definition move_ok (p p1 : pconf) (os : list out) (h : list (hev XO XR)) : Prop :=
    PI p1
    /\ (forall hx' hm', hrel' (pend_of p1) hx' hm' -> hrel' (pend_of p) (h ++ hx') (mproj os ++ hm'))
    /\ (forall outs', vtrace (vof p1) outs' -> vtrace (vof p) (os ++ outs')).

  Lemma pend_upd p x1 td1 t q u :
    pend_of {| p_x := x1; p_thr := upd (p_thr p) t q; p_todo := td1 |} u = upd (pend_of p) t (pq q) u.
  Proof. unfold pend_of; cbn. unfold upd. destruct (Nat.eq_dec u t); reflexivity. Qed.

  Lemma vof_upd p x1 t q :
    veq (vset (vof p) t (vq q)) (vof {| p_x := x1; p_thr := upd (p_thr p) t q; p_todo := p_todo p |}).
  Proof. split; cbn; [|reflexivity]. intros u. unfold upd. destruct (Nat.eq_dec u t); reflexivity. Qed.

  Lemma upd_same_ext {X} (f : nat -> X) t x u : x = f t -> upd f t x u = f u.
  Proof. intros ->. unfold upd. destruct (Nat.eq_dec u t) as [->|]; reflexivity. Qed.

  Lemma vstep_minv (c : vconf) t o mo k : v_thr c t = VRun o (MapCall mo k) -> mo <> CSnapshot ->
    vstep c (AMInv t) = Some (vset c t (VWait o mo k), [OM (HInv t mo)]).
  Proof. intros E Hn. cbn [CX_compose.vstep]. rewrite E. destruct mo; try reflexivity. exfalso; apply Hn; reflexivity. Qed.

  Lemma vstep_mres (c : vconf) t o mo k r : v_thr c t = VWait o mo k ->
    vstep c (AMRes t r) = Some (vset c t (VRun o (k r)), [OM (HRes t r)]).
  Proof. intros E. cbn [CX_compose.vstep]. rewrite E. reflexivity. Qed.

  Lemma PI_xmove p t x1 q1 :
    PI p ->
    (forall u, u <> t -> todo x1 u = todo (p_x p) u /\ (idle (p_x p) u -> idle x1 u)) ->
    match q1 with
    | QIdle | QRun _ _ => todo x1 t = [] /\ idle x1 t
    | QPushed o mo k => todo x1 t = [tr mo] /\ idle x1 t /\ mok mo /\ mo <> CSnapshot
    | QWait o mo k => todo x1 t = [] /\ mok mo
    end ->
    PI {| p_x := x1; p_thr := upd (p_thr p) t q1; p_todo := p_todo p |}.
  Proof.
    intros HP Ho Ht u. cbn. unfold upd. destruct (Nat.eq_dec u t) as [->|Hn]; [exact Ht|].
    pose proof (HP u) as Hu. destruct (Ho u Hn) as [A B]. rewrite A.
    destruct (p_thr p u); intuition.
  Qed.

  (* a move that neither the client nor the history sees *)
  Lemma silent_ok p t x1 q1 : PI p ->
    PI {| p_x := x1; p_thr := upd (p_thr p) t q1; p_todo := p_todo p |} ->
    vq q1 = vq (p_thr p t) -> pq q1 = pq (p_thr p t) ->
    move_ok p {| p_x := x1; p_thr := upd (p_thr p) t q1; p_todo := p_todo p |} [] [].
  Proof.
    intros HP HP1 Ev Ep. split; [exact HP1|]. split.
    - intros hx' hm' Hh. cbn [app mproj]. eapply hrel_ext; [exact Hh|].
      intros u. rewrite pend_upd. apply upd_same_ext. exact Ep.
    - intros outs' Hv. cbn [app]. eapply vtrace_veq; [|exact Hv].
      eapply veq_trans; [apply veq_sym; apply (vof_upd p x1 t q1)|].
      split; cbn; [|reflexivity]. intros u. exact (upd_same_ext (fun t0 => vq (p_thr p t0)) t (vq q1) u Ev).
  Qed.

  Lemma xmove_ok p t p1 os h : PI p ->
    match p_thr p t with QPushed _ _ _ | QWait _ _ _ => True | _ => False end ->
    xmove p t = Some (p1, os, h) -> move_ok p p1 os h.
  Proof.
    intros HP Hq E. unfold xmove in E.
    destruct (step (p_x p) t) as [[x1 h1]|] eqn:Es; [|discriminate E].
    destruct (H_proto _ _ _ _ Es) as [Ho Hc].
    pose proof (HP t) as Hpt.
    destruct (p_thr p t) as [| |o mo k|o mo k] eqn:Et; try contradiction.
    - (* the call is still in the todo list *)
      destruct Hpt as [Htd [Hid [Hmok Hns]]].
      destruct Hc as [[_ [Eh [Hid1 Htd1]]]|[[_ [xo [rest [Etd [Etd1 Eh]]]]]|[Hni _]]]; [| |contradiction].
      + (* a silent step (the goroutine starts) *)
        subst h1. cbn in E. inversion E; subst p1 os h; clear E.
        apply silent_ok; [exact HP | | rewrite Et; reflexivity | rewrite Et; reflexivity].
        apply PI_xmove; [exact HP | exact Ho | rewrite Htd1; auto].
      + rewrite Htd in Etd. inversion Etd; subst xo rest. clear Etd.
        destruct Eh as [Eh|[r [Eh Hid1]]]; subst h1; cbn in E; inversion E; subst p1 os h; clear E.
        * (* the invocation *)
          split; [apply PI_xmove; [exact HP | exact Ho | auto]|]. split.
          -- intros hx' hm' Hh. cbn [app mproj]. apply hrel_inv; [exact Hmok|].
             eapply hrel_ext; [exact Hh|]. intros u. apply pend_upd.
          -- intros outs' Hv. cbn [app].
             eapply (vt_step progs NOW DFLT CB (vof p) (AMInv t) _ [OM (HInv t mo)]);
               [apply (vstep_minv (vof p) t o mo k); [cbn; rewrite Et; reflexivity | exact Hns] | | exact Hv].
             apply (vof_upd p x1 t (QWait o mo k)).
        * (* invoked and answered in one step *)
          split; [apply PI_xmove; [exact HP | exact Ho | auto]|]. split.
          -- intros hx' hm' Hh. cbn [app mproj]. apply hrel_inv; [exact Hmok|].
             apply (hrel_res tr bk mok _ t mo r); [unfold upd; destruct (Nat.eq_dec t t); [reflexivity | congruence]|].
             eapply hrel_ext; [exact Hh|]. intros u. rewrite pend_upd. cbn [pq].
             unfold upd. destruct (Nat.eq_dec u t); reflexivity.
          -- intros outs' Hv. cbn [app].
             eapply (vt_step progs NOW DFLT CB (vof p) (AMInv t) _ [OM (HInv t mo)]);
               [apply (vstep_minv (vof p) t o mo k); [cbn; rewrite Et; reflexivity | exact Hns] | apply veq_refl |].
             eapply (vt_step progs NOW DFLT CB _ (AMRes t (bk mo r)) _ [OM (HRes t (bk mo r))]);
               [apply (vstep_mres _ t o mo k); cbn; unfold upd; destruct (Nat.eq_dec t t); [reflexivity | congruence] | | exact Hv].
             split; cbn; [|reflexivity]. intros u. unfold upd. destruct (Nat.eq_dec u t); reflexivity.
    - (* the call has been invoked *)
      destruct Hpt as [Htd Hmok].
      assert (Hsil : h1 = [] -> todo x1 t = todo (p_x p) t -> move_ok p p1 os h).
      { intros -> Htd1. cbn in E. inversion E; subst p1 os h; clear E.
        apply silent_ok; [exact HP | | rewrite Et; reflexivity | rewrite Et; reflexivity].
        apply PI_xmove; [exact HP | exact Ho | rewrite Htd1; auto]. }
      destruct Hc as [[_ [Eh [Hid1 Htd1]]]|[[_ [xo [rest [Etd [Etd1 Eh]]]]]|[Hni [Htd1 [Eh|[r [Eh Hid1]]]]]]].
      + apply Hsil; assumption.
      + rewrite Htd in Etd. discriminate Etd.
      + apply Hsil; assumption.
      + (* the answer *)
        subst h1. cbn in E. inversion E; subst p1 os h; clear E.
        split; [apply PI_xmove; [exact HP | exact Ho | rewrite Htd1; auto]|]. split.
        * intros hx' hm' Hh. cbn [app mproj].
          apply (hrel_res tr bk mok _ t mo r); [unfold pend_of; rewrite Et; reflexivity|].
          eapply hrel_ext; [exact Hh|]. intros u. apply pend_upd.
        * intros outs' Hv. cbn [app].
          eapply (vt_step progs NOW DFLT CB (vof p) (AMRes t (bk mo r)) _ [OM (HRes t (bk mo r))]);
            [apply (vstep_mres (vof p) t o mo k); cbn; rewrite Et; reflexivity | | exact Hv].
          apply (vof_upd p x1 t (QRun o (k (bk mo r)))).
  Qed.

  (* a move of the client alone: the map machine is not touched *)
  Lemma client_move p t q a os :
    PI p ->
    match q with QIdle | QRun _ _ => True | _ => False end ->
    match p_thr p t with QIdle | QRun _ _ => True | _ => False end ->
    mproj os = [] ->
    vstep (vof p) a = Some (vset (vof p) t (vq q), os) ->
    move_ok p (pset p t q) os [].
  Proof.
    intros HP Hq Ht Hm Hv. pose proof (HP t) as Hpt. split; [|split].
    - apply PI_xmove; [exact HP | intros u _; auto |].
      destruct (p_thr p t); try contradiction; destruct q; try contradiction; exact Hpt.
    - intros hx' hm' Hh. rewrite Hm. cbn [app]. eapply hrel_ext; [exact Hh|].
      intros u. unfold pset. rewrite pend_upd. apply upd_same_ext. unfold pend_of.
      destruct (p_thr p t); try contradiction; destruct q; try contradiction; reflexivity.
    - intros outs' Ho. eapply vt_step; [exact Hv | | exact Ho]. apply (vof_upd p (p_x p) t q).
  Qed.

  (* the call goes into the todo list of the map machine *)
  Lemma push_ok p t o mo k : PI p -> p_thr p t = QRun o (MapCall mo k) -> mok mo -> mo <> CSnapshot ->
    move_ok p {| p_x := push (p_x p) t (tr mo); p_thr := upd (p_thr p) t (QPushed o mo k); p_todo := p_todo p |} [] [].
  Proof.
    intros HP Et Hsup Hns. pose proof (HP t) as Hpt. rewrite Et in Hpt. destruct Hpt as [Htd Hid].
    split; [|split].
    - intros u. cbn. unfold upd at 1. destruct (Nat.eq_dec u t) as [->|Hn].
      + unfold push. rewrite H_todo_w. unfold upd. destruct (Nat.eq_dec t t) as [_|Hc]; [|congruence].
        rewrite Htd. split; [reflexivity|]. split; [apply H_idle_w; exact Hid|]. split; [exact Hsup | exact Hns].
      + pose proof (HP u) as Hu. unfold push. rewrite H_todo_w. unfold upd. destruct (Nat.eq_dec u t) as [Hc|_]; [contradiction|].
        destruct (p_thr p u); rewrite ?H_idle_w; exact Hu.
    - intros hx' hm' Hh. cbn [app mproj]. eapply hrel_ext; [exact Hh|].
      intros u. rewrite pend_upd. apply upd_same_ext. unfold pend_of. rewrite Et. reflexivity.
    - intros outs' Hv. cbn [app]. eapply vtrace_veq; [|exact Hv].
      split; cbn; [|reflexivity]. intros u. unfold upd. destruct (Nat.eq_dec u t) as [->|]; [rewrite Et|]; reflexivity.
  Qed.

  Lemma pstep_ok p t orc p1 os h : PI p -> pstep p t orc = Some (p1, os, h) -> move_ok p p1 os h.
  Proof.
    intros HP E. unfold pstep in E. pose proof (HP t) as Hpt.
    destruct (p_thr p t) as [|o pr|o mo k|o mo k] eqn:Et.
    - (* invoke a cache method *)
      destruct (p_todo p t) as [|o rest] eqn:Etd; [discriminate E|]. inversion E; subst p1 os h; clear E.
      split; [|split].
      + intros u. cbn. unfold upd. destruct (Nat.eq_dec u t) as [->|]; [exact Hpt | apply HP].
      + intros hx' hm' Hh. cbn [app mproj]. eapply hrel_ext; [exact Hh|].
        intros u. rewrite pend_upd. apply upd_same_ext. unfold pend_of. rewrite Et. reflexivity.
      + intros outs' Hv.
        eapply (vt_step progs NOW DFLT CB (vof p) (AInv t)); [cbn; rewrite Et, Etd; reflexivity | | exact Hv].
        split; cbn; intros u; unfold upd; destruct (Nat.eq_dec u t); reflexivity.
    - destruct pr as [r|mo k|k|k|d k|k|cb k|e k]; try discriminate E.
      + inversion E; subst p1 os h; clear E.
        apply (client_move p t QIdle (ARet t)); [exact HP | exact I | rewrite Et; exact I | reflexivity |].
        cbn. rewrite Et. reflexivity.
      + destruct mo.
        1-7: destruct (sup _) eqn:Hsup; [|discriminate E]; inversion E; subst p1 os h; clear E.
        1-7: apply push_ok; [exact HP | exact Et | exact Hsup | discriminate].
        inversion E; subst p1 os h; clear E.
        apply (client_move p t (QRun o (k (RSnap orc))) (ASnap t orc)); [exact HP | exact I | rewrite Et; exact I | reflexivity |].
        cbn. rewrite Et. reflexivity.
      + inversion E; subst p1 os h; clear E.
        apply (client_move p t (QRun o (k NOW)) (ATau t)); [exact HP | exact I | rewrite Et; exact I | reflexivity |].
        cbn. rewrite Et. reflexivity.
      + inversion E; subst p1 os h; clear E.
        apply (client_move p t (QRun o (k DFLT)) (ATau t)); [exact HP | exact I | rewrite Et; exact I | reflexivity |].
        cbn. rewrite Et. reflexivity.
      + inversion E; subst p1 os h; clear E.
        apply (client_move p t (QRun o (k CB)) (ATau t)); [exact HP | exact I | rewrite Et; exact I | reflexivity |].
        cbn. rewrite Et. reflexivity.
      + inversion E; subst p1 os h; clear E.
        apply (client_move p t (QRun o k) (ATau t)); [exact HP | exact I | rewrite Et; exact I | reflexivity |].
        cbn. rewrite Et. reflexivity.
    - apply (xmove_ok p t p1 os h HP); [rewrite Et; exact I | exact E].
    - apply (xmove_ok p t p1 os h HP); [rewrite Et; exact I | exact E].
  Qed.

  Lemma prun_cons p t orc rest :
    prun p ((t, orc) :: rest) =
    match pstep p t orc with
    | Some (p', os, h) => (fst (fst (prun p' rest)), os ++ snd (fst (prun p' rest)), h ++ snd (prun p' rest))
    | None => prun p rest
    end.
  Proof. cbn [prun]. destruct (pstep p t orc) as [[[p' os] h]|]; [|reflexivity]. destruct (prun p' rest) as [[p'' os'] h']. reflexivity. Qed.

  (* along a run: the combined trace is a trace of the client, and its map-level
     projection is the image of the map machine's history *)
  Lemma prun_ok sched : forall p, PI p ->
    hrel' (pend_of p) (snd (prun p sched)) (mproj (snd (fst (prun p sched))))
    /\ vtrace (vof p) (snd (fst (prun p sched))).
  Proof.
    induction sched as [|[t orc] rest IH]; intros p HP.
    - cbn. split; constructor.
    - rewrite prun_cons. destruct (pstep p t orc) as [[[p1 os] h]|] eqn:E; [|apply IH; exact HP].
      cbn [fst snd]. destruct (pstep_ok p t orc p1 os h HP E) as [HP1 [Hh Hv]].
      destruct (IH p1 HP1) as [A B]. rewrite mproj_app. split; [apply Hh; exact A | apply Hv; exact B].
  Qed.

  (* ---------------- the prophecy: dynamic todo lists are todo lists fixed in advance ---------------- *)

  Lemma pstep_kind p t orc p1 os h : pstep p t orc = Some (p1, os, h) ->
    (p_x p1 = p_x p /\ h = [])
    \/ (exists mo, mok mo /\ p_x p1 = push (p_x p) t (tr mo) /\ h = [])
    \/ step (p_x p) t = Some (p_x p1, h).
  Proof.
    intros E. unfold pstep in E.
    assert (Hx : xmove p t = Some (p1, os, h) -> step (p_x p) t = Some (p_x p1, h)).
    { unfold xmove. destruct (step (p_x p) t) as [[x1 h1]|]; [|discriminate].
      destruct (feeds t (p_thr p t) h1). intros E'. inversion E'; subst. reflexivity. }
    destruct (p_thr p t) as [|o pr|o mo k|o mo k].
    - destruct (p_todo p t); [discriminate E|]. inversion E; subst. left. split; reflexivity.
    - destruct pr as [r|mo k|k|k|d k|k|cb k|e k]; try discriminate E;
        try (inversion E; subst; left; split; reflexivity).
      destruct mo; try (inversion E; subst; left; split; reflexivity);
        (destruct (sup _) eqn:Hsup; [|discriminate E]; inversion E; subst; right; left;
         eexists; split; [exact Hsup|]; split; reflexivity).
    - right; right. apply Hx. exact E.
    - right; right. apply Hx. exact E.
  Qed.

  Definition ahead (fut : nat -> list XO) (s s' : XS) : Prop :=
    exists td, s' = wtodo s td /\ forall u, td u = todo s u ++ fut u.

  Lemma mrun_cons s t rest :
    mrun s (t :: rest) = match step s t with
                         | Some (s', h) => (fst (mrun s' rest), h ++ snd (mrun s' rest))
                         | None => mrun s rest
                         end.
  Proof. cbn [mrun]. destruct (step s t) as [[s' h]|]; [|reflexivity]. destruct (mrun s' rest). reflexivity. Qed.

  Theorem prophecy sched : forall p,
    exists fut, (forall t, Forall xok (fut t))
      /\ forall s', ahead fut (p_x p) s' -> exists sched', snd (mrun s' sched') = snd (prun p sched).
  Proof.
    induction sched as [|[t orc] rest IH]; intros p.
    - exists (fun _ => []). split; [intros t; constructor|]. intros s' _. exists []. reflexivity.
    - rewrite prun_cons. destruct (pstep p t orc) as [[[p1 os] h]|] eqn:E; [|apply IH].
      cbn [snd]. destruct (IH p1) as [fut1 [Hok1 Hf1]].
      destruct (pstep_kind p t orc p1 os h E) as [[Ex Eh]|[[mo [Hmok [Ex Eh]]]|Es]].
      + subst h. exists fut1. split; [exact Hok1|]. intros s' Ha. rewrite <- Ex in Ha. apply (Hf1 s' Ha).
      + subst h. exists (upd fut1 t (tr mo :: fut1 t)). split.
        * intros u. unfold upd. destruct (Nat.eq_dec u t) as [->|]; [constructor; [apply H_ok; exact Hmok | apply Hok1] | apply Hok1].
        * intros s' [td [Es' Htd]]. apply Hf1. rewrite Ex. exists td. split.
          -- unfold push. rewrite H_ww. exact Es'.
          -- intros u. unfold push. rewrite H_todo_w. rewrite Htd. unfold upd.
             destruct (Nat.eq_dec u t) as [->|]; [rewrite <- app_assoc; reflexivity | reflexivity].
      + exists fut1. split; [exact Hok1|]. intros s' [td [Es' Htd]]. subst s'.
        destruct (H_frame _ _ _ _ td fut1 Es Htd) as [td' [Es1 Htd']].
        destruct (Hf1 (wtodo (p_x p1) td')) as [sched' Hs']; [exists td'; split; [reflexivity | exact Htd']|].
        exists (t :: sched'). rewrite mrun_cons, Es1. cbn [snd]. rewrite Hs'. reflexivity.
  Qed.

  (* ---------------- the theorems ---------------- *)

  Lemma PI_init todo0 : PI (pinit todo0).
  Proof. intros t. cbn. split; [apply H_init_todo | apply H_init_idle]. Qed.

  (* the map-level projection of every run of the product machine is linearizable w.r.t.
     the cache's map calls (one map_step per call) *)
  Theorem product_map_linearizable todo0 sched :
    linearizable cmop imres _ cmspec [] (mproj (snd (fst (prun (pinit todo0) sched)))).
  Proof.
    destruct (prun_ok sched (pinit todo0) (PI_init todo0)) as [Hh _].
    destruct (prophecy sched (pinit todo0)) as [fut [Hok Hf]].
    destruct (Hf (xinit fut)) as [sched' Hs'].
    { exists fut. split; [cbn; rewrite H_init_w; reflexivity|]. intros u. cbn. rewrite H_init_todo. reflexivity. }
    eapply H_transfer; [exact Hh|]. rewrite <- Hs'. apply H_lin. exact Hok.
  Qed.

  Theorem product_trace todo0 sched : vtrace (vinit todo0) (snd (fst (prun (pinit todo0) sched))).
  Proof. destruct (prun_ok sched (pinit todo0) (PI_init todo0)) as [_ Hv]. exact Hv. Qed.

  (* if the atomic-map machine of Conc.v is linearizable w.r.t. a specification, so is
     the product machine *)
  Theorem product_linearizable (St : Type) (spec : St -> cop -> cres -> St -> Prop) (S0 : St) todo0 sched :
    (forall sched', linearizable cop cres St spec S0 (history (snd (crun (cinit [] todo0) sched')))) ->
    linearizable cop cres St spec S0 (phist todo0 sched).
  Proof.
    intros Hall. unfold phist.
    apply (compose_trace_linearizable eqd progs NOW DFLT CB St spec S0 [] todo0); [exact Hall | apply product_trace | apply product_map_linearizable].
  Qed.

End Product.
Print Assumptions product_linearizable.
